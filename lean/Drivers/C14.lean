import Atomman.C14
open Atomman Atomman.C14
set_option linter.constructorNameAsVariable false

/-! line protocol of the C14 model driver (see harness/props/c14.py) -/

def optInt? (s : String) : Option (Option Int) :=
  if s = "-" then some none else s.toInt?.map some

def iv? : List Int → Option IV
  | [a, b, c] => some ⟨a, b, c⟩
  | _ => none

def m3i? : List Int → Option (M3 Int)
  | [a, b, c, d, e, f, g, h, i] => some ⟨⟨a, b, c⟩, ⟨d, e, f⟩, ⟨g, h, i⟩⟩
  | _ => none

def showV (v : V3 Rat) : String := showRats v.toList
def showIV (v : IV) : String := showInts v.toList
def showM3I (m : M3 Int) : String := showInts (m.r0.toList ++ m.r1.toList ++ m.r2.toList)

def parallelI (a b : IV) : Bool := V3.cross a b == (⟨0, 0, 0⟩ : IV)

/-- margin flags of one run of the routine: `aNear aExact bNear bExact cTie`.
    near = a competing candidate differs by less than the relative margin but is not equal;
    exact = an exactly tied competitor other than the winner (and, for `a`, its negative). -/
def marginFlags (vects : M3 Rat) (r : ABC Rat) (cb : IV) : List Bool :=
  let cands := genVectors r.n
  let m2 := fun v => V3.normSq (cart vects v)
  let dn := fun v => V3.dot (cart vects v) r.pn
  let inpl := cands.filter (fun v => decide (inPlane vects r.pn v))
  let ma := m2 r.a
  let aNear := inpl.any (fun v => m2 v ≠ ma && decide (m2 v < ma * (1 + 1/1000)) && decide (ma < m2 v * (1 + 1/1000)))
  let aExact := inpl.any (fun v => m2 v == ma && v != r.a && v != -r.a)
  let aC := cart vects r.a
  let bc := cands.filter (fun v => decide (bFilter vects r.pn aC v))
  let mb := m2 r.b
  let bNear := bc.any (fun v => m2 v ≠ mb && decide (m2 v < mb * (1 + 1/1000)) && decide (mb < m2 v * (1 + 1/1000)))
  let bExact := bc.any (fun v => m2 v == mb && v != r.b)
  let dc := dn cb; let mc := m2 cb
  let cTie := cands.any (fun v => decide (0 < dn v) && !parallelI v cb &&
    decide (dc * dc * m2 v * (1 - 1/100000000) < dn v * dn v * mc))
  -- initial bounds: a candidate within the margin of |[n,n,n]| makes `mag < a_mag` float-dependent
  let bound := m2 ⟨r.n, r.n, r.n⟩
  let nearBound := fun (m : Rat) => decide (bound < m * (1 + 1/1000)) && decide (m < bound * (1 + 1/1000))
  [aNear || nearBound ma, aExact, bNear || nearBound mb, bExact, cTie]

/-- the raw (unreduced) winner of the first search, needed for the tie flags. -/
def rawC (vects : M3 Rat) (r : ABC Rat) : IV :=
  match (search1 vects r.pn r.n).c with
  | some cb => cb.v
  | none => r.c

def hexTol : Rat := 1 / 10000000

def handleFsb (cut setting nS rhS kS : String) (rest : List String) : String :=
  match Cut.ofString? cut, optInt? nS, kS.toNat? with
  | some cut, some nOpt, some k =>
    if k ≠ 3 ∧ k ≠ 4 then err "value" else
    match parseInts? (rest.take k), parseRats? (rest.drop k) with
    | some idx, some vs =>
      match M3.ofList? vs with
      | none => err "format"
      | some vects =>
        let hex := isHexagonal vects hexTol
        -- 4-index input needs a hexagonal box; return_hexagonal default follows the input form
        let hkl? : Except String (IV × Bool) :=
          match idx with
          | [h, kk, i, l] =>
            if hex then
              match plane4to3 h kk i l with
              | some v => .ok (v, if rhS = "0" then false else true)
              | none => .error "value"
            else .error "value"
          | [h, kk, l] =>
            if rhS = "1" then (if hex then .ok (⟨h, kk, l⟩, true) else .error "value")
            else .ok (⟨h, kk, l⟩, false)
          | _ => .error "value"
        match hkl?, c2p setting with
        | .error e, _ => err e
        | _, none => err "value"
        | .ok (hkl, rh), some L =>
          match basisABC vects hkl L nOpt with
          | .error e => err e
          | .ok r =>
            let uv := orderRows cut r.a r.b r.c
            let flags := marginFlags vects r (rawC vects r)
            let body := if rh then
                "4 " ++ showRats (vector3to4 uv.r0 ++ vector3to4 uv.r1 ++ vector3to4 uv.r2)
              else "3 " ++ showM3I uv
            "ok " ++ body ++ " ; " ++ showM3I uv ++ " ; " ++ showV r.pn ++ " ; " ++ toString r.n ++ " ; " ++
              " ".intercalate (flags.map showBool)
    | _, _ => err "format"
  | _, _, _ => err "format"

def handleValid (cut setting nS : String) (rest : List String) : String :=
  match Cut.ofString? cut, optInt? nS, c2p setting with
  | some cut, some nOpt, some L =>
    match parseInts? (rest.take 3), parseRats? ((rest.drop 3).take 9), parseInts? (rest.drop 12), (rest.drop 21) with
    | some [h, k, l], some vs, some us, _ =>
      match M3.ofList? vs, m3i? (us.take 9), us.drop 9 with
      | some vects, some uvws, [tn, td] =>
        Rel.validBasis vects ⟨h, k, l⟩ L cut nOpt uvws (mkRat tn td.toNat)
      | _, _, _ => err "format"
    | _, _, _, _ => err "format"
  | _, _, _ => err "format"

def v3? : List Rat → Option (V3 Rat)
  | [a, b, c] => some ⟨a, b, c⟩
  | _ => none

def chunk3 : List Rat → List (V3 Rat)
  | a :: b :: c :: t => ⟨a, b, c⟩ :: chunk3 t
  | _ => []

def distInt (x : Rat) : Rat := let f : Rat := (x.floor : Int); min (x - f) (f + 1 - x)

def handleC14 (toks : List String) : String :=
  match toks with
  | ["c2p", setting] =>
    match c2p setting with
    | some L => showM3I L ++ " ; " ++ toString (M3.det L)
    | none => err "value"
  | ["p2c", setting, u, v, w] =>
    match c2p setting, parseInts? [u, v, w] with
    | some L, some [u, v, w] => showV (p2cRat L ⟨u, v, w⟩)
    | none, _ => err "value"
    | _, _ => err "format"
  | "fsb" :: cut :: setting :: nS :: rhS :: kS :: rest => handleFsb cut setting nS rhS kS rest
  | "valid" :: cut :: setting :: nS :: rest => handleValid cut setting nS rest
  | "init" :: rest =>
    match parseInts? rest with
    | some [h, k, l] =>
      match initVectors ⟨h, k, l⟩ with
      | some i => showIV i.a0 ++ " " ++ showIV i.b0 ++ " " ++ toString i.s
      | none => err "value"
    | _ => err "format"
  | "gen" :: [n] =>
    match n.toInt? with
    | some n => toString (genVectors n).length ++ " " ++ " ".intercalate (((genVectors n).take 12).map showIV)
    | none => err "format"
  | "compat" :: cut :: rest =>
    -- compat cut <9 ints uvws> <9 rats vects>  ->  ok flag | margin data (A·B, A·C, yz numerator, scale)
    match Cut.ofString? cut, parseInts? (rest.take 9), parseRats? (rest.drop 9) with
    | some cut, some us, some vs =>
      match m3i? us, M3.ofList? vs with
      | some uv, some vects =>
        let A := cart vects uv.r0; let B := cart vects uv.r1; let C := cart vects uv.r2
        showBool (cutCompatible cut A B C) ++ " " ++
          showRats [V3.dot A B, V3.dot A C, V3.dot B C * V3.dot A A - V3.dot A B * V3.dot A C,
                    V3.dot A A, V3.dot B B, V3.dot C C]
      | _, _ => err "format"
    | _, _, _ => err "format"
  | "layers" :: numdec :: rest =>
    match numdec.toNat?, parseRats? rest with
    | some d, some xs => showRats (layerCoords d xs)
    | _, _ => err "format"
  | "shifts" :: numdec :: tol :: w :: rest =>
    -- shifts numdec tol W <cut coordinates of the rcell atoms>
    match numdec.toNat?, parseRat? tol, parseRat? w, parseRats? rest with
    | some d, some tol, some w, some xs =>
      if xs.isEmpty then err "value" else
      let coords := layerCoords d xs
      showRats (shifts coords w tol) ++ " ; " ++ showRats coords
    | _, _, _, _ => err "format"
  | ["mult", m, q, even] =>
    match m.toInt?, optInt? q, parseBool? even with
    | some m, some q, some e => toString (cutMult m q e)
    | _, _, _ => err "format"
  | ["pbc", cut] =>
    match Cut.ofString? cut with
    | some c => " ".intercalate ((surfacePbc c).map showBool)
    | none => err "format"
  | "vac" :: cut :: rest =>
    -- vac cut vac <9 vects> <3 origin>
    match Cut.ofString? cut, parseRats? rest with
    | some c, some (vac :: xs) =>
      match M3.ofList? (xs.take 9), v3? (xs.drop 9) with
      | some vects, some o =>
        if vac < 0 then err "value" else
        let b := vacuumBox c ⟨vects, o⟩ vac
        showRats (b.vects.toList ++ b.origin.toList)
      | _, _ => err "format"
    | _, _ => err "format"
  | "fault" :: cut :: p0 :: p1 :: p2 :: rest =>
    -- fault cut pbc0 pbc1 pbc2 fp <3 shift> <9 vects> <3 origin> <3N positions>
    match Cut.ofString? cut, parseBool? p0, parseBool? p1, parseBool? p2, parseRats? rest with
    | some c, some p0, some p1, some p2, some (fp :: xs) =>
      match v3? (xs.take 3), M3.ofList? ((xs.drop 3).take 9), v3? ((xs.drop 12).take 3) with
      | some sh, some vects, some o =>
        let box : Box Rat := ⟨vects, o⟩
        if M3.det vects = 0 then err "value" else
        let ps := chunk3 (xs.drop 15)
        let pbc : V3 Bool := ⟨p0, p1, p2⟩
        let out := fault box pbc (fun x => x.floor) c fp sh ps
        -- margins: distance of the shifted scaled coordinates to an integer (periodic directions only),
        -- distance of the cut coordinate to the fault plane
        let moved := ps.map (fun p => if isAbove c fp p then p + sh else p)
        let mw := moved.foldl (fun m p =>
          let s := box.cartToRel p
          let m := if p0 then min m (distInt s.x) else m
          let m := if p1 then min m (distInt s.y) else m
          if p2 then min m (distInt s.z) else m) (1 : Rat)
        let mf := ps.foldl (fun m p => min m (ratAbs (p.get (cutIndex c) - fp))) (1000000 : Rat)
        let above := ps.map (fun p => showBool (isAbove c fp p))
        showRats (out.flatMap V3.toList) ++ " ; " ++ " ".intercalate above ++ " ; " ++ showRats [mw, mf]
      | _, _, _ => err "format"
    | _, _, _, _, _ => err "format"
  | "fshift" :: cut :: rest =>
    -- fshift cut a1 a2 oop <3 a1cart> <3 a2cart>
    match Cut.ofString? cut, parseRats? rest with
    | some c, some [a1, a2, oop, x1, y1, z1, x2, y2, z2] =>
      showV (faultShift a1 a2 oop ⟨x1, y1, z1⟩ ⟨x2, y2, z2⟩ c)
    | _, _ => err "format"
  | "push" :: cut :: rest =>
    -- push cut r dx dy dz  ->  radicand, d[cut]
    match Cut.ofString? cut, parseRats? rest with
    | some c, some [r, dx, dy, dz] =>
      showRats [pushRadicand c r ⟨dx, dy, dz⟩, (⟨dx, dy, dz⟩ : V3 Rat).get (cutIndex c)]
    | _, _ => err "format"
  | _ => err "op"

def main : IO Unit := runDriver handleC14
