import Atomman.C14
open Atomman Atomman.C14
set_option linter.constructorNameAsVariable false

/-! line protocol of the C14 model driver (see harness/props/c14.py) -/

def optInt? (s : String) : Option (Option Int) :=
  if s = "-" then some none else s.toInt?.map some

def iv? : List Int → Option IV
  | [a, b, c] => some ⟨a, b, c⟩
  | _ => none

def m3i? : List Int → Option (M3 Int)
  | [a, b, c, d, e, f, g, h, i] => some ⟨⟨a, b, c⟩, ⟨d, e, f⟩, ⟨g, h, i⟩⟩
  | _ => none

def showV (v : V3 Rat) : String := showRats v.toList
def showIV (v : IV) : String := showInts v.toList
def showM3I (m : M3 Int) : String := showInts (m.r0.toList ++ m.r1.toList ++ m.r2.toList)

def parallelI (a b : IV) : Bool := V3.cross a b == (⟨0, 0, 0⟩ : IV)

/-- scale a rational cell to integers: `(D, D • vects)` with `D` the lcm of the denominators.  Every
    comparison of the routine is homogeneous in the cell, so the model run at `K := Int` on `D • vects`
    takes exactly the decisions of the run at `K := Rat` on `vects` (cross-checked by `fsbq`). -/
def scaleInt (vects : M3 Rat) : Nat × M3 Int :=
  let D := vects.toList.foldl (fun d (x : Rat) => Nat.lcm d x.den) 1
  let f := fun (x : Rat) => (x * (D : Rat)).num
  (D, ⟨⟨f vects.r0.x, f vects.r0.y, f vects.r0.z⟩, ⟨f vects.r1.x, f vects.r1.y, f vects.r1.z⟩,
       ⟨f vects.r2.x, f vects.r2.y, f vects.r2.z⟩⟩)

/-- margin flags of one run of the routine: `aNear aExact bNear bExact cTie`.
    near = a competing candidate differs by less than the relative margin (1e-3 on squared lengths,
    1e-8 on squared cosines) but is not equal; exact = an exactly tied competitor other than the winner
    (and, for `a`, its negative). -/
def marginFlags (vects : M3 Int) (r : ABC Int) (cb : IV) : List Bool :=
  let data := (genVectors r.n).map (fun v =>
    let ct := cart vects v
    (v, V3.normSq ct, V3.dot ct r.pn, ct))
  let near := fun (x y : Int) => x ≠ y && decide (x * 1000 < y * 1001) && decide (y * 1000 < x * 1001)
  let inpl := data.filter (fun t => t.2.2.1 == 0)
  let aC := cart vects r.a
  let ma := V3.normSq aC
  let aNear := inpl.any (fun t => near t.2.1 ma)
  let aExact := inpl.any (fun t => t.2.1 == ma && t.1 != r.a && t.1 != -r.a)
  let bc := inpl.filter (fun t => decide (0 < V3.dot (V3.cross aC t.2.2.2) r.pn))
  let mb := V3.normSq (cart vects r.b)
  let bNear := bc.any (fun t => near t.2.1 mb)
  let bExact := bc.any (fun t => t.2.1 == mb && t.1 != r.b)
  let ctc := cart vects cb
  let dc := V3.dot ctc r.pn; let mc := V3.normSq ctc
  let cTie := data.any (fun t => decide (0 < t.2.2.1) && !parallelI t.1 cb &&
    decide (dc * dc * t.2.1 * 99999999 < t.2.2.1 * t.2.2.1 * mc * 100000000))
  let bound := V3.normSq (cart vects ⟨r.n, r.n, r.n⟩)
  [aNear || near ma bound || ma == bound, aExact, bNear || near mb bound, bExact, cTie]

/-- the raw (unreduced) winner of the first search, needed for the tie flags. -/
def rawC {K : Type} [Add K] [Sub K] [Mul K] [Zero K] [IntCast K] [LT K] [DecidableLT K] [DecidableEq K]
    (vects : M3 K) (r : ABC K) : IV :=
  match (search1 vects r.pn r.n).c with
  | some cb => cb.v
  | none => r.c

def hexTol : Rat := 1 / 10000000

/-- the record (`a`, `b`, `c`, the `maxindex` used, the normal) of the run behind a successful `fsbEntry`: read only
    for the diagnostics of the reply (`n`, margin flags); rows, output form and normal come from `fsbEntry`. -/
def fsbRecord {K : Type} [Add K] [Sub K] [Mul K] [Zero K] [IntCast K] [LT K] [DecidableLT K] [DecidableEq K]
    (vects : M3 K) (idx : List Int) (hex : Bool) (rh : Option Bool) (setting : String) (nOpt : Option Int) :
    Option (ABC K) :=
  match hklForm idx.length hex rh with
  | .ok (_, conv) =>
    match planeOf idx conv, c2p setting with
    | .ok hkl, some L =>
      match basisABC vects hkl L nOpt with
      | .ok r => some r
      | .error _ => none
    | _, _ => none
  | .error _ => none

def handleFsb (useRat : Bool) (cut setting nS rhS kS : String) (rest : List String) : String :=
  match Cut.ofString? cut, optInt? nS, kS.toNat? with
  | some cut, some nOpt, some k =>
    if k ≠ 3 ∧ k ≠ 4 then err "value" else
    match parseInts? (rest.take k), parseRats? (rest.drop k) with
    | some idx, some vs =>
      match M3.ofList? vs with
      | none => err "format"
      | some vects =>
        let hex := isHexagonal vects hexTol
        let rhOpt : Option Bool := if rhS = "1" then some true else if rhS = "0" then some false else none
        let render := fun (uv : M3 Int) (rh : Bool) (pn : V3 Rat) (n : Int) (flags : List Bool) =>
          let body := if rh then
              "4 " ++ showRats (vector3to4 uv.r0 ++ vector3to4 uv.r1 ++ vector3to4 uv.r2)
            else "3 " ++ showM3I uv
          "ok " ++ body ++ " ; " ++ showM3I uv ++ " ; " ++ showV pn ++ " ; " ++ toString n ++ " ; " ++
            " ".intercalate (flags.map showBool)
        -- the whole call is the model's entry point `fsbEntry` (form of the plane, default of return_hexagonal,
        -- refusals, centring matrix, the routine, the row order): the definition `fsbEntry_correct` and
        -- `fsbEntry_value_error_iff` are about
        if useRat then
          match fsbEntry vects idx hex rhOpt setting cut nOpt with
          | .error e => err e
          | .ok (uv, rh, pn) =>
            match fsbRecord vects idx hex rhOpt setting nOpt with
            | none => err "op"
            | some r => if showM3I (orderRows cut r.a r.b r.c) ≠ showM3I uv then err "op" else render uv rh pn r.n []
        else
          let (D, vi) := scaleInt vects
          match fsbEntry vi idx hex rhOpt setting cut nOpt with
          | .error e => err e
          | .ok (uv, rh, pnI) =>
            match fsbRecord vi idx hex rhOpt setting nOpt with
            | none => err "op"
            | some r =>
              if showM3I (orderRows cut r.a r.b r.c) ≠ showM3I uv then err "op" else
              let d2 : Rat := ((D * D : Nat) : Rat)
              let pn : V3 Rat := ⟨(pnI.x : Rat) / d2, (pnI.y : Rat) / d2, (pnI.z : Rat) / d2⟩
              render uv rh pn r.n (marginFlags vi r (rawC vi r))
    | _, _ => err "format"
  | _, _, _ => err "format"

def handleValid (cut setting nS : String) (rest : List String) : String :=
  match Cut.ofString? cut, optInt? nS, c2p setting with
  | some cut, some nOpt, some L =>
    match parseInts? (rest.take 3), parseRats? ((rest.drop 3).take 9), parseInts? (rest.drop 12), (rest.drop 21) with
    | some [h, k, l], some vs, some us, _ =>
      match M3.ofList? vs, m3i? (us.take 9), us.drop 9 with
      | some vects, some uvws, [tn, td] =>
        Rel.validBasis (scaleInt vects).2 ⟨h, k, l⟩ L cut nOpt uvws tn td
      | _, _, _ => err "format"
    | _, _, _, _ => err "format"
  | _, _, _ => err "format"

def v3? : List Rat → Option (V3 Rat)
  | [a, b, c] => some ⟨a, b, c⟩
  | _ => none

def chunk3 : List Rat → List (V3 Rat)
  | a :: b :: c :: t => ⟨a, b, c⟩ :: chunk3 t
  | _ => []

def distInt (x : Rat) : Rat := let f : Rat := (x.floor : Int); min (x - f) (f + 1 - x)

def handleC14 (toks : List String) : String :=
  match toks with
  | ["c2p", setting] =>
    match c2p setting with
    | some L => showM3I L ++ " ; " ++ toString (M3.det L)
    | none => err "value"
  | ["p2c", setting, u, v, w] =>
    match c2p setting, parseInts? [u, v, w] with
    | some L, some [u, v, w] => showV (p2cRat L ⟨u, v, w⟩)
    | none, _ => err "value"
    | _, _ => err "format"
  | "fsb" :: cut :: setting :: nS :: rhS :: kS :: rest => handleFsb false cut setting nS rhS kS rest
  | "fsbq" :: cut :: setting :: nS :: rhS :: kS :: rest => handleFsb true cut setting nS rhS kS rest
  | "valid" :: cut :: setting :: nS :: rest => handleValid cut setting nS rest
  | "init" :: rest =>
    match parseInts? rest with
    | some [h, k, l] =>
      match initVectors ⟨h, k, l⟩ with
      | some i => showIV i.a0 ++ " " ++ showIV i.b0 ++ " " ++ toString i.s
      | none => err "value"
    | _ => err "format"
  | "gen" :: [n] =>
    match n.toInt? with
    | some n => toString (genVectors n).length ++ " " ++ " ".intercalate (((genVectors n).take 12).map showIV)
    | none => err "format"
  | "compat" :: cut :: rest =>
    -- compat cut <9 ints uvws> <9 rats vects>  ->  ok flag | margin data (A·B, A·C, yz numerator, scale)
    match Cut.ofString? cut, parseInts? (rest.take 9), parseRats? (rest.drop 9) with
    | some cut, some us, some vs =>
      match m3i? us, M3.ofList? vs with
      | some uv, some vects =>
        let A := cart vects uv.r0; let B := cart vects uv.r1; let C := cart vects uv.r2
        showBool (cutCompatible cut A B C) ++ " " ++
          showRats [V3.dot A B, V3.dot A C, V3.dot B C * V3.dot A A - V3.dot A B * V3.dot A C,
                    V3.dot A A, V3.dot B B, V3.dot C C]
      | _, _ => err "format"
    | _, _, _ => err "format"
  | "layers" :: numdec :: rest =>
    match numdec.toNat?, parseRats? rest with
    | some d, some xs => showRats (layerCoords d xs)
    | _, _ => err "format"
  | "shifts" :: numdec :: tol :: w :: rest =>
    -- shifts numdec tol W <cut coordinates of the rcell atoms>
    match numdec.toNat?, parseRat? tol, parseRat? w, parseRats? rest with
    | some d, some tol, some w, some xs =>
      if xs.isEmpty then err "value" else
      let coords := layerCoords d xs
      showRats (shifts coords w tol) ++ " ; " ++ showRats coords
    | _, _, _, _ => err "format"
  | ["mult", m, q, even] =>
    match m.toInt?, optInt? q, parseBool? even with
    | some m, some q, some e => toString (cutMult m q e)
    | _, _, _ => err "format"
  | ["pbc", cut] =>
    match Cut.ofString? cut with
    | some c => " ".intercalate ((surfacePbc c).map showBool)
    | none => err "format"
  | "vac" :: cut :: rest =>
    -- vac cut vac <9 vects> <3 origin>
    match Cut.ofString? cut, parseRats? rest with
    | some c, some (vac :: xs) =>
      match M3.ofList? (xs.take 9), v3? (xs.drop 9) with
      | some vects, some o =>
        if vac < 0 then err "value" else
        let b := vacuumBox c ⟨vects, o⟩ vac
        showRats (b.vects.toList ++ b.origin.toList)
      | _, _ => err "format"
    | _, _ => err "format"
  | "fault" :: cut :: p0 :: p1 :: p2 :: rest =>
    -- fault cut pbc0 pbc1 pbc2 fp <3 shift> <9 vects> <3 origin> <3N positions>
    match Cut.ofString? cut, parseBool? p0, parseBool? p1, parseBool? p2, parseRats? rest with
    | some c, some p0, some p1, some p2, some (fp :: xs) =>
      match v3? (xs.take 3), M3.ofList? ((xs.drop 3).take 9), v3? ((xs.drop 12).take 3) with
      | some sh, some vects, some o =>
        let box : Box Rat := ⟨vects, o⟩
        if M3.det vects = 0 then err "value" else
        let ps := chunk3 (xs.drop 15)
        let pbc : V3 Bool := ⟨p0, p1, p2⟩
        let out := fault box pbc (fun x => x.floor) c fp sh ps
        -- margins: distance of the shifted scaled coordinates to an integer (periodic directions only),
        -- distance of the cut coordinate to the fault plane
        let moved := ps.map (fun p => if isAbove c fp p then p + sh else p)
        let mw := moved.foldl (fun m p =>
          let s := box.cartToRel p
          let m := if p0 then min m (distInt s.x) else m
          let m := if p1 then min m (distInt s.y) else m
          if p2 then min m (distInt s.z) else m) (1 : Rat)
        let mf := ps.foldl (fun m p => min m (ratAbs (p.get (cutIndex c) - fp))) (1000000 : Rat)
        let above := ps.map (fun p => showBool (isAbove c fp p))
        showRats (out.flatMap V3.toList) ++ " ; " ++ " ".intercalate above ++ " ; " ++ showRats [mw, mf]
      | _, _, _ => err "format"
    | _, _, _, _, _ => err "format"
  | "surf" :: l0 :: h0 :: l1 :: h1 :: l2 :: h2 :: rest =>
    -- surf lo0 hi0 lo1 hi1 lo2 hi2 <3 shift> <9 vects> <3 origin> <3N positions of the rotated cell>
    --   -> box of the supercell ; positions after supersize + shift + wrap ; margin to the wrap discontinuity
    match parseInts? [l0, h0, l1, h1, l2, h2], parseRats? rest with
    | some [l0, h0, l1, h1, l2, h2], some xs =>
      match v3? (xs.take 3), M3.ofList? ((xs.drop 3).take 9), v3? ((xs.drop 12).take 3) with
      | some sh, some vects, some o =>
        let okSize := fun (lo hi : Int) => decide (lo ≤ 0) && decide (0 ≤ hi) && decide (hi - lo ≠ 0)
        if M3.det vects = 0 then err "value" else
        if !(okSize l0 h0 && okSize l1 h1 && okSize l2 h2) then err "value" else
        let rbox : Box Rat := ⟨vects, o⟩
        let atoms : List (C04.Atom Rat) := (chunk3 (xs.drop 15)).map (fun p => ⟨0, p, []⟩)
        let (sbox, out) := surfaceAtoms rbox ⟨l0, h0⟩ ⟨l1, h1⟩ ⟨l2, h2⟩ (fun x => x.floor) sh atoms
        let sup := C04.supersizeAtoms rbox ⟨l0, h0⟩ ⟨l1, h1⟩ ⟨l2, h2⟩ atoms
        let mw := sup.foldl (fun m a =>
          let s := sbox.cartToRel (a.pos + sh)
          min (min (min m (distInt s.x)) (distInt s.y)) (distInt s.z)) (1 : Rat)
        showRats (sbox.vects.toList ++ sbox.origin.toList) ++ " ; " ++
          showRats (out.flatMap (fun a => a.pos.toList)) ++ " ; " ++ showRat mw
      | _, _, _ => err "format"
    | _, _ => err "format"
  | "fshift" :: cut :: rest =>
    -- fshift cut a1 a2 oop <3 a1cart> <3 a2cart>
    match Cut.ofString? cut, parseRats? rest with
    | some c, some [a1, a2, oop, x1, y1, z1, x2, y2, z2] =>
      showV (faultShift a1 a2 oop ⟨x1, y1, z1⟩ ⟨x2, y2, z2⟩ c)
    | _, _ => err "format"
  | "push" :: cut :: rest =>
    -- push cut r dx dy dz  ->  radicand, d[cut]
    match Cut.ofString? cut, parseRats? rest with
    | some c, some [r, dx, dy, dz] =>
      showRats [pushRadicand c r ⟨dx, dy, dz⟩, (⟨dx, dy, dz⟩ : V3 Rat).get (cutIndex c)]
    | _, _ => err "format"
  | _ => err "op"

/-! ### stateful part: one FreeSurface / StackingFault object (`sf ...` requests) -/

abbrev ObjSt := Option (SFStatic Rat × SFState Rat)

def optRat? (s : String) : Option (Option Rat) :=
  if s = "-" then some none else (parseRat? s).map some

def take3? (l : List String) : Option (V3 Rat × List String) :=
  match l with
  | a :: b :: c :: t => match parseRats? [a, b, c] with
    | some [x, y, z] => some (⟨x, y, z⟩, t)
    | _ => none
  | _ => none

/-- `k` | `v x y z` | `r x y z` | `i n` | `b` -/
def shiftArg? : List String → Option (ShiftArg Rat × List String)
  | "k" :: t => some (.keep, t)
  | "b" :: t => some (.both, t)
  | "v" :: t => (take3? t).map fun (v, t) => (.vec v, t)
  | "r" :: t => (take3? t).map fun (v, t) => (.rel v, t)
  | "i" :: n :: t => n.toInt?.map fun n => (.idx n, t)
  | _ => none

/-- `n` | `r x` | `c x` | `b` -/
def fposArg? : List String → Option (FaultPosArg Rat × List String)
  | "n" :: t => some (.none, t)
  | "b" :: t => some (.both, t)
  | "r" :: x :: t => (parseRat? x).map fun x => (.rel x, t)
  | "c" :: x :: t => (parseRat? x).map fun x => (.cart x, t)
  | _ => none

/-- `i m` | `p lo hi` -/
def multArg? : List String → Option (MultArg × List String)
  | "i" :: m :: t => m.toInt?.map fun m => (.int m, t)
  | "p" :: lo :: hi :: t => match lo.toInt?, hi.toInt? with
    | some lo, some hi => some (.pair lo hi, t)
    | _, _ => none
  | _ => none

/-- `-` | `x y z` -/
def optV3? : List String → Option (Option (V3 Rat) × List String)
  | "-" :: t => some (none, t)
  | l => (take3? l).map fun (v, t) => (some v, t)

/-- `n` | `b` | `d x y z` | `c a1 a2 oop` (each `-` or a rational) -/
def fshiftArg? : List String → Option (FShiftArg Rat × List String)
  | "n" :: t => some (.none, t)
  | "b" :: t => some (.both, t)
  | "d" :: t => (take3? t).map fun (v, t) => (.direct v, t)
  | "c" :: a :: b :: c :: t => match optRat? a, optRat? b, optRat? c with
    | some a, some b, some c => some (.coeffs a b c, t)
    | _, _, _ => none
  | _ => none

def surfArgs? (toks : List String) : Option (SurfArgs Rat) := do
  let (sh, t) ← shiftArg? toks
  let (m0, t) ← multArg? t
  let (m1, t) ← multArg? t
  let (m2, t) ← multArg? t
  match t with
  | q :: e :: v :: t =>
    let q ← optInt? q
    let e ← parseBool? e
    let v ← optRat? v
    let (fp, t) ← fposArg? t
    if t.isEmpty then some ⟨sh, m0, m1, m2, q, e, v, fp⟩ else none
  | _ => none

def showPos (ps : List (V3 Rat)) : String := showRats (ps.flatMap V3.toList)
def showOptRat : Option Rat → String
  | some x => showRat x
  | none => "-"

def replyUnit : Except String Unit → String
  | .ok _ => "ok"
  | .error e => err e

def showState (o : SFState Rat) : String :=
  let sys := match o.system with
    | some s => showRats (s.box.vects.toList ++ s.box.origin.toList) ++ " " ++
        " ".intercalate (s.pbc.toList.map showBool) ++ " " ++ showRat s.area2 ++ " " ++ toString s.atoms.length
    | none => "-"
  let ab := match o.above with
    | some m => if m.isEmpty then "e" else " ".intercalate (m.map showBool)
    | none => "-"
  showV o.shift ++ " ; " ++ showOptRat o.fpRel ++ " ; " ++ showOptRat o.fpCart ++ " ; " ++ ab ++ " ; " ++
    showV o.a1c ++ " " ++ showV o.a2c ++ " ; " ++ sys

def handleSF (s : ObjSt) (toks : List String) : ObjSt × String :=
  match toks with
  | "new" :: cut :: rest =>
    match Cut.ofString? cut, shiftArg? rest with
    | some c, some (sh, atol :: nsh :: t) =>
      match parseRat? atol, nsh.toNat? with
      | some atol, some n =>
        match parseRats? (t.take (3 * n)), parseInts? ((t.drop (3 * n)).take 9), parseRats? (t.drop (3 * n + 9)) with
        | some shs, some li, some xs =>
          match m3i? li, M3.ofList? (xs.take 9), M3.ofList? ((xs.drop 9).take 9), v3? ((xs.drop 18).take 3) with
          | some L, some mcart, some rv, some ro =>
            if M3.det rv = 0 then (s, err "value") else
            let atoms : List (C04.Atom Rat) := (chunk3 (xs.drop 21)).map (fun p => ⟨0, p, []⟩)
            let st : SFStatic Rat := ⟨c, ⟨rv, ro⟩, atoms, chunk3 shs, mcart, L, fun x => x.floor, atol⟩
            match sfNew st sh with
            | .ok o => (some (st, o), "ok")
            | .error e => (s, err e)
          | _, _, _, _ => (s, err "format")
        | _, _, _ => (s, err "format")
      | _, _ => (s, err "format")
    | _, _ => (s, err "format")
  | op :: rest =>
    match s with
    | none => (s, err "assert")
    | some (st, o) =>
      let upd := fun (r : SFState Rat × String) => (some (st, r.1), r.2)
      match op with
      | "state" => (s, showState o)
      | "pos" =>
        match o.system with
        | some sy => (s, showPos (sy.atoms.map (·.pos)))
        | none => (s, err "attr")
      | "shift" =>
        match shiftArg? rest with
        | some (a, []) => let r := setShiftOp st o a; upd (r.1, replyUnit r.2)
        | _ => (s, err "format")
      | "surface" =>
        match surfArgs? rest with
        | some a => let r := surfaceSF st o a; upd (r.1, replyUnit r.2)
        | none => (s, err "format")
      | "fsurface" =>
        match surfArgs? rest with
        | some a => let r := surfaceBase st o a; upd (r.1, replyUnit r.2)
        | none => (s, err "format")
      | "fprel" =>
        match parseRats? rest with
        | some [x] => let r := setFpRel st o x; upd (r.1, replyUnit r.2)
        | _ => (s, err "format")
      | "fpcart" =>
        match parseRats? rest with
        | some [x] => let r := setFpCart st o x; upd (r.1, replyUnit r.2)
        | _ => (s, err "format")
      | "fault" =>
        match optV3? rest with
        | some (a1v, t) =>
          match optV3? t with
          | some (a2v, t) =>
            match fposArg? t with
            | some (fp, t) =>
              match fshiftArg? t with
              | some (fs, []) =>
                let r := faultOp st o ⟨a1v, a2v, fp, fs⟩
                upd (r.1, match r.2 with
                  | .ok ps => "ok " ++ showPos ps
                  | .error e => err e)
              | _ => (s, err "format")
            | none => (s, err "format")
          | none => (s, err "format")
        | none => (s, err "format")
      | "map" =>
        match optV3? rest with
        | some (a1v, t) =>
          match optV3? t with
          | some (a2v, t) =>
            match fposArg? t with
            | some (fp, [n1, n2, oop]) =>
              match n1.toNat?, n2.toNat?, optRat? oop with
              | some n1, some n2, some oop =>
                let r := iterFaultMap st o a1v a2v fp n1 n2 oop
                upd (r.1, match r.2 with
                  | .ok l => "ok " ++ " | ".intercalate (l.map fun e => showRats [e.1, e.2.1] ++ " ; " ++ showPos e.2.2)
                  | .error e => err e)
              | _, _, _ => (s, err "format")
            | _ => (s, err "format")
          | none => (s, err "format")
        | none => (s, err "format")
      | _ => (s, err "op")
  | [] => (s, err "op")

def stepC14 (s : ObjSt) (toks : List String) : ObjSt × String :=
  match toks with
  | "sf" :: rest => handleSF s rest
  | _ => (s, handleC14 toks)

def main : IO Unit := runDriverS stepC14 none
