import Atomman.C15
open Atomman Atomman.C15

/-!
  Line protocol of the C15 driver (stateful: the current system lives in the driver).

  `sys  v00 … v22  ox oy oz  px py pz  nsym  nmass {has mass}*  nkeys {key width}*  hasold  natoms {atype x y z vals… [old]}*`
        sets the current system, reply `ok <dump>`
  `op name  hasPos x y z  hasPtd i  hasDb x y z  scale  hasAtol atol  hasT t  hasO o  nkw {key len vals…}*`
        name ∈ vacancy | interstitial | substitutional | dumbbell | point:<ptd_type>
        applies the insertion to the current system; reply `ok <dump>` (state replaced) or `err:<class>`
        (state kept).  `hasAtol = 0` is `atol=None`: the model applies the default itself.
  `sites  x y z  scale  hasAtol atol`   reply: the indices matched by the site search
  `fidx name hasPos x y z hasDb kwEmpty q`  a float index object `q` handed to `name`: reply `err:<class>`
  `dflt v`  the default tolerance in the current working units (`dflt` alone: back to angstrom = 1)
-/

/-- `uc.set_in_units(0.01, 'angstrom')` in atomman's working units (angstrom = 1): the IEEE double
    nearest to 0.01. -/
def defaultAtol : Rat := 5764607523034235 / 576460752303423488

abbrev P := StateT (List String) Option

def tok : P String := do
  match (← get) with
  | [] => failure
  | t :: r => set r; pure t

def pRat : P Rat := do match parseRat? (← tok) with | some r => pure r | none => failure
def pInt : P Int := do match (← tok).toInt? with | some r => pure r | none => failure
def pNat : P Nat := do match (← tok).toNat? with | some r => pure r | none => failure
def pBool : P Bool := do match parseBool? (← tok) with | some r => pure r | none => failure
def pV3 : P (V3 Rat) := do let x ← pRat; let y ← pRat; let z ← pRat; pure ⟨x, y, z⟩
def pRep {α : Type} (n : Nat) (p : P α) : P (List α) := (List.range n).mapM fun _ => p
def pOpt {α : Type} (p : P α) : P (Option α) := do
  let b ← pBool; let v ← p; pure (if b then some v else none)

def pSys : P (Sys Rat) := do
  let r0 ← pV3; let r1 ← pV3; let r2 ← pV3; let o ← pV3
  let px ← pBool; let py ← pBool; let pz ← pBool
  let nsym ← pNat
  let nmass ← pNat
  let masses ← pRep nmass (pOpt pRat)
  let nkeys ← pNat
  let kws ← pRep nkeys (do let k ← tok; let w ← pNat; pure (k, w))
  let hasold ← pBool
  let n ← pNat
  let rows ← pRep n (do
    let t ← pInt; let p ← pV3
    let props ← kws.mapM fun kw => pRep kw.2 pRat
    let o ← if hasold then (do let v ← pInt; pure (some v)) else pure none
    pure (({ atype := t, pos := p, props := props } : Atom Rat), o))
  pure { box := ⟨⟨r0, r1, r2⟩, o⟩, pbc := (px, py, pz), nsym := nsym, masses := masses, keys := kws.map (·.1),
         atoms := rows.map (·.1), old := if hasold then some (rows.filterMap (·.2)) else none }

def dumpSys (s : Sys Rat) : String :=
  let head := showRats (s.box.vects.toList ++ s.box.origin.toList) ++ " " ++
    showBool s.pbc.1 ++ " " ++ showBool s.pbc.2.1 ++ " " ++ showBool s.pbc.2.2 ++ " " ++
    toString s.nsym ++ " " ++ toString s.masses.length ++
    (s.masses.map fun m => match m with | some v => " 1 " ++ showRat v | none => " 0 0").foldl (· ++ ·) "" ++
    " " ++ toString s.keys.length
  let widths := match s.atoms.head? with
    | some a => a.props.map (·.length)
    | none => s.keys.map fun _ => 0
  let keys := (List.zipWith (fun k (w : Nat) => " " ++ k ++ " " ++ toString w) s.keys widths).foldl (· ++ ·) ""
  let hasold := s.old.isSome
  let col := s.old.getD []
  let rows := (s.atoms.zipIdx).map fun (a, j) =>
    let vals := a.pos.toList ++ a.props.flatten
    " " ++ toString a.atype ++ " " ++ showRats vals ++
      (if hasold then " " ++ (match col[j]? with | some v => toString v | none => "?") else "")
  head ++ keys ++ " " ++ showBool hasold ++ " " ++ toString s.atoms.length ++ rows.foldl (· ++ ·) ""

structure OpArgs where
  name : String
  pos : Option (V3 Rat)
  ptd : Option Int
  db : Option (V3 Rat)
  scale : Bool
  atol : Option Rat
  kw : Kw Rat

def pOp : P OpArgs := do
  let name ← tok
  let pos ← pOpt pV3
  let ptd ← pOpt pInt
  let db ← pOpt pV3
  let scale ← pBool
  let atol ← pOpt pRat
  let t ← pOpt pInt
  let o ← pOpt pInt
  let nkw ← pNat
  let extra ← pRep nkw (do let k ← tok; let w ← pNat; let v ← pRep w pRat; pure (k, v))
  pure { name, pos, ptd, db, scale, atol, kw := { atype := t, oldId := o, extra := extra } }

def applyOp (dflt : Rat) (s : Sys Rat) (a : OpArgs) : Option (Except Err (Sys Rat)) :=
  if a.name = "vacancy" then
    -- vacancy() has no db_vect / kwargs parameters
    if a.db.isSome || !a.kw.isEmpty then none else some (vacancyC dflt s a.pos a.ptd a.scale a.atol)
  else if a.name = "interstitial" then
    match a.pos, a.ptd, a.db with
    | some p, none, none => some (interstitialC dflt s p a.scale a.atol a.kw)
    | _, _, _ => none
  else if a.name = "substitutional" then
    if a.db.isSome then none else some (substitutionalC dflt s a.pos a.ptd a.scale a.atol a.kw)
  else if a.name = "dumbbell" then
    match a.db with
    | some d => some (dumbbellC dflt s a.pos a.ptd d a.scale a.atol a.kw)
    | none => none
  else if a.name.startsWith "point:" then
    some (pointC dflt s (a.name.drop 6).toString a.pos a.ptd a.db a.scale a.atol a.kw)
  else none

/-- driver state: the current system and the default tolerance in working units. -/
abbrev St := Option (Sys Rat) × Rat

def step (state : St) (toks : List String) : St × String :=
  let (st, dflt) := state
  match toks with
  | "sys" :: rest =>
    match pSys.run rest with
    | some (s, []) => ((some s, dflt), "ok " ++ dumpSys s)
    | _ => (state, err "format")
  | ["dflt", v] =>
    -- the working length unit was changed: `uc.set_in_units(0.01, 'angstrom')` is now `v`
    match parseRat? v with
    | some r => ((st, r), "ok " ++ showRat r)
    | none => (state, err "format")
  | ["dflt"] => ((st, defaultAtol), "ok " ++ showRat defaultAtol)
  | "op" :: rest =>
    match st with
    | none => (state, err "op")
    | some s =>
      match pOp.run rest with
      | some (a, []) =>
        match applyOp dflt s a with
        | none => (state, err "format")
        | some (.error e) => (state, e.wire)
        | some (.ok s') => ((some s', dflt), "ok " ++ dumpSys s')
      | _ => (state, err "format")
  | "sites" :: rest =>
    match st with
    | none => (state, err "op")
    | some s =>
      match (do let p ← pV3; let sc ← pBool; let atol ← pOpt pRat; pure (p, sc, atol) : P _).run rest with
      | some ((p, sc, atol), []) =>
        (state, "sites " ++ " ".intercalate ((siteMatches s (toCart s sc p) (effAtol dflt atol)).map toString))
      | _ => (state, err "format")
  | "fidx" :: rest =>
    -- an index object that is not of integer type: the class of the refusal
    match st with
    | none => (state, err "op")
    | some s =>
      match (do let name ← tok; let pos ← pOpt pV3; let hasDb ← pBool; let kwEmpty ← pBool; let q ← pRat
                pure (name, pos, hasDb, kwEmpty, q) : P _).run rest with
      | some ((name, pos, hasDb, kwEmpty, q), []) =>
        let r : Option Refusal :=
          if name = "vacancy" then some (vacancyF s pos q)
          else if name = "substitutional" then some (substitutionalF s pos q)
          else if name = "dumbbell" then some (dumbbellF s pos q)
          else if name.startsWith "point:" then some (pointF s (name.drop 6).toString pos q hasDb kwEmpty)
          else none
        match r with
        | some e => (state, e.wire)
        | none => (state, err "format")
      | _ => (state, err "format")
  | _ => (state, err "op")

def main : IO Unit := runDriverS step (none, defaultAtol)
