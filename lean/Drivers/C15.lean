import Atomman.Prelude
open Atomman

/-- stub: replaced when the C15 model is built. -/
def handleC15 (_toks : List String) : String := err "op"

def main : IO Unit := runDriver handleC15
