import Atomman.Prelude
open Atomman

/-- stub: replaced when the C07 model is built. -/
def handleC07 (_toks : List String) : String := err "op"

def main : IO Unit := runDriver handleC07
