import Atomman.C07
open Atomman Atomman.C07

/-! line protocol of the C07 model driver (see harness/props/c07.py for the encoder). -/

abbrev P := StateT (List String) Option

def tok : P String := fun s => match s with
  | [] => none
  | t :: r => some (t, r)

def pNat : P Nat := do let t ← tok; (t.toNat? : Option Nat)
def pInt : P Int := do let t ← tok; (t.toInt? : Option Int)
def pRat : P Rat := do let t ← tok; (parseRat? t : Option Rat)
def pBool : P Bool := do let t ← tok; (parseBool? t : Option Bool)
def pStr : P String := do let t ← tok; pure (t.replace "+" " ")

def pMany {α : Type} (n : Nat) (p : P α) : P (List α) := (List.range n).mapM fun _ => p

def pV3 : P (V3 Rat) := do pure ⟨← pRat, ← pRat, ← pRat⟩

def pFmt : P Fmt := do
  let t ← tok
  match t.toList with
  | 'f' :: r => match (String.ofList r).toNat? with | some n => pure (.fixed n) | none => failure
  | 'e' :: r => match (String.ofList r).toNat? with | some n => pure (.exp n) | none => failure
  | _ => failure

def pSys : P Sys := do
  let px ← pBool; let py ← pBool; let pz ← pBool
  let r0 ← pV3; let r1 ← pV3; let r2 ← pV3; let o ← pV3
  let natypes ← pNat
  let n ← pNat
  let atype ← pMany n pInt
  let pos ← pMany n pV3
  let np ← pNat
  let props ← pMany np do
    let name ← tok
    let isInt ← pBool
    let nc ← pNat
    let vals ← pMany n (pMany nc pRat)
    pure ({ name := name, isInt := isInt, ncomp := nc, vals := vals } : Column)
  pure { box := ⟨⟨r0, r1, r2⟩, o⟩, pbc := ⟨px, py, pz⟩, natypes := natypes, atype := atype, pos := pos, props := props }

def pUnits : P Units := do
  let n ← pNat
  pMany n do
    let k ← tok
    let t ← tok
    if t = "none" then pure (k, none) else
      match parseRat? t with
      | some f => pure (k, some f)
      | none => failure

def hexDigit (n : Nat) : Char := if n < 10 then Char.ofNat (48 + n) else Char.ofNat (87 + n)

def toHex (cs : List Char) : String :=
  String.ofList (cs.flatMap fun c => [hexDigit (c.toNat / 16), hexDigit (c.toNat % 16)])

def hexVal (c : Char) : Option Nat :=
  if '0' ≤ c ∧ c ≤ '9' then some (c.toNat - 48)
  else if 'a' ≤ c ∧ c ≤ 'f' then some (c.toNat - 87) else none

def fromHexAux : List Char → Option (List Char)
  | [] => some []
  | [_] => none
  | a :: b :: r => do
    let x ← hexVal a; let y ← hexVal b; let rest ← fromHexAux r
    pure (Char.ofNat (x * 16 + y) :: rest)

def fromHex (s : String) : Option (List Char) := if s = "-" then some [] else fromHexAux s.toList

def pHex : P (List Char) := do let t ← tok; (fromHex t : Option (List Char))

def showHex (cs : List Char) : String := if cs = [] then "-" else toHex cs

def showRes (r : Res (List Char)) : String :=
  match r with
  | .ok t => "ok " ++ showHex t
  | .error e => err e

def run {α : Type} (p : P α) (toks : List String) (k : α → String) : String :=
  match p toks with
  | some (a, []) => k a
  | _ => err "format"

def v3s (v : V3 Rat) : String := showRats [v.x, v.y, v.z]
def hiloS (h : HiLo) : String := showRats [h.xlo, h.xhi, h.ylo, h.yhi, h.zlo, h.zhi, h.xy, h.xz, h.yz]
def joinToks (l : Line) : String := if l = [] then "-" else "+".intercalate (l.map String.ofList)

def handleC07 (toks : List String) : String :=
  match toks with
  | "fmt" :: rest =>
    run (do let f ← pFmt; let q ← pRat; pure (f, q)) rest fun (f, q) =>
      "ok " ++ showHex (fmtNum f q) ++ " " ++ showRat (fmtVal f q)
  | "pnum" :: rest =>
    run pHex rest fun t => match parseNum? t with
      | some q => "ok " ++ showRat q
      | none => err "format"
  | "pint" :: rest =>
    run pHex rest fun t => match parseInt? t with
      | some q => "ok " ++ toString q
      | none => err "format"
  | "data" :: rest =>
    run (do
      let f ← pFmt; let style ← pStr; let uname ← pStr; let fname ← tok
      let s ← pSys; let u ← pUnits
      pure (f, style, uname, fname, s, u)) rest fun (f, style, uname, fname, s, u) =>
      match writeDataDoc s style u f with
      | .ok o =>
        "ok " ++ showHex (renderLines o.doc) ++ " " ++
          showHex (infoContent s.pbc style uname (if fname = "-" then none else some fname)) ++ " " ++
          hiloS (hiLoOf o.wrapped.box) ++ " " ++ " ".intercalate (o.wrapped.pos.map v3s) ++ " " ++
          " ".intercalate (o.wrapped.flags.map fun f => showInts [f.x, f.y, f.z])
      | .error e => err e
  | "resolve" :: rest =>
    -- resolve <units|-> <style|-> <natypes|-> <0 | 1 units style natypes> <system natypes>
    run (do
      let ua ← tok; let sa ← tok; let na ← tok
      let hasPot ← pBool
      let pot ← if hasPot then do
          let u ← pStr; let st ← pStr; let n ← pNat
          pure (some ({ units := u, atomStyle := st, natypes := n } : PotArgs))
        else pure none
      let sn ← pNat
      let nat : Option Nat ← if na = "-" then pure none else match na.toNat? with
        | some n => pure (some n)
        | none => failure
      pure ((if ua = "-" then none else some (ua.replace "+" " ")),
            (if sa = "-" then none else some (sa.replace "+" " ")), nat, pot, sn)) rest
      fun (ua, sa, na, pot, sn) =>
        let r := resolveArgs ua sa na pot sn
        "ok " ++ r.1.replace " " "+" ++ " " ++ r.2.1.replace " " "+" ++ " " ++ toString r.2.2
  | "pdata" :: rest =>
    run (do let style ← pStr; let eps ← pRat; let t ← pHex; pure (style, eps, t)) rest fun (style, eps, t) =>
      match parseData t style with
      | none => err "format"
      | some d =>
        let atoms := d.atoms.map fun a =>
          showInts [a.id, a.type] ++ " " ++ v3s a.pos ++ " " ++ showInts [a.image.x, a.image.y, a.image.z] ++ " " ++
          v3s (unwrapPos d.hilo a.pos a.image) ++ " " ++ v3s ((boxOfHiLo d.hilo).cartToRel a.pos) ++
          (if a.fields = [] then "" else " " ++ showRats a.fields)
        let k := match d.atoms with | a :: _ => a.fields.length | [] => 0
        let vel := match d.velocities with
          | none => "0 0"
          | some v => "1 " ++ toString (match v with | a :: _ => a.fields.length | [] => 0) ++
              (if v = [] then "" else " " ++ " ".intercalate (v.map fun r => showRats r.fields))
        "ok " ++ joinToks d.styleHint ++ " " ++ showBool (dataWellFormed d eps) ++ " " ++ toString d.natoms ++ " " ++
          toString d.ntypes ++ " " ++ hiloS d.hilo ++ " " ++ toString d.atoms.length ++ " " ++ toString k ++
          (if atoms = [] then "" else " " ++ " ".intercalate atoms) ++ " " ++ vel
  | "dump" :: rest =>
    run (do
      let f ← pFmt
      -- the time step as the system holds it: `-` no attribute, `none`, an integer, `r<p/q>` a real number
      let tst ← tok
      let sv ← (match tst with
        | "-" => some StepVal.absent
        | "none" => some StepVal.none
        | t => if t.startsWith "r" then (parseRat? (t.drop 1).toString).map StepVal.real else t.toInt?.map StepVal.int : Option StepVal)
      let ts := sv
      let np ← pNat
      let props ← pMany np do
        let name ← tok; let nd ← pNat; let dims ← pMany nd pNat; pure (name, dims)
      let s ← pSys; let u ← pUnits
      pure (f, ts, props, s, u)) rest fun (f, ts, props, s, u) => showRes (writeDumpStep s props u f ts)
  | "pdump" :: rest =>
    run pHex rest fun t =>
      match parseDump t with
      | none => err "format"
      | some d =>
        let variants := [cs!"x", cs!"xu", cs!"xs", cs!"xsu"].filterMap fun v =>
          (dumpPositions d v).map fun ps => (v, ps)
        "ok " ++ toString d.timestep ++ " " ++ toString d.natoms ++ " " ++ showBool d.triclinic ++ " " ++
          joinToks d.boundary ++ " " ++
          showRats [d.bbox.xlo, d.bbox.xhi, d.bbox.ylo, d.bbox.yhi, d.bbox.zlo, d.bbox.zhi] ++ " " ++ hiloS d.hilo ++ " " ++
          toString d.columns.length ++ " " ++ joinToks d.columns ++
          (if d.rows = [] then "" else " " ++ " ".intercalate (d.rows.map showRats)) ++ " " ++
          toString variants.length ++
          (if variants = [] then "" else " " ++ " ".intercalate (variants.map fun (v, ps) =>
            String.ofList v ++ " " ++ " ".intercalate (ps.map v3s)))
  | "table" :: rest =>
    run (do
      let f ← pFmt; let header ← pBool
      let nc ← pNat
      let cols ← pMany nc do
        let prop ← tok
        let ut ← tok
        let unit : UnitSpec := if ut = "none" then .none else if ut = "scaled" then .scaled else .kind ut
        let nn ← pNat
        let names ← pMany nn tok
        pure ({ prop := prop, names := names, unit := unit } : ColSpec)
      let s ← pSys; let u ← pUnits
      pure (f, header, cols, s, u)) rest fun (f, header, cols, s, u) => showRes (writeTable s cols u f header)
  | "ptable" :: rest =>
    run (do let hdr ← pBool; let t ← pHex; pure (hdr, t)) rest fun (hdr, t) =>
      match parseTable t hdr with
      | none => err "format"
      | some p =>
        "ok " ++ (match p.columns with | some l => joinToks l | none => "-") ++ " " ++ toString p.rows.length ++
          String.join (p.rows.map fun r => " " ++ toString r.length ++ (if r = [] then "" else " " ++ showRats r))
  | "poscar" :: rest =>
    run (do
      let f ← pFmt; let cstyle ← tok; let scale ← pRat
      let nh ← pNat; let header ← pMany nh tok
      let hasSym ← pBool
      let ns ← pNat; let syms ← pMany ns tok
      let s ← pSys
      pure (f, cstyle, scale, header, (if hasSym then some syms else none), s)) rest
      fun (f, cstyle, scale, header, syms, s) => showRes (writePoscar s header syms cstyle scale f)
  | "pposcar" :: rest =>
    run pHex rest fun t =>
      match parsePoscar t with
      | none => err "format"
      | some p =>
        "ok " ++ showRat p.scale ++ " " ++ showRats p.lattice.toList ++ " " ++
          (match p.symbols with | some l => joinToks l | none => "-") ++ " " ++
          toString p.counts.length ++ " " ++ " ".intercalate (p.counts.map toString) ++ " " ++ showBool p.cartesian ++ " " ++
          toString p.raw.length ++ " " ++ " ".intercalate (p.raw.map v3s) ++ " " ++ " ".intercalate (p.pos.map v3s)
  | "bbox" :: rest =>
    run (pMany 9 pRat) rest fun l =>
      match l with
      | [a, b, c, d, e, f, xy, xz, yz] =>
        let h : HiLo := ⟨a, b, c, d, e, f, xy, xz, yz⟩
        let bb := bboxOf h
        "ok " ++ showRats [bb.xlo, bb.xhi, bb.ylo, bb.yhi, bb.zlo, bb.zhi] ++ " " ++ hiloS (hiLoOfBBox bb xy xz yz)
      | _ => err "format"
  | "dumpdefaults" :: rest =>
    -- dumpdefaults <n> (<name> <ndims> <dims...>)*  ->  the (name, shape) list the dump writer uses by default
    run (do
      let n ← pNat
      pMany n do let name ← tok; let nd ← pNat; let dims ← pMany nd pNat; pure (name, dims)) rest fun stored =>
      "ok " ++ " ".intercalate ((defaultDumpProps stored).map fun p =>
        p.1 ++ ":" ++ ",".intercalate (p.2.map toString))
  | "route" :: rest =>
    -- route <data|dump|table|poscar> <none|path|stream> <second value asked for 0/1>
    run (do let kind ← tok; let tg ← tok; let w ← pBool; pure (kind, tg, w)) rest fun (kind, tg, w) =>
      let t? : Option Target := match tg with
        | "none" => some .none | "path" => some (.path "f") | "stream" => some .stream | _ => none
      match t? with
      | none => err "format"
      | some t =>
        if !(["data", "dump", "table", "poscar"].contains kind) then err "format" else
        let d := deliver t (if kind = "poscar" then false else w)
        "ok " ++ showBool d.returnsContent ++ " " ++ showBool d.returnsExtra ++ " " ++ showBool d.writes ++ " " ++
          toString d.count ++ " " ++ showBool t.fname.isSome
  | "lex" :: rest =>
    run pHex rest fun t => "ok " ++ "|".intercalate ((lexDoc t).map joinToks)
  | _ => err "op"

def main : IO Unit := runDriver handleC07
