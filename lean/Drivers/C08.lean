import Atomman.Prelude
open Atomman

/-- stub: replaced when the C08 model is built. -/
def handleC08 (_toks : List String) : String := err "op"

def main : IO Unit := runDriver handleC08
