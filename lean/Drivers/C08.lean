import Atomman.C08
open Atomman Atomman.C07 Atomman.C08

/-! line protocol of the C08 model driver (see harness/props/c08.py for the encoder). -/

abbrev P := StateT (List String) Option

def tok : P String := fun s => match s with
  | [] => none
  | t :: r => some (t, r)

def pNat : P Nat := do let t ← tok; (t.toNat? : Option Nat)
def pRat : P Rat := do let t ← tok; (parseRat? t : Option Rat)
def pBool : P Bool := do let t ← tok; (parseBool? t : Option Bool)
def pStr : P String := do let t ← tok; pure (t.replace "+" " ")
def pMany {α : Type} (n : Nat) (p : P α) : P (List α) := (List.range n).mapM fun _ => p
def pV3 : P (V3 Rat) := do pure ⟨← pRat, ← pRat, ← pRat⟩

def pUnits : P Units := do
  let n ← pNat
  pMany n do
    let k ← tok
    let t ← tok
    if t = "none" then pure (k, none) else
      match parseRat? t with
      | some f => pure (k, some f)
      | none => failure

def hexDigit (n : Nat) : Char := if n < 10 then Char.ofNat (48 + n) else Char.ofNat (87 + n)

def toHex (cs : List Char) : String :=
  String.ofList (cs.flatMap fun c => [hexDigit (c.toNat / 16), hexDigit (c.toNat % 16)])

def hexVal (c : Char) : Option Nat :=
  if '0' ≤ c ∧ c ≤ '9' then some (c.toNat - 48)
  else if 'a' ≤ c ∧ c ≤ 'f' then some (c.toNat - 87) else none

def fromHexAux : List Char → Option (List Char)
  | [] => some []
  | [_] => none
  | a :: b :: r => do
    let x ← hexVal a; let y ← hexVal b; let rest ← fromHexAux r
    pure (Char.ofNat (x * 16 + y) :: rest)

def fromHex (s : String) : Option (List Char) := if s = "-" then some [] else fromHexAux s.toList

def pHex : P (List Char) := do let t ← tok; (fromHex t : Option (List Char))

def showHex (cs : List Char) : String := if cs = [] then "-" else toHex cs

/-- `-` = not given, else `n s₁ … sₙ` with `~` for `None`. -/
def pSymbols : P (Option (List (Option String))) := do
  let t ← tok
  if t = "-" then pure none else
    match t.toNat? with
    | some n => do
      let l ← pMany n tok
      pure (some (l.map fun s => if s = "~" then none else some s))
    | none => failure

def pLUnit : P LUnit := do
  let t ← tok
  if t = "none" then pure .none
  else if t = "scaled" then pure .scaled
  else match t.toList with
    | 'f' :: ':' :: r => match parseRat? (String.ofList r) with | some f => pure (.factor f) | none => failure
    | _ => failure

def pPCol : P PCol := do
  let prop ← tok
  let nn ← pNat; let names ← pMany nn tok
  let nd ← pNat; let dims ← pMany nd pNat
  let un ← pLUnit
  pure { prop := prop, names := names, shape := dims, unit := un }

def pBox : P (Box Rat) := do
  let r0 ← pV3; let r1 ← pV3; let r2 ← pV3; let o ← pV3
  pure ⟨⟨r0, r1, r2⟩, o⟩

def run {α : Type} (p : P α) (toks : List String) (k : α → String) : String :=
  match p toks with
  | some (a, []) => k a
  | _ => err "format"

def optStr (o : Option String) : String := match o with | some s => s | none => "~"
def optRat (o : Option Rat) : String := match o with | some q => showRat q | none => "~"

def showLoaded (s : Loaded) : String :=
  let props := s.props.map fun p =>
    p.name ++ " " ++ (if p.isBool then "2" else showBool p.isInt) ++ " " ++ toString p.shape.length ++
      (if p.shape = [] then "" else " " ++ " ".intercalate (p.shape.map toString)) ++ " " ++ toString p.vals.length ++
      " " ++ toString (p.vals.headD []).length ++
      (if p.vals.flatten = [] then "" else " " ++ showRats p.vals.flatten)
  "ok " ++ toString s.natoms ++ " " ++ toString s.natypes ++ " " ++
    showRats (s.box.vects.toList ++ s.box.origin.toList) ++ " " ++
    showBool s.pbc.x ++ " " ++ showBool s.pbc.y ++ " " ++ showBool s.pbc.z ++ " " ++
    toString s.symbolsOut.length ++ (if s.symbolsOut = [] then "" else " " ++ " ".intercalate (s.symbolsOut.map optStr)) ++ " " ++
    toString s.massesOut.length ++ (if s.massesOut = [] then "" else " " ++ " ".intercalate (s.massesOut.map optRat)) ++ " " ++
    toString s.props.length ++ (if props = [] then "" else " " ++ " ".intercalate props)

def showRes (r : Res Loaded) : String :=
  match r with
  | .ok s => showLoaded s
  | .error e => err e

def joinToks (l : Line) : String := if l = [] then "-" else ",".intercalate (l.map toHex)

def pShape : P (List Nat) := do let n ← pNat; pMany n pNat

/-! routes: scripts of dumps and loads over named files and in-memory streams -/

inductive ROp where
  | write (p : String) (t : List Char)
  | dump (k : Sink) (t : List Char)
  | load (s : Source)

def pSink : P Sink := do
  let c ← tok; let a ← tok
  match c with
  | "ret" => pure .ret
  | "path" => pure (.path a)
  | "pathobj" => pure (.pathObj a)
  | "pathlike" => pure (.pathLike a)
  | "text" => pure (.textFile a)
  | "binary" => pure (.binFile a)
  | "stringio" => match a.toNat? with | some h => pure (.stringIO h) | none => failure
  | _ => failure

def pSource : P Source := do
  let c ← tok
  match c with
  | "strtext" => do pure (.str (← pHex))
  | "bytes" => do pure (.bytes (← pHex))
  | "bytesio" => do pure (.bytesIO (← pHex))
  | "pathobj" => do pure (.pathObj (← tok))
  | "bin" => do pure (.binFile (← tok))
  | "textfile" => do pure (.textFile (← tok))
  | "other" => do let _ ← tok; pure .other
  | _ => failure

def pROp : P ROp := do
  let c ← tok
  match c with
  | "w" => do let n ← tok; let t ← pHex; pure (.write n t)
  | "d" => do let k ← pSink; let t ← pHex; pure (.dump k t)
  | "l" => do pure (.load (← pSource))
  | _ => failure

/-- one step; the caller's `open(p, 'w')` / `open(p, 'wb')` empties the file before the writer sees the stream. -/
def stepROp (readsFirst : Bool) (w : World) : ROp → World × String
  | .write p t => (w.setFile p t, "-")
  | .dump k t =>
    let w0 := match k with
      | .textFile p => w.setFile p []
      | .binFile p => w.setFile p []
      | _ => w
    match dumpTo w0 k t with
    | .ok (w', some r) => (w', "r" ++ showHex r)
    | .ok (w', none) => (w', "n")
    | .error e => (w0, "e:" ++ e)
  | .load s =>
    match (if readsFirst then sourceTextRead w s else sourceText w s) with
    | .ok t => (w, "t" ++ showHex t)
    | .error e => (w, "e:" ++ e)

def runROps (readsFirst : Bool) (w : World) : List ROp → List String → World × List String
  | [], acc => (w, acc.reverse)
  | op :: ops, acc => let (w', r) := stepROp readsFirst w op; runROps readsFirst w' ops (r :: acc)

def showWorld (w : World) : String :=
  " | " ++ " ".intercalate (w.files.map fun e => e.1 ++ "=" ++ showHex e.2) ++
  " | " ++ " ".intercalate (w.bufs.map fun e => toString e.1 ++ "=" ++ showHex e.2)

def handleC08 (toks : List String) : String :=
  match toks with
  | "ldata" :: rest =>
    run (do
      let px ← pBool; let py ← pBool; let pz ← pBool
      let sy ← pSymbols
      let st ← tok
      let u ← pUnits
      let t ← pHex
      pure ((⟨px, py, pz⟩ : V3 Bool), sy, (if st = "-" then none else some (st.replace "+" " ")), u, t)) rest
      fun (pbc, sy, st, u, t) => showRes (loadData t pbc sy st u)
  | "ldump" :: rest =>
    run (do
      let sy ← pSymbols
      let hasPi ← pBool
      let n ← pNat
      let cols ← pMany n pPCol
      let u ← pUnits
      let t ← pHex
      pure (sy, (if hasPi then some cols else none), u, t)) rest
      fun (sy, given, u, t) => showRes (loadDump t sy given u)
  | "ltable" :: rest =>
    run (do
      let header ← pBool
      let box ← pBox
      let n ← pNat
      let cols ← pMany n pPCol
      let t ← pHex
      pure (header, box, cols, t)) rest
      fun (header, box, cols, t) => showRes (loadTable t box cols header)
  | "lposcar" :: rest =>
    run (do let sy ← pSymbols; let t ← pHex; pure (sy, t)) rest fun (sy, t) => showRes (loadPoscar t sy)
  | "rows" :: rest =>
    run (do
      let c ← pBool; let skip ← pNat; let nr ← tok; let t ← pHex
      pure (c, skip, (if nr = "-" then none else nr.toNat?), t)) rest
      fun (c, skip, nr, t) => "ok " ++ "|".intercalate ((selectRows c (splitLines t) skip nr).map joinToks)
  | "reshape" :: rest =>
    run (do
      let shape ← pShape
      let n ← pNat
      let vals ← pMany n pRat
      pure (shape, vals)) rest
      fun (shape, vals) =>
        match reshape shape vals with
        | none => err "value"
        | some t =>
          "ok " ++ showRats t.flatten ++ " | " ++ " ".intercalate ((allIndices shape).map (indexName "p")) ++ " | " ++
            " ".intercalate ((allIndices shape).map fun ix => match t.get? ix with | some q => showRat q | none => "?") ++
            " | " ++ showBool (t.hasShape shape)
  | "route" :: rest =>
    run (do let rf ← pBool; let n ← pNat; let ops ← pMany n pROp; pure (rf, ops)) rest fun (rf, ops) =>
      let (w, rs) := runROps rf ⟨[], []⟩ ops []
      "ok " ++ " ".intercalate rs ++ showWorld w
  | _ => err "op"

def main : IO Unit := runDriver handleC08
