/-
  C08 — every float format of the C07 model is readable: what `'%.nf'` and `'%.ne'` print is read back as the printed
  value (C07: `parseNum_fmtNum`) and is a clean token (C07: `okTok_fmtNum`).
-/
import Proofs.C08_Text
import Proofs.C07_Rows

namespace Atomman.C08
open Atomman

theorem readable_all (f : C07.Fmt) : Readable f where
  parse := fun q => C07.parseNum_fmtNum f q
  clean := fun q => ⟨(C07.okTok_fmtNum f q).1, fun c hc => ⟨((C07.okTok_fmtNum f q).2 c hc).1, ((C07.okTok_fmtNum f q).2 c hc).2.1⟩⟩
  nohash := fun q c hc => ((C07.okTok_fmtNum f q).2 c hc).2.2

end Atomman.C08
