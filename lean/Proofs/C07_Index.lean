import Atomman.C07
import Mathlib.Tactic.Ring
import Mathlib.Tactic.Linarith

/-! C07 — per-atom tensors: column names are row-major and each column holds the component its name says. -/

namespace Atomman.C07
open Atomman

/-- number of components of a per-atom property of the given shape. -/
def shapeSize : List Nat → Nat
  | [] => 1
  | d :: ds => d * shapeSize ds

/-- element `i·L + k` of a concatenation of blocks of equal length `L` is element `k` of block `i`. -/
theorem flatten_block_get {α : Type} (L : Nat) (l : List (List α)) (hl : ∀ b ∈ l, b.length = L)
    (i k : Nat) (hk : k < L) :
    l.flatten[i * L + k]? = (l[i]?).bind (·[k]?) := by
  induction l generalizing i with
  | nil => simp
  | cons b bs ih =>
    have hb : b.length = L := hl b (by simp)
    cases i with
    | zero =>
      simp only [Nat.zero_mul, Nat.zero_add, List.flatten_cons, List.getElem?_cons_zero, Option.bind_some]
      rw [List.getElem?_append_left (by omega)]
    | succ i =>
      simp only [List.flatten_cons, List.getElem?_cons_succ]
      rw [List.getElem?_append_right (by rw [hb]; nlinarith)]
      have : (i + 1) * L + k - b.length = i * L + k := by rw [hb]; ring_nf; omega
      rw [this]
      exact ih (fun b' hb' => hl b' (List.mem_cons_of_mem _ hb')) i

theorem sum_const_range (c d : Nat) : (List.map (fun _ => c) (List.range d)).sum = d * c := by
  induction d with
  | zero => simp
  | succ d ihd => rw [List.range_succ, List.map_append, List.sum_append, ihd]; simp; ring

theorem indexNames_length (name : String) (shape : List Nat) :
    (indexNames name shape).length = shapeSize shape := by
  induction shape generalizing name with
  | nil => simp [indexNames, shapeSize]
  | cons d ds ih =>
    simp only [indexNames, shapeSize, List.length_flatten, List.map_map]
    have : (List.map (List.length ∘ fun i => indexNames (name ++ "[" ++ toString i ++ "]") ds) (List.range d))
        = List.map (fun _ => shapeSize ds) (List.range d) := by
      apply List.map_congr_left; intro i _; exact ih _
    rw [this]
    exact sum_const_range _ _

/-- **index_names_row_major**: the column names of a per-atom tensor are row-major — name number `i·(size of the rest) + k`
    of a property of shape `d :: ds` is name number `k` of the sub-tensor `name[i]` (so for a rank-2 property of shape
    `(m, n)` column `i·n + j` is called `name[i][j]`: `index_names_rank2`). -/
theorem index_names_row_major (name : String) (d : Nat) (ds : List Nat) (i k : Nat) (hi : i < d)
    (hk : k < shapeSize ds) :
    (indexNames name (d :: ds))[i * shapeSize ds + k]?
      = (indexNames (name ++ "[" ++ toString i ++ "]") ds)[k]? := by
  simp only [indexNames]
  rw [flatten_block_get (shapeSize ds) _ (by
    intro b hb
    simp only [List.mem_map, List.mem_range] at hb
    obtain ⟨j, _, rfl⟩ := hb
    exact indexNames_length _ _) i k hk]
  simp [hi]

theorem index_names_rank2 (name : String) (m n i j : Nat) (hi : i < m) (hj : j < n) :
    (indexNames name [m, n])[i * n + j]? = some (name ++ "[" ++ toString i ++ "]" ++ "[" ++ toString j ++ "]") := by
  have h := index_names_row_major name m [n] i j hi (by simpa [shapeSize] using hj)
  simp only [shapeSize, Nat.mul_one] at h
  rw [h]
  have h2 := index_names_row_major (name ++ "[" ++ toString i ++ "]") n [] j 0 hj (by simp [shapeSize])
  simp only [shapeSize, Nat.mul_one, Nat.add_zero] at h2
  rw [h2]
  simp [indexNames]

example : indexNames "p" [2, 3] = ["p[0][0]", "p[0][1]", "p[0][2]", "p[1][0]", "p[1][1]", "p[1][2]"] := by decide

/-- **tensor_cells**: a per-atom property that is not one of LAMMPS' own dump attributes is written without
    conversion, one cell per component in the stored (row-major) order, under the names `indexNames prop shape`:
    with `index_names_row_major` / `index_names_rank2`, the column called `prop[i][j]` holds component `(i, j)`. -/
theorem tensor_cells (s : Sys) (u : Units) (ids : List Int) (pos : List (V3 Rat)) (prop : String) (shape : List Nat)
    (k : Nat) (col : Column) (v : List Rat) (hstd : dumpStdCol prop = none) (hpos : isPosLike prop = false)
    (hid : prop ≠ "a_id" ∧ prop ≠ "atom_id" ∧ prop ≠ "atype") (hcol : s.prop? prop = some col)
    (hv : col.vals[k]? = some v) (cells : List Cell)
    (h : propCells s u ids pos (dumpCol prop shape) k = .ok cells) :
    (dumpCol prop shape).names = indexNames prop shape ∧ v.length = shapeSize shape ∧
    cells = v.map (fun q => if col.isInt then Cell.int q.floor else Cell.num q) := by
  have hc : dumpCol prop shape = { prop := prop, names := indexNames prop shape, unit := .none } := by
    simp [dumpCol, hstd]
  rw [hc] at h ⊢
  have hsp : ¬ (prop = "spos" ∨ prop = "supos") := by
    intro hh
    rcases hh with hh | hh <;> simp [isPosLike, hh] at hpos
  simp only [propCells, hid.1, hid.2.1, hid.2.2, or_self, if_false, hpos, Bool.false_eq_true, hcol, hv, Option.map_some,
    hsp] at h
  split at h
  · cases h
  · rename_i hl
    simp only [pure, Except.pure, Except.ok.injEq] at h
    refine ⟨rfl, ?_, h.symm⟩
    have := indexNames_length prop shape
    simp only [ne_eq, Decidable.not_not] at hl
    omega

end Atomman.C07
