/-
  C12 — the source tie (round 5).  `lean/Atomman/Generated/StrohSource.lean` is regenerated on every check by
  `translate()` (harness/props/c12.py) from the CURRENT source of atomman/defect/{Stroh, VolterraDislocation,
  solve_volterra_dislocation, dislocation_system_transform, IsotropicVolterraDislocation}.py and of
  ElasticConstants.transform: every definition there is assembled from the einsum index strings, operand orders, literal
  arrays, operators, branch conditions, signatures and call arguments read with `ast`.  Here each generated definition
  is proved equal to the hand model of lean/Atomman/C12.lean (`gen_…_eq_model`) — the model all property theorems are
  about — so an edit of the source that changes one of them breaks a named obligation.  Statements that are not Lean
  definitions (calls into numpy / other properties' code, stores, clean-up masks) are held by normalised statement pins
  (`gen_…_pinned`: the generated text must equal the text written here).
-/
import Atomman.C12
import Atomman.Generated.StrohSource
import Proofs.C12_Lemmas
import Proofs.C12_Units
import Proofs.C12_Miller
import Mathlib.Tactic.Ring
import Mathlib.Tactic.FinCases
import Mathlib.Tactic.FieldSimp
import Mathlib.Tactic.Linarith
import Mathlib.Tactic.NormNum
import Mathlib.Algebra.Order.Field.Basic
import Mathlib.Algebra.Order.AbsoluteValue.Basic

namespace Atomman.C12
open Atomman
set_option linter.unusedSectionVars false
set_option linter.unusedVariables false
set_option linter.unusedSimpArgs false

/-- the eigen-solver output as the three arrays `p`, `A`, `L` of the source. -/
def modeP {F : Type} (μ : Fin 6 → Mode F) : Fin 6 → F := fun a => (μ a).p
def modeA {F : Type} (μ : Fin 6 → Mode F) : Fin 6 → Vec F := fun a => (μ a).A
def modeL {F : Type} (μ : Fin 6 → Mode F) : Fin 6 → Vec F := fun a => (μ a).L

section field
variable {F : Type} [Field F]

/-! ## `Stroh.solve` -/

/-- `mm, mn, nm, nn`: the einsum `'i,ijkl,l'` with the operands of the source is the model's `contract`. -/
theorem gen_contractions_eq_model (s : Setup F) :
    Gen.Stroh.mm s.m s.n s.C = s.mm ∧ Gen.Stroh.mn s.m s.n s.C = s.mn
      ∧ Gen.Stroh.nm s.m s.n s.C = s.nm ∧ Gen.Stroh.nn s.m s.n s.C = s.nn := ⟨rfl, rfl, rfl, rfl⟩

/-- the four quadrants of `N` as the source builds them. -/
theorem gen_quadrants_eq_model (s : Setup F) (nnInv : Mat F) :
    Gen.Stroh.NA s.m s.n s.C nnInv = NA s nnInv ∧ Gen.Stroh.NB s.m s.n s.C nnInv = NB nnInv
      ∧ Gen.Stroh.NC s.m s.n s.C nnInv = NC s nnInv ∧ Gen.Stroh.ND s.m s.n s.C nnInv = ND s nnInv :=
  ⟨rfl, rfl, rfl, rfl⟩

/-- the block layout of `N` and the split of an eigenvector into `A` (first three) and `L` (last three components):
    `N v - p v` of the source is the model's pair of residuals. -/
theorem gen_eigRes_eq_model (s : Setup F) (nnInv : Mat F) (μ : Mode F) :
    Gen.Stroh.eigResTop s.m s.n s.C nnInv μ.p μ.A μ.L = eigResTop s nnInv μ
      ∧ Gen.Stroh.eigResBot s.m s.n s.C nnInv μ.p μ.A μ.L = eigResBot s nnInv μ := ⟨rfl, rfl⟩

/-- `k = 1. / (2. * einsum('si,si->s', A, L))`. -/
theorem gen_kNorm_eq_model (μ : Fin 6 → Mode F) (a : Fin 6) :
    Gen.Stroh.kNorm (modeA μ) (modeL μ) a = kOf (μ a) := rfl

/-- the literal `updn` arrays of `K_tensor`, `displacement`, `strain`, `stress` are all the model's alternating sign. -/
theorem gen_updn_eq_model (a : Fin 6) :
    (Gen.Stroh.updn_K_tensor a : F) = updn a ∧ (Gen.Stroh.updn_displacement a : F) = updn a
      ∧ (Gen.Stroh.updn_strain a : F) = updn a ∧ (Gen.Stroh.updn_stress a : F) = updn a := by
  fin_cases a <;> exact ⟨rfl, rfl, rfl, rfl⟩

/-- left-hand sides of the four self-checks. -/
theorem gen_checks_eq_model (μ : Fin 6 → Mode F) (k sk : Fin 6 → F) :
    Gen.Stroh.chk1 k sk (modeA μ) (modeL μ) = chkAL μ k ∧ Gen.Stroh.chk2 k sk (modeA μ) (modeL μ) = chkAA μ k
      ∧ Gen.Stroh.chk3 k sk (modeA μ) (modeL μ) = chkLL μ k
      ∧ ∀ s t, Gen.Stroh.chk4 k sk (modeA μ) (modeL μ) s t = chkST μ sk s t := by
  refine ⟨rfl, rfl, rfl, fun s t => ?_⟩
  simp only [Gen.Stroh.chk4, chkST, dot, sum3, modeA, modeL]
  ring

/-- targets of the four self-checks, in source order: identity, zero, zero, 6x6 identity. -/
theorem gen_checkTargets_pinned :
    Gen.Stroh.checkTargets = [("chk1", "kron"), ("chk2", "zero"), ("chk3", "zero"), ("chk4", "kron6")] := rfl

/-! ## field methods -/

theorem gen_eta_eq_model (s : Setup F) (μ : Fin 6 → Mode F) (x : Vec F) (a : Fin 6) :
    Gen.Stroh.eta s.m s.n (modeP μ) x a = eta s (μ a) x := rfl

theorem gen_kTensor_eq_model (I : F) (μ : Fin 6 → Mode F) (k : Fin 6 → F) :
    Gen.Stroh.kTensor I k (modeL μ) = kTensor I μ k := by
  funext i j
  simp only [Gen.Stroh.kTensor, kTensor, sum6, modeL, (gen_updn_eq_model _).1]

/-- **`Stroh.displacement` as coded is the model's `dispAt`** (prefactor, `kLb`, operand order and index string of the
    einsum, the `updn` literal). -/
theorem gen_displacement_eq_model (pi I : F) (s : Setup F) (μ : Fin 6 → Mode F) (k : Fin 6 → F) (lnη : Fin 6 → F) :
    Gen.Stroh.displacement pi I s.m s.n s.b s.C (modeP μ) k (modeA μ) (modeL μ) lnη = dispAt pi I s μ k lnη := by
  funext i
  simp only [Gen.Stroh.displacement, dispAt, dispCoef, kLb, dot, sum3, sum6, modeA, modeL, (gen_updn_eq_model _).2.1]
  ring

/-- **`Stroh.strain` as coded is the model's `strainAt`**. -/
theorem gen_strain_eq_model (pi I : F) (s : Setup F) (μ : Fin 6 → Mode F) (k : Fin 6 → F) (x : Vec F) :
    Gen.Stroh.strain pi I s.m s.n s.b s.C (modeP μ) k (modeA μ) (modeL μ) x = strainAt pi I s μ k x := by
  funext i j
  simp only [Gen.Stroh.strain, strainAt, strainCoef, kLb, mpn, dot, sum3, sum6, modeA, modeL, modeP,
    (gen_updn_eq_model _).2.2.1, Gen.Stroh.eta, eta]
  ring

/-- **`Stroh.stress` as coded is the model's `stressAt`**. -/
theorem gen_stress_eq_model (pi I : F) (s : Setup F) (μ : Fin 6 → Mode F) (k : Fin 6 → F) (x : Vec F) :
    Gen.Stroh.stress pi I s.m s.n s.b s.C (modeP μ) k (modeA μ) (modeL μ) x = stressAt pi I s μ k x := by
  funext i j
  simp only [Gen.Stroh.stress, stressAt, stressCoef, kLb, mpn, dot, sum3, sum6, modeA, modeL, modeP,
    (gen_updn_eq_model _).2.2.2, Gen.Stroh.eta, eta]
  ring

/-- `K_coeff`, `preln` of the base class. -/
theorem gen_Kcoeff_preln_eq_model (pi : F) (K : Mat F) (b : Vec F) :
    Gen.Stroh.Kcoeff K b = kCoeff K b ∧ Gen.Stroh.preln pi K b = preln pi K b := ⟨rfl, rfl⟩

/-- the two einsums of `ElasticConstants.transform` are the model's four-index rotation. -/
theorem gen_rotC_eq_model (T : Mat F) (C : Ten4 F) : Gen.Stroh.rotC T C = rotC T C := by
  funext i j k l
  simp only [Gen.Stroh.rotC, rotC, sum3]
  ring

/-- `__find_transform` and the stand-alone `dislocation_system_transform` build the same matrix: the model's
    `findTransform` of the normalised line direction. -/
theorem gen_findTransform_eq_model (m n nAxis ξ0 : Vec F) (nrm : F) :
    Gen.Stroh.findTransform m n nAxis ξ0 nrm = findTransform m n nAxis (fun i => ξ0 i / nrm)
      ∧ Gen.Stroh.dstTransform m n nAxis ξ0 nrm = findTransform m n nAxis (fun i => ξ0 i / nrm) := by
  constructor <;>
  · funext i c
    simp only [Gen.Stroh.findTransform, Gen.Stroh.dstTransform, findTransform, Gen.Stroh.rows3, sum3]
    simp

theorem gen_axisOfStr_eq_model (s : String) : (Gen.Stroh.axisOfStr s : Option (Vec F)) = axisOfStr s := by
  unfold Gen.Stroh.axisOfStr axisOfStr
  split_ifs <;> first | rfl | (congr 1; funext i; fin_cases i <;> rfl)

end field

/-! ## signatures, forwarding, option handling, dispatcher -/

/-- every layer (`__init__`, the three `solve` methods, `solve_volterra_dislocation`) has the model's signature:
    names, ORDER and defaults. -/
theorem gen_signatures_eq_model :
    Gen.Stroh.sigInit = solveSig ∧ Gen.Stroh.sigSolve = solveSig ∧ Gen.Stroh.sigStrohSolve = solveSig
      ∧ Gen.Stroh.sigIsoSolve = solveSig ∧ Gen.Stroh.sigDispatch = solveSig := ⟨rfl, rfl, rfl, rfl, rfl⟩

/-- ... and hands every argument on under its own name: nothing is dropped, swapped or replaced on the way from the
    entry point to `VolterraDislocation.solve` (through `Stroh` as well as through the isotropic fallback). -/
theorem gen_forwarding_eq_model :
    Gen.Stroh.initForward = forwardOf solveSig
      ∧ Gen.Stroh.dispatchFirstForward = forwardOf solveSig ∧ Gen.Stroh.dispatchSecondForward = forwardOf solveSig
      ∧ Gen.Stroh.strohSuper = ("self" :: (forwardOf solveSig).1, (forwardOf solveSig).2)
      ∧ Gen.Stroh.isoSuper = ("self" :: (forwardOf solveSig).1, (forwardOf solveSig).2) := by
  refine ⟨?_, ?_, ?_, ?_, ?_⟩ <;> decide

/-- the option handling of `VolterraDislocation.solve`, executed statement by statement, is the model's `routeOf`. -/
theorem gen_route_eq_model {M : Type} (ξ hkl : Bool) (t a : Option M) :
    Gen.Stroh.route ξ hkl t a = routeOf ξ hkl t a := by
  cases ξ <;> cases hkl <;> cases t <;> cases a <;> rfl

/-- `solve_volterra_dislocation` is `try: Stroh except ValueError: IsotropicVolterraDislocation`. -/
theorem gen_dispatch_eq_model (sOk isoN inPl : Bool) :
    Gen.Stroh.dispatch sOk (isoAccept isoN inPl) = dispatch sOk isoN inPl := by
  cases sOk <;> cases isoN <;> cases inPl <;> decide

/-- what the `except` clause catches is what both refusals of `Stroh.solve` (and of the isotropic solver) raise. -/
theorem gen_dispatch_catches :
    Gen.Stroh.dispatchCatches = "ValueError" ∧ (∀ e ∈ Gen.Stroh.strohRaises, e = Gen.Stroh.dispatchCatches)
      ∧ (∀ e ∈ Gen.Stroh.isoRaises, e = "ValueError") := by decide

/-- every array-valued getter of the base class hands out a copy (repo fix 14f01a1). -/
theorem gen_getters_pinned :
    Gen.Stroh.getters = [("m", "return self.__m.copy()"), ("n", "return self.__n.copy()"), ("ξ", "return self.__ξ.copy()"),
      ("burgers", "return self.__burgers.copy()"), ("transform", "return self.__transform.copy()"),
      ("tol", "return self.__tol"), ("C", "return self.__C")] := rfl

/-- `ElasticConstants.transform(axes, tol=1e-08)`: the solver calls it WITHOUT its own `tol` (see `gen_pins_pinned`). -/
theorem gen_sigTransform_pinned : Gen.Stroh.sigTransform = [("axes", ""), ("tol", "1e-08")] := rfl

/-- statement pin of `IsotropicVolterraDislocation.theta` (statement audit): `arctan(y / x)`, the two special cases on
    `x = 0`, `+π` for `x < 0`, then `-2π` where the value is `≥ π` — the hand model is `thetaOf` (`thetaOf_halfplanes`); an
    edit of a comparison or of the order of the four in-place updates changes this text. -/
theorem gen_theta_pinned : Gen.Stroh.thetaBody =
  ["pos = np.asarray(pos, dtype=float)",
   "x = pos.dot(self.m)",
   "y = pos.dot(self.n)",
   "with warnings.catch_warnings():\n    warnings.simplefilter('ignore')\n    theta = np.arctan(y / x)",
   "theta[(x == 0) & (y > 0)] = np.pi / 2",
   "theta[(x == 0) & (y < 0)] = -np.pi / 2",
   "theta[x < 0] += np.pi",
   "theta[theta >= np.pi] -= 2 * np.pi",
   "return theta"] := rfl

/-- statements outside the Lean definitions, in source order. -/
theorem gen_pins_pinned : Gen.Stroh.pins =
  ["Cmax = np.abs(self.C.Cijkl).max()",
   "Cijkl = self.C.Cijkl / Cmax",
   "eig = np.linalg.eig(N)",
   "p = eig[0]",
   "eigvec = np.transpose(eig[1])",
   "self.__p = p",
   "self.__A = A",
   "self.__L = L * Cmax",
   "self.__k = k / Cmax",
   "if self.K_tensor.dtype == 'complex128':\n    raise ValueError('Solution not real: check elastic constants')",
   "K_tensor: K = np.real_if_close(K, tol=self.tol)",
   "K_tensor: K[np.isclose(K / K.max(), 0.0, atol=self.tol)] = 0.0",
   "displacement: disp = real_if_close(disp, self.tol)",
   "strain: strain = real_if_close(strain, self.tol)",
   "stress: stress = real_if_close(stress, self.tol)",
   "burgers = np.asarray(burgers, dtype=float)",
   "if box is None:\n    box = Box()",
   "m, n = self.__mn_check(m, n, cart_axes, tol)",
   "burgers = miller.vector_crystal_to_cartesian(burgers, box)",
   "C = C.transform(transform)",
   "self.__C = C",
   "self.__m = m",
   "self.__n = n",
   "self.__ξ = np.cross(m, n)",
   "self.__burgers = burgers",
   "self.__tol = tol",
   "self.__transform = transform",
   "axis = np.array(axis, dtype=float)",
   "assert axis.shape == (3,)",
   "characterangle: return vect_angle(self.burgers, self.ξ, unit=unit)",
   "dst: assert m.shape == (3,)",
   "dst: assert np.isclose(np.linalg.norm(m), 1.0, atol=tol)",
   "dst: assert n.shape == (3,)",
   "dst: assert np.isclose(np.linalg.norm(n), 1.0, atol=tol)",
   "dst: assert np.isclose(np.dot(m, n), 0.0, atol=tol)",
   "if not C.is_normal('isotropic', atol=0.0, rtol=0.0001):\n    raise ValueError('C must be isotropic elastic constants')",
   "C = C.normalized_as('isotropic')",
   "axes = np.asarray(axes, dtype='float64')",
   "T = axes_check(axes)",
   "C[abs(C / C.max()) < tol] = 0.0",
   "return ElasticConstants(Cijkl=C)"] := rfl

/-! ## ordered part: clean-ups, acceptance tests -/
section ordered
variable {K : Type} [Field K] [LinearOrder K] [IsStrictOrderedRing K]

/-- Burgers vector: crystal → Cartesian, rotation, relative clean-up. -/
theorem gen_orientB_eq_model (tol : K) (T vects : Mat K) (b : Vec K) :
    Gen.Stroh.orientB tol T vects b = orientB tol T vects b := rfl

/-- in-plane test of the isotropic solver. -/
theorem gen_isoInPlaneOk_eq_model (tol : K) (b n : Vec K) :
    Gen.Stroh.isoInPlaneOk tol b n = isoInPlaneOk tol b n := rfl

theorem absF_abs (v : K) : absF v = |v| := by
  unfold absF
  split_ifs with h
  · exact (abs_of_neg h).symm
  · exact (abs_of_nonneg (not_lt.mp h)).symm

/-- **the model's square-root-free unit test is the coded one**: `isclose(norm(axis), 1, atol=tol, rtol=0)` with
    `norm(axis) = √(axis·axis)` holds exactly when `(1-tol)² ≤ axis·axis ≤ (1+tol)²` (for `0 ≤ tol ≤ 1`). -/
theorem gen_unitOk_eq_model (tol nrm : K) (a : Vec K) (h0 : 0 ≤ nrm) (hn : nrm * nrm = dot a a)
    (ht0 : 0 ≤ tol) (ht1 : tol ≤ 1) : Gen.Stroh.unitOk tol nrm = unitOk tol a := by
  simp only [Gen.Stroh.unitOk, unitOk, closeTo, absF_abs, ← hn, Nat.cast_zero, Nat.cast_one, zero_mul, add_zero]
  rw [Bool.eq_iff_iff]
  simp only [decide_eq_true_eq, Bool.and_eq_true, abs_le]
  constructor
  · rintro ⟨h1, h2⟩
    constructor <;> nlinarith
  · rintro ⟨h1, h2⟩
    constructor
    · by_contra hc
      push Not at hc
      nlinarith
    · by_contra hc
      push Not at hc
      nlinarith

/-- Cartesian alignment (`cart_axes=True`). -/
theorem gen_cartOk_eq_model (tol : K) (a : Vec K) : Gen.Stroh.cartOk tol a = cartAligned tol a := by
  simp only [Gen.Stroh.cartOk, cartAligned, Gen.Stroh.count3, closeTo, absF_abs, Nat.cast_zero, Nat.cast_one, zero_mul,
    add_zero, abs_le]
  have e : ∀ v : K, decide (-tol ≤ v - 1 ∧ v - 1 ≤ tol) = (decide (-tol ≤ v - 1) && decide (v - 1 ≤ tol)) := by
    intro v; simp [Bool.decide_and]
  simp only [e]

/-- perpendicularity of `m` and `n`. -/
theorem gen_perpOk_eq_model (tol : K) (m n : Vec K) :
    Gen.Stroh.perpOk tol m n = (decide (-tol ≤ dot m n) && decide (dot m n ≤ tol)) := by
  rw [Bool.eq_iff_iff]
  simp [Gen.Stroh.perpOk, closeTo, absF_abs, abs_le, dot]
  exact Iff.intro (fun h => ⟨decide_eq_true h.1, decide_eq_true h.2⟩)
    (fun h => ⟨of_decide_eq_true h.1, of_decide_eq_true h.2⟩)

/-- what `Stroh.solve` asserts — on the eigen-solution of the problem for `C / max|C|`, BEFORE it gives `L` and `k` their
    units back: the generated left-hand sides against the pinned targets, `np.allclose(…, atol=tol)`. -/
def srcChecksOk (tol rtol : K) (k sk : Fin 6 → Cx K) (A L : Fin 6 → Vec (Cx K)) : Bool :=
  (all3 fun i => all3 fun j => closeToReal tol rtol (Gen.Stroh.chk1 k sk A L i j) (kron i j))
  && (all3 fun i => all3 fun j => closeToReal tol rtol (Gen.Stroh.chk2 k sk A L i j) 0)
  && (all3 fun i => all3 fun j => closeToReal tol rtol (Gen.Stroh.chk3 k sk A L i j) 0)
  && (all6 fun s => all6 fun t => closeToReal tol rtol (Gen.Stroh.chk4 k sk A L s t) (kron6 s t))

theorem rmul_one (z : Cx K) : Cx.rmul 1 z = z := by
  cases z; simp [Cx.rmul]

theorem rdiv_one (z : Cx K) : Cx.rdiv z 1 = z := by
  cases z; simp [Cx.rdiv]

/-- **the acceptance test as coded = the model's `strohChecksOk` on what the object stores** (repo fix 540bb56): the
    source checks the eigen-solution `(A, L₀, k₀)` of the problem for `C / cmax` and then stores `L₀·cmax`, `k₀ / cmax`
    (pinned statements `self.__L = L * Cmax`, `self.__k = k / Cmax`); the model reads the stored values and scales the
    second check by `cmax`, the third by `1/cmax` (`cmax = t² > 0`, `√(k₀/cmax) = √k₀ / t`). -/
theorem gen_checks_stored (tol rtol cmax t : K) (ht : t ≠ 0) (hc : cmax = t * t)
    (μ : Fin 6 → Mode (Cx K)) (k sk : Fin 6 → Cx K) :
    srcChecksOk tol rtol k sk (modeA μ) (modeL μ)
      = strohChecksOk tol rtol cmax (fun a => stiffModeC cmax (μ a)) (fun a => Cx.rdiv (k a) cmax)
          (fun a => Cx.rdiv (sk a) t) := by
  have h := stroh_checks_unit_invariant tol rtol 1 cmax t ht hc one_ne_zero μ k sk
  rw [mul_one] at h
  rw [h]
  have e4 : ∀ s t', Gen.Stroh.chk4 k sk (modeA μ) (modeL μ) s t' = chkST μ sk s t' := by
    intro s t'
    apply Cx.ext' <;> simp [Gen.Stroh.chk4, chkST, dot, sum3, modeA, modeL] <;> ring
  simp only [srcChecksOk, strohChecksOk, rmul_one, rdiv_one, e4]
  rfl

end ordered

end Atomman.C12
