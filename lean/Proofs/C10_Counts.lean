/-
  C10_Counts — "counts and thresholds": what `np.asarray(term['value'])` makes of a list does not depend on how long
  the list is or where it is cut: the type of the array read back is decided by ALL entries (the head of a long list
  never decides alone), and the buffer is the concatenation of the blocks.
-/
import Proofs.C10_Lemmas

namespace Atomman.C10
variable {K : Type} {α β : Type}

/-- `mapOpt` over a list cut anywhere: both blocks must succeed, the results are concatenated. -/
theorem mapOpt_append (f : α → Option β) (a b : List α) :
    mapOpt f (a ++ b) = (match mapOpt f a, mapOpt f b with
      | some x, some y => some (x ++ y)
      | _, _ => none) := by
  induction a with
  | nil =>
    simp only [List.nil_append, mapOpt]
    cases mapOpt f b <;> rfl
  | cons x a ih =>
    simp only [List.cons_append, mapOpt, ih]
    cases f x <;> cases mapOpt f a <;> cases mapOpt f b <;> rfl

section
variable [IntCast K]

/-- counts: the dtype of a list read back is decided by ALL its entries, in any cut into two blocks - two integer
    blocks give the integer array of both, however long either block is. -/
theorem ofScs_append_int (a b : List (Sc K)) (ia ib : List Int)
    (ha : mapOpt Sc.int? a = some ia) (hb : mapOpt Sc.int? b = some ib) (hne : a ++ b ≠ []) :
    Data.ofScs (a ++ b) = some (Data.int (ia ++ ib)) := by
  have h : mapOpt Sc.int? (a ++ b) = some (ia ++ ib) := by rw [mapOpt_append, ha, hb]
  cases hab : a ++ b with
  | nil => exact absurd hab hne
  | cons x r =>
    rw [hab] at h
    simp only [Data.ofScs, h]

/-- ... and an entry that is not an integer anywhere in the tail block makes the whole array a non-integer array:
    the head alone never decides. -/
theorem ofScs_append_tail_decides (a b : List (Sc K)) (hb : mapOpt Sc.int? b = none) (is : List Int) :
    Data.ofScs (a ++ b) ≠ some (Data.int is) := by
  have h : mapOpt Sc.int? (a ++ b) = none := by
    rw [mapOpt_append, hb]; cases mapOpt Sc.int? a <;> rfl
  cases hab : a ++ b with
  | nil => simp [Data.ofScs]
  | cons x r =>
    rw [hab] at h
    simp only [Data.ofScs, h]
    cases mapOpt Sc.num? (x :: r) with
    | some xs => simp
    | none =>
      cases mapOpt Sc.str? (x :: r) <;> simp

/-- numeric blocks (integers and floats mixed) give the float array of both blocks' values. -/
theorem ofScs_append_num (a b : List (Sc K)) (xa xb : List K)
    (ha : mapOpt Sc.num? a = some xa) (hb : mapOpt Sc.num? b = some xb)
    (hi : mapOpt Sc.int? (a ++ b) = none) :
    Data.ofScs (a ++ b) = some (Data.flt (xa ++ xb)) := by
  have h : mapOpt Sc.num? (a ++ b) = some (xa ++ xb) := by rw [mapOpt_append, ha, hb]
  cases hab : a ++ b with
  | nil => rw [hab] at hi; simp [mapOpt] at hi
  | cons x r =>
    rw [hab] at h hi
    simp only [Data.ofScs, hi, h]

/-- string blocks give the string array of both (no width is fixed by the head). -/
theorem ofScs_append_str (a b : List (Sc K)) (sa sb : List String)
    (ha : mapOpt Sc.str? a = some sa) (hb : mapOpt Sc.str? b = some sb) (hne : a ++ b ≠ []) :
    Data.ofScs (a ++ b) = some (Data.str (sa ++ sb)) := by
  have h : mapOpt Sc.str? (a ++ b) = some (sa ++ sb) := by rw [mapOpt_append, ha, hb]
  cases hab : a ++ b with
  | nil => exact absurd hab hne
  | cons x r =>
    rw [hab] at h
    have hx : ∃ s, x = Sc.str s := by
      cases x with
      | str s => exact ⟨s, rfl⟩
      | _ => simp [mapOpt, Sc.str?] at h
    obtain ⟨s, rfl⟩ := hx
    have h1 : mapOpt Sc.int? (Sc.str s :: r : List (Sc K)) = none := by simp [mapOpt, Sc.int?]
    have h2 : mapOpt Sc.num? (Sc.str s :: r : List (Sc K)) = none := by simp [mapOpt, Sc.num?]
    simp only [Data.ofScs, h1, h2, h, Option.map]
end
end Atomman.C10
