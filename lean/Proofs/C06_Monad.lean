/-
  C06 — helper lemmas, part 2: post-condition calculus for the state monad `M` of the model
  (the state survives exceptions, so a post-condition speaks about both outcomes).
-/
import Proofs.C06_Lemmas

namespace Atomman.C06
set_option linter.unusedSimpArgs false
set_option linter.unusedVariables false

/-- running `m` from `s` ends with a result and a state satisfying `Q` (whether or not it raised). -/
def Post {α : Type} (m : M α) (s : State) (Q : Except Err α → State → Prop) : Prop := Q (m s).1 (m s).2

theorem Post.mono {α : Type} {m : M α} {s : State} {Q Q' : Except Err α → State → Prop}
    (h : Post m s Q) (hq : ∀ r s', Q r s' → Q' r s') : Post m s Q' := hq _ _ h

theorem Post.of_eq {α : Type} {m : M α} {s : State} {Q : Except Err α → State → Prop} (r : Except Err α) (s' : State)
    (h : m s = (r, s')) (hq : Q r s') : Post m s Q := by
  unfold Post; rw [h]; exact hq

theorem post_pure {α : Type} (a : α) (s : State) (Q : Except Err α → State → Prop) :
    Post (pure a : M α) s Q ↔ Q (.ok a) s := Iff.rfl

theorem post_fail {α : Type} (e : Err) (s : State) (Q : Except Err α → State → Prop) :
    Post (fail e : M α) s Q ↔ Q (.error e) s := Iff.rfl

theorem post_getS (s : State) (Q : Except Err State → State → Prop) : Post getS s Q ↔ Q (.ok s) s := Iff.rfl

theorem post_bind {α β : Type} (m : M α) (f : α → M β) (s : State) (Q : Except Err β → State → Prop) :
    Post (m >>= f) s Q ↔
    Post m s (fun r s' => match r with | .ok a => Post (f a) s' Q | .error e => Q (.error e) s') := by
  show Q (M.bind m f s).1 (M.bind m f s).2 ↔ _
  unfold Post M.bind
  cases hm : m s with
  | mk r s' => cases r <;> simp

theorem post_bind_getS {β : Type} (f : State → M β) (s : State) (Q : Except Err β → State → Prop) :
    Post (getS >>= f) s Q ↔ Post (f s) s Q := by rw [post_bind]; rfl

theorem post_bind_pure {α β : Type} (a : α) (f : α → M β) (s : State) (Q : Except Err β → State → Prop) :
    Post ((pure a : M α) >>= f) s Q ↔ Post (f a) s Q := by rw [post_bind]; rfl

theorem post_bind_fail {α β : Type} (e : Err) (f : α → M β) (s : State) (Q : Except Err β → State → Prop) :
    Post ((fail e : M α) >>= f) s Q ↔ Q (.error e) s := by rw [post_bind]; rfl

theorem post_liftO {α : Type} (e : Err) (x : Option α) (s : State) (Q : Except Err α → State → Prop) :
    Post (liftO e x) s Q ↔ (match x with | some a => Q (.ok a) s | none => Q (.error e) s) := by
  cases x <;> rfl

theorem post_liftE {α : Type} (x : Except Err α) (s : State) (Q : Except Err α → State → Prop) :
    Post (liftE x) s Q ↔ Q x s := Iff.rfl

theorem post_bind_liftO {α β : Type} (e : Err) (x : Option α) (f : α → M β) (s : State)
    (Q : Except Err β → State → Prop) :
    Post (liftO e x >>= f) s Q ↔ (match x with | some a => Post (f a) s Q | none => Q (.error e) s) := by
  rw [post_bind]; cases x <;> rfl

theorem post_bind_keyErr {α β : Type} (x : Option α) (f : α → M β) (s : State)
    (Q : Except Err β → State → Prop) :
    Post (keyErr x >>= f) s Q ↔ (match x with | some a => Post (f a) s Q | none => Q (.error .key) s) :=
  post_bind_liftO _ _ _ _ _

theorem post_bind_liftE {α β : Type} (x : Except Err α) (f : α → M β) (s : State)
    (Q : Except Err β → State → Prop) :
    Post (liftE x >>= f) s Q ↔ (match x with | .ok a => Post (f a) s Q | .error e => Q (.error e) s) := by
  rw [post_bind]; cases x <;> rfl

theorem post_modifyS (g : State → State) (s : State) (Q : Except Err Unit → State → Prop) :
    Post (modifyS g) s Q ↔ Q (.ok ()) (g s) := Iff.rfl

theorem post_atomic {α : Type} (m : M α) (s : State) (Q : Except Err α → State → Prop) :
    Post (atomic m) s Q ↔
    Post m s (fun r s' => match r with | .ok a => Q (.ok a) s' | .error e => Q (.error e) s) := by
  unfold Post atomic
  cases hm : m s with
  | mk r s' => cases r <;> simp

/-- loop rule: an invariant kept by every iteration (whether it raises or not) holds at the end. -/
theorem post_forEach {β : Type} (l : List β) (f : β → M Unit) (I : State → Prop)
    (h : ∀ b ∈ l, ∀ s, I s → Post (f b) s (fun _ s' => I s')) :
    ∀ s, I s → Post (forEach l f) s (fun _ s' => I s') := by
  induction l with
  | nil => intro s hs; exact hs
  | cons b t ih =>
    intro s hs
    show Post (M.bind (f b) (fun _ => forEach t f)) s _
    have := (post_bind (f b) (fun _ => forEach t f) s (fun _ s' => I s')).mpr
    apply this
    apply Post.mono (h b (by simp) s hs)
    intro r s' hs'
    cases r with
    | error e => exact hs'
    | ok a => exact ih (fun b hb => h b (by simp [hb])) s' hs'

/-- loop rule with a ghost value `g` (the buffer ↦ key map of the invariant): the invariant `I g s`
    is re-established by every iteration for some extension `g'` of the ghost. -/
theorem post_forEach_ghost {β G : Type} (l : List β) (f : β → M Unit) (I : G → State → Prop)
    (ext : G → State → G → State → Prop)
    (ext_refl : ∀ g s, ext g s g s)
    (ext_trans : ∀ g s g1 s1 g2 s2, ext g s g1 s1 → ext g1 s1 g2 s2 → ext g s g2 s2)
    (h : ∀ b ∈ l, ∀ g s, I g s → Post (f b) s (fun _ s' => ∃ g', I g' s' ∧ ext g s g' s')) :
    ∀ g s, I g s → Post (forEach l f) s (fun _ s' => ∃ g', I g' s' ∧ ext g s g' s') := by
  induction l with
  | nil => intro g s hs; exact ⟨g, hs, ext_refl g s⟩
  | cons b t ih =>
    intro g s hs
    show Post (M.bind (f b) (fun _ => forEach t f)) s _
    apply (post_bind (f b) (fun _ => forEach t f) s _).mpr
    apply Post.mono (h b (by simp) g s hs)
    intro r s1 ⟨g1, hI1, he1⟩
    cases r with
    | error e => exact ⟨g1, hI1, he1⟩
    | ok a =>
      simp only []
      apply Post.mono (ih (fun b hb => h b (by simp [hb])) g1 s1 hI1)
      intro r2 s2 ⟨g2, hI2, he2⟩
      exact ⟨g2, hI2, ext_trans _ _ _ _ _ _ he1 he2⟩

/-- element-wise relation between two lists of the same length. -/
inductive All2 {β γ : Type} (R : β → γ → Prop) : List β → List γ → Prop
  | nil : All2 R [] []
  | cons {b c bs cs} : R b c → All2 R bs cs → All2 R (b :: bs) (c :: cs)

theorem All2.length {β γ : Type} {R : β → γ → Prop} {l : List β} {l' : List γ} (h : All2 R l l') :
    l'.length = l.length := by
  induction h with
  | nil => rfl
  | cons _ _ ih => simp [ih]

theorem All2.mono {β γ : Type} {R R' : β → γ → Prop} {l : List β} {l' : List γ} (h : All2 R l l')
    (hr : ∀ b c, R b c → R' b c) : All2 R' l l' := by
  induction h with
  | nil => exact All2.nil
  | cons h1 _ ih => exact All2.cons (hr _ _ h1) ih

theorem All2.mem_right {β γ : Type} {R : β → γ → Prop} {l : List β} {l' : List γ} (h : All2 R l l') :
    ∀ c ∈ l', ∃ b ∈ l, R b c := by
  induction h with
  | nil => intro c hc; simp at hc
  | cons h1 _ ih =>
    intro c hc
    simp at hc
    rcases hc with rfl | hc
    · exact ⟨_, by simp, h1⟩
    · obtain ⟨b, hb, hr⟩ := ih c hc
      exact ⟨b, by simp [hb], hr⟩

/-- `mapEach` with a ghost: additionally every returned element satisfies `R` (stable under `ext`). -/
theorem post_mapEach_ghost {β γ G : Type} (l : List β) (f : β → M γ) (I : G → State → Prop)
    (R : β → γ → G → State → Prop) (ext : G → State → G → State → Prop)
    (ext_refl : ∀ g s, ext g s g s)
    (ext_trans : ∀ g s g1 s1 g2 s2, ext g s g1 s1 → ext g1 s1 g2 s2 → ext g s g2 s2)
    (stab : ∀ b c g s g' s', R b c g s → ext g s g' s' → R b c g' s')
    (h : ∀ b ∈ l, ∀ g s, I g s →
      Post (f b) s (fun r s' => ∃ g', I g' s' ∧ ext g s g' s' ∧ ∀ c, r = .ok c → R b c g' s')) :
    ∀ g s, I g s → Post (mapEach l f) s (fun r s' => ∃ g', I g' s' ∧ ext g s g' s' ∧
      ∀ cs, r = .ok cs → All2 (fun b c => R b c g' s') l cs) := by
  induction l with
  | nil =>
    intro g s hs
    exact ⟨g, hs, ext_refl g s, by intro cs h; injection h with h; subst h; exact All2.nil⟩
  | cons b t ih =>
    intro g s hs
    show Post (M.bind (f b) (fun c => M.bind (mapEach t f) (fun cs => M.pure (c :: cs)))) s _
    apply (post_bind (f b) _ s _).mpr
    apply Post.mono (h b (by simp) g s hs)
    intro r s1 ⟨g1, hI1, he1, hR1⟩
    cases r with
    | error e => exact ⟨g1, hI1, he1, by intro cs h; cases h⟩
    | ok c =>
      simp only []
      apply (post_bind (mapEach t f) _ s1 _).mpr
      apply Post.mono (ih (fun b hb => h b (by simp [hb])) g1 s1 hI1)
      intro r2 s2 ⟨g2, hI2, he2, hR2⟩
      cases r2 with
      | error e => exact ⟨g2, hI2, ext_trans _ _ _ _ _ _ he1 he2, by intro cs h; cases h⟩
      | ok cs =>
        refine ⟨g2, hI2, ext_trans _ _ _ _ _ _ he1 he2, ?_⟩
        intro cs' hcs'
        have : cs' = c :: cs := by
          have : (Except.ok (c :: cs) : Except Err (List γ)) = .ok cs' := hcs'
          injection this with this; exact this.symm
        subst this
        exact All2.cons (stab b c g1 s1 g2 s2 (hR1 c rfl) he2) (hR2 cs rfl)

end Atomman.C06
