/-
  C14 — property theorems: surface-oriented cells (`free_surface_basis`), termination shifts and the
  surface system (`FreeSurface`), stacking-fault shifts (`StackingFault.fault`).
  Model: lean/Atomman/C14.lean.  For `free_surface_basis` `K` is any linearly ordered commutative ring (the
  driver runs the model at `ℤ` on the cell scaled to integers and at `ℚ`); the statements that divide
  (`normal_is_reciprocal`, wrap, fault, shifts) are for linearly ordered fields.
-/
import Proofs.C14_Search
import Proofs.C14_Object
import Proofs.C14_Counts
import Proofs.C14_Source
import Proofs.C14_C04
import Mathlib.Data.List.Pairwise
import Mathlib.Data.List.Perm.Basic
import Mathlib.Tactic.IntervalCases
import Mathlib.Data.Rat.Floor
import Mathlib.Algebra.Order.Floor.Ring
import Mathlib.Tactic.Positivity

namespace Atomman.C14
open Atomman
set_option linter.unusedSectionVars false
set_option linter.unusedSimpArgs false
set_option linter.unusedVariables false

section fsb
variable {K : Type} [CommRing K] [LinearOrder K] [IsStrictOrderedRing K]

/-! ## `free_surface_basis` -/

/-- documented refusal: the all-zero plane raises `ValueError`, and nothing else does. -/
theorem basis_value_error_iff (V : M3 K) (hkl : IV) (L : M3 Int) (nOpt : Option Int) :
    basisABC V hkl L nOpt = .error "value" ↔ hkl = ⟨0, 0, 0⟩ := by
  constructor
  · intro h
    by_contra hne
    obtain ⟨ini, hi, _⟩ := init_cross_parallel hkl hne
    unfold basisABC at h
    rw [hi] at h
    simp only at h
    split at h
    · split at h <;> simp at h
    · simp at h
  · rintro rfl
    unfold basisABC
    rw [initVectors_zero]

/-- **search_result_satisfies_filter**: whatever the two searches return passed the coded tests —
    `a` is an in-plane candidate, `c` is the gcd reduction of a candidate on the normal's side,
    `b` is an in-plane candidate, not parallel to `a`, with `(a×b)·n > 0`. -/
theorem search_result_satisfies_filter (V : M3 K) (hdet : M3.det V ≠ 0) (hkl : IV) (L : M3 Int)
    (nOpt : Option Int) (r : ABC K) (h : basisABC V hkl L nOpt = .ok r) :
    (r.a ∈ genVectors r.n ∧ inPlane V r.pn r.a) ∧
    (∃ c0 ∈ genVectors r.n, towardNormal V r.pn c0 ∧ r.c = reduceGcd c0) ∧
    (r.b ∈ genVectors r.n ∧ bFilter V r.pn (cart V r.a) r.b) := by
  obtain ⟨ini, cb, hi, hn, hpn, ha, hc, hcr, hb⟩ := basisABC_ok V hkl L nOpt r h
  obtain ⟨_, _, qa⟩ := search1_QA V r.pn r.n
  have qc := search1_QC V r.pn r.n (m2_pos_gen V hdet r.n)
  obtain ⟨_, _, qb⟩ := search2_QB V r.pn (cart V r.a) r.n
  refine ⟨?_, ?_, ?_⟩
  · rcases qa with ⟨q1, _⟩ | ⟨a, q1, q2, q3, _⟩
    · rw [ha] at q1; cases q1
    · rw [ha] at q1; cases q1; exact ⟨q2, q3⟩
  · rcases qc with ⟨q1, _⟩ | ⟨cb', q1, q2, q3, q4, _⟩
    · rw [hc] at q1; cases q1
    · rw [hc] at q1; cases q1
      exact ⟨cb.v, q2, by unfold towardNormal; rw [q4] at q3; exact q3, hcr⟩
  · rcases qb with ⟨q1, _⟩ | ⟨b, q1, _, q3, q4, _⟩
    · rw [hb] at q1; cases q1
    · rw [hb] at q1; cases q1; exact ⟨q3, q4⟩

/-- the component of a lattice vector along the computed normal is a positive multiple of
    `det V · (h,k,l)·(u · adj L)`; `u · adj L / det L` are the indices of `u` in the conventional cell. -/
theorem normal_component (V : M3 K) (hkl : IV) (L : M3 Int) (nOpt : Option Int) (r : ABC K)
    (h : basisABC V hkl L nOpt = .ok r) :
    ∃ num den : ℤ, 0 < num ∧ 0 < den ∧ ∀ u : IV,
      (den : K) * V3.dot (cart V u) r.pn = (num : K) * M3.det V * ((V3.dot hkl (M3.vecMul u (adj L)) : ℤ) : K) := by
  obtain ⟨ini, cb, hi, hn, hpn, _⟩ := basisABC_ok V hkl L nOpt r h
  have hne : hkl ≠ ⟨0, 0, 0⟩ := by
    rintro rfl; rw [initVectors_zero] at hi; cases hi
  obtain ⟨ini', hi', num, den, h1, h2, he⟩ := init_cross_parallel hkl hne
  rw [hi] at hi'; cases hi'
  refine ⟨num, den, h1, h2, ?_⟩
  intro u
  rw [hpn]
  exact dot_cart_planeNormal V L ini.a0 ini.b0 hkl u ini.s num den he

/-- zone law for any lattice vector: `u` is perpendicular to the computed normal iff
    `(h,k,l)·(u · adj L) = 0`. -/
theorem inPlane_iff_zone (V : M3 K) (hdet : M3.det V ≠ 0) (hkl : IV) (L : M3 Int) (nOpt : Option Int)
    (r : ABC K) (h : basisABC V hkl L nOpt = .ok r) (u : IV) :
    inPlane V r.pn u ↔ V3.dot hkl (M3.vecMul u (adj L)) = 0 := by
  obtain ⟨num, den, h1, h2, he⟩ := normal_component V hkl L nOpt r h
  have hnum : (num : K) ≠ 0 := by exact_mod_cast h1.ne'
  have hden : (den : K) ≠ 0 := by exact_mod_cast h2.ne'
  unfold inPlane
  constructor
  · intro h0
    have := he u
    rw [h0, mul_zero] at this
    have h3 := (mul_eq_zero.mp this.symm).resolve_left (mul_ne_zero hnum hdet)
    exact_mod_cast h3
  · intro h0
    have := he u
    rw [h0, Int.cast_zero, mul_zero] at this
    exact (mul_eq_zero.mp this).resolve_left hden

/-- **basis_in_plane** (zone law): the two in-plane vectors satisfy `h u + k v + l w = 0`, the indices
    `[u v w]·det L = (vector)·adj L` being those relative to the conventional cell the plane refers to. -/
theorem basis_in_plane (V : M3 K) (hdet : M3.det V ≠ 0) (hkl : IV) (L : M3 Int) (nOpt : Option Int)
    (r : ABC K) (h : basisABC V hkl L nOpt = .ok r) :
    V3.dot hkl (M3.vecMul r.a (adj L)) = 0 ∧ V3.dot hkl (M3.vecMul r.b (adj L)) = 0 := by
  obtain ⟨⟨_, ha⟩, _, ⟨_, hb, _⟩⟩ := search_result_satisfies_filter V hdet hkl L nOpt r h
  exact ⟨(inPlane_iff_zone V hdet hkl L nOpt r h r.a).mp ha, (inPlane_iff_zone V hdet hkl L nOpt r h r.b).mp hb⟩

theorem adj_one : adj (⟨⟨1, 0, 0⟩, ⟨0, 1, 0⟩, ⟨0, 0, 1⟩⟩ : M3 Int) = ⟨⟨1, 0, 0⟩, ⟨0, 1, 0⟩, ⟨0, 0, 1⟩⟩ := by decide

/-- primitive setting (`conventional_setting` absent or `'p'`): plain `h u + k v + l w = 0`. -/
theorem basis_in_plane_p (V : M3 K) (hdet : M3.det V ≠ 0) (h k l : ℤ) (L : M3 Int) (hL : c2p "p" = some L)
    (nOpt : Option Int) (r : ABC K) (hr : basisABC V ⟨h, k, l⟩ L nOpt = .ok r) :
    h * r.a.x + k * r.a.y + l * r.a.z = 0 ∧ h * r.b.x + k * r.b.y + l * r.b.z = 0 := by
  simp only [c2p, Option.some.injEq] at hL
  subst hL
  have := basis_in_plane V hdet ⟨h, k, l⟩ _ nOpt r hr
  rw [adj_one] at this
  simp only [V3.dot, M3.vecMul, mul_one, mul_zero, add_zero, zero_add] at this
  exact this

/-- **basis_out_of_plane**: the third vector is not in the plane; for a right-handed cell it is on the
    side of the plane normal `(h,k,l)·(c · adj L) > 0`. -/
theorem basis_out_of_plane (V : M3 K) (hdet : M3.det V ≠ 0) (hkl : IV) (L : M3 Int) (nOpt : Option Int)
    (r : ABC K) (h : basisABC V hkl L nOpt = .ok r) :
    0 < dn V r.pn r.c ∧ ¬ inPlane V r.pn r.c ∧ V3.dot hkl (M3.vecMul r.c (adj L)) ≠ 0 ∧
    (0 < M3.det V → 0 < V3.dot hkl (M3.vecMul r.c (adj L))) := by
  obtain ⟨_, ⟨c0, hc0, ht, hcr⟩, _⟩ := search_result_satisfies_filter V hdet hkl L nOpt r h
  have hne : c0 ≠ ⟨0, 0, 0⟩ := ((mem_genVectors _ _).mp hc0).2.2.2
  have hg := gcd3_pos c0 hne
  have hgK : (0 : K) < (gcd3 c0 : K) := by exact_mod_cast hg
  have e : dn V r.pn c0 = (gcd3 c0 : K) * dn V r.pn r.c := by
    rw [← dn_smul, hcr, reduceGcd_smul]
  have hpos : 0 < dn V r.pn r.c := by
    have ht' : 0 < dn V r.pn c0 := ht
    rw [e] at ht'
    exact (pos_iff_pos_of_mul_pos ht').mp hgK
  have hnot : ¬ inPlane V r.pn r.c := fun h0 => by
    have h0' : dn V r.pn r.c = 0 := h0
    rw [h0'] at hpos; exact lt_irrefl _ hpos
  refine ⟨hpos, hnot, ?_, ?_⟩
  · intro h0
    exact hnot ((inPlane_iff_zone V hdet hkl L nOpt r h r.c).mpr h0)
  · intro hd
    obtain ⟨num, den, h1, h2, he⟩ := normal_component V hkl L nOpt r h
    have hnum : (0 : K) < (num : K) := by exact_mod_cast h1
    have hden : (0 : K) < (den : K) := by exact_mod_cast h2
    have := he r.c
    have hl : 0 < (den : K) * V3.dot (cart V r.c) r.pn := mul_pos hden hpos
    rw [this] at hl
    have h3 : (0 : K) < ((V3.dot hkl (M3.vecMul r.c (adj L)) : ℤ) : K) :=
      (pos_iff_pos_of_mul_pos hl).mp (mul_pos hnum hd)
    exact_mod_cast h3

/-- **basis_integer**: all three vectors are non-zero integer vectors with entries bounded by
    `maxindex`; the division of the out-of-plane vector by its gcd is exact (`g·c = c₀`, `g > 0`) and leaves
    a primitive vector. -/
theorem basis_integer (V : M3 K) (hdet : M3.det V ≠ 0) (hkl : IV) (L : M3 Int) (nOpt : Option Int)
    (r : ABC K) (h : basisABC V hkl L nOpt = .ok r) :
    r.a ∈ genVectors r.n ∧ r.b ∈ genVectors r.n ∧
    ∃ c0 ∈ genVectors r.n, ∃ g : ℤ, 0 < g ∧ V3.smul g r.c = c0 ∧ gcd3 r.c = 1 ∧ r.c ≠ ⟨0, 0, 0⟩ := by
  obtain ⟨⟨ha, _⟩, ⟨c0, hc0, ht, hcr⟩, ⟨hb, _⟩⟩ := search_result_satisfies_filter V hdet hkl L nOpt r h
  have hne : c0 ≠ ⟨0, 0, 0⟩ := ((mem_genVectors _ _).mp hc0).2.2.2
  refine ⟨ha, hb, c0, hc0, gcd3 c0, gcd3_pos c0 hne, by rw [hcr]; exact reduceGcd_smul c0,
    by rw [hcr]; exact reduceGcd_coprime c0 hne, ?_⟩
  intro h0
  have := reduceGcd_coprime c0 hne
  rw [← hcr, h0] at this
  revert this; decide


/-! ### right-handedness -/

/-- vector algebra: if `a ⟂ n`, `b ⟂ n` then `(n·n) ((a×b)·c) = ((a×b)·n)(n·c)`. -/
theorem triple_via_normal (a b c n : V3 K) (ha : V3.dot a n = 0) (hb : V3.dot b n = 0) :
    V3.normSq n * V3.dot (V3.cross a b) c = V3.dot (V3.cross a b) n * V3.dot c n := by
  simp only [V3.dot, V3.cross, V3.normSq] at *
  linear_combination ((n.y * b.z - n.z * b.y) * c.x + (n.z * b.x - n.x * b.z) * c.y + (n.x * b.y - n.y * b.x) * c.z) * ha
    - ((n.y * a.z - n.z * a.y) * c.x + (n.z * a.x - n.x * a.z) * c.y + (n.x * a.y - n.y * a.x) * c.z) * hb


/-- Cartesian form, needs no orientation of the cell: `(a×b)·c > 0` for the Cartesian images. -/
theorem basis_right_handed_cart (V : M3 K) (hdet : M3.det V ≠ 0) (hkl : IV) (L : M3 Int) (nOpt : Option Int)
    (r : ABC K) (h : basisABC V hkl L nOpt = .ok r) :
    0 < V3.dot (V3.cross (cart V r.a) (cart V r.b)) (cart V r.c) := by
  obtain ⟨⟨_, ha⟩, _, ⟨_, hb, _, hw⟩⟩ := search_result_satisfies_filter V hdet hkl L nOpt r h
  obtain ⟨hc, _⟩ := basis_out_of_plane V hdet hkl L nOpt r h
  have hn : r.pn ≠ ⟨0, 0, 0⟩ := by
    intro h0
    rw [dn, h0] at hc
    simp only [V3.dot, mul_zero, add_zero, lt_irrefl] at hc
  have hnn := normSq_pos r.pn hn
  have key := triple_via_normal (cart V r.a) (cart V r.b) (cart V r.c) r.pn ha hb
  have hp : 0 < V3.normSq r.pn * V3.dot (V3.cross (cart V r.a) (cart V r.b)) (cart V r.c) := by
    rw [key]; exact mul_pos hw hc
  exact (pos_iff_pos_of_mul_pos hp).mp hnn

theorem det_cart (V : M3 K) (a b c : IV) :
    V3.dot (V3.cross (cart V a) (cart V b)) (cart V c) = ((M3.det (⟨a, b, c⟩ : M3 Int) : ℤ) : K) * M3.det V := by
  have h1 : V3.dot (V3.cross (cart V a) (cart V b)) (cart V c)
      = V3.dot (cart V a) (V3.cross (cart V b) (cart V c)) := by
    simp only [V3.dot, V3.cross]; ring
  rw [h1]
  unfold cart
  rw [triple_vecMul, ← toK_cross, ← toK_dot]
  simp only [M3.det]
  ring

theorem det_orderRows (cut : Cut) (a b c : IV) : M3.det (orderRows cut a b c) = M3.det (⟨a, b, c⟩ : M3 Int) := by
  cases cut <;> simp only [orderRows, M3.det, V3.dot, V3.cross] <;> ring

/-- **basis_right_handed**: for a right-handed cell the returned integer matrix has a positive
    determinant, for each of the three `cutboxvector` orderings (`c`: a,b,c — `b`: b,c,a — `a`: c,a,b);
    in general `det(uvws)·det(V) > 0`, i.e. the rotated cell `uvws·V` is always right-handed. -/
theorem basis_right_handed (V : M3 K) (hdet : M3.det V ≠ 0) (hkl : IV) (L : M3 Int) (cut : Cut)
    (nOpt : Option Int) (uvws : M3 Int) (pn : V3 K) (h : freeSurfaceBasis V hkl L cut nOpt = .ok (uvws, pn)) :
    0 < ((M3.det uvws : ℤ) : K) * M3.det V ∧ (0 < M3.det V → 0 < M3.det uvws) := by
  unfold freeSurfaceBasis at h
  split at h
  · rename_i r hr
    simp only [Except.ok.injEq, Prod.mk.injEq] at h
    obtain ⟨rfl, rfl⟩ := h
    have h1 := basis_right_handed_cart V hdet hkl L nOpt r hr
    rw [det_cart] at h1
    rw [det_orderRows]
    refine ⟨h1, ?_⟩
    intro hd
    have : (0 : K) < ((M3.det (⟨r.a, r.b, r.c⟩ : M3 Int) : ℤ) : K) := (pos_iff_pos_of_mul_pos h1).mpr hd
    exact_mod_cast this
  · cases h

/-- which row is which: the row at `cutindex` is the out-of-plane vector, the other two are the
    in-plane vectors (in cyclic order). -/
theorem orderRows_rows (cut : Cut) (a b c : IV) :
    (orderRows cut a b c).row (cutIndex cut) = c ∧
    (orderRows cut a b c).row ((cutIndex cut + 1) % 3) = a ∧
    (orderRows cut a b c).row ((cutIndex cut + 2) % 3) = b := by
  cases cut <;> exact ⟨rfl, rfl, rfl⟩

/-- the whole routine: a successful call returns `orderRows cut a b c` of a successful `basisABC` run,
    together with its normal; it refuses exactly when `basisABC` does (same error class). -/
theorem freeSurfaceBasis_eq (V : M3 K) (hkl : IV) (L : M3 Int) (cut : Cut) (nOpt : Option Int) :
    (∀ uvws pn, freeSurfaceBasis V hkl L cut nOpt = .ok (uvws, pn) ↔
      ∃ r, basisABC V hkl L nOpt = .ok r ∧ uvws = orderRows cut r.a r.b r.c ∧ pn = r.pn) ∧
    (∀ e, freeSurfaceBasis V hkl L cut nOpt = .error e ↔ basisABC V hkl L nOpt = .error e) := by
  unfold freeSurfaceBasis
  cases hb : basisABC V hkl L nOpt with
  | error e' => simp
  | ok r =>
    simp only [Except.ok.injEq, Prod.mk.injEq, reduceCtorEq, false_iff, iff_false, not_false_eq_true,
      implies_true, and_true]
    intro uvws pn
    constructor
    · rintro ⟨rfl, rfl⟩; exact ⟨r, rfl, rfl, rfl⟩
    · rintro ⟨r', rfl, rfl, rfl⟩; exact ⟨rfl, rfl⟩


/-! ### the reported normal -/

/-- the reported normal is the one `miller.plane_crystal_to_cartesian` computes (before its final
    normalisation) for `(hkl)` in the conventional cell `L·V` (C16's model). -/
theorem normal_matches_miller (V : M3 K) (hkl : IV) (L : M3 Int) (nOpt : Option Int) (r : ABC K)
    (h : basisABC V hkl L nOpt = .ok r) :
    C16.planeNormalUnnorm (M3.mul (castM L) V) hkl.x hkl.y hkl.z = .ok r.pn := by
  obtain ⟨ini, cb, hi, hn, hpn, _⟩ := basisABC_ok V hkl L nOpt r h
  have e := initVectors_eq_C16 hkl.x hkl.y hkl.z
  have hh : (⟨hkl.x, hkl.y, hkl.z⟩ : IV) = hkl := rfl
  rw [hh, hi] at e
  simp only at e
  unfold C16.planeNormalUnnorm
  rw [← e]
  simp only [Except.ok.injEq]
  rw [hpn]
  simp only [C16.normalOf, planeNormal, cart_vecMul]
  rfl

end fsb

section fsbField
variable {K : Type} [Field K] [LinearOrder K] [IsStrictOrderedRing K]

/-- **normal_is_reciprocal**: the reported normal is a positive multiple of
    `det(L·V) · (h a* + k b* + l c*)`, the reciprocal-lattice vector of the conventional cell `L·V`:
    for a right-handed cell it points along the plane's reciprocal-lattice direction. -/
theorem normal_is_reciprocal (V : M3 K) (hdet : M3.det V ≠ 0) (hkl : IV) (L : M3 Int) (hL : M3.det L ≠ 0)
    (nOpt : Option Int) (r : ABC K) (h : basisABC V hkl L nOpt = .ok r) :
    ∃ c : K, 0 < c ∧
      r.pn = V3.smul (c * M3.det (M3.mul (castM L) V)) (C16.recipVector (M3.mul (castM L) V) hkl.x hkl.y hkl.z) := by
  have hne : hkl ≠ ⟨0, 0, 0⟩ := by
    rintro rfl
    have := (basis_value_error_iff V ⟨0, 0, 0⟩ L nOpt).mpr rfl
    rw [h] at this; cases this
  have hne' : ¬(hkl.x = 0 ∧ hkl.y = 0 ∧ hkl.z = 0) := by
    rintro ⟨h1, h2, h3⟩; exact hne (by ext <;> assumption)
  have hdetc : M3.det (M3.mul (castM (K := K) L) V) ≠ 0 := by
    rw [C05.M3.det_mul]
    refine mul_ne_zero ?_ hdet
    have : M3.det (castM (K := K) L) = ((M3.det L : ℤ) : K) := by
      simp only [castM, toK, M3.det, V3.dot, V3.cross]; push_cast; ring
    rw [this]; exact_mod_cast hL
  obtain ⟨n, hn1, c, hc, he⟩ := c16_normal_is_reciprocal (M3.mul (castM L) V) hdetc hkl.x hkl.y hkl.z hne'
  rw [normal_matches_miller V hkl L nOpt r h] at hn1
  cases hn1
  exact ⟨c, hc, he⟩

end fsbField

section fsb
variable {K : Type} [CommRing K] [LinearOrder K] [IsStrictOrderedRing K]

/-- every centring matrix of `miller.vector_conventional_to_primitive` is non-singular
    (determinant = number of lattice points of the conventional cell: 1, 2, 2, 2, 2, 4, 3, 3). -/
theorem c2p_det (s : String) (L : M3 Int) (h : c2p s = some L) : 0 < M3.det L := by
  unfold c2p at h
  split at h <;> first | (cases h; decide) | cases h

/-! ### optimality inside the index cube -/

/-- `a` is a shortest in-plane lattice vector with indices in `[-n, n]`. -/
theorem basis_a_shortest (V : M3 K) (hkl : IV) (L : M3 Int) (nOpt : Option Int) (r : ABC K)
    (h : basisABC V hkl L nOpt = .ok r) :
    ∀ v ∈ genVectors r.n, inPlane V r.pn v → m2 V r.a ≤ m2 V v := by
  obtain ⟨ini, cb, hi, hn, hpn, ha, hc, hcr, hb⟩ := basisABC_ok V hkl L nOpt r h
  obtain ⟨_, hmin, qa⟩ := search1_QA V r.pn r.n
  rcases qa with ⟨q1, _⟩ | ⟨a, q1, q2, q3, q4, _⟩
  · rw [ha] at q1; cases q1
  · rw [ha] at q1; cases q1
    intro v hv hin
    rw [← q4]; exact hmin v hv hin

/-- `c` is the reduction of a candidate closest to the plane normal: no candidate `v` on the normal's
    side has a larger cosine (`(v·n)²/|v|² ≤ (c·n)²/|c|²`, cross-multiplied). -/
theorem basis_c_closest (V : M3 K) (hdet : M3.det V ≠ 0) (hkl : IV) (L : M3 Int) (nOpt : Option Int) (r : ABC K)
    (h : basisABC V hkl L nOpt = .ok r) :
    ∀ v ∈ genVectors r.n, towardNormal V r.pn v →
      dn V r.pn v * dn V r.pn v * m2 V r.c ≤ dn V r.pn r.c * dn V r.pn r.c * m2 V v := by
  obtain ⟨ini, cb, hi, hn, hpn, ha, hc, hcr, hb⟩ := basisABC_ok V hkl L nOpt r h
  have qc := search1_QC V r.pn r.n (m2_pos_gen V hdet r.n)
  rcases qc with ⟨q1, _⟩ | ⟨cb', q1, q2, q3, q4, q5, q6⟩
  · rw [hc] at q1; cases q1
  · rw [hc] at q1; cases q1
    intro v hv ht
    have h6 := q6 v hv ht
    rw [q4, q5] at h6
    have hne : cb.v ≠ ⟨0, 0, 0⟩ := ((mem_genVectors _ _).mp q2).2.2.2
    have hg : (0 : K) < (gcd3 cb.v : K) := by exact_mod_cast gcd3_pos cb.v hne
    have e1 : dn V r.pn cb.v = (gcd3 cb.v : K) * dn V r.pn r.c := by
      rw [← dn_smul, hcr, reduceGcd_smul]
    have e2 : m2 V cb.v = (gcd3 cb.v : K) * (gcd3 cb.v : K) * m2 V r.c := by
      have : cart V cb.v = V3.smul (gcd3 cb.v : K) (cart V r.c) := by
        rw [← cart_smul, hcr, reduceGcd_smul]
      simp only [m2, this, V3.normSq, V3.dot, V3.smul]; ring
    rw [e1, e2] at h6
    have hgg : (0 : K) < (gcd3 cb.v : K) * (gcd3 cb.v : K) := mul_pos hg hg
    refine le_of_mul_le_mul_left ?_ hgg
    calc (gcd3 cb.v : K) * (gcd3 cb.v : K) * (dn V r.pn v * dn V r.pn v * m2 V r.c)
        = dn V r.pn v * dn V r.pn v * ((gcd3 cb.v : K) * (gcd3 cb.v : K) * m2 V r.c) := by ring
      _ ≤ (gcd3 cb.v : K) * dn V r.pn r.c * ((gcd3 cb.v : K) * dn V r.pn r.c) * m2 V v := h6
      _ = (gcd3 cb.v : K) * (gcd3 cb.v : K) * (dn V r.pn r.c * dn V r.pn r.c * m2 V v) := by ring

/-- `b` is a shortest candidate passing the second filter, and among those of its length the one with the
    smallest angle to `a` (largest `a·b`). -/
theorem basis_b_shortest (V : M3 K) (hkl : IV) (L : M3 Int) (nOpt : Option Int) (r : ABC K)
    (h : basisABC V hkl L nOpt = .ok r) :
    ∀ v ∈ genVectors r.n, bFilter V r.pn (cart V r.a) v →
      m2 V r.b ≤ m2 V v ∧
      (m2 V v = m2 V r.b → V3.dot (cart V r.a) (cart V v) ≤ V3.dot (cart V r.a) (cart V r.b)) := by
  obtain ⟨ini, cb, hi, hn, hpn, ha, hc, hcr, hb⟩ := basisABC_ok V hkl L nOpt r h
  obtain ⟨_, hmin, qb⟩ := search2_QB V r.pn (cart V r.a) r.n
  rcases qb with ⟨q1, _⟩ | ⟨b, q1, q2, q3, q4, q5, q6⟩
  · rw [hb] at q1; cases q1
  · rw [hb] at q1; cases q1
    intro v hv hf
    exact ⟨by rw [← q5]; exact hmin v hv hf, q6 v hv hf⟩

end fsb


/-! ## the relational model: whatever `Rel.validBasis` accepts has the properties as well
    (this is what the correspondence falls back to where a float tie decides the coded choice) -/
section relational
variable {K : Type} [CommRing K] [LinearOrder K] [IsStrictOrderedRing K]

/-- the facts the two searches establish about a triple. -/
structure Accepted (V : M3 K) (pn : V3 K) (n : ℤ) (a b c : IV) : Prop where
  a_ok : a ∈ genVectors n ∧ inPlane V pn a
  c_ok : ∃ c0 ∈ genVectors n, towardNormal V pn c0 ∧ c = reduceGcd c0
  b_ok : b ∈ genVectors n ∧ bFilter V pn (cart V a) b

/-- the normal is related to the plane indices as `normal_component` says. -/
def NormalOf (V : M3 K) (hkl : IV) (L : M3 Int) (pn : V3 K) : Prop :=
  ∃ num den : ℤ, 0 < num ∧ 0 < den ∧ ∀ u : IV,
    (den : K) * V3.dot (cart V u) pn = (num : K) * M3.det V * ((V3.dot hkl (M3.vecMul u (adj L)) : ℤ) : K)

theorem accepted_of_run (V : M3 K) (hdet : M3.det V ≠ 0) (hkl : IV) (L : M3 Int) (nOpt : Option Int) (r : ABC K)
    (h : basisABC V hkl L nOpt = .ok r) : Accepted V r.pn r.n r.a r.b r.c ∧ NormalOf V hkl L r.pn := by
  obtain ⟨h1, h2, h3⟩ := search_result_satisfies_filter V hdet hkl L nOpt r h
  exact ⟨⟨h1, h2, h3⟩, normal_component V hkl L nOpt r h⟩

/-- all clauses, for any accepted triple. -/
theorem accepted_properties (V : M3 K) (hdet : M3.det V ≠ 0) (hkl : IV) (L : M3 Int) (pn : V3 K) (n : ℤ)
    (a b c : IV) (hn : NormalOf V hkl L pn) (h : Accepted V pn n a b c) :
    V3.dot hkl (M3.vecMul a (adj L)) = 0 ∧ V3.dot hkl (M3.vecMul b (adj L)) = 0 ∧
    V3.dot hkl (M3.vecMul c (adj L)) ≠ 0 ∧ (0 < M3.det V → 0 < V3.dot hkl (M3.vecMul c (adj L))) ∧
    0 < ((M3.det (⟨a, b, c⟩ : M3 Int) : ℤ) : K) * M3.det V ∧ (0 < M3.det V → 0 < M3.det (⟨a, b, c⟩ : M3 Int)) ∧
    gcd3 c = 1 := by
  obtain ⟨⟨_, ha⟩, ⟨c0, hc0, ht, hcr⟩, ⟨_, hb, _, hw⟩⟩ := h
  obtain ⟨num, den, h1, h2, he⟩ := hn
  have hnum : (0 : K) < (num : K) := by exact_mod_cast h1
  have hden : (0 : K) < (den : K) := by exact_mod_cast h2
  have zone : ∀ u : IV, V3.dot (cart V u) pn = 0 → V3.dot hkl (M3.vecMul u (adj L)) = 0 := by
    intro u h0
    have := he u
    rw [h0, mul_zero] at this
    have h3 := (mul_eq_zero.mp this.symm).resolve_left (mul_ne_zero hnum.ne' hdet)
    exact_mod_cast h3
  have hne : c0 ≠ ⟨0, 0, 0⟩ := ((mem_genVectors _ _).mp hc0).2.2.2
  have hgK : (0 : K) < (gcd3 c0 : K) := by exact_mod_cast gcd3_pos c0 hne
  have e : dn V pn c0 = (gcd3 c0 : K) * dn V pn c := by rw [← dn_smul, hcr, reduceGcd_smul]
  have hpos : 0 < dn V pn c := by
    have ht' : 0 < dn V pn c0 := ht
    rw [e] at ht'
    exact (pos_iff_pos_of_mul_pos ht').mp hgK
  have hl : 0 < (num : K) * M3.det V * ((V3.dot hkl (M3.vecMul c (adj L)) : ℤ) : K) := by
    rw [← he c]; exact mul_pos hden hpos
  have hcne : V3.dot hkl (M3.vecMul c (adj L)) ≠ 0 := by
    intro h0; rw [h0, Int.cast_zero, mul_zero] at hl; exact lt_irrefl _ hl
  have hpnne : pn ≠ ⟨0, 0, 0⟩ := by
    intro h0
    rw [dn, h0] at hpos
    simp only [V3.dot, mul_zero, add_zero, lt_irrefl] at hpos
  have key := triple_via_normal (cart V a) (cart V b) (cart V c) pn ha hb
  have hp : 0 < V3.normSq pn * V3.dot (V3.cross (cart V a) (cart V b)) (cart V c) := by
    rw [key]; exact mul_pos hw hpos
  have hdetc : 0 < V3.dot (V3.cross (cart V a) (cart V b)) (cart V c) :=
    (pos_iff_pos_of_mul_pos hp).mp (normSq_pos pn hpnne)
  rw [det_cart] at hdetc
  refine ⟨zone a ha, zone b hb, hcne, ?_, hdetc, ?_, by rw [hcr]; exact reduceGcd_coprime c0 hne⟩
  · intro hd
    have : (0 : K) < ((V3.dot hkl (M3.vecMul c (adj L)) : ℤ) : K) := (pos_iff_pos_of_mul_pos hl).mp (mul_pos hnum hd)
    exact_mod_cast this
  · intro hd
    have : (0 : K) < ((M3.det (⟨a, b, c⟩ : M3 Int) : ℤ) : K) := (pos_iff_pos_of_mul_pos hdetc).mpr hd
    exact_mod_cast this

theorem inRange_iff (n : ℤ) (v : IV) : Rel.inRange n v = true ↔ v ∈ genVectors n := by
  obtain ⟨x, y, z⟩ := v
  rw [mem_genVectors]
  simp only [Rel.inRange, Bool.and_eq_true, decide_eq_true_eq, Bool.not_eq_true', Bool.and_eq_false_iff,
    beq_eq_false_iff_ne, ne_eq, beq_iff_eq]
  constructor
  · rintro ⟨⟨⟨h1, h2⟩, h3⟩, h4⟩
    refine ⟨by omega, by omega, by omega, ?_⟩
    intro h0
    simp only [V3.mk.injEq] at h0
    obtain ⟨rfl, rfl, rfl⟩ := h0
    simp at h4
  · rintro ⟨h1, h2, h3, h4⟩
    refine ⟨⟨⟨by omega, by omega⟩, by omega⟩, ?_⟩
    by_cases hx : x = 0
    · by_cases hy : y = 0
      · right
        intro hz
        exact h4 (by rw [hx, hy, hz])
      · left; right; exact hy
    · left; left; exact hx

theorem unorder_orderRows (cut : Cut) (a b c : IV) : Rel.unorder cut (orderRows cut a b c) = (a, b, c) := by
  cases cut <;> rfl

theorem orderRows_unorder (cut : Cut) (m : M3 Int) :
    orderRows cut (Rel.unorder cut m).1 (Rel.unorder cut m).2.1 (Rel.unorder cut m).2.2 = m := by
  cases cut <;> rfl

/-- **validBasis_sound**: a matrix accepted by the relational model consists of an accepted triple in
    the rows the cut vector prescribes, for the normal the routine computes. -/
theorem validBasis_sound (V : M3 K) (hkl : IV) (L : M3 Int) (cut : Cut) (nOpt : Option Int) (uvws : M3 Int)
    (tn td : ℤ) (h : Rel.validBasis V hkl L cut nOpt uvws tn td = "1") :
    ∃ ini, initVectors hkl = some ini ∧
      Accepted V (planeNormal V ini.s (M3.vecMul ini.a0 L) (M3.vecMul ini.b0 L)) (maxIndexOf ini hkl L nOpt)
        (Rel.unorder cut uvws).1 (Rel.unorder cut uvws).2.1 (Rel.unorder cut uvws).2.2 := by
  unfold Rel.validBasis at h
  split at h
  · exact absurd h (by decide)
  · rename_i ini hini
    refine ⟨ini, hini, ?_⟩
    simp only at h
    generalize hu : Rel.unorder cut uvws = t at h ⊢
    obtain ⟨a, b, c⟩ := t
    simp only at h
    split_ifs at h with h1 h2 h3 h4 h5 h6 h7 h8 h9
    all_goals first | exact absurd h (by decide) | skip
    simp only [Bool.not_eq_true', Bool.and_eq_false_iff, not_or, Bool.not_eq_false, decide_eq_false_iff_not,
      not_not, decide_eq_true_eq] at h1 h7
    simp only [Bool.not_eq_true', Bool.not_eq_false] at h5
    refine ⟨⟨(inRange_iff _ _).mp h1.1, h1.2⟩, ?_, ⟨(inRange_iff _ _).mp h7.1, h7.2⟩⟩
    rw [List.any_eq_true] at h5
    obtain ⟨c0, hc0, hc1⟩ := h5
    simp only [Bool.and_eq_true, decide_eq_true_eq] at hc1
    exact ⟨c0, hc0, hc1.1, hc1.2.symm⟩

/-- every clause of the property for a matrix the relational model accepts. -/
theorem validBasis_properties (V : M3 K) (hdet : M3.det V ≠ 0) (hkl : IV) (L : M3 Int) (cut : Cut)
    (nOpt : Option Int) (uvws : M3 Int) (tn td : ℤ) (h : Rel.validBasis V hkl L cut nOpt uvws tn td = "1") :
    V3.dot hkl (M3.vecMul (uvws.row ((cutIndex cut + 1) % 3)) (adj L)) = 0 ∧
    V3.dot hkl (M3.vecMul (uvws.row ((cutIndex cut + 2) % 3)) (adj L)) = 0 ∧
    V3.dot hkl (M3.vecMul (uvws.row (cutIndex cut)) (adj L)) ≠ 0 ∧
    (0 < M3.det V → 0 < V3.dot hkl (M3.vecMul (uvws.row (cutIndex cut)) (adj L)) ∧ 0 < M3.det uvws) := by
  obtain ⟨ini, hi, hacc⟩ := validBasis_sound V hkl L cut nOpt uvws tn td h
  have hne : hkl ≠ ⟨0, 0, 0⟩ := by
    rintro rfl; rw [initVectors_zero] at hi; cases hi
  obtain ⟨ini', hi', num, den, h1, h2, he⟩ := init_cross_parallel hkl hne
  rw [hi] at hi'; cases hi'
  have hn : NormalOf V hkl L (planeNormal V ini.s (M3.vecMul ini.a0 L) (M3.vecMul ini.b0 L)) :=
    ⟨num, den, h1, h2, fun u => dot_cart_planeNormal V L ini.a0 ini.b0 hkl u ini.s num den he⟩
  obtain ⟨p1, p2, p3, p4, _, p6, _⟩ := accepted_properties V hdet hkl L _ _ _ _ _ hn hacc
  have hrows := orderRows_rows cut (Rel.unorder cut uvws).1 (Rel.unorder cut uvws).2.1 (Rel.unorder cut uvws).2.2
  rw [orderRows_unorder] at hrows
  obtain ⟨r1, r2, r3⟩ := hrows
  rw [r1, r2, r3]
  refine ⟨p1, p2, p3, fun hd => ⟨p4 hd, ?_⟩⟩
  have := p6 hd
  rw [← det_orderRows cut, orderRows_unorder] at this
  exact this

end relational


/-! ## the headline statement -/
section headline
variable {K : Type} [CommRing K] [LinearOrder K] [IsStrictOrderedRing K]

/-- rows `b×c, c×a, a×b` of a cell (`= det · reciprocal vectors`). -/
def cofRows (M : M3 K) : M3 K := ⟨V3.cross M.r1 M.r2, V3.cross M.r2 M.r0, V3.cross M.r0 M.r1⟩

theorem cross_vecMul (M : M3 K) (p q : V3 K) :
    V3.cross (M3.vecMul p M) (M3.vecMul q M) = M3.vecMul (V3.cross p q) (cofRows M) := by
  simp only [V3.cross, M3.vecMul, cofRows, V3.mk.injEq]
  refine ⟨by ring, by ring, by ring⟩

/-- division-free form of the normal clause: `den·n = num·(h (b×c) + k (c×a) + l (a×b))` for the vectors
    `a, b, c` of the conventional cell `L·V`, `num, den > 0`; over a field the right-hand side is
    `num·det(L·V)·(h a* + k b* + l c*)` (`normal_is_reciprocal`). -/
theorem normal_cofactor (V : M3 K) (hkl : IV) (L : M3 Int) (nOpt : Option Int) (r : ABC K)
    (h : basisABC V hkl L nOpt = .ok r) :
    ∃ num den : ℤ, 0 < num ∧ 0 < den ∧
      V3.smul (den : K) r.pn = V3.smul (num : K) (M3.vecMul (toK hkl) (cofRows (M3.mul (castM L) V))) := by
  obtain ⟨ini, cb, hi, hn, hpn, _⟩ := basisABC_ok V hkl L nOpt r h
  have hne : hkl ≠ ⟨0, 0, 0⟩ := by
    rintro rfl; rw [initVectors_zero] at hi; cases hi
  obtain ⟨ini', hi', num, den, h1, h2, he⟩ := init_cross_parallel hkl hne
  rw [hi] at hi'; cases hi'
  refine ⟨num, den, h1, h2, ?_⟩
  rw [hpn]
  simp only [planeNormal, cart_vecMul]
  unfold cart
  rw [cross_vecMul, ← toK_cross]
  have he' : toK (K := K) (V3.smul den (V3.smul ini.s (V3.cross ini.a0 ini.b0))) = toK (V3.smul num hkl) := by rw [he]
  generalize V3.cross ini.a0 ini.b0 = w at he' ⊢
  generalize cofRows (M3.mul (castM L) V) = C at *
  simp only [toK, V3.smul, V3.mk.injEq] at he'
  obtain ⟨e1, e2, e3⟩ := he'
  push_cast at e1 e2 e3
  simp only [toK, V3.smul, M3.vecMul, V3.mk.injEq]
  refine ⟨?_, ?_, ?_⟩
  · linear_combination C.r0.x * e1 + C.r1.x * e2 + C.r2.x * e3
  · linear_combination C.r0.y * e1 + C.r1.y * e2 + C.r2.y * e3
  · linear_combination C.r0.z * e1 + C.r1.z * e2 + C.r2.z * e3

/-- **free_surface_basis_correct**: for a right-handed cell, every successful call — any plane, any
    centring matrix, any `maxindex`, each of the three cut vectors — returns a right-handed integer matrix
    whose row at `cutindex` is a primitive vector out of the plane on the side of the normal and whose other two
    rows satisfy the zone law (indices `row · adj L = det L ·` conventional indices), together with a normal
    that is a positive multiple of `h (b×c) + k (c×a) + l (a×b)` of the conventional cell. -/
theorem free_surface_basis_correct (V : M3 K) (hdet : 0 < M3.det V) (hkl : IV) (L : M3 Int) (cut : Cut)
    (nOpt : Option Int) (uvws : M3 Int) (pn : V3 K) (h : freeSurfaceBasis V hkl L cut nOpt = .ok (uvws, pn)) :
    0 < M3.det uvws ∧
    V3.dot hkl (M3.vecMul (uvws.row ((cutIndex cut + 1) % 3)) (adj L)) = 0 ∧
    V3.dot hkl (M3.vecMul (uvws.row ((cutIndex cut + 2) % 3)) (adj L)) = 0 ∧
    0 < V3.dot hkl (M3.vecMul (uvws.row (cutIndex cut)) (adj L)) ∧
    gcd3 (uvws.row (cutIndex cut)) = 1 ∧
    ∃ num den : ℤ, 0 < num ∧ 0 < den ∧
      V3.smul (den : K) pn = V3.smul (num : K) (M3.vecMul (toK hkl) (cofRows (M3.mul (castM L) V))) := by
  obtain ⟨r, hr, rfl, rfl⟩ := ((freeSurfaceBasis_eq V hkl L cut nOpt).1 uvws pn).mp h
  obtain ⟨hacc, hn⟩ := accepted_of_run V hdet.ne' hkl L nOpt r hr
  obtain ⟨p1, p2, _, p4, _, p6, p7⟩ := accepted_properties V hdet.ne' hkl L _ _ _ _ _ hn hacc
  obtain ⟨r1, r2, r3⟩ := orderRows_rows cut r.a r.b r.c
  rw [r1, r2, r3, det_orderRows]
  exact ⟨p6 hdet, p1, p2, p4 hdet, p7, normal_cofactor V hkl L nOpt r hr⟩

end headline

/-! ### the same statement about the definitions REGENERATED from the source, and about the public entry point -/
section entry
variable {K : Type} [CommRing K] [LinearOrder K] [IsStrictOrderedRing K]

/-- the clauses of `free_surface_basis_correct` as one predicate. -/
def FsbClauses (V : M3 K) (hkl : IV) (L : M3 Int) (cut : Cut) (uvws : M3 Int) (pn : V3 K) : Prop :=
  0 < M3.det uvws ∧
  V3.dot hkl (M3.vecMul (uvws.row ((cutIndex cut + 1) % 3)) (adj L)) = 0 ∧
  V3.dot hkl (M3.vecMul (uvws.row ((cutIndex cut + 2) % 3)) (adj L)) = 0 ∧
  0 < V3.dot hkl (M3.vecMul (uvws.row (cutIndex cut)) (adj L)) ∧
  gcd3 (uvws.row (cutIndex cut)) = 1 ∧
  ∃ num den : ℤ, 0 < num ∧ 0 < den ∧
    V3.smul (den : K) pn = V3.smul (num : K) (M3.vecMul (toK hkl) (cofRows (M3.mul (castM L) V)))

/-- **the headline for the generated code**: whatever `Gen.C14.basisABC` — the stages regenerated from the current
    source of `free_surface_basis` — returns, put in the row order the generated `cutboxvector` chain selects, is a
    right-handed integer basis with two rows in the plane, the third a primitive vector on the normal's side, and the
    normal a positive multiple of the reciprocal-lattice vector; the chain selects an order exactly for `'a'`, `'b'`, `'c'`. -/
theorem gen_free_surface_basis_correct (V : M3 K) (hdet : 0 < M3.det V) (hkl : IV) (L : M3 Int) (s : String)
    (nOpt : Option Int) (r : ABC K) (uvws : M3 Int)
    (h : Gen.C14.basisABC V hkl L nOpt = .ok r) (ho : Gen.C14.orderRows? s r.a r.b r.c = some uvws) :
    ∃ cut, Cut.ofString? s = some cut ∧ FsbClauses V hkl L cut uvws r.pn := by
  rw [gen_basisABC_eq_model] at h
  rw [gen_orderRows_eq_model] at ho
  cases hc : Cut.ofString? s with
  | none => rw [hc] at ho; cases ho
  | some cut =>
    rw [hc] at ho
    have ho' : orderRows cut r.a r.b r.c = uvws := by simpa using ho
    subst ho'
    refine ⟨cut, rfl, free_surface_basis_correct V hdet hkl L cut nOpt _ _ ?_⟩
    unfold freeSurfaceBasis
    rw [h]

/-- what `planeOf` accepts: three indices as they are, or four indices with `h + k + i = 0` (then `(h, k, l)`). -/
theorem planeOf_spec (idx : List ℤ) (conv : Bool) (hkl : IV) :
    planeOf idx conv = .ok hkl ↔
      (conv = false ∧ idx = [hkl.x, hkl.y, hkl.z]) ∨
      (conv = true ∧ ∃ i, idx = [hkl.x, hkl.y, i, hkl.z] ∧ hkl.x + hkl.y + i = 0) := by
  obtain ⟨x, y, z⟩ := hkl
  unfold planeOf plane4to3
  constructor
  · intro h
    split at h
    · split at h
      · rename_i v hv
        split at hv
        · simp only [Option.some.injEq] at hv; subst hv
          simp only [Except.ok.injEq, V3.mk.injEq] at h
          obtain ⟨rfl, rfl, rfl⟩ := h
          exact Or.inr ⟨rfl, _, rfl, by assumption⟩
        · cases hv
      · cases h
    · simp only [Except.ok.injEq, V3.mk.injEq] at h
      obtain ⟨rfl, rfl, rfl⟩ := h
      exact Or.inl ⟨rfl, rfl⟩
    · cases h
  · rintro (⟨rfl, rfl⟩ | ⟨rfl, i, rfl, hi⟩)
    · rfl
    · simp only [hi, if_true]

/-- **end to end**: every call of the public entry point that returns — three or four plane indices, any
    `return_hexagonal`, any centring key, each cut vector, any `maxindex` — returns rows with all clauses of the
    headline for the plane `planeOf` extracted (for four indices: `h + k + i = 0` and the plane is `(h, k, l)`) and the
    centring matrix of the key; the output form is the one `hklForm` resolved. -/
theorem fsbEntry_correct (V : M3 K) (hdet : 0 < M3.det V) (idx : List ℤ) (hex : Bool) (rh : Option Bool)
    (setting : String) (cut : Cut) (nOpt : Option Int) (uv : M3 Int) (rhOut : Bool) (pn : V3 K)
    (h : fsbEntry V idx hex rh setting cut nOpt = .ok (uv, rhOut, pn)) :
    ∃ hkl L conv, hklForm idx.length hex rh = .ok (rhOut, conv) ∧ planeOf idx conv = .ok hkl ∧
      c2p setting = some L ∧ FsbClauses V hkl L cut uv pn := by
  unfold fsbEntry at h
  cases hf : hklForm idx.length hex rh with
  | error e => rw [hf] at h; cases h
  | ok p =>
    obtain ⟨rh', conv⟩ := p
    rw [hf] at h
    simp only at h
    cases hp : planeOf idx conv with
    | error e => rw [hp] at h; cases h
    | ok hkl =>
      rw [hp] at h
      simp only at h
      cases hL : c2p setting with
      | none => rw [hL] at h; cases h
      | some L =>
        rw [hL] at h
        simp only at h
        cases hb : freeSurfaceBasis V hkl L cut nOpt with
        | error e => rw [hb] at h; cases h
        | ok q =>
          obtain ⟨uv', pn'⟩ := q
          rw [hb] at h
          simp only [Except.ok.injEq, Prod.mk.injEq] at h
          obtain ⟨rfl, rfl, rfl⟩ := h
          exact ⟨hkl, L, conv, rfl, hp, rfl, free_surface_basis_correct V hdet hkl L cut nOpt _ _ hb⟩

/-- **refusals of the entry point**: a ValueError is raised exactly when the form of the plane is refused
    (`hklForm_refuses_iff`), four indices do not sum to zero in the first three, the centring key is unknown, or the plane is
    all zeros; nothing else raises a ValueError. -/
theorem fsbEntry_value_error_iff (V : M3 K) (idx : List ℤ) (hex : Bool) (rh : Option Bool)
    (setting : String) (cut : Cut) (nOpt : Option Int) :
    fsbEntry V idx hex rh setting cut nOpt = .error "value" ↔
      hklForm idx.length hex rh = .error "value" ∨
      ∃ rh' conv, hklForm idx.length hex rh = .ok (rh', conv) ∧
        (planeOf idx conv = .error "value" ∨
          ∃ hkl, planeOf idx conv = .ok hkl ∧ (c2p setting = none ∨ hkl = ⟨0, 0, 0⟩)) := by
  have key : ∀ (hkl : IV) (L : M3 Int), freeSurfaceBasis V hkl L cut nOpt = .error "value" ↔ hkl = ⟨0, 0, 0⟩ := by
    intro hkl L
    rw [← basis_value_error_iff V hkl L nOpt]
    unfold freeSurfaceBasis
    cases basisABC V hkl L nOpt with
    | error e => simp
    | ok r => simp
  unfold fsbEntry
  cases hf : hklForm idx.length hex rh with
  | error e =>
    simp only [Except.error.injEq, reduceCtorEq, false_and, exists_false, or_false]
  | ok p =>
    obtain ⟨rh', conv⟩ := p
    simp only [reduceCtorEq, false_or]
    constructor
    · intro he
      refine ⟨rh', conv, rfl, ?_⟩
      cases hp : planeOf idx conv with
      | error e => rw [hp] at he; left; simpa using he
      | ok hkl =>
        rw [hp] at he
        right
        refine ⟨hkl, rfl, ?_⟩
        cases hL : c2p setting with
        | none => left; rfl
        | some L =>
          rw [hL] at he
          simp only at he
          right
          apply (key hkl L).mp
          cases hb : freeSurfaceBasis V hkl L cut nOpt with
          | error e => rw [hb] at he; simpa using he
          | ok q => rw [hb] at he; cases he
    · rintro ⟨a, b, hab, hrest⟩
      simp only [Except.ok.injEq, Prod.mk.injEq] at hab
      obtain ⟨rfl, rfl⟩ := hab
      rcases hrest with hpe | ⟨hkl, hp, hz⟩
      · rw [hpe]
      · rw [hp]
        rcases hz with hn | rfl
        · simp only [hn]
        · cases hL : c2p setting with
          | none => rfl
          | some L => simp only; rw [(key _ L).mpr rfl]

end entry

/-! ### the vectors in conventional indices (`FreeSurface.uvws`) -/

/-- `FreeSurface.uvws` (the vectors re-expressed in the conventional cell, `vector_primitive_to_conventional`):
    the zone-law expression in those — possibly fractional — indices is the integer one divided by `det L`. -/
theorem zone_conventional (hkl : IV) (L : M3 Int) (hL : M3.det L ≠ 0) (u : IV) :
    (hkl.x : ℚ) * (p2cRat L u).x + (hkl.y : ℚ) * (p2cRat L u).y + (hkl.z : ℚ) * (p2cRat L u).z
      = ((V3.dot hkl (M3.vecMul u (adj L)) : ℤ) : ℚ) / ((M3.det L : ℤ) : ℚ) ∧
    ((hkl.x : ℚ) * (p2cRat L u).x + (hkl.y : ℚ) * (p2cRat L u).y + (hkl.z : ℚ) * (p2cRat L u).z = 0
      ↔ V3.dot hkl (M3.vecMul u (adj L)) = 0) := by
  have hd : ((M3.det L : ℤ) : ℚ) ≠ 0 := by exact_mod_cast hL
  have e : (hkl.x : ℚ) * (p2cRat L u).x + (hkl.y : ℚ) * (p2cRat L u).y + (hkl.z : ℚ) * (p2cRat L u).z
      = ((V3.dot hkl (M3.vecMul u (adj L)) : ℤ) : ℚ) / ((M3.det L : ℤ) : ℚ) := by
    simp only [p2cRat, V3.dot]
    push_cast
    field_simp
  refine ⟨e, ?_⟩
  rw [e, div_eq_zero_iff]
  constructor
  · rintro (h | h)
    · exact_mod_cast h
    · exact absurd h hd
  · intro h; left; exact_mod_cast h

/-- the conventional indices times the centring matrix give back the primitive ones: `p2c(u)·L = u`. -/
theorem p2c_c2p (L : M3 Int) (hL : M3.det L ≠ 0) (u : IV) :
    M3.vecMul (p2cRat L u) (⟨⟨L.r0.x, L.r0.y, L.r0.z⟩, ⟨L.r1.x, L.r1.y, L.r1.z⟩, ⟨L.r2.x, L.r2.y, L.r2.z⟩⟩ : M3 ℚ)
      = ⟨(u.x : ℚ), (u.y : ℚ), (u.z : ℚ)⟩ := by
  have hd : ((M3.det L : ℤ) : ℚ) ≠ 0 := by exact_mod_cast hL
  obtain ⟨⟨a, b, c⟩, ⟨d, e, f⟩, ⟨g, h, i⟩⟩ := L
  simp only [p2cRat, M3.vecMul, adj, M3.transpose, V3.cross, M3.det, V3.dot, V3.mk.injEq] at hd ⊢
  push_cast at hd ⊢
  generalize hD : (a : ℚ) * ((e : ℚ) * i - f * h) + b * (f * g - d * i) + c * (d * h - e * g) = D at hd ⊢
  refine ⟨?_, ?_, ?_⟩ <;> field_simp <;> rw [← hD] <;> ring


/-! ### Miller-Bravais input / output -/

/-- `plane4to3` accepts exactly `h + k + i = 0` and drops `i`. -/
theorem plane4to3_spec (h k i l : ℤ) :
    (h + k + i = 0 → plane4to3 h k i l = some ⟨h, k, l⟩) ∧ (h + k + i ≠ 0 → plane4to3 h k i l = none) := by
  unfold plane4to3
  constructor <;> intro h0 <;> simp [h0]

/-- the four-index output `[u v t w]` of a three-index vector has `u + v + t = 0` and converts back
    (`vector4to3`: `[2u+v, 2v+u, w]`) to the three-index vector it came from. -/
theorem vector3to4_spec (v : IV) :
    ∃ U W T Z : ℚ, vector3to4 v = [U, W, T, Z] ∧ U + W + T = 0 ∧
      2 * U + W = v.x ∧ 2 * W + U = v.y ∧ Z = v.z := by
  refine ⟨_, _, _, _, rfl, ?_, ?_, ?_, rfl⟩
  · ring
  · push_cast; ring
  · push_cast; ring


/-! ## the documented refusal of `FreeSurface.__init__` -/
section compat
variable {K : Type} [Field K] [LinearOrder K] [IsStrictOrderedRing K]

/-- **documented refusal**: `FreeSurface.__init__` refuses a cut vector when the rotated cell, brought to the
    LAMMPS-normal form by `normalize` (C05's `abcBox?`: lengths and cosines of the rows `A, B, C`), has a
    component that the cut vector forbids (`b_x, c_x` for `'a'`; `c_y` for `'b'`, `a_y` being 0 by
    construction; nothing for `'c'`).  The model's test on dot products is that test. -/
theorem cutCompatible_iff_normalized (sqrt : K → K) (v : M3 K) (hs : C05.SqrtOK sqrt v) :
    ∃ b2 : Box K, C05.abcBox? sqrt v = some b2 ∧
      (cutCompatible .a v.r0 v.r1 v.r2 = true ↔ b2.vects.r1.x = 0 ∧ b2.vects.r2.x = 0) ∧
      (cutCompatible .b v.r0 v.r1 v.r2 = true ↔ b2.vects.r0.y = 0 ∧ b2.vects.r2.y = 0) ∧
      (cutCompatible .c v.r0 v.r1 v.r2 = true ∧ b2.vects.r0.z = 0 ∧ b2.vects.r1.z = 0) := by
  obtain ⟨⟨hA2, hA⟩, ⟨hB2, hB⟩, ⟨hC2, hC⟩, ⟨hLY2, hLY⟩, ⟨hLZ2, hLZ⟩⟩ := hs
  have hA' : 0 < C05.lenA sqrt v := hA
  have hB' : 0 < C05.lenB sqrt v := hB
  have hC' : 0 < C05.lenC sqrt v := hC
  have hLY' : 0 < C05.lenLy sqrt v := hLY
  have hLZ' : 0 < C05.lenLz sqrt v := hLZ
  have eA : C05.lenA sqrt v * C05.lenA sqrt v = V3.dot v.r0 v.r0 := hA2
  have exy : C05.lenA sqrt v * C05.tiltXY sqrt v = V3.dot v.r0 v.r1 := by
    simp only [C05.tiltXY, C05.cosGamma]; field_simp
  have exz : C05.lenA sqrt v * C05.tiltXZ sqrt v = V3.dot v.r0 v.r2 := by
    simp only [C05.tiltXZ, C05.cosBeta]; field_simp
  have eyz : C05.lenLy sqrt v * C05.tiltYZ sqrt v = V3.dot v.r1 v.r2 - C05.tiltXY sqrt v * C05.tiltXZ sqrt v := by
    simp only [C05.tiltYZ, C05.cosAlpha]; field_simp
  refine ⟨⟨⟨⟨C05.lenA sqrt v, 0, 0⟩, ⟨C05.tiltXY sqrt v, C05.lenLy sqrt v, 0⟩,
    ⟨C05.tiltXZ sqrt v, C05.tiltYZ sqrt v, C05.lenLz sqrt v⟩⟩, ⟨0, 0, 0⟩⟩, ?_, ?_, ?_, ?_⟩
  · simp only [C05.abcBox?, Box.ofLengths?, hA', hLY', hLZ', and_self, if_true]
  · simp only [cutCompatible, Bool.and_eq_true, decide_eq_true_eq]
    constructor
    · rintro ⟨h1, h2⟩
      rw [h1] at exy; rw [h2] at exz
      exact ⟨(mul_eq_zero.mp exy).resolve_left hA'.ne', (mul_eq_zero.mp exz).resolve_left hA'.ne'⟩
    · rintro ⟨h1, h2⟩
      rw [h1, mul_zero] at exy; rw [h2, mul_zero] at exz
      exact ⟨exy.symm, exz.symm⟩
  · simp only [cutCompatible, decide_eq_true_eq, true_and]
    -- `ly·yz·|A|² = (B·C)(A·A) - (A·B)(A·C)`
    have key : C05.lenLy sqrt v * C05.tiltYZ sqrt v * V3.dot v.r0 v.r0
        = V3.dot v.r1 v.r2 * V3.dot v.r0 v.r0 - V3.dot v.r0 v.r1 * V3.dot v.r0 v.r2 := by
      rw [eyz, ← exy, ← exz, ← eA]; ring
    have hAA : 0 < V3.dot v.r0 v.r0 := by rw [← eA]; exact mul_pos hA' hA'
    constructor
    · intro h
      have : C05.lenLy sqrt v * C05.tiltYZ sqrt v * V3.dot v.r0 v.r0 = 0 := by rw [key, h]; ring
      have h2 := (mul_eq_zero.mp this).resolve_right hAA.ne'
      exact (mul_eq_zero.mp h2).resolve_left hLY'.ne'
    · intro h
      rw [h, mul_zero, zero_mul] at key
      linarith
  · exact ⟨rfl, rfl, rfl⟩

end compat

/-! ## `FreeSurface`: termination shifts -/
section shifts
variable {K : Type} [Field K] [LinearOrder K] [IsStrictOrderedRing K]

theorem absLe_iff (x t : K) : absLe x t = true ↔ -t ≤ x ∧ x ≤ t := by
  simp only [absLe, Bool.and_eq_true, Bool.not_eq_true', decide_eq_false_iff_not, not_lt]
  tauto

theorem insertAsc_perm (x : K) (l : List K) : (insertAsc x l).Perm (x :: l) := by
  induction l with
  | nil => exact List.Perm.refl _
  | cons y t ih =>
    simp only [insertAsc]
    split_ifs
    · exact List.Perm.refl _
    · exact (List.Perm.cons y ih).trans (List.Perm.swap x y t)

theorem sortAsc_perm (l : List K) : (sortAsc l).Perm l := by
  induction l with
  | nil => exact List.Perm.refl _
  | cons x t ih =>
    simp only [sortAsc, List.foldr_cons]
    exact (insertAsc_perm x _).trans (List.Perm.cons x ih)

theorem insertAsc_sorted (x : K) (l : List K) (h : l.Pairwise (· ≤ ·)) : (insertAsc x l).Pairwise (· ≤ ·) := by
  induction l with
  | nil => simp [insertAsc]
  | cons y t ih =>
    simp only [insertAsc]
    rw [List.pairwise_cons] at h
    split_ifs with hxy
    · refine List.pairwise_cons.mpr ⟨?_, List.pairwise_cons.mpr h⟩
      intro z hz
      rcases List.mem_cons.mp hz with rfl | hz
      · exact hxy.le
      · exact le_trans hxy.le (h.1 z hz)
    · refine List.pairwise_cons.mpr ⟨?_, ih h.2⟩
      intro z hz
      rcases List.mem_cons.mp ((insertAsc_perm x t).subset hz) with rfl | hz
      · exact not_lt.mp hxy
      · exact h.1 z hz

/-- the offered shifts are listed in ascending order … -/
theorem shifts_sorted (coords : List K) (W tol : K) : (shifts coords W tol).Pairwise (· ≤ ·) := by
  unfold shifts sortAsc
  induction rawShifts coords W tol with
  | nil => simp
  | cons x t ih => simp only [List.foldr_cons]; exact insertAsc_sorted x _ ih

/-- … and are a rearrangement of one shift per pair of neighbouring layers. -/
theorem shifts_perm (coords : List K) (W tol : K) : (shifts coords W tol).Perm (rawShifts coords W tol) :=
  sortAsc_perm _

/-- neighbours in a strictly ascending list: nothing lies strictly between them. -/
theorem consec_spec (l : List K) (h : l.Pairwise (· < ·)) (p q : K) (hpq : (p, q) ∈ consec l) :
    p < q ∧ p ∈ l ∧ q ∈ l ∧ ∀ x ∈ l, x ≤ p ∨ q ≤ x := by
  induction l with
  | nil => simp [consec] at hpq
  | cons a t ih =>
    cases t with
    | nil => simp [consec] at hpq
    | cons b u =>
      simp only [consec, List.tail_cons, List.zip_cons_cons, List.mem_cons, Prod.mk.injEq] at hpq
      rw [List.pairwise_cons] at h
      rcases hpq with ⟨rfl, rfl⟩ | hpq
      · refine ⟨h.1 q (by simp), by simp, by simp, ?_⟩
        intro x hx
        rcases List.mem_cons.mp hx with rfl | hx
        · exact Or.inl (le_refl _)
        · rcases List.mem_cons.mp hx with rfl | hx'
          · exact Or.inr (le_refl _)
          · exact Or.inr ((List.pairwise_cons.mp h.2).1 x hx').le
      · obtain ⟨h1, h2, h3, h4⟩ := ih h.2 hpq
        refine ⟨h1, List.mem_cons_of_mem _ h2, List.mem_cons_of_mem _ h3, ?_⟩
        intro x hx
        rcases List.mem_cons.mp hx with rfl | hx
        · rcases List.mem_cons.mp h2 with rfl | h2'
          · exact Or.inl (h.1 _ (by simp)).le
          · exact Or.inl (h.1 _ (List.mem_cons_of_mem _ h2')).le
        · exact h4 x hx

/-- `relshift` is `-mid` modulo the cell width. -/
theorem relShift_mod (W m : K) : ∃ j : ℤ, relShift W m = (j : K) * W - m := by
  unfold relShift
  simp only
  split_ifs
  · exact ⟨0, by push_cast; ring⟩
  · exact ⟨2, by push_cast; ring⟩
  · exact ⟨1, by push_cast; ring⟩


/-- the layer list with its periodic replica is strictly ascending, starts at the first layer, contains
    every layer, and stays inside one period `[f, f + W]`. -/
theorem withReplica_spec (coords : List K) (W tol f l : K) (hs : coords.Pairwise (· < ·))
    (hf : coords.head? = some f) (hl : coords.getLast? = some l) (hW : l ≤ f + W) (htol : 0 ≤ tol) :
    (withReplica coords W tol).Pairwise (· < ·) ∧ (∀ x ∈ coords, x ∈ withReplica coords W tol) ∧
    (∀ x ∈ withReplica coords W tol, f ≤ x ∧ x ≤ f + W) ∧ (∀ x ∈ coords, f ≤ x ∧ x ≤ l) := by
  have hfl : ∀ x ∈ coords, f ≤ x ∧ x ≤ l := by
    intro x hx
    constructor
    · cases coords with
      | nil => cases hx
      | cons a t =>
        simp only [List.head?_cons, Option.some.injEq] at hf
        subst hf
        rcases List.mem_cons.mp hx with rfl | hx
        · exact le_refl _
        · exact ((List.pairwise_cons.mp hs).1 x hx).le
    · obtain ⟨ini, rfl⟩ := List.getLast?_eq_some_iff.mp hl
      rcases List.mem_append.mp hx with hx | hx
      · exact ((List.pairwise_append.mp hs).2.2 x hx l (by simp)).le
      · simp only [List.mem_singleton] at hx; subst hx; exact le_refl _
  unfold withReplica
  simp only [hf, hl]
  split_ifs with hc
  · refine ⟨hs, fun x hx => hx, ?_, hfl⟩
    intro x hx
    exact ⟨(hfl x hx).1, le_trans (hfl x hx).2 hW⟩
  · have hlt : l < f + W := by
      rw [absLe_iff] at hc
      by_contra hn
      have : l = f + W := le_antisymm hW (not_lt.mp hn)
      apply hc
      rw [this]
      constructor <;> simp [htol]
    refine ⟨?_, fun x hx => List.mem_append_left _ hx, ?_, hfl⟩
    · rw [List.pairwise_append]
      refine ⟨hs, by simp, ?_⟩
      intro x hx y hy
      simp only [List.mem_singleton] at hy; subst hy
      exact lt_of_le_of_lt (hfl x hx).2 hlt
    · intro x hx
      rcases List.mem_append.mp hx with hx | hx
      · exact ⟨(hfl x hx).1, le_trans (hfl x hx).2 hW⟩
      · simp only [List.mem_singleton] at hx; subst hx
        have : f ≤ l := (hfl f (by cases coords with
          | nil => cases hf
          | cons a t => simp only [List.head?_cons, Option.some.injEq] at hf; subst hf; simp)).2
        exact ⟨by linarith, le_refl _⟩

/-- **shift_between_planes**: every offered termination shift `s` is (modulo the cell width `W`) minus
    the midpoint of two neighbouring atomic layers `p < q` (the last layer's neighbour being the periodic
    replica of the first), so that after the shift every periodic image of every layer is at least half
    that interlayer gap away from the cell boundary where the surface is cut; in particular no atomic
    layer lies on the cut.  Hypotheses: the layer coordinates are strictly ascending and span at most one
    period. -/
theorem shift_between_planes (coords : List K) (W tol f l : K) (hs : coords.Pairwise (· < ·))
    (hf : coords.head? = some f) (hl : coords.getLast? = some l) (hW : l ≤ f + W) (hW0 : 0 < W)
    (htol : 0 ≤ tol) :
    ∀ s ∈ shifts coords W tol, ∃ p q : K, (p, q) ∈ consec (withReplica coords W tol) ∧ p < q ∧
      (∃ j : ℤ, s = (j : K) * W - (p + q) / 2) ∧
      (∀ x ∈ coords, ∀ m : ℤ, x + s + (m : K) * W ≤ -((q - p) / 2) ∨ (q - p) / 2 ≤ x + s + (m : K) * W) ∧
      (∀ x ∈ coords, ∀ m : ℤ, x + s + (m : K) * W ≠ 0) := by
  intro s hsm
  have hsm' := (shifts_perm coords W tol).subset hsm
  unfold rawShifts at hsm'
  simp only [List.mem_map] at hsm'
  obtain ⟨⟨p, q⟩, hpq, rfl⟩ := hsm'
  obtain ⟨h1, h2, h3, h4⟩ := withReplica_spec coords W tol f l hs hf hl hW htol
  obtain ⟨c1, c2, c3, c4⟩ := consec_spec _ h1 p q hpq
  have hmid : mid (p, q) = (p + q) / 2 := by simp only [mid]; push_cast; rfl
  obtain ⟨j, hj0⟩ := relShift_mod W (mid (p, q))
  have hj : relShift W (mid (p, q)) = (j : K) * W - (p + q) / 2 := by rw [hj0, hmid]
  have himg : ∀ x ∈ coords, ∀ m : ℤ, x + (m : K) * W ≤ p ∨ q ≤ x + (m : K) * W := by
    intro x hx m
    rcases lt_trichotomy m 0 with hm | rfl | hm
    · left
      have : (m : K) ≤ -1 := by exact_mod_cast (by omega : m ≤ -1)
      have h5 := (h4 x hx).2
      have h6 := (h3 p c2).1
      nlinarith
    · simp only [Int.cast_zero, zero_mul, add_zero]
      exact c4 x (h2 x hx)
    · right
      have : (1 : K) ≤ (m : K) := by exact_mod_cast (by omega : 1 ≤ m)
      have h5 := (h4 x hx).1
      have h6 := (h3 q c3).2
      nlinarith
  have hdist : ∀ x ∈ coords, ∀ m : ℤ, x + relShift W (mid (p, q)) + (m : K) * W ≤ -((q - p) / 2) ∨
      (q - p) / 2 ≤ x + relShift W (mid (p, q)) + (m : K) * W := by
    intro x hx m
    rw [hj]
    have e : x + ((j : K) * W - (p + q) / 2) + (m : K) * W = (x + ((m + j : ℤ) : K) * W) - (p + q) / 2 := by
      push_cast; ring
    rw [e]
    rcases himg x hx (m + j) with h | h
    · left; linarith
    · right; linarith
  refine ⟨p, q, hpq, c1, ⟨j, hj⟩, hdist, ?_⟩
  intro x hx m h0
  have hgap : 0 < (q - p) / 2 := by linarith
  rcases hdist x hx m with h | h
  · rw [h0] at h; linarith
  · rw [h0] at h; linarith

/-- atoms inside the cell (`0 ≤ x`, `x ≤ W`): every offered shift lies in `[0, W]`. -/
theorem shifts_in_cell (coords : List K) (W tol f l : K) (hs : coords.Pairwise (· < ·))
    (hf : coords.head? = some f) (hl : coords.getLast? = some l) (hW : l ≤ f + W) (hW0 : 0 < W)
    (htol : 0 ≤ tol) (h0 : 0 ≤ f) (h1 : l ≤ W) :
    ∀ s ∈ shifts coords W tol, 0 ≤ s ∧ s ≤ W := by
  intro s hsm
  have hsm' := (shifts_perm coords W tol).subset hsm
  unfold rawShifts at hsm'
  simp only [List.mem_map] at hsm'
  obtain ⟨⟨p, q⟩, hpq, rfl⟩ := hsm'
  obtain ⟨g1, g2, g3, g4⟩ := withReplica_spec coords W tol f l hs hf hl hW htol
  obtain ⟨c1, c2, c3, c4⟩ := consec_spec _ g1 p q hpq
  have hp := g3 p c2
  have hq := g3 q c3
  have hfl : f ≤ l := by
    cases coords with
    | nil => cases hf
    | cons a t => simp only [List.head?_cons, Option.some.injEq] at hf; subst hf; exact (g4 a (by simp)).2
  have hmid : mid (p, q) = (p + q) / 2 := by simp only [mid]; push_cast; rfl
  unfold relShift
  simp only [hmid]
  split_ifs with a1 a2
  · constructor <;> linarith
  · constructor <;> linarith
  · constructor <;> linarith

/-- one shift per pair of neighbouring layers. -/
theorem shifts_length (coords : List K) (W tol : K) :
    (shifts coords W tol).length = (withReplica coords W tol).length - 1 := by
  rw [(shifts_perm coords W tol).length_eq]
  simp [rawShifts, consec, List.length_zip, List.length_tail]

end shifts

section fault
variable {K : Type} [Field K] [LinearOrder K] [IsStrictOrderedRing K]

/-! ## `System.wrap` on one atom (shared with C05) -/

theorem wrapPos_eq_C05 (box : Box K) (pbc : V3 Bool) (fl : K → Int) (p : V3 K) :
    wrapPos box pbc fl p = C05.atomPos fl box pbc p ∧ imageFlags box pbc fl p = C05.atomFlags fl box pbc p :=
  ⟨rfl, rfl⟩

/-- **wrap_reconstruct** for one atom: `wrap` moves an atom by an integer combination of the cell
    vectors, with zero coefficients along non-periodic directions. -/
theorem wrapPos_reconstruct (box : Box K) (hdet : M3.det box.vects ≠ 0) (pbc : V3 Bool) (fl : K → Int) (p : V3 K) :
    wrapPos box pbc fl p + C05.latticeVec box.vects (imageFlags box pbc fl p) = p ∧
    (pbc.x = false → (imageFlags box pbc fl p).x = 0) ∧ (pbc.y = false → (imageFlags box pbc fl p).y = 0) ∧
    (pbc.z = false → (imageFlags box pbc fl p).z = 0) :=
  ⟨C05.atom_reconstruct fl box hdet pbc p, C05.atomFlags_nonperiodic fl box pbc p⟩

theorem isFloor_eq_of_bounds {fl : K → Int} (h : C05.IsFloor fl) {t : K} {n : ℤ} (h0 : (n : K) ≤ t) (h1 : t < (n : K) + 1) :
    fl t = n := by
  obtain ⟨ha, hb⟩ := h t
  have h2 : ((fl t : Int) : K) < ((n + 1 : Int) : K) := by push_cast; exact lt_of_le_of_lt ha h1
  have h3 : ((n : Int) : K) < ((fl t + 1 : Int) : K) := by push_cast; exact lt_of_le_of_lt h0 hb
  have h4 := Int.cast_lt.mp h2
  have h5 := Int.cast_lt.mp h3
  omega

theorem isFloor_add_int {fl : K → Int} (h : C05.IsFloor fl) (t : K) (n : ℤ) : fl (t + (n : K)) = fl t + n := by
  obtain ⟨ha, hb⟩ := h t
  apply isFloor_eq_of_bounds h
  · push_cast; linarith
  · push_cast; linarith

/-- a point is inside the cell along the periodic directions (`0 ≤ s < 1` there). -/
def insidePeriodic (box : Box K) (pbc : V3 Bool) (p : V3 K) : Prop :=
  (pbc.x = true → 0 ≤ (box.cartToRel p).x ∧ (box.cartToRel p).x < 1) ∧
  (pbc.y = true → 0 ≤ (box.cartToRel p).y ∧ (box.cartToRel p).y < 1) ∧
  (pbc.z = true → 0 ≤ (box.cartToRel p).z ∧ (box.cartToRel p).z < 1)

theorem flag_zero (fl : K → Int) (hfl : C05.IsFloor fl) (b : Bool) (t : K) (h : b = true → 0 ≤ t ∧ t < 1) :
    (if b then fl t else 0) = 0 := by
  cases b with
  | true => simp only [if_true]; exact hfl.eq_zero (h rfl).1 (h rfl).2
  | false => simp

/-- an atom that is already inside along the periodic directions is not moved by `wrap`. -/
theorem wrapPos_inside (box : Box K) (hdet : M3.det box.vects ≠ 0) (pbc : V3 Bool) (fl : K → Int)
    (hfl : C05.IsFloor fl) (p : V3 K) (hin : insidePeriodic box pbc p) : wrapPos box pbc fl p = p := by
  obtain ⟨hx, hy, hz⟩ := hin
  have hflags : imageFlags box pbc fl p = ⟨0, 0, 0⟩ := by
    simp only [imageFlags, flag_zero fl hfl _ _ hx, flag_zero fl hfl _ _ hy, flag_zero fl hfl _ _ hz]
  have := (wrapPos_reconstruct box hdet pbc fl p).1
  rw [hflags] at this
  have e : wrapPos box pbc fl p + C05.latticeVec box.vects ⟨0, 0, 0⟩ = wrapPos box pbc fl p := by
    simp only [C05.latticeVec, M3.vecMul, C05.V3.add_def, Int.cast_zero, zero_mul, add_zero]
  rw [e] at this
  exact this

/-- adding a lattice vector shifts the relative coordinates by its integer coefficients. -/
theorem cartToRel_add_lattice (box : Box K) (hdet : M3.det box.vects ≠ 0) (p : V3 K) (m : IV) :
    box.cartToRel (p + C05.latticeVec box.vects m) = box.cartToRel p + toK m := by
  have e : p + C05.latticeVec box.vects m = box.relToCart (box.cartToRel p + toK m) := by
    conv_lhs => rw [← C05.relToCart_cartToRel box hdet p]
    simp only [Box.relToCart, C05.latticeVec, toK, M3.vecMul, C05.V3.add_def, V3.mk.injEq]
    refine ⟨by ring, by ring, by ring⟩
  rw [e, C05.cartToRel_relToCart box hdet]

/-- `wrap` does not see lattice translations along periodic directions:
    `wrap(p + m·vects) = wrap(p)` when `m` vanishes on the non-periodic axes. -/
theorem wrapPos_add_lattice (box : Box K) (hdet : M3.det box.vects ≠ 0) (pbc : V3 Bool) (fl : K → Int)
    (hfl : C05.IsFloor fl) (p : V3 K) (m : IV)
    (hx : pbc.x = false → m.x = 0) (hy : pbc.y = false → m.y = 0) (hz : pbc.z = false → m.z = 0) :
    wrapPos box pbc fl (p + C05.latticeVec box.vects m) = wrapPos box pbc fl p := by
  unfold wrapPos imageFlags
  simp only [cartToRel_add_lattice box hdet p m]
  congr 1
  obtain ⟨px, py, pz⟩ := pbc
  simp only [C05.V3.add_def, C05.V3.sub_def, toK, V3.mk.injEq]
  refine ⟨?_, ?_, ?_⟩
  · cases px with
    | true => simp only [if_true, isFloor_add_int hfl]; push_cast; ring
    | false => simp only [Bool.false_eq_true, if_false, hx rfl]; push_cast; ring
  · cases py with
    | true => simp only [if_true, isFloor_add_int hfl]; push_cast; ring
    | false => simp only [Bool.false_eq_true, if_false, hy rfl]; push_cast; ring
  · cases pz with
    | true => simp only [if_true, isFloor_add_int hfl]; push_cast; ring
    | false => simp only [Bool.false_eq_true, if_false, hz rfl]; push_cast; ring


/-! ## `StackingFault.fault` -/

/-- the mask is the strict comparison of the cut coordinate with the fault plane: an atom exactly on
    the plane belongs to the lower half. -/
theorem isAbove_iff (cut : Cut) (fp : K) (p : V3 K) : isAbove cut fp p = true ↔ fp < p.get (cutIndex cut) := by
  simp only [isAbove, decide_eq_true_eq]

/-- **fault_below_fixed**: an atom at or below the fault plane is not shifted: it is only re-wrapped, i.e.
    moved by an integer combination of the *periodic* cell vectors, and not at all if it was inside. -/
theorem fault_below_fixed (box : Box K) (hdet : M3.det box.vects ≠ 0) (pbc : V3 Bool) (fl : K → Int)
    (hfl : C05.IsFloor fl) (cut : Cut) (fp : K) (shift p : V3 K) (hb : p.get (cutIndex cut) ≤ fp) :
    faultPos box pbc fl cut fp shift p = wrapPos box pbc fl p ∧
    faultPos box pbc fl cut fp shift p + C05.latticeVec box.vects (imageFlags box pbc fl p) = p ∧
    (insidePeriodic box pbc p → faultPos box pbc fl cut fp shift p = p) := by
  have hna : isAbove cut fp p = false := by
    rw [Bool.eq_false_iff, ne_eq, isAbove_iff]; exact not_lt.mpr hb
  have e : faultPos box pbc fl cut fp shift p = wrapPos box pbc fl p := by
    simp only [faultPos, hna, Bool.false_eq_true, if_false]
  refine ⟨e, ?_, ?_⟩
  · rw [e]; exact (wrapPos_reconstruct box hdet pbc fl p).1
  · intro hin; rw [e]; exact wrapPos_inside box hdet pbc fl hfl p hin

/-- **fault_above_shifted**: an atom above the fault plane ends at `p + shift` minus an integer
    combination `n` of the cell vectors with `n = 0` along every non-periodic direction (the cut
    direction of a surface system): exactly the requested vector modulo the periodic in-plane cell
    vectors. -/
theorem fault_above_shifted (box : Box K) (hdet : M3.det box.vects ≠ 0) (pbc : V3 Bool) (fl : K → Int)
    (cut : Cut) (fp : K) (shift p : V3 K) (ha : fp < p.get (cutIndex cut)) :
    ∃ n : IV, faultPos box pbc fl cut fp shift p + C05.latticeVec box.vects n = p + shift ∧
      (pbc.x = false → n.x = 0) ∧ (pbc.y = false → n.y = 0) ∧ (pbc.z = false → n.z = 0) := by
  have hab : isAbove cut fp p = true := (isAbove_iff cut fp p).mpr ha
  have e : faultPos box pbc fl cut fp shift p = wrapPos box pbc fl (p + shift) := by
    simp only [faultPos, hab, if_true]
  obtain ⟨h1, h2⟩ := wrapPos_reconstruct box hdet pbc fl (p + shift)
  exact ⟨imageFlags box pbc fl (p + shift), by rw [e]; exact h1, h2⟩

/-- the requested vector: `a1·a1vect + a2·a2vect + outofplane·ê_cut`; when the two shift vectors lie in
    the fault plane its out-of-plane component is exactly `outofplane`. -/
theorem faultShift_cut (a1 a2 oop : K) (a1c a2c : V3 K) (cut : Cut)
    (h1 : a1c.get (cutIndex cut) = 0) (h2 : a2c.get (cutIndex cut) = 0) :
    (faultShift a1 a2 oop a1c a2c cut).get (cutIndex cut) = oop := by
  cases cut
  · have h1' : a1c.x = 0 := h1
    have h2' : a2c.x = 0 := h2
    show a1 * a1c.x + a2 * a2c.x + oop * ((1 : ℤ) : K) = oop
    rw [h1', h2']; push_cast; ring
  · have h1' : a1c.y = 0 := h1
    have h2' : a2c.y = 0 := h2
    show a1 * a1c.y + a2 * a2c.y + oop * ((1 : ℤ) : K) = oop
    rw [h1', h2']; push_cast; ring
  · have h1' : a1c.z = 0 := h1
    have h2' : a2c.z = 0 := h2
    show a1 * a1c.z + a2 * a2c.z + oop * ((1 : ℤ) : K) = oop
    rw [h1', h2']; push_cast; ring

/-- **fault_lattice_vector_restores**, cell-vector form: a shift by an integer combination of the
    periodic cell vectors leaves every atom of a wrapped system exactly where it was. -/
theorem fault_box_vector_restores (box : Box K) (hdet : M3.det box.vects ≠ 0) (pbc : V3 Bool) (fl : K → Int)
    (hfl : C05.IsFloor fl) (cut : Cut) (fp : K) (m : IV)
    (hx : pbc.x = false → m.x = 0) (hy : pbc.y = false → m.y = 0) (hz : pbc.z = false → m.z = 0)
    (ps : List (V3 K)) (hin : ∀ p ∈ ps, insidePeriodic box pbc p) :
    fault box pbc fl cut fp (C05.latticeVec box.vects m) ps = ps := by
  unfold fault
  conv_rhs => rw [← List.map_id ps]
  apply List.map_congr_left
  intro p hp
  simp only [faultPos, id]
  split_ifs
  · rw [wrapPos_add_lattice box hdet pbc fl hfl p m hx hy hz]
    exact wrapPos_inside box hdet pbc fl hfl p (hin p hp)
  · exact wrapPos_inside box hdet pbc fl hfl p (hin p hp)

/-- **fault_lattice_vector_restores**: if the translation `t` is a symmetry of the half-crystal above the
    fault plane modulo the periodic cell (the wrapped images of the shifted upper atoms are the upper
    atoms again, as a multiset), the faulted system is the unfaulted one as a multiset of positions. -/
theorem fault_lattice_vector_restores (box : Box K) (hdet : M3.det box.vects ≠ 0) (pbc : V3 Bool)
    (fl : K → Int) (hfl : C05.IsFloor fl) (cut : Cut) (fp : K) (t : V3 K) (ps : List (V3 K))
    (hin : ∀ p ∈ ps, insidePeriodic box pbc p)
    (hsym : ((ps.filter (isAbove cut fp)).map (fun p => wrapPos box pbc fl (p + t))).Perm
      (ps.filter (isAbove cut fp))) :
    (fault box pbc fl cut fp t ps).Perm ps := by
  have hsplit : ps.Perm (ps.filter (isAbove cut fp) ++ ps.filter (fun p => !isAbove cut fp p)) :=
    (List.filter_append_perm (isAbove cut fp) ps).symm
  have h1 : (fault box pbc fl cut fp t ps).Perm
      ((ps.filter (isAbove cut fp) ++ ps.filter (fun p => !isAbove cut fp p)).map (faultPos box pbc fl cut fp t)) :=
    hsplit.map _
  refine h1.trans (List.Perm.trans ?_ hsplit.symm)
  rw [List.map_append]
  have ea : (ps.filter (isAbove cut fp)).map (faultPos box pbc fl cut fp t)
      = (ps.filter (isAbove cut fp)).map (fun p => wrapPos box pbc fl (p + t)) := by
    apply List.map_congr_left
    intro p hp
    have := (List.mem_filter.mp hp).2
    simp only [faultPos, this, if_true]
  have eb : (ps.filter (fun p => !isAbove cut fp p)).map (faultPos box pbc fl cut fp t)
      = ps.filter (fun p => !isAbove cut fp p) := by
    conv_rhs => rw [← List.map_id (ps.filter (fun p => !isAbove cut fp p))]
    apply List.map_congr_left
    intro p hp
    obtain ⟨hp1, hp2⟩ := List.mem_filter.mp hp
    simp only [Bool.not_eq_true'] at hp2
    simp only [faultPos, hp2, Bool.false_eq_true, if_false, id]
    exact wrapPos_inside box hdet pbc fl hfl p (hin p hp1)
  rw [ea, eb]
  exact List.Perm.append_right _ hsym

end fault

/-! ## `FreeSurface.surface` -/

/-- **surface_pbc**: the surface system is non-periodic exactly across the cut. -/
theorem surface_pbc (cut : Cut) :
    surfacePbc cut = [decide (cutIndex cut ≠ 0), decide (cutIndex cut ≠ 1), decide (cutIndex cut ≠ 2)] ∧
    (surfacePbc cut).length = 3 ∧
    ∀ i, i < 3 → ((surfacePbc cut).getD i true = false ↔ i = cutIndex cut) := by
  cases cut <;> refine ⟨by decide, by decide, ?_⟩ <;> intro i hi <;> interval_cases i <;> decide

/-- the multiplier along the cut without `minwidth`: sign kept, magnitude not reduced, even when `even`
    is set, unchanged otherwise. -/
theorem cutMult_none (m : ℤ) (hm : m ≠ 0) (even : Bool) :
    (0 < m → 0 < cutMult m none even) ∧ (m < 0 → cutMult m none even < 0) ∧
    m.natAbs ≤ (cutMult m none even).natAbs ∧ (cutMult m none even).natAbs ≤ m.natAbs + 1 ∧
    (even = true → cutMult m none even % 2 = 0) ∧ (even = false → cutMult m none even = m) := by
  cases even <;>
    simp only [cutMult, Bool.false_eq_true, Bool.true_and, Bool.false_and, if_false, decide_eq_true_eq,
      false_implies, true_implies, forall_const, and_true, true_and, reduceCtorEq] <;>
    (try split_ifs) <;> omega

/-- … with `minwidth` (`q = ceil(minwidth / rcellwidth)`): additionally at least `q` cells thick. -/
theorem cutMult_some (m : ℤ) (hm : m ≠ 0) (q : ℤ) (even : Bool) :
    (0 < m → 0 < cutMult m (some q) even) ∧ (m < 0 → cutMult m (some q) even < 0) ∧
    m.natAbs ≤ (cutMult m (some q) even).natAbs ∧ q ≤ (cutMult m (some q) even).natAbs ∧
    (even = true → cutMult m (some q) even % 2 = 0) ∧
    (even = false → q ≤ m.natAbs → cutMult m (some q) even = m) := by
  rcases lt_or_gt_of_ne hm with hneg | hpos
  · have hs : Int.sign m = -1 := Int.sign_eq_neg_one_of_neg hneg
    cases even <;>
      simp only [cutMult, hs, Bool.false_eq_true, Bool.true_and, Bool.false_and, if_false, decide_eq_true_eq,
        false_implies, true_implies, forall_const, and_true, true_and, reduceCtorEq] <;>
      split_ifs <;> omega
  · have hs : Int.sign m = 1 := Int.sign_eq_one_of_pos hpos
    cases even <;>
      simp only [cutMult, hs, Bool.false_eq_true, Bool.true_and, Bool.false_and, if_false, decide_eq_true_eq,
        false_implies, true_implies, forall_const, and_true, true_and, reduceCtorEq] <;>
      split_ifs <;> omega


section surface
variable {K : Type} [Field K] [LinearOrder K] [IsStrictOrderedRing K]

/-- vacuum is added symmetrically: only the cut component of the cut cell vector grows (by `vac`), the
    in-plane cell vectors are untouched, the origin moves by `-vac/2` along the cut direction only; hence
    the lower face moves down and the upper face moves up by `vac/2` each. -/
theorem vacuum_symmetric (cut : Cut) (box : Box K) (vac : K) :
    (∀ i, i < 3 → i ≠ cutIndex cut → (vacuumBox cut box vac).vects.row i = box.vects.row i) ∧
    (∀ j, j < 3 → j ≠ cutIndex cut →
      ((vacuumBox cut box vac).vects.row (cutIndex cut)).get j = (box.vects.row (cutIndex cut)).get j ∧
      (vacuumBox cut box vac).origin.get j = box.origin.get j) ∧
    ((vacuumBox cut box vac).vects.row (cutIndex cut)).get (cutIndex cut)
      = (box.vects.row (cutIndex cut)).get (cutIndex cut) + vac ∧
    (vacuumBox cut box vac).origin.get (cutIndex cut) = box.origin.get (cutIndex cut) - vac / 2 ∧
    ((vacuumBox cut box vac).origin + (vacuumBox cut box vac).vects.row (cutIndex cut)).get (cutIndex cut)
      = (box.origin + box.vects.row (cutIndex cut)).get (cutIndex cut) + vac / 2 := by
  obtain ⟨⟨⟨a0, a1, a2⟩, ⟨b0, b1, b2⟩, ⟨c0, c1, c2⟩⟩, ⟨o0, o1, o2⟩⟩ := box
  cases cut
  all_goals
    refine ⟨?_, ?_, ?_, ?_, ?_⟩
    · intro i hi hne
      interval_cases i <;> first | exact absurd rfl hne | rfl
    · intro j hj hne
      interval_cases j <;> first | exact absurd rfl hne | skip
      all_goals
        simp [vacuumBox, setDiag, cutIndex, unitV, M3.row, V3.get, C05.V3.add_def, C05.V3.sub_def, V3.smul]
    · simp [vacuumBox, setDiag, cutIndex, unitV, M3.row, V3.get, C05.V3.add_def, C05.V3.sub_def, V3.smul]
    · simp [vacuumBox, setDiag, cutIndex, unitV, M3.row, V3.get, C05.V3.add_def, C05.V3.sub_def, V3.smul]
    · simp [vacuumBox, setDiag, cutIndex, unitV, M3.row, V3.get, C05.V3.add_def, C05.V3.sub_def, V3.smul]
      ring

/-! ### vacuum and the relative coordinates (cut vector c of a cell whose a, b have no z component) -/

/-- in a cell whose first two vectors have no z component the third relative coordinate is the z distance to
    the origin in units of the third vector's z component. -/
theorem cartToRel_z_of_flat (box : Box K) (p : V3 K) (ha : box.vects.r0.z = 0) (hb : box.vects.r1.z = 0)
    (hdet : M3.det box.vects ≠ 0) :
    (Box.cartToRel box p).z = (p.z - box.origin.z) / box.vects.r2.z := by
  obtain ⟨⟨⟨a0, a1, a2⟩, ⟨b0, b1, b2⟩, ⟨c0, c1, c2⟩⟩, ⟨o0, o1, o2⟩⟩ := box
  obtain ⟨p0, p1, p2⟩ := p
  simp only at ha hb
  subst ha hb
  have e : M3.det (⟨⟨a0, a1, 0⟩, ⟨b0, b1, 0⟩, ⟨c0, c1, c2⟩⟩ : M3 K) = (a0 * b1 - a1 * b0) * c2 := by
    simp only [M3.det, V3.dot, V3.cross]; ring
  have hd : (a0 * b1 - a1 * b0) * c2 ≠ 0 := by rw [← e]; exact hdet
  have h1 : a0 * b1 - a1 * b0 ≠ 0 := left_ne_zero_of_mul hd
  have h2 : c2 ≠ 0 := right_ne_zero_of_mul hd
  show V3.dot _ _ = _
  simp only [Box.recip, M3.inv, M3.transpose, e, V3.cross, V3.dot, C05.V3.sub_def]
  generalize a0 * b1 - a1 * b0 = D at *
  field_simp
  ring

/-- **vacuum, scaled coordinate across the cut** (cut vector c; in-plane vectors without a component along the
    cut): `s_c' = (s_c w + vac/2) / (w + vac)`. -/
theorem vacuum_rel_cut_c (box : Box K) (v : K) (p : V3 K) (ha : box.vects.r0.z = 0) (hb : box.vects.r1.z = 0)
    (hdet : M3.det box.vects ≠ 0) (hdet' : M3.det (vacuumBox .c box v).vects ≠ 0) :
    (Box.cartToRel (vacuumBox .c box v) p).z
      = ((Box.cartToRel box p).z * box.vects.r2.z + v / 2) / (box.vects.r2.z + v) := by
  rw [cartToRel_z_of_flat box p ha hb hdet, cartToRel_z_of_flat (vacuumBox .c box v) p ha hb hdet']
  obtain ⟨⟨⟨a0, a1, a2⟩, ⟨b0, b1, b2⟩, ⟨c0, c1, c2⟩⟩, ⟨o0, o1, o2⟩⟩ := box
  simp only at ha hb
  subst ha hb
  have e : M3.det (⟨⟨a0, a1, 0⟩, ⟨b0, b1, 0⟩, ⟨c0, c1, c2⟩⟩ : M3 K) = (a0 * b1 - a1 * b0) * c2 := by
    simp only [M3.det, V3.dot, V3.cross]; ring
  have h2 : c2 ≠ 0 := by
    intro h; apply hdet; rw [e, h, mul_zero]
  simp only [vacuumBox, setDiag, cutIndex, unitV, C05.V3.sub_def, V3.smul]
  norm_num
  field_simp
  ring


/-- the slab stays strictly inside across the cut: for `0 ≤ s_c < 1`, `w > 0`, `vac ≥ 0` the new coordinate is in
    `[0, 1)`, and in `(0, 1)` as soon as `vac > 0`. -/
theorem vacuum_rel_cut_bounds (s w v : K) (hs0 : 0 ≤ s) (hs1 : s < 1) (hw : 0 < w) (hv : 0 ≤ v) :
    0 ≤ (s * w + v / 2) / (w + v) ∧ (s * w + v / 2) / (w + v) < 1 ∧ (0 < v → 0 < (s * w + v / 2) / (w + v)) := by
  have hwv : 0 < w + v := by linarith
  have hsw : 0 ≤ s * w := mul_nonneg hs0 hw.le
  refine ⟨div_nonneg (by linarith) hwv.le, ?_, fun hv' => div_pos (by linarith) hwv⟩
  rw [div_lt_one hwv]
  nlinarith

/-- **vacuum with a tilted cut vector**: the Cartesian positions do not change, so the in-plane relative
    coordinates `s_a, s_b` move by exactly `(s_c - s_c')` times the in-plane part of the cut vector expressed in
    the in-plane vectors: `(s_a' - s_a) a + (s_b' - s_b) b = (s_c - s_c') c` in both in-plane components.  They stay
    put iff the cut vector is not tilted (or `s_c' = s_c`); otherwise an atom can leave `[0, 1)` in a periodic
    in-plane direction — by a whole in-plane period it is still the same crystal. -/
theorem vacuum_inplane_c (box : Box K) (v : K) (p : V3 K) (hdet : M3.det box.vects ≠ 0)
    (hdet' : M3.det (vacuumBox .c box v).vects ≠ 0) :
    ((Box.cartToRel (vacuumBox .c box v) p).x - (Box.cartToRel box p).x) * box.vects.r0.x +
      ((Box.cartToRel (vacuumBox .c box v) p).y - (Box.cartToRel box p).y) * box.vects.r1.x
      = ((Box.cartToRel box p).z - (Box.cartToRel (vacuumBox .c box v) p).z) * box.vects.r2.x ∧
    ((Box.cartToRel (vacuumBox .c box v) p).x - (Box.cartToRel box p).x) * box.vects.r0.y +
      ((Box.cartToRel (vacuumBox .c box v) p).y - (Box.cartToRel box p).y) * box.vects.r1.y
      = ((Box.cartToRel box p).z - (Box.cartToRel (vacuumBox .c box v) p).z) * box.vects.r2.y := by
  have e1 := C05.relToCart_cartToRel box hdet p
  have e2 := C05.relToCart_cartToRel (vacuumBox .c box v) hdet' p
  generalize Box.cartToRel box p = s at e1 ⊢
  generalize Box.cartToRel (vacuumBox .c box v) p = s' at e2 ⊢
  obtain ⟨⟨⟨a0, a1, a2⟩, ⟨b0, b1, b2⟩, ⟨c0, c1, c2⟩⟩, ⟨o0, o1, o2⟩⟩ := box
  obtain ⟨p0, p1, p2⟩ := p
  obtain ⟨x, y, z⟩ := s
  obtain ⟨x', y', z'⟩ := s'
  simp only [Box.relToCart, M3.vecMul, C05.V3.add_def, vacuumBox, setDiag, cutIndex, unitV, C05.V3.sub_def, V3.smul,
    V3.mk.injEq] at e1 e2
  norm_num at e1 e2
  obtain ⟨hx, hy, _⟩ := e1
  obtain ⟨hx', hy', _⟩ := e2
  constructor
  · show (x' - x) * a0 + (y' - y) * b0 = (z - z') * c0
    linear_combination hx' - hx
  · show (x' - x) * a1 + (y' - y) * b1 = (z - z') * c1
    linear_combination hy' - hy

/-- `minimum_r` push: with `new = sqrt(r² - d₁² - d₂²)` (`sq·sq =` that radicand) the pushed
    separation `d + (new - d_cut)·ê_cut` has length exactly `r`. -/
theorem push_restores_minimum_r (cut : Cut) (r sq : K) (d : V3 K) (hsq : sq * sq = pushRadicand cut r d) :
    V3.normSq (d + V3.smul (pushAmount cut sq d) (unitV (cutIndex cut))) = r * r := by
  obtain ⟨dx, dy, dz⟩ := d
  cases cut
  · have h : sq * sq = r * r - dy * dy - dz * dz := hsq
    show (dx + (sq - dx) * ((1 : ℤ) : K)) * (dx + (sq - dx) * ((1 : ℤ) : K))
      + (dy + (sq - dx) * ((0 : ℤ) : K)) * (dy + (sq - dx) * ((0 : ℤ) : K))
      + (dz + (sq - dx) * ((0 : ℤ) : K)) * (dz + (sq - dx) * ((0 : ℤ) : K)) = r * r
    push_cast; linear_combination h
  · have h : sq * sq = r * r - dx * dx - dz * dz := hsq
    show (dx + (sq - dy) * ((0 : ℤ) : K)) * (dx + (sq - dy) * ((0 : ℤ) : K))
      + (dy + (sq - dy) * ((1 : ℤ) : K)) * (dy + (sq - dy) * ((1 : ℤ) : K))
      + (dz + (sq - dy) * ((0 : ℤ) : K)) * (dz + (sq - dy) * ((0 : ℤ) : K)) = r * r
    push_cast; linear_combination h
  · have h : sq * sq = r * r - dx * dx - dy * dy := hsq
    show (dx + (sq - dz) * ((0 : ℤ) : K)) * (dx + (sq - dz) * ((0 : ℤ) : K))
      + (dy + (sq - dz) * ((0 : ℤ) : K)) * (dy + (sq - dz) * ((0 : ℤ) : K))
      + (dz + (sq - dz) * ((1 : ℤ) : K)) * (dz + (sq - dz) * ((1 : ℤ) : K)) = r * r
    push_cast; linear_combination h

end surface


section surface2
variable {K : Type} [Field K] [LinearOrder K] [IsStrictOrderedRing K]

/-- after `wrap` with all directions periodic an atom is inside the cell (`0 ≤ s < 1` on every axis) and has
    moved by an integer combination of the cell vectors. -/
theorem surfacePos_spec (box : Box K) (hdet : M3.det box.vects ≠ 0) (fl : K → Int) (hfl : C05.IsFloor fl)
    (shift p : V3 K) :
    (∃ n : IV, surfacePos box fl shift p + C05.latticeVec box.vects n = p + shift) ∧
    insidePeriodic box ⟨true, true, true⟩ (surfacePos box fl shift p) := by
  constructor
  · exact ⟨_, (wrapPos_reconstruct box hdet ⟨true, true, true⟩ fl (p + shift)).1⟩
  · have e : box.cartToRel (surfacePos box fl shift p)
        = box.cartToRel (p + shift) - toK (imageFlags box ⟨true, true, true⟩ fl (p + shift)) := by
      unfold surfacePos wrapPos
      rw [C05.cartToRel_relToCart box hdet]
    unfold insidePeriodic
    rw [e]
    simp only [imageFlags, if_true, toK, C05.V3.sub_def, forall_const]
    obtain ⟨a1, a2⟩ := hfl (box.cartToRel (p + shift)).x
    obtain ⟨b1, b2⟩ := hfl (box.cartToRel (p + shift)).y
    obtain ⟨c1, c2⟩ := hfl (box.cartToRel (p + shift)).z
    refine ⟨⟨by linarith, by linarith⟩, ⟨by linarith, by linarith⟩, ⟨by linarith, by linarith⟩⟩

theorem latticeVec_superBox (rbox : Box K) (sa sb sc : C04.Size) (n : IV) :
    C05.latticeVec (C04.superBox rbox sa sb sc).vects n
      = C05.latticeVec rbox.vects ⟨sa.mult * n.x, sb.mult * n.y, sc.mult * n.z⟩ := by
  simp only [C05.latticeVec, C04.superBox, M3.vecMul, V3.smul, V3.mk.injEq]
  push_cast
  refine ⟨by ring, by ring, by ring⟩

/-- **surface_same_crystal**: the surface system holds `m_a·m_b·m_c` copies of every atom of the rotated
    cell, each copy carrying the original's type and per-atom values, sitting at the original position plus
    the requested shift plus a lattice vector of the rotated cell (same infinite crystal, rigidly shifted),
    and inside the supercell. -/
theorem surface_same_crystal (rbox : Box K) (hdet : M3.det rbox.vects ≠ 0) (sa sb sc : C04.Size)
    (ha : sa.mult ≠ 0) (hb : sb.mult ≠ 0) (hc : sc.mult ≠ 0) (fl : K → Int) (hfl : C05.IsFloor fl)
    (shift : V3 K) (atoms : List (C04.Atom K)) :
    (surfaceAtoms rbox sa sb sc fl shift atoms).1 = C04.superBox rbox sa sb sc ∧
    (surfaceAtoms rbox sa sb sc fl shift atoms).2.length
      = sc.mult.toNat * (sb.mult.toNat * (sa.mult.toNat * atoms.length)) ∧
    ∀ a' ∈ (surfaceAtoms rbox sa sb sc fl shift atoms).2, ∃ a ∈ atoms, ∃ n : IV,
      a'.atype = a.atype ∧ a'.extra = a.extra ∧
      a'.pos = a.pos + shift + C05.latticeVec rbox.vects n ∧
      insidePeriodic (C04.superBox rbox sa sb sc) ⟨true, true, true⟩ a'.pos := by
  have haK : ((sa.mult : Int) : K) ≠ 0 := by exact_mod_cast ha
  have hbK : ((sb.mult : Int) : K) ≠ 0 := by exact_mod_cast hb
  have hcK : ((sc.mult : Int) : K) ≠ 0 := by exact_mod_cast hc
  have hdets : M3.det (C04.superBox rbox sa sb sc).vects ≠ 0 := by
    rw [c04_superBox_volume]
    exact mul_ne_zero (mul_ne_zero (mul_ne_zero haK hbK) hcK) hdet
  refine ⟨rfl, ?_, ?_⟩
  · simp only [surfaceAtoms, List.length_map, c04_supersize_length]
  · intro a' ha'
    simp only [surfaceAtoms, List.mem_map] at ha'
    obtain ⟨a1, ha1, rfl⟩ := ha'
    simp only [C04.supersizeAtoms, List.mem_flatMap, List.mem_map, List.mem_range] at ha1
    obtain ⟨r2, _, r1, _, r0, _, a, ha, rfl⟩ := ha1
    obtain ⟨⟨n, hn⟩, hin⟩ := surfacePos_spec (C04.superBox rbox sa sb sc) hdets fl hfl shift
      (C04.replicaPos rbox sa sb sc a.pos r0 r1 r2)
    refine ⟨a, ha, ⟨(r0 : Int) + sa.lo - sa.mult * n.x, (r1 : Int) + sb.lo - sb.mult * n.y,
      (r2 : Int) + sc.lo - sc.mult * n.z⟩, rfl, rfl, ?_, hin⟩
    simp only
    have e1 : surfacePos (C04.superBox rbox sa sb sc) fl shift (C04.replicaPos rbox sa sb sc a.pos r0 r1 r2)
        = C04.replicaPos rbox sa sb sc a.pos r0 r1 r2 + shift - C05.latticeVec (C04.superBox rbox sa sb sc).vects n := by
      rw [← hn]
      ext <;> simp only [C05.V3.add_def, C05.V3.sub_def] <;> ring
    rw [e1, latticeVec_superBox, c04_replicaPos_eq rbox sa sb sc a.pos r0 r1 r2 hdet haK hbK hcK]
    ext <;> simp only [C05.latticeVec, M3.vecMul, C05.V3.add_def, C05.V3.sub_def] <;> push_cast <;> ring

end surface2

/-! ### translations that are lattice vectors of the crystal inside a larger periodic cell -/
section orbit
variable {K : Type} [Field K] [LinearOrder K] [IsStrictOrderedRing K]

theorem latticeVec_neg (V : M3 K) (n : IV) (p : V3 K) :
    p + C05.latticeVec V n + C05.latticeVec V ⟨-n.x, -n.y, -n.z⟩ = p := by
  ext <;> simp only [C05.latticeVec, M3.vecMul, C05.V3.add_def] <;> push_cast <;> ring

/-- wrapping first makes no difference to a later wrap of a translated atom. -/
theorem wrapPos_wrapPos_add (box : Box K) (hdet : M3.det box.vects ≠ 0) (pbc : V3 Bool) (fl : K → Int)
    (hfl : C05.IsFloor fl) (x t : V3 K) :
    wrapPos box pbc fl (wrapPos box pbc fl x + t) = wrapPos box pbc fl (x + t) := by
  obtain ⟨h1, h2, h3, h4⟩ := wrapPos_reconstruct box hdet pbc fl x
  set n := imageFlags box pbc fl x with hn
  have e : x + t = (wrapPos box pbc fl x + t) + C05.latticeVec box.vects n := by
    conv_lhs => rw [← h1]
    ext <;> simp only [C05.V3.add_def] <;> ring
  rw [e, wrapPos_add_lattice box hdet pbc fl hfl _ n h2 h3 h4]

/-- the `M` images `wrap(q + k·t)`, `k = 0 … M-1`, of one atom under a translation `t` with `M·t` a periodic
    cell vector. -/
def orbit (box : Box K) (pbc : V3 Bool) (fl : K → Int) (t : V3 K) (M : ℕ) (q : V3 K) : List (V3 K) :=
  (List.range M).map fun (k : ℕ) => wrapPos box pbc fl (q + V3.smul ((k : ℤ) : K) t)

theorem orbit_shift_perm (box : Box K) (hdet : M3.det box.vects ≠ 0) (pbc : V3 Bool) (fl : K → Int)
    (hfl : C05.IsFloor fl) (t : V3 K) (M : ℕ) (m : IV)
    (hM : V3.smul ((M : ℤ) : K) t = C05.latticeVec box.vects m)
    (hx : pbc.x = false → m.x = 0) (hy : pbc.y = false → m.y = 0) (hz : pbc.z = false → m.z = 0) (q : V3 K) :
    ((orbit box pbc fl t M q).map (fun p => wrapPos box pbc fl (p + t))).Perm (orbit box pbc fl t M q) := by
  cases M with
  | zero => simp [orbit]
  | succ N =>
    have step : ∀ k : ℕ, wrapPos box pbc fl (wrapPos box pbc fl (q + V3.smul ((k : ℤ) : K) t) + t)
        = wrapPos box pbc fl (q + V3.smul (((k + 1 : ℕ) : ℤ) : K) t) := by
      intro k
      rw [wrapPos_wrapPos_add box hdet pbc fl hfl]
      congr 1
      ext <;> simp only [C05.V3.add_def, V3.smul] <;> push_cast <;> ring
    have hlast : wrapPos box pbc fl (q + V3.smul (((N + 1 : ℕ) : ℤ) : K) t) = wrapPos box pbc fl (q + V3.smul ((0 : ℤ) : K) t) := by
      rw [hM, wrapPos_add_lattice box hdet pbc fl hfl q m hx hy hz]
      congr 1
      ext <;> simp only [C05.V3.add_def, V3.smul] <;> push_cast <;> ring
    -- image list = [f 1, …, f N, f (N+1)] = [f 1, …, f N, f 0]; original = f 0 :: [f 1, …, f N]
    have e1 : (orbit box pbc fl t (N + 1) q).map (fun p => wrapPos box pbc fl (p + t))
        = (List.range (N + 1)).map (fun (k : ℕ) => wrapPos box pbc fl (q + V3.smul (((k + 1 : ℕ) : ℤ) : K) t)) := by
      simp only [orbit, List.map_map]
      apply List.map_congr_left
      intro k _
      exact step k
    rw [e1]
    have e2 : (List.range (N + 1)).map (fun (k : ℕ) => wrapPos box pbc fl (q + V3.smul (((k + 1 : ℕ) : ℤ) : K) t))
        = (List.range N).map (fun (k : ℕ) => wrapPos box pbc fl (q + V3.smul (((k + 1 : ℕ) : ℤ) : K) t))
          ++ [wrapPos box pbc fl (q + V3.smul ((0 : ℤ) : K) t)] := by
      rw [List.range_succ, List.map_append, List.map_singleton, hlast]
    have e3 : orbit box pbc fl t (N + 1) q
        = wrapPos box pbc fl (q + V3.smul ((0 : ℤ) : K) t)
          :: (List.range N).map (fun (k : ℕ) => wrapPos box pbc fl (q + V3.smul (((k + 1 : ℕ) : ℤ) : K) t)) := by
      simp only [orbit, List.range_succ_eq_map, List.map_cons, List.map_map]
      rfl
    rw [e2, e3]
    exact List.perm_append_singleton _ _


/-- every output of `wrap` is inside the cell along the periodic directions. -/
theorem wrapPos_insidePeriodic (box : Box K) (hdet : M3.det box.vects ≠ 0) (pbc : V3 Bool) (fl : K → Int)
    (hfl : C05.IsFloor fl) (p : V3 K) : insidePeriodic box pbc (wrapPos box pbc fl p) := by
  have e : box.cartToRel (wrapPos box pbc fl p) = box.cartToRel p - toK (imageFlags box pbc fl p) := by
    unfold wrapPos
    rw [C05.cartToRel_relToCart box hdet]
  unfold insidePeriodic
  rw [e]
  obtain ⟨a1, a2⟩ := hfl (box.cartToRel p).x
  obtain ⟨b1, b2⟩ := hfl (box.cartToRel p).y
  obtain ⟨c1, c2⟩ := hfl (box.cartToRel p).z
  refine ⟨?_, ?_, ?_⟩ <;> intro h <;> simp only [imageFlags, h, if_true, toK, C05.V3.sub_def] <;>
    constructor <;> linarith

/-- `wrap` does not change the coordinate along a non-periodic direction to which the periodic cell vectors
    are perpendicular (the cut direction of a surface system). -/
theorem wrapPos_cut (box : Box K) (hdet : M3.det box.vects ≠ 0) (pbc : V3 Bool) (fl : K → Int) (cut : Cut)
    (hnp : pbc.get (cutIndex cut) = false)
    (hrows : ∀ i, i < 3 → i ≠ cutIndex cut → (box.vects.row i).get (cutIndex cut) = 0) (p : V3 K) :
    (wrapPos box pbc fl p).get (cutIndex cut) = p.get (cutIndex cut) := by
  obtain ⟨h1, h2, h3, h4⟩ := wrapPos_reconstruct box hdet pbc fl p
  set n := imageFlags box pbc fl p
  set w := wrapPos box pbc fl p
  have hx : w.x + ((n.x : K) * box.vects.r0.x + (n.y : K) * box.vects.r1.x + (n.z : K) * box.vects.r2.x) = p.x := by
    have := congrArg V3.x h1; simpa [C05.latticeVec, M3.vecMul, C05.V3.add_def] using this
  have hy : w.y + ((n.x : K) * box.vects.r0.y + (n.y : K) * box.vects.r1.y + (n.z : K) * box.vects.r2.y) = p.y := by
    have := congrArg V3.y h1; simpa [C05.latticeVec, M3.vecMul, C05.V3.add_def] using this
  have hz : w.z + ((n.x : K) * box.vects.r0.z + (n.y : K) * box.vects.r1.z + (n.z : K) * box.vects.r2.z) = p.z := by
    have := congrArg V3.z h1; simpa [C05.latticeVec, M3.vecMul, C05.V3.add_def] using this
  cases cut
  · have r1 : box.vects.r1.x = 0 := hrows 1 (by norm_num) (by decide)
    have r2 : box.vects.r2.x = 0 := hrows 2 (by norm_num) (by decide)
    have n0 : n.x = 0 := h2 hnp
    show w.x = p.x
    rw [← hx, r1, r2, n0]; push_cast; ring
  · have r0 : box.vects.r0.y = 0 := hrows 0 (by norm_num) (by decide)
    have r2 : box.vects.r2.y = 0 := hrows 2 (by norm_num) (by decide)
    have n0 : n.y = 0 := h3 hnp
    show w.y = p.y
    rw [← hy, r0, r2, n0]; push_cast; ring
  · have r0 : box.vects.r0.z = 0 := hrows 0 (by norm_num) (by decide)
    have r1 : box.vects.r1.z = 0 := hrows 1 (by norm_num) (by decide)
    have n0 : n.z = 0 := h4 hnp
    show w.z = p.z
    rw [← hz, r0, r1, n0]; push_cast; ring

theorem add_get (p t : V3 K) (i : ℕ) : (p + t).get i = p.get i + t.get i := by
  simp only [V3.get, C05.V3.add_def]; split_ifs <;> rfl

/-- **fault_orbit_restores**: a system whose atoms come in orbits of the translation `t` (`M·t` a periodic
    cell vector, as in any supercell holding `M` unit cells along a lattice vector `t` of the crystal) is
    restored, as a multiset of positions, by a stacking-fault shift `t` in the fault plane. -/
theorem fault_orbit_restores (box : Box K) (hdet : M3.det box.vects ≠ 0) (pbc : V3 Bool) (fl : K → Int)
    (hfl : C05.IsFloor fl) (cut : Cut) (fp : K) (t : V3 K) (M : ℕ) (m : IV)
    (hM : V3.smul ((M : ℤ) : K) t = C05.latticeVec box.vects m)
    (hx : pbc.x = false → m.x = 0) (hy : pbc.y = false → m.y = 0) (hz : pbc.z = false → m.z = 0)
    (hnp : pbc.get (cutIndex cut) = false)
    (hrows : ∀ i, i < 3 → i ≠ cutIndex cut → (box.vects.row i).get (cutIndex cut) = 0)
    (ht : t.get (cutIndex cut) = 0)
    (base ps : List (V3 K)) (hps : ps.Perm (base.flatMap (orbit box pbc fl t M))) :
    (fault box pbc fl cut fp t ps).Perm ps := by
  set os := base.flatMap (orbit box pbc fl t M) with hos
  have hin : ∀ p ∈ os, insidePeriodic box pbc p := by
    intro p hp
    simp only [hos, List.mem_flatMap, orbit, List.mem_map] at hp
    obtain ⟨q, _, k, _, rfl⟩ := hp
    exact wrapPos_insidePeriodic box hdet pbc fl hfl _
  have habove : ∀ p, isAbove cut fp (wrapPos box pbc fl (p + t)) = isAbove cut fp p := by
    intro p
    simp only [isAbove, wrapPos_cut box hdet pbc fl cut hnp hrows, add_get, ht, add_zero]
  have hmap : (os.map (fun p => wrapPos box pbc fl (p + t))).Perm os := by
    rw [hos, List.map_flatMap]
    exact List.Perm.flatMap_left _ (fun q _ => orbit_shift_perm box hdet pbc fl hfl t M m hM hx hy hz q)
  have hsym : ((os.filter (isAbove cut fp)).map (fun p => wrapPos box pbc fl (p + t))).Perm
      (os.filter (isAbove cut fp)) := by
    have e : (os.filter (isAbove cut fp)).map (fun p => wrapPos box pbc fl (p + t))
        = (os.map (fun p => wrapPos box pbc fl (p + t))).filter (isAbove cut fp) := by
      rw [List.filter_map]
      congr 1
      apply List.filter_congr
      intro p _
      simp only [Function.comp, habove]
    rw [e]
    exact hmap.filter _
  have h1 := fault_lattice_vector_restores box hdet pbc fl hfl cut fp t os hin hsym
  have h2 : (fault box pbc fl cut fp t ps).Perm (fault box pbc fl cut fp t os) := hps.map _
  exact h2.trans (h1.trans hps.symm)

end orbit

/-! ### the layer list produced by `np.unique(round(x))` -/

theorem roundHalfEven_bounds (x : ℚ) :
    (roundHalfEven x = ⌊x⌋ ∧ x - ⌊x⌋ ≤ 1 / 2) ∨ (roundHalfEven x = ⌊x⌋ + 1 ∧ 1 / 2 ≤ x - ⌊x⌋) := by
  unfold roundHalfEven
  have hf : (Rat.floor x : ℤ) = ⌊x⌋ := rfl
  simp only [hf]
  split_ifs with h1 h2 h3
  · left; exact ⟨rfl, h1.le⟩
  · right; exact ⟨rfl, h2.le⟩
  · left; exact ⟨rfl, not_lt.mp h2⟩
  · right; exact ⟨rfl, not_lt.mp h1⟩

theorem roundHalfEven_mono {x y : ℚ} (h : x ≤ y) : roundHalfEven x ≤ roundHalfEven y := by
  have hfl : ⌊x⌋ ≤ ⌊y⌋ := Int.floor_mono h
  rcases lt_or_eq_of_le hfl with hlt | heq
  · rcases roundHalfEven_bounds x with ⟨e1, _⟩ | ⟨e1, _⟩ <;> rcases roundHalfEven_bounds y with ⟨e2, _⟩ | ⟨e2, _⟩ <;>
      rw [e1, e2] <;> omega
  · -- same floor: compare the fractional parts
    unfold roundHalfEven
    have hfx : (Rat.floor x : ℤ) = ⌊x⌋ := rfl
    have hfy : (Rat.floor y : ℤ) = ⌊y⌋ := rfl
    simp only [hfx, hfy, ← heq]
    have hr : x - (⌊x⌋ : ℚ) ≤ y - (⌊x⌋ : ℚ) := by linarith
    split_ifs <;> first | omega | (exfalso; linarith)

theorem roundKey_mono (d : ℕ) {x y : ℚ} (h : x ≤ y) : roundKey d x ≤ roundKey d y := by
  unfold roundKey
  apply roundHalfEven_mono
  have : (0 : ℚ) ≤ ((10 ^ d : ℕ) : ℚ) := by positivity
  exact mul_le_mul_of_nonneg_right h this

theorem lt_of_roundKey_lt (d : ℕ) {x y : ℚ} (h : roundKey d x < roundKey d y) : x < y := by
  by_contra hn
  have := roundKey_mono d (not_lt.mp hn)
  omega

theorem mem_insertKey (kx p : ℤ × ℚ) (l : List (ℤ × ℚ)) : p ∈ insertKey kx l → p = kx ∨ p ∈ l := by
  induction l with
  | nil => intro h; simp only [insertKey, List.mem_singleton] at h; exact Or.inl h
  | cons q t ih =>
    obtain ⟨k, y⟩ := q
    simp only [insertKey]
    split_ifs
    · intro h; rcases List.mem_cons.mp h with h | h
      · exact Or.inl h
      · exact Or.inr h
    · intro h; exact Or.inr h
    · intro h
      rcases List.mem_cons.mp h with h | h
      · exact Or.inr (by rw [h]; simp)
      · rcases ih h with h | h
        · exact Or.inl h
        · exact Or.inr (List.mem_cons_of_mem _ h)

theorem insertKey_sorted (kx : ℤ × ℚ) (l : List (ℤ × ℚ)) (h : l.Pairwise (fun p q => p.1 < q.1)) :
    (insertKey kx l).Pairwise (fun p q => p.1 < q.1) := by
  induction l with
  | nil => simp [insertKey]
  | cons q t ih =>
    obtain ⟨k, y⟩ := q
    rw [List.pairwise_cons] at h
    simp only [insertKey]
    split_ifs with h1 h2
    · refine List.pairwise_cons.mpr ⟨?_, List.pairwise_cons.mpr h⟩
      intro p hp
      rcases List.mem_cons.mp hp with rfl | hp
      · exact h1
      · exact lt_trans h1 (h.1 p hp)
    · exact List.pairwise_cons.mpr h
    · refine List.pairwise_cons.mpr ⟨?_, ih h.2⟩
      intro p hp
      rcases mem_insertKey kx p t hp with rfl | hp
      · show k < p.1; omega
      · exact h.1 p hp

theorem insertKey_has_key (kx : ℤ × ℚ) (l : List (ℤ × ℚ)) :
    (∃ p ∈ insertKey kx l, p.1 = kx.1) ∧ ∀ q ∈ l, q ∈ insertKey kx l := by
  induction l with
  | nil => simp [insertKey]
  | cons q t ih =>
    obtain ⟨k, y⟩ := q
    simp only [insertKey]
    split_ifs with h1 h2
    · exact ⟨⟨kx, by simp, rfl⟩, fun q hq => List.mem_cons_of_mem _ hq⟩
    · exact ⟨⟨(k, y), by simp, h2.symm⟩, fun q hq => hq⟩
    · obtain ⟨⟨p, hp, hpk⟩, hall⟩ := ih
      refine ⟨⟨p, List.mem_cons_of_mem _ hp, hpk⟩, ?_⟩
      intro q hq
      rcases List.mem_cons.mp hq with rfl | hq
      · simp
      · exact List.mem_cons_of_mem _ (hall q hq)

/-- **layerCoords_spec**: the layer list is strictly ascending, consists of coordinates of atoms, and every
    atom's rounded coordinate is represented by exactly such an entry. -/
theorem layerCoords_spec (d : ℕ) (xs : List ℚ) :
    (layerCoords d xs).Pairwise (· < ·) ∧ (∀ c ∈ layerCoords d xs, c ∈ xs) ∧
    (∀ x ∈ xs, ∃ c ∈ layerCoords d xs, roundKey d c = roundKey d x) := by
  unfold layerCoords
  have key : ∀ (l : List ℚ) (acc : List (ℤ × ℚ)),
      (acc.Pairwise (fun p q => p.1 < q.1) ∧ (∀ p ∈ acc, p.1 = roundKey d p.2)) →
      let r := l.foldl (fun acc x => insertKey (roundKey d x, x) acc) acc
      (r.Pairwise (fun p q => p.1 < q.1) ∧ (∀ p ∈ r, p.1 = roundKey d p.2)) ∧
      (∀ p ∈ r, p ∈ acc ∨ p.2 ∈ l) ∧ (∀ p ∈ acc, p ∈ r) ∧ (∀ x ∈ l, ∃ p ∈ r, p.1 = roundKey d x) := by
    intro l
    induction l with
    | nil => intro acc h; exact ⟨h, fun p hp => Or.inl hp, fun p hp => hp, by simp⟩
    | cons x t ih =>
      intro acc h
      have h' : (insertKey (roundKey d x, x) acc).Pairwise (fun p q => p.1 < q.1) ∧
          (∀ p ∈ insertKey (roundKey d x, x) acc, p.1 = roundKey d p.2) := by
        refine ⟨insertKey_sorted _ _ h.1, ?_⟩
        intro p hp
        rcases mem_insertKey _ p acc hp with rfl | hp
        · rfl
        · exact h.2 p hp
      obtain ⟨r1, r2, r3, r4⟩ := ih (insertKey (roundKey d x, x) acc) h'
      obtain ⟨⟨p0, hp0, hk0⟩, hall⟩ := insertKey_has_key (roundKey d x, x) acc
      refine ⟨r1, ?_, fun p hp => r3 p (hall p hp), ?_⟩
      · intro p hp
        rcases r2 p hp with hp | hp
        · rcases mem_insertKey _ p acc hp with rfl | hp
          · exact Or.inr (by simp)
          · exact Or.inl hp
        · exact Or.inr (List.mem_cons_of_mem _ hp)
      · intro y hy
        rcases List.mem_cons.mp hy with rfl | hy
        · exact ⟨p0, r3 p0 hp0, hk0⟩
        · exact r4 y hy
  obtain ⟨⟨s1, s2⟩, s3, _, s5⟩ := key xs [] ⟨List.Pairwise.nil, by simp⟩
  refine ⟨?_, ?_, ?_⟩
  · rw [List.pairwise_map]
    refine s1.imp_of_mem ?_
    intro p q hp hq hpq
    rw [s2 p hp, s2 q hq] at hpq
    exact lt_of_roundKey_lt d hpq
  · intro c hc
    simp only [List.mem_map] at hc
    obtain ⟨p, hp, rfl⟩ := hc
    rcases s3 p hp with h | h
    · cases h
    · exact h
  · intro x hx
    obtain ⟨p, hp, hk⟩ := s5 x hx
    exact ⟨p.2, List.mem_map.mpr ⟨p, hp, rfl⟩, by rw [← s2 p hp]; exact hk⟩


/-- **shift_between_planes** for the layer list the code builds from the atoms of the rotated cell (all
    cut coordinates inside one period `[lo, lo + W]`): every offered shift keeps every periodic image of
    every layer representative at least half an interlayer gap away from the cut. -/
theorem shift_between_planes_atoms (d : ℕ) (xs : List ℚ) (W tol lo : ℚ) (hne : xs ≠ [])
    (hbox : ∀ x ∈ xs, lo ≤ x ∧ x ≤ lo + W) (hW0 : 0 < W) (htol : 0 ≤ tol) :
    ∀ s ∈ shifts (layerCoords d xs) W tol, ∃ p q : ℚ,
      (p, q) ∈ consec (withReplica (layerCoords d xs) W tol) ∧ p < q ∧
      (∃ j : ℤ, s = (j : ℚ) * W - (p + q) / 2) ∧
      (∀ c ∈ layerCoords d xs, ∀ m : ℤ, c + s + (m : ℚ) * W ≤ -((q - p) / 2) ∨ (q - p) / 2 ≤ c + s + (m : ℚ) * W) ∧
      (∀ c ∈ layerCoords d xs, ∀ m : ℤ, c + s + (m : ℚ) * W ≠ 0) := by
  obtain ⟨h1, h2, h3⟩ := layerCoords_spec d xs
  have hne' : layerCoords d xs ≠ [] := by
    obtain ⟨x, hx⟩ := List.exists_mem_of_ne_nil xs hne
    obtain ⟨c, hc, _⟩ := h3 x hx
    exact List.ne_nil_of_mem hc
  have hf : (layerCoords d xs).head? = some ((layerCoords d xs).head hne') := List.head?_eq_some_head hne'
  have hl : (layerCoords d xs).getLast? = some ((layerCoords d xs).getLast hne') :=
    List.getLast?_eq_some_getLast hne'
  have b1 := hbox _ (h2 _ (List.head_mem hne'))
  have b2 := hbox _ (h2 _ (List.getLast_mem hne'))
  exact shift_between_planes (layerCoords d xs) W tol _ _ h1 hf hl (by linarith) hW0 htol



/-! ## object level: the clauses after any history of calls (see `Proofs/C14_Object.lean`) -/
section objectClauses
variable {K : Type} [Field K] [LinearOrder K] [IsStrictOrderedRing K]

/-- **fault_history_clauses**: on one `StackingFault` object, after ANY sequence of calls (`surface()` with other
    shifts / multipliers / vacuum / fault planes, refused calls, the `faultpos_*` setters, `set_shift`, earlier
    `fault()` / `iterfaultmap()` calls), a `fault()` call that returns has moved the atoms of the *stored* system
    relative to the plane *in force*: every atom at or below it is only re-wrapped (not moved at all when it is
    inside the periodic directions), every atom above it ends at `p + shift` minus an integer combination of the
    cell vectors that vanishes along every non-periodic direction. -/
theorem fault_history_clauses (st : SFStatic K) (hfl : C05.IsFloor st.fl) (o0 : SFState K) (h0 : Coherent st o0)
    (ops : List (SFOp K)) (a : FaultArgs K) (o' : SFState K) (ps : List (V3 K))
    (hr : faultOp st (sfRun st o0 ops).1 a = (o', .ok ps)) :
    ∃ s fp sh, o'.system = some s ∧ o'.fpCart = some fp ∧ resolveFShift st.cut o' a.fshift = .ok sh ∧
      ps = s.atoms.map (fun x => faultPos s.box s.pbc st.fl st.cut fp sh x.pos) ∧
      (M3.det s.box.vects ≠ 0 → ∀ x ∈ s.atoms,
        (x.pos.get (cutIndex st.cut) ≤ fp →
          faultPos s.box s.pbc st.fl st.cut fp sh x.pos = wrapPos s.box s.pbc st.fl x.pos ∧
          (insidePeriodic s.box s.pbc x.pos → faultPos s.box s.pbc st.fl st.cut fp sh x.pos = x.pos)) ∧
        (fp < x.pos.get (cutIndex st.cut) →
          ∃ n : IV, faultPos s.box s.pbc st.fl st.cut fp sh x.pos + C05.latticeVec s.box.vects n = x.pos + sh ∧
            (s.pbc.x = false → n.x = 0) ∧ (s.pbc.y = false → n.y = 0) ∧ (s.pbc.z = false → n.z = 0))) := by
  obtain ⟨s, fp, sh, e1, e2, e3, e4⟩ := fault_after_history st o0 h0 ops a o' ps hr
  refine ⟨s, fp, sh, e1, e2, e3, ?_, ?_⟩
  · rw [e4]; unfold fault; rw [List.map_map]; rfl
  · intro hdet x _
    refine ⟨fun hb => ?_, fun ha => fault_above_shifted s.box hdet s.pbc st.fl st.cut fp sh x.pos ha⟩
    obtain ⟨b1, _, b3⟩ := fault_below_fixed s.box hdet s.pbc st.fl hfl st.cut fp sh x.pos hb
    exact ⟨b1, b3⟩

/-- **vacuum_same_crystal**: the system built with a vacuum width holds the same atoms at the same Cartesian
    positions as the one built without, with the same pbc and the same in-plane cell vectors: the crystal (the
    positions modulo the periodic in-plane vectors) is the same; only the extent across the non-periodic cut grows. -/
theorem vacuum_same_crystal (st : SFStatic K) (shift : V3 K) (s0 s1 s2 : C04.Size) (v : K) :
    (buildSurface st shift s0 s1 s2 (some v)).atoms = (buildSurface st shift s0 s1 s2 none).atoms ∧
    (buildSurface st shift s0 s1 s2 (some v)).pbc = (buildSurface st shift s0 s1 s2 none).pbc ∧
    (∀ i, i < 3 → i ≠ cutIndex st.cut → (buildSurface st shift s0 s1 s2 (some v)).box.vects.row i
      = (buildSurface st shift s0 s1 s2 none).box.vects.row i) :=
  ⟨rfl, rfl, (vacuum_symmetric st.cut _ v).1⟩

/-- **stored_system_same_crystal**: after ANY history of calls the stored system (if there is one) is non-periodic
    only across the cut and holds, for one shift and three non-zero multipliers, `m_a m_b m_c` copies of every atom
    of the rotated cell — same type and per-atom values — at the original position plus that shift plus a lattice
    vector of the rotated cell (the clause `surface_same_crystal` proves for a single build). -/
theorem stored_system_same_crystal (st : SFStatic K) (hdet : M3.det st.rbox.vects ≠ 0) (hfl : C05.IsFloor st.fl)
    (o0 : SFState K) (h0 : Built st o0) (ops : List (SFOp K)) (s : SurfSys K)
    (hs : (sfRun st o0 ops).1.system = some s) :
    s.pbc = cutPbc st.cut ∧ ∃ (sh : V3 K) (s0 s1 s2 : C04.Size),
      s.atoms.length = s2.mult.toNat * (s1.mult.toNat * (s0.mult.toNat * st.ratoms.length)) ∧
      ∀ a' ∈ s.atoms, ∃ a ∈ st.ratoms, ∃ n : IV, a'.atype = a.atype ∧ a'.extra = a.extra ∧
        a'.pos = a.pos + sh + C05.latticeVec st.rbox.vects n := by
  obtain ⟨sh, s0, s1, s2, vac, m0, m1, m2, rfl⟩ := sfRun_built st ops o0 h0 s hs
  obtain ⟨_, hl, hat⟩ := surface_same_crystal st.rbox hdet s0 s1 s2 m0 m1 m2 st.fl hfl sh st.ratoms
  refine ⟨rfl, sh, s0, s1, s2, hl, ?_⟩
  intro a' ha'
  obtain ⟨a, ha, n, e1, e2, e3, _⟩ := hat a' ha'
  exact ⟨a, ha, n, e1, e2, e3⟩

end objectClauses

/-! ## non-vacuity: the hypotheses of the theorems above are satisfiable (concrete runs of the model) -/

/-- the driver's floor is a floor. -/
theorem isFloor_ratFloor : C05.IsFloor (K := ℚ) Rat.floor :=
  fun s => ⟨Int.floor_le s, Int.lt_floor_add_one s⟩

def exCubic : M3 ℚ := ⟨⟨1, 0, 0⟩, ⟨0, 1, 0⟩, ⟨0, 0, 1⟩⟩
def exTri : M3 ℚ := ⟨⟨2, 0, 0⟩, ⟨1, 3, 0⟩, ⟨1 / 2, 1, 4⟩⟩
def exFccPrim : M3 ℚ := ⟨⟨1, 1, 0⟩, ⟨0, 1, 1⟩, ⟨1, 0, 1⟩⟩
def exId : M3 Int := ⟨⟨1, 0, 0⟩, ⟨0, 1, 0⟩, ⟨0, 0, 1⟩⟩

example : c2p "p" = some exId := rfl
example : M3.det exCubic ≠ 0 ∧ 0 < M3.det exTri ∧ M3.det exFccPrim ≠ 0 := by decide +kernel
-- cubic (111), cut c
example : freeSurfaceBasis exCubic ⟨1, 1, 1⟩ exId .c none
    = .ok (⟨⟨-1, 1, 0⟩, ⟨-1, 0, 1⟩, ⟨1, 1, 1⟩⟩, ⟨1, 1, 1⟩) := by decide +kernel
-- triclinic (210), cut c: the out-of-plane vector is the reduction [100] of a longer candidate
example : freeSurfaceBasis exTri ⟨2, 1, 0⟩ exId .c none
    = .ok (⟨⟨0, 0, 1⟩, ⟨1, -2, 0⟩, ⟨1, 0, 0⟩⟩, ⟨24, 0, -3⟩) := by decide +kernel
-- face-centred setting: (111) of the conventional cell on the primitive fcc cell, cut a
example : ∃ L, c2p "f" = some L ∧ freeSurfaceBasis exFccPrim ⟨1, 1, 1⟩ L .a none
    = .ok (⟨⟨1, 1, 1⟩, ⟨-1, 1, 0⟩, ⟨-1, 0, 1⟩⟩, ⟨4, 4, 4⟩) := ⟨_, rfl, by decide +kernel⟩
-- the relational model accepts the coded answer (and rejects a left-handed variant)
example : Rel.validBasis exCubic ⟨1, 1, 1⟩ exId .c none ⟨⟨-1, 1, 0⟩, ⟨-1, 0, 1⟩, ⟨1, 1, 1⟩⟩ 1 1000000000 = "1" := by
  decide +kernel
example : Rel.validBasis exCubic ⟨1, 1, 1⟩ exId .c none ⟨⟨-1, 1, 0⟩, ⟨1, 0, -1⟩, ⟨1, 1, 1⟩⟩ 1 1000000000 ≠ "1" := by
  decide +kernel
-- the same run at `ℤ` (what the driver executes)
example : freeSurfaceBasis (K := ℤ) ⟨⟨4, 0, 0⟩, ⟨2, 6, 0⟩, ⟨1, 2, 8⟩⟩ ⟨2, 1, 0⟩ exId .c none
    = .ok (⟨⟨0, 0, 1⟩, ⟨1, -2, 0⟩, ⟨1, 0, 0⟩⟩, ⟨96, 0, -12⟩) := by decide +kernel
-- the two refusals
example : freeSurfaceBasis exCubic ⟨0, 0, 0⟩ exId .c none = .error "value" := by decide +kernel
example : freeSurfaceBasis exCubic ⟨3, 1, 0⟩ exId .c (some 1) = .error "assert" := by decide +kernel
-- shifts: two layers at 0 and 1/2 of a cell of width 1
example : ([0, 1 / 2] : List ℚ).Pairwise (· < ·) ∧ ([0, 1 / 2] : List ℚ).head? = some 0 ∧
    ([0, 1 / 2] : List ℚ).getLast? = some (1 / 2) ∧ (1 / 2 : ℚ) ≤ 0 + 1 := by
  refine ⟨by simp, rfl, rfl, by norm_num⟩
example : shifts ([0, 1 / 2] : List ℚ) 1 (1 / 10000000) = [1 / 4, 3 / 4] := by decide +kernel
-- a diamond-like cell with two close layers: three layers, the last one the replica-free case
example : shifts ([0, 1 / 4, 1] : List ℚ) 1 (1 / 10000000) = [3 / 8, 7 / 8] := by decide +kernel
-- fault: an atom above the plane is shifted and wrapped back, one on the plane is not
example : faultPos (⟨exCubic, ⟨0, 0, 0⟩⟩ : Box ℚ) ⟨true, true, false⟩ Rat.floor .c (1 / 2) ⟨3 / 4, 0, 0⟩ ⟨1 / 2, 0, 3 / 4⟩
    = ⟨1 / 4, 0, 3 / 4⟩ := by decide +kernel
example : faultPos (⟨exCubic, ⟨0, 0, 0⟩⟩ : Box ℚ) ⟨true, true, false⟩ Rat.floor .c (1 / 2) ⟨3 / 4, 0, 0⟩ ⟨1 / 2, 0, 1 / 2⟩
    = ⟨1 / 2, 0, 1 / 2⟩ := by decide +kernel
example : insidePeriodic (⟨exCubic, ⟨0, 0, 0⟩⟩ : Box ℚ) ⟨true, true, false⟩ ⟨1 / 2, 0, 3 / 4⟩ := by
  unfold insidePeriodic; decide +kernel
example : layerCoords 7 ([1 / 2, 0, 1 / 2 + 1 / 1000000000, 3 / 4] : List ℚ) = [0, 1 / 2, 3 / 4] := by decide +kernel
example : V3.smul (((2 : ℕ) : ℤ) : ℚ) (⟨1 / 2, 0, 0⟩ : V3 ℚ) = C05.latticeVec exCubic ⟨1, 0, 0⟩ := by decide +kernel
example : orbit (⟨exCubic, ⟨0, 0, 0⟩⟩ : Box ℚ) ⟨true, true, false⟩ Rat.floor ⟨1 / 2, 0, 0⟩ 2 ⟨1 / 4, 0, 3 / 4⟩
    = [⟨1 / 4, 0, 3 / 4⟩, ⟨3 / 4, 0, 3 / 4⟩] := by decide +kernel
-- a cell and a square-root table for which `SqrtOK` holds (hypothesis of `cutCompatible_iff_normalized`)
example : C05.SqrtOK (fun x : ℚ => if x = 4 then 2 else if x = 9 then 3 else 4) ⟨⟨2, 0, 0⟩, ⟨0, 3, 0⟩, ⟨0, 0, 4⟩⟩ := by
  refine ⟨?_, ?_, ?_, ?_, ?_⟩ <;> unfold C05.SqrtAt <;> decide +kernel
example : cutMult 3 (some 5) true = 6 ∧ cutMult (-3) none true = -4 ∧ cutMult (-2) (some 5) false = -5 := by decide
example : pushRadicand .c (5 : ℚ) ⟨3, 0, 1⟩ = 4 * 4 := by decide +kernel

/-- a two-layer cubic cell cut along c as a `StackingFault` object; a history with a rebuild at another shift
    index and a refused setter; `fault()` then uses the plane and mask of the NEW system. -/
def exObj : SFStatic ℚ :=
  ⟨.c, ⟨exCubic, ⟨0, 0, 0⟩⟩, [⟨1, ⟨0, 0, 0⟩, []⟩, ⟨2, ⟨1 / 4, 1 / 4, 1 / 4⟩, []⟩],
   [⟨0, 0, 1 / 8⟩, ⟨0, 0, 3 / 8⟩], exCubic, exId, Rat.floor, 1 / 100000000⟩
def exArgs (i : Int) (m : Int) (fp : FaultPosArg ℚ) : SurfArgs ℚ := ⟨.idx i, .int 1, .int 1, .int m, none, false, none, fp⟩
def exHist : List (SFOp ℚ) := [.surface (exArgs 0 2 (.rel (3 / 4))), .fpRel 2, .surface (exArgs 1 2 .none)]
example : ((sfNew exObj .keep).toOption.map fun o =>
    let r := faultOp exObj (sfRun exObj o exHist).1 ⟨none, none, .none, .coeffs (some (1 / 2)) none none⟩
    (r.1.above, r.1.fpCart, r.2.toOption)) = some (some [false, false, true, true], some 1,
      some [⟨0, 0, 3 / 8⟩, ⟨1 / 4, 1 / 4, 5 / 8⟩, ⟨1 / 2, 0, 11 / 8⟩, ⟨3 / 4, 1 / 4, 13 / 8⟩]) := by decide +kernel
example : ((sfNew exObj .keep).toOption.map fun o =>
    (surfaceBase exObj (sfRun exObj o (exHist.take 2)).1 (exArgs 1 2 .none)).2.toBool) = some true := by decide +kernel
example : ((sfNew exObj .keep).toOption.map fun o => (sfRun exObj o exHist).2.map Except.toBool)
    = some [true, false, true] := by decide +kernel

/-- vacuum on a cell with a tilted cut vector: the hypotheses of `vacuum_rel_cut_c` / `vacuum_inplane_c` hold, and an
    atom inside the cell (`31/32`) gets an in-plane relative coordinate above 1 (`33/32`) while its Cartesian position is unchanged. -/
example : M3.det (⟨⟨2, 0, 0⟩, ⟨0, 2, 0⟩, ⟨1, 0, 2⟩⟩ : M3 ℚ) ≠ 0 ∧
    M3.det (vacuumBox .c (⟨⟨⟨2, 0, 0⟩, ⟨0, 2, 0⟩, ⟨1, 0, 2⟩⟩, ⟨0, 0, 0⟩⟩ : Box ℚ) 2).vects ≠ 0 ∧
    Box.cartToRel (⟨⟨⟨2, 0, 0⟩, ⟨0, 2, 0⟩, ⟨1, 0, 2⟩⟩, ⟨0, 0, 0⟩⟩ : Box ℚ) ⟨43 / 16, 0, 3 / 2⟩ = ⟨31 / 32, 0, 3 / 4⟩ ∧
    Box.cartToRel (vacuumBox .c (⟨⟨⟨2, 0, 0⟩, ⟨0, 2, 0⟩, ⟨1, 0, 2⟩⟩, ⟨0, 0, 0⟩⟩ : Box ℚ) 2) ⟨43 / 16, 0, 3 / 2⟩
      = ⟨33 / 32, 0, 5 / 8⟩ := by decide +kernel

/-! ### every atom (not only the layer representatives), and the built system -/
section between

/-- two coordinates with the same rounded key `round(x, d)` differ by at most `10^-d`. -/
theorem roundKey_close (d : ℕ) (x c : ℚ) (h : roundKey d c = roundKey d x) :
    |x - c| ≤ 1 / ((10 ^ d : ℕ) : ℚ) := by
  unfold roundKey at h
  have htpos : (0 : ℚ) < ((10 ^ d : ℕ) : ℚ) := by positivity
  generalize ((10 ^ d : ℕ) : ℚ) = t at h htpos
  have fx1 := Int.floor_le (x * t)
  have fx2 := Int.lt_floor_add_one (x * t)
  have fc1 := Int.floor_le (c * t)
  have fc2 := Int.lt_floor_add_one (c * t)
  have key : |x * t - c * t| ≤ 1 := by
    rw [abs_le]
    rcases roundHalfEven_bounds (x * t) with ⟨e1, l1⟩ | ⟨e1, l1⟩ <;>
      rcases roundHalfEven_bounds (c * t) with ⟨e2, l2⟩ | ⟨e2, l2⟩ <;>
      (rw [e1, e2] at h
       have hq := congrArg (fun z : ℤ => (z : ℚ)) h
       (try simp only [Int.cast_add, Int.cast_one] at hq)
       constructor <;> linarith)
  have : |x - c| * t ≤ 1 := by
    have e : |x - c| * t = |x * t - c * t| := by
      rw [← sub_mul, abs_mul, abs_of_pos htpos]
    rw [e]; exact key
  rw [le_div_iff₀ htpos]; exact this

/-- **shift_between_planes for EVERY atom** (not only the layer representatives the code keeps): after an offered
    shift every periodic image of every atom of the rotated cell is at least half the interlayer gap minus the
    rounding step `10^-numdec` away from the cut. -/
theorem shift_between_planes_all_atoms (d : ℕ) (xs : List ℚ) (W tol lo : ℚ) (hne : xs ≠ [])
    (hbox : ∀ x ∈ xs, lo ≤ x ∧ x ≤ lo + W) (hW0 : 0 < W) (htol : 0 ≤ tol) :
    ∀ s ∈ shifts (layerCoords d xs) W tol, ∃ p q : ℚ,
      (p, q) ∈ consec (withReplica (layerCoords d xs) W tol) ∧ p < q ∧
      ∀ x ∈ xs, ∀ m : ℤ,
        x + s + (m : ℚ) * W ≤ -((q - p) / 2 - 1 / ((10 ^ d : ℕ) : ℚ)) ∨
        (q - p) / 2 - 1 / ((10 ^ d : ℕ) : ℚ) ≤ x + s + (m : ℚ) * W := by
  intro s hs
  obtain ⟨p, q, hpq, hlt, _, hall, _⟩ := shift_between_planes_atoms d xs W tol lo hne hbox hW0 htol s hs
  refine ⟨p, q, hpq, hlt, ?_⟩
  intro x hx m
  obtain ⟨c, hc, hk⟩ := (layerCoords_spec d xs).2.2 x hx
  have hcl := abs_le.mp (roundKey_close d x c hk)
  rcases hall c hc m with h | h
  · left; linarith [hcl.2]
  · right; linarith [hcl.1]

/-- **end to end, the built system**: `surface()` called with an offered shift (any size multipliers, cut c of a
    LAMMPS-normal rotated cell: `a_z = b_z = 0`, `c_z = W`) returns a system in which EVERY atom is at least half an
    interlayer gap (minus the rounding step) away from EVERY plane `z = j W` — in particular from both faces of the slab,
    which are such planes: the cut runs strictly between atomic planes. -/
theorem surface_cut_between_planes (rbox : Box ℚ) (hdet : M3.det rbox.vects ≠ 0) (sa sb sc : C04.Size)
    (ha : sa.mult ≠ 0) (hb : sb.mult ≠ 0) (hc : sc.mult ≠ 0) (fl : ℚ → Int) (hfl : C05.IsFloor fl)
    (atoms : List (C04.Atom ℚ)) (hne : atoms ≠ []) (d : ℕ) (tol W lo : ℚ) (hW0 : 0 < W) (htol : 0 ≤ tol)
    (hflat0 : rbox.vects.r0.z = 0) (hflat1 : rbox.vects.r1.z = 0) (hW : rbox.vects.r2.z = W)
    (hbox : ∀ a ∈ atoms, lo ≤ a.pos.z ∧ a.pos.z ≤ lo + W) (shift : V3 ℚ)
    (hs : shift.z ∈ shifts (layerCoords d (atoms.map (·.pos.z))) W tol) :
    ∃ p q : ℚ, (p, q) ∈ consec (withReplica (layerCoords d (atoms.map (·.pos.z))) W tol) ∧ p < q ∧
      ∀ a' ∈ (surfaceAtoms rbox sa sb sc fl shift atoms).2, ∀ j : ℤ,
        a'.pos.z - (j : ℚ) * W ≤ -((q - p) / 2 - 1 / ((10 ^ d : ℕ) : ℚ)) ∨
        (q - p) / 2 - 1 / ((10 ^ d : ℕ) : ℚ) ≤ a'.pos.z - (j : ℚ) * W := by
  have hne' : atoms.map (·.pos.z) ≠ [] := by
    intro h; exact hne (List.map_eq_nil_iff.mp h)
  have hbox' : ∀ x ∈ atoms.map (·.pos.z), lo ≤ x ∧ x ≤ lo + W := by
    intro x hx
    obtain ⟨a, ha, rfl⟩ := List.mem_map.mp hx
    exact hbox a ha
  obtain ⟨p, q, hpq, hlt, hall⟩ :=
    shift_between_planes_all_atoms d (atoms.map (·.pos.z)) W tol lo hne' hbox' hW0 htol shift.z hs
  refine ⟨p, q, hpq, hlt, ?_⟩
  intro a' ha' j
  obtain ⟨_, _, h3⟩ := surface_same_crystal rbox hdet sa sb sc ha hb hc fl hfl shift atoms
  obtain ⟨a, ha, n, _, _, hpos, _⟩ := h3 a' ha'
  have hz : a'.pos.z = a.pos.z + shift.z + (n.z : ℚ) * W := by
    rw [hpos]
    simp only [C05.latticeVec, M3.vecMul, C05.V3.add_def, hflat0, hflat1, hW, mul_zero, zero_add]
  have h := hall a.pos.z (List.mem_map.mpr ⟨a, ha, rfl⟩) (n.z - j)
  rw [hz]
  rw [Int.cast_sub, sub_mul] at h
  rcases h with h | h
  · left; linarith
  · right; linarith

/-- the same for each of the three cut vectors: the rotated cell only has to be flat across the cut (the other two cell
    vectors have no component along the cut axis — what `FreeSurface.__init__` checks, `gen_cutRefuses_iff`). -/
theorem surface_cut_between_planes_any (cut : Cut) (rbox : Box ℚ) (hdet : M3.det rbox.vects ≠ 0) (sa sb sc : C04.Size)
    (ha : sa.mult ≠ 0) (hb : sb.mult ≠ 0) (hc : sc.mult ≠ 0) (fl : ℚ → Int) (hfl : C05.IsFloor fl)
    (atoms : List (C04.Atom ℚ)) (hne : atoms ≠ []) (d : ℕ) (tol W lo : ℚ) (hW0 : 0 < W) (htol : 0 ≤ tol)
    (hflat : ¬ Gen.C14.cutRefuses cut rbox.vects) (hW : (rbox.vects.row (cutIndex cut)).get (cutIndex cut) = W)
    (hbox : ∀ a ∈ atoms, lo ≤ a.pos.get (cutIndex cut) ∧ a.pos.get (cutIndex cut) ≤ lo + W) (shift : V3 ℚ)
    (hs : shift.get (cutIndex cut) ∈ shifts (layerCoords d (atoms.map (·.pos.get (cutIndex cut)))) W tol) :
    ∃ p q : ℚ, (p, q) ∈ consec (withReplica (layerCoords d (atoms.map (·.pos.get (cutIndex cut)))) W tol) ∧ p < q ∧
      ∀ a' ∈ (surfaceAtoms rbox sa sb sc fl shift atoms).2, ∀ j : ℤ,
        a'.pos.get (cutIndex cut) - (j : ℚ) * W ≤ -((q - p) / 2 - 1 / ((10 ^ d : ℕ) : ℚ)) ∨
        (q - p) / 2 - 1 / ((10 ^ d : ℕ) : ℚ) ≤ a'.pos.get (cutIndex cut) - (j : ℚ) * W := by
  have hne' : atoms.map (·.pos.get (cutIndex cut)) ≠ [] := by
    intro h; exact hne (List.map_eq_nil_iff.mp h)
  have hbox' : ∀ x ∈ atoms.map (·.pos.get (cutIndex cut)), lo ≤ x ∧ x ≤ lo + W := by
    intro x hx
    obtain ⟨a, ha, rfl⟩ := List.mem_map.mp hx
    exact hbox a ha
  obtain ⟨p, q, hpq, hlt, hall⟩ :=
    shift_between_planes_all_atoms d (atoms.map (·.pos.get (cutIndex cut))) W tol lo hne' hbox' hW0 htol _ hs
  refine ⟨p, q, hpq, hlt, ?_⟩
  intro a' ha' j
  obtain ⟨_, _, h3⟩ := surface_same_crystal rbox hdet sa sb sc ha hb hc fl hfl shift atoms
  obtain ⟨a, ha, n, _, _, hpos, _⟩ := h3 a' ha'
  have hfl' := (gen_cutRefuses_iff cut rbox.vects).mp hflat
  have hz : a'.pos.get (cutIndex cut) = a.pos.get (cutIndex cut) + shift.get (cutIndex cut)
      + ((n.get (cutIndex cut) : ℤ) : ℚ) * W := by
    rw [hpos]
    cases cut <;>
      simp only [cutIndex, V3.get, M3.row, C05.latticeVec, M3.vecMul, C05.V3.add_def, if_true, if_false,
        Nat.one_ne_zero, OfNat.ofNat_ne_zero, OfNat.ofNat_ne_one, reduceCtorEq] at hW hfl' ⊢ <;>
      (obtain ⟨f1, f2⟩ := hfl'; rw [f1, f2, hW]; ring)
  have h := hall (a.pos.get (cutIndex cut)) (List.mem_map.mpr ⟨a, ha, rfl⟩) (n.get (cutIndex cut) - j)
  rw [hz]
  rw [Int.cast_sub, sub_mul] at h
  rcases h with h | h
  · left; linarith
  · right; linarith

end between

/-! ### the generated cut check against the model; the object level end to end -/
section
variable {K : Type} [Field K] [LinearOrder K] [IsStrictOrderedRing K]

/-- **the generated refusal test is the model's**: on the LAMMPS-normal cell C05's `abcBox?` builds from the rotated cell,
    the test `FreeSurface.__init__` codes (regenerated from the source) refuses exactly when `cutCompatible` says no, for
    each of the three cut vectors (cut c is never refused). -/
theorem gen_cutRefuses_eq_model (sqrt : K → K) (v : M3 K) (hs : C05.SqrtOK sqrt v) :
    ∃ b2 : Box K, C05.abcBox? sqrt v = some b2 ∧
      ∀ cut : Cut, (Gen.C14.cutRefuses cut b2.vects ↔ cutCompatible cut v.r0 v.r1 v.r2 = false) := by
  obtain ⟨b2, h0, ha, hb, hc⟩ := cutCompatible_iff_normalized sqrt v hs
  refine ⟨b2, h0, ?_⟩
  intro cut
  rw [← Bool.not_eq_true]
  cases cut
  · exact (not_iff_comm.mp ((gen_cutRefuses_iff .a b2.vects).trans ha.symm)).symm
  · exact (not_iff_comm.mp ((gen_cutRefuses_iff .b b2.vects).trans hb.symm)).symm
  · have h1 : ¬ Gen.C14.cutRefuses .c b2.vects := (gen_cutRefuses_iff .c b2.vects).mpr ⟨hc.2.1, hc.2.2⟩
    constructor
    · intro h; exact absurd h h1
    · intro h; exact absurd hc.1 h
end

-- hypotheses of `surface_cut_between_planes(_any)`: a two-layer cell (`z = 0, 1/4`, `W = 1`) offers the shifts 3/8 and 7/8
example : shifts (layerCoords 7 ([0, 1 / 4] : List ℚ)) 1 (1 / 10000000) = [3 / 8, 7 / 8] ∧
    ¬ Gen.C14.cutRefuses .c exCubic ∧ roundKey 7 (1 / 4 + 1 / 1000000000) = roundKey 7 (1 / 4) := by
  refine ⟨by decide +kernel, ?_, by decide +kernel⟩
  simp [Gen.C14.cutRefuses, exCubic]

def errOf {α : Type} : Except String α → Option String
  | .error e => some e
  | .ok _ => none

/-- the entry point and the generated routine on concrete calls: the cubic `(1 1 1)` call returns, the four-index form is refused on a
    non-hexagonal box and accepted (converted; refused when `h + k + i ≠ 0`) on a box flagged hexagonal, Miller-Bravais output is
    refused on a non-hexagonal box, an unknown centring key and the zero plane are refused; the generated routine agrees. -/
example : (fsbEntry exCubic [1, 1, 1] false none "p" .c none).toBool = true ∧
    errOf (fsbEntry exCubic [1, 1, -2, 1] false none "p" .c none) = some "value" ∧
    (fsbEntry exTri [1, 1, -2, 1] true none "p" .b none).toBool = true ∧
    errOf (fsbEntry exTri [1, 1, -1, 1] true none "p" .b none) = some "value" ∧
    errOf (fsbEntry exCubic [1, 1, 1] false (some true) "p" .c none) = some "value" ∧
    errOf (fsbEntry exCubic [1, 1, 1] false none "q" .c none) = some "value" ∧
    errOf (fsbEntry exCubic [0, 0, 0] false none "p" .c none) = some "value" ∧
    (fsbEntry exFccPrim [1, 1, 1] false none "f" .a (some 1)).toBool = true := by decide +kernel
example : ((Gen.C14.basisABC exTri ⟨2, 1, 0⟩ exId none).toOption.bind fun r => Gen.C14.orderRows? "b" r.a r.b r.c)
    = ((freeSurfaceBasis exTri ⟨2, 1, 0⟩ exId .b none).toOption.map (·.1)) ∧
    ((Gen.C14.basisABC exTri ⟨2, 1, 0⟩ exId none).toOption.bind fun r => Gen.C14.orderRows? "b" r.a r.b r.c).isSome = true := by
  decide +kernel
example : Gen.C14.cutMult 3 (some 5) true = 6 ∧ Gen.C14.cutMult (-3) none true = -4 ∧
    Gen.C14.shifts ([0, 1 / 2] : List ℚ) 1 (1 / 10000000) = [1 / 4, 3 / 4] ∧
    Gen.C14.resolveFShift (some (1 / 2 : ℚ)) none none none ⟨1, 0, 0⟩ ⟨0, 1, 0⟩ .c = .ok ⟨1 / 2, 0, 0⟩ := by decide +kernel

/-! ## statement audit: the new theorems instantiated with every hypothesis discharged -/
section audit

private def audAtoms : List (C04.Atom ℚ) :=
  [⟨1, ⟨0, 0, 0⟩, []⟩, ⟨2, ⟨1 / 2, 1 / 2, 1 / 4⟩, [7]⟩, ⟨1, ⟨1 / 4, 0, 1 / 4 + 1 / 1000000000⟩, []⟩]

-- `roundKey_close`
example : |(1 / 4 + 1 / 1000000000 : ℚ) - 1 / 4| ≤ 1 / ((10 ^ 7 : ℕ) : ℚ) :=
  roundKey_close 7 _ _ (by decide +kernel)
-- `shift_between_planes_all_atoms`: three atoms in two layers (one atom 1e-9 off its layer), the offered shift 3/8
example : ∃ p q : ℚ, (p, q) ∈ consec (withReplica (layerCoords 7 [0, 1 / 4, 1 / 4 + 1 / 1000000000]) 1 (1 / 10000000)) ∧ p < q ∧
    ∀ x ∈ ([0, 1 / 4, 1 / 4 + 1 / 1000000000] : List ℚ), ∀ m : ℤ,
      x + 3 / 8 + (m : ℚ) * 1 ≤ -((q - p) / 2 - 1 / ((10 ^ 7 : ℕ) : ℚ)) ∨
      (q - p) / 2 - 1 / ((10 ^ 7 : ℕ) : ℚ) ≤ x + 3 / 8 + (m : ℚ) * 1 :=
  shift_between_planes_all_atoms 7 [0, 1 / 4, 1 / 4 + 1 / 1000000000] 1 (1 / 10000000) 0 (by decide)
    (by decide +kernel) (by norm_num) (by norm_num) (3 / 8) (by decide +kernel)
-- `surface_cut_between_planes`: the same layers as atoms of a cubic rotated cell, 2 x 2 x 3 supercell (tuple multiplier along b)
example : ∃ p q : ℚ, (p, q) ∈ consec (withReplica (layerCoords 7 (audAtoms.map (·.pos.z))) 1 (1 / 10000000)) ∧ p < q ∧
    ∀ a' ∈ (surfaceAtoms ⟨exCubic, ⟨0, 0, 0⟩⟩ ⟨0, 2⟩ ⟨-1, 1⟩ ⟨0, 3⟩ Rat.floor ⟨0, 0, 3 / 8⟩ audAtoms).2, ∀ j : ℤ,
      a'.pos.z - (j : ℚ) * 1 ≤ -((q - p) / 2 - 1 / ((10 ^ 7 : ℕ) : ℚ)) ∨
      (q - p) / 2 - 1 / ((10 ^ 7 : ℕ) : ℚ) ≤ a'.pos.z - (j : ℚ) * 1 :=
  surface_cut_between_planes ⟨exCubic, ⟨0, 0, 0⟩⟩ (by decide +kernel) ⟨0, 2⟩ ⟨-1, 1⟩ ⟨0, 3⟩ (by decide) (by decide) (by decide)
    Rat.floor isFloor_ratFloor audAtoms (by decide) 7 (1 / 10000000) 1 0 (by norm_num) (by norm_num)
    (by decide +kernel) (by decide +kernel) (by decide +kernel) (by decide +kernel) ⟨0, 0, 3 / 8⟩ (by decide +kernel)
-- `surface_cut_between_planes_any`: cut vector a of a tilted cell whose b, c have no x component
example : ∃ p q : ℚ, (p, q) ∈ consec (withReplica (layerCoords 7 ([⟨1, ⟨0, 0, 0⟩, []⟩, ⟨2, ⟨1 / 2, 1, 1⟩, []⟩].map
      (fun a : C04.Atom ℚ => a.pos.get (cutIndex .a)))) 2 (1 / 10000000)) ∧ p < q ∧
    ∀ a' ∈ (surfaceAtoms ⟨⟨⟨2, 1, 1⟩, ⟨0, 3, 0⟩, ⟨0, 1, 4⟩⟩, ⟨0, 0, 0⟩⟩ ⟨0, 2⟩ ⟨0, 1⟩ ⟨-1, 0⟩ Rat.floor ⟨3 / 4, 0, 0⟩
        [⟨1, ⟨0, 0, 0⟩, []⟩, ⟨2, ⟨1 / 2, 1, 1⟩, []⟩]).2, ∀ j : ℤ,
      a'.pos.get (cutIndex .a) - (j : ℚ) * 2 ≤ -((q - p) / 2 - 1 / ((10 ^ 7 : ℕ) : ℚ)) ∨
      (q - p) / 2 - 1 / ((10 ^ 7 : ℕ) : ℚ) ≤ a'.pos.get (cutIndex .a) - (j : ℚ) * 2 :=
  surface_cut_between_planes_any .a ⟨⟨⟨2, 1, 1⟩, ⟨0, 3, 0⟩, ⟨0, 1, 4⟩⟩, ⟨0, 0, 0⟩⟩ (by decide +kernel) ⟨0, 2⟩ ⟨0, 1⟩ ⟨-1, 0⟩
    (by decide) (by decide) (by decide) Rat.floor isFloor_ratFloor [⟨1, ⟨0, 0, 0⟩, []⟩, ⟨2, ⟨1 / 2, 1, 1⟩, []⟩] (by decide)
    7 (1 / 10000000) 2 0 (by norm_num) (by norm_num)
    (by simp [Gen.C14.cutRefuses]) (by decide +kernel) (by decide +kernel) ⟨3 / 4, 0, 0⟩ (by decide +kernel)
-- `cart_cross_of_icross_zero`: parallel integer vectors in a triclinic cell
example : V3.cross (cart exTri ⟨1, 2, 3⟩) (cart exTri ⟨2, 4, 6⟩) = ⟨0, 0, 0⟩ :=
  cart_cross_of_icross_zero exTri ⟨1, 2, 3⟩ ⟨2, 4, 6⟩ (by decide +kernel)
-- `c16_normalOf_eq`: plane (0 0 2) of the triclinic cell, in-plane vectors a, b of the cell (num/den = 1/2)
example : C16.normalOf exTri ⟨1, 0, 0⟩ ⟨0, 1, 0⟩ 1 = V3.smul (((1 : ℤ) : ℚ) / (2 : ℤ) * M3.det exTri) (C16.recipVector exTri 0 0 2) :=
  c16_normalOf_eq exTri ⟨1, 0, 0⟩ ⟨0, 1, 0⟩ 1 1 2 0 0 2 (by norm_num) (by decide +kernel) (by decide +kernel)
-- `c04_replicaPos_eq`: non-zero multipliers in the triclinic cell
example : M3.det exTri ≠ 0 ∧ ((((⟨-1, 1⟩ : C04.Size).mult : Int) : ℚ)) ≠ 0 := by decide +kernel

end audit

section audit2
/-- `fault_orbit_restores`, every hypothesis discharged: cubic cell periodic in x and y only, cut c, fault plane z = 1/2,
    shift t = (1/2, 0, 0) (half an in-plane lattice vector: M = 2), a crystal made of two orbits (one below, one above the
    plane), listed in a different order than the orbits. -/
example : (fault (⟨exCubic, ⟨0, 0, 0⟩⟩ : Box ℚ) ⟨true, true, false⟩ Rat.floor .c (1 / 2) ⟨1 / 2, 0, 0⟩
      [⟨3 / 4, 0, 3 / 4⟩, ⟨0, 1 / 2, 1 / 4⟩, ⟨1 / 4, 0, 3 / 4⟩, ⟨1 / 2, 1 / 2, 1 / 4⟩]).Perm
    [⟨3 / 4, 0, 3 / 4⟩, ⟨0, 1 / 2, 1 / 4⟩, ⟨1 / 4, 0, 3 / 4⟩, ⟨1 / 2, 1 / 2, 1 / 4⟩] :=
  fault_orbit_restores (⟨exCubic, ⟨0, 0, 0⟩⟩ : Box ℚ) (by decide +kernel) ⟨true, true, false⟩ Rat.floor isFloor_ratFloor .c (1 / 2)
    ⟨1 / 2, 0, 0⟩ 2 ⟨1, 0, 0⟩ (by decide +kernel) (by decide) (by decide) (by decide) (by decide)
    (by decide +kernel) (by decide +kernel)
    [⟨1 / 4, 0, 3 / 4⟩, ⟨0, 1 / 2, 1 / 4⟩] _ (by decide +kernel)
-- the shift really moves the upper atoms (the instance is not the trivial shift)
example : fault (⟨exCubic, ⟨0, 0, 0⟩⟩ : Box ℚ) ⟨true, true, false⟩ Rat.floor .c (1 / 2) ⟨1 / 2, 0, 0⟩
      [⟨3 / 4, 0, 3 / 4⟩, ⟨0, 1 / 2, 1 / 4⟩] = [⟨1 / 4, 0, 3 / 4⟩, ⟨0, 1 / 2, 1 / 4⟩] := by decide +kernel
end audit2

end Atomman.C14
