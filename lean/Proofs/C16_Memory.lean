/-
  C16 — the CALLER's memory (`Atomman.C16.Mem`): the functions of the property do not write into their arguments,
  and what they return is a new array every time.

  In the functional model all of this is TRUE BY CONSTRUCTION: `Mem.call` is defined to append the value `f x`
  and to leave every existing cell alone, and a Lean function `f : α → Except Err α` has nothing it could write
  into.  The theorems below only spell out what that definition gives for HISTORIES (call → the caller overwrites
  arrays in place → the identical call again), for every `f` — so in particular for each function of this
  property.  What they are worth for the real code is decided by the correspondence (`_corr_memory` in
  harness/props/c16.py), which runs the same histories on real numpy arrays and on this model and compares the
  whole memory after each step.
-/
import Atomman.C16

namespace Atomman.C16
namespace Mem
variable {α : Type}

theorem size_alloc (m : Mem α) (v : α) : (m.alloc v).1.size = m.size + 1 := by
  simp [alloc, size]

theorem size_scribble (m : Mem α) (a : Nat) (v : α) : (m.scribble a v).size = m.size := by
  simp [scribble, size]

theorem size_call_le (m : Mem α) (f : α → Except Err α) (src : Nat) : m.size ≤ (m.call f src).1.size := by
  unfold call
  split
  · exact Nat.le_refl _
  · split
    · simp [size]
    · exact Nat.le_refl _

theorem size_callConst_le (m : Mem α) (r : Except Err α) : m.size ≤ (m.callConst r).1.size := by
  cases r <;> simp [callConst, size]

/-- the memory only grows: addresses handed out stay in use, so a later result never gets the address of an
    earlier one. -/
theorem size_step_le (m : Mem α) (op : Op α) : m.size ≤ (m.step op).size := by
  cases op with
  | alloc v => simp [step, size_alloc]
  | scribble a v => simp [step, size_scribble]
  | call f src => exact size_call_le m f src
  | callConst r => exact size_callConst_le m r

theorem size_run_le (m : Mem α) (ops : List (Op α)) : m.size ≤ (m.run ops).size := by
  induction ops generalizing m with
  | nil => simp [run]
  | cons op ops ih =>
    have h := ih (m.step op)
    have h2 := size_step_le m op
    simp only [run, List.foldl_cons] at h ⊢
    exact Nat.le_trans h2 h

/-- (a) a call does not modify its input — nor any other array the caller holds. -/
theorem call_frame (m : Mem α) (f : α → Except Err α) (src a : Nat) (ha : a < m.size) :
    (m.call f src).1.get? a = m.get? a := by
  unfold call
  split
  · rfl
  · split
    · simp only [get?, size] at ha ⊢
      exact List.getElem?_append_left ha
    · rfl

theorem callConst_frame (m : Mem α) (r : Except Err α) (a : Nat) (ha : a < m.size) :
    (m.callConst r).1.get? a = m.get? a := by
  cases r with
  | ok r =>
    simp only [callConst, get?, size] at ha ⊢
    exact List.getElem?_append_left ha
  | error e => rfl

/-- the value returned is `f` of the CONTENTS of the argument, whatever else is in memory, and it is stored at a
    FRESH address (`m.size`: no array in use has it). -/
theorem call_result (m : Mem α) (f : α → Except Err α) (src : Nat) (x r : α)
    (hx : m.get? src = some x) (hf : f x = .ok r) :
    (m.call f src).2 = some (.ok (m.size, r)) ∧ (m.call f src).1.get? m.size = some r ∧
      (m.call f src).1.size = m.size + 1 := by
  unfold call
  rw [hx]
  simp only [hf]
  refine ⟨trivial, ?_, ?_⟩
  · simp [get?, size]
  · simp [size]

/-- a call that raises leaves the memory as it was. -/
theorem call_error (m : Mem α) (f : α → Except Err α) (src : Nat) (x : α) (e : Err)
    (hx : m.get? src = some x) (hf : f x = .error e) : (m.call f src).1 = m := by
  unfold call
  simp only [hx, hf]

/-- one step changes the array at `a` only if it is the caller's own write to `a`. -/
theorem step_frame (m : Mem α) (op : Op α) (a : Nat) (ha : a < m.size) (hw : op.writes a = false) :
    (m.step op).get? a = m.get? a := by
  cases op with
  | alloc v =>
    simp only [step, alloc, get?, size] at ha ⊢
    exact List.getElem?_append_left ha
  | scribble b v =>
    simp only [Op.writes, beq_eq_false_iff_ne, ne_eq] at hw
    simp only [step, scribble, get?]
    exact List.getElem?_set_ne hw
  | call f src => exact call_frame m f src a ha
  | callConst r => exact callConst_frame m r a ha

/-- after ANY history of allocations, calls of ANY functions on ANY arguments (the array at `a` included) and
    caller writes to OTHER arrays, the array at `a` holds what it held. -/
theorem run_frame (m : Mem α) (ops : List (Op α)) (a : Nat) (ha : a < m.size)
    (hw : ∀ op ∈ ops, op.writes a = false) : (m.run ops).get? a = m.get? a := by
  induction ops generalizing m with
  | nil => rfl
  | cons op ops ih =>
    have h1 := step_frame m op a ha (hw op (by simp))
    have h2 := ih (m.step op) (Nat.lt_of_lt_of_le ha (size_step_le m op)) (fun o ho => hw o (by simp [ho]))
    simp only [run, List.foldl_cons] at h2 ⊢
    rw [h2, h1]

/-- (b) outputs are fresh: call, then let the caller overwrite the RESULT (address `m.size`) — or anything else
    but the argument — and call any other functions in between; the identical call gives the identical value
    again, at yet another address. -/
theorem call_scribble_call (m : Mem α) (f : α → Except Err α) (src : Nat) (x r : α)
    (hx : m.get? src = some x) (hf : f x = .ok r) (ops : List (Op α))
    (hw : ∀ op ∈ ops, op.writes src = false) :
    let m1 := (m.call f src).1
    let m2 := m1.run ops
    (m2.call f src).2 = some (.ok (m2.size, r)) ∧ m.size < m2.size := by
  intro m1 m2
  have hs : src < m.size := by
    simp only [get?] at hx
    have := List.getElem?_eq_some_iff.mp hx
    exact this.1
  have h1 : m1.size = m.size + 1 := (call_result m f src x r hx hf).2.2
  have hs1 : src < m1.size := by omega
  have hx1 : m1.get? src = some x := by
    have := call_frame m f src src hs
    simp only [m1]
    rw [this, hx]
  have hx2 : m2.get? src = some x := by
    have := run_frame m1 ops src hs1 hw
    simp only [m2]
    rw [this, hx1]
  refine ⟨(call_result m2 f src x r hx2 hf).1, ?_⟩
  have := size_run_le m1 ops
  simp only [m2]
  omega

/-- (c) two results of identical calls are two arrays: their addresses differ (so a write to one is not a write
    to the other: `step_frame`). -/
theorem two_results_distinct (m : Mem α) (f : α → Except Err α) (src : Nat) (x r : α)
    (hx : m.get? src = some x) (hf : f x = .ok r) :
    let m1 := (m.call f src).1
    (m.call f src).2 = some (.ok (m.size, r)) ∧ (m1.call f src).2 = some (.ok (m.size + 1, r)) := by
  intro m1
  have h := call_scribble_call m f src x r hx hf [] (by simp)
  simp only [run, List.foldl_nil] at h
  have h1 : m1.size = m.size + 1 := (call_result m f src x r hx hf).2.2
  refine ⟨(call_result m f src x r hx hf).1, ?_⟩
  have := h.1
  simp only [m1] at h1 ⊢
  rw [this, h1]

/-- non-vacuity: a three-step history on a concrete memory. -/
example : let m : Mem (List Int) := (Mem.empty.alloc [2, 4, -6]).1
    let f : List Int → Except Err (List Int) := reduceIndices
    let m1 := (m.call f 0).1
    let m2 := m1.scribble 1 [9, 9, 9]
    (m2.call f 0).2 = some (.ok (2, [1, 2, -3])) ∧ m2.get? 0 = some [2, 4, -6] := by
  intro m f m1 m2
  exact ⟨rfl, rfl⟩

end Mem

/-! ### arrays of planes: one row that is no (integer) plane rejects the whole array -/

/-- the array is accepted iff every row is accepted on its own — however many rows, whatever the others are. -/
theorem planeArr_ok_iff (rtol atol gatol : Rat) (isHex : Bool) (V : M3 Rat) (rows : List (List Rat)) :
    (planeArr rtol atol gatol isHex V rows).toBool = true ↔
      ∀ r ∈ rows, (planeRow rtol atol gatol isHex V r).toBool = true := by
  unfold planeArr
  split
  · rename_i h
    simp only [Except.toBool, true_iff]
    exact List.all_eq_true.mp h
  · rename_i h
    simp only [Except.toBool, Bool.false_eq_true, false_iff]
    intro hall
    exact h (List.all_eq_true.mpr hall)

/-- an accepted array holds, row by row and in order, what each row gives on its own. -/
theorem planeArr_rows (rtol atol gatol : Rat) (isHex : Bool) (V : M3 Rat) (rows : List (List Rat))
    (out : List (V3 Rat)) (h : planeArr rtol atol gatol isHex V rows = .ok out) :
    rows.map (planeRow rtol atol gatol isHex V) = out.map .ok := by
  unfold planeArr at h
  split at h
  · rename_i hall
    have hall' := List.all_eq_true.mp hall
    injection h with h
    subst h
    clear hall
    induction rows with
    | nil => rfl
    | cons r rs ih =>
      have hr := hall' r (by simp)
      have ih' := ih (fun x hx => hall' x (by simp [hx]))
      cases hrow : planeRow rtol atol gatol isHex V r with
      | error e => simp [hrow, Except.toBool] at hr
      | ok n =>
        simp only [List.map_cons, List.filterMap_cons, hrow, List.cons.injEq, true_and]
        exact ih'
  · cases h

/-- the zero index vector is no plane, alone or as a row. -/
theorem planeRow_zero (rtol atol gatol : Rat) (isHex : Bool) (V : M3 Rat) :
    (planeRow rtol atol gatol isHex V [0, 0, 0]).toBool = false := by
  unfold planeRow
  split
  · simp [planeCrystalToCartesianUnnorm, planeNormalUnnorm, planeInPlane, truncRat, Except.toBool]
  · rfl

end Atomman.C16
