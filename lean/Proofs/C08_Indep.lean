/-
  C08 — the loader against C07's independent POSCAR reader: on every file the writer emits both describe the same
  system (C07: `parsePoscar_writePoscar`; here: `loadPoscar_writePoscar`).
-/
import Proofs.C08_Poscar
import Proofs.C08_Formats
import Proofs.C07_Poscar
namespace Atomman.C08
open Atomman Atomman.C07
set_option linter.unusedSimpArgs false


/-- the system a POSCAR file describes, built from the result of C07's independent reader (VASP semantics):
    cell = the (scaled) lattice with origin 0, types `1, 2, …` by the counts, positions as the reader computed them. -/
def loadedOfParsed (pp : ParsedPoscar) (symArg : Option (List (Option String))) : Loaded :=
  { (Loaded.init ⟨pp.lattice, ⟨0, 0, 0⟩⟩ ⟨true, true, true⟩ (pp.counts.foldr (· + ·) 0)
      (symArg.getD (match pp.symbols with
        | some l => l.map fun t => some (String.ofList t)
        | none => pp.counts.map fun _ => none)) []) with
    props := [{ name := "atype", shape := [], isInt := true, vals := (atypeOfCounts pp.counts).map fun (t : Int) => [(t : ℚ)] },
              { name := "pos", shape := [3], isInt := false, vals := pp.pos.map fun p => [p.x, p.y, p.z] }] }

theorem vecMul_add_zero (v : V3 ℚ) (m : M3 ℚ) : M3.vecMul v m + (⟨0, 0, 0⟩ : V3 ℚ) = M3.vecMul v m := by
  show V3.add _ _ = _
  simp [V3.add]

theorem poscarLoaded_eq_ofParsed (f : Fmt) (header : List String) (symbols : Option (List String)) (coordstyle : String)
    (scale : ℚ) (p : PoscarNums) (symArg : Option (List (Option String))) :
    poscarLoaded f scale p.lattice p.counts p.coords (isCartStyle coordstyle)
        (symArg.getD (writtenSymbols symbols p.counts)) =
      loadedOfParsed (poscarExpected f header symbols coordstyle scale p) symArg := by
  unfold poscarLoaded loadedOfParsed poscarExpected
  have hc : isCartTok (strTok coordstyle) = isCartStyle coordstyle := by
    unfold isCartTok isCartStyle strTok; cases coordstyle.toList <;> rfl
  simp only [hc]
  have hsym : writtenSymbols symbols p.counts =
      (match symbols.map (·.map strTok) with
        | some l => l.map fun t => some (String.ofList t)
        | none => p.counts.map fun _ => none) := by
    cases symbols with
    | none => rfl
    | some l => simp [writtenSymbols, strTok, Function.comp]
  rw [hsym]
  congr 1
  · congr 1
    congr 1
    simp only [List.map_map]
    congr 1
    apply List.map_congr_left
    intro v _
    simp only [Function.comp, Box.relToCart, fmtV3, v3map]
    split
    · rfl
    · rw [vecMul_add_zero]


theorem cleanTok_of_okTok (t : Tok) (h : okTok t) : CleanTok t :=
  ⟨h.1, fun c hc => ⟨(h.2 c hc).1, (h.2 c hc).2.1⟩⟩

/-- **load_eq_independent_parse (POSCAR)**: on every POSCAR file the writer emits, atomman's loader returns exactly
    the system that C07's independent reader (written from the VASP format rules) describes: same cell, same
    per-type grouping, same symbols, same positions. -/
theorem load_eq_independent_parse_poscar (s : Sys) (header : List String) (symbols : Option (List String))
    (coordstyle : String) (scale : ℚ) (f : Fmt) (text : List Char)
    (h : writePoscar s header symbols coordstyle scale f = .ok text)
    (hs : PoscarStringsOk header symbols coordstyle) (hscale : 0 < fmtVal f scale)
    (hlen : s.atype.length = s.pos.length) (hty : ∀ t ∈ s.atype, 1 ≤ t ∧ t ≤ (s.natypes : Int))
    (hnotint : ∀ l, symbols = some l → (l.map strTok).mapM parseInt? = none)
    (symArg : Option (List (Option String))) :
    ∃ pp, parsePoscar text = some pp ∧ loadPoscar text symArg = .ok (loadedOfParsed pp symArg) := by
  obtain ⟨hsc, hna, hsl, hpp⟩ := parsePoscar_writePoscar s header symbols coordstyle scale f text h hs hscale hlen hty
  have hcart : isCartTok (strTok coordstyle) = isCartStyle coordstyle := by
    unfold isCartTok isCartStyle strTok; cases coordstyle.toList <;> rfl
  rw [hcart] at hpp
  refine ⟨_, hpp, ?_⟩
  obtain ⟨c1, c2, c3⟩ := poscarNums_counts s (isCartStyle coordstyle) scale hna hlen hty
  have hl : (poscarNums s (isCartStyle coordstyle) scale).coords.length =
      (poscarNums s (isCartStyle coordstyle) scale).counts.foldr (· + ·) 0 := by
    rw [← c2, foldl_add_eq_sum, Nat.zero_add]
    rfl
  have hne : (poscarNums s (isCartStyle coordstyle) scale).coords ≠ [] := by
    intro h0
    rw [h0] at c3
    exact hna c3.symm
  rw [loadPoscar_writePoscar (readable_all f) s header symbols coordstyle scale text h
    (fun w hw c hc hcn => hs.header w hw (by rw [← hcn]; exact hc))
    (fun l hl => ⟨fun w hw => cleanTok_of_okTok _ ((hs.symbols l hl).1 w hw), hnotint l hl⟩)
    (cleanTok_of_okTok _ hs.style) hl hne symArg]
  rw [poscarLoaded_eq_ofParsed f header symbols coordstyle scale _ symArg]

end Atomman.C08
