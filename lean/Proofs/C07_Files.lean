/-
  C07 — helper lemmas (file level): the independent table / dump-file parsers applied to what the writers emit.
-/
import Proofs.C07_Rows

namespace Atomman.C07
open Atomman
set_option linter.unusedSimpArgs false
set_option linter.unusedVariables false

/-- the line of column names. -/
def nameLine (cols : List ColSpec) : Line := (cols.map fun c => c.names.map strTok).flatten

/-- hypothesis on the column names handed to a writer: single words. -/
def NamesOk (cols : List ColSpec) : Prop := ∀ c ∈ cols, ∀ n ∈ c.names, okTok (strTok n)

/-- hypothesis on the column names handed to a writer: the one-valued id / type columns have one name. -/
def IdNamesOk (cols : List ColSpec) : Prop :=
  ∀ c ∈ cols, (c.prop = "a_id" ∨ c.prop = "atom_id" ∨ c.prop = "atype") → c.names.length = 1

theorem okTok_nameLine (cols : List ColSpec) (h : NamesOk cols) : ∀ t ∈ nameLine cols, okTok t := by
  intro t ht
  simp only [nameLine, List.mem_flatten, List.mem_map] at ht
  obtain ⟨l, ⟨c, hc, rfl⟩, ht⟩ := ht
  obtain ⟨n, hn, rfl⟩ := List.mem_map.mp ht
  exact h c hc n hn

theorem okTok_rowsDoc (f : Fmt) (rows : List (List Cell)) : ∀ l ∈ rowsDoc f rows, ∀ t ∈ l, okTok t := by
  intro l hl t ht
  simp only [rowsDoc, List.mem_map] at hl
  obtain ⟨r, _, rfl⟩ := hl
  obtain ⟨c, _, rfl⟩ := List.mem_map.mp ht
  exact okTok_cellTok f c

theorem length_nameLine_of_cells (cols : List ColSpec) (cells : List (List Cell))
    (h : List.Forall₂ (fun c cs => cs.length = c.names.length) cols cells) :
    cells.flatten.length = (nameLine cols).length := by
  unfold nameLine
  induction h with
  | nil => rfl
  | cons h1 _ ih => simp only [List.flatten_cons, List.length_append, List.map_cons, List.length_map, h1, ih]

/-- every row of a written table has as many cells as there are column names. -/
theorem row_length (s : Sys) (u : Units) (ids : List Int) (pos : List (V3 ℚ)) (cols : List ColSpec)
    (hid : IdNamesOk cols) (rows : List (List Cell)) (h : tableRows s u ids pos cols [] = .ok rows) :
    ∀ r ∈ rows, r.length = (nameLine cols).length := by
  intro r hr
  obtain ⟨k, hk, rfl⟩ := List.getElem_of_mem hr
  obtain ⟨_, h2⟩ := tableRows_spec s u ids pos cols [] rows h
  obtain ⟨cells, hc, e⟩ := h2 k hk
  rw [e]
  simp only [List.getElem?_nil, Option.getD_none, List.append_nil]
  apply length_nameLine_of_cells
  have : ∀ (cols' : List ColSpec) (cells' : List (List Cell)), (∀ c ∈ cols', c ∈ cols) →
      List.Forall₂ (fun c cs => propCells s u ids pos c k = .ok cs) cols' cells' →
      List.Forall₂ (fun c cs => cs.length = c.names.length) cols' cells' := by
    intro cols' cells' hsub hf
    induction hf with
    | nil => exact List.Forall₂.nil
    | @cons c cs _ _ h1 _ ih =>
      exact List.Forall₂.cons (propCells_length s u ids pos c k (hid c (hsub c (by simp))) cs h1)
        (ih (fun c' hc' => hsub c' (List.mem_cons_of_mem _ hc')))
  exact this cols cells (fun c hc => hc) hc

theorem mapM_rows_checked (f : Fmt) (rows : List (List Cell)) (n : Nat) (h : ∀ r ∈ rows, r.length = n) :
    (rowsDoc f rows).mapM (fun l => if l.length ≠ n then none else l.mapM parseNum?)
      = some (rows.map (·.map (Cell.val f))) := by
  unfold rowsDoc
  rw [List.mapM_map]
  apply mapM_option_of_forall
  intro r hr
  simp only [Function.comp, List.length_map, h r hr, ne_eq, not_true_eq_false, if_false]
  exact mapM_parseNum_row f r

theorem mapM_rows (f : Fmt) (rows : List (List Cell)) :
    (rowsDoc f rows).mapM (fun l => l.mapM parseNum?) = some (rows.map (·.map (Cell.val f))) := by
  unfold rowsDoc
  rw [List.mapM_map]
  apply mapM_option_of_forall
  intro r _
  exact mapM_parseNum_row f r

/-! ### table -/

theorem parseTable_writeTable (s : Sys) (cols : List ColSpec) (u : Units) (f : Fmt) (header : Bool)
    (text : List Char) (h : writeTable s cols u f header = .ok text) (hn : NamesOk cols) (hid : IdNamesOk cols) :
    ∃ rows, tableRows s u (seqIds s.natoms) s.pos cols [] = .ok rows ∧
      parseTable text header = some { columns := if header then some (nameLine cols) else none,
                                      rows := rows.map (·.map (Cell.val f)) } := by
  unfold writeTable writeTableDoc at h
  cases hr : tableRows s u (seqIds s.natoms) s.pos cols [] with
  | error e => rw [hr] at h; simp [bind, Except.bind, Except.map] at h
  | ok rows =>
    rw [hr] at h
    simp only [bind, Except.bind, pure, Except.pure, Except.map, Except.ok.injEq] at h
    refine ⟨rows, rfl, ?_⟩
    subst h
    unfold parseTable
    cases header with
    | true =>
      simp only [if_true]
      rw [lexDoc_renderLines]
      · simp only [List.cons_append, List.nil_append]
        have hm := mapM_rows_checked f rows _ (row_length s u _ _ cols hid rows hr)
        unfold nameLine at hm ⊢
        rw [hm]; rfl
      · intro l hl t ht
        simp only [if_true, List.cons_append, List.nil_append, List.mem_cons] at hl
        rcases hl with rfl | hl
        · exact okTok_nameLine cols hn t ht
        · exact okTok_rowsDoc f rows l hl t ht
    | false =>
      simp only [Bool.false_eq_true, if_false, List.nil_append]
      rw [lexDoc_renderLines _ (okTok_rowsDoc f rows), mapM_rows]
      rfl

/-! ### dump file -/

def bflagD (p : Bool) : Tok := if p then cs!"pp" else cs!"fm"

def dumpIds (s : Sys) : List Int := match s.prop? "atom_id" with
    | some c => c.vals.map fun v => (v.headD 0).floor
    | none => seqIds s.natoms

def orthoH (h : HiLo) : Prop := h.xy = 0 ∧ h.xz = 0 ∧ h.yz = 0
instance (h : HiLo) : Decidable (orthoH h) := by unfold orthoH; infer_instance

/-- the text layout of a dump file. -/
def dumpDoc (f : Fmt) (ts : Int) (natoms : Nat) (pbc : V3 Bool) (h : HiLo) (cols : List ColSpec)
    (rows : List (List Cell)) : Doc :=
  let bb := bboxOf h
  [[cs!"ITEM:", cs!"TIMESTEP"], [intTok ts], [cs!"ITEM:", cs!"NUMBER", cs!"OF", cs!"ATOMS"], [natTok natoms],
   [cs!"ITEM:", cs!"BOX", cs!"BOUNDS"] ++ (if orthoH h then [] else [cs!"xy", cs!"xz", cs!"yz"]) ++
     [bflagD pbc.x, bflagD pbc.y, bflagD pbc.z]] ++
  (if orthoH h then
      [[fmtNum f bb.xlo, fmtNum f bb.xhi], [fmtNum f bb.ylo, fmtNum f bb.yhi], [fmtNum f bb.zlo, fmtNum f bb.zhi]]
    else
      [[fmtNum f bb.xlo, fmtNum f bb.xhi, fmtNum f h.xy], [fmtNum f bb.ylo, fmtNum f bb.yhi, fmtNum f h.xz],
       [fmtNum f bb.zlo, fmtNum f bb.zhi, fmtNum f h.yz]]) ++
  [[cs!"ITEM:", cs!"ATOMS"] ++ nameLine cols] ++ rowsDoc f rows

theorem writeDumpDoc_ok (s : Sys) (props : List (String × List Nat)) (u : Units) (f : Fmt) (ts : Int) (doc : Doc)
    (h : writeDumpDoc s props u f ts = .ok doc) :
    ∃ lf rows, s.box.isLammpsNorm = true ∧ lengthFactor u = .ok lf ∧ hasDup (dumpIds s) = false ∧
      tableRows s u (dumpIds s) s.pos (props.map fun p => dumpCol p.1 p.2) [] = .ok rows ∧
      doc = dumpDoc f ts s.natoms s.pbc ((hiLoOf s.box).map (divBy lf)) (props.map fun p => dumpCol p.1 p.2) rows := by
  unfold writeDumpDoc at h
  cases hp : s.prop? "atom_id" <;>
  simp only [hp, bind, Except.bind, pure, Except.pure, throw, throwThe, MonadExceptOf.throw] at h <;>
  simp only [dumpIds, hp] <;>
  (split at h
   · cases h
   · rename_i hnorm
     split at h
     · cases h
     · rename_i lf hlf
       split at h
       · cases h
       · rename_i hdup
         split at h
         · cases h
         · rename_i rows hrows
           refine ⟨lf, rows, by simpa using hnorm, hlf, by simpa using hdup, hrows, ?_⟩
           simp only [Except.ok.injEq] at h
           rw [← h]
           simp only [dumpDoc, orthoH, bflagD, nameLine, decide_eq_true_eq])

def BBox.map (b : BBox) (g : ℚ → ℚ) : BBox := ⟨g b.xlo, g b.xhi, g b.ylo, g b.yhi, g b.zlo, g b.zhi⟩

theorem parseDumpLines_dumpDoc (f : Fmt) (ts : Int) (natoms : Nat) (pbc : V3 Bool) (h : HiLo) (cols : List ColSpec)
    (rows : List (List Cell)) (hlen : rows.length = natoms) (hrl : ∀ r ∈ rows, r.length = (nameLine cols).length) :
    parseDumpLines (dumpDoc f ts natoms pbc h cols rows) =
      some { timestep := ts, natoms := natoms, triclinic := !decide (orthoH h),
             boundary := [bflagD pbc.x, bflagD pbc.y, bflagD pbc.z],
             bbox := (bboxOf h).map (fmtVal f),
             hilo := hiLoOfBBox ((bboxOf h).map (fmtVal f)) (fmtVal f h.xy) (fmtVal f h.xz) (fmtVal f h.yz),
             columns := nameLine cols, rows := rows.map (·.map (Cell.val f)) } := by
  have hbody : (rowsDoc f rows).take natoms = rowsDoc f rows := by
    apply List.take_of_length_le; simp [rowsDoc, hlen]
  have hdrop : (rowsDoc f rows).drop natoms = [] := by
    apply List.drop_of_length_le; simp [rowsDoc, hlen]
  have hm := mapM_rows_checked f rows _ hrl
  have hlenD : (rowsDoc f rows).length = natoms := by simp [rowsDoc, hlen]
  have hm' := hm
  simp only [ne_eq, ite_not] at hm'
  have hb1 : ∀ p, (bflagD p == ['x', 'y']) = false := by intro p; cases p <;> decide
  have hb2 : ∀ p, ¬ (bflagD p = ['x', 'y']) := by intro p; cases p <;> decide
  by_cases ho : orthoH h
  · obtain ⟨h1, h2, h3⟩ := ho
    have ho : orthoH h := ⟨h1, h2, h3⟩
    simp only [dumpDoc, ho, if_true, List.cons_append, List.nil_append, parseDumpLines]
    simp [itemIs, parseInt_intTok, parseNat_natTok, parseNum_fmtNum, hbody, hdrop, hm', hlen, hlenD, BBox.map,
      h1, h2, h3, fmtVal_zero, hb1, hb2]
  · simp only [dumpDoc, ho, if_false, List.cons_append, List.nil_append, parseDumpLines]
    simp [itemIs, parseInt_intTok, parseNat_natTok, parseNum_fmtNum, hbody, hdrop, hm', hlen, hlenD, BBox.map,
      fmtVal_zero, hb1, hb2, ho]

instance (t : Tok) : Decidable (okTok t) := by unfold okTok okChars; infer_instance

theorem okTok_bflagD (p : Bool) : okTok (bflagD p) := by cases p <;> decide

theorem okTok_dumpDoc (f : Fmt) (ts : Int) (natoms : Nat) (pbc : V3 Bool) (h : HiLo) (cols : List ColSpec)
    (rows : List (List Cell)) (hn : NamesOk cols) : ∀ l ∈ dumpDoc f ts natoms pbc h cols rows, ∀ t ∈ l, okTok t := by
  have hlit : ∀ t ∈ [cs!"ITEM:", cs!"TIMESTEP", cs!"NUMBER", cs!"OF", cs!"ATOMS", cs!"BOX", cs!"BOUNDS", cs!"xy",
      cs!"xz", cs!"yz"], okTok t := by decide
  have hnum : ∀ l : Line, (∀ t ∈ l, ∃ q, t = fmtNum f q) → ∀ t ∈ l, okTok t := by
    intro l hl t ht; obtain ⟨q, rfl⟩ := hl t ht; exact okTok_fmtNum f q
  intro l hl t ht
  by_cases ho : orthoH h
  · simp only [dumpDoc, ho, if_true, List.cons_append, List.nil_append, List.mem_cons, List.mem_append,
      List.not_mem_nil, or_false] at hl
    rcases hl with rfl | rfl | rfl | rfl | rfl | rfl | rfl | rfl | rfl | hl
    · exact hlit t (by simp at ht ⊢; tauto)
    · simp at ht; subst ht; exact okTok_intTok ts
    · exact hlit t (by simp at ht ⊢; tauto)
    · simp at ht; subst ht; exact okTok_natTok natoms
    · simp only [List.mem_cons, List.not_mem_nil, or_false] at ht
      rcases ht with rfl | rfl | rfl | rfl | rfl | rfl
      · decide
      · decide
      · decide
      · exact okTok_bflagD _
      · exact okTok_bflagD _
      · exact okTok_bflagD _
    · exact hnum _ (by simp) t ht
    · exact hnum _ (by simp) t ht
    · exact hnum _ (by simp) t ht
    · simp only [List.mem_cons] at ht
      rcases ht with rfl | rfl | ht
      · decide
      · decide
      · exact okTok_nameLine cols hn t ht
    · exact okTok_rowsDoc f rows l hl t ht
  · simp only [dumpDoc, ho, if_false, List.cons_append, List.nil_append, List.mem_cons, List.mem_append,
      List.not_mem_nil, or_false] at hl
    rcases hl with rfl | rfl | rfl | rfl | rfl | rfl | rfl | rfl | rfl | hl
    · exact hlit t (by simp at ht ⊢; tauto)
    · simp at ht; subst ht; exact okTok_intTok ts
    · exact hlit t (by simp at ht ⊢; tauto)
    · simp at ht; subst ht; exact okTok_natTok natoms
    · simp only [List.mem_cons, List.not_mem_nil, or_false] at ht
      rcases ht with rfl | rfl | rfl | rfl | rfl | rfl | rfl | rfl | rfl
      · decide
      · decide
      · decide
      · decide
      · decide
      · decide
      · exact okTok_bflagD _
      · exact okTok_bflagD _
      · exact okTok_bflagD _
    · exact hnum _ (by simp) t ht
    · exact hnum _ (by simp) t ht
    · exact hnum _ (by simp) t ht
    · simp only [List.mem_cons] at ht
      rcases ht with rfl | rfl | ht
      · decide
      · decide
      · exact okTok_nameLine cols hn t ht
    · exact okTok_rowsDoc f rows l hl t ht

/-- **dump file**: the independent reader applied to the written text. -/
theorem parseDump_writeDump (s : Sys) (props : List (String × List Nat)) (u : Units) (f : Fmt) (ts : Int)
    (text : List Char) (h : writeDump s props u f ts = .ok text)
    (hn : NamesOk (props.map fun p => dumpCol p.1 p.2)) (hid : IdNamesOk (props.map fun p => dumpCol p.1 p.2)) :
    ∃ lf rows, s.box.isLammpsNorm = true ∧ lengthFactor u = .ok lf ∧ hasDup (dumpIds s) = false ∧
      tableRows s u (dumpIds s) s.pos (props.map fun p => dumpCol p.1 p.2) [] = .ok rows ∧
      parseDump text =
        some { timestep := ts, natoms := s.natoms,
               triclinic := !decide (orthoH ((hiLoOf s.box).map (divBy lf))),
               boundary := [bflagD s.pbc.x, bflagD s.pbc.y, bflagD s.pbc.z],
               bbox := (bboxOf ((hiLoOf s.box).map (divBy lf))).map (fmtVal f),
               hilo := hiLoOfBBox ((bboxOf ((hiLoOf s.box).map (divBy lf))).map (fmtVal f))
                 (fmtVal f ((hiLoOf s.box).map (divBy lf)).xy) (fmtVal f ((hiLoOf s.box).map (divBy lf)).xz)
                 (fmtVal f ((hiLoOf s.box).map (divBy lf)).yz),
               columns := nameLine (props.map fun p => dumpCol p.1 p.2),
               rows := rows.map (·.map (Cell.val f)) } := by
  unfold writeDump at h
  cases hd : writeDumpDoc s props u f ts with
  | error e => rw [hd] at h; cases h
  | ok doc =>
    rw [hd] at h
    simp only [Except.map, Except.ok.injEq] at h
    obtain ⟨lf, rows, hnorm, hlf, hdup, hrows, rfl⟩ := writeDumpDoc_ok s props u f ts doc hd
    refine ⟨lf, rows, hnorm, hlf, hdup, hrows, ?_⟩
    subst h
    unfold parseDump
    rw [lexDoc_renderLines _ (okTok_dumpDoc f ts _ _ _ _ rows hn)]
    exact parseDumpLines_dumpDoc f ts _ _ _ _ rows (tableRows_spec _ _ _ _ _ _ _ hrows).1
      (row_length _ _ _ _ _ hid rows hrows)

end Atomman.C07
