/-
  C06 — refinement, part 2: exact effect of the writing operations on the heap (`assign`,
  `prop(key, index, value)`), reads (`prop(key…)`), and the frame of the extending operations.
-/
import Proofs.C06_Refine

namespace Atomman.C06
set_option linter.unusedSimpArgs false
set_option linter.unusedVariables false

/-! ### `writeRows`: which rows end up where -/

/-- the last update aimed at row `i` wins. -/
theorem writeRows_last (rows : List Row) (upd : List (Nat × Row)) (i : Nat) (hi : i < rows.length) (r : Row)
    (pre post : List (Nat × Row)) (hsplit : upd = pre ++ (i, r) :: post) (hpost : ∀ u ∈ post, u.1 ≠ i) :
    (writeRows rows upd)[i]? = some r := by
  subst hsplit
  induction pre generalizing rows with
  | nil =>
    simp only [List.nil_append, writeRows]
    rw [writeRows_get_notin _ _ _ hpost]
    simp [hi]
  | cons u t ih =>
    obtain ⟨a, b⟩ := u
    simp only [List.cons_append, writeRows]
    exact ih (rows.set a b) (by simpa using hi)

/-! ### `arr[sel] = value`: exact effect -/

/-- the cells written by a successful `arr[sel] = value`: the value broadcast to the selected shape and
    cast to the buffer's dtype, cut into rows. -/
def AssignedRows (s : State) (a : Arr) (sel : Sel) (v : Val) (newRows : List Row) : Prop :=
  ∃ flat cells, bcast v (assignShape s a sel) = some flat ∧ flat.mapM (castCell (s.buf a.buf).dt) = some cells ∧
    newRows = rowsOf sel.count (prod (s.buf a.buf).trail) cells

/-- **`arr[sel] = value` changes exactly one buffer**: the rows of `a`'s buffer become
    `writeRows old (targets zip newRows)` with `targets[j] = a.idx[sel.pos[j]]`; dtype, trailing shape,
    every other buffer, every object and every system stay as they were; a refusal changes nothing. -/
theorem assign_spec (a : Arr) (sel : Sel) (v : Val) (s : State) :
    Post (assign a sel v) s (fun r s' =>
      (∀ e, r = .error e → s' = s) ∧
      (r = .ok () → ∃ newRows, AssignedRows s a sel v newRows ∧ sel.oob = false ∧
        s'.objs = s.objs ∧ s'.syss = s.syss ∧ s'.heap.length = s.heap.length ∧
        (∀ b, b ≠ a.buf → s'.buf b = s.buf b) ∧
        (a.buf < s.heap.length →
          (s'.buf a.buf).dt = (s.buf a.buf).dt ∧ (s'.buf a.buf).trail = (s.buf a.buf).trail ∧
          (s'.buf a.buf).rows = writeRows (s.buf a.buf).rows
            ((sel.pos.map (fun p => a.idx[p]?.getD 0)).zip newRows)))) := by
  rcases assign_cases a sel v s with ⟨e, he⟩ | ⟨flat, cells, hflat, hcells, hoob, hok⟩
  · apply Post.of_eq _ _ he
    refine ⟨fun _ _ => rfl, ?_⟩
    intro hc; cases hc
  · apply Post.of_eq _ _ hok
    refine ⟨?_, ?_⟩
    · intro e hc; cases hc
    · intro _
      refine ⟨_, ⟨flat, cells, hflat, hcells, rfl⟩, hoob, rfl, rfl, by simp, ?_, ?_⟩
      · intro b hb
        rw [buf_set]; simp [hb]
      · intro hlt
        rw [buf_set]
        simp only [hlt, and_self, if_true]
        exact ⟨rfl, rfl, rfl⟩

/-- rows of the written buffer that no target names keep their content (in every array that exposes
    them: atoms that were not selected keep their values). -/
theorem assign_untouched (a : Arr) (sel : Sel) (v : Val) (s s' : State) (h : assign a sel v s = (.ok (), s'))
    (b i : Nat) (hfree : b = a.buf → ∀ p ∈ sel.pos, a.idx[p]?.getD 0 ≠ i) :
    (s'.buf b).rows[i]? = (s.buf b).rows[i]? := by
  have := assign_spec a sel v s
  unfold Post at this
  rw [h] at this
  obtain ⟨newRows, _, _, _, _, hlen, hother, hsame⟩ := this.2 rfl
  by_cases hb : b = a.buf
  · subst hb
    by_cases hlt : a.buf < s.heap.length
    · rw [(hsame hlt).2.2]
      apply writeRows_get_notin
      intro u hu
      have := (List.of_mem_zip hu).1
      simp only [List.mem_map] at this
      obtain ⟨p, hp, hpu⟩ := this
      rw [← hpu]
      exact hfree rfl p hp
    · have hlen' : s'.heap.length = s.heap.length := hlen
      have h1 : s'.buf a.buf = emptyBuf := by simp [State.buf, List.getElem?_eq_none (by omega : s'.heap.length ≤ a.buf)]
      have h2 : s.buf a.buf = emptyBuf := by simp [State.buf, List.getElem?_eq_none (by omega : s.heap.length ≤ a.buf)]
      rw [h1, h2]
  · rw [hother b hb]

/-! ### reads -/

/-- **`prop(key)` / `prop(key, index)` read records**: the state is untouched; without index the value
    is the whole column; with an index it is the rows at the selected positions, in order (an integer
    index drops the leading axis). -/
theorem propGet_reads (o : Nat) (key : String) (ix : Option Index) (s : State) :
    Post (propGet o key ix) s (fun r s' => s' = s ∧ ∀ v, r = .ok v →
      ∃ a, (s.obj o).find key = some a ∧
        match ix with
        | none => v = arrVal s a
        | some i => ∃ sel, resolve a.idx.length i = .ok sel ∧ sel.oob = false ∧ v.dt = arrDt s a ∧
            v.data = (sel.pos.map (fun p => (arrRows s a)[p]?.getD [])).flatten ∧
            v.shape = (if sel.scalar then arrTrail s a else sel.pos.length :: arrTrail s a)) := by
  unfold propGet
  rw [post_bind_getS, post_bind_keyErr]
  split
  · rename_i a hfind
    cases ix with
    | none =>
      simp only []
      rw [post_pure]
      refine ⟨rfl, ?_⟩
      intro v hv
      have : v = arrVal s a := by
        have : (Except.ok (arrVal s a) : Except Err Val) = .ok v := hv
        injection this with this; exact this.symm
      exact ⟨a, hfind, this⟩
    | some i =>
      simp only []
      rw [post_bind_liftE]
      cases hres : resolve a.idx.length i with
      | error e => exact ⟨rfl, fun v hc => by cases hc⟩
      | ok sel =>
        simp only []
        obtain ⟨hpos, _⟩ := resolve_ok _ _ _ hres
        split
        · exact ⟨rfl, fun v hc => by cases hc⟩
        · rename_i hoob
          rw [post_pure]
          refine ⟨rfl, ?_⟩
          intro v hv
          refine ⟨a, hfind, sel, hres, by simpa using hoob, ?_⟩
          have hrows := arrRows_subArr s a sel hpos
          have hsub : (⟨a.buf, sel.pos.map (fun p => a.idx[p]?.getD 0)⟩ : Arr) = subArr a sel := rfl
          by_cases hsc : sel.scalar = true
          · simp only [hsc, if_true] at hv ⊢
            have : v = ⟨(arrVal s (subArr a sel)).dt, arrTrail s a, (arrVal s (subArr a sel)).data⟩ := by
              have h' : (Except.ok (⟨(arrVal s (subArr a sel)).dt, arrTrail s a, (arrVal s (subArr a sel)).data⟩ : Val)
                  : Except Err Val) = .ok v := hv
              injection h' with h'; exact h'.symm
            subst this
            refine ⟨rfl, ?_, rfl⟩
            simp only [arrVal, hrows]
          · simp only [hsc, if_false, Bool.false_eq_true] at hv ⊢
            have : v = arrVal s (subArr a sel) := by
              have h' : (Except.ok (arrVal s (subArr a sel)) : Except Err Val) = .ok v := hv
              injection h' with h'; exact h'.symm
            subst this
            refine ⟨rfl, ?_, ?_⟩
            · simp only [arrVal, hrows]
            · simp [arrVal, subArr, arrTrail]
  · exact ⟨rfl, fun v hc => by cases hc⟩

/-! ### `prop(key, index, value)` and `view[key] = value` on an existing key: exact effect -/

/-- state `s'` is `s` after writing `newRows` through `a[sel]`. -/
structure Wrote (s : State) (a : Arr) (sel : Sel) (newRows : List Row) (s' : State) : Prop where
  objs : s'.objs = s.objs
  syss : s'.syss = s.syss
  heapLen : s'.heap.length = s.heap.length
  other : ∀ b, b ≠ a.buf → s'.buf b = s.buf b
  same : a.buf < s.heap.length →
    (s'.buf a.buf).dt = (s.buf a.buf).dt ∧ (s'.buf a.buf).trail = (s.buf a.buf).trail ∧
    (s'.buf a.buf).rows = writeRows (s.buf a.buf).rows ((sel.pos.map (fun p => a.idx[p]?.getD 0)).zip newRows)

theorem assign_wrote (a : Arr) (sel : Sel) (v : Val) (s : State) :
    Post (assign a sel v) s (fun r s' => (∀ e, r = .error e → s' = s) ∧
      (r = .ok () → ∃ newRows, AssignedRows s a sel v newRows ∧ sel.oob = false ∧ Wrote s a sel newRows s')) := by
  apply Post.mono (assign_spec a sel v s)
  intro r s' ⟨h1, h2⟩
  refine ⟨h1, ?_⟩
  intro hr
  obtain ⟨newRows, hn, hoob, a1, a2, a3, a4, a5⟩ := h2 hr
  exact ⟨newRows, hn, hoob, a1, a2, a3, a4, a5⟩

/-- **refines (`prop(key, index, value)`)** — a returning indexed write resolved the index against the
    column, passed the `atype` guard, and wrote the cast broadcast value through the column's array:
    exactly the rows `a.idx[sel.pos[j]]` of that one buffer change (later duplicates win), nothing else. -/
theorem propSet_refines (o : Nat) (key : String) (ix : Index) (v : Val) (s : State) :
    Post (propSet o key (some ix) v) s (fun r s' => (∀ e, r = .error e → s' = s) ∧
      (r = .ok () → ∃ a sel newRows, (s.obj o).find key = some a ∧ resolve a.idx.length ix = .ok sel ∧
        (key = "atype" → ∀ c ∈ v.data, CellGE1 c) ∧
        AssignedRows s a sel v newRows ∧ sel.oob = false ∧ Wrote s a sel newRows s')) := by
  unfold propSet
  simp only []
  rcases atypeGuard_cases key v with ⟨e, hg⟩ | ⟨hg, hguard⟩
  · rw [hg, post_bind_fail]
    exact ⟨fun _ _ => rfl, fun hc => by cases hc⟩
  rw [hg, post_bind_pure, post_bind_getS, post_bind_keyErr]
  split
  · rename_i a hfind
    rw [post_bind_liftE]
    cases hres : resolve a.idx.length ix with
    | error e => exact ⟨fun _ _ => rfl, fun hc => by cases hc⟩
    | ok sel =>
      simp only []
      apply Post.mono (assign_wrote a sel v s)
      intro r s' ⟨h1, h2⟩
      refine ⟨h1, ?_⟩
      intro hr
      obtain ⟨newRows, hn, hoob, hw⟩ := h2 hr
      exact ⟨a, sel, newRows, hfind, hres, hguard, hn, hoob, hw⟩
  · exact ⟨fun _ _ => rfl, fun hc => by cases hc⟩

/-- what an array reads after a write through another array: row by row from the written buffer. -/
theorem Wrote.read {s s' : State} {a : Arr} {sel : Sel} {newRows : List Row} (hw : Wrote s a sel newRows s')
    (c : Arr) (hne : c.buf ≠ a.buf) : arrRows s' c = arrRows s c := by
  simp [arrRows, hw.other c.buf hne]

/-- atoms that the index does not select keep their value in every array of every object. -/
theorem Wrote.untouched {s s' : State} {a : Arr} {sel : Sel} {newRows : List Row} (hw : Wrote s a sel newRows s')
    (b i : Nat) (hfree : b = a.buf → ∀ p ∈ sel.pos, a.idx[p]?.getD 0 ≠ i) :
    (s'.buf b).rows[i]? = (s.buf b).rows[i]? := by
  by_cases hb : b = a.buf
  · subst hb
    by_cases hlt : a.buf < s.heap.length
    · rw [(hw.same hlt).2.2]
      apply writeRows_get_notin
      intro u hu
      have := (List.of_mem_zip hu).1
      simp only [List.mem_map] at this
      obtain ⟨p, hp, hpu⟩ := this
      rw [← hpu]
      exact hfree rfl p hp
    · have hl := hw.heapLen
      have h1 : s'.buf a.buf = emptyBuf := by simp [State.buf, List.getElem?_eq_none (by omega : s'.heap.length ≤ a.buf)]
      have h2 : s.buf a.buf = emptyBuf := by simp [State.buf, List.getElem?_eq_none (by omega : s.heap.length ≤ a.buf)]
      rw [h1, h2]
  · rw [hw.other b hb]

end Atomman.C06
