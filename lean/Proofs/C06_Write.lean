/-
  C06 — refinement, part 2: exact effect of the writing operations on the heap (`assign`,
  `prop(key, index, value)`), reads (`prop(key…)`), and the frame of the extending operations.
-/
import Proofs.C06_Refine

namespace Atomman.C06
set_option linter.unusedSimpArgs false
set_option linter.unusedVariables false

/-! ### `writeRows`: which rows end up where -/

/-- the last update aimed at row `i` wins. -/
theorem writeRows_last (rows : List Row) (upd : List (Nat × Row)) (i : Nat) (hi : i < rows.length) (r : Row)
    (pre post : List (Nat × Row)) (hsplit : upd = pre ++ (i, r) :: post) (hpost : ∀ u ∈ post, u.1 ≠ i) :
    (writeRows rows upd)[i]? = some r := by
  subst hsplit
  induction pre generalizing rows with
  | nil =>
    simp only [List.nil_append, writeRows]
    rw [writeRows_get_notin _ _ _ hpost]
    simp [hi]
  | cons u t ih =>
    obtain ⟨a, b⟩ := u
    simp only [List.cons_append, writeRows]
    exact ih (rows.set a b) (by simpa using hi)

/-! ### `arr[sel] = value`: exact effect -/

/-- the cells written by a successful `arr[sel] = value`: the value broadcast to the selected shape and
    cast to the buffer's dtype, cut into rows. -/
def AssignedRows (s : State) (a : Arr) (sel : Sel) (v : Val) (newRows : List Row) : Prop :=
  ∃ flat cells, bcast v (assignShape s a sel) = some flat ∧ flat.mapM (castCell (s.buf a.buf).dt) = some cells ∧
    newRows = rowsOf sel.count (prod (s.buf a.buf).trail) cells

/-- **`arr[sel] = value` changes exactly one buffer**: the rows of `a`'s buffer become
    `writeRows old (targets zip newRows)` with `targets[j] = a.idx[sel.pos[j]]`; dtype, trailing shape,
    every other buffer, every object and every system stay as they were; a refusal changes nothing. -/
theorem assign_spec (a : Arr) (sel : Sel) (v : Val) (s : State) :
    Post (assign a sel v) s (fun r s' =>
      (∀ e, r = .error e → s' = s) ∧
      (r = .ok () → ∃ newRows, AssignedRows s a sel v newRows ∧ sel.oob = false ∧
        s'.objs = s.objs ∧ s'.syss = s.syss ∧ s'.heap.length = s.heap.length ∧
        (∀ b, b ≠ a.buf → s'.buf b = s.buf b) ∧
        (a.buf < s.heap.length →
          (s'.buf a.buf).dt = (s.buf a.buf).dt ∧ (s'.buf a.buf).trail = (s.buf a.buf).trail ∧
          (s'.buf a.buf).rows = writeRows (s.buf a.buf).rows
            ((sel.pos.map (fun p => a.idx[p]?.getD 0)).zip newRows)))) := by
  rcases assign_cases a sel v s with ⟨e, he⟩ | ⟨flat, cells, hflat, hcells, hoob, hok⟩
  · apply Post.of_eq _ _ he
    refine ⟨fun _ _ => rfl, ?_⟩
    intro hc; cases hc
  · apply Post.of_eq _ _ hok
    refine ⟨?_, ?_⟩
    · intro e hc; cases hc
    · intro _
      refine ⟨_, ⟨flat, cells, hflat, hcells, rfl⟩, hoob, rfl, rfl, by simp, ?_, ?_⟩
      · intro b hb
        rw [buf_set]; simp [hb]
      · intro hlt
        rw [buf_set]
        simp only [hlt, and_self, if_true]
        exact ⟨rfl, rfl, rfl⟩

/-- rows of the written buffer that no target names keep their content (in every array that exposes
    them: atoms that were not selected keep their values). -/
theorem assign_untouched (a : Arr) (sel : Sel) (v : Val) (s s' : State) (h : assign a sel v s = (.ok (), s'))
    (b i : Nat) (hfree : b = a.buf → ∀ p ∈ sel.pos, a.idx[p]?.getD 0 ≠ i) :
    (s'.buf b).rows[i]? = (s.buf b).rows[i]? := by
  have := assign_spec a sel v s
  unfold Post at this
  rw [h] at this
  obtain ⟨newRows, _, _, _, _, hlen, hother, hsame⟩ := this.2 rfl
  by_cases hb : b = a.buf
  · subst hb
    by_cases hlt : a.buf < s.heap.length
    · rw [(hsame hlt).2.2]
      apply writeRows_get_notin
      intro u hu
      have := (List.of_mem_zip hu).1
      simp only [List.mem_map] at this
      obtain ⟨p, hp, hpu⟩ := this
      rw [← hpu]
      exact hfree rfl p hp
    · have hlen' : s'.heap.length = s.heap.length := hlen
      have h1 : s'.buf a.buf = emptyBuf := by simp [State.buf, List.getElem?_eq_none (by omega : s'.heap.length ≤ a.buf)]
      have h2 : s.buf a.buf = emptyBuf := by simp [State.buf, List.getElem?_eq_none (by omega : s.heap.length ≤ a.buf)]
      rw [h1, h2]
  · rw [hother b hb]

/-! ### reads -/

/-- **`prop(key)` / `prop(key, index)` read records**: the state is untouched; without index the value
    is the whole column; with an index it is the rows at the selected positions, in order (an integer
    index drops the leading axis). -/
theorem propGet_reads (o : Nat) (key : String) (ix : Option Index) (s : State) :
    Post (propGet o key ix) s (fun r s' => s' = s ∧ ∀ v, r = .ok v →
      ∃ a, (s.obj o).find key = some a ∧
        match ix with
        | none => v = arrVal s a
        | some i => ∃ sel, resolve a.idx.length i = .ok sel ∧ sel.oob = false ∧ v.dt = arrDt s a ∧
            v.data = (sel.pos.map (fun p => (arrRows s a)[p]?.getD [])).flatten ∧
            v.shape = (if sel.scalar then arrTrail s a else sel.pos.length :: arrTrail s a)) := by
  unfold propGet
  rw [post_bind_getS, post_bind_keyErr]
  split
  · rename_i a hfind
    cases ix with
    | none =>
      simp only []
      rw [post_pure]
      refine ⟨rfl, ?_⟩
      intro v hv
      have : v = arrVal s a := by
        have : (Except.ok (arrVal s a) : Except Err Val) = .ok v := hv
        injection this with this; exact this.symm
      exact ⟨a, hfind, this⟩
    | some i =>
      simp only []
      rw [post_bind_liftE]
      cases hres : resolve a.idx.length i with
      | error e => exact ⟨rfl, fun v hc => by cases hc⟩
      | ok sel =>
        simp only []
        obtain ⟨hpos, _⟩ := resolve_ok _ _ _ hres
        split
        · exact ⟨rfl, fun v hc => by cases hc⟩
        · rename_i hoob
          rw [post_pure]
          refine ⟨rfl, ?_⟩
          intro v hv
          refine ⟨a, hfind, sel, hres, by simpa using hoob, ?_⟩
          have hrows := arrRows_subArr s a sel hpos
          have hsub : (⟨a.buf, sel.pos.map (fun p => a.idx[p]?.getD 0)⟩ : Arr) = subArr a sel := rfl
          by_cases hsc : sel.scalar = true
          · simp only [hsc, if_true] at hv ⊢
            have : v = ⟨(arrVal s (subArr a sel)).dt, arrTrail s a, (arrVal s (subArr a sel)).data⟩ := by
              have h' : (Except.ok (⟨(arrVal s (subArr a sel)).dt, arrTrail s a, (arrVal s (subArr a sel)).data⟩ : Val)
                  : Except Err Val) = .ok v := hv
              injection h' with h'; exact h'.symm
            subst this
            refine ⟨rfl, ?_, rfl⟩
            simp only [arrVal, hrows]
          · simp only [hsc, if_false, Bool.false_eq_true] at hv ⊢
            have : v = arrVal s (subArr a sel) := by
              have h' : (Except.ok (arrVal s (subArr a sel)) : Except Err Val) = .ok v := hv
              injection h' with h'; exact h'.symm
            subst this
            refine ⟨rfl, ?_, ?_⟩
            · simp only [arrVal, hrows]
            · simp [arrVal, subArr, arrTrail]
  · exact ⟨rfl, fun v hc => by cases hc⟩

/-! ### `prop(key, index, value)` and `view[key] = value` on an existing key: exact effect -/

/-- state `s'` is `s` after writing `newRows` through `a[sel]`. -/
structure Wrote (s : State) (a : Arr) (sel : Sel) (newRows : List Row) (s' : State) : Prop where
  objs : s'.objs = s.objs
  syss : s'.syss = s.syss
  heapLen : s'.heap.length = s.heap.length
  other : ∀ b, b ≠ a.buf → s'.buf b = s.buf b
  same : a.buf < s.heap.length →
    (s'.buf a.buf).dt = (s.buf a.buf).dt ∧ (s'.buf a.buf).trail = (s.buf a.buf).trail ∧
    (s'.buf a.buf).rows = writeRows (s.buf a.buf).rows ((sel.pos.map (fun p => a.idx[p]?.getD 0)).zip newRows)

theorem assign_wrote (a : Arr) (sel : Sel) (v : Val) (s : State) :
    Post (assign a sel v) s (fun r s' => (∀ e, r = .error e → s' = s) ∧
      (r = .ok () → ∃ newRows, AssignedRows s a sel v newRows ∧ sel.oob = false ∧ Wrote s a sel newRows s')) := by
  apply Post.mono (assign_spec a sel v s)
  intro r s' ⟨h1, h2⟩
  refine ⟨h1, ?_⟩
  intro hr
  obtain ⟨newRows, hn, hoob, a1, a2, a3, a4, a5⟩ := h2 hr
  exact ⟨newRows, hn, hoob, a1, a2, a3, a4, a5⟩

/-- **refines (`prop(key, index, value)`)** — a returning indexed write resolved the index against the
    column, passed the `atype` guard, and wrote the cast broadcast value through the column's array:
    exactly the rows `a.idx[sel.pos[j]]` of that one buffer change (later duplicates win), nothing else. -/
theorem propSet_refines (o : Nat) (key : String) (ix : Index) (v : Val) (s : State) :
    Post (propSet o key (some ix) v) s (fun r s' => (∀ e, r = .error e → s' = s) ∧
      (r = .ok () → ∃ a sel newRows, (s.obj o).find key = some a ∧ resolve a.idx.length ix = .ok sel ∧
        (key = "atype" → ∀ c ∈ v.data, CellGE1 c) ∧
        AssignedRows s a sel v newRows ∧ sel.oob = false ∧ Wrote s a sel newRows s')) := by
  unfold propSet
  simp only []
  rcases atypeGuard_cases key v with ⟨e, hg⟩ | ⟨hg, hguard⟩
  · rw [hg, post_bind_fail]
    exact ⟨fun _ _ => rfl, fun hc => by cases hc⟩
  rw [hg, post_bind_pure, post_bind_getS, post_bind_keyErr]
  split
  · rename_i a hfind
    rw [post_bind_liftE]
    cases hres : resolve a.idx.length ix with
    | error e => exact ⟨fun _ _ => rfl, fun hc => by cases hc⟩
    | ok sel =>
      simp only []
      apply Post.mono (assign_wrote a sel v s)
      intro r s' ⟨h1, h2⟩
      refine ⟨h1, ?_⟩
      intro hr
      obtain ⟨newRows, hn, hoob, hw⟩ := h2 hr
      exact ⟨a, sel, newRows, hfind, hres, hguard, hn, hoob, hw⟩
  · exact ⟨fun _ _ => rfl, fun hc => by cases hc⟩

/-- what an array reads after a write through another array: row by row from the written buffer. -/
theorem Wrote.read {s s' : State} {a : Arr} {sel : Sel} {newRows : List Row} (hw : Wrote s a sel newRows s')
    (c : Arr) (hne : c.buf ≠ a.buf) : arrRows s' c = arrRows s c := by
  simp [arrRows, hw.other c.buf hne]

/-- atoms that the index does not select keep their value in every array of every object. -/
theorem Wrote.untouched {s s' : State} {a : Arr} {sel : Sel} {newRows : List Row} (hw : Wrote s a sel newRows s')
    (b i : Nat) (hfree : b = a.buf → ∀ p ∈ sel.pos, a.idx[p]?.getD 0 ≠ i) :
    (s'.buf b).rows[i]? = (s.buf b).rows[i]? := by
  by_cases hb : b = a.buf
  · subst hb
    by_cases hlt : a.buf < s.heap.length
    · rw [(hw.same hlt).2.2]
      apply writeRows_get_notin
      intro u hu
      have := (List.of_mem_zip hu).1
      simp only [List.mem_map] at this
      obtain ⟨p, hp, hpu⟩ := this
      rw [← hpu]
      exact hfree rfl p hp
    · have hl := hw.heapLen
      have h1 : s'.buf a.buf = emptyBuf := by simp [State.buf, List.getElem?_eq_none (by omega : s'.heap.length ≤ a.buf)]
      have h2 : s.buf a.buf = emptyBuf := by simp [State.buf, List.getElem?_eq_none (by omega : s.heap.length ≤ a.buf)]
      rw [h1, h2]
  · rw [hw.other b hb]

/-! ### read-back through the written array -/

theorem map_set_nodup (rows : List Row) (idx : List Nat) (hnd : idx.Nodup) (p : Nat) (hp : p < idx.length) (r : Row)
    (hvalid : idx[p] < rows.length) :
    idx.map (fun i => (rows.set idx[p] r)[i]?.getD []) = (idx.map (fun i => rows[i]?.getD [])).set p r := by
  apply List.ext_getElem
  · simp
  · intro j h1 h2
    have hj : j < idx.length := by simpa using h1
    simp only [List.getElem_map, List.getElem_set, List.length_map]
    by_cases hjp : p = j
    · subst hjp
      simp [List.getElem?_set, hvalid]
    · have hne : idx[p] ≠ idx[j] := fun he => hjp (nodup_getElem_inj hnd p j hp hj he)
      simp [hjp, List.getElem?_set, hne]

/-- writing through an array whose row indices are pairwise distinct is `writeRows` on what the array
    reads: position `pos[j]` of the array gets `new[j]` (later duplicates win), the rest is unchanged. -/
theorem view_writeRows (idx : List Nat) (hnd : idx.Nodup) :
    ∀ (upd : List (Nat × Row)) (rows : List Row), (∀ i ∈ idx, i < rows.length) → (∀ u ∈ upd, u.1 < idx.length) →
      idx.map (fun i => (writeRows rows (upd.map (fun u => (idx[u.1]?.getD 0, u.2))))[i]?.getD []) =
        writeRows (idx.map (fun i => rows[i]?.getD [])) upd := by
  intro upd
  induction upd with
  | nil => intro rows _ _; rfl
  | cons u rest ih =>
    intro rows hvalid hupd
    obtain ⟨p, r⟩ := u
    have hp : p < idx.length := hupd (p, r) (by simp)
    simp only [List.map_cons, writeRows, List.getElem?_eq_getElem hp, Option.getD_some]
    rw [ih (rows.set idx[p] r) (by intro i hi; simpa using hvalid i hi) (fun u hu => hupd u (by simp [hu]))]
    rw [map_set_nodup rows idx hnd p hp r (hvalid _ (List.getElem_mem hp))]

theorem zip_map_left' {α β γ : Type} (f : α → γ) (l1 : List α) (l2 : List β) :
    (l1.map f).zip l2 = (l1.zip l2).map (fun u => (f u.1, u.2)) := by
  induction l1 generalizing l2 with
  | nil => simp
  | cons x t ih =>
    cases l2 with
    | nil => simp
    | cons y t2 => simp [ih]

/-- **read-back**: after `a[sel] = value` the array `a` itself reads its old rows with the selected
    positions overwritten by the new rows. -/
theorem Wrote.readback {s s' : State} {a : Arr} {sel : Sel} {newRows : List Row} (hw : Wrote s a sel newRows s')
    (hv : ArrValid s a) (hnd : a.idx.Nodup) (hpos : ∀ p ∈ sel.pos, p < a.idx.length) :
    arrRows s' a = writeRows (arrRows s a) (sel.pos.zip newRows) := by
  simp only [arrRows]
  rw [(hw.same hv.1).2.2, zip_map_left']
  exact view_writeRows a.idx hnd (sel.pos.zip newRows) (s.buf a.buf).rows hv.2
    (fun u hu => hpos u.1 (List.of_mem_zip hu).1)

/-! ### `view[key] = value`: exact effect -/

theorem writeRows_all (old new : List Row) (h : new.length = old.length) :
    writeRows old ((List.range old.length).zip new) = new := by
  apply List.ext_getElem
  · rw [writeRows_length, h]
  · intro i h1 h2
    have hi : i < old.length := by rw [writeRows_length] at h1; exact h1
    -- split the update list at position i
    have hz : (List.range old.length).zip new =
        ((List.range old.length).zip new).take i ++ (i, new[i]) :: ((List.range old.length).zip new).drop (i + 1) := by
      have hlen : i < ((List.range old.length).zip new).length := by simp [h]; exact hi
      have hd := List.drop_eq_getElem_cons hlen
      have hLi : ((List.range old.length).zip new)[i] = (i, new[i]) := by simp
      calc (List.range old.length).zip new
          = ((List.range old.length).zip new).take i ++ ((List.range old.length).zip new).drop i :=
            (List.take_append_drop i _).symm
        _ = _ := by rw [hd, hLi]
    have := writeRows_last old _ i hi new[i] _ _ hz (by
      intro u hu
      have hmem := List.mem_drop_iff_getElem.mp hu
      obtain ⟨k, hk, hku⟩ := hmem
      rw [← hku]
      simp
      omega)
    rw [List.getElem?_eq_getElem h1] at this
    injection this

/-- **refines (`view[key] = value`, existing key)** — the value is broadcast (scalar → `(natoms,)`,
    leading 1 → `natoms`), checked (`atype ≥ 1`) and written over the whole column through the stored
    array: the column then reads exactly the cast rows of the broadcast value. -/
theorem viewSet_existing_refines {κ : Nat → String} {s : State} (h : InvK κ s) (o : Nat) (key : String) (src : Src)
    (a : Arr) (hfind : (s.obj o).find key = some a) :
    Post (viewSet o key src) s (fun r s' => (∀ e, r = .error e → s' = s) ∧
      (r = .ok () → ∃ src' newRows, BcastRes s (s.obj o).natoms src src' ∧
        AssignedRows s a (allSel (s.obj o).natoms) (srcVal s src') newRows ∧
        Wrote s a (allSel (s.obj o).natoms) newRows s' ∧ arrRows s' a = newRows)) := by
  have hp := h.find_ok o key a hfind
  unfold viewSet
  rw [post_bind_getS]
  simp only []
  rcases viewBcast_cases s (s.obj o).natoms src with ⟨e, he⟩ | ⟨src', he, hres⟩
  · rw [he, post_bind_fail]
    exact ⟨fun _ _ => rfl, fun hc => by cases hc⟩
  rw [he, post_bind_pure]
  rcases viewGuard_cases key (s.obj o).natoms (srcVal s src') with ⟨e, hg⟩ | ⟨hg, _⟩
  · rw [hg, post_bind_fail]
    exact ⟨fun _ _ => rfl, fun hc => by cases hc⟩
  rw [hg, post_bind_pure]
  simp only [hfind]
  apply Post.mono (assign_wrote a (allSel (s.obj o).natoms) (srcVal s src') s)
  intro r s' ⟨h1, h2⟩
  refine ⟨h1, ?_⟩
  intro hr
  obtain ⟨newRows, hn, _, hw⟩ := h2 hr
  refine ⟨src', newRows, hres, hn, hw, ?_⟩
  have hpos : ∀ p ∈ (allSel (s.obj o).natoms).pos, p < a.idx.length := by
    intro p hp'; rw [hp.len]; simpa [allSel] using hp'
  rw [hw.readback hp.valid hp.nodup hpos]
  have hnl : newRows.length = (arrRows s a).length := by
    obtain ⟨flat, cells, _, _, hnr⟩ := hn
    rw [hnr, rowsOf_length]
    simp [arrRows, allSel, hp.len]
  have hl : (arrRows s a).length = (s.obj o).natoms := by simp [arrRows, hp.len]
  have : (allSel (s.obj o).natoms).pos = List.range (arrRows s a).length := by simp [allSel, hl]
  rw [this]
  exact writeRows_all _ _ hnl

/-! ### frames: what the extending operations leave alone -/

/-- buffers below `n` and objects below `m` are literally the same in `s'`. -/
def FrameOK (n m : Nat) (s s' : State) : Prop :=
  (∀ b, b < n → s'.buf b = s.buf b) ∧ (∀ o, o < m → s'.obj o = s.obj o) ∧ s'.syss = s.syss

theorem FrameOK.refl (n m : Nat) (s : State) : FrameOK n m s s := ⟨fun _ _ => rfl, fun _ _ => rfl, rfl⟩

theorem FrameOK.trans {n m : Nat} {s s1 s2 : State} (h1 : FrameOK n m s s1) (h2 : FrameOK n m s1 s2) :
    FrameOK n m s s2 :=
  ⟨fun b hb => (h2.1 b hb).trans (h1.1 b hb), fun o ho => (h2.2.1 o ho).trans (h1.2.1 o ho), h2.2.2.trans h1.2.2⟩

/-- all arrays of object `o` live in buffers allocated after the first `n`. -/
def FreshObj (n : Nat) (o : Nat) (s : State) : Prop := ∀ p ∈ (s.obj o).props, n ≤ p.arr.buf

theorem assign_frame (a : Arr) (sel : Sel) (v : Val) (s : State) (n m : Nat) (ha : n ≤ a.buf) :
    Post (assign a sel v) s (fun _ s' => FrameOK n m s s' ∧ s'.objs = s.objs ∧ s'.heap.length = s.heap.length) := by
  apply Post.mono (assign_spec a sel v s)
  intro r s' ⟨h1, h2⟩
  cases r with
  | error e => rw [h1 e rfl]; exact ⟨FrameOK.refl n m s, rfl, rfl⟩
  | ok u =>
    obtain ⟨_, _, _, hobjs, hsys, hlen, hother, _⟩ := h2 rfl
    refine ⟨⟨fun b hb => hother b (by omega), fun o _ => by simp [State.obj, hobjs], hsys⟩, hobjs, hlen⟩

theorem viewSet_lit_frame (o : Nat) (key : String) (v : Val) (s : State) (n m : Nat) (hm : m ≤ o)
    (hn : n ≤ s.heap.length) (hfresh : FreshObj n o s) :
    Post (viewSet o key (.lit v)) s (fun _ s' => FrameOK n m s s' ∧ FreshObj n o s' ∧ n ≤ s'.heap.length ∧
      s'.objs.length = s.objs.length) := by
  unfold viewSet
  rw [post_bind_getS]
  simp only []
  rcases viewBcast_cases s (s.obj o).natoms (.lit v) with ⟨e, he⟩ | ⟨src', he, hres⟩
  · rw [he, post_bind_fail]; exact ⟨FrameOK.refl n m s, hfresh, hn, rfl⟩
  rw [he, post_bind_pure]
  rcases viewGuard_cases key (s.obj o).natoms (srcVal s src') with ⟨e, hg⟩ | ⟨hg, _⟩
  · rw [hg, post_bind_fail]; exact ⟨FrameOK.refl n m s, hfresh, hn, rfl⟩
  rw [hg, post_bind_pure]
  split
  · rename_i a hfind
    obtain ⟨p, hp, _, hpa⟩ := find_mem _ _ _ hfind
    have ha : n ≤ a.buf := by rw [← hpa]; exact hfresh p hp
    apply Post.mono (assign_frame a _ _ s n m ha)
    intro r s' ⟨hf, hobjs, hlen⟩
    refine ⟨hf, ?_, by rw [hlen]; exact hn, by rw [hobjs]⟩
    intro p hp
    have : s'.obj o = s.obj o := by simp [State.obj, hobjs]
    rw [this] at hp
    exact hfresh p hp
  · rename_i hfind
    rcases hres with ⟨lv, t, rfl, hshape, _, _, _, _⟩ | ⟨a, hsrc, _, _⟩
    · simp only []
      rw [post_bind]
      apply Post.of_eq _ _ (allocVal_eq lv _ t hshape s)
      simp only []
      apply Post.of_eq _ _ (addProp_eq _ _ _ _)
      refine ⟨⟨?_, ?_, rfl⟩, ?_, by simp [addedState]; omega, by simp [addedState]⟩
      · intro b hb
        show (addedState _ o key _).buf b = s.buf b
        have : (addedState { s with heap := s.heap ++ [⟨lv.dt, t, rowsOf (s.obj o).natoms (prod t) lv.data⟩] } o key
            ⟨s.heap.length, List.range (s.obj o).natoms⟩).buf b =
            ({ s with heap := s.heap ++ [⟨lv.dt, t, rowsOf (s.obj o).natoms (prod t) lv.data⟩] } : State).buf b := rfl
        rw [this, buf_append_lt s _ b (by omega)]
      · intro o' ho'
        rw [obj_added]
        have : o' ≠ o := by omega
        simp [this]
        rfl
      · intro p hp
        rw [obj_added] at hp
        split at hp
        · simp only [List.mem_append, List.mem_singleton] at hp
          rcases hp with hp | rfl
          · exact hfresh p hp
          · exact hn
        · exact hfresh p hp
    · cases hsrc

theorem GetItemRes.frame {s s' : State} {o o' : Nat} {sel : Sel} (hr : GetItemRes s o sel o' s') :
    FrameOK s.heap.length s.objs.length s s' :=
  ⟨fun b hb => hr.heap.buf b hb, fun o'' ho'' => hr.objs o'' ho'', hr.syss⟩

theorem GetItemRes.freshObj {s s' : State} {o o' : Nat} {sel : Sel} (hr : GetItemRes s o sel o' s')
    (hcopy : sel.view = false ∨ sel.pos.length = 1) : FreshObj s.heap.length o' s' := by
  intro p' hp'
  obtain ⟨p, _, hrel⟩ := hr.colsRev p' hp'
  exact hrel.fresh hcopy

theorem resolve_list_copy (n : Nat) (l : List Int) (sel : Sel) (h : resolve n (atomsIndex (.list l)) = .ok sel) :
    sel.view = false := by
  simp only [atomsIndex, resolve] at h
  injection h with h; subst h; rfl

/-- **frame of `extend`** — `atoms.extend(value)` leaves every buffer and every object that existed
    before untouched and returns an object whose arrays all live in buffers allocated by the call. -/
theorem extendWith_frame {κ : Nat → String} {s : State} (h : InvK κ s) (o donor : Nat) (hap : HasAP (s.obj o)) :
    Post (extendWith o donor) s (fun r s' => (∀ e, r = .error e → s' = s) ∧
      ∀ o', r = .ok o' → o' = s.objs.length ∧ FrameOK s.heap.length s.objs.length s s' ∧
        FreshObj s.heap.length o' s') := by
  unfold extendWith
  rw [post_atomic, post_bind_getS]
  simp only []
  rw [post_bind]
  apply Post.mono (getItem_refines h o _ hap)
  intro r s1 ⟨_, hok1⟩
  cases r with
  | error e =>
    refine ⟨fun _ _ => trivial, ?_⟩
    intro o' hc; cases hc
  | ok nw =>
    simp only []
    obtain ⟨sel, hres, hgr⟩ := hok1 nw rfl
    have hcopy := resolve_list_copy _ _ _ hres
    have hnw : nw = s.objs.length := hgr.id
    have hf1 := hgr.frame
    have hfresh1 := hgr.freshObj (Or.inl hcopy)
    have hn1 : s.heap.length ≤ s1.heap.length := hgr.heap.len
    rw [post_bind]
    have hloop1 := post_forEach (s.obj donor).props
      (fun p => do
        let s1 ← getS
        if ((s1.obj nw).find p.key).isSome then pure () else
        if p.arr.idx = [] then fail .index else
        let tr := arrTrail s1 p.arr
        let dt := arrDt s1 p.arr
        viewSet nw p.key (.lit ⟨dt, ((s.obj o).natoms + (s.obj donor).natoms) :: tr,
          List.replicate (((s.obj o).natoms + (s.obj donor).natoms) * prod tr) (zeroCell dt)⟩))
      (fun st => FrameOK s.heap.length s.objs.length s st ∧ FreshObj s.heap.length nw st ∧ s.heap.length ≤ st.heap.length)
      (by
        intro p hp st ⟨hf, hfr, hn⟩
        rw [post_bind_getS]
        split
        · exact ⟨hf, hfr, hn⟩
        · split
          · exact ⟨hf, hfr, hn⟩
          · simp only []
            apply Post.mono (viewSet_lit_frame nw p.key _ st s.heap.length s.objs.length (by omega) hn hfr)
            intro r st' ⟨hf', hfr', hn', _⟩
            exact ⟨hf.trans hf', hfr', hn'⟩)
      s1 ⟨hf1, hfresh1, hn1⟩
    apply Post.mono hloop1
    intro r s2 ⟨hf2, hfr2, hn2⟩
    cases r with
    | error e =>
      refine ⟨fun _ _ => trivial, ?_⟩
      intro o' hc; cases hc
    | ok u =>
      simp only []
      rw [post_bind_getS, post_bind]
      have hloop2 := post_forEach (s2.obj nw).props
        (fun p => do
          let s3 ← getS
          let sel : Sel := { pos := sliceSel ((s.obj o).natoms + (s.obj donor).natoms) (some ((s.obj o).natoms : Int)) none 1,
                             view := true, scalar := false }
          match (s3.obj donor).find p.key with
          | some da => assign p.arr sel (arrVal s3 da)
          | none =>
            match (s3.obj o).find p.key with
            | none => fail .key
            | some sa =>
              if sa.idx = [] then fail .index else
              let tr := arrTrail s3 sa
              let dt := arrDt s3 sa
              assign p.arr sel ⟨dt, (s.obj donor).natoms :: tr, List.replicate ((s.obj donor).natoms * prod tr) (zeroCell dt)⟩)
        (fun st => FrameOK s.heap.length s.objs.length s st ∧ st.objs = s2.objs)
        (by
          intro p hp st ⟨hf, hobjs⟩
          have hpb : s.heap.length ≤ p.arr.buf := hfr2 p hp
          rw [post_bind_getS]
          simp only []
          split
          · apply Post.mono (assign_frame p.arr _ _ st s.heap.length s.objs.length hpb)
            intro r st' ⟨hf', hobjs', _⟩
            exact ⟨hf.trans hf', hobjs'.trans hobjs⟩
          · split
            · exact ⟨hf, hobjs⟩
            · split
              · exact ⟨hf, hobjs⟩
              · apply Post.mono (assign_frame p.arr _ _ st s.heap.length s.objs.length hpb)
                intro r st' ⟨hf', hobjs', _⟩
                exact ⟨hf.trans hf', hobjs'.trans hobjs⟩)
        s2 ⟨hf2, rfl⟩
      apply Post.mono hloop2
      intro r s3 ⟨hf3, hobjs3⟩
      cases r with
      | error e =>
        refine ⟨fun _ _ => trivial, ?_⟩
        intro o' hc; cases hc
      | ok u =>
        simp only []
        rw [post_pure]
        refine ⟨?_, ?_⟩
        · intro e hc; cases hc
        · intro o' ho'
          have : o' = nw := by
            have : (Except.ok nw : Except Err Nat) = .ok o' := ho'
            injection this with this; exact this.symm
          subst this
          refine ⟨hnw, hf3, ?_⟩
          intro p hp
          have : s3.obj o' = s2.obj o' := by simp [State.obj, hobjs3]
          rw [this] at hp
          exact hfr2 p hp

theorem FrameOK.weaken {n m n' m' : Nat} {s s' : State} (h : FrameOK n' m' s s') (hn : n ≤ n') (hm : m ≤ m') :
    FrameOK n m s s' :=
  ⟨fun b hb => h.1 b (by omega), fun o ho => h.2.1 o (by omega), h.2.2⟩

/-- the constructor called on literals touches nothing that existed and builds its object in fresh
    buffers. -/
theorem mkAtoms_lit_frame (natoms : Option Int) (atype pos : Option Val) (extra : List (String × Val)) (s : State) :
    Post (mkAtoms natoms (atype.map .lit) (pos.map .lit) (extra.map (fun kv => (kv.1, Src.lit kv.2)))) s
      (fun r s' => (∀ e, r = .error e → s' = s) ∧ ∀ o', r = .ok o' → o' = s.objs.length ∧
        FrameOK s.heap.length s.objs.length s s' ∧ FreshObj s.heap.length o' s' ∧
        s'.objs.length = s.objs.length + 1 ∧ s.heap.length ≤ s'.heap.length) := by
  unfold mkAtoms
  rw [post_atomic, post_bind_getS]
  simp only []
  rw [post_bind_liftE]
  split
  · rename_i n _
    -- every source is a literal
    obtain ⟨va, hva⟩ : ∃ va, (atype.map Src.lit).getD (.lit ⟨.int, [1], [.int 1]⟩) = .lit va := by
      cases atype <;> exact ⟨_, rfl⟩
    obtain ⟨vp, hvp⟩ : ∃ vp, (pos.map Src.lit).getD (.lit ⟨.flt, [1, 3], [.flt 0, .flt 0, .flt 0]⟩) = .lit vp := by
      cases pos <;> exact ⟨_, rfl⟩
    rw [hva, hvp]
    unfold mkAtomsWith
    rw [post_bind]
    apply Post.of_eq _ _ (pushObj_eq _ s)
    simp only []
    generalize hs0 : ({ s with objs := s.objs ++ [⟨n, []⟩] } : State) = s0
    have hf0 : FrameOK s.heap.length s.objs.length s s0 := by
      rw [← hs0]
      exact ⟨fun _ _ => rfl, fun o ho => obj_push_lt s _ o ho, rfl⟩
    have hfr0 : FreshObj s.heap.length s.objs.length s0 := by
      rw [← hs0]; intro p hp; rw [obj_push_eq] at hp; simp at hp
    have hn0 : s.heap.length ≤ s0.heap.length := by rw [← hs0]; exact Nat.le_refl _
    have hl0 : s0.objs.length = s.objs.length + 1 := by rw [← hs0]; simp
    have step : ∀ (key : String) (v : Val) (st : State),
        FrameOK s.heap.length s.objs.length s st ∧ FreshObj s.heap.length s.objs.length st ∧
          s.heap.length ≤ st.heap.length ∧ st.objs.length = s.objs.length + 1 →
        Post (viewSet s.objs.length key (.lit v)) st (fun _ st' =>
          FrameOK s.heap.length s.objs.length s st' ∧ FreshObj s.heap.length s.objs.length st' ∧
          s.heap.length ≤ st'.heap.length ∧ st'.objs.length = s.objs.length + 1) := by
      intro key v st ⟨hf, hfr, hn, hl⟩
      apply Post.mono (viewSet_lit_frame s.objs.length key v st s.heap.length s.objs.length (Nat.le_refl _) hn hfr)
      intro r st' ⟨hf', hfr', hn', hl'⟩
      exact ⟨hf.trans hf', hfr', hn', by rw [hl', hl]⟩
    rw [post_bind]
    apply Post.mono (step "atype" va s0 ⟨hf0, hfr0, hn0, hl0⟩)
    intro r s1 h1
    cases r with
    | error e =>
      refine ⟨fun _ _ => trivial, ?_⟩
      intro o' hc; cases hc
    | ok u =>
      simp only []
      rw [post_bind]
      apply Post.mono (step "pos" vp s1 h1)
      intro r s2 h2
      cases r with
      | error e =>
        refine ⟨fun _ _ => trivial, ?_⟩
        intro o' hc; cases hc
      | ok u =>
        simp only []
        rw [post_bind]
        have hloop := post_forEach (extra.map (fun kv => (kv.1, Src.lit kv.2)))
          (fun kv => viewSet s.objs.length kv.1 kv.2)
          (fun st => FrameOK s.heap.length s.objs.length s st ∧ FreshObj s.heap.length s.objs.length st ∧
            s.heap.length ≤ st.heap.length ∧ st.objs.length = s.objs.length + 1)
          (by
            intro kv hkv st hst
            simp only [List.mem_map] at hkv
            obtain ⟨kv0, _, rfl⟩ := hkv
            exact step kv0.1 kv0.2 st hst)
          s2 h2
        apply Post.mono hloop
        intro r s3 h3
        cases r with
        | error e =>
          refine ⟨fun _ _ => trivial, ?_⟩
          intro o' hc; cases hc
        | ok u =>
          simp only []
          rw [post_pure]
          refine ⟨?_, ?_⟩
          · intro e hc; cases hc
          · intro o' ho'
            have : o' = s.objs.length := by
              have : (Except.ok s.objs.length : Except Err Nat) = .ok o' := ho'
              injection this with this; exact this.symm
            subst this
            exact ⟨rfl, h3.1, h3.2.1, h3.2.2.2, h3.2.2.1⟩
  · refine ⟨fun _ _ => trivial, ?_⟩
    intro o' hc; cases hc

/-- **frame of `extend(int)`**. -/
theorem extendInt_frame {κ : Nat → String} {s : State} (h : InvK κ s) (o : Nat) (n : Int) (hap : HasAP (s.obj o))
    (ho : o < s.objs.length) :
    Post (extendInt o n) s (fun r s' => (∀ e, r = .error e → s' = s) ∧
      ∀ o', r = .ok o' → FrameOK s.heap.length s.objs.length s s' ∧ FreshObj s.heap.length o' s') := by
  unfold extendInt
  rw [post_atomic, post_bind]
  have h1 := inv_mkAtoms h (some n) none none [] (fun a ha => by cases ha) (fun a ha => by cases ha)
    (fun kv hkv => by simp at hkv)
  have h2 := mkAtoms_lit_frame (some n) none none [] s
  apply Post.mono (Post.and h1 h2)
  intro r s1 ⟨hm, _, hfr⟩
  cases r with
  | error e =>
    refine ⟨fun _ _ => (by first | exact rfl | exact trivial), ?_⟩
    intro o' hc; cases hc
  | ok d =>
    simp only []
    obtain ⟨hd, hf1, _, hl1, hn1⟩ := hfr d rfl
    obtain ⟨κ1, hinv1, hext1, _, _, _⟩ := hm
    have hap1 : HasAP (s1.obj o) := hap.persists hext1.le o
    apply Post.mono (extendWith_frame hinv1 o d hap1)
    intro r s2 ⟨_, hok⟩
    cases r with
    | error e =>
      refine ⟨fun _ _ => (by first | exact rfl | exact trivial), ?_⟩
      intro o' hc; cases hc
    | ok o' =>
      refine ⟨?_, ?_⟩
      · intro e hc; cases hc
      · intro o'' ho''
        have : o'' = o' := by
          have : (Except.ok o' : Except Err Nat) = .ok o'' := ho''
          injection this with this; exact this.symm
        subst this
        obtain ⟨_, hf2, hfr2⟩ := hok o'' rfl
        refine ⟨hf1.trans (hf2.weaken hn1 (by omega)), ?_⟩
        intro p hp
        exact Nat.le_trans hn1 (hfr2 p hp)

/-- **frame of `prop(index=…)`** (`deepcopy(self[index])`). -/
theorem propGetAtoms_frame {κ : Nat → String} {s : State} (h : InvK κ s) (hb : Boundary s) (o : Nat) (ix : Index)
    (ho : o < s.objs.length) :
    Post (propGetAtoms o ix) s (fun r s' => (∀ e, r = .error e → s' = s) ∧
      ∀ o', r = .ok o' → FrameOK s.heap.length s.objs.length s s' ∧ FreshObj s.heap.length o' s') := by
  unfold propGetAtoms
  rw [post_atomic, post_bind]
  apply Post.mono (Post.and (inv_getItem h o ix) (getItem_refines h o ix (hb o ho)))
  intro r s1 ⟨hm, _, hok1⟩
  cases r with
  | error e =>
    refine ⟨fun _ _ => (by first | exact rfl | exact trivial), ?_⟩
    intro o' hc; cases hc
  | ok d =>
    simp only []
    obtain ⟨sel, _, hgr⟩ := hok1 d rfl
    have hap1 : HasAP (s1.obj d) := by
      obtain ⟨_, _, _, _, _, hok⟩ := hm
      exact (hok d rfl).2.2
    obtain ⟨κ1, hinv1, _, _, _, _⟩ := hm
    apply Post.mono (deepcopy_refines hinv1 d hap1)
    intro r s2 ⟨_, hok2⟩
    cases r with
    | error e =>
      refine ⟨fun _ _ => (by first | exact rfl | exact trivial), ?_⟩
      intro o' hc; cases hc
    | ok o' =>
      refine ⟨?_, ?_⟩
      · intro e hc; cases hc
      · intro o'' ho''
        have : o'' = o' := by
          have : (Except.ok o' : Except Err Nat) = .ok o'' := ho''
          injection this with this; exact this.symm
        subst this
        have hgr2 := hok2 o'' rfl
        have hl1 : s.objs.length ≤ s1.objs.length := by rw [hgr.objsLen]; omega
        refine ⟨hgr.frame.trans (hgr2.frame.weaken hgr.heap.len hl1), ?_⟩
        intro p hp
        exact Nat.le_trans hgr.heap.len (hgr2.freshObj (Or.inl rfl) p hp)

/-! ### `atoms[index] = other`: the loop over the properties -/

/-- state of the `__setitem__` loop after the properties `done` were written. -/
structure SetLoop (κ : Nat → String) (s : State) (src : Nat) (sel : Sel) (done : List PropRef) (st : State) : Prop where
  objs : st.objs = s.objs
  syss : st.syss = s.syss
  heapLen : st.heap.length = s.heap.length
  other : ∀ b, (∀ p ∈ done, b ≠ p.arr.buf) → st.buf b = s.buf b
  cols : ∀ p ∈ done, ∃ a newRows, (s.obj src).find p.key = some a ∧ AssignedRows s p.arr sel (arrVal s a) newRows ∧
    arrRows st p.arr = writeRows (arrRows s p.arr) (sel.pos.zip newRows)

theorem arrVal_congr (s st : State) (a : Arr) (h : st.buf a.buf = s.buf a.buf) : arrVal st a = arrVal s a := by
  simp [arrVal, arrDt, arrTrail, arrRows, h]

theorem AssignedRows.congr {s st : State} {a : Arr} {sel : Sel} {v : Val} {newRows : List Row}
    (h : AssignedRows st a sel v newRows) (hb : st.buf a.buf = s.buf a.buf) : AssignedRows s a sel v newRows := by
  obtain ⟨flat, cells, h1, h2, h3⟩ := h
  refine ⟨flat, cells, ?_, ?_, ?_⟩
  · simpa [assignShape, hb] using h1
  · simpa [hb] using h2
  · simpa [hb] using h3

theorem setItem_loop_refines {κ : Nat → String} {s : State} (hinv : InvK κ s) (o src : Nat) (sel : Sel)
    (hpos : ∀ p ∈ sel.pos, p < (s.obj o).natoms) :
    ∀ (todo done : List PropRef) (st : State), done ++ todo = (s.obj o).props → SetLoop κ s src sel done st →
      Post (forEach todo (fun p => do
        let s' ← getS
        let a ← keyErr ((s'.obj src).find p.key)
        assign p.arr sel (arrVal s' a))) st (fun r st' => r = .ok () → SetLoop κ s src sel (done ++ todo) st') := by
  intro todo
  induction todo with
  | nil =>
    intro done st _ hl _
    show SetLoop κ s src sel (done ++ []) st
    rw [List.append_nil]; exact hl
  | cons p rest ih =>
    intro done st hsplit hl
    have hpmem : p ∈ (s.obj o).props := by rw [← hsplit]; simp
    have hp0 := hinv.obj_props o p hpmem
    have hnd : ((s.obj o).props.map (·.key)).Nodup := by
      by_cases ho : o < s.objs.length
      · exact hinv.nodup _ (obj_mem s o ho)
      · rw [obj_ge s o (Nat.le_of_not_lt ho)]; simp [emptyObj]
    -- the key of p was not processed yet
    have hknew : p.key ∉ done.map (·.key) := by
      rw [← hsplit] at hnd
      simp only [List.map_append, List.map_cons] at hnd
      have := (List.nodup_append.mp hnd).2.2
      intro hc
      exact this _ hc _ (by simp) rfl
    show Post (M.bind _ (fun _ => forEach rest _)) st _
    apply (post_bind _ _ _ _).mpr
    rw [post_bind_getS, post_bind_keyErr]
    have hobj : ∀ x, st.obj x = s.obj x := by intro x; simp [State.obj, hl.objs]
    rw [hobj]
    split
    · rename_i a hfind
      have ha := hinv.find_ok src p.key a hfind
      -- donor array and target array are untouched so far
      have hdone : ∀ q ∈ done, PropOK κ s (s.obj o).natoms q := by
        intro q hq; exact hinv.obj_props o q (by rw [← hsplit]; simp [hq])
      have hbuf_a : st.buf a.buf = s.buf a.buf := hl.other _ (by
        intro q hq hc
        have : q.key = p.key := by rw [← (hdone q hq).key, ← hc, ha.key]
        exact hknew (List.mem_map.mpr ⟨q, hq, this⟩))
      have hbuf_p : st.buf p.arr.buf = s.buf p.arr.buf := hl.other _ (by
        intro q hq hc
        have : q.key = p.key := by rw [← (hdone q hq).key, ← hc, hp0.key]
        exact hknew (List.mem_map.mpr ⟨q, hq, this⟩))
      rw [arrVal_congr s st a hbuf_a]
      apply Post.mono (assign_wrote p.arr sel (arrVal s a) st)
      intro r st1 ⟨_, h2⟩
      cases r with
      | error e => intro hc; cases hc
      | ok u =>
        simp only []
        obtain ⟨newRows, hn, _, hw⟩ := h2 rfl
        have hn' := hn.congr hbuf_p
        have hvalid_st : ArrValid st p.arr := ⟨by rw [hl.heapLen]; exact hp0.valid.1, by rw [hbuf_p]; exact hp0.valid.2⟩
        have hposl : ∀ i ∈ sel.pos, i < p.arr.idx.length := by rw [hp0.len]; exact hpos
        have hrb := hw.readback hvalid_st hp0.nodup hposl
        have hrows_p : arrRows st p.arr = arrRows s p.arr := by simp [arrRows, hbuf_p]
        have hl1 : SetLoop κ s src sel (done ++ [p]) st1 := by
          refine ⟨hw.objs.trans hl.objs, hw.syss.trans hl.syss, hw.heapLen.trans hl.heapLen, ?_, ?_⟩
          · intro b hb
            have hne : b ≠ p.arr.buf := hb p (by simp)
            rw [hw.other b hne]
            exact hl.other b (fun q hq => hb q (by simp [hq]))
          · intro q hq
            simp only [List.mem_append, List.mem_singleton] at hq
            rcases hq with hq | rfl
            · obtain ⟨a', nr', h1, h2', h3⟩ := hl.cols q hq
              refine ⟨a', nr', h1, h2', ?_⟩
              have hq0 := hinv.obj_props o q (by rw [← hsplit]; simp [hq])
              have hne : q.arr.buf ≠ p.arr.buf := by
                intro hc
                have : q.key = p.key := by rw [← hq0.key, hc, hp0.key]
                exact hknew (List.mem_map.mpr ⟨q, hq, this⟩)
              rw [hw.read q.arr hne]
              exact h3
            · exact ⟨a, newRows, hfind, hn', by rw [hrb, hrows_p]⟩
        have := ih (done ++ [p]) st1 (by rw [List.append_assoc]; simpa using hsplit) hl1
        apply Post.mono this
        intro r2 st2 hq hr2
        have := hq hr2
        simpa [List.append_assoc] using this
    · intro hc; cases hc

/-- **refines (`atoms[index] = other`)** — a returning `__setitem__` is, property by property, the record
    update "atom `sel.pos[j]` := atom `j` of the donor" (the donor's column as it was *before* the call,
    broadcast to the selection and cast to the target's dtype; later duplicates win); object tables and
    Systems are untouched and every buffer that belongs to no property of the target is unchanged. -/
theorem setItem_refines {κ : Nat → String} {s : State} (hinv : InvK κ s) (o : Nat) (ix : Index) (src : Nat) :
    Post (setItem o ix src) s (fun r s' => r = .ok () →
      ∃ sel, resolve (s.obj o).natoms (atomsIndex ix) = .ok sel ∧ s'.objs = s.objs ∧ s'.syss = s.syss ∧
        (∀ p ∈ (s.obj o).props, ∃ a newRows, (s.obj src).find p.key = some a ∧
          AssignedRows s p.arr sel (arrVal s a) newRows ∧
          arrRows s' p.arr = writeRows (arrRows s p.arr) (sel.pos.zip newRows)) ∧
        (∀ c : Arr, (∀ p ∈ (s.obj o).props, c.buf ≠ p.arr.buf) → arrRows s' c = arrRows s c)) := by
  unfold setItem
  rw [post_bind_getS]
  simp only []
  split
  · intro hc; cases hc
  · rw [post_bind_liftE]
    cases hres : resolve (s.obj o).natoms (atomsIndex ix) with
    | error e => intro hc; cases hc
    | ok sel =>
      simp only []
      obtain ⟨hpos, _⟩ := resolve_ok _ _ _ hres
      have h0 : SetLoop κ s src sel [] s := ⟨rfl, rfl, rfl, fun _ _ => rfl, fun p hp => by simp at hp⟩
      apply Post.mono (setItem_loop_refines hinv o src sel hpos (s.obj o).props [] s (by simp) h0)
      intro r s' hq hr
      have hl := hq hr
      simp only [List.nil_append] at hl
      refine ⟨sel, rfl, hl.objs, hl.syss, hl.cols, ?_⟩
      intro c hc
      simp [arrRows, hl.other c.buf hc]

/-! ### `view[key] = value` for a new key (a literal) -/

/-- **refines (`view[key] = value`, new key)** — the value is broadcast to `natoms` rows (scalar and
    leading-1 forms repeat the single row; the full form is taken row by row), stored in a buffer
    allocated by the call and bound as the last property of the object; nothing else changes (the exact
    resulting state is given). -/
theorem viewSet_new_refines (o : Nat) (key : String) (v : Val) (s : State) (hnew : (s.obj o).find key = none) :
    Post (viewSet o key (.lit v)) s (fun r s' => (∀ e, r = .error e → s' = s) ∧
      (r = .ok () → ∃ lv t, BcastRes s (s.obj o).natoms (.lit v) (.lit lv) ∧ lv.shape = (s.obj o).natoms :: t ∧
        s' = addedState { s with heap := s.heap ++ [⟨lv.dt, t, rowsOf (s.obj o).natoms (prod t) lv.data⟩] } o key
          ⟨s.heap.length, List.range (s.obj o).natoms⟩)) := by
  unfold viewSet
  rw [post_bind_getS]
  simp only []
  rcases viewBcast_cases s (s.obj o).natoms (.lit v) with ⟨e, he⟩ | ⟨src', he, hres⟩
  · rw [he, post_bind_fail]
    exact ⟨fun _ _ => rfl, fun hc => by cases hc⟩
  rw [he, post_bind_pure]
  rcases viewGuard_cases key (s.obj o).natoms (srcVal s src') with ⟨e, hg⟩ | ⟨hg, _⟩
  · rw [hg, post_bind_fail]
    exact ⟨fun _ _ => rfl, fun hc => by cases hc⟩
  rw [hg, post_bind_pure]
  simp only [hnew]
  have hres' := hres
  rcases hres with ⟨lv, t, rfl, hshape, _, _, _, _⟩ | ⟨a, hsrc, _, _⟩
  · simp only []
    rw [post_bind]
    apply Post.of_eq _ _ (allocVal_eq lv _ t hshape s)
    simp only []
    apply Post.of_eq _ _ (addProp_eq _ _ _ _)
    refine ⟨?_, ?_⟩
    · intro e hc; cases hc
    · intro _
      exact ⟨lv, t, hres', hshape, rfl⟩
  · cases hsrc

/-- the new column reads the rows of the broadcast value; every array that existed reads what it read. -/
theorem viewSet_new_reads (s : State) (o : Nat) (key : String) (lv : Val) (t : List Nat) (ho : o < s.objs.length)
    (hnew : (s.obj o).find key = none) :
    let s' := addedState { s with heap := s.heap ++ [⟨lv.dt, t, rowsOf (s.obj o).natoms (prod t) lv.data⟩] } o key
      ⟨s.heap.length, List.range (s.obj o).natoms⟩
    (s'.obj o).find key = some ⟨s.heap.length, List.range (s.obj o).natoms⟩ ∧
    arrRows s' ⟨s.heap.length, List.range (s.obj o).natoms⟩ = rowsOf (s.obj o).natoms (prod t) lv.data ∧
    (s'.obj o).props = (s.obj o).props ++ [⟨key, ⟨s.heap.length, List.range (s.obj o).natoms⟩⟩] ∧
    (∀ o', o' ≠ o → s'.obj o' = s.obj o') ∧ HeapExt s s' ∧ s'.syss = s.syss := by
  intro s'
  have hobj : ∀ x, ({ s with heap := s.heap ++ [⟨lv.dt, t, rowsOf (s.obj o).natoms (prod t) lv.data⟩] } : State).obj x
      = s.obj x := fun _ => rfl
  refine ⟨?_, ?_, ?_, ?_, ?_, rfl⟩
  · show ((addedState _ o key _).obj o).find key = _
    rw [obj_added]
    simp only [show o < ({ s with heap := s.heap ++ [⟨lv.dt, t, rowsOf (s.obj o).natoms (prod t) lv.data⟩] } : State).objs.length from ho,
      and_self, if_true, hobj]
    exact find_append_self _ _ _ hnew
  · show (List.range (s.obj o).natoms).map (fun i => ((addedState _ o key _).buf s.heap.length).rows[i]?.getD []) = _
    have : (addedState { s with heap := s.heap ++ [⟨lv.dt, t, rowsOf (s.obj o).natoms (prod t) lv.data⟩] } o key
        ⟨s.heap.length, List.range (s.obj o).natoms⟩).buf s.heap.length =
        ⟨lv.dt, t, rowsOf (s.obj o).natoms (prod t) lv.data⟩ := by simp [State.buf, addedState]
    rw [this]
    have := map_range_getD (rowsOf (s.obj o).natoms (prod t) lv.data) []
    rw [rowsOf_length] at this
    exact this
  · show ((addedState _ o key _).obj o).props = _
    rw [obj_added]
    simp only [show o < ({ s with heap := s.heap ++ [⟨lv.dt, t, rowsOf (s.obj o).natoms (prod t) lv.data⟩] } : State).objs.length from ho,
      and_self, if_true, hobj]
  · intro o' hne
    show (addedState _ o key _).obj o' = _
    rw [obj_added]; simp [hne]; rfl
  · exact (heapExt_alloc s _).trans (heapExt_added _ _ _ _)

end Atomman.C06
