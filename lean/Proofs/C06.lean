/-
  C06 — per-atom data stays rectangular, row-aligned, unaliased under any edit sequence.
  Property theorems about the model `Atomman/C06.lean` (tied to atomman/core/Atoms.py and
  atomman/core/System.py by the history correspondence of harness/props/c06.py).
-/
import Proofs.C06_Aux
import Proofs.C06_Observe
import Proofs.C06_Scaled
import Proofs.C06_Source

namespace Atomman.C06
set_option linter.unusedSimpArgs false
set_option linter.unusedVariables false

/-! ## the invariant of operation histories -/

/-- **The history invariant.**  `InvK κ s` (see `Proofs/C06_Inv.lean`): every buffer is rectangular
    and homogeneously typed, every property of every object exposes exactly `natoms` existing rows,
    keys are distinct, `atype` cells are numeric and ≥ 1, every system points at an existing `Atoms`
    and has a 3-entry `pbc`; `Boundary`: every object has an `atype` property. -/
def Inv (s : State) : Prop := (∃ κ, InvK κ s) ∧ Boundary s

/-- the stored form of the constructor's `pos` is a well-formed literal … -/
theorem posLit_ok (v : Val) (h : v.ok = true) : (posLit v).ok = true := by
  unfold posLit
  split
  · simp only [Val.ok, Bool.and_eq_true, beq_iff_eq, List.all_eq_true] at h ⊢
    refine ⟨by simpa using h.1, ?_⟩
    intro c hc
    simp only [List.mem_map] at hc
    obtain ⟨c0, _, rfl⟩ := hc
    cases c0 <;> simp [castCell, Cell.hasType]
  · exact h

/-- … never of an integer or boolean dtype (what `Atoms(pos=…)` binds as `pos` is a float or string array), of the
    shape it was given; a float / string literal is stored as it is. -/
theorem posLit_spec (v : Val) :
    (posLit v).dt ≠ .int ∧ (posLit v).dt ≠ .bool ∧ (posLit v).shape = v.shape ∧
    ((v.dt ≠ .int ∧ v.dt ≠ .bool) → posLit v = v) ∧ posLit (posLit v) = posLit v := by
  rcases v with ⟨dt, shape, data⟩
  cases dt <;> simp [posLit, posCastKinds, kindOf]

/-- every call of the documented grammar, started in a state satisfying the invariant, ends
    (normally or by raising) in a state satisfying it. -/
theorem inv_run {κ : Nat → String} {s : State} (h : InvK κ s) (hb : Boundary s) (off : Bool) (op : Op)
    (hlits : op.litsOk = true) (hids : op.idsOk s = true) :
    Post (run off op) s (fun _ s' => Good κ s s') := by
  cases op with
  | new n a p ex =>
    simp only [Op.litsOk, Bool.and_eq_true, List.all_eq_true] at hlits
    apply post_map_good
    apply Post.mono (inv_mkAtoms h n (a.map .lit) (p.map (fun v => Src.lit (posLit v)))
      (ex.map (fun kv => (kv.1, Src.lit kv.2))) ?_ ?_ ?_)
    · intro r s' hm; exact Good.of_made hm
    · intro src hsrc
      cases a with
      | none => cases hsrc
      | some v =>
        simp at hsrc; subst hsrc
        exact valOK_of_ok v (by simpa using hlits.1.1)
    · intro src hsrc
      cases p with
      | none => cases hsrc
      | some v =>
        simp at hsrc; subst hsrc
        exact valOK_of_ok (posLit v) (posLit_ok v (by simpa using hlits.1.2))
    · intro kv hkv
      simp only [List.mem_map] at hkv
      obtain ⟨kv0, hkv0, rfl⟩ := hkv
      exact valOK_of_ok _ (hlits.2 kv0 hkv0)
  | setView o k v =>
    apply post_unit_good
    exact Post.mono (inv_viewSet h o k (.lit v) (valOK_of_ok v hlits)) (fun _ _ hq => Good.of_kept hq.1)
  | propGet o k ix =>
    apply post_map_good
    exact Post.mono (propGet_post o k ix s) (fun _ _ he => good_of_eq h he)
  | propKeys o =>
    show Post (getS >>= _) s _
    rw [post_bind_getS]
    exact Good.refl h
  | propGetAtoms o ix =>
    apply post_map_good
    exact Post.mono (inv_propGetAtoms h o ix) (fun _ _ hq => hq.1)
  | propSet o k ix v =>
    apply post_unit_good
    exact Post.mono (inv_propSet h o k ix v (valOK_of_ok v hlits)) (fun _ _ hq => Good.of_kept hq)
  | propSetAtoms o ix src =>
    apply post_unit_good
    exact Post.mono (inv_propSetAtoms h o ix src) (fun _ _ hq => Good.of_kept hq)
  | getItem o ix =>
    apply post_map_good
    exact Post.mono (inv_getItem h o ix) (fun _ _ hq => Good.of_made hq)
  | setItem o ix src =>
    apply post_unit_good
    exact Post.mono (inv_setItem h o ix src) (fun _ _ hq => Good.of_kept hq)
  | propAtype o k v t =>
    apply post_unit_good
    exact Post.mono (inv_propAtype h o k v t (valOK_of_ok v hlits)) (fun _ _ hq => Good.of_kept hq)
  | extendInt o n =>
    apply post_map_good
    exact Post.mono (inv_extendInt h o n) (fun _ _ hq => hq.1)
  | extendAtoms o src =>
    apply post_map_good
    simp only [Op.idsOk, Bool.and_eq_true, decide_eq_true_eq] at hids
    exact Post.mono (inv_extendWith h o src (hb src hids.2).1) (fun _ _ hq => Good.of_made hq)
  | deepcopy o =>
    apply post_map_good
    exact Post.mono (inv_deepcopy h o) (fun _ _ hq => Good.of_made hq)
  | natypes o =>
    apply post_map_good
    exact Post.mono (natypes_post o s) (fun _ _ hq => good_of_eq h hq.1)
  | mkSys o box pbc sy ms =>
    apply post_map_good
    simp only [Op.idsOk, decide_eq_true_eq] at hids
    exact Post.mono (inv_mkSys h o box pbc sy ms hids) (fun _ _ hq => hq.good)
  | mkSysX o box pbc sy ms sc cp =>
    apply post_map_good
    simp only [Op.idsOk, decide_eq_true_eq] at hids
    exact inv_mkSysX h o box pbc sy ms sc cp hids
  | symbolsGet i =>
    apply post_map_good
    exact Post.mono (inv_symbolsGet h i) (fun _ _ hq => hq.1.1.good)
  | symbolsSet i l =>
    apply post_unit_good
    exact Post.mono (inv_symbolsSet h i l) (fun _ _ hq => hq.1.1.good)
  | massesGet i =>
    apply post_map_good
    exact Post.mono (inv_massesGet h i) (fun _ _ hq => hq.1.1.good)
  | massesSet i l =>
    apply post_unit_good
    exact Post.mono (inv_massesSet h i l) (fun _ _ hq => hq.1.1.good)
  | pbcSet i l =>
    apply post_unit_good
    exact Post.mono (inv_pbcSet h i l) (fun _ _ hq => hq.1.good)
  | sysNatypes i =>
    apply post_map_good
    exact Post.mono (inv_sysNatypes h i) (fun _ _ hq => hq.1.1.good)
  | sysAtypes i =>
    apply post_map_good
    exact Post.mono (inv_sysAtypes h i) (fun _ _ hq => hq.1.1.good)
  | composition i =>
    apply post_map_good
    exact Post.mono (inv_composition h i) (fun _ _ hq => hq.1.good)
  | sysPropGet i k ix =>
    show Post (getS >>= _) s _
    rw [post_bind_getS]
    apply post_map_good
    exact Post.mono (propGet_post _ k ix s) (fun _ _ he => good_of_eq h he)
  | sysPropGetAtoms i ix =>
    show Post (getS >>= _) s _
    rw [post_bind_getS]
    apply post_map_good
    exact Post.mono (inv_propGetAtoms h _ ix) (fun _ _ hq => hq.1)
  | sysPropGetScaled i k ix =>
    apply post_map_good
    exact Post.mono (sysPropGetScaled_post i k ix s) (fun _ _ he => good_of_eq h he)
  | sysPropGetAtomsScaled i ix =>
    apply post_map_good
    exact inv_sysPropGetAtomsScaled h i ix
  | sysDeepcopy i =>
    apply post_map_good
    simp only [Op.idsOk, decide_eq_true_eq] at hids
    exact inv_sysDeepcopy h i hids
  | sysPropSet i k ix v scale =>
    show Post (getS >>= _) s _
    rw [post_bind_getS]
    apply post_unit_good
    cases scale with
    | true => exact Post.mono (inv_sysPropSetScaled h i k ix v (valOK_of_ok v hlits)) (fun _ _ hq => Good.of_kept hq)
    | false => exact Post.mono (inv_propSet h _ k ix v (valOK_of_ok v hlits)) (fun _ _ hq => Good.of_kept hq)
  | sysPropSetAtoms i ix src scale =>
    show Post (getS >>= _) s _
    rw [post_bind_getS]
    apply post_unit_good
    cases scale with
    | true => exact Post.mono (inv_sysPropSetAtomsScaled h i ix src) (fun _ _ hq => Good.of_kept hq)
    | false => exact Post.mono (inv_propSetAtoms h _ ix src) (fun _ _ hq => Good.of_kept hq)
  | sysExtend i v scale sy =>
    apply post_map_good
    apply inv_sysExtend h hb off i v scale sy
    intro d hd
    subst hd
    simp only [Op.idsOk, Bool.and_eq_true, decide_eq_true_eq] at hids
    exact hids.2
  | ixGet i ix =>
    apply post_map_good
    exact inv_ixGet h i ix
  | ixSet i ix src =>
    show Post (getS >>= _) s _
    rw [post_bind_getS]
    apply post_unit_good
    cases src with
    | inl o => exact Post.mono (inv_setItem h _ ix o) (fun _ _ hq => Good.of_kept hq)
    | inr j => exact Post.mono (inv_setItem h _ ix _) (fun _ _ hq => Good.of_kept hq)
  | df o =>
    show Post (getS >>= _) s _
    rw [post_bind_getS]
    exact Good.refl h
  | sysDf i sc =>
    show Post (getS >>= _) s _
    rw [post_bind_getS, post_bind_liftE]
    cases sysDfColumns s i (dfScaleKeys sc) with
    | ok c => exact Good.refl h
    | error e => exact Good.refl h

theorem init_inv : Inv init := by
  refine ⟨⟨fun _ => "", ?_, ?_, ?_, ?_⟩, ?_⟩
  · intro b hb; simp [init] at hb
  · intro o ho; simp [init] at ho
  · intro o ho; simp [init] at ho
  · intro y hy; simp [init] at hy
  · intro o ho; simp [init] at ho

/-- **inv_step** — one operation of a history (any operation of the grammar, well-formed or not,
    accepted or refused, both variants of `atoms_extend`) keeps the invariant. -/
theorem inv_stepWith (off : Bool) (s : State) (op : Op) (h : Inv s) : Inv (stepWith off s op).2 := by
  rcases stepWith_state off s op with he | ⟨⟨hl, hi⟩, he⟩
  · rw [he]; exact h
  · obtain ⟨⟨κ, hinv⟩, hb⟩ := h
    have := inv_run hinv hb off op hl hi
    unfold Post at this
    rw [he]
    obtain ⟨κ', hinv', _, hb'⟩ := this
    exact ⟨⟨κ', hinv'⟩, hb' hb⟩

theorem inv_step (s : State) (op : Op) (h : Inv s) : Inv (step s op) := inv_stepWith false s op h

/-- **inv_reachable** — the invariant holds after every finite history from the empty state. -/
theorem inv_reachable (ops : List Op) : Inv (ops.foldl step init) := by
  suffices ∀ s, Inv s → Inv (ops.foldl step s) from this init init_inv
  induction ops with
  | nil => intro s hs; exact hs
  | cons op rest ih => intro s hs; exact ih _ (inv_step s op hs)

/-- the same from any state satisfying the invariant (histories can be continued). -/
theorem inv_history (s : State) (ops : List Op) (h : Inv s) : Inv (ops.foldl step s) := by
  induction ops generalizing s with
  | nil => exact h
  | cons op rest ih => exact ih _ (inv_step s op h)

/-! ## what the invariant says about what can be read back -/

/-- **rectangular** — in every state satisfying the invariant, every property `p` of every object
    `o`, read as a value, has shape `natoms :: trail`, holds exactly `natoms * prod trail` cells, all of
    the property's dtype (strings no longer than the declared width); property names are distinct. -/
theorem inv_rectangular (s : State) (h : Inv s) (o : Nat) (p : PropRef) (hp : p ∈ (s.obj o).props) :
    (arrVal s p.arr).shape = (s.obj o).natoms :: arrTrail s p.arr ∧
    (arrVal s p.arr).data.length = (s.obj o).natoms * prod (arrTrail s p.arr) ∧
    (∀ c ∈ (arrVal s p.arr).data, c.hasType (arrDt s p.arr) = true) ∧
    (arrRows s p.arr).length = (s.obj o).natoms ∧
    (∀ r ∈ arrRows s p.arr, r.length = prod (arrTrail s p.arr)) ∧
    ((s.obj o).props.map (·.key)).Nodup := by
  obtain ⟨⟨κ, hinv⟩, _⟩ := h
  have hp0 := hinv.obj_props o p hp
  have hv := arrVal_ok hinv hp0.valid
  have hb := hinv.buf_ok p.arr.buf
  refine ⟨by simp [arrVal, hp0.len], ?_, hv.2, by simp [arrRows, hp0.len], ?_, ?_⟩
  · rw [hv.1]; simp [arrVal, prod, hp0.len]
  · intro r hr
    obtain ⟨i, _, _, hmem⟩ := arrRows_mem hp0.valid r hr
    exact hb.width r hmem
  · by_cases ho : o < s.objs.length
    · exact hinv.nodup _ (obj_mem s o ho)
    · rw [obj_ge s o (Nat.le_of_not_lt ho)]; simp [emptyObj]

theorem reachable_rectangular (ops : List Op) (o : Nat) (p : PropRef)
    (hp : p ∈ ((ops.foldl step init).obj o).props) :
    (arrVal (ops.foldl step init) p.arr).shape =
      ((ops.foldl step init).obj o).natoms :: arrTrail (ops.foldl step init) p.arr ∧
    (arrVal (ops.foldl step init) p.arr).data.length =
      ((ops.foldl step init).obj o).natoms * prod (arrTrail (ops.foldl step init) p.arr) ∧
    (∀ c ∈ (arrVal (ops.foldl step init) p.arr).data, c.hasType (arrDt (ops.foldl step init) p.arr) = true) :=
  let h := inv_rectangular _ (inv_reachable ops) o p hp
  ⟨h.1, h.2.1, h.2.2.1⟩

/-- **atype ≥ 1** — in every state satisfying the invariant every object has an `atype` property and
    every cell of it is numeric and at least 1. -/
theorem inv_atype_ge_one (s : State) (h : Inv s) (o : Nat) (ho : o < s.objs.length) :
    ∃ a, (s.obj o).find "atype" = some a ∧ ∀ c ∈ (arrVal s a).data, ∃ q, c.num? = some q ∧ 1 ≤ q := by
  obtain ⟨⟨κ, hinv⟩, hb⟩ := h
  have := (hb o ho).1
  cases hf : (s.obj o).find "atype" with
  | none => simp [hf] at this
  | some a =>
    refine ⟨a, rfl, ?_⟩
    exact arrVal_ge1 ((hinv.find_ok o "atype" a hf).atype rfl)

theorem reachable_atype_ge_one (ops : List Op) (o : Nat) (ho : o < (ops.foldl step init).objs.length) :
    ∃ a, ((ops.foldl step init).obj o).find "atype" = some a ∧
      ∀ c ∈ (arrVal (ops.foldl step init) a).data, ∃ q, c.num? = some q ∧ 1 ≤ q :=
  inv_atype_ge_one _ (inv_reachable ops) o ho

/-- consequently the `np.min(self.atype) < 1` refusal of `natypes` is never taken on an object of a
    state satisfying the invariant. -/
theorem inv_natypes_min (s : State) (h : Inv s) (o : Nat) (ho : o < s.objs.length)
    (a : Arr) (nums : List Rat) (mn : Rat) (hf : (s.obj o).find "atype" = some a)
    (hn : (arrVal s a).data.mapM Cell.num? = some nums) (hm : listMin nums = some mn) : ¬ mn < 1 := by
  obtain ⟨a', hf', hge⟩ := inv_atype_ge_one s h o ho
  rw [hf] at hf'; injection hf' with hf'; subst hf'
  have hmem : mn ∈ nums := by
    cases nums with
    | nil => simp [listMin] at hm
    | cons x xs =>
      simp only [listMin, Option.some.injEq] at hm
      subst hm
      exact foldl_min_mem xs x
  obtain ⟨hlen, hback⟩ := mapM_option _ _ _ hn
  obtain ⟨c, hc, hcq⟩ := hback mn hmem
  obtain ⟨q, hq, h1⟩ := hge c hc
  rw [hcq] at hq; injection hq with hq; subst hq
  exact Rat.not_lt.mpr h1

/-! ## symbols and masses are padded to the number of atom types once read -/

/-- `symbols` getter: the returned tuple is what the system now stores and is at least as long as
    `natypes` of the system's atoms (evaluated in the state the getter leaves). -/
theorem symbols_padded (s : State) (h : Inv s) (i : Nat) (hi : i < s.syss.length) (l : List (Option String))
    (s' : State) (hrun : symbolsGet i s = (.ok l, s')) :
    (s'.sys i).symbols = l ∧ ∃ nt, (natypes (s'.sys i).atoms s').1 = .ok nt ∧ nt ≤ l.length := by
  obtain ⟨⟨κ, hinv⟩, _⟩ := h
  have := inv_symbolsGet hinv i
  unfold Post at this
  rw [hrun] at this
  obtain ⟨hk, hres⟩ := this
  obtain ⟨hl, hnt⟩ := hres l rfl
  obtain ⟨nt, hnt, hle⟩ := hnt hi
  exact ⟨hl.symm, nt, by rw [← hnt]; exact ntOf_congr hk.1 i hi, hle⟩

/-- `masses` getter: likewise. -/
theorem masses_padded (s : State) (h : Inv s) (i : Nat) (hi : i < s.syss.length) (l : List (Option Rat))
    (s' : State) (hrun : massesGet i s = (.ok l, s')) :
    (s'.sys i).masses = l ∧ ∃ nt, (natypes (s'.sys i).atoms s').1 = .ok nt ∧ nt ≤ l.length := by
  obtain ⟨⟨κ, hinv⟩, _⟩ := h
  have := inv_massesGet hinv i
  unfold Post at this
  rw [hrun] at this
  obtain ⟨hk, hres⟩ := this
  obtain ⟨hl, hnt⟩ := hres l rfl
  obtain ⟨nt, hnt, hle⟩ := hnt hi
  exact ⟨hl.symm, nt, by rw [← hnt]; exact ntOf_congr hk.1 i hi, hle⟩

/-- `System.natypes` is at least `atoms.natypes`. -/
theorem sysNatypes_ge (s : State) (h : Inv s) (i : Nat) (hi : i < s.syss.length) (n : Nat) (s' : State)
    (hrun : sysNatypes i s = (.ok n, s')) : ∃ nt, (natypes (s'.sys i).atoms s').1 = .ok nt ∧ nt ≤ n := by
  obtain ⟨⟨κ, hinv⟩, _⟩ := h
  have := inv_sysNatypes hinv i
  unfold Post at this
  rw [hrun] at this
  obtain ⟨hk, hres⟩ := this
  obtain ⟨nt, hnt, hle⟩ := hres n rfl hi
  exact ⟨nt, by rw [← hnt]; exact ntOf_congr hk.1 i hi, hle⟩

/-- the setters pad as well: after `system.symbols = value` the stored tuple is `value` padded with
    `None` up to `natypes`. -/
theorem symbolsSet_pads (s : State) (h : Inv s) (i : Nat) (hi : i < s.syss.length) (value : List (Option String))
    (s' : State) (hrun : symbolsSet i value s = (.ok (), s')) :
    ∃ nt, (natypes (s.sys i).atoms s).1 = .ok nt ∧ (s'.sys i).symbols = padTo value nt ∧
      nt ≤ (s'.sys i).symbols.length ∧ value.length ≤ (s'.sys i).symbols.length := by
  obtain ⟨⟨κ, hinv⟩, _⟩ := h
  have := inv_symbolsSet hinv i value
  unfold Post at this
  rw [hrun] at this
  obtain ⟨nt, hnt, hsym⟩ := this.2 rfl hi
  exact ⟨nt, hnt, hsym, by rw [hsym]; exact (padTo_length _ _).1, by rw [hsym]; exact (padTo_length _ _).2⟩


/-! ## the observers and the lazily padded tuples behind them: read order is irrelevant -/

/-- **closed form of every observer.**  On a system `i` whose atoms have `natypes = nt`, the reply to
    `symbols` / `masses` / `natypes` / `atypes` / `composition` is a function of the *stored* tuples and of
    `nt` alone (`symView` = stored symbols padded with `None` to `nt`, `ntView` = `max nt (len symView)`,
    `massView` = stored masses padded to `ntView`, …), whatever padding has or has not happened yet. -/
theorem observer_closed_form (s : State) (g : Getter) (i nt : Nat) (hi : i < s.syss.length)
    (hnt : ntOf s i = .ok nt) : output s (g.op i) = g.view s i nt := by
  show (stepWith false s (g.op i)).1 = _
  rw [(stepWith_getter false s g i).1, if_pos hi, hnt]

/-- **every view is padded**: never shorter than the number of atom types of the atoms (nor, for the
    masses, than `System.natypes`), in *every* state — no invariant, no previous read is needed. -/
theorem observers_padded (s : State) (i nt : Nat) :
    nt ≤ (symView s i nt).length ∧ nt ≤ ntView s i nt ∧ (symView s i nt).length ≤ ntView s i nt ∧
    ntView s i nt ≤ (massView s i nt).length ∧ nt ≤ (massView s i nt).length ∧
    ((List.range (ntView s i nt)).map (· + 1)).length = ntView s i nt := by
  have h1 : nt ≤ (symView s i nt).length := (padTo_length _ _).1
  have h2 : nt ≤ ntView s i nt ∧ (symView s i nt).length ≤ ntView s i nt := by
    unfold ntView; split <;> omega
  have h3 : ntView s i nt ≤ (massView s i nt).length := (padTo_length _ _).1
  exact ⟨h1, h2.1, h2.2, h3, Nat.le_trans h2.1 h3, by simp⟩

/-- an observer only ever replaces a stored tuple by its own view: the state it leaves is
    observationally equal to the one it found. -/
theorem observer_keeps_views (s : State) (op : Op) (h : IsObs op) : ObsEq s (step s op) := obsEq_step s op h

/-- **read order is irrelevant.**  After ANY sequence of observations (any getters, on any systems, in
    any order, each of them free to pad hidden tuples) every observer replies exactly what it would
    have replied had it been issued first. -/
theorem read_order_irrelevant (s : State) (obs : List Op) (hobs : ∀ o ∈ obs, IsObs o) (g : Getter) (i : Nat) :
    output (obs.foldl step s) (g.op i) = output s (g.op i) :=
  output_obsEq (obsEq_foldl obs hobs s) g i

/-- **every getter returns a padded tuple in every reachable state regardless of the read order.**
    `ops` is any history (mutations and reads interleaved at will), `obs` any further sequence of reads;
    whatever was or was not read, `symbols`, `masses`, `natypes` and `atypes` of system `i` reply the
    padded views of the state the history reached, all at least `atoms.natypes` long. -/
theorem observers_padded_any_order (ops obs : List Op) (hobs : ∀ o ∈ obs, IsObs o) (i nt : Nat)
    (hi : i < (ops.foldl step init).syss.length) (hnt : ntOf (ops.foldl step init) i = .ok nt) :
    ∃ (sy : List (Option String)) (ms : List (Option Rat)) (n : Nat),
      output (obs.foldl step (ops.foldl step init)) (.symbolsGet i) = .ok (.syms sy) ∧
      output (obs.foldl step (ops.foldl step init)) (.massesGet i) = .ok (.masses ms) ∧
      output (obs.foldl step (ops.foldl step init)) (.sysNatypes i) = .ok (.nat n) ∧
      output (obs.foldl step (ops.foldl step init)) (.sysAtypes i) = .ok (.nats ((List.range n).map (· + 1))) ∧
      nt ≤ sy.length ∧ nt ≤ ms.length ∧ nt ≤ n ∧ sy.length ≤ n ∧ n ≤ ms.length := by
  have hp := observers_padded (ops.foldl step init) i nt
  refine ⟨symView (ops.foldl step init) i nt, massView (ops.foldl step init) i nt, ntView (ops.foldl step init) i nt,
    ?_, ?_, ?_, ?_, hp.1, hp.2.2.2.2.1, hp.2.1, hp.2.2.1, hp.2.2.2.1⟩
  · exact (read_order_irrelevant _ obs hobs .symbols i).trans (observer_closed_form _ .symbols i nt hi hnt)
  · exact (read_order_irrelevant _ obs hobs .masses i).trans (observer_closed_form _ .masses i nt hi hnt)
  · exact (read_order_irrelevant _ obs hobs .natypes i).trans (observer_closed_form _ .natypes i nt hi hnt)
  · exact (read_order_irrelevant _ obs hobs .atypes i).trans (observer_closed_form _ .atypes i nt hi hnt)

/-- in a state satisfying the invariant `atoms.natypes` of every system is defined as soon as the atoms'
    `atype` column is not empty (the only way the real `natypes` raises on a reachable state is
    `np.min` of an empty array): the hypothesis `ntOf … = .ok nt` of the theorems above is then met. -/
theorem inv_ntOf_ok (s : State) (h : Inv s) (i : Nat) (hi : i < s.syss.length)
    (hne : ∀ a, (s.obj (s.sys i).atoms).find "atype" = some a → (arrVal s a).data ≠ []) :
    ∃ nt, ntOf s i = .ok nt := by
  have ho : (s.sys i).atoms < s.objs.length := by
    obtain ⟨⟨κ, hinv⟩, _⟩ := h
    exact (hinv.syss _ (sys_mem s i hi)).1
  obtain ⟨a, hf, hge⟩ := inv_atype_ge_one s h _ ho
  obtain ⟨nums, hnums⟩ := mapM_num_total (arrVal s a).data (fun c hc => by
    obtain ⟨q, hq, _⟩ := hge c hc; simp [hq])
  have hlen := (mapM_option _ _ _ hnums).1
  have hdat := hne a hf
  unfold ntOf
  rw [natypes_closed, hf]
  simp only [hnums]
  cases nums with
  | nil =>
    exfalso
    apply hdat
    exact List.eq_nil_of_length_eq_zero (by simpa using hlen.symm)
  | cons x xs =>
    have hmin : ∃ mn, listMin (x :: xs) = some mn := ⟨_, rfl⟩
    obtain ⟨mn, hmn⟩ := hmin
    have hnot := inv_natypes_min s h _ ho a (x :: xs) mn hf hnums hmn
    have hmax : ∃ mx, listMax (x :: xs) = some mx := ⟨_, rfl⟩
    obtain ⟨mx, hmx⟩ := hmax
    rw [hmn, hmx]
    simp only [hnot, if_false]
    exact ⟨_, rfl⟩

/-- the same for reachable states, packaged: every getter of every system over non-empty atoms replies
    a padded tuple after any history and any sequence of reads. -/
theorem reachable_observers_padded (ops obs : List Op) (hobs : ∀ o ∈ obs, IsObs o) (i : Nat)
    (hi : i < (ops.foldl step init).syss.length)
    (hne : ∀ a, ((ops.foldl step init).obj ((ops.foldl step init).sys i).atoms).find "atype" = some a →
      (arrVal (ops.foldl step init) a).data ≠ []) :
    ∃ (nt : Nat) (sy : List (Option String)) (ms : List (Option Rat)) (n : Nat),
      ntOf (ops.foldl step init) i = .ok nt ∧
      output (obs.foldl step (ops.foldl step init)) (.symbolsGet i) = .ok (.syms sy) ∧
      output (obs.foldl step (ops.foldl step init)) (.massesGet i) = .ok (.masses ms) ∧
      output (obs.foldl step (ops.foldl step init)) (.sysNatypes i) = .ok (.nat n) ∧
      output (obs.foldl step (ops.foldl step init)) (.sysAtypes i) = .ok (.nats ((List.range n).map (· + 1))) ∧
      nt ≤ sy.length ∧ nt ≤ ms.length ∧ nt ≤ n ∧ sy.length ≤ n ∧ n ≤ ms.length := by
  obtain ⟨nt, hnt⟩ := inv_ntOf_ok _ (inv_reachable ops) i hi hne
  obtain ⟨sy, ms, n, h1, h2, h3, h4, h5⟩ := observers_padded_any_order ops obs hobs i nt hi hnt
  exact ⟨nt, sy, ms, n, hnt, h1, h2, h3, h4, h5⟩

/-- what the getters return is also what they store: after reading `masses` the stored symbols and
    masses *are* the views (so the next read takes the no-padding branch). -/
theorem massesGet_stores (s : State) (i nt : Nat) (hi : i < s.syss.length) (hnt : ntOf s i = .ok nt) :
    ((massesGet i s).2.sys i).symbols = symView s i nt ∧ ((massesGet i s).2.sys i).masses = massView s i nt := by
  rw [massesGet_closed i s nt hi hnt]
  have hi1 : i < (putSym s i (symView s i nt)).syss.length := by rw [putSym_len]; exact hi
  constructor
  · show ((putMass (putSym s i (symView s i nt)) i (massView s i nt)).sys i).symbols = _
    rw [putMass_sys]; simp only [hi1, and_self, if_true]
    rw [putSym_sys]; simp [hi]
  · show ((putMass (putSym s i (symView s i nt)) i (massView s i nt)).sys i).masses = _
    rw [putMass_sys]; simp [hi1]

/-- the `masses` setter measures against `System.natypes` *as a fresh read would report it* (`ntView`), not
    against whatever the stale stored symbols happen to hold: up to `ntView` masses are accepted and
    padded to `ntView`, more are refused — whether or not anything was read since the types grew. -/
theorem massesSet_spec (s : State) (i nt : Nat) (hi : i < s.syss.length) (hnt : ntOf s i = .ok nt)
    (v : List (Option Rat)) :
    (v.length ≤ ntView s i nt → (massesSet i v s).1 = .ok () ∧
      ((massesSet i v s).2.sys i).masses = padTo v (ntView s i nt) ∧
      ((massesSet i v s).2.sys i).symbols = symView s i nt) ∧
    (ntView s i nt < v.length → (massesSet i v s).1 = .error .value) := by
  rw [massesSet_closed i v s nt hi hnt]
  have hi1 : i < (putSym s i (symView s i nt)).syss.length := by rw [putSym_len]; exact hi
  constructor
  · intro hle
    have : ¬ v.length > ntView s i nt := by omega
    rw [if_neg this]
    refine ⟨rfl, ?_, ?_⟩
    · show ((putMass (putSym s i (symView s i nt)) i (padTo v (ntView s i nt))).sys i).masses = _
      rw [putMass_sys]; simp [hi1]
    · show ((putMass (putSym s i (symView s i nt)) i (padTo v (ntView s i nt))).sys i).symbols = _
      rw [putMass_sys]; simp only [hi1, and_self, if_true]
      rw [putSym_sys]; simp [hi]
  · intro hgt
    have : v.length > ntView s i nt := hgt
    rw [if_pos this]

/-! ## refusals: one lemma per refusal branch (nothing is defaulted) -/

/-- `view[key] = value` with a first dimension that is neither 1 nor `natoms`: ValueError, nothing changes. -/
theorem viewSet_len_mismatch_rejects (s : State) (o : Nat) (key : String) (src : Src) (d : Nat) (t : List Nat)
    (hs : (srcVal s src).shape = d :: t) (h1 : d ≠ 1) (hn : d ≠ (s.obj o).natoms) :
    viewSet o key src s = (.error .value, s) := by
  apply eq_of_post
  unfold viewSet
  rw [post_bind_getS]
  simp only []
  have : viewBcast s (s.obj o).natoms src = fail .value := by
    unfold viewBcast
    simp only [hs, h1, hn, if_false, ne_eq, not_false_eq_true, if_true]
  rw [this, post_bind_fail]
  exact ⟨rfl, rfl⟩

/-- whole-column assignment of atom types containing a value below 1: ValueError, nothing changes. -/
theorem viewSet_atype_lt_one_rejects (s : State) (o : Nat) (v : Val) (t : List Nat)
    (hs : v.shape = (s.obj o).natoms :: t) (hn1 : (s.obj o).natoms ≠ 1) (hpos : 0 < (s.obj o).natoms)
    (hnum : ∀ c ∈ v.data, (c.num?).isSome) (c : Cell) (hc : c ∈ v.data) (q : Rat) (hq : c.num? = some q)
    (hlt : q < 1) : viewSet o "atype" (.lit v) s = (.error .value, s) := by
  apply eq_of_post
  unfold viewSet
  rw [post_bind_getS]
  simp only []
  have hb : viewBcast s (s.obj o).natoms (.lit v) = pure (.lit v) := by
    unfold viewBcast
    simp only [srcVal, hs, hn1, if_false, ne_eq, not_true_eq_false]
    rfl
  rw [hb, post_bind_pure]
  obtain ⟨nums, m, h1, h2, h3⟩ := guard_fires v.data hnum c hc q hq hlt
  have hg : viewGuard "atype" (s.obj o).natoms (srcVal s (.lit v)) = fail .value := by
    unfold viewGuard
    simp only [srcVal, hpos, and_self, if_true, h1, h2, h3]
  rw [hg, post_bind_fail]
  exact ⟨rfl, rfl⟩

/-- indexed write of an atom type below 1 (`prop('atype', index, value)`): ValueError, nothing changes. -/
theorem propSet_atype_lt_one_rejects (s : State) (o : Nat) (ix : Index) (v : Val)
    (hnum : ∀ c ∈ v.data, (c.num?).isSome) (c : Cell) (hc : c ∈ v.data) (q : Rat) (hq : c.num? = some q)
    (hlt : q < 1) : propSet o "atype" (some ix) v s = (.error .value, s) := by
  apply eq_of_post
  unfold propSet
  simp only []
  obtain ⟨nums, m, h1, h2, h3⟩ := guard_fires v.data hnum c hc q hq hlt
  have hne : v.data ≠ [] := by intro h; rw [h] at hc; simp at hc
  have hg : atypeGuard "atype" v = fail .value := by
    unfold atypeGuard
    simp only [hne, ne_eq, not_false_eq_true, and_self, if_true, h1, h2, h3]
  rw [hg, post_bind_fail]
  exact ⟨rfl, rfl⟩

/-- a value numpy cannot broadcast to the selected rows: ValueError, nothing is written. -/
theorem assign_shape_mismatch_rejects (s : State) (a : Arr) (sel : Sel) (v : Val)
    (h : bcast v (assignShape s a sel) = none) : ∃ e, assign a sel v s = (.error e, s) ∧ (e = .value ∨ e = .type) := by
  unfold assign
  simp only []
  split
  · exact ⟨_, rfl, Or.inl rfl⟩
  · split
    · exact ⟨_, rfl, Or.inr rfl⟩
    · have h' : bcast v (if sel.scalar = true then (s.buf a.buf).trail else sel.count :: (s.buf a.buf).trail) = none := h
      simp only [h']
      exact ⟨_, rfl, Or.inl rfl⟩

/-- an integer-list index with an entry out of bounds: IndexError, nothing is written. -/
theorem assign_oob_rejects (s : State) (a : Arr) (sel : Sel) (v : Val) (flat : List Cell)
    (hb : bcast v (assignShape s a sel) = some flat) (hoob : sel.oob = true)
    (h1 : ¬ (sel.scalar = true ∧ (s.buf a.buf).trail = [] ∧ v.shape ≠ []))
    (h2 : ¬ (sel.mask = true ∧ (s.buf a.buf).trail = [] ∧ v.shape.length > 1)) :
    assign a sel v s = (.error .index, s) := by
  unfold assign
  have h' : bcast v (if sel.scalar = true then (s.buf a.buf).trail else sel.count :: (s.buf a.buf).trail) = some flat := hb
  simp only [h1, h2, if_false, h', hoob, if_true]

/-- `atoms[index] = other` with different property sets: ValueError, nothing changes. -/
theorem setItem_keys_mismatch_rejects (s : State) (o : Nat) (ix : Index) (src : Nat)
    (h : sameKeys (s.obj src).keys (s.obj o).keys = false) : setItem o ix src s = (.error .value, s) := by
  apply eq_of_post
  unfold setItem
  rw [post_bind_getS]
  simp only []
  have hc : ¬ sameKeys (s.obj src).keys (s.obj o).keys = true := by simp [h]
  rw [if_pos hc, post_fail]
  exact ⟨rfl, rfl⟩

theorem resolve_int_out_of_range (n : Nat) (i : Int) (h : (n : Int) ≤ i ∨ i < -(n : Int)) :
    resolve n (.int i) = .error .index := by
  have : normInt n i = none := by
    unfold normInt
    rcases h with h | h
    · have h1 : ¬ (0 ≤ i ∧ i < n) := by omega
      have h2 : ¬ (-(n : Int) ≤ i ∧ i < 0) := by omega
      simp [h1, h2]
    · have h1 : ¬ (0 ≤ i ∧ i < n) := by omega
      have h2 : ¬ (-(n : Int) ≤ i ∧ i < 0) := by omega
      simp [h1, h2]
  simp [resolve, this]

theorem resolve_zero_step (n : Nat) (a b : Option Int) : resolve n (.slice a b (some 0)) = .error .value := by
  simp [resolve]

theorem resolve_mask_length (n : Nat) (m : List Bool) (h1 : m.length ≠ n) (h2 : m.length ≠ 0) :
    resolve n (.mask m) = .error .index := by
  simp [resolve, h1, h2]

/-- reading or writing a property that does not exist: KeyError, nothing changes. -/
theorem propGet_missing_key (s : State) (o : Nat) (key : String) (ix : Option Index)
    (h : (s.obj o).find key = none) : propGet o key ix s = (.error .key, s) := by
  apply eq_of_post
  unfold propGet
  rw [post_bind_getS, post_bind_keyErr, h]
  exact ⟨rfl, rfl⟩

theorem pbcSet_bad_length_rejects (s : State) (i : Nat) (value : List Bool) (h : value.length ≠ 3) :
    pbcSet i value s = (.error .assert, s) := by
  unfold pbcSet
  simp only [h, ne_eq, not_false_eq_true, if_true]
  rfl

theorem sysExtend_scale_int_rejects (s : State) (off : Bool) (i : Nat) (n : Int)
    (symbols : Option (List (Option String))) : sysExtend off i (.inl n) true symbols s = (.error .value, s) := by
  apply eq_of_post
  unfold sysExtend
  rw [post_bind_getS]
  simp only [Sum.isLeft, and_self, if_true]
  exact ⟨rfl, rfl⟩

/-- `prop_atype(key, value)` with a 0-d value: TypeError (`len()` of unsized object). -/
theorem propAtype_scalar_rejects (s : State) (o : Nat) (key : String) (v : Val) (ta : Arr)
    (hf : (s.obj o).find "atype" = some ta) (hs : v.shape = []) :
    propAtype o key v none s = (.error .type, s) := by
  apply eq_of_post
  unfold propAtype
  rw [post_bind_getS, post_bind_keyErr]
  simp only [hf, hs]
  exact ⟨rfl, rfl⟩

/-- a failed constructor call leaves no trace (`Atoms(...)` raising creates no object). -/
theorem mkAtoms_rolls_back (natoms : Option Int) (atype pos : Option Src) (extra : List (String × Src)) (s s' : State)
    (e : Err) (h : mkAtoms natoms atype pos extra s = (.error e, s')) : s' = s := by
  unfold mkAtoms atomic at h
  split at h
  · cases h
  · injection h with _ h2; exact h2.symm

/-- malformed literals / dangling ids are `format` errors and change nothing; an outcome outside the
    modelled numpy fragment leaves the state untouched. -/
theorem step_format (off : Bool) (s : State) (op : Op) (h : ¬ (op.litsOk = true ∧ op.idsOk s = true)) :
    stepWith off s op = (.error .format, s) := by
  unfold stepWith
  simp only [h, not_false_eq_true, if_true]

theorem step_unmodelled (off : Bool) (s : State) (op : Op) (h : (stepWith off s op).1 = .error .unmodelled) :
    (stepWith off s op).2 = s := by
  unfold stepWith at h ⊢
  by_cases hc : (op.litsOk = true ∧ op.idsOk s = true)
  · simp only [hc, not_true_eq_false, if_false] at h ⊢
    cases hrun : run off op s with
    | mk r s2 =>
      rw [hrun] at h
      cases r with
      | ok out => simp at h
      | error e =>
        cases e <;> simp at h ⊢
  · simp only [hc, not_false_eq_true, if_true]

/-! ## refinement to the record-per-atom specification: slicing and copying -/

/-- **refines (`atoms[index]`)** — in a state satisfying the invariant, a returning `__getitem__` yields
    `GetItemRes`: a new object with one atom per selected position whose every property is the operand's
    property of the same name cut by the *same* positions (row `j` of every property of the result is
    atom `sel.pos[j]` of the operand), in the key order `atype, pos, rest`; see `GetItemRes`, `ColRel`. -/
theorem refines_getItem (s : State) (h : Inv s) (o : Nat) (ix : Index) (ho : o < s.objs.length) (o' : Nat) (s' : State)
    (hrun : getItem o ix s = (.ok o', s')) :
    ∃ sel, resolve (s.obj o).natoms (atomsIndex ix) = .ok sel ∧ GetItemRes s o sel o' s' := by
  obtain ⟨⟨κ, hinv⟩, hb⟩ := h
  have := getItem_refines hinv o ix (hb o ho)
  unfold Post at this
  rw [hrun] at this
  exact this.2 o' rfl

/-- **refines (`deepcopy(atoms)`)** — the copy has the same number of atoms and, for every property,
    the same name, dtype, trailing shape and rows (`GetItemRes` for the all-rows copy selection). -/
theorem refines_deepcopy (s : State) (h : Inv s) (o : Nat) (ho : o < s.objs.length) (o' : Nat) (s' : State)
    (hrun : deepcopy o s = (.ok o', s')) : GetItemRes s o (copySel (s.obj o).natoms) o' s' := by
  obtain ⟨⟨κ, hinv⟩, hb⟩ := h
  have := deepcopy_refines hinv o (hb o ho)
  unfold Post at this
  rw [hrun] at this
  exact this.2 o' rfl

theorem deepcopy_rows (s : State) (h : Inv s) (o : Nat) (ho : o < s.objs.length) (o' : Nat) (s' : State)
    (hrun : deepcopy o s = (.ok o', s')) (p : PropRef) (hp : p ∈ (s.obj o).props) :
    ∃ p' ∈ (s'.obj o').props, p'.key = p.key ∧ arrRows s' p'.arr = arrRows s p.arr ∧
      arrVal s' p'.arr = arrVal s p.arr := by
  have hres := refines_deepcopy s h o ho o' s' hrun
  obtain ⟨⟨κ, hinv⟩, _⟩ := h
  have hp0 := hinv.obj_props o p hp
  obtain ⟨p', hp', hrel⟩ := hres.cols p hp
  have hrows : arrRows s' p'.arr = arrRows s p.arr := by
    rw [hrel.rows, ← hp0.len]; exact copySel_rows s p.arr
  refine ⟨p', hp', hrel.key, hrows, ?_⟩
  have hlen : p'.arr.idx.length = p.arr.idx.length := by
    have := congrArg List.length hrows
    simpa [arrRows] using this
  simp only [arrVal, hrows, hrel.dt, hrel.trail, hlen]

/-- a refused `__getitem__` / `deepcopy` leaves no trace. -/
theorem getItem_error_unchanged (s : State) (o : Nat) (ix : Index) (e : Err) (s' : State)
    (hrun : getItem o ix s = (.error e, s')) : s' = s := by
  unfold getItem atomic at hrun
  split at hrun
  · cases hrun
  · injection hrun with _ h2; exact h2.symm

/-- **operand_unchanged** — slicing / copying leaves every object that existed before exactly as it
    was: same arrays bound to the same names, and every one of them reads the same value. -/
theorem GetItemRes.operand_unchanged {s s' : State} {o o' : Nat} {sel : Sel} (hr : GetItemRes s o sel o' s')
    (h : Inv s) (o'' : Nat) (ho'' : o'' < s.objs.length) :
    s'.obj o'' = s.obj o'' ∧ ∀ p ∈ (s.obj o'').props, arrVal s' p.arr = arrVal s p.arr := by
  obtain ⟨⟨κ, hinv⟩, _⟩ := h
  refine ⟨hr.objs o'' ho'', ?_⟩
  intro p hp
  have hp0 := hinv.obj_props o'' p hp
  obtain ⟨r1, r2, r3⟩ := hr.heap.rows p.arr hp0.valid.1
  simp only [arrVal, r1, r2, r3]

/-- **copy_fresh** — the arrays of an object returned for an integer-list or boolean index (or holding
    a single atom) share no memory with any array of any object that existed before. -/
theorem GetItemRes.copy_fresh {s s' : State} {o o' : Nat} {sel : Sel} (hr : GetItemRes s o sel o' s') (h : Inv s)
    (hcopy : sel.view = false ∨ sel.pos.length = 1) (p' : PropRef) (hp' : p' ∈ (s'.obj o').props)
    (o'' : Nat) (p : PropRef) (hp : p ∈ (s.obj o'').props) :
    s.heap.length ≤ p'.arr.buf ∧ sharesMem s' p'.arr p.arr = false := by
  obtain ⟨⟨κ, hinv⟩, _⟩ := h
  obtain ⟨p0, _, hrel⟩ := hr.colsRev p' hp'
  have hfresh := hrel.fresh hcopy
  have hp0 := hinv.obj_props o'' p hp
  refine ⟨hfresh, ?_⟩
  have : p'.arr.buf ≠ p.arr.buf := by have := hp0.valid.1; omega
  simp [sharesMem, this]

/-- **copy_fresh / operand_unchanged for `deepcopy`.** -/
theorem deepcopy_fresh (s : State) (h : Inv s) (o : Nat) (ho : o < s.objs.length) (o' : Nat) (s' : State)
    (hrun : deepcopy o s = (.ok o', s')) (p' : PropRef) (hp' : p' ∈ (s'.obj o').props) (o'' : Nat) (p : PropRef)
    (hp : p ∈ (s.obj o'').props) : sharesMem s' p'.arr p.arr = false :=
  ((refines_deepcopy s h o ho o' s' hrun).copy_fresh h (Or.inl rfl) p' hp' o'' p hp).2

/-- a basic slice of more than one atom aliases its operand: the result's arrays are the views
    `p.arr[sel]` of the operand's arrays (writes through either are seen by both, as in numpy). -/
theorem GetItemRes.slice_is_view {s s' : State} {o o' : Nat} {sel : Sel} (hr : GetItemRes s o sel o' s')
    (hv : sel.view = true) (hne : sel.pos.length ≠ 1) (p : PropRef) (hp : p ∈ (s.obj o).props) :
    ∃ p' ∈ (s'.obj o').props, p'.key = p.key ∧ p'.arr = subArr p.arr sel := by
  obtain ⟨p', hp', hrel⟩ := hr.cols p hp
  exact ⟨p', hp', hrel.key, hrel.view hv hne⟩

/-! ## refinement to the record-per-atom specification: indexed writes and reads -/

/-- **refines (`prop(key, index, value)`)** — in a state satisfying the invariant a returning indexed
    write is the record update "for each `j`, property `key` of atom `sel.pos[j]` := row `j` of the value
    broadcast to the selection and cast to the column's dtype (later duplicates win)":
    the written column reads `writeRows old (sel.pos zip newRows)`; no property with another name changes
    in any object; no array in another buffer changes; the objects themselves (names ↦ arrays) are
    untouched.  (Arrays of the *same* name sharing the buffer — slices of the object or the object it was
    sliced from — see the write, as in numpy.) -/
theorem refines_propSet (s : State) (h : Inv s) (o : Nat) (key : String) (ix : Index) (v : Val) (s' : State)
    (hrun : propSet o key (some ix) v s = (.ok (), s')) :
    ∃ a sel newRows, (s.obj o).find key = some a ∧ resolve a.idx.length ix = .ok sel ∧
      AssignedRows s a sel v newRows ∧ s'.objs = s.objs ∧ s'.syss = s.syss ∧
      arrRows s' a = writeRows (arrRows s a) (sel.pos.zip newRows) ∧
      (∀ o' p, p ∈ (s.obj o').props → p.key ≠ key → arrRows s' p.arr = arrRows s p.arr) ∧
      (∀ c : Arr, c.buf ≠ a.buf → arrRows s' c = arrRows s c) := by
  obtain ⟨⟨κ, hinv⟩, _⟩ := h
  have := propSet_refines o key ix v s
  unfold Post at this
  rw [hrun] at this
  obtain ⟨a, sel, newRows, hfind, hres, _, hn, _, hw⟩ := this.2 rfl
  have hp := hinv.find_ok o key a hfind
  obtain ⟨hpos, _⟩ := resolve_ok _ _ _ hres
  refine ⟨a, sel, newRows, hfind, hres, hn, hw.objs, hw.syss, hw.readback hp.valid hp.nodup hpos, ?_, fun c hc => hw.read c hc⟩
  intro o' p hp' hne
  have hp0 := hinv.obj_props o' p hp'
  apply hw.read
  intro hb
  apply hne
  rw [← hp0.key, hb, hp.key]

/-- **refines (`atoms[index] = other`)** — in a state satisfying the invariant a returning
    `__setitem__` (also `prop(index=, value=Atoms)`, `atoms_ix[index] = …`) is the record update
    "atom `sel.pos[j]` of the target := atom `j` of the donor" for every property (donor values as they
    were before the call — also when donor and target overlap —, broadcast and cast to the target's
    dtype; later duplicates win); objects and Systems are untouched; buffers of no target property are
    unchanged. -/
theorem refines_setItem (s : State) (h : Inv s) (o : Nat) (ix : Index) (src : Nat) (s' : State)
    (hrun : setItem o ix src s = (.ok (), s')) :
    ∃ sel, resolve (s.obj o).natoms (atomsIndex ix) = .ok sel ∧ s'.objs = s.objs ∧ s'.syss = s.syss ∧
      (∀ p ∈ (s.obj o).props, ∃ a newRows, (s.obj src).find p.key = some a ∧
        AssignedRows s p.arr sel (arrVal s a) newRows ∧
        arrRows s' p.arr = writeRows (arrRows s p.arr) (sel.pos.zip newRows)) ∧
      (∀ c : Arr, (∀ p ∈ (s.obj o).props, c.buf ≠ p.arr.buf) → arrRows s' c = arrRows s c) := by
  obtain ⟨⟨κ, hinv⟩, _⟩ := h
  have := setItem_refines hinv o ix src
  unfold Post at this
  rw [hrun] at this
  exact this rfl

/-- a refused indexed write changes nothing. -/
theorem propSet_error_unchanged (s : State) (o : Nat) (key : String) (ix : Index) (v : Val) (e : Err) (s' : State)
    (hrun : propSet o key (some ix) v s = (.error e, s')) : s' = s := by
  have := propSet_refines o key ix v s
  unfold Post at this
  rw [hrun] at this
  exact this.1 e rfl

/-- **refines (`prop(key)`)** — reading a whole column does not change the state and returns it. -/
theorem refines_propGet_all (s : State) (o : Nat) (key : String) (v : Val) (s' : State)
    (hrun : propGet o key none s = (.ok v, s')) :
    s' = s ∧ ∃ a, (s.obj o).find key = some a ∧ v = arrVal s a := by
  have := propGet_reads o key none s
  unfold Post at this
  rw [hrun] at this
  exact ⟨this.1, this.2 v rfl⟩

/-- **refines (`prop(key, index)`)** — an indexed read does not change the state and returns the rows at
    the selected positions, in order (an integer index drops the leading axis). -/
theorem refines_propGet_index (s : State) (o : Nat) (key : String) (i : Index) (v : Val) (s' : State)
    (hrun : propGet o key (some i) s = (.ok v, s')) :
    s' = s ∧ ∃ a, (s.obj o).find key = some a ∧
      ∃ sel, resolve a.idx.length i = .ok sel ∧ sel.oob = false ∧ v.dt = arrDt s a ∧
        v.data = (sel.pos.map (fun p => (arrRows s a)[p]?.getD [])).flatten ∧
        v.shape = (if sel.scalar then arrTrail s a else sel.pos.length :: arrTrail s a) := by
  have := propGet_reads o key (some i) s
  unfold Post at this
  rw [hrun] at this
  exact ⟨this.1, this.2 v rfl⟩

/-- write then read: `prop(key, index, value)` followed by `prop(key)` returns the updated column. -/
theorem propSet_then_propGet (s : State) (h : Inv s) (o : Nat) (key : String) (ix : Index) (v : Val) (s' : State)
    (hrun : propSet o key (some ix) v s = (.ok (), s')) :
    ∃ a sel newRows, (s.obj o).find key = some a ∧ resolve a.idx.length ix = .ok sel ∧
      AssignedRows s a sel v newRows ∧
      propGet o key none s' = (.ok ⟨arrDt s a, a.idx.length :: arrTrail s a,
        (writeRows (arrRows s a) (sel.pos.zip newRows)).flatten⟩, s') := by
  obtain ⟨a, sel, newRows, hfind, hres, hn, hobjs, _, hrows, _, _⟩ := refines_propSet s h o key ix v s' hrun
  refine ⟨a, sel, newRows, hfind, hres, hn, ?_⟩
  have hobj : s'.obj o = s.obj o := by simp [State.obj, hobjs]
  obtain ⟨⟨κ, hinv⟩, _⟩ := h
  have hp := hinv.find_ok o key a hfind
  have hw := propSet_refines o key ix v s
  unfold Post at hw
  rw [hrun] at hw
  obtain ⟨a', sel', newRows', hfind', _, _, _, _, hwr⟩ := hw.2 rfl
  have : a' = a := by rw [hfind] at hfind'; injection hfind' with h; exact h.symm
  subst this
  have hsame := hwr.same hp.valid.1
  rw [propGet_none_eq o key s' a' (by rw [hobj]; exact hfind)]
  simp only [arrVal, arrDt, arrTrail, hrows, hsame.1, hsame.2.1]

/-! ## copying operations: fresh results, untouched operands -/

/-- what `FrameOK` + `FreshObj` mean for a reader: every array of every object that existed before
    reads the same value, the objects are the same, and the arrays of the new object share memory with
    none of them. -/
theorem frame_fresh_meaning (s s' : State) (h : Inv s) (o' : Nat)
    (hf : FrameOK s.heap.length s.objs.length s s') (hfr : FreshObj s.heap.length o' s') :
    (∀ o, o < s.objs.length → s'.obj o = s.obj o ∧ ∀ p ∈ (s.obj o).props, arrVal s' p.arr = arrVal s p.arr) ∧
    (∀ p' ∈ (s'.obj o').props, ∀ o, ∀ p ∈ (s.obj o).props, sharesMem s' p'.arr p.arr = false) := by
  obtain ⟨⟨κ, hinv⟩, _⟩ := h
  refine ⟨?_, ?_⟩
  · intro o ho
    refine ⟨hf.2.1 o ho, ?_⟩
    intro p hp
    have hp0 := hinv.obj_props o p hp
    have hb := hf.1 p.arr.buf hp0.valid.1
    simp only [arrVal, arrDt, arrTrail, arrRows, hb]
  · intro p' hp' o p hp
    have hp0 := hinv.obj_props o p hp
    have h1 := hfr p' hp'
    have : p'.arr.buf ≠ p.arr.buf := by have := hp0.valid.1; omega
    simp [sharesMem, this]

/-- **copy_fresh / operand_unchanged (`atoms.extend(other)`)**. -/
theorem extend_fresh_unchanged (s : State) (h : Inv s) (o donor : Nat) (ho : o < s.objs.length) (o' : Nat) (s' : State)
    (hrun : extendWith o donor s = (.ok o', s')) :
    (∀ o'', o'' < s.objs.length → s'.obj o'' = s.obj o'' ∧ ∀ p ∈ (s.obj o'').props, arrVal s' p.arr = arrVal s p.arr) ∧
    (∀ p' ∈ (s'.obj o').props, ∀ o'', ∀ p ∈ (s.obj o'').props, sharesMem s' p'.arr p.arr = false) := by
  obtain ⟨⟨κ, hinv⟩, hb⟩ := h
  have := extendWith_frame hinv o donor (hb o ho)
  unfold Post at this
  rw [hrun] at this
  obtain ⟨_, hf, hfr⟩ := this.2 o' rfl
  exact frame_fresh_meaning s s' ⟨⟨κ, hinv⟩, hb⟩ o' hf hfr

/-- **copy_fresh / operand_unchanged (`atoms.extend(n)`)**. -/
theorem extendInt_fresh_unchanged (s : State) (h : Inv s) (o : Nat) (n : Int) (ho : o < s.objs.length) (o' : Nat)
    (s' : State) (hrun : extendInt o n s = (.ok o', s')) :
    (∀ o'', o'' < s.objs.length → s'.obj o'' = s.obj o'' ∧ ∀ p ∈ (s.obj o'').props, arrVal s' p.arr = arrVal s p.arr) ∧
    (∀ p' ∈ (s'.obj o').props, ∀ o'', ∀ p ∈ (s.obj o'').props, sharesMem s' p'.arr p.arr = false) := by
  obtain ⟨⟨κ, hinv⟩, hb⟩ := h
  have := extendInt_frame hinv o n (hb o ho) ho
  unfold Post at this
  rw [hrun] at this
  obtain ⟨hf, hfr⟩ := this.2 o' rfl
  exact frame_fresh_meaning s s' ⟨⟨κ, hinv⟩, hb⟩ o' hf hfr

/-- **copy_fresh / operand_unchanged (`atoms.prop(index=…)`)**. -/
theorem propGetAtoms_fresh_unchanged (s : State) (h : Inv s) (o : Nat) (ix : Index) (ho : o < s.objs.length) (o' : Nat)
    (s' : State) (hrun : propGetAtoms o ix s = (.ok o', s')) :
    (∀ o'', o'' < s.objs.length → s'.obj o'' = s.obj o'' ∧ ∀ p ∈ (s.obj o'').props, arrVal s' p.arr = arrVal s p.arr) ∧
    (∀ p' ∈ (s'.obj o').props, ∀ o'', ∀ p ∈ (s.obj o'').props, sharesMem s' p'.arr p.arr = false) := by
  obtain ⟨⟨κ, hinv⟩, hb⟩ := h
  have := propGetAtoms_frame hinv hb o ix ho
  unfold Post at this
  rw [hrun] at this
  obtain ⟨hf, hfr⟩ := this.2 o' rfl
  exact frame_fresh_meaning s s' ⟨⟨κ, hinv⟩, hb⟩ o' hf hfr

/-- the constructor on literals (`Atoms(...)`) touches no existing object and shares nothing. -/
theorem new_fresh_unchanged (s : State) (h : Inv s) (natoms : Option Int) (atype pos : Option Val)
    (extra : List (String × Val)) (o' : Nat) (s' : State)
    (hrun : mkAtoms natoms (atype.map .lit) (pos.map .lit) (extra.map (fun kv => (kv.1, Src.lit kv.2))) s = (.ok o', s')) :
    (∀ o'', o'' < s.objs.length → s'.obj o'' = s.obj o'' ∧ ∀ p ∈ (s.obj o'').props, arrVal s' p.arr = arrVal s p.arr) ∧
    (∀ p' ∈ (s'.obj o').props, ∀ o'', ∀ p ∈ (s.obj o'').props, sharesMem s' p'.arr p.arr = false) := by
  have := mkAtoms_lit_frame natoms atype pos extra s
  unfold Post at this
  rw [hrun] at this
  obtain ⟨_, hf, hfr, _, _⟩ := this.2 o' rfl
  exact frame_fresh_meaning s s' h o' hf hfr

/-! ## refinement: `extend` -/

/-- **refines (`atoms.extend(other)`)** — in a state satisfying the invariant a returning `extend` yields a
    new object `nw` (the next id) in fresh buffers, leaves everything that existed untouched, and every
    column `p'` of `nw` is described by `ExtColRes`: base rows = self's column of that name at the
    positions `[0..n-1, 0, …, 0]` (or zeros of the donor's dtype/shape for a donor-only property), then
    rows `[self.natoms:]` overwritten by the donor's column of that name (or zeros of self's dtype/shape
    when the donor has none), broadcast and cast to the column's dtype. -/
theorem refines_extend (s : State) (h : Inv s) (o donor : Nat) (ho : o < s.objs.length) (hd : donor < s.objs.length)
    (nw : Nat) (s' : State) (hrun : extendWith o donor s = (.ok nw, s')) :
    ∃ sel, resolve (s.obj o).natoms (.list ((List.range (s.obj o).natoms).map (fun (i : Nat) => (i : Int)) ++
        List.replicate (s.obj donor).natoms (0 : Int))) = .ok sel ∧
      nw = s.objs.length ∧ FrameOK s.heap.length s.objs.length s s' ∧ FreshObj s.heap.length nw s' ∧
      ∀ p' ∈ (s'.obj nw).props,
        ExtColRes s o donor sel (tailSel ((s.obj o).natoms + (s.obj donor).natoms) (s.obj o).natoms)
          ((s.obj o).natoms + (s.obj donor).natoms) (s.obj donor).natoms s' p' := by
  obtain ⟨⟨κ, hinv⟩, hb⟩ := h
  have := extendWith_refines hinv o donor (hb o ho) ho hd (hb donor hd).1
  unfold Post at this
  rw [hrun] at this
  exact this nw rfl

/-! ## System-level accessors delegate to the Atoms-level ones -/

/-- `System.atoms_prop` without `scale`, `atoms_ix[...] = …` are the `Atoms` operations on the system's
    atoms: the refinement theorems above apply verbatim with `o := (s.sys i).atoms`. -/
theorem system_ops_delegate (off : Bool) (s : State) (i : Nat) (k : String) (ix : Option Index) (jx : Index) (v : Val)
    (src : Nat) :
    (run off (.sysPropGet i k ix) s).2 = (propGet (s.sys i).atoms k ix s).2 ∧
    (run off (.sysPropSet i k ix v false) s).2 = (propSet (s.sys i).atoms k ix v s).2 ∧
    (run off (.sysPropSetAtoms i ix src false) s).2 = (propSetAtoms (s.sys i).atoms ix src s).2 ∧
    (run off (.sysPropGetAtoms i jx) s).2 = (propGetAtoms (s.sys i).atoms jx s).2 ∧
    (run off (.ixSet i jx (.inl src)) s).2 = (setItem (s.sys i).atoms jx src s).2 ∧
    (run off (.ixSet i jx (.inr src)) s).2 = (setItem (s.sys i).atoms jx (s.sys src).atoms s).2 := by
  have key : ∀ {α : Type} (m : M α) (g : α → Out) (st : State),
      ((do let a ← m; pure (g a) : M Out) st).2 = (m st).2 := by
    intro α m g st
    show (M.bind m (fun a => M.pure (g a)) st).2 = (m st).2
    unfold M.bind M.pure
    cases m st with
    | mk r s' => cases r <;> rfl
  refine ⟨?_, ?_, ?_, ?_, ?_, ?_⟩
  · exact key (propGet (s.sys i).atoms k ix) Out.val s
  · exact key (propSet (s.sys i).atoms k ix v) (fun _ => Out.unit) s
  · exact key (propSetAtoms (s.sys i).atoms ix src) (fun _ => Out.unit) s
  · exact key (propGetAtoms (s.sys i).atoms jx) Out.obj s
  · exact key (setItem (s.sys i).atoms jx src) (fun _ => Out.unit) s
  · exact key (setItem (s.sys i).atoms jx (s.sys src).atoms) (fun _ => Out.unit) s

/-! ## scaled reads (`System.atoms_prop(…, scale=True)` without value) and `copy.deepcopy(system)` -/

/-- **reads do not write (`atoms_prop(key, index, scale=True)`)** — in ANY state, whatever the index form, whether
    the call returns or raises, the step leaves heap, objects and systems literally unchanged, and a returned value
    is the exact box-relative image (`Box.cartToRel`, row by row) of what `prop(key, index)` returns. -/
theorem sysPropGetScaled_reads_only (off : Bool) (s : State) (i : Nat) (k : String) (ix : Option Index) :
    (stepWith off s (.sysPropGetScaled i k ix)).2 = s ∧
    ∀ v', (sysPropGetScaled i k ix s).1 = .ok v' →
      ∃ v, (propGet (s.sys i).atoms k ix s).1 = .ok v ∧ cartToRelVal (s.sys i).box v = .ok v' ∧
        v'.shape = v.shape := by
  refine ⟨?_, ?_⟩
  · rcases stepWith_state off s (.sysPropGetScaled i k ix) with he | ⟨_, he⟩
    · exact he
    · rw [he]
      have h1 := sysPropGetScaled_post i k ix s
      unfold Post at h1
      show (M.bind (sysPropGetScaled i k ix) (fun v => M.pure (Out.val v)) s).2 = s
      unfold M.bind M.pure
      cases hr : sysPropGetScaled i k ix s with
      | mk r s' =>
        rw [hr] at h1
        cases r <;> exact h1
  · intro v' hv'
    obtain ⟨v, h1, h2⟩ := sysPropGetScaled_value i k ix s v' hv'
    exact ⟨v, h1, h2, (cartToRel_shape _ _ _ h2).1⟩

/-- **reads do not write / copies do not alias (`atoms_prop(index=…, scale=True)`)** — on a state satisfying the
    invariant, for EVERY index form (int, slice — also one covering two or more atoms, where `atoms[index]` holds
    views —, list, mask, absent) and every outcome: every object that existed reads exactly what it read before
    (the assignment `newatoms.pos = …` lands in the copy, never in the system's own array), the systems are
    unchanged; and a returned object shares memory with no array of any object that existed. -/
theorem sysPropGetAtomsScaled_fresh_unchanged (s : State) (h : Inv s) (i : Nat) (ix : Option Index)
    (hi : i < s.syss.length) :
    (∀ o, o < s.objs.length → ((sysPropGetAtomsScaled i ix s).2).obj o = s.obj o ∧
      ∀ p ∈ (s.obj o).props, arrVal (sysPropGetAtomsScaled i ix s).2 p.arr = arrVal s p.arr) ∧
    (sysPropGetAtomsScaled i ix s).2.syss = s.syss ∧
    ∀ o', (sysPropGetAtomsScaled i ix s).1 = .ok o' →
      ∀ p' ∈ ((sysPropGetAtomsScaled i ix s).2.obj o').props, ∀ o, ∀ p ∈ (s.obj o).props,
        sharesMem (sysPropGetAtomsScaled i ix s).2 p'.arr p.arr = false := by
  obtain ⟨⟨κ, hinv⟩, hb⟩ := h
  have hy : s.sys i ∈ s.syss := by
    simp only [State.sys, List.getElem?_eq_getElem hi, Option.getD_some]
    exact List.getElem_mem hi
  have hat := (hinv.syss _ hy).1
  have := sysPropGetAtomsScaled_frame hinv hb i ix hat
  unfold Post at this
  obtain ⟨hf, hfr⟩ := this
  refine ⟨?_, hf.2.2, ?_⟩
  · intro o ho
    refine ⟨hf.2.1 o ho, ?_⟩
    intro p hp
    have hp0 := hinv.obj_props o p hp
    have hbuf := hf.1 p.arr.buf hp0.valid.1
    simp only [arrVal, arrDt, arrTrail, arrRows, hbuf]
  · intro o' ho'
    exact (frame_fresh_meaning s _ ⟨⟨κ, hinv⟩, hb⟩ o' hf (hfr o' ho')).2

/-- **`atoms_prop(index=…, scale=True)` IS** `deepcopy(atoms[index])` (`deepcopy(atoms)` without index) followed by ONE
    whole-column assignment to the existing key `pos` of the new object, with the exact box-relative image of the copy's
    positions (values of the copy: `refines_getItem`, `refines_deepcopy`; of the assignment: `viewSet_existing_refines`). -/
theorem sysPropGetAtomsScaled_decomp (s : State) (i : Nat) (ix : Option Index) (o' : Nat) (s' : State)
    (hrun : sysPropGetAtomsScaled i ix s = (.ok o', s')) :
    ∃ s1 pa v', (match ix with
        | none => deepcopy (s.sys i).atoms
        | some jx => propGetAtoms (s.sys i).atoms jx : M Nat) s = (.ok o', s1) ∧
      (s1.obj o').find "pos" = some pa ∧ cartToRelVal (s.sys i).box (arrVal s1 pa) = .ok v' ∧
      viewSet o' "pos" (.lit v') s1 = (.ok (), s') := by
  unfold sysPropGetAtomsScaled at hrun
  obtain ⟨s0, sa, h0, hrun⟩ := bind_ok_inv _ _ _ _ _ hrun
  have : s0 = s ∧ sa = s := by
    have : (Except.ok s, s) = (Except.ok s0, sa) := h0
    injection this with h1 h2
    injection h1 with h1
    exact ⟨h1.symm, h2.symm⟩
  obtain ⟨e1, e2⟩ := this
  subst s0
  subst sa
  obtain ⟨t, s1, h1, hrun⟩ := bind_ok_inv _ _ _ _ _ hrun
  obtain ⟨s1', s1'', h2, hrun⟩ := bind_ok_inv _ _ _ _ _ hrun
  have : s1' = s1 ∧ s1'' = s1 := by
    have : (Except.ok s1, s1) = (Except.ok s1', s1'') := h2
    injection this with h1 h2
    injection h1 with h1
    exact ⟨h1.symm, h2.symm⟩
  obtain ⟨e1, e2⟩ := this
  subst s1'
  subst s1''
  obtain ⟨pa, s2, h3, hrun⟩ := bind_ok_inv _ _ _ _ _ hrun
  cases hf : (s1.obj t).find "pos" with
  | none => simp [hf, keyErr, liftO, fail] at h3
  | some pa' =>
    simp only [hf, keyErr, liftO, M.pure] at h3
    injection h3 with h3a h3b
    injection h3a with h3a
    subst h3a; subst h3b
    obtain ⟨v', s3, h4, hrun⟩ := bind_ok_inv _ _ _ _ _ hrun
    simp only [liftE] at h4
    injection h4 with h4a h4b
    subst h4b
    obtain ⟨u, s4, h5, hrun⟩ := bind_ok_inv _ _ _ _ _ hrun
    have : t = o' ∧ s4 = s' := by
      have : (Except.ok t, s4) = (Except.ok o', s') := hrun
      injection this with h1 h2
      injection h1 with h1
      exact ⟨h1, h2⟩
    obtain ⟨e1, e2⟩ := this
    subst o'
    subst s'
    exact ⟨s1, pa', v', h1, hf, h4a, h5⟩

/-- **`copy.deepcopy(system)`** is `Atoms.__deepcopy__` on the system's atoms (values and freshness:
    `refines_deepcopy`, `deepcopy_fresh`) plus a new system that carries the box, the `pbc` and the STORED
    `symbols` / `masses` tuples of the original, bound to the copied atoms; nothing else changes. -/
theorem sysDeepcopy_spec (s : State) (i a j : Nat) (s' : State) (h : sysDeepcopy i s = (.ok (a, j), s')) :
    ∃ s1, deepcopy (s.sys i).atoms s = (.ok a, s1) ∧ j = s1.syss.length ∧
      s' = { s1 with syss := s1.syss ++ [{ s.sys i with atoms := a }] } := by
  unfold sysDeepcopy at h
  change M.bind getS _ s = _ at h
  simp only [M.bind, getS] at h
  change M.bind (deepcopy (s.sys i).atoms) _ s = _ at h
  simp only [M.bind] at h
  cases hd : deepcopy (s.sys i).atoms s with
  | mk r s1 =>
    rw [hd] at h
    cases r with
    | error e => simp at h
    | ok a' =>
      simp only at h
      change M.bind (pushSys _) _ s1 = _ at h
      simp only [M.bind, pushSys] at h
      change (Except.ok (a', s1.syss.length), _) = _ at h
      injection h with h1 h2
      injection h1 with h1
      injection h1 with ha hj
      subst ha
      exact ⟨s1, rfl, hj.symm, h2.symm⟩

/-- **`System(atoms, …, scale=…, safecopy=True)` leaves the given atoms alone** — on a state satisfying the
    invariant, whatever the constructor returns or raises, every object that existed (the atoms handed in included)
    is the same and reads the same values — with `scale=True` the box-relative → Cartesian conversion lands in the
    copy —; a returned system is bound to a NEW atoms object, on the box handed in, whose arrays share memory with no
    array of any object that existed. -/
theorem mkSysX_safecopy_operand_unchanged (s : State) (h : Inv s) (o : Nat) (box : Box Rat) (pbc : List Bool)
    (symbols : Option (List (Option String))) (masses : Option (List (Option Rat))) (scale : Bool)
    (ho : o < s.objs.length) :
    (∀ o', o' < s.objs.length → (mkSysX o box pbc symbols masses scale true s).2.obj o' = s.obj o' ∧
      ∀ p ∈ (s.obj o').props, arrVal (mkSysX o box pbc symbols masses scale true s).2 p.arr = arrVal s p.arr) ∧
    ∀ a i, (mkSysX o box pbc symbols masses scale true s).1 = .ok (a, i) →
      ((mkSysX o box pbc symbols masses scale true s).2.sys i).atoms = a ∧
      ((mkSysX o box pbc symbols masses scale true s).2.sys i).box = box ∧
      ∀ p' ∈ ((mkSysX o box pbc symbols masses scale true s).2.obj a).props, ∀ o', ∀ p ∈ (s.obj o').props,
        sharesMem (mkSysX o box pbc symbols masses scale true s).2 p'.arr p.arr = false := by
  obtain ⟨⟨κ, hinv⟩, hb⟩ := h
  have := mkSysX_safecopy_frame hinv hb o box pbc symbols masses scale ho
  unfold Post at this
  obtain ⟨hf, hres⟩ := this
  refine ⟨?_, ?_⟩
  · intro o' ho'
    refine ⟨hf.2 o' ho', ?_⟩
    intro p hp
    have hp0 := hinv.obj_props o' p hp
    have hbuf := hf.1 p.arr.buf hp0.valid.1
    simp only [arrVal, arrDt, arrTrail, arrRows, hbuf]
  · intro a i hai
    obtain ⟨hfr, hat, hbox⟩ := hres a i hai
    refine ⟨hat, hbox, ?_⟩
    intro p' hp' o' p hp
    have hp0 := hinv.obj_props o' p hp
    have h1 := hfr p' hp'
    have : p'.arr.buf ≠ p.arr.buf := by have := hp0.valid.1; omega
    simp [sharesMem, this]

/-! ## non-vacuity: concrete histories of the model (`K := Rat`) on which the hypotheses hold -/

instance {α : Type} [DecidableEq α] : DecidableEq (Except Err α) := fun a b =>
  match a, b with
  | .ok x, .ok y => if h : x = y then isTrue (by rw [h]) else isFalse (fun hc => h (by injection hc))
  | .error x, .error y => if h : x = y then isTrue (by rw [h]) else isFalse (fun hc => h (by injection hc))
  | .ok _, .error _ => isFalse (fun hc => by cases hc)
  | .error _, .ok _ => isFalse (fun hc => by cases hc)

/-- three atoms, types 1 2 1, positions (i,i,i), one extra float property `q`. -/
def exNew : Op := .new none (some ⟨.int, [3], [.int 1, .int 2, .int 1]⟩)
  (some ⟨.flt, [3, 3], [.flt 0, .flt 0, .flt 0, .flt 1, .flt 1, .flt 1, .flt 2, .flt 2, .flt 2]⟩)
  [("q", ⟨.flt, [3], [.flt (1/2), .flt (3/2), .flt (5/2)]⟩)]

/-- construct; take atoms [2, 0] (copy); deepcopy; wrap in a System with one symbol; read symbols;
    overwrite `q[1:]` of the first object; take the slice `[1:3]` (a view); write through the view. -/
def exOps : List Op := [exNew, .getItem 0 (.list [2, 0]), .deepcopy 0,
  .mkSys 0 unitBox [true, true, false] (some [some "Al"]) none, .symbolsGet 0,
  .propSet 0 "q" (some (.slice (some 1) none none)) ⟨.flt, [], [.flt 7]⟩,
  .getItem 0 (.slice (some 1) (some 3) none), .propSet 3 "q" (some (.int 0)) ⟨.flt, [], [.flt 9]⟩]

def exS : State := exOps.foldl step init

/-- the invariant holds on the concrete history (instance of `inv_reachable`). -/
example : Inv exS := inv_reachable exOps
example : exS.objs.length = 4 ∧ exS.syss.length = 1 ∧ exS.heap.length = 9 := by decide +kernel
-- `refines_getItem` / `GetItemRes`: hypotheses hold, and the copy reads atoms 2 and 0 of the operand
example : (getItem 0 (.list [2, 0]) ([exNew].foldl step init)).1 = .ok 1 := by decide +kernel
example : (propGet 1 "q" none exS).1 = .ok ⟨.flt, [2], [.flt (5/2), .flt (1/2)]⟩ := by decide +kernel
example : (propGet 1 "atype" none exS).1 = .ok ⟨.int, [2], [.int 1, .int 1]⟩ := by decide +kernel
-- `operand_unchanged` / `copy_fresh`: later writes to object 0 did not reach the copies (1 and 2) …
example : (propGet 0 "q" none exS).1 = .ok ⟨.flt, [3], [.flt (1/2), .flt 9, .flt 7]⟩ := by decide +kernel
example : (propGet 2 "q" none exS).1 = .ok ⟨.flt, [3], [.flt (1/2), .flt (3/2), .flt (5/2)]⟩ := by decide +kernel
-- … but `slice_is_view`: object 3 is the slice [1:3] of object 0 and the write of 9 through it is seen by both
example : (propGet 3 "q" none exS).1 = .ok ⟨.flt, [2], [.flt 9, .flt 7]⟩ := by decide +kernel
-- `symbols_padded`: natypes is 2, one symbol was given, the getter pads to two
example : (symbolsGet 0 exS).1 = .ok [some "Al", none] ∧ (natypes 0 exS).1 = .ok 2 := by decide +kernel
example : (massesGet 0 exS).1 = .ok [none, none] := by decide +kernel
-- refusals: hypotheses of the refusal lemmas are satisfiable, the model refuses
example : output exS (.setView 0 "q" ⟨.flt, [2], [.flt 1, .flt 2]⟩) = .error .value := by decide +kernel
example : output exS (.setView 0 "atype" ⟨.int, [3], [.int 1, .int 0, .int 1]⟩) = .error .value := by decide +kernel
example : output exS (.propSet 0 "atype" (some (.int 1)) ⟨.int, [], [.int 0]⟩) = .error .value := by decide +kernel
example : output exS (.sysPropSet 0 "atype" (some (.list [0, 1, 2])) ⟨.flt, [3], [.flt 0, .flt (-1), .flt 0]⟩ true)
    = .error .value := by decide +kernel
example : output exS (.propGet 0 "nokey" none) = .error .key := by decide +kernel
example : output exS (.propGet 0 "q" (some (.int 3))) = .error .index := by decide +kernel
example : output exS (.propGet 0 "q" (some (.slice none none (some 0)))) = .error .value := by decide +kernel
example : output exS (.propGet 0 "q" (some (.mask [true, false]))) = .error .index := by decide +kernel
example : output exS (.setItem 0 (.slice (some 0) (some 2) none) 1) = .ok .unit := by decide +kernel
example : output exS (.setItem 0 (.int 0) 1) = .error .value := by decide +kernel
example : output exS (.pbcSet 0 [true, false]) = .error .assert := by decide +kernel
example : output exS (.massesSet 0 [some 1, some 2, some 3]) = .error .value := by decide +kernel
example : output exS (.sysExtend 0 (.inl 2) true none) = .error .value := by decide +kernel
example : output exS (.propAtype 0 "q" ⟨.flt, [], [.flt 1]⟩ none) = .error .type := by decide +kernel
example : output exS (.propAtype 0 "q" ⟨.flt, [1], [.flt 1]⟩ none) = .error .value := by decide +kernel
example : output exS (.new (some (-1)) none none []) = .error .value := by decide +kernel
example : output exS (.propGet 7 "q" none) = .error .format := by decide +kernel
-- a refused operation changes nothing
example : step exS (.setView 0 "atype" ⟨.int, [3], [.int 1, .int 0, .int 1]⟩) = exS := by decide +kernel
-- extension: atoms_extend by an Atoms with a different property set (zero fill on both sides)
example : (propGet 4 "q" none (step exS (.extendAtoms 1 0))).1
    = .ok ⟨.flt, [5], [.flt (5/2), .flt (1/2), .flt (1/2), .flt 9, .flt 7]⟩ := by decide +kernel

/-- the stale-tuple scenario: two atom types with symbols and masses, then the number of atom types
    grows to 4 *through the atoms*; the stored tuples are stale (length 2) yet `masses` read FIRST is
    padded to 4, and so is everything else, in any read order. -/
def exGrow : List Op := [exNew,
  .mkSys 0 unitBox [true, true, true] (some [some "Al", some "Ni"]) (some [some 27, some (117/2)]),
  .propSet 0 "atype" (some (.int 0)) ⟨.int, [], [.int 4]⟩]
def exG : State := exGrow.foldl step init

example : (exG.sys 0).symbols.length = 2 ∧ (exG.sys 0).masses.length = 2 ∧ ntOf exG 0 = .ok 4 := by decide +kernel
example : output exG (.massesGet 0) = .ok (.masses [some 27, some (117/2), none, none]) := by decide +kernel
example : output (step exG (.symbolsGet 0)) (.massesGet 0) = output exG (.massesGet 0) :=
  read_order_irrelevant exG [.symbolsGet 0] (fun o ho => by simp at ho; subst ho; exact ⟨.symbols, 0, rfl⟩) .masses 0
example : output exG (.composition 0) = .ok (.comp none) := by decide +kernel
example : output (step exG (.symbolsSet 0 [some "Al", some "Ni", some "X", some "Al"])) (.composition 0)
    = .ok (.comp (some "Al2Ni")) := by decide +kernel
example : output exG (.sysAtypes 0) = .ok (.nats [1, 2, 3, 4]) := by decide +kernel
example : output exG (.massesSet 0 [some 1, some 2, some 3, some 4]) = .ok .unit := by decide +kernel
example : output exG (.massesSet 0 [some 1, some 2, some 3, some 4, some 5]) = .error .value := by decide +kernel

/-- scaled reads on a box that is not the unit cube: `a = (2,0,0)`, `b = (1,4,0)`, `c = (0,0,1/2)`, origin `(1,0,0)`. -/
def exBox : Box Rat := ⟨⟨⟨2, 0, 0⟩, ⟨1, 4, 0⟩, ⟨0, 0, 1/2⟩⟩, ⟨1, 0, 0⟩⟩
def exSc : State := [exNew, .mkSys 0 exBox [true, true, true] (some [some "Al"]) none].foldl step init
def exScRead : Op := .sysPropGetAtomsScaled 0 (some (.slice (some 0) (some 2) none))

example : Inv exSc := inv_reachable _
-- the slice covers two atoms (`atoms[0:2]` holds views of the system's arrays); the read returns object 2 …
example : output exSc exScRead = .ok (.obj 2) := by decide +kernel
-- … whose positions are box-relative …
example : (propGet 2 "pos" none (step exSc exScRead)).1
    = .ok ⟨.flt, [2, 3], [.flt (-1/2), .flt 0, .flt 0, .flt (-1/8), .flt (1/4), .flt 2]⟩ := by decide +kernel
-- … while the system's own Cartesian positions are what they were (`sysPropGetAtomsScaled_fresh_unchanged`)
example : (propGet 0 "pos" none (step exSc exScRead)).1 = (propGet 0 "pos" none exSc).1 := by decide +kernel
example : output exSc (.sysPropGetScaled 0 "pos" (some (.int (-2))))
    = .ok (.val ⟨.flt, [3], [.flt (-1/8), .flt (1/4), .flt 2]⟩) := by decide +kernel
example : output exSc (.sysPropGetScaled 0 "q" (some (.int 0))) = .error .index := by decide +kernel
example : output exSc (.sysPropGetScaled 0 "q" (some (.slice none (some 2) none))) = .error .value := by decide +kernel
example : step exSc (.sysPropGetScaled 0 "pos" none) = exSc := (sysPropGetScaled_reads_only false exSc 0 "pos" none).1
-- deepcopy of the system: stored tuples copied as stored
example : output exSc (.sysDeepcopy 0) = .ok (.objSys 1 1) := by decide +kernel
example : ((step exSc (.sysDeepcopy 0)).sys 1).symbols = (exSc.sys 0).symbols ∧
    ((step exSc (.sysDeepcopy 0)).sys 1).atoms = 1 := by decide +kernel

-- System(..., scale=True, safecopy=True): the given atoms (object 0, box-relative positions) are untouched, the
-- system is built on the copy (object 1) whose positions are Cartesian
example : output ([exNew].foldl step init) (.mkSysX 0 exBox [true, true, true] none none true true) = .ok (.objSys 1 0) := by
  decide +kernel
example : (propGet 0 "pos" none (step ([exNew].foldl step init) (.mkSysX 0 exBox [true, true, true] none none true true))).1
    = (propGet 0 "pos" none ([exNew].foldl step init)).1 := by decide +kernel
example : (propGet 1 "pos" (some (.int 1)) (step ([exNew].foldl step init) (.mkSysX 0 exBox [true, true, true] none none true true))).1
    = .ok ⟨.flt, [3], [.flt 4, .flt 4, .flt (1/2)]⟩ := by decide +kernel

/-! ## round 5: degenerate per-atom shapes

A per-atom entry that is itself a 1-vector or a 1x1 matrix has as many cells as a scalar.  The two places where the
code could confuse them are the broadcast step of `view[key] = value` (every `Atoms(...)` and so every sub-Atoms goes
through it) and the extraction of few atoms. -/

/-- **the broadcast step of `view[key] = value` never touches the per-atom (trailing) shape.**  Whatever it is handed
    (a scalar, ONE row, one row per atom; a literal or an array of the heap), what it passes on has shape
    `natoms :: tail of the value's shape`: a one-row value of shape `1 :: t` becomes `n :: t` — also for `t = [1]`,
    `[1, 1]`, whose cell count is that of a scalar (`np.repeat(value, natoms)` would give `[n]`). -/
theorem viewBcast_keeps_trail (s : State) (n : Nat) (src src' : Src) (h : viewBcast s n src = pure src') :
    (srcVal s src').shape = n :: (srcVal s src).shape.tail := by
  rcases viewBcast_cases s n src with ⟨e, he⟩ | ⟨src'', he, hres⟩
  · rw [he] at h
    have := congrArg (fun m => (m s).1) h
    simp [pure, M.pure, fail] at this
  · rw [he] at h
    have : src'' = src' := by
      have := congrArg (fun m => (m s).1) h
      simpa [pure, M.pure] using this
    subst this
    rcases hres with ⟨lv, t, h1, h2, _, _, _, h6⟩ | ⟨a, h1, h2, h3⟩
    · subst h1
      show lv.shape = _
      rw [h2, h6]
    · subst h1; subst h2
      show (arrVal s a).shape = n :: (arrVal s a).shape.tail
      simp only [arrVal, List.tail_cons]; rw [h3]

/-- **`atoms[index]` keeps the per-atom shape of every property, however few atoms are selected.**  For every index
    form (int, negative int, slice, list, mask) that selects `m` atoms — `m = 1` and `m = 0` included — every property of
    the operand reappears in the result under its name with its dtype and with shape `m :: trail`, `trail` being the
    operand's trailing shape as it is: `[1]` stays `[1]` (never `[]`), `[1, 1]` stays `[1, 1]`. -/
theorem getItem_keeps_shape (s : State) (h : Inv s) (o : Nat) (ix : Index) (ho : o < s.objs.length) (o' : Nat) (s' : State)
    (hrun : getItem o ix s = (.ok o', s')) :
    ∃ sel, resolve (s.obj o).natoms (atomsIndex ix) = .ok sel ∧ (s'.obj o').natoms = sel.pos.length ∧
      ∀ p ∈ (s.obj o).props, ∃ p' ∈ (s'.obj o').props, p'.key = p.key ∧
        (arrVal s' p'.arr).shape = sel.pos.length :: arrTrail s p.arr ∧ (arrVal s' p'.arr).dt = arrDt s p.arr := by
  obtain ⟨sel, hsel, hres⟩ := refines_getItem s h o ix ho o' s' hrun
  refine ⟨sel, hsel, hres.natoms, fun p hp => ?_⟩
  obtain ⟨p', hp', hc⟩ := hres.cols p hp
  refine ⟨p', hp', hc.key, ?_, hc.dt⟩
  have hlen : p'.arr.idx.length = sel.pos.length := by
    have := congrArg List.length hc.rows
    simpa [arrRows] using this
  show p'.arr.idx.length :: arrTrail s' p'.arr = _
  rw [hlen, hc.trail]

/-- five atoms with a per-atom 1-vector `w` (shape `(5, 1)`) and a per-atom 1x1 matrix `m` given as ONE row. -/
def exShape : State := [Op.new none (some ⟨.int, [5], [.int 1, .int 2, .int 1, .int 3, .int 2]⟩) none
  [("w", ⟨.flt, [5, 1], [.flt 0, .flt 1, .flt 2, .flt 3, .flt 4]⟩), ("m", ⟨.int, [1, 1, 1], [.int 7]⟩)]].foldl step init

example : Inv exShape := inv_reachable _
-- the one-row value was broadcast to one 1x1 matrix per atom: shape (5, 1, 1), not (5,)
example : (propGet 0 "m" none exShape).1 = .ok ⟨.int, [5, 1, 1], [.int 7, .int 7, .int 7, .int 7, .int 7]⟩ := by decide +kernel
-- ONE atom extracted by int / negative int / one-element slice / list / mask: `w` keeps shape (1, 1), `m` (1, 1, 1)
example : (propGet 1 "w" none (step exShape (.getItem 0 (.int 2)))).1 = .ok ⟨.flt, [1, 1], [.flt 2]⟩ := by decide +kernel
example : (propGet 1 "w" none (step exShape (.getItem 0 (.int (-1))))).1 = .ok ⟨.flt, [1, 1], [.flt 4]⟩ := by decide +kernel
example : (propGet 1 "w" none (step exShape (.getItem 0 (.slice (some 2) (some 3) none)))).1 = .ok ⟨.flt, [1, 1], [.flt 2]⟩ := by
  decide +kernel
example : (propGet 1 "m" none (step exShape (.getItem 0 (.list [3])))).1 = .ok ⟨.int, [1, 1, 1], [.int 7]⟩ := by decide +kernel
example : (propGet 1 "w" none (step exShape (.getItem 0 (.mask [false, false, false, true, false])))).1
    = .ok ⟨.flt, [1, 1], [.flt 3]⟩ := by decide +kernel
-- a keyed read of one atom by int drops the atom axis only: shape (1,), not ()
example : (propGet 0 "w" (some (.int 2)) exShape).1 = .ok ⟨.flt, [1], [.flt 2]⟩ := by decide +kernel
-- the hypotheses of `getItem_keeps_shape` hold here
example : (getItem 0 (.int 2) exShape).1 = .ok 1 := by decide +kernel

/-! ## tables: `Atoms.df()` / `System.atoms_df(scale)` -/

/-- **reads do not write (tables)** — `df()` and `atoms_df(scale)` leave the state literally unchanged, whatever the
    `scale` argument and whether or not the call raises; `df()` replies the columns of `dfColumns`. -/
theorem df_reads_only (off : Bool) (s : State) (o i : Nat) (sc : DfScale) :
    (stepWith off s (.df o)).2 = s ∧ (stepWith off s (.sysDf i sc)).2 = s ∧
    (o < s.objs.length → (stepWith off s (.df o)).1 = .ok (.table (dfColumns s o))) := by
  refine ⟨?_, ?_, ?_⟩
  · unfold stepWith; split
    · rfl
    · rfl
  · rcases stepWith_state off s (.sysDf i sc) with h | ⟨-, h⟩
    · exact h
    · rw [h]
      show ((do let c ← liftE (sysDfColumns s i (dfScaleKeys sc)); pure (Out.table c) : M Out) s).2 = s
      cases sysDfColumns s i (dfScaleKeys sc) <;> rfl
  · intro ho
    unfold stepWith
    rw [if_neg (by simp [Op.litsOk, Op.idsOk, ho])]
    rfl

theorem indexStrs_length (t : List Nat) : (indexStrs t).length = prod t := by
  induction t with
  | nil => rfl
  | cons d ds ih =>
    simp only [indexStrs, prod, List.length_flatMap, List.length_map, ih]
    induction d with
    | zero => simp
    | succ n ihn => simp [List.range_succ, List.sum_append, ihn, Nat.succ_mul]

/-- **one entry per atom, for every column of the table**: in a state satisfying the invariant every column of `df()`
    has exactly `natoms` cells, and a property of trailing shape `t` contributes `prod t` columns. -/
theorem dfColumns_rectangular (s : State) (h : Inv s) (o : Nat) (ho : o < s.objs.length) :
    (∀ c ∈ dfColumns s o, c.cells.length = (s.obj o).natoms) ∧
    (dfColumns s o).length = ((s.obj o).props.map (fun p => prod (arrTrail s p.arr))).sum := by
  obtain ⟨⟨κ, hinv⟩, -⟩ := h
  constructor
  · intro c hc
    simp only [dfColumns, List.mem_flatMap] at hc
    obtain ⟨p, hp, hc⟩ := hc
    simp only [valColumns, List.mem_map] at hc
    obtain ⟨q, -, rfl⟩ := hc
    simp only [List.length_map, rowsOf_length, arrVal, List.headD_cons]
    exact (hinv.obj_props o p hp).len
  · simp only [dfColumns, List.length_flatMap, valColumns, List.length_map, indexStrs_length, arrVal, List.tail_cons]

/-- **row i of every column describes atom i**: the cell of atom `j` in the column of component `ix` of property `p` is
    component `ix` (C order) of row `j` of that property's array — the same `j` for every column. -/
theorem dfColumns_cell (s : State) (h : Inv s) (o : Nat) (ho : o < s.objs.length) (p : PropRef)
    (hp : p ∈ (s.obj o).props) (q : List Nat × String) (hq : q ∈ indexStrs (arrTrail s p.arr)) :
    (⟨p.key ++ q.2, arrDt s p.arr,
        (arrRows s p.arr).map (fun r => r.getD (flatIdx (arrTrail s p.arr) q.1) default)⟩ : Column) ∈ dfColumns s o := by
  have hrect := inv_rectangular s h o p hp
  simp only [dfColumns, List.mem_flatMap]
  refine ⟨p, hp, ?_⟩
  simp only [valColumns, List.mem_map]
  refine ⟨q, by simpa [arrVal] using hq, ?_⟩
  have hw : ∀ r ∈ arrRows s p.arr, r.length = prod (arrTrail s p.arr) := hrect.2.2.2.2.1
  have hflat := rowsOf_flatten (arrRows s p.arr) _ hw
  simp only [arrVal, List.headD_cons, List.tail_cons]
  have hl : (arrRows s p.arr).length = p.arr.idx.length := by simp [arrRows]
  rw [← hl, hflat]


/-! ## the call layer: one Python call with its options (`Atoms.prop`, `System.atoms_prop`, `System(...)`,
    `System.atoms_extend`), dispatched by the decisions regenerated from the source (`Proofs/C06_Source.lean`) -/

/-- a call whose option handling refuses changes nothing. -/
theorem call_refused_unchanged (off : Bool) (s : State) (c : Call) (e : Err) (h : c.toOp s = .error e) :
    callWith off s c = (.error e, s) := by
  unfold callWith; rw [h]

/-- every call of the API — whatever the options, accepted or refused — keeps the invariant. -/
theorem inv_callWith (off : Bool) (s : State) (c : Call) (h : Inv s) : Inv (callWith off s c).2 := by
  unfold callWith
  cases c.toOp s with
  | error e => exact h
  | ok op => exact inv_stepWith off s op h

/-- **end to end**: after any finite sequence of API calls with any options every per-atom property of every object is
    rectangular with one row per atom, atom types are ≥ 1, names are distinct (`Inv`, as `inv_rectangular` /
    `inv_atype_ge_one` spell out). -/
theorem inv_calls (cs : List Call) : Inv (cs.foldl callStep init) := by
  have : ∀ (s : State), Inv s → Inv (cs.foldl callStep s) := by
    induction cs with
    | nil => intro s h; exact h
    | cons c cs ih => intro s h; exact ih _ (inv_callWith false s c h)
  exact this init init_inv

/-- `prop(...)` refuses with ValueError in its option handling exactly when `index` and `a_id` are both given. -/
theorem propCall_refuses_value_iff (o : Nat) (a : PropArgs) :
    propCall o a = .error .value ↔ (a.a_id.isSome = true ∧ a.index.isSome = true) := by
  rcases a with ⟨_ | k, _ | ix, _ | (v | src), _ | jx⟩ <;> simp [propCall, propDispatch, CallVal.isAtoms]

/-- … and with TypeError exactly when a value that is not an `Atoms` object comes without a key. -/
theorem propCall_refuses_type_iff (o : Nat) (a : PropArgs) :
    propCall o a = .error .type ↔
      (¬ (a.a_id.isSome = true ∧ a.index.isSome = true) ∧ a.key = none ∧ ∃ v, a.value = some (.lit v)) := by
  rcases a with ⟨_ | k, _ | ix, _ | (v | src), _ | jx⟩ <;> simp [propCall, propDispatch, CallVal.isAtoms]

/-- `a_id` is another spelling of `index`. -/
theorem propCall_aid_alias (o : Nat) (k : Option String) (v : Option CallVal) (ix : Index) :
    propCall o ⟨k, none, v, some ix⟩ = propCall o ⟨k, some ix, v, none⟩ := by
  rcases k with _ | k <;> rcases v with _ | (v | src) <;> simp [propCall, propDispatch, CallVal.isAtoms]

theorem atomsPropCall_aid_alias (i o : Nat) (k : Option String) (v : Option CallVal) (ix : Index) (sc : Flag) :
    atomsPropCall i o ⟨k, none, v, some ix⟩ sc = atomsPropCall i o ⟨k, some ix, v, none⟩ sc := by
  rcases sc with (_ | _) | t <;> rcases k with _ | k <;> rcases v with _ | (v | src) <;>
    simp [atomsPropCall, atomsPropDispatch, propCall, propDispatch, CallVal.isAtoms]

/-- a `scale` that is not a Python `bool` is refused with TypeError, whatever its truth value and the other arguments
    (and, by `call_refused_unchanged`, nothing changes). -/
theorem atomsPropCall_nonbool_refused (i o : Nat) (a : PropArgs) (t : Bool) :
    atomsPropCall i o a (.other t) = .error .type := rfl

/-- `atoms_prop(..., scale=False)` IS `atoms.prop(...)` on the system's atoms: same refusals of the option handling,
    and for an accepted call the same reply and the same resulting state. -/
theorem atomsProp_unscaled_delegates (off : Bool) (s : State) (i : Nat) (a : PropArgs) :
    (match propCall (s.sys i).atoms a, atomsPropCall i (s.sys i).atoms a (.bool false) with
     | .ok op, .ok op' => run off op' s = run off op s
     | .error e, .error e' => e = e'
     | _, _ => False) := by
  rcases a with ⟨_ | k, _ | ix, _ | (v | src), _ | jx⟩ <;>
    simp [propCall, atomsPropCall, propDispatch, atomsPropDispatch, CallVal.isAtoms] <;> rfl

/-- `System(..., scale=…)` refuses exactly under the test of the source; an accepted call converts the positions
    exactly when `scale is True` and copies the atoms exactly when `safecopy` is truthy. -/
theorem systemCall_spec (o : Nat) (box : Box Rat) (pbc : List Bool) (sy : Option (List (Option String)))
    (ms : Option (List (Option Rat))) (scale safecopy : Flag) :
    (systemCall o box pbc sy ms scale safecopy = .error .type ↔ systemInitRefuses scale) ∧
    (∀ sc cp, systemCall o box pbc sy ms scale safecopy = .ok (.mkSysX o box pbc sy ms sc cp) →
      ((sc = true ↔ systemInitConverts scale) ∧ cp = safecopy.truthy)) := by
  rcases scale with b | t
  · refine ⟨by simp [systemCall, systemInitRefuses, Flag.isBool], ?_⟩
    intro sc cp h
    simp only [systemCall, Except.ok.injEq, Op.mkSysX.injEq] at h
    obtain ⟨-, -, -, -, -, h1, h2⟩ := h
    subst h1 h2
    simp [systemInitConverts]
  · refine ⟨by simp [systemCall, systemInitRefuses, Flag.isBool], ?_⟩
    intro sc cp h
    simp [systemCall] at h

def argKind : Int ⊕ Nat → ArgKind
  | .inl _ => .int
  | .inr _ => .atoms

/-- `atoms_extend(value, scale=…)` refuses with ValueError exactly under the test of the source (`scale is True` with a
    count), and an accepted call converts the donor's positions exactly when `scale` is truthy. -/
theorem atomsExtendCall_spec (i : Nat) (value : Int ⊕ Nat) (scale : Flag) (sy : Option (List (Option String))) :
    (atomsExtendCall i value scale sy = .error .value ↔ atomsExtendRefuses scale (argKind value)) ∧
    (∀ v sc sy', atomsExtendCall i value scale sy = .ok (.sysExtend i v sc sy') →
      (sc = true ↔ atomsExtendConverts scale)) := by
  rcases value with n | d <;> rcases scale with (_ | _) | (_ | _) <;>
    simp [atomsExtendCall, atomsExtendRefuses, atomsExtendConverts, argKind, Flag.truthy]

-- non-vacuity: on the example state, with the options spelled every way
example : callOutput exS (.prop 0 ⟨some "q", some (.int 0), none, some (.int 0)⟩) = .error .value := by decide +kernel
example : callStep exS (.prop 0 ⟨some "q", some (.int 0), none, some (.int 0)⟩) = exS := by decide +kernel
example : callOutput exS (.prop 0 ⟨some "q", none, none, some (.int (-1))⟩) = output exS (.propGet 0 "q" (some (.int (-1)))) := by
  decide +kernel
example : callOutput exS (.prop 0 ⟨none, none, some (.lit ⟨.int, [], [.int 1]⟩), none⟩) = .error .type := by decide +kernel
example : callOutput exS (.atomsProp 0 ⟨some "pos", none, none, none⟩ (.other true)) = .error .type := by decide +kernel
example : callOutput exS (.atomsProp 0 ⟨none, none, none, none⟩ (.bool false)) = output exS (.propKeys 0) := by decide +kernel
example : callOutput exS (.atomsProp 0 ⟨some "pos", none, none, some (.int 1)⟩ (.bool true))
    = output exS (.sysPropGetScaled 0 "pos" (some (.int 1))) := by decide +kernel
example : callOutput exS (.system 0 unitBox [true, true, true] none none (.other true) (.bool false)) = .error .type := by
  decide +kernel
example : callOutput exS (.atomsExtend 0 (.inl 2) (.bool true) none) = .error .value := by decide +kernel
example : Inv (callStep exS (.atomsExtend 0 (.inr 1) (.other true) none)) := inv_callWith false _ _ (inv_reachable exOps)


/-! ## statement audit: theorems of the last rounds instantiated with every hypothesis discharged -/
section audit

-- `viewGuard_refuses_iff` / `atypeGuard_refuses_iff`: an atype column containing 0
example : (viewGuard "atype" 3 ⟨.int, [3], [.int 1, .int 0, .int 1]⟩ exS).1 = .error .value ↔
    guardRefuses ("atype" = "atype") 3 ((0 : Rat) < 1) :=
  viewGuard_refuses_iff "atype" 3 ⟨.int, [3], [.int 1, .int 0, .int 1]⟩ [1, 0, 1] exS (by decide +kernel) 0 (by decide +kernel)
example : (atypeGuard "atype" ⟨.int, [3], [.int 1, .int 0, .int 1]⟩ exS).1 = .error .value ↔
    guardRefuses ("atype" = "atype") 3 (∃ m, listMin ([1, 0, 1] : List Rat) = some m ∧ m < 1) :=
  atypeGuard_refuses_iff "atype" ⟨.int, [3], [.int 1, .int 0, .int 1]⟩ [1, 0, 1] exS (by decide +kernel)
-- `call_refused_unchanged`: both `a_id` and `index` given
example : callWith false exS (.prop 0 ⟨some "q", some (.int 0), none, some (.int 0)⟩) = (.error .value, exS) :=
  call_refused_unchanged false exS _ .value (by rfl)
-- `massesSet_by_decision` / `symbolsGet_by_decision`: `exG` has 4 atom types, 2 symbols
example : sysNatypes 0 exG = (.ok 4, (sysNatypes 0 exG).2) := Prod.ext (by decide +kernel) rfl
example : natypes (exG.sys 0).atoms exG = (.ok 4, (natypes (exG.sys 0).atoms exG).2) := Prod.ext (by decide +kernel) rfl

end audit

section audit2
-- `viewSet_len_mismatch_rejects`: a length-2 column for the 3-atom object 0 of `exS`
example : viewSet 0 "q" (.lit ⟨.flt, [2], [.flt 1, .flt 2]⟩) exS = (.error .value, exS) :=
  viewSet_len_mismatch_rejects exS 0 "q" _ 2 [] rfl (by decide) (by decide +kernel)
-- `propSet_atype_lt_one_rejects`: writing type 0 into one row
example : propSet 0 "atype" (some (.int 1)) ⟨.int, [], [.int 0]⟩ exS = (.error .value, exS) :=
  propSet_atype_lt_one_rejects exS 0 (.int 1) ⟨.int, [], [.int 0]⟩ (by decide) (.int 0) (by simp) 0 (by decide +kernel)
    (by decide +kernel)
-- `viewSet_atype_lt_one_rejects`: a full atype column containing 0
example : viewSet 0 "atype" (.lit ⟨.int, [3], [.int 1, .int 0, .int 2]⟩) exS = (.error .value, exS) :=
  viewSet_atype_lt_one_rejects exS 0 ⟨.int, [3], [.int 1, .int 0, .int 2]⟩ [] (by decide +kernel) (by decide +kernel)
    (by decide +kernel) (by decide) (.int 0) (by simp) 0 (by decide +kernel) (by decide +kernel)
end audit2

end Atomman.C06
