/-
  C06 — per-atom data stays rectangular, row-aligned, unaliased under any edit sequence.
  Property theorems about the model `Atomman/C06.lean` (tied to atomman/core/Atoms.py and
  atomman/core/System.py by the history correspondence of harness/props/c06.py).
-/
import Proofs.C06_System

namespace Atomman.C06
set_option linter.unusedSimpArgs false
set_option linter.unusedVariables false

/-! ## the invariant of operation histories -/

/-- **The history invariant.**  `InvK κ s` (see `Proofs/C06_Inv.lean`): every buffer is rectangular
    and homogeneously typed, every property of every object exposes exactly `natoms` existing rows,
    keys are distinct, `atype` cells are numeric and ≥ 1, every system points at an existing `Atoms`
    and has a 3-entry `pbc`; `Boundary`: every object has an `atype` property. -/
def Inv (s : State) : Prop := (∃ κ, InvK κ s) ∧ Boundary s

theorem post_map_good {α : Type} {κ : Nat → String} {s : State} {m : M α} (g : α → Out)
    (h : Post m s (fun _ s' => Good κ s s')) :
    Post (do let a ← m; pure (g a) : M Out) s (fun _ s' => Good κ s s') := by
  rw [post_bind]
  apply Post.mono h
  intro r s' hg
  cases r with
  | error e => exact hg
  | ok a => exact hg

theorem post_unit_good {κ : Nat → String} {s : State} {m : M Unit}
    (h : Post m s (fun _ s' => Good κ s s')) :
    Post (do m; pure Out.unit : M Out) s (fun _ s' => Good κ s s') := post_map_good (fun _ => Out.unit) h

theorem good_of_eq {κ : Nat → String} {s s' : State} (h : InvK κ s) (he : s' = s) : Good κ s s' := by
  subst he; exact Good.refl h

/-- every call of the documented grammar, started in a state satisfying the invariant, ends
    (normally or by raising) in a state satisfying it. -/
theorem inv_run {κ : Nat → String} {s : State} (h : InvK κ s) (hb : Boundary s) (off : Bool) (op : Op)
    (hlits : op.litsOk = true) (hids : op.idsOk s = true) :
    Post (run off op) s (fun _ s' => Good κ s s') := by
  cases op with
  | new n a p ex =>
    simp only [Op.litsOk, Bool.and_eq_true, List.all_eq_true] at hlits
    apply post_map_good
    apply Post.mono (inv_mkAtoms h n (a.map .lit) (p.map .lit) (ex.map (fun kv => (kv.1, Src.lit kv.2))) ?_ ?_ ?_)
    · intro r s' hm; exact Good.of_made hm
    · intro src hsrc
      cases a with
      | none => cases hsrc
      | some v =>
        simp at hsrc; subst hsrc
        exact valOK_of_ok v (by simpa using hlits.1.1)
    · intro src hsrc
      cases p with
      | none => cases hsrc
      | some v =>
        simp at hsrc; subst hsrc
        exact valOK_of_ok v (by simpa using hlits.1.2)
    · intro kv hkv
      simp only [List.mem_map] at hkv
      obtain ⟨kv0, hkv0, rfl⟩ := hkv
      exact valOK_of_ok _ (hlits.2 kv0 hkv0)
  | setView o k v =>
    apply post_unit_good
    exact Post.mono (inv_viewSet h o k (.lit v) (valOK_of_ok v hlits)) (fun _ _ hq => Good.of_kept hq.1)
  | propGet o k ix =>
    apply post_map_good
    exact Post.mono (propGet_post o k ix s) (fun _ _ he => good_of_eq h he)
  | propKeys o =>
    show Post (getS >>= _) s _
    rw [post_bind_getS]
    exact Good.refl h
  | propGetAtoms o ix =>
    apply post_map_good
    exact Post.mono (inv_propGetAtoms h o ix) (fun _ _ hq => hq.1)
  | propSet o k ix v =>
    apply post_unit_good
    exact Post.mono (inv_propSet h o k ix v (valOK_of_ok v hlits)) (fun _ _ hq => Good.of_kept hq)
  | propSetAtoms o ix src =>
    apply post_unit_good
    exact Post.mono (inv_propSetAtoms h o ix src) (fun _ _ hq => Good.of_kept hq)
  | getItem o ix =>
    apply post_map_good
    exact Post.mono (inv_getItem h o ix) (fun _ _ hq => Good.of_made hq)
  | setItem o ix src =>
    apply post_unit_good
    exact Post.mono (inv_setItem h o ix src) (fun _ _ hq => Good.of_kept hq)
  | propAtype o k v t =>
    apply post_unit_good
    exact Post.mono (inv_propAtype h o k v t (valOK_of_ok v hlits)) (fun _ _ hq => Good.of_kept hq)
  | extendInt o n =>
    apply post_map_good
    exact Post.mono (inv_extendInt h o n) (fun _ _ hq => hq.1)
  | extendAtoms o src =>
    apply post_map_good
    simp only [Op.idsOk, Bool.and_eq_true, decide_eq_true_eq] at hids
    exact Post.mono (inv_extendWith h o src (hb src hids.2).1) (fun _ _ hq => Good.of_made hq)
  | deepcopy o =>
    apply post_map_good
    exact Post.mono (inv_deepcopy h o) (fun _ _ hq => Good.of_made hq)
  | natypes o =>
    apply post_map_good
    exact Post.mono (natypes_post o s) (fun _ _ hq => good_of_eq h hq.1)
  | mkSys o box pbc sy ms =>
    apply post_map_good
    simp only [Op.idsOk, decide_eq_true_eq] at hids
    exact Post.mono (inv_mkSys h o box pbc sy ms hids) (fun _ _ hq => hq.good)
  | symbolsGet i =>
    apply post_map_good
    exact Post.mono (inv_symbolsGet h i) (fun _ _ hq => hq.1.1.good)
  | symbolsSet i l =>
    apply post_unit_good
    exact Post.mono (inv_symbolsSet h i l) (fun _ _ hq => hq.1.1.good)
  | massesGet i =>
    apply post_map_good
    exact Post.mono (inv_massesGet h i) (fun _ _ hq => hq.1.1.good)
  | massesSet i l =>
    apply post_unit_good
    exact Post.mono (inv_massesSet h i l) (fun _ _ hq => hq.1.1.good)
  | pbcSet i l =>
    apply post_unit_good
    exact Post.mono (inv_pbcSet h i l) (fun _ _ hq => hq.1.good)
  | sysNatypes i =>
    apply post_map_good
    exact Post.mono (inv_sysNatypes h i) (fun _ _ hq => hq.1.1.good)
  | sysPropGet i k ix =>
    show Post (getS >>= _) s _
    rw [post_bind_getS]
    apply post_map_good
    exact Post.mono (propGet_post _ k ix s) (fun _ _ he => good_of_eq h he)
  | sysPropGetAtoms i ix =>
    show Post (getS >>= _) s _
    rw [post_bind_getS]
    apply post_map_good
    exact Post.mono (inv_propGetAtoms h _ ix) (fun _ _ hq => hq.1)
  | sysPropSet i k ix v scale =>
    show Post (getS >>= _) s _
    rw [post_bind_getS]
    apply post_unit_good
    cases scale with
    | true => exact Post.mono (inv_sysPropSetScaled h i k ix v (valOK_of_ok v hlits)) (fun _ _ hq => Good.of_kept hq)
    | false => exact Post.mono (inv_propSet h _ k ix v (valOK_of_ok v hlits)) (fun _ _ hq => Good.of_kept hq)
  | sysPropSetAtoms i ix src scale =>
    show Post (getS >>= _) s _
    rw [post_bind_getS]
    apply post_unit_good
    cases scale with
    | true => exact Post.mono (inv_sysPropSetAtomsScaled h i ix src) (fun _ _ hq => Good.of_kept hq)
    | false => exact Post.mono (inv_propSetAtoms h _ ix src) (fun _ _ hq => Good.of_kept hq)
  | sysExtend i v scale sy =>
    apply post_map_good
    apply inv_sysExtend h hb off i v scale sy
    intro d hd
    subst hd
    simp only [Op.idsOk, Bool.and_eq_true, decide_eq_true_eq] at hids
    exact hids.2
  | ixGet i ix =>
    apply post_map_good
    exact inv_ixGet h i ix
  | ixSet i ix src =>
    show Post (getS >>= _) s _
    rw [post_bind_getS]
    apply post_unit_good
    cases src with
    | inl o => exact Post.mono (inv_setItem h _ ix o) (fun _ _ hq => Good.of_kept hq)
    | inr j => exact Post.mono (inv_setItem h _ ix _) (fun _ _ hq => Good.of_kept hq)

theorem stepWith_state (off : Bool) (s : State) (op : Op) :
    (stepWith off s op).2 = s ∨
    ((op.litsOk = true ∧ op.idsOk s = true) ∧ stepWith off s op = run off op s) := by
  unfold stepWith
  split
  · left; rfl
  · rename_i hc
    have hc : op.litsOk = true ∧ op.idsOk s = true := by
      by_cases h1 : op.litsOk = true ∧ op.idsOk s = true
      · exact h1
      · exact absurd h1 hc
    split
    · left; rfl
    · right; exact ⟨hc, rfl⟩

theorem init_inv : Inv init := by
  refine ⟨⟨fun _ => "", ?_, ?_, ?_, ?_⟩, ?_⟩
  · intro b hb; simp [init] at hb
  · intro o ho; simp [init] at ho
  · intro o ho; simp [init] at ho
  · intro y hy; simp [init] at hy
  · intro o ho; simp [init] at ho

/-- **inv_step** — one operation of a history (any operation of the grammar, well-formed or not,
    accepted or refused, both variants of `atoms_extend`) keeps the invariant. -/
theorem inv_stepWith (off : Bool) (s : State) (op : Op) (h : Inv s) : Inv (stepWith off s op).2 := by
  rcases stepWith_state off s op with he | ⟨⟨hl, hi⟩, he⟩
  · rw [he]; exact h
  · obtain ⟨⟨κ, hinv⟩, hb⟩ := h
    have := inv_run hinv hb off op hl hi
    unfold Post at this
    rw [he]
    obtain ⟨κ', hinv', _, hb'⟩ := this
    exact ⟨⟨κ', hinv'⟩, hb' hb⟩

theorem inv_step (s : State) (op : Op) (h : Inv s) : Inv (step s op) := inv_stepWith false s op h

/-- **inv_reachable** — the invariant holds after every finite history from the empty state. -/
theorem inv_reachable (ops : List Op) : Inv (ops.foldl step init) := by
  suffices ∀ s, Inv s → Inv (ops.foldl step s) from this init init_inv
  induction ops with
  | nil => intro s hs; exact hs
  | cons op rest ih => intro s hs; exact ih _ (inv_step s op hs)

/-- the same from any state satisfying the invariant (histories can be continued). -/
theorem inv_history (s : State) (ops : List Op) (h : Inv s) : Inv (ops.foldl step s) := by
  induction ops generalizing s with
  | nil => exact h
  | cons op rest ih => exact ih _ (inv_step s op h)

/-! ## what the invariant says about what can be read back -/

/-- **rectangular** — in every state satisfying the invariant, every property `p` of every object
    `o`, read as a value, has shape `natoms :: trail`, holds exactly `natoms * prod trail` cells, all of
    the property's dtype (strings no longer than the declared width); property names are distinct. -/
theorem inv_rectangular (s : State) (h : Inv s) (o : Nat) (p : PropRef) (hp : p ∈ (s.obj o).props) :
    (arrVal s p.arr).shape = (s.obj o).natoms :: arrTrail s p.arr ∧
    (arrVal s p.arr).data.length = (s.obj o).natoms * prod (arrTrail s p.arr) ∧
    (∀ c ∈ (arrVal s p.arr).data, c.hasType (arrDt s p.arr) = true) ∧
    (arrRows s p.arr).length = (s.obj o).natoms ∧
    (∀ r ∈ arrRows s p.arr, r.length = prod (arrTrail s p.arr)) ∧
    ((s.obj o).props.map (·.key)).Nodup := by
  obtain ⟨⟨κ, hinv⟩, _⟩ := h
  have hp0 := hinv.obj_props o p hp
  have hv := arrVal_ok hinv hp0.valid
  have hb := hinv.buf_ok p.arr.buf
  refine ⟨by simp [arrVal, hp0.len], ?_, hv.2, by simp [arrRows, hp0.len], ?_, ?_⟩
  · rw [hv.1]; simp [arrVal, prod, hp0.len]
  · intro r hr
    obtain ⟨i, _, _, hmem⟩ := arrRows_mem hp0.valid r hr
    exact hb.width r hmem
  · by_cases ho : o < s.objs.length
    · exact hinv.nodup _ (obj_mem s o ho)
    · rw [obj_ge s o (Nat.le_of_not_lt ho)]; simp [emptyObj]

theorem reachable_rectangular (ops : List Op) (o : Nat) (p : PropRef)
    (hp : p ∈ ((ops.foldl step init).obj o).props) :
    (arrVal (ops.foldl step init) p.arr).shape =
      ((ops.foldl step init).obj o).natoms :: arrTrail (ops.foldl step init) p.arr ∧
    (arrVal (ops.foldl step init) p.arr).data.length =
      ((ops.foldl step init).obj o).natoms * prod (arrTrail (ops.foldl step init) p.arr) ∧
    (∀ c ∈ (arrVal (ops.foldl step init) p.arr).data, c.hasType (arrDt (ops.foldl step init) p.arr) = true) :=
  let h := inv_rectangular _ (inv_reachable ops) o p hp
  ⟨h.1, h.2.1, h.2.2.1⟩

/-- **atype ≥ 1** — in every state satisfying the invariant every object has an `atype` property and
    every cell of it is numeric and at least 1. -/
theorem inv_atype_ge_one (s : State) (h : Inv s) (o : Nat) (ho : o < s.objs.length) :
    ∃ a, (s.obj o).find "atype" = some a ∧ ∀ c ∈ (arrVal s a).data, ∃ q, c.num? = some q ∧ 1 ≤ q := by
  obtain ⟨⟨κ, hinv⟩, hb⟩ := h
  have := (hb o ho).1
  cases hf : (s.obj o).find "atype" with
  | none => simp [hf] at this
  | some a =>
    refine ⟨a, rfl, ?_⟩
    exact arrVal_ge1 ((hinv.find_ok o "atype" a hf).atype rfl)

theorem reachable_atype_ge_one (ops : List Op) (o : Nat) (ho : o < (ops.foldl step init).objs.length) :
    ∃ a, ((ops.foldl step init).obj o).find "atype" = some a ∧
      ∀ c ∈ (arrVal (ops.foldl step init) a).data, ∃ q, c.num? = some q ∧ 1 ≤ q :=
  inv_atype_ge_one _ (inv_reachable ops) o ho

theorem foldl_min_mem (l : List Rat) (x : Rat) : l.foldl (fun m y => if y < m then y else m) x ∈ x :: l := by
  induction l generalizing x with
  | nil => simp
  | cons z t ih =>
    simp only [List.foldl_cons]
    by_cases hz : z < x
    · simp only [hz, if_true]
      have := ih z
      simp only [List.mem_cons] at this ⊢
      rcases this with h | h
      · right; left; exact h
      · right; right; exact h
    · simp only [hz, if_false]
      have := ih x
      simp only [List.mem_cons] at this ⊢
      rcases this with h | h
      · left; exact h
      · right; right; exact h

/-- consequently the `np.min(self.atype) < 1` refusal of `natypes` is never taken on an object of a
    state satisfying the invariant. -/
theorem inv_natypes_min (s : State) (h : Inv s) (o : Nat) (ho : o < s.objs.length)
    (a : Arr) (nums : List Rat) (mn : Rat) (hf : (s.obj o).find "atype" = some a)
    (hn : (arrVal s a).data.mapM Cell.num? = some nums) (hm : listMin nums = some mn) : ¬ mn < 1 := by
  obtain ⟨a', hf', hge⟩ := inv_atype_ge_one s h o ho
  rw [hf] at hf'; injection hf' with hf'; subst hf'
  have hmem : mn ∈ nums := by
    cases nums with
    | nil => simp [listMin] at hm
    | cons x xs =>
      simp only [listMin, Option.some.injEq] at hm
      subst hm
      exact foldl_min_mem xs x
  obtain ⟨hlen, hback⟩ := mapM_option _ _ _ hn
  obtain ⟨c, hc, hcq⟩ := hback mn hmem
  obtain ⟨q, hq, h1⟩ := hge c hc
  rw [hcq] at hq; injection hq with hq; subst hq
  exact Rat.not_lt.mpr h1

/-! ## symbols and masses are padded to the number of atom types once read -/

/-- `symbols` getter: the returned tuple is what the system now stores and is at least as long as
    `natypes` of the system's atoms (evaluated in the state the getter leaves). -/
theorem symbols_padded (s : State) (h : Inv s) (i : Nat) (hi : i < s.syss.length) (l : List (Option String))
    (s' : State) (hrun : symbolsGet i s = (.ok l, s')) :
    (s'.sys i).symbols = l ∧ ∃ nt, (natypes (s'.sys i).atoms s').1 = .ok nt ∧ nt ≤ l.length := by
  obtain ⟨⟨κ, hinv⟩, _⟩ := h
  have := inv_symbolsGet hinv i
  unfold Post at this
  rw [hrun] at this
  obtain ⟨hk, hres⟩ := this
  obtain ⟨hl, hnt⟩ := hres l rfl
  obtain ⟨nt, hnt, hle⟩ := hnt hi
  exact ⟨hl.symm, nt, by rw [← hnt]; exact ntOf_congr hk.1 i hi, hle⟩

/-- `masses` getter: likewise. -/
theorem masses_padded (s : State) (h : Inv s) (i : Nat) (hi : i < s.syss.length) (l : List (Option Rat))
    (s' : State) (hrun : massesGet i s = (.ok l, s')) :
    (s'.sys i).masses = l ∧ ∃ nt, (natypes (s'.sys i).atoms s').1 = .ok nt ∧ nt ≤ l.length := by
  obtain ⟨⟨κ, hinv⟩, _⟩ := h
  have := inv_massesGet hinv i
  unfold Post at this
  rw [hrun] at this
  obtain ⟨hk, hres⟩ := this
  obtain ⟨hl, hnt⟩ := hres l rfl
  obtain ⟨nt, hnt, hle⟩ := hnt hi
  exact ⟨hl.symm, nt, by rw [← hnt]; exact ntOf_congr hk.1 i hi, hle⟩

/-- `System.natypes` is at least `atoms.natypes`. -/
theorem sysNatypes_ge (s : State) (h : Inv s) (i : Nat) (hi : i < s.syss.length) (n : Nat) (s' : State)
    (hrun : sysNatypes i s = (.ok n, s')) : ∃ nt, (natypes (s'.sys i).atoms s').1 = .ok nt ∧ nt ≤ n := by
  obtain ⟨⟨κ, hinv⟩, _⟩ := h
  have := inv_sysNatypes hinv i
  unfold Post at this
  rw [hrun] at this
  obtain ⟨hk, hres⟩ := this
  obtain ⟨nt, hnt, hle⟩ := hres n rfl hi
  exact ⟨nt, by rw [← hnt]; exact ntOf_congr hk.1 i hi, hle⟩

/-- the setters pad as well: after `system.symbols = value` the stored tuple is `value` padded with
    `None` up to `natypes`. -/
theorem symbolsSet_pads (s : State) (h : Inv s) (i : Nat) (hi : i < s.syss.length) (value : List (Option String))
    (s' : State) (hrun : symbolsSet i value s = (.ok (), s')) :
    ∃ nt, (natypes (s.sys i).atoms s).1 = .ok nt ∧ (s'.sys i).symbols = padTo value nt ∧
      nt ≤ (s'.sys i).symbols.length ∧ value.length ≤ (s'.sys i).symbols.length := by
  obtain ⟨⟨κ, hinv⟩, _⟩ := h
  have := inv_symbolsSet hinv i value
  unfold Post at this
  rw [hrun] at this
  obtain ⟨nt, hnt, hsym⟩ := this.2 rfl hi
  exact ⟨nt, hnt, hsym, by rw [hsym]; exact (padTo_length _ _).1, by rw [hsym]; exact (padTo_length _ _).2⟩

/-! ## refusals: one lemma per refusal branch (nothing is defaulted) -/

theorem eq_of_post {α : Type} {m : M α} {s : State} {x : Except Err α} {y : State}
    (h : Post m s (fun r s' => r = x ∧ s' = y)) : m s = (x, y) := Prod.ext h.1 h.2

/-- `view[key] = value` with a first dimension that is neither 1 nor `natoms`: ValueError, nothing changes. -/
theorem viewSet_len_mismatch_rejects (s : State) (o : Nat) (key : String) (src : Src) (d : Nat) (t : List Nat)
    (hs : (srcVal s src).shape = d :: t) (h1 : d ≠ 1) (hn : d ≠ (s.obj o).natoms) :
    viewSet o key src s = (.error .value, s) := by
  apply eq_of_post
  unfold viewSet
  rw [post_bind_getS]
  simp only []
  have : viewBcast s (s.obj o).natoms src = fail .value := by
    unfold viewBcast
    simp only [hs, h1, hn, if_false, ne_eq, not_false_eq_true, if_true]
  rw [this, post_bind_fail]
  exact ⟨rfl, rfl⟩

theorem mapM_num_total (cells : List Cell) (h : ∀ c ∈ cells, (c.num?).isSome) :
    ∃ nums, cells.mapM Cell.num? = some nums := by
  induction cells with
  | nil => exact ⟨[], rfl⟩
  | cons x t ih =>
    obtain ⟨ns, hns⟩ := ih (fun c hc => h c (by simp [hc]))
    have hx := h x (by simp)
    cases hxn : x.num? with
    | none => simp [hxn] at hx
    | some q => exact ⟨q :: ns, by simp [List.mapM_cons, hxn, hns]⟩

/-- the `np.min(value) < 1` test fires as soon as one cell of a numeric value is below 1. -/
theorem guard_fires (cells : List Cell) (hnum : ∀ c ∈ cells, (c.num?).isSome) (c : Cell) (hc : c ∈ cells) (q : Rat)
    (hq : c.num? = some q) (hlt : q < 1) :
    ∃ nums m, cells.mapM Cell.num? = some nums ∧ listMin nums = some m ∧ m < 1 := by
  obtain ⟨nums, hnums⟩ := mapM_num_total cells hnum
  obtain ⟨q', hq', hcq'⟩ := mapM_option_fwd _ _ _ hnums c hc
  rw [hq] at hcq'; injection hcq' with hcq'; subst hcq'
  cases hm : listMin nums with
  | none =>
    cases nums with
    | nil => simp at hq'
    | cons x xs => simp [listMin] at hm
  | some m =>
    refine ⟨nums, m, hnums, hm, ?_⟩
    have := listMin_le nums m hm q hq'
    grind

/-- whole-column assignment of atom types containing a value below 1: ValueError, nothing changes. -/
theorem viewSet_atype_lt_one_rejects (s : State) (o : Nat) (v : Val) (t : List Nat)
    (hs : v.shape = (s.obj o).natoms :: t) (hn1 : (s.obj o).natoms ≠ 1) (hpos : 0 < (s.obj o).natoms)
    (hnum : ∀ c ∈ v.data, (c.num?).isSome) (c : Cell) (hc : c ∈ v.data) (q : Rat) (hq : c.num? = some q)
    (hlt : q < 1) : viewSet o "atype" (.lit v) s = (.error .value, s) := by
  apply eq_of_post
  unfold viewSet
  rw [post_bind_getS]
  simp only []
  have hb : viewBcast s (s.obj o).natoms (.lit v) = pure (.lit v) := by
    unfold viewBcast
    simp only [srcVal, hs, hn1, if_false, ne_eq, not_true_eq_false]
    rfl
  rw [hb, post_bind_pure]
  obtain ⟨nums, m, h1, h2, h3⟩ := guard_fires v.data hnum c hc q hq hlt
  have hg : viewGuard "atype" (s.obj o).natoms (srcVal s (.lit v)) = fail .value := by
    unfold viewGuard
    simp only [srcVal, hpos, and_self, if_true, h1, h2, h3]
  rw [hg, post_bind_fail]
  exact ⟨rfl, rfl⟩

/-- indexed write of an atom type below 1 (`prop('atype', index, value)`): ValueError, nothing changes. -/
theorem propSet_atype_lt_one_rejects (s : State) (o : Nat) (ix : Index) (v : Val)
    (hnum : ∀ c ∈ v.data, (c.num?).isSome) (c : Cell) (hc : c ∈ v.data) (q : Rat) (hq : c.num? = some q)
    (hlt : q < 1) : propSet o "atype" (some ix) v s = (.error .value, s) := by
  apply eq_of_post
  unfold propSet
  simp only []
  obtain ⟨nums, m, h1, h2, h3⟩ := guard_fires v.data hnum c hc q hq hlt
  have hne : v.data ≠ [] := by intro h; rw [h] at hc; simp at hc
  have hg : atypeGuard "atype" v = fail .value := by
    unfold atypeGuard
    simp only [hne, ne_eq, not_false_eq_true, and_self, if_true, h1, h2, h3]
  rw [hg, post_bind_fail]
  exact ⟨rfl, rfl⟩

/-- a value numpy cannot broadcast to the selected rows: ValueError, nothing is written. -/
theorem assign_shape_mismatch_rejects (s : State) (a : Arr) (sel : Sel) (v : Val)
    (h : bcast v (assignShape s a sel) = none) : ∃ e, assign a sel v s = (.error e, s) ∧ (e = .value ∨ e = .type) := by
  unfold assign
  simp only []
  split
  · exact ⟨_, rfl, Or.inl rfl⟩
  · split
    · exact ⟨_, rfl, Or.inr rfl⟩
    · have h' : bcast v (if sel.scalar = true then (s.buf a.buf).trail else sel.count :: (s.buf a.buf).trail) = none := h
      simp only [h']
      exact ⟨_, rfl, Or.inl rfl⟩

/-- an integer-list index with an entry out of bounds: IndexError, nothing is written. -/
theorem assign_oob_rejects (s : State) (a : Arr) (sel : Sel) (v : Val) (flat : List Cell)
    (hb : bcast v (assignShape s a sel) = some flat) (hoob : sel.oob = true)
    (h1 : ¬ (sel.scalar = true ∧ (s.buf a.buf).trail = [] ∧ v.shape ≠ []))
    (h2 : ¬ (sel.mask = true ∧ (s.buf a.buf).trail = [] ∧ v.shape.length > 1)) :
    assign a sel v s = (.error .index, s) := by
  unfold assign
  have h' : bcast v (if sel.scalar = true then (s.buf a.buf).trail else sel.count :: (s.buf a.buf).trail) = some flat := hb
  simp only [h1, h2, if_false, h', hoob, if_true]

/-- `atoms[index] = other` with different property sets: ValueError, nothing changes. -/
theorem setItem_keys_mismatch_rejects (s : State) (o : Nat) (ix : Index) (src : Nat)
    (h : sameKeys (s.obj src).keys (s.obj o).keys = false) : setItem o ix src s = (.error .value, s) := by
  apply eq_of_post
  unfold setItem
  rw [post_bind_getS]
  simp only []
  have hc : ¬ sameKeys (s.obj src).keys (s.obj o).keys = true := by simp [h]
  rw [if_pos hc, post_fail]
  exact ⟨rfl, rfl⟩

theorem resolve_int_out_of_range (n : Nat) (i : Int) (h : (n : Int) ≤ i ∨ i < -(n : Int)) :
    resolve n (.int i) = .error .index := by
  have : normInt n i = none := by
    unfold normInt
    rcases h with h | h
    · have h1 : ¬ (0 ≤ i ∧ i < n) := by omega
      have h2 : ¬ (-(n : Int) ≤ i ∧ i < 0) := by omega
      simp [h1, h2]
    · have h1 : ¬ (0 ≤ i ∧ i < n) := by omega
      have h2 : ¬ (-(n : Int) ≤ i ∧ i < 0) := by omega
      simp [h1, h2]
  simp [resolve, this]

theorem resolve_zero_step (n : Nat) (a b : Option Int) : resolve n (.slice a b (some 0)) = .error .value := by
  simp [resolve]

theorem resolve_mask_length (n : Nat) (m : List Bool) (h1 : m.length ≠ n) (h2 : m.length ≠ 0) :
    resolve n (.mask m) = .error .index := by
  simp [resolve, h1, h2]

/-- reading or writing a property that does not exist: KeyError, nothing changes. -/
theorem propGet_missing_key (s : State) (o : Nat) (key : String) (ix : Option Index)
    (h : (s.obj o).find key = none) : propGet o key ix s = (.error .key, s) := by
  apply eq_of_post
  unfold propGet
  rw [post_bind_getS, post_bind_keyErr, h]
  exact ⟨rfl, rfl⟩

theorem pbcSet_bad_length_rejects (s : State) (i : Nat) (value : List Bool) (h : value.length ≠ 3) :
    pbcSet i value s = (.error .assert, s) := by
  unfold pbcSet
  simp only [h, ne_eq, not_false_eq_true, if_true]
  rfl

theorem sysExtend_scale_int_rejects (s : State) (off : Bool) (i : Nat) (n : Int)
    (symbols : Option (List (Option String))) : sysExtend off i (.inl n) true symbols s = (.error .value, s) := by
  apply eq_of_post
  unfold sysExtend
  rw [post_bind_getS]
  simp only [Sum.isLeft, and_self, if_true]
  exact ⟨rfl, rfl⟩

/-- `prop_atype(key, value)` with a 0-d value: TypeError (`len()` of unsized object). -/
theorem propAtype_scalar_rejects (s : State) (o : Nat) (key : String) (v : Val) (ta : Arr)
    (hf : (s.obj o).find "atype" = some ta) (hs : v.shape = []) :
    propAtype o key v none s = (.error .type, s) := by
  apply eq_of_post
  unfold propAtype
  rw [post_bind_getS, post_bind_keyErr]
  simp only [hf, hs]
  exact ⟨rfl, rfl⟩

/-- a failed constructor call leaves no trace (`Atoms(...)` raising creates no object). -/
theorem mkAtoms_rolls_back (natoms : Option Int) (atype pos : Option Src) (extra : List (String × Src)) (s s' : State)
    (e : Err) (h : mkAtoms natoms atype pos extra s = (.error e, s')) : s' = s := by
  unfold mkAtoms atomic at h
  split at h
  · cases h
  · injection h with _ h2; exact h2.symm

/-- malformed literals / dangling ids are `format` errors and change nothing; an outcome outside the
    modelled numpy fragment leaves the state untouched. -/
theorem step_format (off : Bool) (s : State) (op : Op) (h : ¬ (op.litsOk = true ∧ op.idsOk s = true)) :
    stepWith off s op = (.error .format, s) := by
  unfold stepWith
  simp only [h, not_false_eq_true, if_true]

theorem step_unmodelled (off : Bool) (s : State) (op : Op) (h : (stepWith off s op).1 = .error .unmodelled) :
    (stepWith off s op).2 = s := by
  unfold stepWith at h ⊢
  by_cases hc : (op.litsOk = true ∧ op.idsOk s = true)
  · simp only [hc, not_true_eq_false, if_false] at h ⊢
    cases hrun : run off op s with
    | mk r s2 =>
      rw [hrun] at h
      cases r with
      | ok out => simp at h
      | error e =>
        cases e <;> simp at h ⊢
  · simp only [hc, not_false_eq_true, if_true]

end Atomman.C06
