/-
  C17 — the conflict resolution of `match_pq` for ANY number of competing current vectors.

  `matchPQ_pairing_partial` (Proofs/C17.lean) assumes that distinct `q` pick distinct `p`.  Here that hypothesis is
  dropped: whatever the number of `q` whose best reference vector is the same `p` (neighbour lists of the current
  system holding more shells than the reference set, large `theta_max`), after the double loop
    * every `q` is listed once, in order, paired with its best `p` or with nothing           (`keys`, `vals`)
    * every `p` is paired with AT MOST ONE `q`                                                 (`nodup`)
    * a `p` that is the best match of some `q` IS paired, and the `q` it is paired with is the one closest to the
      first-shell radius `r1` among all `q` that chose it                                        (`best`)
  and therefore `G = F⁻ᵀ` as soon as every "foreign" `q` (one that is not the image `F p` of its best `p`) competes
  with a true image that is strictly closer to `r1` (`solveG_homogeneous_competing`).
-/
import Proofs.C17_Lemmas

namespace Atomman.C17
open Atomman
set_option linter.unusedSectionVars false
set_option linter.unusedSimpArgs false
set_option linter.unusedVariables false

variable {K : Type} [Field K] [LinearOrder K] [IsStrictOrderedRing K]

/-- `|r1 − |q||`: the quantity the conflict loop compares (`jrad`, `krad`). -/
def rad (mag : V3 K → K) (r1 : K) (q : V3 K) : K := absK (r1 - mag q)

/-- the reference vectors currently paired (`qp_pairs[k] >= 0`), in the order of `q`. -/
def held (l : List (V3 K × Option Nat)) : List Nat := l.filterMap (·.2)

/-- one pass of the conflict loop over an earlier entry, without the accumulator. -/
def stepE (mag : V3 K → K) (r1 : K) (qj : V3 K) (cur : Option Nat) (e : V3 K × Option Nat) :
    (V3 K × Option Nat) × Option Nat :=
  match cur, e.2 with
  | some a, some b =>
    if a = b then (if rad mag r1 qj < rad mag r1 e.1 then ((e.1, none), cur) else (e, none)) else (e, cur)
  | _, _ => (e, cur)

/-- the conflict loop as a structural recursion. -/
def dedupeRec (mag : V3 K → K) (r1 : K) (qj : V3 K) :
    Option Nat → List (V3 K × Option Nat) → List (V3 K × Option Nat) × Option Nat
  | cur, [] => ([], cur)
  | cur, e :: l =>
    ((stepE mag r1 qj cur e).1 :: (dedupeRec mag r1 qj (stepE mag r1 qj cur e).2 l).1,
     (dedupeRec mag r1 qj (stepE mag r1 qj cur e).2 l).2)

theorem dedupeStep_eq (mag : V3 K → K) (r1 : K) (qj : V3 K) (acc : List (V3 K × Option Nat)) (cur : Option Nat)
    (e : V3 K × Option Nat) :
    dedupeStep mag r1 qj (acc, cur) e = (acc ++ [(stepE mag r1 qj cur e).1], (stepE mag r1 qj cur e).2) := by
  obtain ⟨q, o⟩ := e
  cases cur with
  | none => simp [dedupeStep, stepE]
  | some a =>
    cases o with
    | none => simp [dedupeStep, stepE]
    | some b =>
      simp only [dedupeStep, stepE, rad]
      by_cases hab : a = b
      · simp only [hab, if_true]
        split <;> rfl
      · simp only [hab, if_false]

theorem dedupe_fold (mag : V3 K → K) (r1 : K) (qj : V3 K) :
    ∀ (l acc : List (V3 K × Option Nat)) (cur : Option Nat),
      l.foldl (dedupeStep mag r1 qj) (acc, cur) =
        (acc ++ (dedupeRec mag r1 qj cur l).1, (dedupeRec mag r1 qj cur l).2)
  | [], acc, cur => by simp [dedupeRec]
  | e :: l, acc, cur => by
    simp only [List.foldl_cons, dedupeStep_eq, dedupeRec]
    rw [dedupe_fold mag r1 qj l]
    simp

theorem pairStep_eq (mag : V3 K → K) (cosMax r1 : K) (ps : List (V3 K)) (prev : List (V3 K × Option Nat)) (qj : V3 K) :
    pairStep mag cosMax r1 ps prev qj =
      (dedupeRec mag r1 qj (bestP mag cosMax qj ps) prev).1 ++ [(qj, (dedupeRec mag r1 qj (bestP mag cosMax qj ps) prev).2)] := by
  simp only [pairStep, dedupe_fold, List.nil_append]

/-! ### facts about one run of the conflict loop -/

theorem stepE_none (mag : V3 K → K) (r1 : K) (qj : V3 K) (e : V3 K × Option Nat) :
    stepE mag r1 qj none e = (e, none) := by
  simp [stepE]

theorem stepE_other (mag : V3 K → K) (r1 : K) (qj : V3 K) (cur : Option Nat) (e : V3 K × Option Nat)
    (h : e.2 ≠ cur) : stepE mag r1 qj cur e = (e, cur) := by
  obtain ⟨q, o⟩ := e
  cases cur with
  | none => simp [stepE]
  | some a =>
    cases o with
    | none => simp [stepE]
    | some b =>
      have : a ≠ b := fun hab => h (by simp [hab])
      simp [stepE, this]

theorem stepE_hit (mag : V3 K → K) (r1 : K) (qj : V3 K) (a : Nat) (e : V3 K × Option Nat) (h : e.2 = some a) :
    stepE mag r1 qj (some a) e =
      if rad mag r1 qj < rad mag r1 e.1 then ((e.1, none), some a) else (e, none) := by
  obtain ⟨q, o⟩ := e
  simp only at h
  subst h
  simp [stepE]

theorem rec_none (mag : V3 K → K) (r1 : K) (qj : V3 K) :
    ∀ l : List (V3 K × Option Nat), dedupeRec mag r1 qj none l = (l, none)
  | [] => rfl
  | e :: l => by simp [dedupeRec, stepE_none, rec_none mag r1 qj l]

theorem rec_noholder (mag : V3 K → K) (r1 : K) (qj : V3 K) (a : Nat) :
    ∀ l : List (V3 K × Option Nat), (∀ e ∈ l, e.2 ≠ some a) → dedupeRec mag r1 qj (some a) l = (l, some a)
  | [], _ => rfl
  | e :: l, h => by
    have h1 := stepE_other mag r1 qj (some a) e (h e List.mem_cons_self)
    simp [dedupeRec, h1, rec_noholder mag r1 qj a l (fun e' he' => h e' (List.mem_cons_of_mem _ he'))]

theorem rec_keys (mag : V3 K → K) (r1 : K) (qj : V3 K) :
    ∀ (l : List (V3 K × Option Nat)) (cur : Option Nat), (dedupeRec mag r1 qj cur l).1.map (·.1) = l.map (·.1)
  | [], _ => rfl
  | e :: l, cur => by
    simp only [dedupeRec, List.map_cons, rec_keys mag r1 qj l]
    congr 1
    obtain ⟨q, o⟩ := e
    cases cur with
    | none => simp [stepE]
    | some a =>
      cases o with
      | none => simp [stepE]
      | some b =>
        simp only [stepE]
        split
        · split <;> rfl
        · rfl

theorem stepE_snd (mag : V3 K → K) (r1 : K) (qj : V3 K) (cur : Option Nat) (e : V3 K × Option Nat) :
    (stepE mag r1 qj cur e).2 = none ∨ (stepE mag r1 qj cur e).2 = cur := by
  obtain ⟨q, o⟩ := e
  cases cur with
  | none => simp [stepE]
  | some a =>
    cases o with
    | none => simp [stepE]
    | some b =>
      simp only [stepE]
      split
      · split
        · right; rfl
        · left; rfl
      · right; rfl

theorem rec_snd (mag : V3 K → K) (r1 : K) (qj : V3 K) :
    ∀ (l : List (V3 K × Option Nat)) (cur : Option Nat),
      (dedupeRec mag r1 qj cur l).2 = none ∨ (dedupeRec mag r1 qj cur l).2 = cur
  | [], _ => Or.inr rfl
  | e :: l, cur => by
    simp only [dedupeRec]
    rcases stepE_snd mag r1 qj cur e with h | h
    · rw [h, rec_none]; left; rfl
    · rw [h]; exact rec_snd mag r1 qj l cur

/-- an entry of the result is an entry of the input, or an input entry with its pairing erased. -/
theorem stepE_fst (mag : V3 K → K) (r1 : K) (qj : V3 K) (cur : Option Nat) (e : V3 K × Option Nat) :
    (stepE mag r1 qj cur e).1 = e ∨ (stepE mag r1 qj cur e).1 = (e.1, none) := by
  obtain ⟨q, o⟩ := e
  cases cur with
  | none => simp [stepE]
  | some a =>
    cases o with
    | none => simp [stepE]
    | some b =>
      simp only [stepE]
      split
      · split
        · right; rfl
        · left; rfl
      · left; rfl

theorem rec_entries (mag : V3 K → K) (r1 : K) (qj : V3 K) :
    ∀ (l : List (V3 K × Option Nat)) (cur : Option Nat), ∀ e' ∈ (dedupeRec mag r1 qj cur l).1,
      e' ∈ l ∨ e'.2 = none
  | [], _, e', h => by simp [dedupeRec] at h
  | e :: l, cur, e', h => by
    simp only [dedupeRec, List.mem_cons] at h
    rcases h with h | h
    · rcases stepE_fst mag r1 qj cur e with h1 | h1
      · left; rw [h, h1]; exact List.mem_cons_self
      · right; rw [h, h1]
    · rcases rec_entries mag r1 qj l _ e' h with h1 | h1
      · left; exact List.mem_cons_of_mem _ h1
      · right; exact h1

theorem held_cons (e : V3 K × Option Nat) (l : List (V3 K × Option Nat)) :
    held (e :: l) = e.2.toList ++ held l := by
  obtain ⟨q, o⟩ := e
  cases o <;> simp [held]

theorem rec_held_sublist (mag : V3 K → K) (r1 : K) (qj : V3 K) :
    ∀ (l : List (V3 K × Option Nat)) (cur : Option Nat), (held (dedupeRec mag r1 qj cur l).1).Sublist (held l)
  | [], _ => by simp [dedupeRec, held]
  | e :: l, cur => by
    simp only [dedupeRec, held_cons]
    have ih := rec_held_sublist mag r1 qj l (stepE mag r1 qj cur e).2
    rcases stepE_fst mag r1 qj cur e with h1 | h1
    · rw [h1]; exact List.Sublist.append (List.Sublist.refl _) ih
    · rw [h1]
      simp only [Option.toList_none, List.nil_append]
      exact List.Sublist.trans ih (List.sublist_append_right _ _)

theorem mem_held (l : List (V3 K × Option Nat)) (a : Nat) : a ∈ held l ↔ ∃ e ∈ l, e.2 = some a := by
  simp [held, List.mem_filterMap]

/-- entries that do not hold the contested `p` are left alone. -/
theorem rec_keeps (mag : V3 K → K) (r1 : K) (qj : V3 K) :
    ∀ (l : List (V3 K × Option Nat)) (cur : Option Nat), ∀ e ∈ l, e.2 ≠ cur → e.2 ≠ none →
      e ∈ (dedupeRec mag r1 qj cur l).1
  | [], _, _, h, _, _ => by simp at h
  | e0 :: l, cur, e, h, hne, hnn => by
    simp only [dedupeRec, List.mem_cons]
    rcases List.mem_cons.mp h with h | h
    · left; rw [h, stepE_other mag r1 qj cur e0 (h ▸ hne)]
    · right
      rcases stepE_snd mag r1 qj cur e0 with h1 | h1
      · rw [h1, rec_none]; exact h
      · rw [h1]; exact rec_keeps mag r1 qj l cur e h hne hnn

/-- with pairwise distinct holders, two entries holding the same `p` are the same entry. -/
theorem holder_unique : ∀ (l : List (V3 K × Option Nat)), (held l).Nodup → ∀ (a : Nat) (e f : V3 K × Option Nat),
    e ∈ l → f ∈ l → e.2 = some a → f.2 = some a → e = f
  | [], _, _, _, _, h, _, _, _ => by simp at h
  | x :: l, hnd, a, e, f, he, hf, hea, hfa => by
    rw [held_cons] at hnd
    have hl : (held l).Nodup := (List.nodup_append.mp hnd).2.1
    have hdis : ∀ y, x.2 = some y → y ∉ held l := by
      intro y hy hmem
      rw [hy] at hnd
      have := (List.nodup_append.mp hnd).2.2 y (by simp) y hmem
      exact this rfl
    rcases List.mem_cons.mp he with he | he <;> rcases List.mem_cons.mp hf with hf | hf
    · rw [he, hf]
    · exact absurd ((mem_held l a).mpr ⟨f, hf, hfa⟩) (hdis a (he ▸ hea))
    · exact absurd ((mem_held l a).mpr ⟨e, he, hea⟩) (hdis a (hf ▸ hfa))
    · exact holder_unique l hl a e f he hf hea hfa

/-- the run against a list in which `e0` holds the contested `p` (holders pairwise distinct): either the new `q`
    is strictly closer to `r1` — then `e0` loses its pairing, nothing else changes and the new `q` keeps the `p` — or
    it is not — then nothing changes and the new `q` stays unpaired. -/
theorem rec_holder (mag : V3 K → K) (r1 : K) (qj : V3 K) (a : Nat) :
    ∀ (l : List (V3 K × Option Nat)), (held l).Nodup → ∀ e0 ∈ l, e0.2 = some a →
      (rad mag r1 qj < rad mag r1 e0.1 →
        (dedupeRec mag r1 qj (some a) l).2 = some a ∧ a ∉ held (dedupeRec mag r1 qj (some a) l).1) ∧
      (¬ rad mag r1 qj < rad mag r1 e0.1 → dedupeRec mag r1 qj (some a) l = (l, none))
  | [], _, e0, h, _ => by simp at h
  | x :: l, hnd, e0, he0, ha => by
    have hnd' := hnd
    rw [held_cons] at hnd'
    have hl : (held l).Nodup := (List.nodup_append.mp hnd').2.1
    by_cases hx : x.2 = some a
    · -- `x` is the holder, hence `e0 = x` and no later entry holds `a`
      have hxe : e0 = x := holder_unique (x :: l) hnd a e0 x he0 List.mem_cons_self ha hx
      have hno : ∀ e ∈ l, e.2 ≠ some a := by
        intro e he hea
        rw [hx] at hnd'
        have hmem : a ∈ held l := (mem_held l a).mpr ⟨e, he, hea⟩
        exact (List.nodup_append.mp hnd').2.2 a (by simp) a hmem rfl
      subst hxe
      constructor
      · intro hlt
        simp only [dedupeRec, stepE_hit mag r1 qj a e0 hx, hlt, if_true, rec_noholder mag r1 qj a l hno]
        refine ⟨trivial, ?_⟩
        rw [held_cons]
        simp only [Option.toList_none, List.nil_append]
        intro hmem
        obtain ⟨e, he, hea⟩ := (mem_held l a).mp hmem
        exact hno e he hea
      · intro hlt
        simp only [dedupeRec, stepE_hit mag r1 qj a e0 hx, hlt, if_false, rec_none]
    · have he0l : e0 ∈ l := by
        rcases List.mem_cons.mp he0 with h | h
        · exact absurd (h ▸ ha) hx
        · exact h
      have hs := stepE_other mag r1 qj (some a) x hx
      obtain ⟨ih1, ih2⟩ := rec_holder mag r1 qj a l hl e0 he0l ha
      constructor
      · intro hlt
        obtain ⟨h1, h2⟩ := ih1 hlt
        simp only [dedupeRec, hs]
        refine ⟨h1, ?_⟩
        rw [held_cons]
        intro hmem
        rcases List.mem_append.mp hmem with hm | hm
        · cases hxo : x.2 with
          | none => rw [hxo] at hm; simp at hm
          | some b =>
            rw [hxo] at hm
            simp only [Option.toList_some, List.mem_singleton] at hm
            exact hx (by rw [hxo, hm])
        · exact h2 hm
      · intro hlt
        simp only [dedupeRec, hs, ih2 hlt]

/-! ### the invariant of the outer loop -/

/-- state of `qp_pairs` after the vectors `done` were processed. -/
structure PInv (mag : V3 K → K) (cosMax r1 : K) (ps : List (V3 K)) (done : List (V3 K))
    (prev : List (V3 K × Option Nat)) : Prop where
  /-- one entry per processed `q`, in order -/
  keys : prev.map (·.1) = done
  /-- paired with its best `p`, or unpaired -/
  vals : ∀ e ∈ prev, e.2 = none ∨ e.2 = bestP mag cosMax e.1 ps
  /-- no `p` is paired with two `q` -/
  nodup : (held prev).Nodup
  /-- a `p` chosen by some processed `q` is paired, with a `q` at least as close to `r1` as any that chose it -/
  best : ∀ a, ∀ q' ∈ done, bestP mag cosMax q' ps = some a →
    ∃ e ∈ prev, e.2 = some a ∧ rad mag r1 e.1 ≤ rad mag r1 q'

theorem held_append_single (l : List (V3 K × Option Nat)) (q : V3 K) (o : Option Nat) :
    held (l ++ [(q, o)]) = held l ++ o.toList := by
  cases o <;> simp [held, List.filterMap_append]

theorem PInv.step (mag : V3 K → K) (cosMax r1 : K) (ps : List (V3 K)) (done : List (V3 K))
    (prev : List (V3 K × Option Nat)) (qj : V3 K) (h : PInv mag cosMax r1 ps done prev) :
    PInv mag cosMax r1 ps (done ++ [qj]) (pairStep mag cosMax r1 ps prev qj) := by
  rw [pairStep_eq]
  have hkeys : ((dedupeRec mag r1 qj (bestP mag cosMax qj ps) prev).1 ++
      [(qj, (dedupeRec mag r1 qj (bestP mag cosMax qj ps) prev).2)]).map (·.1) = done ++ [qj] := by
    rw [List.map_append, rec_keys, h.keys]; rfl
  have hvals : ∀ e ∈ (dedupeRec mag r1 qj (bestP mag cosMax qj ps) prev).1 ++
      [(qj, (dedupeRec mag r1 qj (bestP mag cosMax qj ps) prev).2)], e.2 = none ∨ e.2 = bestP mag cosMax e.1 ps := by
    intro e he
    rcases List.mem_append.mp he with he | he
    · rcases rec_entries mag r1 qj prev _ e he with h1 | h1
      · exact h.vals e h1
      · left; exact h1
    · simp only [List.mem_singleton] at he
      rw [he]
      exact rec_snd mag r1 qj prev _
  refine ⟨hkeys, hvals, ?_, ?_⟩ <;> clear hkeys hvals
  all_goals
    cases hcur : bestP mag cosMax qj ps with
    | none =>
      simp only [rec_none]
      first
      | (rw [held_append_single]; simpa using h.nodup)
      | (intro a q' hq' hb
         rcases List.mem_append.mp hq' with hq' | hq'
         · obtain ⟨e, he, hea, hr⟩ := h.best a q' hq' hb
           exact ⟨e, List.mem_append_left _ he, hea, hr⟩
         · simp only [List.mem_singleton] at hq'
           rw [hq', hcur] at hb
           exact absurd hb (by simp))
    | some a0 =>
      by_cases hex : ∃ e0 ∈ prev, e0.2 = some a0
      · obtain ⟨e0, he0, ha0⟩ := hex
        obtain ⟨hc, hn⟩ := rec_holder mag r1 qj a0 prev h.nodup e0 he0 ha0
        by_cases hlt : rad mag r1 qj < rad mag r1 e0.1
        · obtain ⟨h2, hnot⟩ := hc hlt
          first
          | (rw [held_append_single, h2]
             refine List.nodup_append.mpr ⟨(rec_held_sublist mag r1 qj prev _).nodup h.nodup, by simp, ?_⟩
             intro x hx y hy
             simp only [Option.toList_some, List.mem_singleton] at hy
             rw [hy]
             intro hxy
             exact hnot (hxy ▸ hx))
          | (intro a q' hq' hb
             rw [h2]
             by_cases haa : a = a0
             · refine ⟨(qj, some a0), by simp, by simp [haa], ?_⟩
               rcases List.mem_append.mp hq' with hq' | hq'
               · obtain ⟨e, he, hea, hr⟩ := h.best a q' hq' hb
                 have : e = e0 := holder_unique prev h.nodup a0 e e0 he he0 (haa ▸ hea) ha0
                 rw [this] at hr
                 exact le_trans (le_of_lt hlt) hr
               · simp only [List.mem_singleton] at hq'
                 rw [hq']
             · rcases List.mem_append.mp hq' with hq' | hq'
               · obtain ⟨e, he, hea, hr⟩ := h.best a q' hq' hb
                 refine ⟨e, List.mem_append_left _ (rec_keeps mag r1 qj prev _ e he ?_ ?_), hea, hr⟩
                 · rw [hea]; intro hh; exact haa (Option.some.inj hh)
                 · rw [hea]; simp
               · simp only [List.mem_singleton] at hq'
                 rw [hq', hcur] at hb
                 exact absurd (Option.some.inj hb).symm haa)
        · have h2 := hn hlt
          rw [h2]
          first
          | (rw [held_append_single]; simpa using h.nodup)
          | (intro a q' hq' hb
             rcases List.mem_append.mp hq' with hq' | hq'
             · obtain ⟨e, he, hea, hr⟩ := h.best a q' hq' hb
               exact ⟨e, List.mem_append_left _ he, hea, hr⟩
             · simp only [List.mem_singleton] at hq'
               rw [hq', hcur] at hb
               have haa : a0 = a := Option.some.inj hb
               exact ⟨e0, List.mem_append_left _ he0, haa ▸ ha0, hq' ▸ not_lt.mp hlt⟩)
      · have hno : ∀ e ∈ prev, e.2 ≠ some a0 := fun e he hea => hex ⟨e, he, hea⟩
        rw [rec_noholder mag r1 qj a0 prev hno]
        first
        | (rw [held_append_single]
           refine List.nodup_append.mpr ⟨h.nodup, by simp, ?_⟩
           intro x hx y hy
           simp only [Option.toList_some, List.mem_singleton] at hy
           rw [hy]
           intro hxy
           obtain ⟨e, he, hea⟩ := (mem_held prev x).mp hx
           exact hno e he (hxy ▸ hea))
        | (intro a q' hq' hb
           rcases List.mem_append.mp hq' with hq' | hq'
           · obtain ⟨e, he, hea, hr⟩ := h.best a q' hq' hb
             exact ⟨e, List.mem_append_left _ he, hea, hr⟩
           · simp only [List.mem_singleton] at hq'
             rw [hq', hcur] at hb
             have haa : a0 = a := Option.some.inj hb
             exact ⟨(qj, some a0), by simp, by simp [haa], by rw [hq']⟩)

theorem PInv.fold (mag : V3 K → K) (cosMax r1 : K) (ps : List (V3 K)) :
    ∀ (qs done : List (V3 K)) (prev : List (V3 K × Option Nat)), PInv mag cosMax r1 ps done prev →
      PInv mag cosMax r1 ps (done ++ qs) (qs.foldl (pairStep mag cosMax r1 ps) prev)
  | [], done, prev, h => by simpa using h
  | q :: qs, done, prev, h => by
    have := PInv.fold mag cosMax r1 ps qs (done ++ [q]) _ (PInv.step mag cosMax r1 ps done prev q h)
    simpa using this

/-- the invariant holds for `qp_pairs` after the double loop of `match_pq`, for ANY lists `ps`, `qs`. -/
theorem qpPairs_inv (mag : V3 K → K) (cosMax big : K) (ps qs : List (V3 K)) :
    PInv mag cosMax (shortest mag big ps) ps qs (qpPairs mag cosMax big ps qs) := by
  have h0 : PInv mag cosMax (shortest mag big ps) ps [] [] :=
    ⟨rfl, by simp, by simp [held], by simp⟩
  simpa [qpPairs] using PInv.fold mag cosMax (shortest mag big ps) ps qs [] [] h0

/-! ### the undeformed crystal with further shells in the current list: ingredients -/

/-- a reference vector (positive length, no other reference vector parallel to it) is its own best match. -/
theorem bestP_self (mag : V3 K → K) (cosMax : K) (pre post : List (V3 K)) (p : V3 K) (hc : cosMax < 1)
    (hmag : ∀ x ∈ pre ++ p :: post, 0 < mag x ∧ mag x * mag x = V3.normSq x)
    (hsep : (pre ++ p :: post).Pairwise (fun a b => V3.dot a b < mag a * mag b)) :
    bestP mag cosMax p (pre ++ p :: post) = some pre.length := by
  apply bestP_of_isBest
  have hm := hmag p (by simp)
  have hs := List.pairwise_append.mp hsep
  refine ⟨pre, p, post, rfl, rfl, ?_, ?_, ?_⟩
  · rw [cosTheta_self mag p hm.1 hm.2]; exact hc
  · intro x hx
    rw [cosTheta_self mag p hm.1 hm.2]
    have hxm := hmag x (by simp [hx])
    apply cosTheta_lt_one mag p x hm.1 hxm.1
    have := hs.2.2 x hx p List.mem_cons_self
    rw [dot_comm', mul_comm]; exact this
  · intro x hx
    rw [cosTheta_self mag p hm.1 hm.2]
    have hxm := hmag x (by simp [hx])
    apply le_of_lt
    apply cosTheta_lt_one mag p x hm.1 hxm.1
    exact (List.pairwise_cons.mp hs.2.1).1 x hx

theorem bestFold_idx_lt (mag : V3 K → K) (q : V3 K) :
    ∀ (ps : List (V3 K)) (st : K × Option Nat × Nat), (∀ k, st.2.1 = some k → k < st.2.2) →
      ∀ k, (ps.foldl (bestStep mag q) st).2.1 = some k → k < st.2.2 + ps.length
  | [], st, h => by simpa using h
  | p :: l, st, h => by
    intro k hk
    simp only [List.foldl_cons] at hk
    have hc : (bestStep mag q st p).2.2 = st.2.2 + 1 := by
      simp only [bestStep]; split <;> rfl
    have h' : ∀ k, (bestStep mag q st p).2.1 = some k → k < (bestStep mag q st p).2.2 := by
      intro k' hk'
      rw [hc]
      simp only [bestStep] at hk'
      split at hk'
      · simp only [Option.some.injEq] at hk'; omega
      · have := h k' hk'; omega
    have := bestFold_idx_lt mag q l _ h' k hk
    rw [hc] at this
    simp only [List.length_cons]; omega

/-- the index `match_pq` stores for a `q` addresses a reference vector. -/
theorem bestP_lt (mag : V3 K → K) (cosMax : K) (q : V3 K) (ps : List (V3 K)) (a : Nat)
    (h : bestP mag cosMax q ps = some a) : a < ps.length := by
  have := bestFold_idx_lt mag q ps (cosMax, none, 0) (by simp) a h
  simpa using this

/-- `r1` is not larger than any `|p|`. -/
theorem shortest_le (mag : V3 K → K) :
    ∀ (ps : List (V3 K)) (r : K), ps.foldl (fun r p => if mag p < r then mag p else r) r ≤ r ∧
      ∀ p ∈ ps, ps.foldl (fun r p => if mag p < r then mag p else r) r ≤ mag p
  | [], r => ⟨le_refl _, by simp⟩
  | x :: l, r => by
    simp only [List.foldl_cons]
    obtain ⟨h1, h2⟩ := shortest_le mag l (if mag x < r then mag x else r)
    have hle : (if mag x < r then mag x else r) ≤ r := by split <;> [exact le_of_lt ‹_›; exact le_refl _]
    have hlx : (if mag x < r then mag x else r) ≤ mag x := by
      split
      · exact le_refl _
      · exact not_lt.mp ‹_›
    refine ⟨le_trans h1 hle, ?_⟩
    intro p hp
    rcases List.mem_cons.mp hp with hp | hp
    · rw [hp]; exact le_trans h1 hlx
    · exact h2 p hp

/-- a vector no shorter than `r1` is closer to `r1` than a strictly longer one. -/
theorem rad_lt_of_longer (mag : V3 K → K) (r1 : K) (t q : V3 K) (h1 : r1 ≤ mag t) (h2 : mag t < mag q) :
    rad mag r1 t < rad mag r1 q := by
  unfold rad absK
  split <;> split <;> linarith

end Atomman.C17
