/-
  C05 — which object a call works on, and the values of the per-atom properties (model: lean/Atomman/C05_Heap.lean).
-/
import Atomman.C05_Heap
import Atomman.Generated.WrapSource
import Proofs.C05_Hist

namespace Atomman.C05
open Atomman
open Atomman.Generated
set_option linter.unusedSimpArgs false
set_option linter.unusedSectionVars false
set_option linter.unusedVariables false

/-- source tie: which entry each explicitly copied key of `Atoms.__deepcopy__` is read from, and that the loop stores
    under `key` what it read under `key` (regenerated from atomman/core/Atoms.py on every run). -/
theorem gen_deepcopyValues_eq_model :
    WrapSource.atomsCopySource = atomsCopySource ∧ WrapSource.atomsCopyLoopSource = atomsCopyLoopSource ∧
    WrapSource.atomsCopySource.map Prod.fst = WrapSource.atomsCopyExplicit := ⟨rfl, rfl, rfl⟩

variable {K V α : Type}

/-! ### `Atoms.__deepcopy__`: values -/

/-- **copyView_mem**: the copy `normalize` works on holds exactly the entries of the view it was made from — every key
    with the value that was stored under THAT key (no hypothesis on the names: substrings of `atype` / `pos`, the empty
    name, duplicates of nothing). -/
theorem copyView_mem (view : List (String × α)) (k : String) (v : α) :
    (k, v) ∈ copyView atomsCopySource atomsCopyLoopSource atomsCopyReserved view ↔ (k, v) ∈ view := by
  simp only [copyView, atomsCopySource, atomsCopyLoopSource, atomsCopyReserved, List.flatMap_cons, List.flatMap_nil,
    List.append_nil, List.mem_append, List.mem_map, List.mem_filter, beq_iff_eq, Prod.mk.injEq, Prod.exists,
    List.mem_flatMap, BEq.rfl, if_true, List.mem_singleton, Bool.not_eq_true', List.contains_eq_mem,
    decide_eq_false_iff_not, List.mem_cons, List.not_mem_nil, or_false, not_or]
  constructor
  · rintro ((⟨a, b, ⟨hm, rfl⟩, rfl, rfl⟩ | ⟨a, b, ⟨hm, rfl⟩, rfl, rfl⟩) | ⟨a, b, ⟨hm, _⟩, rfl, rfl⟩) <;> exact hm
  · intro hm
    by_cases ha : k = "atype"
    · exact Or.inl (Or.inl ⟨k, v, ⟨hm, ha⟩, ha.symm, rfl⟩)
    · by_cases hp : k = "pos"
      · exact Or.inl (Or.inr ⟨k, v, ⟨hm, hp⟩, hp.symm, rfl⟩)
      · exact Or.inr ⟨k, v, ⟨hm, ha, hp⟩, rfl, rfl⟩

/-- **copyView_canonical**: for a view laid out as `Atoms` lays it out (`atype` first, then — in the full view — `pos`,
    then the other properties under names other than these two) the copy IS the view: same entries, same order, every
    value under its own key. -/
theorem copyView_canonical (t : α) (rest : List (String × α))
    (hr : ∀ kv ∈ rest, kv.1 ≠ "atype" ∧ kv.1 ≠ "pos") :
    copyView atomsCopySource atomsCopyLoopSource atomsCopyReserved (("atype", t) :: rest) = ("atype", t) :: rest := by
  have f1 : rest.filter (fun kv => kv.1 == "atype") = [] := by
    rw [List.filter_eq_nil_iff]; intro kv h; simp [(hr kv h).1]
  have f2 : rest.filter (fun kv => kv.1 == "pos") = [] := by
    rw [List.filter_eq_nil_iff]; intro kv h; simp [(hr kv h).2]
  have f3 : rest.filter (fun kv => !(["atype", "pos"] : List String).contains kv.1) = rest := by
    rw [List.filter_eq_self]; intro kv h; simp [(hr kv h).1, (hr kv h).2]
  simp only [copyView, atomsCopySource, atomsCopyLoopSource, atomsCopyReserved, List.flatMap_cons, List.flatMap_nil,
    List.append_nil, List.filter_cons, BEq.rfl, if_true, f1, f2, f3, List.map_cons, List.map_nil]
  simp

theorem copyView_canonical_full (t p : α) (rest : List (String × α))
    (hr : ∀ kv ∈ rest, kv.1 ≠ "atype" ∧ kv.1 ≠ "pos") :
    copyView atomsCopySource atomsCopyLoopSource atomsCopyReserved (("atype", t) :: ("pos", p) :: rest)
      = ("atype", t) :: ("pos", p) :: rest := by
  have f1 : rest.filter (fun kv => kv.1 == "atype") = [] := by
    rw [List.filter_eq_nil_iff]; intro kv h; simp [(hr kv h).1]
  have f2 : rest.filter (fun kv => kv.1 == "pos") = [] := by
    rw [List.filter_eq_nil_iff]; intro kv h; simp [(hr kv h).2]
  have f3 : rest.filter (fun kv => !(["atype", "pos"] : List String).contains kv.1) = rest := by
    rw [List.filter_eq_self]; intro kv h; simp [(hr kv h).1, (hr kv h).2]
  simp only [copyView, atomsCopySource, atomsCopyLoopSource, atomsCopyReserved, List.flatMap_cons, List.flatMap_nil,
    List.append_nil, List.filter_cons, BEq.rfl, if_true, f1, f2, f3, List.map_cons, List.map_nil]
  simp

-- non-vacuity, and what the hypothesis excludes: a loop that read a fixed key would hand every property the type column
example : copyView atomsCopySource atomsCopyLoopSource atomsCopyReserved
    [("atype", [1, 2]), ("pos", [7, 8]), ("p", [3, 4]), ("", [5, 6]), ("atype pos", [9, 9])]
    = [("atype", [1, 2]), ("pos", [7, 8]), ("p", [3, 4]), ("", [5, 6]), ("atype pos", [9, 9])] := by decide
example : copyView atomsCopySource "atype" atomsCopyReserved [("atype", [1, 2]), ("p", [3, 4])]
    = [("atype", [1, 2]), ("p", [1, 2])] := by decide
example : copyView [("atype", "atype"), ("pos", "atype")] "key" atomsCopyReserved [("atype", [1, 2]), ("pos", [3, 4])]
    = [("atype", [1, 2]), ("pos", [1, 2])] := by decide

/-! ### the store -/

section
variable [Add K] [Sub K] [Mul K] [Div K] [Neg K] [Zero K] [One K] [IntCast K]
  [LT K] [LE K] [DecidableLT K] [DecidableLE K]

theorem wrapC_pbc (P : Params K) (c : CSys K) : (c.wrapC P).2.pbc = c.pbc := by
  unfold CSys.wrapC CSys.getSpos CSys.recip
  cases c.cache <;> rfl

theorem wrapC_pos_length (P : Params K) (c : CSys K) : (c.wrapC P).2.pos.length = c.pos.length := by
  unfold CSys.wrapC CSys.getSpos CSys.recip
  cases c.cache <;> simp [CSys.putSpos, CSys.setBox, CSys.setVects, CSys.setOrigin]

/-- **heap_wrap_in_place**: `wrap` called on the object at address `a`
    * creates no object and removes none (the store keeps its size) and evaluates to the flags or to `None` only;
    * writes to no other object;
    * rewrites the object at `a` itself: its state becomes that of `CSys.wrapC` (the function every `wrap_*` /
      `hist_wrap_*` theorem is about), its periodicity and EVERY per-atom property (names, values, order) stay as they are,
      the number of position rows stays, so row `i` of every property still belongs to row `i` of the positions (which by
      `wrap_reconstruct` is the old row `i` moved by whole cell vectors). -/
theorem heap_wrap_in_place (P : Params K) (h : Heap K V) (a : Nat) (flag : Option PyVal)
    (r : Option (List (V3 Int))) (h' : Heap K V) (hw : wrapH P h a flag = some (r, h')) :
    h'.length = h.length ∧ (∀ b, b ≠ a → h'[b]? = h[b]?) ∧
    ∃ o o', h[a]? = some o ∧ h'[a]? = some o' ∧
      o'.sys = (o.sys.wrapC P).2 ∧ o'.props = o.props ∧ o'.sys.pbc = o.sys.pbc ∧
      o'.sys.pos.length = o.sys.pos.length ∧ (o.RowAligned → o'.RowAligned) ∧
      r = (if (flag.getD wrapFlagDefault).truthy then some (o.sys.wrapC P).1 else none) := by
  unfold wrapH at hw
  cases ho : h[a]? with
  | none => rw [ho] at hw; cases hw
  | some o =>
    rw [ho] at hw
    simp only [Option.some.injEq, Prod.mk.injEq, CSys.wrapApi] at hw
    obtain ⟨hr, hh⟩ := hw
    have ha : a < h.length := by
      rcases Nat.lt_or_ge a h.length with h1 | h1
      · exact h1
      · rw [List.getElem?_eq_none h1] at ho; cases ho
    subst hh
    refine ⟨by simp, ?_, o, { o with sys := (o.sys.wrapC P).2 }, rfl, ?_, rfl, rfl, wrapC_pbc P o.sys,
      wrapC_pos_length P o.sys, ?_, hr.symm⟩
    · intro b hb
      rw [List.getElem?_set_ne (Ne.symm hb)]
    · rw [List.getElem?_set_self ha]
    · intro hal kv hkv
      show kv.2.length = (o.sys.wrapC P).2.pos.length
      rw [wrapC_pos_length]
      exact hal kv hkv

/-- **heap_normalize_input_untouched**: "the input is left as it was" on the store.  A `normalize` that returns
    * hands back an address that did not exist before (`= h.length`, so different from the address it was called on and
      from every other object: nothing is shared with the input);
    * leaves EVERY object that existed — the one it was called on included — exactly as it was (state, cache,
      periodicity, properties);
    * the one new object has the box and positions of `CSys.normalizeC` (the function every `normalize_*` /
      `hist_normalize*` theorem is about), the periodicity of the input and the properties `Atoms.__deepcopy__` copies;
    * the transformation is part of what is returned iff the flag is truthy. -/
theorem heap_normalize_input_untouched (P : Params K) (explicit : List (String × String)) (loopSrc : String)
    (reserved : List String) (h : Heap K V) (a : Nat) (style flag : Option PyVal) (r : NormRet K V)
    (hn : normalizeH P explicit loopSrc reserved h a style flag = some (.ok r)) :
    r.addr = h.length ∧ r.addr ≠ a ∧ r.heap.length = h.length + 1 ∧
    (∀ b, b < h.length → r.heap[b]? = h[b]?) ∧ r.heap[a]? = h[a]? ∧
    ∃ o z, h[a]? = some o ∧ o.sys.normalizeC P = some z ∧
      r.heap[r.addr]? = some ⟨⟨z.box, none, o.sys.pbc, z.pos⟩, copyView explicit loopSrc reserved o.props⟩ ∧
      r.flags = z.flags ∧
      r.transform = (if (flag.getD normFlagDefault).truthy then some z.transform else none) := by
  cases ho : h[a]? with
  | none => simp only [normalizeH, ho] at hn; cases hn
  | some o =>
    simp only [normalizeH, ho] at hn
    have ha : a < h.length := by
      rcases Nat.lt_or_ge a h.length with h1 | h1
      · exact h1
      · rw [List.getElem?_eq_none h1] at ho; cases ho
    cases hz : o.sys.normalizeApi P style flag with
    | error e => rw [hz] at hn; simp at hn
    | ok zr =>
      obtain ⟨z, rt⟩ := zr
      rw [hz] at hn
      simp only [Option.some.injEq, Except.ok.injEq] at hn
      -- what the entry point returned
      have hz' : o.sys.normalizeC P = some z ∧ rt = (flag.getD normFlagDefault).truthy := by
        unfold CSys.normalizeApi CSys.lmpNormalizeApi at hz
        split_ifs at hz
        cases hc : o.sys.normalizeC P with
        | none => rw [hc] at hz; simp at hz
        | some z' =>
          rw [hc] at hz
          simp only [Except.ok.injEq, Prod.mk.injEq] at hz
          exact ⟨by rw [hz.1], hz.2.symm⟩
      subst hn
      refine ⟨rfl, Nat.ne_of_gt ha, by simp, ?_, ?_, o, z, rfl, hz'.1, ?_, rfl, ?_⟩
      · intro b hb
        exact List.getElem?_append_left hb
      · show (h ++ _)[a]? = some o
        rw [List.getElem?_append_left ha, ho]
      · show (h ++ [_])[h.length]? = _
        simp
      · show (if rt then some z.transform else none) = _
        rw [hz'.2]

/-- a refusal (`ValueError` for a style other than `'lammps'` or a lattice angle outside (0, 180), the assertion of
    `set_lengths`) is all the call produces: the model returns no store, i.e. nothing was written or created. -/
theorem heap_normalize_refusal (P : Params K) (explicit : List (String × String)) (loopSrc : String)
    (reserved : List String) (h : Heap K V) (a : Nat) (style flag : Option PyVal) (o : HObj K V) (ho : h[a]? = some o) :
    (∃ e, normalizeH P explicit loopSrc reserved h a style flag = some (.error e)) ↔
      ∃ e, o.sys.normalizeApi P style flag = .error e := by
  simp only [normalizeH, ho]
  cases hz : o.sys.normalizeApi P style flag with
  | error e => simp
  | ok zr => simp

theorem normalizeC_pos_length (P : Params K) (c : CSys K) (z : Normalized K) (hz : c.normalizeC P = some z) :
    z.pos.length = c.pos.length := by
  unfold CSys.normalizeC at hz
  have hr : ∀ c1 c2 : CSys K, c1.rebuild P = some c2 → c2.pos.length = c1.pos.length := by
    intro c1 c2 h12
    unfold CSys.rebuild CSys.getSpos CSys.recip at h12
    cases hc : c1.cache <;> rw [hc] at h12 <;> simp only [] at h12 <;>
      (split at h12
       · cases h12
       · simp only [Option.some.injEq] at h12; subst h12
         simp [CSys.putSpos, CSys.setBox, CSys.setVects, CSys.setOrigin])
  have hf : ∀ c : CSys K, (if triple c.box.vects < 0 then c.setBox P.tiny (flipC c.box).vects (flipC c.box).origin else c).pos
      = c.pos := by
    intro c; split_ifs <;> rfl
  simp only [] at hz
  split at hz
  · cases hz
  · rename_i c2 h12
    simp only [Option.some.injEq] at hz
    subst hz
    show (c2.wrapC P).2.pos.length = _
    rw [wrapC_pos_length, hr _ _ h12, hf]

/-- **heap_normalize_carried**: end to end, with the key lists and sources `Atoms.__deepcopy__` has in the current source
    (`gen_deepcopyKeys_eq_model`, `gen_deepcopyValues_eq_model`): the system `normalize` returns carries every per-atom
    property of the input — an entry `(name, values)` is in the result iff it is in the input (any names); for the layout
    every `Atoms` has (`atype` first, no other property called `atype` or `pos`) the list of entries is IDENTICAL (same
    order, each value list under its own name, unchanged); each value list still has one row per atom of the result, so
    row `i` belongs to position row `i`, which is the old atom `i` (`normalize` maps over the position list). -/
theorem heap_normalize_carried (P : Params K) (h : Heap K V) (a : Nat) (style flag : Option PyVal) (r : NormRet K V)
    (hn : normalizeH P atomsCopySource atomsCopyLoopSource atomsCopyReserved h a style flag = some (.ok r)) :
    ∃ o o', h[a]? = some o ∧ r.heap[a]? = some o ∧ r.heap[r.addr]? = some o' ∧
      (∀ k v, (k, v) ∈ o'.props ↔ (k, v) ∈ o.props) ∧
      (∀ t rest, o.props = ("atype", t) :: rest → (∀ kv ∈ rest, kv.1 ≠ "atype" ∧ kv.1 ≠ "pos") → o'.props = o.props) ∧
      o'.sys.pbc = o.sys.pbc ∧ o'.sys.pos.length = o.sys.pos.length ∧ (o.RowAligned → o'.RowAligned) := by
  obtain ⟨_, _, _, _, hsame, o, z, ho, hz, hnew, _, _⟩ :=
    heap_normalize_input_untouched P _ _ _ h a style flag r hn
  have hlen := normalizeC_pos_length P o.sys z hz
  refine ⟨o, _, ho, by rw [hsame, ho], hnew, ?_, ?_, rfl, hlen, ?_⟩
  · intro k v; exact copyView_mem o.props k v
  · intro t rest hp hr
    show copyView _ _ _ o.props = o.props
    rw [hp]; exact copyView_canonical t rest hr
  · intro hal kv hkv
    show kv.2.length = z.pos.length
    rw [hlen]
    have : (kv.1, kv.2) ∈ o.props := (copyView_mem o.props kv.1 kv.2).mp hkv
    exact hal kv this

end

/-! ### instances -/

def heapEx : Heap ℚ String :=
  [⟨⟨⟨⟨⟨3, 0, 0⟩, ⟨0, 4, 0⟩, ⟨0, 0, -5⟩⟩, ⟨0, 0, 0⟩⟩, none, ⟨true, true, true⟩, [⟨4, 1, 1⟩, ⟨-1, 9, -7⟩]⟩,
     [("atype", ["1", "2"]), ("p", ["a", "b"]), ("", ["c", "d"])]⟩,
   ⟨⟨⟨⟨⟨1, 0, 0⟩, ⟨0, 1, 0⟩, ⟨0, 0, 1⟩⟩, ⟨0, 0, 0⟩⟩, none, ⟨true, false, true⟩, [⟨2, 2, 2⟩]⟩, [("atype", ["1"])]⟩]

def heapPar : Params ℚ := ⟨Rat.floor, 1/1000, 1/1000000000, fun x => if x = 9 then 3 else if x = 16 then 4 else if x = 25 then 5 else x⟩

-- wrap on object 0: object 1 untouched, properties of object 0 untouched, nothing allocated, nothing returned
example : ∃ r h', wrapH heapPar heapEx 0 none = some (r, h') ∧ r = none ∧ h'.length = 2 ∧
    h'[1]?.map (·.sys.pos) = some [⟨2, 2, 2⟩] ∧
    h'[0]?.map (·.props) = some [("atype", ["1", "2"]), ("p", ["a", "b"]), ("", ["c", "d"])] ∧
    h'[0]?.map (·.sys.pos) = some [⟨1, 1, -4⟩, ⟨2, 1, -2⟩] :=
  ⟨_, _, rfl, by decide +kernel, by decide +kernel, by decide +kernel, by decide +kernel, by decide +kernel⟩
-- normalize on object 0 (left-handed cell): a third object appears, objects 0 and 1 are what they were
def heapNormEx : Option (NormRet ℚ String) :=
  match normalizeH heapPar atomsCopySource atomsCopyLoopSource atomsCopyReserved heapEx 0 none (some (.int 1)) with
  | some (.ok r) => some r
  | _ => none
example : heapNormEx.map (·.addr) = some 2 ∧ heapNormEx.map (·.heap.length) = some 3 ∧
    heapNormEx.map (fun r => r.heap[0]?.map (·.sys.pos)) = some (some [⟨4, 1, 1⟩, ⟨-1, 9, -7⟩]) ∧
    heapNormEx.map (fun r => r.heap[1]?.map (·.sys.pos)) = some (some [⟨2, 2, 2⟩]) ∧
    heapNormEx.map (fun r => r.heap[2]?.map (·.props))
      = some (some [("atype", ["1", "2"]), ("p", ["a", "b"]), ("", ["c", "d"])]) ∧
    heapNormEx.map (fun r => r.heap[2]?.map (·.sys.box.vects)) = some (some ⟨⟨3, 0, 0⟩, ⟨0, 4, 0⟩, ⟨0, 0, 5⟩⟩) ∧
    heapNormEx.map (·.transform.isSome) = some true :=
  ⟨by decide +kernel, by decide +kernel, by decide +kernel, by decide +kernel, by decide +kernel, by decide +kernel,
   by decide +kernel⟩

end Atomman.C05
