/-
  C04 — `rotate_count`: connecting the sublattice-index theorem (`rep_card`, C04_Index) to the model.
  * algebra: the filter of `rotateRaw` applied to replica `r` of atom `a` is `Rep U (offset a) (shiftOf r)`
    (`keptPred_imageOf`), where `offset` = relative position in the old cell + fractional part of the origin;
  * coverage: every representative of an offset in `(-1,2)³` lies inside the multiplier ranges
    `(min corner - 1, max corner + 1)` of the bounding supercell (`rep_in_bounds`);
  * counting: the kept images of one atom are in bijection with the representatives (`imagesOf_length`),
    they are pairwise distinct (`imagesOf_nodup`) and none is missed (`imagesOf_complete`);
  * the kept list of the whole system is a permutation of the per-atom image lists (`rotateRaw_perm`).
-/
import Proofs.C04_Index
import Mathlib.Tactic.Ring
import Mathlib.Tactic.Linarith
import Mathlib.Tactic.Positivity
import Mathlib.Algebra.Order.Ring.Cast
import Mathlib.Data.List.Perm.Basic
import Mathlib.Data.Finset.Card

namespace Atomman.C04
open Atomman
set_option linter.unusedSectionVars false

/-! ### list plumbing -/

/-- replica triples `(r0, r1, r2)` in the implementation's order (`r0` fastest). -/
def triples (m0 m1 m2 : Nat) : List (Nat × Nat × Nat) :=
  (List.range m2).flatMap fun r2 => (List.range m1).flatMap fun r1 => (List.range m0).map fun r0 => (r0, r1, r2)

theorem mem_triples (m0 m1 m2 : Nat) (r : Nat × Nat × Nat) :
    r ∈ triples m0 m1 m2 ↔ r.1 < m0 ∧ r.2.1 < m1 ∧ r.2.2 < m2 := by
  obtain ⟨a, b, c⟩ := r
  simp only [triples, List.mem_flatMap, List.mem_map, List.mem_range, Prod.mk.injEq]
  constructor
  · rintro ⟨r2, h2, r1, h1, r0, h0, rfl, rfl, rfl⟩; exact ⟨h0, h1, h2⟩
  · rintro ⟨h0, h1, h2⟩; exact ⟨c, h2, b, h1, a, h0, rfl, rfl, rfl⟩

theorem triples_nodup (m0 m1 m2 : Nat) : (triples m0 m1 m2).Nodup := by
  unfold triples
  rw [List.nodup_flatMap]
  refine ⟨fun r2 _ => ?_, ?_⟩
  · rw [List.nodup_flatMap]
    refine ⟨fun r1 _ => ?_, ?_⟩
    · exact List.Nodup.map (fun a b h => by simpa using h) List.nodup_range
    · refine (List.pairwise_lt_range (n := m1)).imp ?_
      intro a b hab
      simp only [Function.onFun, List.disjoint_left, List.mem_map, List.mem_range]
      rintro x ⟨r0, _, rfl⟩ ⟨r0', _, h⟩
      simp only [Prod.mk.injEq] at h; omega
  · refine (List.pairwise_lt_range (n := m2)).imp ?_
    intro a b hab
    simp only [Function.onFun, List.disjoint_left, List.mem_flatMap, List.mem_map, List.mem_range]
    rintro x ⟨r1, _, r0, _, rfl⟩ ⟨r1', _, r0', _, h⟩
    simp only [Prod.mk.injEq] at h; omega

section plumbing
variable {K : Type}

theorem supersizeAtoms_eq_triples [Add K] [Sub K] [Mul K] [Div K] [IntCast K]
    (b : Box K) (sa sb sc : Size) (atoms : List (Atom K)) :
    supersizeAtoms b sa sb sc atoms = (triples sa.mult.toNat sb.mult.toNat sc.mult.toNat).flatMap fun r =>
      atoms.map fun a => { a with pos := replicaPos b sa sb sc a.pos r.1 r.2.1 r.2.2 } := by
  simp only [supersizeAtoms, triples, List.flatMap_assoc, List.flatMap_map]

theorem flatMap_singleton_eq_map {β τ : Type} (T : List τ) (h : τ → β) : (T.flatMap fun r => [h r]) = T.map h := by
  induction T with
  | nil => rfl
  | cons t T iht => simp [List.flatMap_cons, iht]

/-- swapping the two loops (replica-major ↔ atom-major) permutes the list. -/
theorem flatMap_map_perm {α β τ : Type} (T : List τ) (atoms : List α) (g : τ → α → β) :
    (T.flatMap fun r => atoms.map (g r)).Perm (atoms.flatMap fun a => T.map fun r => g r a) := by
  induction atoms with
  | nil => simp
  | cons a as ih =>
    have h1 : (T.flatMap fun r => (a :: as).map (g r)) = T.flatMap fun r => [g r a] ++ as.map (g r) := by
      simp
    rw [h1, List.flatMap_cons]
    refine (List.flatMap_append_perm T (fun r => [g r a]) (fun r => as.map (g r))).symm.trans ?_
    rw [flatMap_singleton_eq_map T (fun r => g r a)]
    exact List.Perm.append_left _ ih

theorem sum_map_const {α : Type} (l : List α) (f : α → Nat) (c : Nat) (h : ∀ a ∈ l, f a = c) :
    (l.map f).sum = l.length * c := by
  induction l with
  | nil => simp
  | cons a as ih =>
    simp only [List.map_cons, List.sum_cons, List.length_cons]
    rw [h a (by simp), ih (fun x hx => h x (by simp [hx]))]; ring

end plumbing

variable {K : Type} [Field K] [LinearOrder K] [IsStrictOrderedRing K] [FloorRing K]

/-! ### algebra: relative coordinates in the new cell -/

theorem newVects_eq (U : M3 Int) (V : M3 K) : newVects U V = M3.mul (castM U) V := rfl

theorem vecMul_mul (x : V3 K) (A B : M3 K) : M3.vecMul x (M3.mul A B) = M3.vecMul (M3.vecMul x A) B := by
  ext <;> simp only [M3.vecMul, M3.mul] <;> ring

theorem newVects_det' (U : M3 Int) (V : M3 K) :
    M3.det (newVects U V) = ((M3.det U : Int) : K) * M3.det V := by
  obtain ⟨⟨a, b, c⟩, ⟨d, e, f⟩, ⟨g, h, i⟩⟩ := U
  simp only [newVects, M3.det, M3.mul, M3.vecMul, V3.dot, V3.cross, V3.map]
  push_cast
  ring

/-- `x · (U·V)⁻¹ = (x · V⁻¹) · U⁻¹`. -/
theorem vecMul_inv_newVects (U : M3 Int) (hU : M3.det U ≠ 0) (V : M3 K) (hV : M3.det V ≠ 0) (x : V3 K) :
    M3.vecMul x (M3.inv (newVects U V)) = newRel U (M3.vecMul x (M3.inv V)) := by
  have hN : M3.det (newVects U V) ≠ 0 := by
    rw [newVects_det']; exact mul_ne_zero (by exact_mod_cast hU) hV
  set y := newRel U (M3.vecMul x (M3.inv V)) with hy
  have e : M3.vecMul y (newVects U V) = x := by
    rw [newVects_eq, vecMul_mul, hy, newRel, vecMul_inv_cancel' _ (castM_det_ne U hU), vecMul_inv_cancel' _ hV]
  rw [← e, vecMul_inv_cancel _ hN]

/-! ### coverage: every representative lies in the bounding supercell -/

theorem mul_ge_min (t : K) (u : Int) (h0 : 0 ≤ t) (h1 : t < 1) :
    ((min 0 u : Int) : K) ≤ t * (u : K) ∧ t * (u : K) ≤ ((max 0 u : Int) : K) := by
  rcases le_total 0 u with hu | hu
  · have hk : (0 : K) ≤ (u : K) := by exact_mod_cast hu
    rw [min_eq_left hu, max_eq_right hu]
    constructor
    · simpa using mul_nonneg h0 hk
    · nlinarith
  · have hk : (u : K) ≤ 0 := by exact_mod_cast hu
    rw [min_eq_right hu, max_eq_left hu]
    constructor
    · nlinarith
    · simpa using mul_nonpos_of_nonneg_of_nonpos h0 hk

/-- one axis: `n = Σ tᵢ uᵢ - s` with `t ∈ [0,1)³`, `-1 ≤ s ≤ 2`… is within `[Σ min(0,uᵢ) - 1, Σ max(0,uᵢ)]`. -/
theorem axis_bound (t0 t1 t2 s : K) (u0 u1 u2 n : Int)
    (h0 : 0 ≤ t0 ∧ t0 < 1) (h1 : 0 ≤ t1 ∧ t1 < 1) (h2 : 0 ≤ t2 ∧ t2 < 1) (hs : -1 < s ∧ s < 2)
    (e : s + (n : K) = t0 * (u0 : K) + t1 * (u1 : K) + t2 * (u2 : K)) :
    min 0 u0 + min 0 u1 + min 0 u2 - 1 ≤ n ∧ n ≤ max 0 u0 + max 0 u1 + max 0 u2 := by
  obtain ⟨a0, b0⟩ := mul_ge_min t0 u0 h0.1 h0.2
  obtain ⟨a1, b1⟩ := mul_ge_min t1 u1 h1.1 h1.2
  obtain ⟨a2, b2⟩ := mul_ge_min t2 u2 h2.1 h2.2
  constructor
  · have : ((min 0 u0 + min 0 u1 + min 0 u2 - 2 : Int) : K) < (n : K) := by
      push_cast; push_cast at a0 a1 a2; linarith [hs.2]
    have := Int.cast_lt.mp this
    omega
  · have : (n : K) < ((max 0 u0 + max 0 u1 + max 0 u2 + 1 : Int) : K) := by
      push_cast; push_cast at b0 b1 b2; linarith [hs.1]
    have := Int.cast_lt.mp this
    omega

theorem rotateSizes_bounds (U : M3 Int) :
    (rotateSizes U).1.lo ≤ min 0 U.r0.x + min 0 U.r1.x + min 0 U.r2.x - 1 ∧
    max 0 U.r0.x + max 0 U.r1.x + max 0 U.r2.x < (rotateSizes U).1.hi ∧
    (rotateSizes U).2.1.lo ≤ min 0 U.r0.y + min 0 U.r1.y + min 0 U.r2.y - 1 ∧
    max 0 U.r0.y + max 0 U.r1.y + max 0 U.r2.y < (rotateSizes U).2.1.hi ∧
    (rotateSizes U).2.2.lo ≤ min 0 U.r0.z + min 0 U.r1.z + min 0 U.r2.z - 1 ∧
    max 0 U.r0.z + max 0 U.r1.z + max 0 U.r2.z < (rotateSizes U).2.2.hi := by
  obtain ⟨⟨a, b, c⟩, ⟨d, e, f⟩, ⟨g, h, i⟩⟩ := U
  simp only [rotateSizes, corners, minOf, maxOf, List.map, List.foldl, List.headD, V3.add_x', V3.add_y', V3.add_z']
  omega

/-- **coverage**: a representative of an offset `s ∈ (-1,2)³` (atom inside the box plus the reduced origin)
    lies inside the multiplier ranges of the bounding supercell. -/
theorem rep_in_bounds (U : M3 Int) (hU : M3.det U ≠ 0) (s : V3 K)
    (hs : (-1 < s.x ∧ s.x < 2) ∧ (-1 < s.y ∧ s.y < 2) ∧ (-1 < s.z ∧ s.z < 2)) (n : V3 Int) (hn : Rep U s n) :
    ((rotateSizes U).1.lo ≤ n.x ∧ n.x < (rotateSizes U).1.hi) ∧
    ((rotateSizes U).2.1.lo ≤ n.y ∧ n.y < (rotateSizes U).2.1.hi) ∧
    ((rotateSizes U).2.2.lo ≤ n.z ∧ n.z < (rotateSizes U).2.2.hi) := by
  unfold Rep at hn
  set t := newRel U (s + castV n) with ht
  have e : s + castV n = M3.vecMul t (castM U) := by
    rw [ht, newRel, vecMul_inv_cancel' _ (castM_det_ne U hU)]
  obtain ⟨t0a, t0b, t1a, t1b, t2a, t2b⟩ := hn
  have ex := congrArg V3.x e; have ey := congrArg V3.y e; have ez := congrArg V3.z e
  simp only [V3.add_def, castV, castM, M3.vecMul] at ex ey ez
  have bx := axis_bound t.x t.y t.z s.x U.r0.x U.r1.x U.r2.x n.x ⟨t0a, t0b⟩ ⟨t1a, t1b⟩ ⟨t2a, t2b⟩ hs.1 ex
  have by' := axis_bound t.x t.y t.z s.y U.r0.y U.r1.y U.r2.y n.y ⟨t0a, t0b⟩ ⟨t1a, t1b⟩ ⟨t2a, t2b⟩ hs.2.1 ey
  have bz := axis_bound t.x t.y t.z s.z U.r0.z U.r1.z U.r2.z n.z ⟨t0a, t0b⟩ ⟨t1a, t1b⟩ ⟨t2a, t2b⟩ hs.2.2 ez
  have R := rotateSizes_bounds U
  omega

/-! ### the images of one atom in `rotateRaw` -/

/-- the Cartesian shift `rint(origin·V⁻¹)·V` (nearest lattice vector, `⌊x + 1/2⌋`) of `rotateRaw`. -/
def originShift (fl : K → Int) (b : Box K) : V3 K :=
  M3.vecMul ⟨((rintK fl (0 - (b.cartToRel ⟨0, 0, 0⟩).x) : Int) : K), ((rintK fl (0 - (b.cartToRel ⟨0, 0, 0⟩).y) : Int) : K),
             ((rintK fl (0 - (b.cartToRel ⟨0, 0, 0⟩).z) : Int) : K)⟩ b.vects

/-- replica `r` of atom `a` of the bounding supercell, as `rotateRaw` positions it. -/
def imageOf (fl : K → Int) (b : Box K) (U : M3 Int) (a : Atom K) (r : Nat × Nat × Nat) : Atom K :=
  { a with pos := replicaPos b (rotateSizes U).1 (rotateSizes U).2.1 (rotateSizes U).2.2 a.pos r.1 r.2.1 r.2.2
                    - originShift fl b }

/-- the filter of `rotateRaw`: inside the half-open new cell. -/
def keptPred (b : Box K) (U : M3 Int) (a : Atom K) : Bool :=
  inHalfOpen ((⟨newVects U b.vects, ⟨0, 0, 0⟩⟩ : Box K).cartToRel a.pos)

/-- the replica triples of the bounding supercell. -/
def rotTriples (U : M3 Int) : List (Nat × Nat × Nat) :=
  triples (rotateSizes U).1.mult.toNat (rotateSizes U).2.1.mult.toNat (rotateSizes U).2.2.mult.toNat

/-- the periodic images of atom `a` that `rotateRaw` keeps. -/
def imagesOf (fl : K → Int) (b : Box K) (U : M3 Int) (a : Atom K) : List (Atom K) :=
  ((rotTriples U).map (imageOf fl b U a)).filter (keptPred b U)

theorem rotateRaw_eq (fl : K → Int) (b : Box K) (U : M3 Int) (atoms : List (Atom K)) (hU : M3.det U ≠ 0) :
    rotateRaw fl b U atoms = some (⟨newVects U b.vects, ⟨0, 0, 0⟩⟩,
      ((rotTriples U).flatMap fun r => atoms.map fun a => imageOf fl b U a r).filter (keptPred b U)) := by
  unfold rotateRaw
  rw [if_neg hU]
  simp only [supersizeAtoms_eq_triples, List.map_flatMap, List.map_map]
  rfl

theorem rotateRaw_singleton (fl : K → Int) (b : Box K) (U : M3 Int) (a : Atom K) (hU : M3.det U ≠ 0) :
    rotateRaw fl b U [a] = some (⟨newVects U b.vects, ⟨0, 0, 0⟩⟩, imagesOf fl b U a) := by
  rw [rotateRaw_eq fl b U [a] hU, imagesOf]
  simp only [List.map_cons, List.map_nil, flatMap_singleton_eq_map]

theorem rintK_congr (fl : K → Int) (hfl : ∀ x, fl x = ⌊x⌋) (x : K) : rintK fl x = rintK (fun x => ⌊x⌋) x := by
  unfold rintK; simp only [hfl]

/-- the nearest integer is within 1/2. -/
theorem rintK_bounds (x : K) : x - 1 / 2 ≤ ((rintK (fun x => ⌊x⌋) x : Int) : K) ∧ ((rintK (fun x => ⌊x⌋) x : Int) : K) ≤ x + 1 / 2 := by
  have hh : (1 : K) / ((2 : Int) : K) = 1 / 2 := by norm_num
  unfold rintK
  simp only [hh]
  have h1 := Int.floor_le (x + 1 / 2)
  have h2 := Int.lt_floor_add_one (x + 1 / 2)
  split
  · rename_i hc
    simp only [Bool.and_eq_true, decide_eq_true_eq] at hc
    have he : ((⌊x + 1 / 2⌋ : Int) : K) = x + 1 / 2 := le_antisymm hc.1.1 hc.1.2
    push_cast
    constructor <;> linarith
  · constructor <;> linarith

/-- offset of an atom at `p`: its relative position in the old cell plus the box origin (in cell units) reduced to
    `[-1/2, 1/2)` by the nearest lattice vector; inside `[-1/2, 3/2)³ ⊂ (-1, 2)³` for an atom inside the box
    (far faces included). -/
noncomputable def offset (b : Box K) (p : V3 K) : V3 K :=
  b.cartToRel p + ⟨(0 - (b.cartToRel ⟨0, 0, 0⟩).x) - rintK (fun x => ⌊x⌋) (0 - (b.cartToRel ⟨0, 0, 0⟩).x),
                   (0 - (b.cartToRel ⟨0, 0, 0⟩).y) - rintK (fun x => ⌊x⌋) (0 - (b.cartToRel ⟨0, 0, 0⟩).y),
                   (0 - (b.cartToRel ⟨0, 0, 0⟩).z) - rintK (fun x => ⌊x⌋) (0 - (b.cartToRel ⟨0, 0, 0⟩).z)⟩

/-- lattice shift (in old-cell units) of replica `r`. -/
def shiftOf (U : M3 Int) (r : Nat × Nat × Nat) : V3 Int :=
  ⟨(r.1 : Int) + (rotateSizes U).1.lo, (r.2.1 : Int) + (rotateSizes U).2.1.lo, (r.2.2 : Int) + (rotateSizes U).2.2.lo⟩

theorem rotateSizes_mult_pos (U : M3 Int) :
    0 < (rotateSizes U).1.mult ∧ 0 < (rotateSizes U).2.1.mult ∧ 0 < (rotateSizes U).2.2.mult := by
  have R := rotateSizes_bounds U
  simp only [Size.mult]
  omega

theorem offset_range (b : Box K) (p : V3 K) (hp : InBox (b.cartToRel p)) :
    (-1 < (offset b p).x ∧ (offset b p).x < 2) ∧ (-1 < (offset b p).y ∧ (offset b p).y < 2) ∧
    (-1 < (offset b p).z ∧ (offset b p).z < 2) := by
  obtain ⟨a1, a2, a3, a4, a5, a6⟩ := hp
  simp only [offset, V3.add_def]
  obtain ⟨x1, x2⟩ := rintK_bounds (0 - (b.cartToRel ⟨0, 0, 0⟩).x)
  obtain ⟨y1, y2⟩ := rintK_bounds (0 - (b.cartToRel ⟨0, 0, 0⟩).y)
  obtain ⟨z1, z2⟩ := rintK_bounds (0 - (b.cartToRel ⟨0, 0, 0⟩).z)
  refine ⟨⟨?_, ?_⟩, ⟨?_, ?_⟩, ⟨?_, ?_⟩⟩ <;> linarith

/-- the position of image `r`, in old-cell units about the Cartesian origin, is `offset + shiftOf r`. -/
theorem imageOf_pos (fl : K → Int) (hfl : ∀ x, fl x = ⌊x⌋) (b : Box K) (hV : M3.det b.vects ≠ 0) (U : M3 Int)
    (a : Atom K) (r : Nat × Nat × Nat) :
    (imageOf fl b U a r).pos = M3.vecMul (offset b a.pos + castV (shiftOf U r)) b.vects := by
  obtain ⟨m0, m1, m2⟩ := rotateSizes_mult_pos U
  have c0 : (((rotateSizes U).1.mult : Int) : K) ≠ 0 := by exact_mod_cast ne_of_gt m0
  have c1 : (((rotateSizes U).2.1.mult : Int) : K) ≠ 0 := by exact_mod_cast ne_of_gt m1
  have c2 : (((rotateSizes U).2.2.mult : Int) : K) ≠ 0 := by exact_mod_cast ne_of_gt m2
  show replicaPos b _ _ _ a.pos r.1 r.2.1 r.2.2 - originShift fl b = _
  rw [replicaPos_eq_aux b _ _ _ a.pos r.1 r.2.1 r.2.2 hV c0 c1 c2]
  have hp := relToCart_cartToRel b hV a.pos
  have ho := relToCart_cartToRel b hV ⟨0, 0, 0⟩
  simp only [originShift, offset, rintK_congr fl hfl]
  generalize b.cartToRel a.pos = s at hp ⊢
  generalize b.cartToRel ⟨0, 0, 0⟩ = o at ho ⊢
  have hpx := congrArg V3.x hp; have hpy := congrArg V3.y hp; have hpz := congrArg V3.z hp
  have hox := congrArg V3.x ho; have hoy := congrArg V3.y ho; have hoz := congrArg V3.z ho
  simp only [Box.relToCart, M3.vecMul, V3.add_def] at hpx hpy hpz hox hoy hoz
  ext <;> simp only [M3.vecMul, V3.add_def, V3.sub_def, castV, shiftOf, Int.cast_add, Int.cast_natCast]
  · linear_combination (-1 : K) * hpx + hox
  · linear_combination (-1 : K) * hpy + hoy
  · linear_combination (-1 : K) * hpz + hoz

/-- `rotateRaw` keeps image `r` of atom `a` iff its lattice shift is a representative of the atom's offset. -/
theorem keptPred_imageOf (fl : K → Int) (hfl : ∀ x, fl x = ⌊x⌋) (b : Box K) (hV : M3.det b.vects ≠ 0) (U : M3 Int)
    (hU : M3.det U ≠ 0) (a : Atom K) (r : Nat × Nat × Nat) :
    keptPred b U (imageOf fl b U a r) = true ↔ Rep U (offset b a.pos) (shiftOf U r) := by
  have e : (⟨newVects U b.vects, ⟨0, 0, 0⟩⟩ : Box K).cartToRel (imageOf fl b U a r).pos
      = newRel U (offset b a.pos + castV (shiftOf U r)) := by
    rw [cartToRel_eq]
    have : (imageOf fl b U a r).pos - (⟨newVects U b.vects, ⟨0, 0, 0⟩⟩ : Box K).origin = (imageOf fl b U a r).pos := by
      ext <;> simp
    rw [this, vecMul_inv_newVects U hU b.vects hV, imageOf_pos fl hfl b hV, vecMul_inv_cancel _ hV]
  unfold keptPred Rep
  rw [e]
  simp only [inHalfOpen, InCell, Bool.and_eq_true, decide_eq_true_eq]
  tauto

theorem shiftOf_injective (U : M3 Int) : Function.Injective (shiftOf U) := by
  rintro ⟨a, b, c⟩ ⟨a', b', c'⟩ h
  simp only [shiftOf, V3.mk.injEq] at h
  obtain ⟨h0, h1, h2⟩ := h
  simp only [Prod.mk.injEq]; omega

/-- **count**: an atom inside the box has exactly `|det U|` images kept by `rotateRaw`. -/
theorem imagesOf_length (fl : K → Int) (hfl : ∀ x, fl x = ⌊x⌋) (b : Box K) (hV : M3.det b.vects ≠ 0) (U : M3 Int)
    (hU : M3.det U ≠ 0) (a : Atom K) (ha : InBox (b.cartToRel a.pos)) :
    (imagesOf fl b U a).length = (M3.det U).natAbs := by
  classical
  rw [← rep_card U hU (offset b a.pos)]
  unfold imagesOf
  rw [List.filter_map, List.length_map]
  set T' := (rotTriples U).filter (keptPred b U ∘ imageOf fl b U a) with hT'
  have nd : (T'.map (shiftOf U)).Nodup :=
    List.Nodup.map (shiftOf_injective U) ((triples_nodup _ _ _).filter _)
  have hmem : ∀ n : V3 Int, n ∈ (T'.map (shiftOf U)).toFinset ↔ Rep U (offset b a.pos) n := by
    intro n
    simp only [List.mem_toFinset, List.mem_map, hT', List.mem_filter, Function.comp_apply,
      keptPred_imageOf fl hfl b hV U hU a]
    constructor
    · rintro ⟨r, ⟨_, hr⟩, rfl⟩; exact hr
    · intro hn
      obtain ⟨⟨x0, x1⟩, ⟨y0, y1⟩, ⟨z0, z1⟩⟩ := rep_in_bounds U hU _ (offset_range b a.pos ha) n hn
      refine ⟨((n.x - (rotateSizes U).1.lo).toNat, (n.y - (rotateSizes U).2.1.lo).toNat,
        (n.z - (rotateSizes U).2.2.lo).toNat), ⟨?_, ?_⟩, ?_⟩
      · rw [rotTriples, mem_triples]; simp only [Size.mult]; omega
      · have : shiftOf U ((n.x - (rotateSizes U).1.lo).toNat, (n.y - (rotateSizes U).2.1.lo).toNat,
            (n.z - (rotateSizes U).2.2.lo).toNat) = n := by
          ext <;> simp only [shiftOf] <;> omega
        rw [this]; exact hn
      · ext <;> simp only [shiftOf] <;> omega
  rw [Nat.subtype_card _ hmem, List.toFinset_card_of_nodup nd, List.length_map]

/-- the kept atoms are, up to order, the images of the individual atoms. -/
theorem rotateRaw_perm (fl : K → Int) (b : Box K) (U : M3 Int) (atoms : List (Atom K)) (nb : Box K)
    (kept : List (Atom K)) (h : rotateRaw fl b U atoms = some (nb, kept)) :
    kept.Perm (atoms.flatMap (imagesOf fl b U)) := by
  by_cases hU : M3.det U = 0
  · simp [rotateRaw, hU] at h
  · rw [rotateRaw_eq fl b U atoms hU] at h
    simp only [Option.some.injEq, Prod.mk.injEq] at h
    obtain ⟨_, rfl⟩ := h
    have := (flatMap_map_perm (rotTriples U) atoms (fun r a => imageOf fl b U a r)).filter (keptPred b U)
    refine this.trans ?_
    rw [List.filter_flatMap]
    rfl

theorem rotateRaw_length (fl : K → Int) (hfl : ∀ x, fl x = ⌊x⌋) (b : Box K) (hV : M3.det b.vects ≠ 0) (U : M3 Int)
    (atoms : List (Atom K)) (hin : ∀ a ∈ atoms, InBox (b.cartToRel a.pos)) (nb : Box K) (kept : List (Atom K))
    (h : rotateRaw fl b U atoms = some (nb, kept)) :
    kept.length = (M3.det U).natAbs * atoms.length := by
  have hU : M3.det U ≠ 0 := by
    intro h0; simp [rotateRaw, h0] at h
  rw [(rotateRaw_perm fl b U atoms nb kept h).length_eq, List.length_flatMap,
    sum_map_const atoms _ (M3.det U).natAbs (fun a ha => imagesOf_length fl hfl b hV U hU a (hin a ha)), Nat.mul_comm]

theorem castV_injective : Function.Injective (castV : V3 Int → V3 K) := by
  intro a b h
  simp only [castV, V3.mk.injEq] at h
  obtain ⟨h0, h1, h2⟩ := h
  ext
  · exact_mod_cast h0
  · exact_mod_cast h1
  · exact_mod_cast h2

/-- different replicas of one atom are at different positions. -/
theorem imageOf_pos_injective (fl : K → Int) (hfl : ∀ x, fl x = ⌊x⌋) (b : Box K) (hV : M3.det b.vects ≠ 0) (U : M3 Int)
    (a : Atom K) : Function.Injective (fun r => (imageOf fl b U a r).pos) := by
  intro r r' h
  simp only [imageOf_pos fl hfl b hV U a] at h
  have h2 := congrArg (fun x => M3.vecMul x (M3.inv b.vects)) h
  simp only [vecMul_inv_cancel _ hV] at h2
  apply shiftOf_injective U
  apply castV_injective (K := K)
  have hx := congrArg V3.x h2; have hy := congrArg V3.y h2; have hz := congrArg V3.z h2
  simp only [V3.add_def] at hx hy hz
  ext
  · exact add_left_cancel hx
  · exact add_left_cancel hy
  · exact add_left_cancel hz

/-- the kept images of one atom are at pairwise different positions. -/
theorem imagesOf_nodup (fl : K → Int) (hfl : ∀ x, fl x = ⌊x⌋) (b : Box K) (hV : M3.det b.vects ≠ 0) (U : M3 Int)
    (a : Atom K) : ((imagesOf fl b U a).map (·.pos)).Nodup := by
  have h1 : (((rotTriples U).map (imageOf fl b U a)).map (·.pos)).Nodup := by
    rw [List.map_map]
    exact List.Nodup.map (imageOf_pos_injective fl hfl b hV U a) (triples_nodup _ _ _)
  exact h1.sublist (List.Sublist.map _ List.filter_sublist)

/-- **completeness**: every periodic image `a.pos + n·V` (`n ∈ ℤ³`) of an atom inside the box that lies in the
    new half-open cell is among the kept images (the bounding supercell misses none). -/
theorem imagesOf_complete (fl : K → Int) (hfl : ∀ x, fl x = ⌊x⌋) (b : Box K) (hV : M3.det b.vects ≠ 0) (U : M3 Int)
    (hU : M3.det U ≠ 0) (a : Atom K) (ha : InBox (b.cartToRel a.pos)) (n : V3 Int)
    (hq : InCell ((⟨newVects U b.vects, ⟨0, 0, 0⟩⟩ : Box K).cartToRel (a.pos + M3.vecMul (castV n) b.vects))) :
    ∃ a' ∈ imagesOf fl b U a, a'.pos = a.pos + M3.vecMul (castV n) b.vects ∧ a'.atype = a.atype ∧ a'.extra = a.extra := by
  -- the integer shift of `rotateRaw`
  set f : V3 Int := ⟨rintK (fun x => ⌊x⌋) (0 - (b.cartToRel ⟨0, 0, 0⟩).x), rintK (fun x => ⌊x⌋) (0 - (b.cartToRel ⟨0, 0, 0⟩).y), rintK (fun x => ⌊x⌋) (0 - (b.cartToRel ⟨0, 0, 0⟩).z)⟩
    with hf
  have hpos : a.pos + M3.vecMul (castV n) b.vects = M3.vecMul (offset b a.pos + castV (n + f)) b.vects := by
    have hp := relToCart_cartToRel b hV a.pos
    have ho := relToCart_cartToRel b hV ⟨0, 0, 0⟩
    simp only [offset, hf]
    generalize b.cartToRel a.pos = s at hp ⊢
    generalize b.cartToRel ⟨0, 0, 0⟩ = o at ho ⊢
    have hpx := congrArg V3.x hp; have hpy := congrArg V3.y hp; have hpz := congrArg V3.z hp
    have hox := congrArg V3.x ho; have hoy := congrArg V3.y ho; have hoz := congrArg V3.z ho
    simp only [Box.relToCart, M3.vecMul, V3.add_def] at hpx hpy hpz hox hoy hoz
    ext <;> simp only [M3.vecMul, V3.add_def, castV, V3.add_x', V3.add_y', V3.add_z', Int.cast_add]
    · linear_combination (-1 : K) * hpx + hox
    · linear_combination (-1 : K) * hpy + hoy
    · linear_combination (-1 : K) * hpz + hoz
  have hrep : Rep U (offset b a.pos) (n + f) := by
    unfold Rep
    rw [cartToRel_eq] at hq
    have : a.pos + M3.vecMul (castV n) b.vects - (⟨newVects U b.vects, ⟨0, 0, 0⟩⟩ : Box K).origin
        = a.pos + M3.vecMul (castV n) b.vects := by ext <;> simp
    rw [this, vecMul_inv_newVects U hU b.vects hV, hpos, vecMul_inv_cancel _ hV] at hq
    exact hq
  obtain ⟨⟨x0, x1⟩, ⟨y0, y1⟩, ⟨z0, z1⟩⟩ := rep_in_bounds U hU _ (offset_range b a.pos ha) (n + f) hrep
  set r : Nat × Nat × Nat := (((n + f).x - (rotateSizes U).1.lo).toNat, ((n + f).y - (rotateSizes U).2.1.lo).toNat,
    ((n + f).z - (rotateSizes U).2.2.lo).toNat) with hr
  have hsh : shiftOf U r = n + f := by ext <;> simp only [shiftOf, hr] <;> omega
  refine ⟨imageOf fl b U a r, ?_, ?_, rfl, rfl⟩
  · unfold imagesOf
    rw [List.mem_filter]
    refine ⟨List.mem_map.mpr ⟨r, ?_, rfl⟩, ?_⟩
    · rw [rotTriples, mem_triples]; simp only [Size.mult, hr]; omega
    · rw [keptPred_imageOf fl hfl b hV U hU a r, hsh]; exact hrep
  · rw [imageOf_pos fl hfl b hV U a r, hsh, hpos]

end Atomman.C04
