/-
  C19 — helper lemmas: the performance bookkeeping of the single pass over quiet stretches and well-formed timing
  blocks of the OLD layout (`Pair  time (%) = 1.23 (45.6)` …, LAMMPS before the `MPI task timing breakdown`
  table); the table reads of such blocks succeed.
-/
import Proofs.C19_Perf
set_option linter.unusedSimpArgs false
set_option linter.unusedVariables false
namespace Atomman.C19
open List

/-! ### timing lines of the old layout: `read` does not raise -/

/-- the `Pair  time (%) = …` line: it is the trigger and the first row of the table at once. -/
theorem step_pst_startOld (s : Scan) (l : Str) (hb : isBlank l = false) (ht : hasAny thermoStart l = false)
    (h1 : hasAny perfStart l = false) (h2 : hasAny perfStartOld l = true) :
    (Scan.step s l).pst = ⟨s.i + 1, s.thermoHeaders.length,
      s.perfHeaders ++ [(s.i : Int) + Gen.Log.perfHeaderOldOffset],
      s.perfSims ++ [(s.thermoHeaders.length : Int) - 1], s.perfFooters, true⟩ := by
  unfold Scan.step Scan.pst
  simp only [hb, Bool.false_eq_true, if_false, ht, h1, h2, if_true]
  split_ifs <;> simp

/-- an old-style timing block: the `Pair  time (%) = …` line, the further `<name> time (%) = …` lines, and the
    `Nlocal:` line that closes it. -/
structure OldBreakdown where
  first : Str
  rows : List Str
  stop : Str

def OldBreakdown.lines (b : OldBreakdown) : List Str := b.first :: (b.rows ++ [b.stop])

structure OldBreakdown.WF (b : OldBreakdown) : Prop where
  first_nb : isBlank b.first = false
  first_thermo : hasAny thermoStart b.first = false
  first_new : hasAny perfStart b.first = false
  first_old : hasAny perfStartOld b.first = true
  rows_in : ∀ l ∈ b.rows, InBlock l
  stop_nb : isBlank b.stop = false
  stop_thermo : hasAny thermoStart b.stop = false
  stop_start : hasAny perfStart b.stop = false
  stop_old : hasAny perfStartOld b.stop = false
  stop_end : hasAny perfEnd b.stop = true
  /-- every line of the table is `name = value`: exactly one `=` -/
  two : ∀ l ∈ b.first :: b.rows, (splitOnChar '=' l).length = 2

theorem nonBlank_oldBlock (b : OldBreakdown) (h : b.WF) : nonBlank b.lines = b.lines := by
  unfold nonBlank
  rw [filter_eq_self]
  intro l hl
  simp only [OldBreakdown.lines, mem_cons, mem_append, not_mem_nil, or_false] at hl
  rcases hl with rfl | hl | rfl
  · simp [h.first_nb]
  · simp [(h.rows_in l hl).1]
  · simp [h.stop_nb]

/-- the table read of an old block succeeds. -/
theorem readPerfOld_block (nb pre rest : List Str) (b : OldBreakdown) (h : b.WF)
    (hnb : nb = pre ++ (b.lines ++ rest)) :
    ∃ p, readPerfOld nb (pre.length : Int) ((pre.length : Int) + b.rows.length) = .ok p := by
  unfold readPerfOld
  have h1 : ¬ ((pre.length : Int) + b.rows.length - (pre.length : Int) < 0) := by omega
  have h2 : ¬ ((pre.length : Int) < 0) := by omega
  have h3 : ((pre.length : Int)).toNat = pre.length := by omega
  have h4 : ((pre.length : Int) + b.rows.length - (pre.length : Int)).toNat + 1 = b.rows.length + 1 := by omega
  rw [if_neg h1, if_neg h2, h3, h4]
  have h5 : nb[pre.length]? = some b.first := by
    rw [hnb, getElem?_append_right (by omega)]
    simp [OldBreakdown.lines]
  have h6 : (nb.drop pre.length).take (b.rows.length + 1) = b.first :: b.rows := by
    rw [hnb, drop_append, drop_eq_nil_of_le (Nat.le_refl _), Nat.sub_self]
    simp [OldBreakdown.lines, take_append]
  rw [h5]
  simp only [h6]
  have hw : (((b.first :: b.rows).map (splitOnChar '=')).any (fun r => r.length != 2)) = false := by
    rw [any_eq_false]
    intro r hr
    obtain ⟨l, hl, rfl⟩ := mem_map.1 hr
    simp [h.two l hl]
  rw [hw]
  exact ⟨_, rfl⟩

/-! #### the scan over quiet stretches and old blocks -/

inductive OSeg
  | quiet (ls : List Str)
  | block (b : OldBreakdown)

def OSeg.lines : OSeg → List Str
  | .quiet ls => ls
  | .block b => b.lines

def osegsWF (nh : Nat) : List OSeg → Prop
  | [] => True
  | .quiet ls :: rest => (∀ l ∈ ls, PerfQuiet l) ∧ osegsWF (nh + starts ls) rest
  | .block b :: rest => b.WF ∧ 1 ≤ nh ∧ osegsWF nh rest

/-- (header, simulation index, footer) recorded for the old blocks. -/
def opEntries (p nh : Nat) : List OSeg → List (Int × Int × Int)
  | [] => []
  | .quiet ls :: rest => opEntries (p + cnt ls) (nh + starts ls) rest
  | .block b :: rest =>
    ((p : Int), (nh : Int) - 1, (p : Int) + b.rows.length) :: opEntries (p + b.lines.length) nh rest

def ofinalNh (nh : Nat) : List OSeg → Nat
  | [] => nh
  | .quiet ls :: rest => ofinalNh (nh + starts ls) rest
  | .block _ :: rest => ofinalNh nh rest

def hasBlock : List OSeg → Bool
  | [] => false
  | .quiet _ :: rest => hasBlock rest
  | .block _ :: _ => true

theorem le_ofinalNh (nh : Nat) (segs : List OSeg) : nh ≤ ofinalNh nh segs := by
  induction segs generalizing nh with
  | nil => exact Nat.le_refl _
  | cons sg rest ih =>
    cases sg with
    | quiet ls => exact Nat.le_trans (Nat.le_add_right _ _) (ih _)
    | block b => exact ih _

theorem scan_pst_oldBlock (s : Scan) (b : OldBreakdown) (h : b.WF)
    (hc : s.perfFooters.length = s.perfHeaders.length) :
    (scan s b.lines).pst = ⟨s.i + b.lines.length, s.thermoHeaders.length,
      s.perfHeaders ++ [(s.i : Int)], s.perfSims ++ [(s.thermoHeaders.length : Int) - 1],
      s.perfFooters ++ [(s.i : Int) + b.rows.length], true⟩ := by
  unfold OldBreakdown.lines
  rw [scan_cons, scan_append, scan_cons]
  have e1 := step_pst_startOld s b.first h.first_nb h.first_thermo h.first_new h.first_old
  simp only [Scan.pst, PS.mk.injEq] at e1
  obtain ⟨a1, a2, a3, a4, a5, a6⟩ := e1
  have e3 := scan_pst_rows (Scan.step s b.first) b.rows h.rows_in
  simp only [Scan.pst, PS.mk.injEq] at e3
  obtain ⟨c1, c2, c3, c4, c5, c6⟩ := e3
  have hopen : (scan (Scan.step s b.first) b.rows).perfFooters.length
      < (scan (Scan.step s b.first) b.rows).perfHeaders.length := by
    rw [c5, c3, a5, a3, length_append, hc]; simp
  have e4 := step_pst_stop _ b.stop h.stop_nb (by rw [← h.stop_thermo]) h.stop_start h.stop_old h.stop_end hopen
  have hnil : ∀ x : Scan, scan x [] = x := fun _ => rfl
  rw [hnil, e4]
  simp only [c1, c2, c3, c4, c5, c6, a1, a2, a3, a4, a5, a6, length_cons, length_append,
    length_nil, Gen.Log.perfHeaderOldOffset, Gen.Log.perfFooterOffset, PS.mk.injEq, true_and, and_true,
    append_cancel_left_eq, cons.injEq]
  refine ⟨by omega, by omega, ?_⟩
  push_cast
  omega

theorem cnt_oldBlock (b : OldBreakdown) (h : b.WF) : cnt b.lines = b.lines.length := by
  unfold cnt; rw [nonBlank_oldBlock b h]

theorem scan_pst_osegs (s : Scan) (segs : List OSeg) (h : osegsWF s.thermoHeaders.length segs)
    (hc : s.perfFooters.length = s.perfHeaders.length) :
    (scan s (segs.flatMap OSeg.lines)).pst =
      ⟨s.i + cnt (segs.flatMap OSeg.lines), ofinalNh s.thermoHeaders.length segs,
        s.perfHeaders ++ (opEntries s.i s.thermoHeaders.length segs).map (·.1),
        s.perfSims ++ (opEntries s.i s.thermoHeaders.length segs).map (·.2.1),
        s.perfFooters ++ (opEntries s.i s.thermoHeaders.length segs).map (·.2.2),
        s.isOld || hasBlock segs⟩ := by
  induction segs generalizing s with
  | nil => simp [scan, Scan.pst, cnt, nonBlank, ofinalNh, opEntries, hasBlock]
  | cons sg rest ih =>
    rw [flatMap_cons, scan_append]
    cases sg with
    | quiet ls =>
      obtain ⟨hq, hrest⟩ := h
      have e := scan_pst_quiet s ls hq hc
      simp only [Scan.pst, PS.mk.injEq] at e
      obtain ⟨e1, e2, e3, e4, e5, e6⟩ := e
      have := ih (scan s ls) (by rw [e2]; exact hrest) (by rw [e5, e3]; exact hc)
      simp only [OSeg.lines] at this ⊢
      rw [this]
      simp only [e1, e2, e3, e4, e5, e6, cnt_append, ofinalNh, opEntries, hasBlock, PS.mk.injEq, and_true, true_and]
      omega
    | block b =>
      obtain ⟨hb, hnh, hrest⟩ := h
      have e := scan_pst_oldBlock s b hb hc
      simp only [Scan.pst, PS.mk.injEq] at e
      obtain ⟨e1, e2, e3, e4, e5, e6⟩ := e
      have := ih (scan s b.lines) (by rw [e2]; exact hrest) (by rw [e5, e3, length_append, length_append, hc]; rfl)
      simp only [OSeg.lines] at this ⊢
      rw [this]
      simp only [e1, e2, e3, e4, e5, e6, cnt_append, cnt_oldBlock b hb, ofinalNh, opEntries, hasBlock, map_cons,
        append_assoc, singleton_append, PS.mk.injEq, and_true, true_and, Bool.true_or, Bool.or_true]
      omega

/-- every recorded old block can be read and belongs to a simulation of this read. -/
theorem oentries_ok (nb : List Str) (segs : List OSeg) (pre : List Str) (nh : Nat) (h : osegsWF nh segs)
    (hnb : nb = pre ++ nonBlank (segs.flatMap OSeg.lines)) :
    ∀ e ∈ opEntries pre.length nh segs,
      (∃ p, readPerfOld nb e.1 e.2.2 = .ok p) ∧ 0 ≤ e.2.1 ∧ e.2.1 < (ofinalNh nh segs : Int) := by
  induction segs generalizing pre nh with
  | nil => simp [opEntries]
  | cons sg rest ih =>
    cases sg with
    | quiet ls =>
      obtain ⟨hq, hrest⟩ := h
      intro e he
      simp only [opEntries] at he
      have hnb' : nb = (pre ++ nonBlank ls) ++ nonBlank (rest.flatMap OSeg.lines) := by
        rw [hnb, flatMap_cons, nonBlank_append, append_assoc]; rfl
      have := ih (pre ++ nonBlank ls) (nh + starts ls) hrest hnb' e (by simpa [cnt] using he)
      simpa [ofinalNh] using this
    | block b =>
      obtain ⟨hb, hnh, hrest⟩ := h
      intro e he
      simp only [opEntries, mem_cons] at he
      have hnb' : nb = pre ++ (b.lines ++ nonBlank (rest.flatMap OSeg.lines)) := by
        rw [hnb, flatMap_cons, nonBlank_append]
        show pre ++ (nonBlank b.lines ++ _) = _
        rw [nonBlank_oldBlock b hb]
      rcases he with rfl | he
      · refine ⟨readPerfOld_block nb pre _ b hb hnb', ?_, ?_⟩
        · show (0 : Int) ≤ (nh : Int) - 1
          omega
        · have := le_ofinalNh nh rest
          show (nh : Int) - 1 < (ofinalNh nh rest : Int)
          omega
      · have hnb'' : nb = (pre ++ b.lines) ++ nonBlank (rest.flatMap OSeg.lines) := by
          rw [hnb', append_assoc]
        have := ih (pre ++ b.lines) nh hrest hnb'' e (by simpa using he)
        simpa [ofinalNh] using this

theorem opEntries_nil (p nh : Nat) (segs : List OSeg) (h : hasBlock segs = false) : opEntries p nh segs = [] := by
  induction segs generalizing p nh with
  | nil => rfl
  | cons sg rest ih =>
    cases sg with
    | quiet ls => simp only [opEntries]; exact ih _ _ (by simpa [hasBlock] using h)
    | block b => simp [hasBlock] at h

theorem assignPerf_ok_old (nb : List Str) (j : Nat) (es : List (Int × Int × Int)) (sims : List Sim)
    (h : ∀ e ∈ es, (∃ p, readPerfOld nb e.1 e.2.2 = .ok p) ∧ 0 ≤ e.2.1 ∧ e.2.1 + j < sims.length) :
    ∃ sims', assignPerf nb true j (es.map (·.1)) (es.map (·.2.1)) (es.map (·.2.2)) sims = .ok sims' := by
  induction es generalizing sims with
  | nil => exact ⟨sims, by simp [assignPerf]⟩
  | cons e es ih =>
    obtain ⟨⟨p, hp⟩, h0, hlt⟩ := h e mem_cons_self
    simp only [map_cons, assignPerf, if_true, hp]
    have hidx : pyIndex? sims.length (e.2.1 + j) = some (e.2.1 + j).toNat := by
      unfold pyIndex?
      rw [if_pos (by omega), if_pos (by omega)]
    rw [hidx]
    simp only
    apply ih
    intro e' he'
    obtain ⟨hp', h0', hlt'⟩ := h e' (mem_cons_of_mem _ he')
    exact ⟨hp', h0', by simpa using hlt'⟩

/-- with well-formed old-style timing blocks anywhere after the first memory banner (and no block of the new layout),
    the performance part of `read` does not raise. -/
theorem perf_ok_old (L : Layout) (h : L.WF) (segs : List OSeg) (hsegs : L.lines = segs.flatMap OSeg.lines)
    (hwf : osegsWF 0 segs) (st : LogState) (app : Bool) (tables : List Table)
    (hlen : tables.length = L.runs.length) :
    ∃ sims, assignPerf (nonBlank L.lines) (passOf st app L.lines).isOld (startState st app).sims.length
      (passOf st app L.lines).perfHeaders (passOf st app L.lines).perfSims (passOf st app L.lines).perfFooters
      ((startState st app).sims ++ tables.map (fun t => ({ thermo := t } : Sim))) = .ok sims := by
  have hp := scan_pst_osegs { haveVersion := (startState st app).version.isSome } segs hwf rfl
  rw [← hsegs] at hp
  change (passOf st app L.lines).pst = _ at hp
  simp only [Scan.pst, PS.mk.injEq, nil_append, length_nil, Bool.false_or] at hp
  obtain ⟨_, p2, p3, p4, p5, p6⟩ := hp
  rw [p3, p4, p5, p6]
  cases hblk : hasBlock segs with
  | false =>
    rw [opEntries_nil 0 0 segs hblk]
    exact ⟨_, rfl⟩
  | true =>
    apply assignPerf_ok_old
    intro e he
    have hnb : nonBlank L.lines = [] ++ nonBlank (segs.flatMap OSeg.lines) := by rw [hsegs]; rfl
    obtain ⟨h1, h2, h3⟩ := oentries_ok (nonBlank L.lines) segs [] 0 hwf hnb e he
    refine ⟨h1, h2, ?_⟩
    have hn := passOf_nh L h st app
    rw [p2] at hn
    simp only [length_append, length_map, hlen]
    rw [hn] at h3
    omega

end Atomman.C19
