/-
  C08 — reading back what the C07 writers print: lexing of rendered documents, number tokens, the numeric table.
-/
import Proofs.C08_Sig
namespace Atomman.C08
open Atomman Atomman.C07
set_option linter.unusedSimpArgs false


/-! ### lexing what was rendered -/

/-- a token that survives rendering and lexing: not empty, no white space, no newline. -/
def CleanTok (t : Tok) : Prop := t ≠ [] ∧ ∀ c ∈ t, isSpace c = false ∧ c ≠ '\n'

theorem lexLine_space (r : List Char) : lexLine (' ' :: r) = lexLine r := by
  rw [lexLine.eq_def]
  simp [show isSpace ' ' = true by decide]

theorem lexLine_clean_append (t : Tok) (rest : List Char) (h : CleanTok t)
    (hr : rest = [] ∨ ∃ r', rest = ' ' :: r') : lexLine (t ++ rest) = t :: lexLine rest := by
  obtain ⟨hne, hc⟩ := h
  induction t with
  | nil => exact absurd rfl hne
  | cons c cs ih =>
    have hcs : isSpace c = false := (hc c List.mem_cons_self).1
    cases cs with
    | nil =>
      simp only [List.cons_append, List.nil_append]
      rcases hr with rfl | ⟨r', rfl⟩
      · unfold lexLine; simp [hcs, lexLine]
      · rw [lexLine.eq_def]
        simp [hcs, show isSpace ' ' = true by decide]
    | cons d ds =>
      have hd : isSpace d = false := (hc d (List.mem_cons_of_mem _ List.mem_cons_self)).1
      have ih' := ih (by simp) (fun x hx => hc x (List.mem_cons_of_mem _ hx))
      simp only [List.cons_append] at ih' ⊢
      rw [lexLine.eq_def]
      simp only [hcs, Bool.false_eq_true, if_false, hd]
      rw [ih']

theorem lexLine_joinSp (toks : Line) (h : ∀ t ∈ toks, CleanTok t) : lexLine (joinSp toks) = toks := by
  induction toks with
  | nil => rfl
  | cons t ts ih =>
    cases ts with
    | nil =>
      have := lexLine_clean_append t [] (h t List.mem_cons_self) (Or.inl rfl)
      simpa [joinSp, lexLine] using this
    | cons t2 ts2 =>
      have h1 := lexLine_clean_append t (' ' :: joinSp (t2 :: ts2)) (h t List.mem_cons_self) (Or.inr ⟨_, rfl⟩)
      have h2 := ih (fun x hx => h x (List.mem_cons_of_mem _ hx))
      simp only [joinSp]
      rw [h1]
      rw [lexLine_space, h2]


theorem splitLines_line (l rest : List Char) (h : ∀ c ∈ l, c ≠ '\n') :
    splitLines (l ++ '\n' :: rest) = l :: splitLines rest := by
  induction l with
  | nil => simp [splitLines]
  | cons c cs ih =>
    have hc : c ≠ '\n' := h c List.mem_cons_self
    have := ih (fun x hx => h x (List.mem_cons_of_mem _ hx))
    simp only [List.cons_append]
    rw [splitLines]
    simp [hc, this]

theorem joinSp_no_newline (toks : Line) (h : ∀ t ∈ toks, ∀ c ∈ t, c ≠ '\n') : ∀ c ∈ joinSp toks, c ≠ '\n' := by
  induction toks with
  | nil => intro c hc; cases hc
  | cons t ts ih =>
    cases ts with
    | nil => simpa [joinSp] using h t List.mem_cons_self
    | cons t2 ts2 =>
      intro c hc
      simp only [joinSp, List.mem_append, List.mem_cons] at hc
      rcases hc with hc | hc | hc
      · exact h t List.mem_cons_self c hc
      · subst hc; decide
      · exact ih (fun x hx => h x (List.mem_cons_of_mem _ hx)) c hc

/-- the physical lines of a rendered document are its lines. -/
theorem splitLines_renderLines (doc : Doc) (h : ∀ l ∈ doc, ∀ t ∈ l, ∀ c ∈ t, c ≠ '\n') :
    splitLines (renderLines doc) = doc.map joinSp := by
  induction doc with
  | nil => rfl
  | cons l ls ih =>
    simp only [renderLines, List.map_cons]
    rw [splitLines_line _ _ (joinSp_no_newline l (h l List.mem_cons_self)),
      ih (fun x hx => h x (List.mem_cons_of_mem _ hx))]


/-! ### number tokens -/

def NumChar (c : Char) : Prop := c = '-' ∨ c = '.' ∨ isDigit c = true

theorem numChar_clean (c : Char) (h : NumChar c) : isSpace c = false ∧ c ≠ '\n' ∧ c ≠ '#' := by
  rcases h with rfl | rfl | hd
  · decide
  · decide
  · refine ⟨?_, ?_, ?_⟩
    · cases hs : isSpace c with
      | false => rfl
      | true =>
        exfalso
        simp only [isSpace, Bool.or_eq_true, decide_eq_true_eq] at hs
        rcases hs with (((rfl | rfl) | rfl) | rfl) | rfl <;> revert hd <;> decide
    · intro hc; subst hc; revert hd; decide
    · intro hc; subst hc; revert hd; decide

theorem numChars_natTok (m : Nat) : ∀ c ∈ natTok m, NumChar c := by
  intro c hc
  exact Or.inr (Or.inr (List.all_eq_true.mp (all_isDigit_natTok m) c hc))

theorem numChars_padDigits (w m : Nat) : ∀ c ∈ padDigits w m, NumChar c := by
  intro c hc
  exact Or.inr (Or.inr (List.all_eq_true.mp (all_isDigit_padDigits w m) c hc))

theorem numChars_fmtFixed (q : ℚ) (n : Nat) : ∀ c ∈ fmtFixed q n, NumChar c := by
  intro c hc
  unfold fmtFixed at hc
  simp only [List.mem_append] at hc
  rcases hc with (hc | hc) | hc
  · split at hc
    · simp at hc; exact Or.inl hc
    · cases hc
  · exact numChars_natTok _ c hc
  · split at hc
    · cases hc
    · rcases List.mem_cons.mp hc with rfl | hc
      · exact Or.inr (Or.inl rfl)
      · exact numChars_padDigits _ _ c hc

theorem fmtFixed_ne_nil (q : ℚ) (n : Nat) : fmtFixed q n ≠ [] := by
  unfold fmtFixed
  intro h
  have h1 := List.append_eq_nil_iff.mp h
  have h2 := List.append_eq_nil_iff.mp h1.1
  exact natTok_ne_nil _ h2.2

theorem numChars_intTok (i : Int) : ∀ c ∈ intTok i, NumChar c := by
  intro c hc
  unfold intTok at hc
  split at hc
  · rcases List.mem_cons.mp hc with rfl | hc
    · exact Or.inl rfl
    · exact numChars_natTok _ c hc
  · exact numChars_natTok _ c hc

theorem intTok_ne_nil (i : Int) : intTok i ≠ [] := by
  unfold intTok
  split
  · simp
  · exact natTok_ne_nil _

theorem cleanTok_of_numChars (t : Tok) (hne : t ≠ []) (h : ∀ c ∈ t, NumChar c) : CleanTok t :=
  ⟨hne, fun c hc => ⟨(numChar_clean c (h c hc)).1, (numChar_clean c (h c hc)).2.1⟩⟩

/-- what a float format has to provide for its output to be read back: C07 proves it for every `%.nf`. -/
structure Readable (f : Fmt) : Prop where
  parse : ∀ q, parseNum? (fmtNum f q) = some (fmtVal f q)
  clean : ∀ q, CleanTok (fmtNum f q)
  nohash : ∀ q, ∀ c ∈ fmtNum f q, c ≠ '#'

theorem readable_fixed (n : Nat) : Readable (.fixed n) where
  parse := fun q => parseNum_fmtFixed q n
  clean := fun q => cleanTok_of_numChars _ (fmtFixed_ne_nil q n) (numChars_fmtFixed q n)
  nohash := fun q c hc => (numChar_clean c (numChars_fmtFixed q n c hc)).2.2

/-- an integer token is also a number token, with the same value. -/
theorem parseNum_of_parseInt (t : Tok) (i : Int) (h : parseInt? t = some i) : parseNum? t = some (i : ℚ) := by
  unfold parseInt? at h
  unfold parseNum?
  cases hk : parseNat? (splitSign t).2 with
  | none => simp [hk] at h
  | some k =>
    simp only [hk, Option.some.injEq] at h
    unfold parseNat? at hk
    split at hk
    · rename_i hd
      simp only [Option.some.injEq] at hk
      have hu : parseUnsigned? (splitSign t).2 = some ((k : Nat) : ℚ) := by
        unfold parseUnsigned?
        simp only [span_isDigit_all _ hd.2, fracPart, parseExp?, List.length_nil, List.append_nil, pow10_zero]
        rw [if_neg (by simp [hd.1])]
        simp [hk]
      rw [hu]
      simp only [Option.some.injEq]
      rw [← h]
      split <;> simp
    · cases hk

theorem parseVal_toRat (t : Tok) (q : ℚ) (h : parseNum? t = some q) : ∃ v, parseVal t = .ok v ∧ v.toRat = q := by
  unfold parseVal parseVal?
  cases hi : parseInt? t with
  | some i =>
    have := parseNum_of_parseInt t i hi
    rw [h] at this
    injection this with this
    exact ⟨.int i, rfl, by simp [Val.toRat, this]⟩
  | none =>
    simp only [h]
    exact ⟨.num q, rfl, rfl⟩

theorem parseVal_intTok (i : Int) : parseVal (intTok i) = .ok (.int i) := by
  unfold parseVal parseVal?
  rw [parseInt_intTok]
  rfl



theorem mapM_exists {α β γ : Type} (f : α → Except String β) (g : α → γ) (h : β → γ) (l : List α)
    (H : ∀ a ∈ l, ∃ b, f a = .ok b ∧ h b = g a) : ∃ bs, l.mapM f = .ok bs ∧ bs.map h = l.map g := by
  induction l with
  | nil => exact ⟨[], rfl, rfl⟩
  | cons a as ih =>
    obtain ⟨b, hb1, hb2⟩ := H a List.mem_cons_self
    obtain ⟨bs, hbs1, hbs2⟩ := ih (fun x hx => H x (List.mem_cons_of_mem _ hx))
    refine ⟨b :: bs, ?_, by simp [hb2, hbs2]⟩
    rw [List.mapM_cons, hb1, hbs1]
    rfl

/-- the value a printed cell denotes. -/
def cellRat (f : Fmt) : Cell → ℚ
  | .int i => (i : ℚ)
  | .num q => fmtVal f q

theorem cellTok_clean {f : Fmt} (hf : Readable f) (c : Cell) : CleanTok (c.tok f) := by
  cases c with
  | int i => exact cleanTok_of_numChars _ (intTok_ne_nil i) (numChars_intTok i)
  | num q => exact hf.clean q

theorem parseVal_cellTok {f : Fmt} (hf : Readable f) (c : Cell) :
    ∃ v, parseVal (c.tok f) = .ok v ∧ v.toRat = cellRat f c := by
  cases c with
  | int i => exact ⟨.int i, parseVal_intTok i, rfl⟩
  | num q => exact parseVal_toRat _ _ (hf.parse q)

/-- **reading back a written table**: the numeric table pandas delivers for the rows `rowsDoc f rows` is the
    written table with every float at its printed value; with `usecols=range(w)` its first `w` columns. -/
theorem readTable_rowsDoc {f : Fmt} (hf : Readable f) (rows : List (List Cell)) (n w : Nat) (usecols : Bool)
    (hne : rows ≠ []) (hn : ∀ r ∈ rows, r.length = n) (hw : if usecols then w ≤ n else n = w) :
    ∃ tbl, readTable (rowsDoc f rows) w usecols = .ok tbl ∧
      tbl.map (·.map Val.toRat) = rows.map fun r => (r.take w).map (cellRat f) := by
  have hlen : ∀ r ∈ rowsDoc f rows, r.length = n := by
    intro r hr
    simp only [rowsDoc, List.mem_map] at hr
    obtain ⟨r0, hr0, rfl⟩ := hr
    simp [hn r0 hr0]
  have hne' : rowsDoc f rows ≠ [] := by simpa [rowsDoc] using hne
  rcases readTable_cases (rowsDoc f rows) w usecols with ⟨h1, _⟩ | ⟨m, _, h2, h3⟩ | ⟨_, h2, _⟩
  · exact absurd h1 hne'
  · have hm : m = n := by
      obtain ⟨r, rs, hr⟩ := List.exists_cons_of_ne_nil hne'
      have a := h2 r (by rw [hr]; exact List.mem_cons_self)
      have b := hlen r (by rw [hr]; exact List.mem_cons_self)
      omega
    subst hm
    rw [h3]
    have c1 : ¬ (usecols = true ∧ m < w) := by
      rintro ⟨hu, hlt⟩; simp only [hu, if_true] at hw; omega
    have c2 : ¬ (usecols = false ∧ m ≠ w) := by
      rintro ⟨hu, hne2⟩; simp only [hu, Bool.false_eq_true, if_false] at hw; exact hne2 hw
    rw [if_neg c1, if_neg c2]
    have := mapM_exists (fun r : Line => (r.take w).mapM parseVal)
      (fun r : Line => (r.take w).map fun t => (match parseVal t with | .ok v => v.toRat | .error _ => 0))
      (fun vs : List Val => vs.map Val.toRat) (rowsDoc f rows) (by
        intro r hr
        simp only [rowsDoc, List.mem_map] at hr
        obtain ⟨r0, _, rfl⟩ := hr
        have := mapM_exists parseVal (fun t => (match parseVal t with | .ok v => v.toRat | .error _ => 0)) Val.toRat
          ((r0.map (Cell.tok f)).take w) (by
            intro t ht
            have ht' := List.mem_of_mem_take ht
            simp only [List.mem_map] at ht'
            obtain ⟨c, _, rfl⟩ := ht'
            obtain ⟨v, hv1, _⟩ := parseVal_cellTok hf c
            exact ⟨v, hv1, by rw [hv1]⟩)
        exact this)
    obtain ⟨tbl, ht1, ht2⟩ := this
    refine ⟨tbl, ht1, ?_⟩
    rw [ht2]
    simp only [rowsDoc, List.map_map]
    apply List.map_congr_left
    intro r0 _
    simp only [Function.comp, ← List.map_take, List.map_map]
    apply List.map_congr_left
    intro c _
    obtain ⟨v, hv1, hv2⟩ := parseVal_cellTok hf c
    simp only [Function.comp, hv1, hv2]
  · exact absurd ⟨n, hlen⟩ h2


/-! ### rows written in id order stay in place -/

theorem insertBy_head {α : Type} (key : α → ℚ) (x : α) (l : List α) (h : ∀ y ∈ l, key x ≤ key y) :
    insertBy key x l = x :: l := by
  cases l with
  | nil => rfl
  | cons y ys => unfold insertBy; simp [h y List.mem_cons_self]

theorem sortBy_sorted_id {α : Type} (key : α → ℚ) (l : List α) (h : l.Pairwise fun a b => key a ≤ key b) :
    sortBy key l = l := by
  induction l with
  | nil => rfl
  | cons x xs ih =>
    have hx := List.pairwise_cons.mp h
    unfold sortBy
    rw [ih hx.2, insertBy_head key x xs hx.1]

theorem rowKey_toRat (i : Nat) (r : List Val) : rowKey i r = ((r.map Val.toRat)[i]?).getD 0 := by
  unfold rowKey
  simp only [List.getElem?_map]
  cases r[i]? <;> rfl

/-- `sortRows` only looks at the values of the id column. -/
theorem sortRows_sorted_id (cols : List PCol) (tbl : List (List Val))
    (h : ∀ i, idIndex cols = some i → (tbl.map (·.map Val.toRat)).Pairwise fun a b => (a[i]?).getD 0 ≤ (b[i]?).getD 0) :
    sortRows cols tbl = tbl := by
  unfold sortRows
  cases hi : idIndex cols with
  | none => rfl
  | some i =>
    apply sortBy_sorted_id
    have := h i hi
    rw [List.pairwise_map] at this
    exact this.imp (fun {a b} hab => by rw [rowKey_toRat, rowKey_toRat]; exact hab)

/-- **load ∘ dump, table body**: rows written by a C07 writer in ascending id order are read back as the table of
    their printed values and assigned column group by column group, in the written order. -/
theorem tableLoad_rowsDoc {f : Fmt} (hf : Readable f) (s : Loaded) (rows : List (List Cell)) (cols : List PCol)
    (n : Nat) (usecols : Bool) (hne : rows ≠ []) (hn : ∀ r ∈ rows, r.length = n)
    (hw : if usecols then colsWidth cols ≤ n else n = colsWidth cols)
    (hs : ∀ i, idIndex cols = some i →
      (rows.map fun r => (r.take (colsWidth cols)).map (cellRat f)).Pairwise fun a b => (a[i]?).getD 0 ≤ (b[i]?).getD 0) :
    ∃ tbl, tableLoad s (rowsDoc f rows) cols usecols = assignCols s.box cols (columnCells cols tbl) s ∧
      tbl.map (·.map Val.toRat) = rows.map fun r => (r.take (colsWidth cols)).map (cellRat f) := by
  obtain ⟨tbl, h1, h2⟩ := readTable_rowsDoc hf rows n (colsWidth cols) usecols hne hn hw
  refine ⟨tbl, ?_, h2⟩
  unfold tableLoad
  rw [h1]
  simp only [bind, Except.bind]
  rw [sortRows_sorted_id cols tbl (by rw [h2]; exact hs)]


/-- the id a written row carries (the printed value of column `i` among the first `w`). -/
def cellKey (f : Fmt) (w i : Nat) (r : List Cell) : ℚ := (((r.take w).map (cellRat f))[i]?).getD 0

/-- **load ∘ dump, table body, any id order**: rows written with distinct ids are read back as the table of their
    printed values *sorted by id*, and assigned column group by column group. -/
theorem tableLoad_rowsDoc_sorted {f : Fmt} (hf : Readable f) (s : Loaded) (rows : List (List Cell)) (cols : List PCol)
    (n : Nat) (usecols : Bool) (i : Nat) (hne : rows ≠ []) (hn : ∀ r ∈ rows, r.length = n)
    (hw : if usecols then colsWidth cols ≤ n else n = colsWidth cols)
    (hid : idIndex cols = some i) (hd : (rows.map (cellKey f (colsWidth cols) i)).Nodup) :
    ∃ tbl, tableLoad s (rowsDoc f rows) cols usecols = assignCols s.box cols (columnCells cols tbl) s ∧
      tbl.map (·.map Val.toRat) =
        (sortBy (cellKey f (colsWidth cols) i) rows).map fun r => (r.take (colsWidth cols)).map (cellRat f) := by
  set key := cellKey f (colsWidth cols) i with hkey
  have hperm : (rowsDoc f rows).Perm (rowsDoc f (sortBy key rows)) := by
    unfold rowsDoc
    exact ((sortBy_perm key rows).symm).map _
  have hdist : ∀ t, readTable (rowsDoc f rows) (colsWidth cols) usecols = .ok t → (t.map (rowKey i)).Nodup := by
    intro t ht
    obtain ⟨tbl, h1, h2⟩ := readTable_rowsDoc hf rows n (colsWidth cols) usecols hne hn hw
    rw [h1] at ht
    injection ht with ht
    subst ht
    have : tbl.map (rowKey i) = rows.map key := by
      have e1 : tbl.map (rowKey i) = (tbl.map (·.map Val.toRat)).map (fun r => (r[i]?).getD 0) := by
        rw [List.map_map]
        apply List.map_congr_left
        intro r _
        exact rowKey_toRat i r
      rw [e1, h2, List.map_map]
      rfl
    rw [this]
    exact hd
  rw [tableLoad_perm s cols usecols i hperm hid hdist]
  have hne' : sortBy key rows ≠ [] := by
    intro h
    have := (sortBy_perm key rows).length_eq
    rw [h] at this
    cases rows with
    | nil => exact hne rfl
    | cons _ _ => simp at this
  have hn' : ∀ r ∈ sortBy key rows, r.length = n := fun r hr => hn r ((sortBy_perm key rows).subset hr)
  refine tableLoad_rowsDoc hf s (sortBy key rows) cols n usecols hne' hn' hw ?_
  intro j hj
  rw [hid] at hj
  injection hj with hj
  subst hj
  rw [List.pairwise_map]
  exact sortBy_sorted key rows

end Atomman.C08
