/-
  C08 — "every carried per-atom property with its shape": the loaded property has exactly the shape of its
  `prop_info` entry (degenerate shapes `(1,)`, `(1,1)`, `(1,3)`, `(3,1)`, … included: nothing is squeezed), and
  `reshape` / `flatten` are inverse to each other on every shape.
-/
import Proofs.C08_Lemmas
namespace Atomman.C08
open Atomman Atomman.C07
set_option linter.unusedSimpArgs false
set_option linter.unusedVariables false

/-! ### `Except` plumbing -/

theorem bind_ok {α β : Type} (x : Res α) (f : α → Res β) (b : β) (h : (x >>= f) = .ok b) :
    ∃ a, x = .ok a ∧ f a = .ok b := by
  cases x with
  | error e => cases h
  | ok a => exact ⟨a, rfl, h⟩

/-! ### `reshape` and `flatten` -/

theorem chunks_length {α : Type} (k n : Nat) (l : List α) : (chunks k n l).length = n := by
  induction n generalizing l with
  | zero => rfl
  | succ n ih => simp [chunks, ih]

mutual
theorem flatten_length : ∀ (t : Tensor) (shape : List Nat), t.hasShape shape = true → t.flatten.length = shapeProd shape
  | .scalar q, [], _ => rfl
  | .scalar q, _ :: _, h => by simp [Tensor.hasShape] at h
  | .array l, [], h => by simp [Tensor.hasShape] at h
  | .array l, d :: ds, h => by
    simp only [Tensor.hasShape, Bool.and_eq_true, decide_eq_true_eq] at h
    rw [Tensor.flatten, flattenList_length l ds h.2, h.1, shapeProd_cons]
theorem flattenList_length : ∀ (l : List Tensor) (ds : List Nat), Tensor.allShape l ds = true →
    (Tensor.flattenList l).length = l.length * shapeProd ds
  | [], _, _ => by simp [Tensor.flattenList]
  | t :: ts, ds, h => by
    simp only [Tensor.allShape, Bool.and_eq_true] at h
    rw [Tensor.flattenList, List.length_append, flatten_length t ds h.1, flattenList_length ts ds h.2, List.length_cons,
      Nat.succ_mul, Nat.add_comm]
end

mutual
/-- **reshape ∘ flatten = id**: the cells written for a value of shape `shape` (row-major) reshape to that value. -/
theorem reshape_flatten : ∀ (t : Tensor) (shape : List Nat), t.hasShape shape = true → reshape shape t.flatten = some t
  | .scalar q, [], _ => rfl
  | .scalar q, _ :: _, h => by simp [Tensor.hasShape] at h
  | .array l, [], h => by simp [Tensor.hasShape] at h
  | .array l, d :: ds, h => by
    simp only [Tensor.hasShape, Bool.and_eq_true, decide_eq_true_eq] at h
    have hl := flattenList_length l ds h.2
    rw [Tensor.flatten, reshape, if_pos (by rw [hl, h.1]), ← h.1, chunks_flattenList l ds h.2]
    rfl
theorem chunks_flattenList : ∀ (l : List Tensor) (ds : List Nat), Tensor.allShape l ds = true →
    (chunks (shapeProd ds) l.length (Tensor.flattenList l)).mapM (reshape ds) = some l
  | [], _, _ => rfl
  | t :: ts, ds, h => by
    simp only [Tensor.allShape, Bool.and_eq_true] at h
    have ht := flatten_length t ds h.1
    have e1 : (t.flatten ++ Tensor.flattenList ts).take (shapeProd ds) = t.flatten := by
      rw [← ht]; simp
    have e2 : (t.flatten ++ Tensor.flattenList ts).drop (shapeProd ds) = Tensor.flattenList ts := by
      rw [← ht]; simp
    simp only [Tensor.flattenList, List.length_cons, chunks, e1, e2, List.mapM_cons, reshape_flatten t ds h.1,
      chunks_flattenList ts ds h.2]
    rfl
end

/-- what `mapM (reshape ds)` over the consecutive chunks of `l` returns: `n` tensors of shape `ds` whose
    flattenings concatenate to the first `n · ∏ds` cells. -/
theorem mapM_reshape_chunks (ds : List Nat)
    (ih : ∀ (l : List Rat) (t : Tensor), reshape ds l = some t → t.hasShape ds = true ∧ t.flatten = l) :
    ∀ (n : Nat) (l : List Rat) (ts : List Tensor), l.length = n * shapeProd ds →
      (chunks (shapeProd ds) n l).mapM (reshape ds) = some ts →
      ts.length = n ∧ Tensor.allShape ts ds = true ∧ Tensor.flattenList ts = l := by
  intro n
  induction n with
  | zero =>
    intro l ts hl h
    simp only [chunks, List.mapM_nil] at h
    have : ts = [] := by cases h; rfl
    subst this
    have : l = [] := List.eq_nil_of_length_eq_zero (by simpa using hl)
    subst this
    exact ⟨rfl, rfl, rfl⟩
  | succ n ihn =>
    intro l ts hl h
    simp only [chunks, List.mapM_cons] at h
    cases h1 : reshape ds (l.take (shapeProd ds)) with
    | none => rw [h1] at h; cases h
    | some t =>
      rw [h1] at h
      cases h2 : (chunks (shapeProd ds) n (l.drop (shapeProd ds))).mapM (reshape ds) with
      | none => rw [h2] at h; cases h
      | some ts' =>
        rw [h2] at h
        have : ts = t :: ts' := by cases h; rfl
        subst this
        obtain ⟨ht1, ht2⟩ := ih _ t h1
        have hd : (l.drop (shapeProd ds)).length = n * shapeProd ds := by
          rw [List.length_drop, hl, Nat.succ_mul]; omega
        obtain ⟨r1, r2, r3⟩ := ihn _ ts' hd h2
        refine ⟨by simp [r1], by simp [Tensor.allShape, ht1, r2], ?_⟩
        rw [Tensor.flattenList, ht2, r3, List.take_append_drop]

/-- **flatten ∘ reshape = id, and the result has the requested shape**: whatever `reshape shape cells` returns
    has *exactly* the shape `shape` (a one-column property of shape `(1,)` is an array holding one scalar, not that
    scalar) and flattens back to the cells. -/
theorem reshape_hasShape_flatten : ∀ (shape : List Nat) (l : List Rat) (t : Tensor),
    reshape shape l = some t → t.hasShape shape = true ∧ t.flatten = l := by
  intro shape
  induction shape with
  | nil =>
    intro l t h
    match l, h with
    | [q], h => cases h; exact ⟨rfl, rfl⟩
  | cons d ds ih =>
    intro l t h
    rw [reshape] at h
    split at h
    · rename_i hl
      cases h2 : (chunks (shapeProd ds) d l).mapM (reshape ds) with
      | none => rw [h2] at h; cases h
      | some ts =>
        rw [h2] at h
        have : t = .array ts := by cases h; rfl
        subst this
        obtain ⟨r1, r2, r3⟩ := mapM_reshape_chunks ds ih d l ts hl h2
        exact ⟨by simp [Tensor.hasShape, r1, r2], by rw [Tensor.flatten, r3]⟩
    · cases h

/-- `reshape` succeeds exactly on `∏ shape` cells. -/
theorem reshape_isSome_iff (shape : List Nat) (l : List Rat) : (reshape shape l).isSome ↔ l.length = shapeProd shape := by
  constructor
  · intro h
    obtain ⟨t, ht⟩ := Option.isSome_iff_exists.mp h
    obtain ⟨h1, h2⟩ := reshape_hasShape_flatten shape l t ht
    rw [← h2]; exact flatten_length t shape h1
  · intro h
    induction shape generalizing l with
    | nil =>
      match l, h with
      | [q], _ => rfl
    | cons d ds ih =>
      rw [reshape, if_pos (by rw [h, shapeProd_cons])]
      have : ∀ (n : Nat) (l : List Rat), l.length = n * shapeProd ds →
          ((chunks (shapeProd ds) n l).mapM (reshape ds)).isSome := by
        intro n
        induction n with
        | zero => intro l _; rfl
        | succ n ihn =>
          intro l hl
          have h1 := ih (l.take (shapeProd ds)) (by rw [List.length_take, hl, Nat.succ_mul]; omega)
          have h2 := ihn (l.drop (shapeProd ds)) (by rw [List.length_drop, hl, Nat.succ_mul]; omega)
          obtain ⟨a, ha⟩ := Option.isSome_iff_exists.mp h1
          obtain ⟨b, hb⟩ := Option.isSome_iff_exists.mp h2
          simp [chunks, List.mapM_cons, ha, hb]
      obtain ⟨ts, hts⟩ := Option.isSome_iff_exists.mp (this d l (by rw [h, shapeProd_cons]))
      simp [hts]

/-- a tensor without empty axes has one shape only: `()`, `(1,)`, `(1,1)` … are told apart by the value itself. -/
theorem hasShape_unique : ∀ (t : Tensor) (s₁ s₂ : List Nat), t.hasShape s₁ = true → t.hasShape s₂ = true →
    (∀ d ∈ s₁, d ≠ 0) → s₁ = s₂
  | .scalar q, [], [], _, _, _ => rfl
  | .scalar q, [], _ :: _, _, h, _ => by simp [Tensor.hasShape] at h
  | .scalar q, _ :: _, _, h, _, _ => by simp [Tensor.hasShape] at h
  | .array l, [], _, h, _, _ => by simp [Tensor.hasShape] at h
  | .array l, _ :: _, [], _, h, _ => by simp [Tensor.hasShape] at h
  | .array [], d₁ :: ds₁, d₂ :: ds₂, h1, _, hn => by
    simp only [Tensor.hasShape, Bool.and_eq_true, decide_eq_true_eq, List.length_nil] at h1
    exact absurd h1.1.symm (hn d₁ (by simp))
  | .array (t :: ts), d₁ :: ds₁, d₂ :: ds₂, h1, h2, hn => by
    simp only [Tensor.hasShape, Tensor.allShape, Bool.and_eq_true, decide_eq_true_eq] at h1 h2
    have := hasShape_unique t ds₁ ds₂ h1.2.1 h2.2.1 (fun d hd => hn d (by simp [hd]))
    rw [this, ← h1.1, ← h2.1]

/-! ### the loaded property keeps the shape of its `prop_info` entry -/

/-- the value array built for one `prop_info` entry carries that entry's name and shape — for every shape, the
    one-column shapes `()`, `(1,)`, `(1,1)`, `(1,1,1)` included — and one row of `∏ shape` cells … per table row. -/
theorem propOfColumn_shape (box : Box Rat) (c : PCol) (cells : List (List Val)) (p : LProp)
    (h : propOfColumn box c cells = .ok p) :
    p.name = c.prop ∧ p.shape = c.shape ∧ shapeProd c.shape = c.names.length ∧ p.vals.length = cells.length := by
  unfold propOfColumn at h
  split at h
  · simp [throw, throwThe, MonadExceptOf.throw] at h
  · rename_i h1
    split at h
    · simp [throw, throwThe, MonadExceptOf.throw] at h
    · split at h
      · simp [throw, throwThe, MonadExceptOf.throw] at h
      · obtain ⟨vals, hm, h⟩ := bind_ok _ _ _ h
        have hp : p = _ := (Except.ok.inj h).symm
        subst hp
        have hlen : vals.length = cells.length := ((mapM_ok_iff (convertCells box c.unit) cells vals).mp hm).length_eq.symm
        exact ⟨rfl, rfl, by simpa using h1, hlen⟩

theorem find_setProp_self (p : LProp) (l : List LProp) : (setProp p l).find? (·.name = p.name) = some p := by
  induction l with
  | nil => simp [setProp]
  | cons q qs ih =>
    unfold setProp
    by_cases h : q.name = p.name
    · simp [h]
    · simp [h, ih]

theorem find_setProp_other (p : LProp) (l : List LProp) (name : String) (h : p.name ≠ name) :
    (setProp p l).find? (·.name = name) = l.find? (·.name = name) := by
  induction l with
  | nil => simp [setProp, h]
  | cons q qs ih =>
    unfold setProp
    by_cases hq : q.name = p.name
    · have : q.name ≠ name := by rw [hq]; exact h
      simp [hq, h, this]
    · by_cases hn : q.name = name
      · rw [if_neg hq]; simp [hn]
      · rw [if_neg hq]; simp [hn, ih]

/-- `atoms.view[name] = value` stores the value under its name with its shape. -/
theorem assignProp_spec (s s' : Loaded) (p : LProp) (h : assignProp s p = .ok s') :
    (∃ q, s'.prop? p.name = some q ∧ q.shape = p.shape ∧ q.name = p.name) ∧
    (∀ name, name ≠ p.name → s'.prop? name = s.prop? name) ∧ s'.natoms = s.natoms := by
  unfold assignProp at h
  obtain ⟨vals, hf, h⟩ := bind_ok _ _ _ h
  split at h
  · simp [throw, throwThe, MonadExceptOf.throw] at h
  · split at h
    · simp [throw, throwThe, MonadExceptOf.throw] at h
    · have hs : s' = _ := (Except.ok.inj h).symm
      subst hs
      refine ⟨⟨{ p with vals := vals, isInt := if p.name = "pos" then false else p.isInt,
                         isBool := if p.name = "pos" then false else p.isBool }, ?_, rfl, rfl⟩, ?_, rfl⟩
      · exact find_setProp_self { p with vals := vals, isInt := if p.name = "pos" then false else p.isInt,
                                         isBool := if p.name = "pos" then false else p.isBool } s.props
      intro name hn
      unfold Loaded.prop?
      exact find_setProp_other _ s.props name (fun e => hn e.symm)

/-- the assignments of `assignCols` touch only the properties named in the column list … -/
theorem assignCols_other (box : Box Rat) : ∀ (cols : List PCol) (cells : List (List (List Val))) (s s' : Loaded),
    assignCols box cols cells s = .ok s' → ∀ name, (∀ c ∈ cols, c.prop ≠ name) → s'.prop? name = s.prop? name
  | [], _, s, s', h, name, _ => by simp [assignCols, pure, Except.pure] at h; rw [h]
  | c :: cs, [], s, s', h, name, _ => by simp [assignCols, pure, Except.pure] at h; rw [h]
  | c :: cs, cells :: rest, s, s', h, name, hn => by
    rw [assignCols] at h
    have hc := hn c (by simp)
    have hcs : ∀ c' ∈ cs, c'.prop ≠ name := fun c' hc' => hn c' (by simp [hc'])
    by_cases ha : c.prop = "a_id"
    · rw [if_pos ha] at h
      exact assignCols_other box cs rest s s' h name hcs
    · rw [if_neg ha] at h
      obtain ⟨p, hp, h1⟩ := bind_ok _ _ _ h
      obtain ⟨s1, hs1, h2⟩ := bind_ok _ _ _ h1
      have e1 := assignCols_other box cs rest s1 s' h2 name hcs
      obtain ⟨hpn, _⟩ := propOfColumn_shape box c cells p hp
      obtain ⟨_, ho, _⟩ := assignProp_spec s s1 p hs1
      rw [e1, ho name (by rw [hpn]; exact fun e => hc e.symm)]

/-- … and every listed property (other than the atom id, which is not stored) ends up in the system with the
    shape of its `prop_info` entry, when no two entries name the same property. -/
theorem assignCols_shape (box : Box Rat) : ∀ (cols : List PCol) (cells : List (List (List Val))) (s s' : Loaded),
    cols.length ≤ cells.length → (cols.map (·.prop)).Nodup → assignCols box cols cells s = .ok s' →
    ∀ c ∈ cols, c.prop ≠ "a_id" →
      ∃ q, s'.prop? c.prop = some q ∧ q.shape = c.shape ∧ shapeProd c.shape = c.names.length
  | [], _, s, s', _, _, _, c, hc, _ => by cases hc
  | c0 :: cs, [], s, s', hl, _, _, c, _, _ => by simp at hl
  | c0 :: cs, cells :: rest, s, s', hl, hnd, h, c, hc, hid => by
    rw [assignCols] at h
    have hnd2 : c0.prop ∉ cs.map (·.prop) ∧ (cs.map (·.prop)).Nodup := List.nodup_cons.mp hnd
    have hnot : ∀ c' ∈ cs, c'.prop ≠ c0.prop := by
      intro c' hc' e
      exact hnd2.1 (by rw [← e]; exact List.mem_map_of_mem hc')
    have hl' : cs.length ≤ rest.length := by simpa using hl
    by_cases ha : c0.prop = "a_id"
    · rw [if_pos ha] at h
      rcases List.mem_cons.mp hc with e | hc2
      · exact absurd (e ▸ ha) hid
      · exact assignCols_shape box cs rest s s' hl' hnd2.2 h c hc2 hid
    · rw [if_neg ha] at h
      obtain ⟨p, hp, h1⟩ := bind_ok _ _ _ h
      obtain ⟨s1, hs1, h2⟩ := bind_ok _ _ _ h1
      rcases List.mem_cons.mp hc with e | hc2
      · obtain ⟨hpn, hps, hpl, _⟩ := propOfColumn_shape box c0 cells p hp
        obtain ⟨⟨q, hq1, hq2, _⟩, _, _⟩ := assignProp_spec s s1 p hs1
        rw [e, assignCols_other box cs rest s1 s' h2 c0.prop hnot, ← hpn]
        exact ⟨q, hq1, by rw [hq2, hps], hpl⟩
      · exact assignCols_shape box cs rest s1 s' hl' hnd2.2 h2 c hc2 hid

theorem columnCells_length (cols : List PCol) (tbl : List (List Val)) : (columnCells cols tbl).length = cols.length := by
  simp [columnCells]

/-- the table reader: every property of the `prop_info` list comes back with the shape of its entry. -/
theorem tableLoad_shape (s s' : Loaded) (rows : List Line) (cols : List PCol) (usecols : Bool)
    (hnd : (cols.map (·.prop)).Nodup) (h : tableLoad s rows cols usecols = .ok s') :
    ∀ c ∈ cols, c.prop ≠ "a_id" →
      ∃ q, s'.prop? c.prop = some q ∧ q.shape = c.shape ∧ shapeProd c.shape = c.names.length := by
  unfold tableLoad at h
  obtain ⟨tbl, _, h1⟩ := bind_ok _ _ _ h
  exact assignCols_shape s.box cols _ s s' (by rw [columnCells_length]) hnd h1

/-! ### … and the printed values (columns without conversion, or with a unit factor) -/

theorem fitRows_eq (n : Nat) (vals : List (List Rat)) (h : vals.length = n) : fitRows n vals = .ok vals := by
  unfold fitRows
  rw [if_pos h]
  rfl

theorem mapM_pure_map {α β : Type} (g : α → β) (l : List α) :
    l.mapM (fun a => (pure (g a) : Res β)) = .ok (l.map g) := by
  induction l with
  | nil => rfl
  | cons a as ih => rw [List.mapM_cons, ih]; rfl

theorem assignProp_vals (s s' : Loaded) (p : LProp) (h : assignProp s p = .ok s') (hl : p.vals.length = s.natoms) :
    ∃ q, s'.prop? p.name = some q ∧ q.shape = p.shape ∧ q.vals = p.vals := by
  unfold assignProp at h
  rw [fitRows_eq _ _ hl] at h
  obtain ⟨vals, hf, h⟩ := bind_ok _ _ _ h
  have hv : vals = p.vals := (Except.ok.inj hf).symm
  subst hv
  split at h
  · simp [throw, throwThe, MonadExceptOf.throw] at h
  · split at h
    · simp [throw, throwThe, MonadExceptOf.throw] at h
    · have hs : s' = _ := (Except.ok.inj h).symm
      subst hs
      refine ⟨{ p with vals := p.vals, isInt := if p.name = "pos" then false else p.isInt,
                       isBool := if p.name = "pos" then false else p.isBool }, ?_, rfl, rfl⟩
      exact find_setProp_self { p with vals := p.vals, isInt := if p.name = "pos" then false else p.isInt,
                                       isBool := if p.name = "pos" then false else p.isBool } s.props

/-- the values of the array built for one `prop_info` entry: the cells as they stand (`unit = None`), or each
    times the unit factor. -/
theorem propOfColumn_vals (box : Box Rat) (c : PCol) (cells : List (List Val)) (p : LProp)
    (h : propOfColumn box c cells = .ok p) :
    (c.unit = .none → p.vals = cells.map (·.map Val.toRat)) ∧
    (∀ f, c.unit = .factor f → p.vals = cells.map (·.map fun v => v.toRat * f)) := by
  unfold propOfColumn at h
  split at h
  · simp [throw, throwThe, MonadExceptOf.throw] at h
  · split at h
    · simp [throw, throwThe, MonadExceptOf.throw] at h
    · split at h
      · simp [throw, throwThe, MonadExceptOf.throw] at h
      · obtain ⟨vals, hm, h⟩ := bind_ok _ _ _ h
        have hp : p = _ := (Except.ok.inj h).symm
        subst hp
        constructor
        · intro hu
          rw [hu] at hm
          have : (fun cs : List Val => convertCells box .none cs) = fun cs => (pure (cs.map Val.toRat) : Res _) := rfl
          rw [show convertCells box .none = fun cs => (pure (cs.map Val.toRat) : Res _) from rfl, mapM_pure_map] at hm
          exact (Except.ok.inj hm).symm
        · intro f hu
          rw [hu] at hm
          rw [show convertCells box (.factor f) = fun cs => (pure (cs.map fun v => v.toRat * f) : Res _) from rfl,
            mapM_pure_map] at hm
          exact (Except.ok.inj hm).symm

theorem assignCols_natoms (box : Box Rat) : ∀ (cols : List PCol) (cells : List (List (List Val))) (s s' : Loaded),
    assignCols box cols cells s = .ok s' → s'.natoms = s.natoms
  | [], _, s, s', h => by simp [assignCols, pure, Except.pure] at h; rw [h]
  | c :: cs, [], s, s', h => by simp [assignCols, pure, Except.pure] at h; rw [h]
  | c :: cs, cells :: rest, s, s', h => by
    rw [assignCols] at h
    by_cases ha : c.prop = "a_id"
    · rw [if_pos ha] at h
      exact assignCols_natoms box cs rest s s' h
    · rw [if_neg ha] at h
      obtain ⟨p, hp, h1⟩ := bind_ok _ _ _ h
      obtain ⟨s1, hs1, h2⟩ := bind_ok _ _ _ h1
      rw [assignCols_natoms box cs rest s1 s' h2, (assignProp_spec s s1 p hs1).2.2]

/-- every listed property holds, per atom, the cells of its column group (times the unit factor, if it has one). -/
theorem assignCols_vals (box : Box Rat) : ∀ (cols : List PCol) (cellsL : List (List (List Val))) (s s' : Loaded),
    (cols.map (·.prop)).Nodup → assignCols box cols cellsL s = .ok s' →
    ∀ (j : Nat) (hj : j < cols.length) (hj' : j < cellsL.length), cols[j].prop ≠ "a_id" → cellsL[j].length = s.natoms →
      ∃ q, s'.prop? cols[j].prop = some q ∧ q.shape = cols[j].shape ∧
        (cols[j].unit = .none → q.vals = cellsL[j].map (·.map Val.toRat)) ∧
        (∀ f, cols[j].unit = .factor f → q.vals = cellsL[j].map (·.map fun v => v.toRat * f))
  | [], _, s, s', _, _, j, hj, _, _, _ => by simp at hj
  | c0 :: cs, [], s, s', _, _, j, _, hj', _, _ => by simp at hj'
  | c0 :: cs, cells :: rest, s, s', hnd, h, j, hj, hj', hid, hlen => by
    rw [assignCols] at h
    have hnd2 : c0.prop ∉ cs.map (·.prop) ∧ (cs.map (·.prop)).Nodup := List.nodup_cons.mp hnd
    have hnot : ∀ c' ∈ cs, c'.prop ≠ c0.prop := by
      intro c' hc' e
      exact hnd2.1 (by rw [← e]; exact List.mem_map_of_mem hc')
    by_cases ha : c0.prop = "a_id"
    · rw [if_pos ha] at h
      cases j with
      | zero => exact absurd ha hid
      | succ j =>
        exact assignCols_vals box cs rest s s' hnd2.2 h j (by simpa using hj) (by simpa using hj') hid hlen
    · rw [if_neg ha] at h
      obtain ⟨p, hp, h1⟩ := bind_ok _ _ _ h
      obtain ⟨s1, hs1, h2⟩ := bind_ok _ _ _ h1
      cases j with
      | zero =>
        obtain ⟨hpn, hps, _, hpl⟩ := propOfColumn_shape box c0 cells p hp
        obtain ⟨hv1, hv2⟩ := propOfColumn_vals box c0 cells p hp
        have hlen0 : cells.length = s.natoms := hlen
        obtain ⟨q, hq1, hq2, hq3⟩ := assignProp_vals s s1 p hs1 (by rw [hpl, hlen0])
        refine ⟨q, ?_, by rw [hq2, hps]; rfl, ?_, ?_⟩
        · show s'.prop? c0.prop = some q
          rw [assignCols_other box cs rest s1 s' h2 c0.prop hnot, ← hpn]
          exact hq1
        · intro hu; rw [hq3]; exact hv1 hu
        · intro f hu; rw [hq3]; exact hv2 f hu
      | succ j =>
        have hn1 : s1.natoms = s.natoms := (assignProp_spec s s1 p hs1).2.2
        exact assignCols_vals box cs rest s1 s' hnd2.2 h2 j (by simpa using hj) (by simpa using hj') hid
          (by rw [hn1]; exact hlen)

theorem sortRows_length (cols : List PCol) (tbl : List (List Val)) : (sortRows cols tbl).length = tbl.length := by
  unfold sortRows
  cases idIndex cols with
  | none => rfl
  | some i => exact (sortBy_perm _ tbl).length_eq

/-- the cells of column group `j` in one row of the numeric table. -/
def groupCells (cols : List PCol) (j : Nat) (r : List Val) : List Val := ((splitCols cols r)[j]?).getD []

/-- the table reader in closed form, property by property: with one table row per atom, every listed property
    holds — in id order — the cells of its own column group as they stand, or times its unit factor, under the shape
    of its `prop_info` entry. -/
theorem tableLoad_vals (s s' : Loaded) (rows : List Line) (cols : List PCol) (usecols : Bool)
    (hnd : (cols.map (·.prop)).Nodup) (h : tableLoad s rows cols usecols = .ok s') :
    ∃ tbl, readTable rows (colsWidth cols) usecols = .ok tbl ∧
      (tbl.length = s.natoms → ∀ (j : Nat) (hj : j < cols.length), cols[j].prop ≠ "a_id" →
        ∃ q, s'.prop? cols[j].prop = some q ∧ q.shape = cols[j].shape ∧
          (cols[j].unit = .none → q.vals = (sortRows cols tbl).map fun r => (groupCells cols j r).map Val.toRat) ∧
          (∀ f, cols[j].unit = .factor f →
            q.vals = (sortRows cols tbl).map fun r => (groupCells cols j r).map fun v => v.toRat * f)) := by
  unfold tableLoad at h
  obtain ⟨tbl, ht, h1⟩ := bind_ok _ _ _ h
  refine ⟨tbl, ht, ?_⟩
  intro hn j hj hid
  have hjc : j < (columnCells cols (sortRows cols tbl)).length := by rw [columnCells_length]; exact hj
  have hcell : (columnCells cols (sortRows cols tbl))[j] = (sortRows cols tbl).map (groupCells cols j) := by
    simp [columnCells, groupCells]
  obtain ⟨q, hq1, hq2, hq3, hq4⟩ := assignCols_vals s.box cols _ s s' hnd h1 j hj hjc hid
    (by rw [hcell, List.length_map, sortRows_length, hn])
  refine ⟨q, hq1, hq2, ?_, ?_⟩
  · intro hu; rw [hq3 hu, hcell, List.map_map]; rfl
  · intro f hu; rw [hq4 f hu, hcell, List.map_map]; rfl
end Atomman.C08
