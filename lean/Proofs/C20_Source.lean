/-
  C20 — source tie: every definition of `Atomman/Generated/PathSource.lean` (regenerated from
  atomman/mep/BasePath.py, ISMPath.py, __init__.py on every run) is proved equal to the hand model of
  `Atomman/C20.lean`.  A source edit that changes behaviour breaks one of these named obligations.
-/
import Atomman.C20
import Atomman.Generated.PathSource
import Mathlib.Tactic.Ring
import Mathlib.Tactic.FieldSimp
import Mathlib.Tactic.Linarith
import Mathlib.Algebra.Order.Field.Basic
import Mathlib.Algebra.Module.Defs

namespace Atomman.C20
open Atomman.C20.Src
set_option linter.unusedSimpArgs false
set_option linter.unusedSectionVars false

/-! ### construction -/

theorem gen_resolveGradientfxn_eq_model (a : FxnArg) : genResolveGradientfxn a = resolveGradientfxn a := by
  cases a with
  | name s =>
    simp only [genResolveGradientfxn, resolveGradientfxn, gradientNames, List.lookup]
    by_cases h1 : s = "central_difference"
    · subst h1; rfl
    · by_cases h2 : s = "cdiff"
      · subst h2; rfl
      · have e1 : (s == "central_difference") = false := by simpa using h1
        have e2 : (s == "cdiff") = false := by simpa using h2
        simp [h1, h2, e1, e2]
  | callable => rfl
  | other => rfl

theorem gen_resolveIntegratorfxn_eq_model (a : FxnArg) : genResolveIntegratorfxn a = resolveIntegratorfxn a := by
  cases a with
  | name s =>
    simp only [genResolveIntegratorfxn, resolveIntegratorfxn, integratorNames, List.lookup]
    by_cases h1 : s = "rungekutta"
    · subst h1; rfl
    · by_cases h2 : s = "rk"
      · subst h2; rfl
      · by_cases h3 : s = "euler"
        · subst h3; rfl
        · have e1 : (s == "rungekutta") = false := by simpa using h1
          have e2 : (s == "rk") = false := by simpa using h2
          have e3 : (s == "euler") = false := by simpa using h3
          simp [h1, h2, h3, e1, e2, e3]
  | callable => rfl
  | other => rfl

theorem gen_sigInit_eq_model : genSigInit = sigInit := rfl
theorem gen_sigCreatePath_eq_model : genSigCreatePath = sigCreatePath := rfl
theorem gen_sigStep_eq_model : genSigStep = sigStep := rfl
theorem gen_sigRelax_eq_model : genSigRelax = sigRelax := rfl
theorem gen_initOrder_eq_model : genInitOrder = initOrder := rfl
theorem gen_defaults_eq_model :
    genDefaultGradientfxn = defaultGradientfxn ∧ genDefaultIntegratorfxn = defaultIntegratorfxn
    ∧ genDefaultGradientkwargs = defaultGradientkwargs ∧ genDefaultStyle = defaultStyle
    ∧ genCreateGradientfxnDefault = defaultGradientfxn ∧ genCreateIntegratorfxnDefault = defaultIntegratorfxn
    ∧ genCreateGradientkwargsDefault = defaultGradientkwargs := ⟨rfl, rfl, rfl, rfl, rfl, rfl, rfl⟩
theorem gen_stepCarried_eq_model : genStepCarried = carriedFields := rfl
theorem gen_interpCarried_eq_model : genInterpCarried = carriedFields := rfl
theorem gen_stepSegmentPins_eq_model : genStepSegmentPins = stepSegmentPins := rfl

theorem gen_initPath_eq_model (a : CtorArgs) : genInitPath a = initPath a := by
  simp only [genInitPath, initPath, gen_resolveGradientfxn_eq_model, gen_resolveIntegratorfxn_eq_model,
    gen_defaults_eq_model.1, gen_defaults_eq_model.2.1, gen_defaults_eq_model.2.2.1]
  rfl

theorem gen_createPath_eq_model (a : CtorArgs) : genCreatePath a = createPath a := by
  simp only [genCreatePath, createPath, gen_initPath_eq_model, gen_defaults_eq_model.2.2.2.1, styleNames]
  by_cases h1 : a.style.getD defaultStyle = "ISM"
  · simp [h1]
  · by_cases h2 : a.style.getD defaultStyle = "improved_string_method"
    · simp [h2]
    · simp [h1, h2]

/-! ### defaults of the time step and the tolerance -/
section defaults
variable {K : Type} [Field K] [LinearOrder K] [IsStrictOrderedRing K]

theorem gen_defaultTimestep_eq_model (n : Nat) : genDefaultTimestep (K := K) n = Path.defaultTimestep n := by
  simp only [genDefaultTimestep, Path.defaultTimestep]

theorem gen_defaultTolerance_eq_model (n : Nat) : genDefaultTolerance (K := K) n = Path.defaultTolerance n := by
  simp only [genDefaultTolerance, Path.defaultTolerance, Nat.cast_mul]

end defaults

/-! ### the loops of `relax` -/
section loops

theorem genLoop_eq_relaxLoop {P L : Type} [LT L] [DecidableLT L] (body : P → P × L × Bool) (step : P → P)
    (measure : P → P → L) (tol : L)
    (hb : ∀ p, body p = (step p, measure p (step p), decide (measure p (step p) < tol))) (n : Nat) (p : P) :
    genLoop body n p = relaxLoop step measure tol n p := by
  induction n generalizing p with
  | zero => rfl
  | succ n ih => simp only [genLoop, relaxLoop, hb, ih, decide_eq_true_eq]

variable {K V : Type} [Field K] [LinearOrder K] [IsStrictOrderedRing K] [AddCommGroup V] [Module K V]
variable (dot : V → V → K) (sqrt : K → K)

/-- the measure as the source writes it (`norm(new - old, axis=-1).max() / timestep`) is the model's `displacement`. -/
theorem gen_measure_eq_model (h : K) (old new : List V) :
    Np.maxOf (Np.rowNorms dot sqrt (Np.ew (fun a b => a - b) new old)) / h = Path.displacement dot sqrt h old new := by
  simp only [Np.maxOf, Np.rowNorms, Np.ew, Path.displacement, List.map_zipWith]
  rw [List.zipWith_comm]

theorem gen_loopBody1_eq_model (respace : List Nat → List V → List V) (h tol : K) (p : Path V K) :
    genLoopBody1 dot sqrt respace h tol p
      = (p.stringStep dot sqrt respace h [], Path.measure dot sqrt h p (p.stringStep dot sqrt respace h []),
         decide (Path.measure dot sqrt h p (p.stringStep dot sqrt respace h []) < tol)) := by
  simp only [genLoopBody1, Path.measure, gen_measure_eq_model]
  rfl

theorem gen_loopBody2_eq_model (respace : List Nat → List V → List V) (h tol : K) (climb : List Nat) (p : Path V K) :
    genLoopBody2 dot sqrt respace h tol climb p
      = (p.stringStep dot sqrt respace h climb, Path.measure dot sqrt h p (p.stringStep dot sqrt respace h climb),
         decide (Path.measure dot sqrt h p (p.stringStep dot sqrt respace h climb) < tol)) := by
  simp only [genLoopBody2, Path.measure, gen_measure_eq_model]
  rfl

end loops

/-! ### the choice of the climbing images: `maxmap`, `np.arange(len(maxmap))[maxmap]`, `[:climbpoints]` -/
section maxmap
variable {L : Type} [LT L] [DecidableLT L]

/-- the flags of the interior images, one per consecutive triple. -/
def mask3 : List L → List Bool
  | a :: b :: c :: t => decide (a < b ∧ ¬ b < c) :: mask3 (b :: c :: t)
  | _ => []

/-- the interior part of `maxmap` as the source writes it. -/
def innerMask (E : List L) : List Bool :=
  Np.ew and (Np.ew (fun a b => decide (b < a)) (List.drop 1 (List.dropLast E)) (List.dropLast (List.dropLast E)))
    (Np.ew (fun a b => decide (¬ a < b)) (List.drop 1 (List.dropLast E)) (List.drop 2 E))

theorem innerMask_eq_mask3 : ∀ E : List L, innerMask E = mask3 E
  | [] => rfl
  | [_] => rfl
  | [_, _] => rfl
  | a :: b :: c :: t => by
    have ih := innerMask_eq_mask3 (b :: c :: t)
    simp only [innerMask, Np.ew, mask3, List.dropLast_cons_cons, List.drop_succ_cons, List.drop_zero,
      List.zipWith_cons_cons, Bool.decide_and] at ih ⊢
    rw [ih]

theorem whereTrue_cons (b : Bool) (m : List Bool) :
    Np.whereTrue (b :: m) = (if b then [0] else []) ++ (Np.whereTrue m).map (· + 1) := by
  simp only [Np.whereTrue, List.length_cons, List.range_succ_eq_map, List.filter_cons, List.getD_cons_zero,
    List.filter_map]
  have : ((fun i => (b :: m).getD i false) ∘ Nat.succ) = fun i => m.getD i false := by
    funext i; simp
  rw [this]
  cases b <;> simp

theorem whereTrue_append_false (m : List Bool) : Np.whereTrue (m ++ [false]) = Np.whereTrue m := by
  induction m with
  | nil => rfl
  | cons b m ih => rw [List.cons_append, whereTrue_cons, whereTrue_cons, ih]

theorem localMaxima_eq_whereTrue (k : Nat) (E : List L) :
    localMaxima k E = (Np.whereTrue (mask3 E)).map (· + (k + 1)) := by
  induction E generalizing k with
  | nil => rfl
  | cons a t ih =>
    match t, ih with
    | [], _ => rfl
    | [_], _ => rfl
    | b :: c :: t', ih =>
      have ih' := ih (k + 1)
      simp only [localMaxima, mask3, whereTrue_cons, List.map_append, List.map_map]
      rw [ih']
      have hf : ((fun x => x + (k + 1)) ∘ fun x => x + 1) = fun x => x + (k + 1 + 1) := by
        funext x; simp only [Function.comp]; omega
      rw [hf]
      by_cases hc : a < b ∧ ¬ b < c
      · simp [hc]
      · simp [hc]

theorem countTrue_eq_length (m : List Bool) : Np.countTrue m = (Np.whereTrue m).length := by
  induction m with
  | nil => rfl
  | cons b m ih =>
    rw [whereTrue_cons]
    simp only [Np.countTrue] at ih ⊢
    cases b <;> simp [List.count_cons, ih]

/-- **the generated choice of the climbing images is the model's `climbIndices`.** -/
theorem gen_climbindex_eq_model (cp : Nat) (E : List L) :
    (if cp < Np.countTrue ([false] ++ innerMask E ++ [false])
      then List.take cp (Np.whereTrue ([false] ++ innerMask E ++ [false]))
      else Np.whereTrue ([false] ++ innerMask E ++ [false])) = climbIndices cp E := by
  have hw : Np.whereTrue ([false] ++ innerMask E ++ [false]) = localMaxima 0 E := by
    rw [whereTrue_append_false, List.singleton_append, whereTrue_cons, innerMask_eq_mask3, localMaxima_eq_whereTrue]
    simp
  rw [countTrue_eq_length, hw, climbIndices]
  split
  · rfl
  · rw [List.take_of_length_le (by omega)]

end maxmap

/-! ### `unittangent` -/
section tangent
variable {K V : Type} [Field K] [LinearOrder K] [IsStrictOrderedRing K] [AddCommGroup V] [Module K V]
variable (dot : V → V → K) (sqrt : K → K)

theorem diffs_eq_slices : ∀ c : List V, Path.diffs c = List.zipWith (fun a b => a - b) (c.drop 1) c.dropLast
  | [] => rfl
  | [_] => rfl
  | a :: b :: t => by
    have ih := diffs_eq_slices (b :: t)
    simp only [Path.diffs, List.drop_succ_cons, List.drop_zero, List.dropLast_cons_cons, List.zipWith_cons_cons] at ih ⊢
    rw [ih]

theorem tangentGo_eq_slices (prev : V) (us : List V) :
    Path.tangentGo prev us = List.zipWith (fun a b => a + b) (prev :: us).dropLast us ++ ((prev :: us).getLast?).toList := by
  induction us generalizing prev with
  | nil => rfl
  | cons u t ih =>
    simp only [Path.tangentGo, ih, List.dropLast_cons_cons, List.zipWith_cons_cons, List.getLast?_cons_cons, List.cons_append]

theorem rawTangent_eq_slices (u : List V) :
    Path.rawTangent u = u.head?.toList ++ List.zipWith (fun a b => a + b) u.dropLast (u.drop 1) ++ u.getLast?.toList := by
  cases u with
  | nil => rfl
  | cons u0 us =>
    simp only [Path.rawTangent, tangentGo_eq_slices, List.head?_cons, Option.toList_some, List.drop_succ_cons,
      List.drop_zero, List.singleton_append, List.cons_append, List.nil_append]

/-- **the generated `unittangent` is the model's**, for every string. -/
theorem gen_unitTangent_eq_model (p : Path V K) : genUnitTangent dot sqrt p = p.unitTangent dot sqrt := by
  simp only [genUnitTangent, Path.unitTangent, Path.unitTangentOf, Np.ew, Np.rowUnit, rawTangent_eq_slices,
    diffs_eq_slices]

end tangent

/-! ### reads: `energy`, `grad_energy`, `force`, `arccoord`, the range check of `interpolate_path` -/
section reads
variable {K V : Type} [Field K] [LinearOrder K] [IsStrictOrderedRing K] [AddCommGroup V] [Module K V]
variable (dot : V → V → K) (sqrt : K → K)

theorem gen_energy_eq_model (p : Path V K) (c : List V) :
    genEnergy p none = p.energy ∧ genEnergy p (some c) = p.energyAt c := ⟨rfl, rfl⟩

theorem gen_gradEnergy_eq_model (p : Path V K) (c : List V) :
    genGradEnergy p none = p.gradEnergy ∧ genGradEnergy p (some c) = p.gradAt c := ⟨rfl, rfl⟩

theorem gen_force_eq_model (p : Path V K) : genForce dot sqrt p = p.force dot sqrt := by
  simp only [genForce, Path.force, Np.ew, gen_unitTangent_eq_model, (gen_gradEnergy_eq_model p []).1]

theorem gen_interpRefuses_eq_model (α t : List K) : genInterpRefuses α t = interpRefuses α t := rfl

theorem cumsum_eq_prefix_sums (acc : K) (l : List K) :
    Path.cumsum acc l = (List.range (l.length + 1)).map (fun i => acc + (List.take i l).sum) := by
  induction l generalizing acc with
  | nil => simp [Path.cumsum]
  | cons x t ih =>
    rw [Path.cumsum, ih, List.length_cons, List.range_succ_eq_map (n := t.length + 1), List.map_cons, List.map_map]
    simp only [List.take_zero, List.sum_nil, add_zero, List.cons.injEq, true_and]
    apply List.map_congr_left
    intro i _
    simp only [Function.comp, List.take_succ_cons, List.sum_cons, add_assoc]

theorem sumOf_eq_sum (l : List K) : Np.sumOf l = l.sum := by
  simp only [Np.sumOf, Nat.cast_zero]
  rw [List.sum_eq_foldl]

/-- **the generated `arccoord` is the model's** for every string with at least one image. -/
theorem gen_arccoord_eq_model (p : Path V K) (hc : p.coord ≠ []) : genArccoord dot sqrt p = p.arccoord dot sqrt := by
  have hd : (Path.diffs p.coord).length + 1 = p.coord.length := by
    cases hp : p.coord with
    | nil => exact absurd hp hc
    | cons a t =>
      have : ∀ (a : V) (t : List V), (Path.diffs (a :: t)).length = t.length := by
        intro a t
        induction t generalizing a with
        | nil => rfl
        | cons b t ih => simp [Path.diffs, ih]
      simp [this]
  have h1 : (List.replicate p.coord.length (0 : K)).take 1 = [0] := by
    rw [← hd]; simp [List.replicate_succ]
  simp only [genArccoord, Path.arccoord, Path.arccoordOf, Np.rowNorms, Np.ew, ← diffs_eq_slices, h1, sumOf_eq_sum,
    cumsum_eq_prefix_sums, List.length_map, hd, Nat.cast_zero, zero_add, List.singleton_append, List.take_succ_cons,
    List.sum_cons]

end reads

/-! ### `relax` as a whole -/
section relax
variable {K V : Type} [Field K] [LinearOrder K] [IsStrictOrderedRing K] [AddCommGroup V] [Module K V]
variable (dot : V → V → K) (sqrt : K → K)

/-- **the generated `relax` (defaults, first loop, choice of the climbing images, second loop) is the model's.** -/
theorem gen_relax_eq_model (p : Path V K) (respace : List Nat → List V → List V) (a : RelaxArgs K) :
    genRelax p dot sqrt respace a.relaxsteps a.climbsteps a.timestep a.tolerance a.climbpoints
      = p.relax dot sqrt respace a := by
  simp only [genRelax, Path.relax, gen_defaultTimestep_eq_model, gen_defaultTolerance_eq_model]
  have h1 := fun h tol => genLoop_eq_relaxLoop (genLoopBody1 dot sqrt respace h tol)
    (fun q : Path V K => q.stringStep dot sqrt respace h []) (Path.measure dot sqrt h) tol
    (gen_loopBody1_eq_model dot sqrt respace h tol)
  have h2 := fun h tol climb => genLoop_eq_relaxLoop (genLoopBody2 dot sqrt respace h tol climb)
    (fun q : Path V K => q.stringStep dot sqrt respace h climb) (Path.measure dot sqrt h) tol
    (gen_loopBody2_eq_model dot sqrt respace h tol climb)
  simp only [h1, h2]
  have hc := fun E : List K => gen_climbindex_eq_model a.climbpoints E
  unfold innerMask at hc
  rw [hc]

end relax

end Atomman.C20
