/-
  C14: the three facts about C04's supercell model that `surface_same_crystal` uses, proved here from the stable helper
  file `Proofs/C04_Lemmas.lean` only.  (`Proofs/C04.lean` states the same facts; importing it would make every C14
  build depend on C04's regenerated source tie, which is rewritten while C04's owner tests mutations.)
-/
import Proofs.C04_Lemmas

namespace Atomman.C14
open Atomman
variable {K : Type} [Field K]

theorem c04_supersize_length (b : Box K) (sa sb sc : C04.Size) (atoms : List (C04.Atom K)) :
    (C04.supersizeAtoms b sa sb sc atoms).length
      = sc.mult.toNat * (sb.mult.toNat * (sa.mult.toNat * atoms.length)) := by
  unfold C04.supersizeAtoms
  apply C04.length_flatMap_range_const; intro r2
  apply C04.length_flatMap_range_const; intro r1
  apply C04.length_flatMap_range_const; intro r0
  simp

theorem c04_replicaPos_eq (b : Box K) (sa sb sc : C04.Size) (p : V3 K) (r0 r1 r2 : Nat)
    (hdet : M3.det b.vects ≠ 0)
    (ha : ((sa.mult : Int) : K) ≠ 0) (hb : ((sb.mult : Int) : K) ≠ 0) (hc : ((sc.mult : Int) : K) ≠ 0) :
    C04.replicaPos b sa sb sc p r0 r1 r2
      = p + M3.vecMul ⟨(((r0 : Int) + sa.lo : Int) : K), (((r1 : Int) + sb.lo : Int) : K),
                        (((r2 : Int) + sc.lo : Int) : K)⟩ b.vects :=
  C04.replicaPos_eq_aux b sa sb sc p r0 r1 r2 hdet ha hb hc

theorem c04_superBox_volume (b : Box K) (sa sb sc : C04.Size) :
    M3.det (C04.superBox b sa sb sc).vects
      = ((sa.mult : Int) : K) * ((sb.mult : Int) : K) * ((sc.mult : Int) : K) * M3.det b.vects := by
  simp only [C04.superBox, M3.det, V3.dot, V3.cross, V3.smul]; ring

end Atomman.C14
