/-
  C13 helper lemmas: list bookkeeping (supersize indexing, setPos, gather, keepIds), the search folds of
  `__set_cells`, gcd reduction, handedness identities, mid-plane shifts, region predicates.
  The few facts about `supersize` needed here are re-proved locally (same statements as Proofs/C04.lean) so that
  this file only depends on the models and on Proofs/C05_Lemmas.lean.
-/
import Atomman.C13
import Proofs.C05_Lemmas
import Mathlib.Tactic.Ring
import Mathlib.Tactic.Linarith
import Mathlib.Tactic.FieldSimp
import Mathlib.Tactic.LinearCombination
import Mathlib.Tactic.Positivity

namespace Atomman.C13
open Atomman
set_option linter.unusedSectionVars false
set_option linter.unusedSimpArgs false
set_option linter.unusedVariables false

variable {K : Type} [Field K] [LinearOrder K] [IsStrictOrderedRing K]

/-! ### supersize (local copies of the C04 facts) -/

/-- new index of replica `(r0,r1,r2)` of original atom `i` (`N` atoms, multipliers `m0 m1 _`). -/
def encode (N m0 m1 : Nat) (i r0 r1 r2 : Nat) : Nat := ((r2 * m1 + r1) * m0 + r0) * N + i

theorem length_flatMap_range_const {α : Type} (n L : Nat) (f : Nat → List α) (hf : ∀ j, (f j).length = L) :
    ((List.range n).flatMap f).length = n * L := by
  induction n with
  | zero => simp
  | succ n ih =>
    rw [List.range_succ, List.flatMap_append, List.length_append, ih]
    simp [hf, Nat.succ_mul]

theorem getElem?_flatMap_range_const {α : Type} (n L : Nat) (f : Nat → List α) (hf : ∀ j, (f j).length = L)
    (j i : Nat) (hj : j < n) (hi : i < L) :
    ((List.range n).flatMap f)[j * L + i]? = (f j)[i]? := by
  induction n with
  | zero => omega
  | succ n ih =>
    rw [List.range_succ, List.flatMap_append]
    by_cases hjn : j < n
    · rw [List.getElem?_append_left]
      · exact ih hjn
      · rw [length_flatMap_range_const n L f hf]
        calc j * L + i < j * L + L := by omega
          _ = (j + 1) * L := by rw [Nat.succ_mul]
          _ ≤ n * L := Nat.mul_le_mul_right L hjn
    · have hjeq : j = n := by omega
      subst hjeq
      rw [List.getElem?_append_right]
      · rw [length_flatMap_range_const j L f hf]
        simp
      · rw [length_flatMap_range_const j L f hf]; omega

theorem supersize_length (b : Box K) (sa sb sc : C04.Size) (atoms : List (Atom K)) :
    (C04.supersizeAtoms b sa sb sc atoms).length
      = sc.mult.toNat * (sb.mult.toNat * (sa.mult.toNat * atoms.length)) := by
  unfold C04.supersizeAtoms
  apply length_flatMap_range_const; intro r2
  apply length_flatMap_range_const; intro r1
  apply length_flatMap_range_const; intro r0
  simp

theorem supersize_get (b : Box K) (sa sb sc : C04.Size) (atoms : List (Atom K)) (i r0 r1 r2 : Nat)
    (hi : i < atoms.length) (h0 : r0 < sa.mult.toNat) (h1 : r1 < sb.mult.toNat) (h2 : r2 < sc.mult.toNat) :
    (C04.supersizeAtoms b sa sb sc atoms)[encode atoms.length sa.mult.toNat sb.mult.toNat i r0 r1 r2]?
      = some { atoms[i] with pos := C04.replicaPos b sa sb sc atoms[i].pos r0 r1 r2 } := by
  set N := atoms.length
  set m0 := sa.mult.toNat
  set m1 := sb.mult.toNat
  have hidx : encode N m0 m1 i r0 r1 r2 = r2 * (m1 * (m0 * N)) + (r1 * (m0 * N) + (r0 * N + i)) := by
    simp only [encode]; ring
  have hb0 : r0 * N + i < m0 * N := by
    calc r0 * N + i < r0 * N + N := by omega
      _ = (r0 + 1) * N := by ring
      _ ≤ m0 * N := Nat.mul_le_mul_right N h0
  have hb1 : r1 * (m0 * N) + (r0 * N + i) < m1 * (m0 * N) := by
    calc r1 * (m0 * N) + (r0 * N + i) < r1 * (m0 * N) + m0 * N := by omega
      _ = (r1 + 1) * (m0 * N) := by ring
      _ ≤ m1 * (m0 * N) := Nat.mul_le_mul_right _ h1
  rw [hidx]
  unfold C04.supersizeAtoms
  rw [getElem?_flatMap_range_const _ (m1 * (m0 * N)) _ _ r2 _ h2 hb1]
  · rw [getElem?_flatMap_range_const _ (m0 * N) _ _ r1 _ h1 hb0]
    · rw [getElem?_flatMap_range_const _ N _ _ r0 _ h0 hi]
      · simp [List.getElem?_map, List.getElem?_eq_getElem hi]
      · intro j; simp [N]
    · intro j; apply length_flatMap_range_const; intro j'; simp [N]
  · intro j; apply length_flatMap_range_const; intro j'
    apply length_flatMap_range_const; intro j''; simp [N]

theorem superBox_volume (b : Box K) (sa sb sc : C04.Size) :
    M3.det (C04.superBox b sa sb sc).vects
      = ((sa.mult : Int) : K) * ((sb.mult : Int) : K) * ((sc.mult : Int) : K) * M3.det b.vects := by
  simp only [C04.superBox, M3.det, V3.dot, V3.cross, V3.smul]; ring

/-- Cartesian position of a replica: the original position plus the integer lattice vector
    `(r0+lo_a) a + (r1+lo_b) b + (r2+lo_c) c`. -/
theorem replicaPos_eq (b : Box K) (sa sb sc : C04.Size) (p : V3 K) (r0 r1 r2 : Nat)
    (hdet : M3.det b.vects ≠ 0)
    (ha : ((sa.mult : Int) : K) ≠ 0) (hb : ((sb.mult : Int) : K) ≠ 0) (hc : ((sc.mult : Int) : K) ≠ 0) :
    C04.replicaPos b sa sb sc p r0 r1 r2
      = p + C05.latticeVec b.vects ⟨(r0 : Int) + sa.lo, (r1 : Int) + sb.lo, (r2 : Int) + sc.lo⟩ := by
  have hp := C05.relToCart_cartToRel b hdet p
  unfold C04.replicaPos
  generalize b.cartToRel p = s at hp ⊢
  subst hp
  obtain ⟨⟨⟨v00, v01, v02⟩, ⟨v10, v11, v12⟩, ⟨v20, v21, v22⟩⟩, ⟨o0, o1, o2⟩⟩ := b
  obtain ⟨s0, s1, s2⟩ := s
  simp only [C04.superBox, C05.latticeVec, Box.relToCart, M3.vecMul, V3.smul, C05.V3.add_def, Int.cast_add,
    Int.cast_natCast, Int.cast_one, V3.mk.injEq]
  generalize ((sa.mult : Int) : K) = ma at ha ⊢
  generalize ((sb.mult : Int) : K) = mb at hb ⊢
  generalize ((sc.mult : Int) : K) = mc at hc ⊢
  refine ⟨?_, ?_, ?_⟩ <;> field_simp <;> ring

/-! ### positions on lists of atoms, reference system -/

theorem setPos_map_getElem? (atoms : List (Atom K)) (f : V3 K → V3 K) (i : Nat) :
    (setPos atoms ((atoms.map (·.pos)).map f))[i]? = (atoms[i]?).map (fun a => { a with pos := f a.pos }) := by
  unfold setPos
  rw [List.getElem?_zipWith]
  simp only [List.getElem?_map]
  cases atoms[i]? <;> rfl

theorem setPos_length (atoms : List (Atom K)) (ps : List (V3 K)) (h : ps.length = atoms.length) :
    (setPos atoms ps).length = atoms.length := by
  unfold setPos; simp [h]

theorem v3_eq_sub_of_add_eq {a b c : V3 K} (h : a + b = c) : a = c - b := by
  subst h
  obtain ⟨a0, a1, a2⟩ := a
  obtain ⟨b0, b1, b2⟩ := b
  simp only [C05.V3.add_def, C05.V3.sub_def, V3.mk.injEq]
  refine ⟨?_, ?_, ?_⟩ <;> ring

theorem latticeVec_superBox (b : Box K) (sa sb sc : C04.Size) (f : V3 Int) :
    C05.latticeVec (C04.superBox b sa sb sc).vects f
      = C05.latticeVec b.vects ⟨f.x * sa.mult, f.y * sb.mult, f.z * sc.mult⟩ := by
  obtain ⟨⟨⟨a0, a1, a2⟩, ⟨b0, b1, b2⟩, ⟨c0, c1, c2⟩⟩, o⟩ := b
  simp only [C05.latticeVec, C04.superBox, M3.vecMul, V3.smul, V3.mk.injEq]
  push_cast
  refine ⟨?_, ?_, ?_⟩ <;> ring

theorem latticeVec_sub (v : M3 K) (f g : V3 Int) :
    C05.latticeVec v f - C05.latticeVec v g = C05.latticeVec v ⟨f.x - g.x, f.y - g.y, f.z - g.z⟩ := by
  simp only [C05.latticeVec, M3.vecMul, C05.V3.sub_def, V3.mk.injEq]
  push_cast
  refine ⟨?_, ?_, ?_⟩ <;> ring

/-- the reference system: `rcell.natoms * multipliers` atoms in `supersize`'s order; atom `encode i r` has the type and
    further values of rcell atom `i` and sits at its position plus the shift plus an integer combination of the
    rcell's box vectors (the shifted perfect crystal). -/
theorem baseSystem_keeps (fl : K → Int) (pad : K) (rcell : Sys K) (sz : Sizes) (shift : V3 K)
    (hdet : M3.det rcell.box.vects ≠ 0)
    (ha : ((sz.a.mult : Int) : K) ≠ 0) (hb : ((sz.b.mult : Int) : K) ≠ 0) (hc : ((sz.c.mult : Int) : K) ≠ 0) :
    (baseSystem fl pad rcell sz shift).atoms.length
      = sz.c.mult.toNat * (sz.b.mult.toNat * (sz.a.mult.toNat * rcell.atoms.length)) ∧
    (baseSystem fl pad rcell sz shift).pbc = rcell.pbc ∧
    ∀ (i r0 r1 r2 : Nat) (hi : i < rcell.atoms.length), r0 < sz.a.mult.toNat → r1 < sz.b.mult.toNat →
      r2 < sz.c.mult.toNat → ∃ (t : V3 Int),
      (baseSystem fl pad rcell sz shift).atoms[encode rcell.atoms.length sz.a.mult.toNat sz.b.mult.toNat i r0 r1 r2]?
        = some { rcell.atoms[i] with
                 pos := rcell.atoms[i].pos + shift + C05.latticeVec rcell.box.vects t } := by
  set sup := C04.supersizeAtoms rcell.box sz.a sz.b sz.c rcell.atoms with hsup
  set sb := C04.superBox rcell.box sz.a sz.b sz.c with hsb
  have hpos : (C05.wrap fl pad sb rcell.pbc (sup.map (fun a => a.pos + shift))).pos
      = (sup.map (·.pos)).map (fun p => C05.atomPos fl sb rcell.pbc (p + shift)) := by
    simp [C05.wrap, List.map_map, Function.comp_def]
  have hdsb : M3.det sb.vects ≠ 0 := by
    rw [hsb, superBox_volume]
    exact mul_ne_zero (mul_ne_zero (mul_ne_zero ha hb) hc) hdet
  refine ⟨?_, rfl, ?_⟩
  · simp only [baseSystem]
    rw [setPos_length _ _ (by simp [C05.wrap]), supersize_length]
  · intro i r0 r1 r2 hi h0 h1 h2
    have hget := supersize_get rcell.box sz.a sz.b sz.c rcell.atoms i r0 r1 r2 hi h0 h1 h2
    set q := C04.replicaPos rcell.box sz.a sz.b sz.c rcell.atoms[i].pos r0 r1 r2 + shift with hq
    set f := C05.atomFlags fl sb rcell.pbc q with hf
    refine ⟨⟨((r0 : Int) + sz.a.lo) - f.x * sz.a.mult, ((r1 : Int) + sz.b.lo) - f.y * sz.b.mult,
      ((r2 : Int) + sz.c.lo) - f.z * sz.c.mult⟩, ?_⟩
    have hrec := C05.atom_reconstruct fl sb hdsb rcell.pbc q
    have hrep := replicaPos_eq rcell.box sz.a sz.b sz.c rcell.atoms[i].pos r0 r1 r2 hdet ha hb hc
    simp only [baseSystem]
    rw [← hsup, ← hsb, hpos, setPos_map_getElem?, hget]
    simp only [Option.map_some]
    congr 1
    -- the position
    have e1 : C05.atomPos fl sb rcell.pbc q = q - C05.latticeVec sb.vects f := v3_eq_sub_of_add_eq hrec
    show (⟨_, C05.atomPos fl sb rcell.pbc q, _⟩ : Atom K) = _
    rw [e1, hsb, latticeVec_superBox, hq, hrep]
    congr 1
    rw [(latticeVec_sub rcell.box.vects ⟨(r0 : Int) + sz.a.lo, (r1 : Int) + sz.b.lo, (r2 : Int) + sz.c.lo⟩
      ⟨f.x * sz.a.mult, f.y * sz.b.mult, f.z * sz.c.mult⟩).symm]
    simp only [C05.V3.add_def, C05.V3.sub_def, V3.mk.injEq]
    refine ⟨?_, ?_, ?_⟩ <;> ring

theorem pbcOnly_false (line : Nat) :
    (line ≠ 0 → (pbcOnly line).x = false) ∧ (line ≠ 1 → (pbcOnly line).y = false) ∧
    (line ≠ 2 → (pbcOnly line).z = false) := by
  refine ⟨?_, ?_, ?_⟩ <;> intro h <;> simp [pbcOnly, h]

/-- `monopoleRaw`: every reference atom is kept, in order, with its type and further values; its position is
    `pos + u(pos - center)` moved by an integer number of box vectors along the line only. -/
theorem monopoleRaw_keeps (fl : K → Int) (pad : K) (u : V3 K → V3 K) (line : Nat) (center : V3 K) (base : Sys K)
    (hdet : M3.det base.box.vects ≠ 0) :
    (monopoleRaw fl pad u line center base).atoms.length = base.atoms.length ∧
    (monopoleRaw fl pad u line center base).pbc = pbcOnly line ∧
    ∀ (i : Nat) (a : Atom K), base.atoms[i]? = some a → ∃ (p' : V3 K) (f : V3 Int),
      (monopoleRaw fl pad u line center base).atoms[i]? = some { a with pos := p' } ∧
      p' + C05.latticeVec base.box.vects f = a.pos + u (a.pos - center) ∧
      (line ≠ 0 → f.x = 0) ∧ (line ≠ 1 → f.y = 0) ∧ (line ≠ 2 → f.z = 0) := by
  have hpos : (C05.wrap fl pad base.box (pbcOnly line) (base.atoms.map (fun a => displaced u center a.pos))).pos
      = (base.atoms.map (·.pos)).map (fun p => C05.atomPos fl base.box (pbcOnly line) (displaced u center p)) := by
    simp [C05.wrap, List.map_map, Function.comp_def]
  refine ⟨?_, rfl, ?_⟩
  · simp only [monopoleRaw]
    rw [setPos_length]
    simp [C05.wrap]
  · intro i a ha
    refine ⟨C05.atomPos fl base.box (pbcOnly line) (displaced u center a.pos),
      C05.atomFlags fl base.box (pbcOnly line) (displaced u center a.pos), ?_, ?_, ?_⟩
    · simp only [monopoleRaw]
      rw [hpos, setPos_map_getElem?, ha]; rfl
    · exact C05.atom_reconstruct fl base.box hdet (pbcOnly line) _
    · obtain ⟨h0, h1, h2⟩ := C05.atomFlags_nonperiodic fl base.box (pbcOnly line) (displaced u center a.pos)
      obtain ⟨p0, p1, p2⟩ := pbcOnly_false line
      exact ⟨fun h => h0 (p0 h), fun h => h1 (p1 h), fun h => h2 (p2 h)⟩

theorem retype_getElem? (out : V3 K → Bool) (nt : Int) (atoms : List (Atom K)) (i : Nat) :
    (retype out nt atoms)[i]? = (atoms[i]?).map (fun a => if out a.pos then { a with atype := a.atype + nt } else a) := by
  simp [retype]

/-! ### linear field -/

theorem get_smul (c : K) (v : V3 K) (i : Nat) : (V3.smul c v).get i = c * v.get i := by
  unfold V3.get V3.smul; split_ifs <;> rfl

theorem sgn_pos {x : K} (h : 0 < x) : sgn x = 1 := by
  unfold sgn; rw [if_neg (not_lt.mpr h.le), if_pos h]
theorem sgn_neg {x : K} (h : x < 0) : sgn x = -1 := by
  unfold sgn; rw [if_pos h]

/-- disregistry of the linear field at in-plane coordinate `x = p·m`: atoms just above and just below the slip
    plane differ by `(1/2 - x/L) b`. -/
theorem linear_field_disregistry (mi ni : Nat) (b : V3 K) (L : K) (hL : L ≠ 0) (pa pb : V3 K)
    (ha : 0 < pa.get ni) (hb : pb.get ni < 0) (hx : pa.get mi = pb.get mi) :
    linearDisp mi ni b L pa - linearDisp mi ni b L pb = V3.smul (1 / 2 - pa.get mi / L) b := by
  unfold linearDisp
  rw [sgn_pos ha, sgn_neg hb, ← hx]
  simp only [V3.smul, C05.V3.sub_def, quarter, V3.mk.injEq]
  have h2 : ((2 : Int) : K) = 2 := by norm_cast
  have h4 : ((4 : Int) : K) = 4 := by norm_cast
  rw [h2, h4]
  refine ⟨?_, ?_, ?_⟩ <;> field_simp <;> ring

/-! ### regions -/

/-- `Plane.below(pos, inclusive=True)` as coded, for a plane of `box_boundary` / `array_boundary`: unit normal
    `nrm / s` (`s = |nrm|`), point `pt - w * nrm / s`. -/
def belowCoded (s w : K) (pl : V3 K × V3 K) (p : V3 K) : Prop :=
  V3.dot (V3.smul (1 / s) pl.1) p ≤ V3.dot (V3.smul (1 / s) pl.1) (pl.2 - V3.smul w (V3.smul (1 / s) pl.1))

theorem belowCoded_iff (s w : K) (pl : V3 K × V3 K) (p : V3 K) (hs : 0 < s) (hss : s * s = V3.normSq pl.1) :
    belowCoded s w pl p ↔ V3.dot pl.1 (p - pl.2) ≤ -(w * s) := by
  obtain ⟨⟨n0, n1, n2⟩, ⟨q0, q1, q2⟩⟩ := pl
  obtain ⟨p0, p1, p2⟩ := p
  simp only [belowCoded, V3.dot, V3.smul, C05.V3.sub_def, V3.normSq] at *
  have hs' : s ≠ 0 := hs.ne'
  have e : 1 / s * n0 * (q0 - w * (1 / s * n0)) + 1 / s * n1 * (q1 - w * (1 / s * n1)) + 1 / s * n2 * (q2 - w * (1 / s * n2))
      = (n0 * q0 + n1 * q1 + n2 * q2) / s - w := by
    have : n0 * n0 + n1 * n1 + n2 * n2 = s * s := hss.symm
    field_simp
    linear_combination (-w) * this
  rw [e]
  have e2 : 1 / s * n0 * p0 + 1 / s * n1 * p1 + 1 / s * n2 * p2 = (n0 * p0 + n1 * p1 + n2 * p2) / s := by
    field_simp
  rw [e2, div_le_iff₀ hs]
  constructor
  · intro h
    have : ((n0 * q0 + n1 * q1 + n2 * q2) / s - w) * s = (n0 * q0 + n1 * q1 + n2 * q2) - w * s := by field_simp
    rw [this] at h; linarith
  · intro h
    have : ((n0 * q0 + n1 * q1 + n2 * q2) / s - w) * s = (n0 * q0 + n1 * q1 + n2 * q2) - w * s := by field_simp
    rw [this]; linarith

theorem outsidePlane_iff (s w : K) (pl : V3 K × V3 K) (p : V3 K) (hs : 0 < s) (hss : s * s = V3.normSq pl.1)
    (hw : 0 < w) : outsidePlane w pl p = true ↔ ¬ belowCoded s w pl p := by
  rw [belowCoded_iff s w pl p hs hss, not_le]
  unfold outsidePlane
  simp only [Bool.or_eq_true, decide_eq_true_eq]
  set g := V3.dot pl.1 (p - pl.2)
  have hws : 0 < w * s := mul_pos hw hs
  rw [← hss]
  constructor
  · rintro (h | h)
    · linarith
    · by_contra hc
      have hc' : w * s ≤ -g := by linarith
      have : (w * s) * (w * s) ≤ (-g) * (-g) := mul_self_le_mul_self hws.le hc'
      nlinarith
  · intro h
    by_cases h0 : 0 ≤ g
    · exact Or.inl h0
    · right
      have h0' : 0 ≤ -g := by linarith
      have : (-g) * (-g) < (w * s) * (w * s) := mul_self_lt_mul_self h0' (by linarith)
      nlinarith

theorem outsideCyl_iff (L p : V3 K) (r l t : K) (hl : 0 < l) (hll : l * l = V3.normSq L) (ht : 0 ≤ t)
    (htt : t * t = V3.normSq (V3.cross p (V3.smul (1 / l) L))) (hr : 0 ≤ r) :
    outsideCyl L r p = true ↔ ¬ (t ≤ r) := by
  unfold outsideCyl
  simp only [decide_eq_true_eq, not_le]
  have e : V3.normSq (V3.cross p L) = t * t * (l * l) := by
    rw [htt]
    obtain ⟨L0, L1, L2⟩ := L
    obtain ⟨p0, p1, p2⟩ := p
    simp only [V3.normSq, V3.dot, V3.cross, V3.smul]
    have : l ≠ 0 := hl.ne'
    field_simp
  rw [e, ← hll]
  have hl2 : 0 < l * l := mul_pos hl hl
  constructor
  · intro h
    by_contra hc
    push Not at hc
    have : t * t ≤ r * r := mul_self_le_mul_self ht hc
    nlinarith
  · intro h
    have : r * r < t * t := mul_self_lt_mul_self hr h
    nlinarith

/-! ### mid-plane shifts -/

theorem mem_insertAsc (x y : K) : ∀ l : List K, y ∈ C14.insertAsc x l ↔ y = x ∨ y ∈ l
  | [] => by simp [C14.insertAsc]
  | h :: t => by
    unfold C14.insertAsc
    split_ifs
    · simp
    · simp only [List.mem_cons, mem_insertAsc x y t]; tauto

theorem mem_sortAsc (y : K) : ∀ l : List K, y ∈ C14.sortAsc l ↔ y ∈ l
  | [] => by simp [C14.sortAsc]
  | h :: t => by
    have ih := mem_sortAsc y t
    simp only [C14.sortAsc, List.foldr_cons, List.mem_cons] at ih ⊢
    rw [mem_insertAsc, ih]

/-- consecutive entries of a strictly ascending list: ordered, and nothing of the list lies strictly between. -/
theorem consec_sorted : ∀ (l : List K), l.Pairwise (· < ·) → ∀ p q, (p, q) ∈ C14.consec l →
    p < q ∧ p ∈ l ∧ q ∈ l ∧ ∀ c ∈ l, c ≤ p ∨ q ≤ c
  | [], _, p, q, h => by simp [C14.consec] at h
  | [a], _, p, q, h => by simp [C14.consec] at h
  | a :: b :: t, hs, p, q, h => by
    simp only [C14.consec, List.tail_cons, List.zip_cons_cons, List.mem_cons, Prod.mk.injEq] at h
    rw [List.pairwise_cons] at hs
    obtain ⟨hab, hs'⟩ := hs
    rcases h with ⟨rfl, rfl⟩ | h
    · refine ⟨hab _ (by simp), by simp, by simp, ?_⟩
      intro c hc
      simp only [List.mem_cons] at hc
      rcases hc with rfl | rfl | hc
      · exact Or.inl le_rfl
      · exact Or.inr le_rfl
      · right
        rw [List.pairwise_cons] at hs'
        exact (hs'.1 c hc).le
    · have ih := consec_sorted (b :: t) hs' p q (by simpa [C14.consec] using h)
      obtain ⟨h1, h2, h3, h4⟩ := ih
      refine ⟨h1, List.mem_cons_of_mem _ h2, List.mem_cons_of_mem _ h3, ?_⟩
      intro c hc
      simp only [List.mem_cons] at hc
      rcases hc with rfl | hc
      · left
        simp only [List.mem_cons] at h2
        rcases h2 with rfl | h2
        · exact (hab _ (by simp)).le
        · exact (hab _ (by simp [h2])).le
      · exact h4 c (by simpa using hc)


theorem absLe_iff (x t : K) : C14.absLe x t = true ↔ x ≤ t ∧ -t ≤ x := by
  simp [C14.absLe, not_lt]

theorem pairwise_le_getLast : ∀ (l : List K), l.Pairwise (· < ·) → ∀ z, l.getLast? = some z → ∀ c ∈ l, c ≤ z
  | [], _, z, h, c, hc => by simp at hc
  | [a], _, z, h, c, hc => by
    simp only [List.getLast?_singleton, Option.some.injEq] at h
    simp only [List.mem_singleton] at hc; rw [hc, h]
  | a :: b :: t, hs, z, h, c, hc => by
    rw [List.pairwise_cons] at hs
    have hl : (b :: t).getLast? = some z := by simpa [List.getLast?_cons_cons] using h
    have ih := pairwise_le_getLast (b :: t) hs.2 z hl
    simp only [List.mem_cons] at hc
    rcases hc with rfl | hc
    · exact ((hs.1 b (by simp)).le).trans (ih b (by simp))
    · exact ih c (by simpa using hc)

theorem head_le_of_pairwise (l : List K) (hs : l.Pairwise (· < ·)) (c0 : K) (hh : l.head? = some c0) :
    ∀ c ∈ l, c0 ≤ c := by
  cases l with
  | nil => simp at hh
  | cons a t =>
    simp only [List.head?_cons, Option.some.injEq] at hh
    subst hh
    intro c hc
    rw [List.pairwise_cons] at hs
    simp only [List.mem_cons] at hc
    rcases hc with rfl | hc
    · exact le_rfl
    · exact (hs.1 c hc).le

/-- the list the shifts are computed from is strictly ascending, starts at the lowest layer `c0` and stays within one
    period of it. -/
theorem withReplica_sorted (coords : List K) (W tol : K) (htol : 0 ≤ tol) (hs : coords.Pairwise (· < ·)) (c0 : K)
    (hh : coords.head? = some c0) (hr : ∀ c ∈ coords, c ≤ c0 + W) :
    (C14.withReplica coords W tol).Pairwise (· < ·) ∧ ∀ c ∈ C14.withReplica coords W tol, c0 ≤ c ∧ c ≤ c0 + W := by
  have hge := head_le_of_pairwise coords hs c0 hh
  unfold C14.withReplica
  rw [hh]
  cases hl : coords.getLast? with
  | none => exact ⟨hs, fun c hc => ⟨hge c hc, hr c hc⟩⟩
  | some l =>
    simp only
    split_ifs with hc
    · exact ⟨hs, fun c hc => ⟨hge c hc, hr c hc⟩⟩
    · have hlm : l ∈ coords := List.mem_of_getLast? hl
      have hlt : l < c0 + W := by
        have h1 := hr l hlm
        rw [absLe_iff] at hc
        by_contra hcon
        apply hc
        constructor <;> linarith
      have hall := pairwise_le_getLast coords hs l hl
      refine ⟨?_, ?_⟩
      · rw [List.pairwise_append]
        refine ⟨hs, by simp, ?_⟩
        intro a ha b hb
        simp only [List.mem_singleton] at hb
        rw [hb]; exact lt_of_le_of_lt (hall a ha) hlt
      · intro c hc'
        simp only [List.mem_append, List.mem_singleton] at hc'
        rcases hc' with hc' | rfl
        · exact ⟨hge c hc', hr c hc'⟩
        · have hW : 0 ≤ W := by
            have := hge l hlm
            linarith
          exact ⟨by linarith, le_rfl⟩

/-- **shift_between_planes**: every offered shift `s` belongs to a pair `p < q` of consecutive atomic layers of the
    rotated cell (heights along the cut, the last pair closing the period `W`); after the shift the two layers sit at
    `k W ∓ (q - p)/2`, i.e. symmetrically about the slip plane (the planes `k W` of the stack), at a non-zero distance,
    and no layer of the periodic stack `c + t W` lies strictly between them: the slip plane is midway between two
    consecutive atomic planes and never on one. -/
theorem shift_between_planes_aux (coords : List K) (W tol : K) (hW : 0 < W) (htol : 0 ≤ tol)
    (hs : coords.Pairwise (· < ·)) (c0 : K) (hh : coords.head? = some c0) (hr : ∀ c ∈ coords, c ≤ c0 + W) :
    ∀ s ∈ identifyShifts coords W tol,
      ∃ p q : K, (p, q) ∈ C14.consec (C14.withReplica coords W tol) ∧ p < q ∧ ∃ k : Int,
        p + s = (k : K) * W - (q - p) / 2 ∧ q + s = (k : K) * W + (q - p) / 2 ∧
        ∀ c ∈ C14.withReplica coords W tol, ∀ t : Int,
          c + (t : K) * W + s ≤ (k : K) * W - (q - p) / 2 ∨ (k : K) * W + (q - p) / 2 ≤ c + (t : K) * W + s := by
  intro s hsm
  obtain ⟨hsort, hrange⟩ := withReplica_sorted coords W tol htol hs c0 hh hr
  simp only [identifyShifts, C14.shifts, mem_sortAsc, C14.rawShifts, List.mem_map] at hsm
  obtain ⟨⟨p, q⟩, hpq, rfl⟩ := hsm
  obtain ⟨hlt, hp, hq, hbetween⟩ := consec_sorted _ hsort p q hpq
  refine ⟨p, q, hpq, hlt, ?_⟩
  have h2 : ((2 : Int) : K) = 2 := by norm_cast
  -- the fold of `W - mid` back into `[0, W]` adds `j W`, `j ∈ {-1, 0, 1}`
  have hk : ∃ j : Int, C14.relShift W (C14.mid (p, q)) = W - (p + q) / 2 + (j : K) * W := by
    unfold C14.relShift C14.mid
    simp only [h2]
    split_ifs
    · exact ⟨-1, by push_cast; ring⟩
    · exact ⟨1, by push_cast; ring⟩
    · exact ⟨0, by push_cast; ring⟩
  obtain ⟨j, hj⟩ := hk
  refine ⟨1 + j, ?_, ?_, ?_⟩
  · rw [hj]; push_cast; ring
  · rw [hj]; push_cast; ring
  · intro c hc t
    rw [hj]
    obtain ⟨hc0, hc1⟩ := hrange c hc
    obtain ⟨hp0, hp1⟩ := hrange p hp
    obtain ⟨hq0, hq1⟩ := hrange q hq
    push_cast
    rcases lt_trichotomy t 0 with ht | ht | ht
    · left
      have : (t : K) ≤ -1 := by exact_mod_cast (by omega : t ≤ -1)
      nlinarith
    · subst ht
      rcases hbetween c hc with h | h
      · left; push_cast; linarith
      · right; push_cast; linarith
    · right
      have : (1 : K) ≤ (t : K) := by exact_mod_cast (by omega : 1 ≤ t)
      nlinarith

/-! ### the searches of `__set_cells` -/

theorem bestStep_mem (l : List (Cand K)) : ∀ (init : Option (Cand K)) (c : Cand K),
    l.foldl bestStep init = some c → init = some c ∨ c ∈ l := by
  induction l with
  | nil => intro init c h; exact Or.inl h
  | cons a t ih =>
    intro init c h
    simp only [List.foldl_cons] at h
    rcases ih _ c h with h' | h'
    · cases init with
      | none => simp only [bestStep, Option.some.injEq] at h'; right; simp [h']
      | some b =>
        simp only [bestStep] at h'
        split_ifs at h'
        · simp only [Option.some.injEq] at h'; right; simp [h']
        · left; exact h'
    · right; exact List.mem_cons_of_mem _ h'

theorem bestOf_mem (l : List (Cand K)) (c : Cand K) (h : bestOf l = some c) : c ∈ l := by
  rcases bestStep_mem l none c h with h' | h'
  · cases h'
  · exact h'

theorem ivneg_def (v : IV) : -v = ⟨-v.x, -v.y, -v.z⟩ := rfl

theorem cart_neg (pv : M3 K) (v : IV) : cart pv (-v) = -cart pv v := by
  obtain ⟨v0, v1, v2⟩ := v
  rw [ivneg_def, C05.V3.neg_def]
  simp only [cart, C14.toK, M3.vecMul, V3.mk.injEq]
  push_cast
  refine ⟨?_, ?_, ?_⟩ <;> ring

theorem gcd3_pos (v : IV) (h : v ≠ ⟨0, 0, 0⟩) : 0 < C14.gcd3 v := by
  unfold C14.gcd3
  have : Int.gcd ((Int.gcd v.x v.y : Nat) : Int) v.z ≠ 0 := by
    intro h0
    rw [Int.gcd_eq_zero_iff] at h0
    obtain ⟨h1, h2⟩ := h0
    have h1' : Int.gcd v.x v.y = 0 := by exact_mod_cast h1
    rw [Int.gcd_eq_zero_iff] at h1'
    apply h
    obtain ⟨x, y, z⟩ := v
    simp_all
  omega

theorem gcd3_dvd (v : IV) : C14.gcd3 v ∣ v.x ∧ C14.gcd3 v ∣ v.y ∧ C14.gcd3 v ∣ v.z := by
  unfold C14.gcd3
  have h1 : ((Int.gcd ((Int.gcd v.x v.y : Nat) : Int) v.z : Nat) : Int) ∣ ((Int.gcd v.x v.y : Nat) : Int) :=
    Int.gcd_dvd_left _ _
  have h2 : ((Int.gcd ((Int.gcd v.x v.y : Nat) : Int) v.z : Nat) : Int) ∣ v.z := Int.gcd_dvd_right _ _
  exact ⟨h1.trans (Int.gcd_dvd_left _ _), h1.trans (Int.gcd_dvd_right _ _), h2⟩

/-- `v = gcd · reduceGcd v`, hence the Cartesian image scales. -/
theorem cart_reduceGcd (pv : M3 K) (v : IV) :
    cart pv v = V3.smul ((C14.gcd3 v : Int) : K) (cart pv (C14.reduceGcd v)) := by
  obtain ⟨dx, dy, dz⟩ := gcd3_dvd v
  have ex : v.x = C14.gcd3 v * (v.x / C14.gcd3 v) := (Int.mul_ediv_cancel' dx).symm
  have ey : v.y = C14.gcd3 v * (v.y / C14.gcd3 v) := (Int.mul_ediv_cancel' dy).symm
  have ez : v.z = C14.gcd3 v * (v.z / C14.gcd3 v) := (Int.mul_ediv_cancel' dz).symm
  have cx : ((v.x : Int) : K) = ((C14.gcd3 v : Int) : K) * (((v.x / C14.gcd3 v : Int)) : K) := by
    conv_lhs => rw [ex]
    push_cast; ring
  have cy : ((v.y : Int) : K) = ((C14.gcd3 v : Int) : K) * (((v.y / C14.gcd3 v : Int)) : K) := by
    conv_lhs => rw [ey]
    push_cast; ring
  have cz : ((v.z : Int) : K) = ((C14.gcd3 v : Int) : K) * (((v.z / C14.gcd3 v : Int)) : K) := by
    conv_lhs => rw [ez]
    push_cast; ring
  simp only [cart, C14.toK, C14.reduceGcd, M3.vecMul, V3.smul, V3.mk.injEq]
  rw [cx, cy, cz]
  refine ⟨?_, ?_, ?_⟩ <;> ring

theorem dot_reduceGcd_eq_zero (pv : M3 K) (N : V3 K) (v : IV) (hv : v ≠ ⟨0, 0, 0⟩)
    (h : V3.dot (cart pv v) N = 0) : V3.dot (cart pv (C14.reduceGcd v)) N = 0 := by
  rw [cart_reduceGcd] at h
  have hg : ((C14.gcd3 v : Int) : K) ≠ 0 := by
    have := gcd3_pos v hv
    exact_mod_cast this.ne'
  have e : V3.dot (V3.smul ((C14.gcd3 v : Int) : K) (cart pv (C14.reduceGcd v))) N
      = ((C14.gcd3 v : Int) : K) * V3.dot (cart pv (C14.reduceGcd v)) N := by
    simp only [V3.dot, V3.smul]; ring
  rw [e] at h
  exact (mul_eq_zero.mp h).resolve_left hg

theorem mem_allUvws_ne_zero (n : Int) (v : IV) (h : v ∈ allUvws n) : v ≠ ⟨0, 0, 0⟩ := by
  simp only [allUvws, List.mem_flatMap, List.mem_filterMap] at h
  obtain ⟨u, _, w, _, z, _, hz⟩ := h
  split_ifs at hz with hc
  simp only [Option.some.injEq] at hz
  subst hz
  intro h0
  simp only [V3.mk.injEq] at h0
  exact hc h0


/-! ### handedness -/

theorem triple_identity (Xi Mu Nu N : V3 K) (hXi : V3.dot Xi N = 0) (hMu : V3.dot Mu N = 0) :
    V3.dot Xi (V3.cross Mu Nu) * V3.normSq N = V3.dot Mu (V3.cross N Xi) * V3.dot Nu N := by
  obtain ⟨x0, x1, x2⟩ := Xi
  obtain ⟨m0, m1, m2⟩ := Mu
  obtain ⟨n0, n1, n2⟩ := Nu
  obtain ⟨N0, N1, N2⟩ := N
  simp only [V3.dot, V3.cross, V3.normSq] at *
  linear_combination (m0 * (n1 * N2 - n2 * N1) + m1 * (n2 * N0 - n0 * N2) + m2 * (n0 * N1 - n1 * N0)) * hXi
    - (x0 * (n1 * N2 - n2 * N1) + x1 * (n2 * N0 - n0 * N2) + x2 * (n0 * N1 - n1 * N0)) * hMu

theorem normSq_pos_of_dot_ne (a N : V3 K) (h : V3.dot a N ≠ 0) : 0 < V3.normSq N := by
  obtain ⟨N0, N1, N2⟩ := N
  obtain ⟨a0, a1, a2⟩ := a
  simp only [V3.dot, V3.normSq] at *
  by_contra hc
  have h0 : N0 * N0 + N1 * N1 + N2 * N2 = 0 := le_antisymm (not_lt.mp hc) (by nlinarith [mul_self_nonneg N0, mul_self_nonneg N1, mul_self_nonneg N2])
  have e0 : N0 = 0 := by nlinarith [mul_self_nonneg N0, mul_self_nonneg N1, mul_self_nonneg N2]
  have e1 : N1 = 0 := by nlinarith [mul_self_nonneg N0, mul_self_nonneg N1, mul_self_nonneg N2]
  have e2 : N2 = 0 := by nlinarith [mul_self_nonneg N0, mul_self_nonneg N1, mul_self_nonneg N2]
  apply h; rw [e0, e1, e2]; ring

/-- rows `Xi, Mu, Nu` with `Xi, Mu` in the plane normal to `N`, `Mu` on the side of `M = N × Xi` and `Nu` on the side
    of `N` are right handed. -/
theorem det_pos_of_signs (Xi Mu Nu N : V3 K) (hXi : V3.dot Xi N = 0) (hMu : V3.dot Mu N = 0)
    (hm : 0 < V3.dot Mu (V3.cross N Xi)) (hn : 0 < V3.dot Nu N) : 0 < V3.dot Xi (V3.cross Mu Nu) := by
  have hN := normSq_pos_of_dot_ne Nu N hn.ne'
  have e := triple_identity Xi Mu Nu N hXi hMu
  have : 0 < V3.dot Xi (V3.cross Mu Nu) * V3.normSq N := by rw [e]; exact mul_pos hm hn
  exact (mul_pos_iff_of_pos_right hN).mp this

/-- Cartesian rows of the integer matrix. -/
theorem newVects_rows (U : M3 Int) (pv : M3 K) :
    C04.newVects U pv = ⟨cart pv U.r0, cart pv U.r1, cart pv U.r2⟩ := rfl

/-- all six row orders have the determinant of `[ξ, m, n]`. -/
theorem det_orderUvws (cut line : Nat) (xi mu nu : IV) (pv : M3 K) :
    M3.det (C04.newVects (orderUvws cut line xi mu nu) pv)
      = V3.dot (cart pv xi) (V3.cross (cart pv mu) (cart pv nu)) := by
  rw [newVects_rows]
  unfold orderUvws
  split_ifs <;> simp only [M3.det, cart_neg] <;>
    (generalize cart pv xi = X; generalize cart pv mu = Y; generalize cart pv nu = Z
     obtain ⟨x0, x1, x2⟩ := X; obtain ⟨y0, y1, y2⟩ := Y; obtain ⟨z0, z1, z2⟩ := Z
     simp only [V3.dot, V3.cross, C05.V3.neg_def]; ring)

/-- once a candidate with positive `d` (acute angle) has been seen, the running best has positive `d`. -/
theorem bestStep_pos (l : List (Cand K)) (hm : ∀ c ∈ l, 0 < c.m2) :
    ∀ (init : Option (Cand K)), (∀ b, init = some b → 0 < b.m2) →
      ((∃ b, init = some b ∧ 0 < b.d) ∨ ∃ c ∈ l, 0 < c.d) →
      ∃ b, l.foldl bestStep init = some b ∧ 0 < b.d := by
  induction l with
  | nil =>
    intro init _ h
    rcases h with h | ⟨c, hc, _⟩
    · exact h
    · simp at hc
  | cons a t ih =>
    intro init hinit h
    simp only [List.foldl_cons]
    have ha := hm a (by simp)
    apply ih (fun c hc => hm c (List.mem_cons_of_mem _ hc))
    · -- m2 of the new best is positive
      intro b hb
      cases init with
      | none => simp only [bestStep, Option.some.injEq] at hb; rw [← hb]; exact ha
      | some b0 =>
        simp only [bestStep] at hb
        split_ifs at hb <;> simp only [Option.some.injEq] at hb
        · rw [← hb]; exact ha
        · rw [← hb]; exact hinit b0 rfl
    · rcases h with ⟨b0, rfl, hb0⟩ | ⟨c, hc, hcd⟩
      · -- the best is positive: it stays positive
        left
        simp only [bestStep]
        by_cases hlt : cosLt b0 a = true
        · rw [if_pos hlt]
          refine ⟨a, rfl, ?_⟩
          unfold cosLt at hlt
          by_cases had : a.d < 0
          · rw [if_pos had, if_neg (not_lt.mpr hb0.le)] at hlt; cases hlt
          · rw [if_neg had, if_neg (not_lt.mpr hb0.le)] at hlt
            simp only [decide_eq_true_eq] at hlt
            rcases (not_lt.mp had).lt_or_eq with h1 | h1
            · exact h1
            · exfalso
              rw [← h1] at hlt
              have : 0 < b0.d * b0.d * a.m2 := mul_pos (mul_pos hb0 hb0) ha
              linarith
        · rw [if_neg hlt]; exact ⟨b0, rfl, hb0⟩
      · simp only [List.mem_cons] at hc
        rcases hc with rfl | hc
        · -- the positive candidate arrives now
          left
          cases init with
          | none => exact ⟨c, rfl, hcd⟩
          | some b0 =>
            simp only [bestStep]
            by_cases hb0 : 0 < b0.d
            · by_cases hlt : cosLt b0 c = true
              · rw [if_pos hlt]; exact ⟨c, rfl, hcd⟩
              · rw [if_neg hlt]; exact ⟨b0, rfl, hb0⟩
            · have hlt : cosLt b0 c = true := by
                unfold cosLt
                rw [if_neg (not_lt.mpr hcd.le)]
                by_cases hb1 : b0.d < 0
                · rw [if_pos hb1]
                · rw [if_neg hb1]
                  have e : b0.d = 0 := le_antisymm (not_lt.mp hb0) (not_lt.mp hb1)
                  simp only [decide_eq_true_eq, e]
                  have := hinit b0 rfl
                  have : 0 < c.d * c.d * b0.m2 := mul_pos (mul_pos hcd hcd) this
                  linarith
              rw [if_pos hlt]; exact ⟨c, rfl, hcd⟩
        · right; exact ⟨c, hc, hcd⟩

theorem bestOf_pos (l : List (Cand K)) (hm : ∀ c ∈ l, 0 < c.m2) (h : ∃ c ∈ l, 0 < c.d) (b : Cand K)
    (hb : bestOf l = some b) : 0 < b.d := by
  obtain ⟨b', hb', hpos⟩ := bestStep_pos l hm none (by simp) (Or.inr h)
  unfold bestOf at hb
  rw [hb] at hb'
  cases hb'; exact hpos

theorem mem_intRange (lo hi x : Int) : x ∈ intRange lo hi ↔ lo ≤ x ∧ x < hi := by
  simp only [intRange, List.mem_map, List.mem_range, Int.ofNat_eq_natCast]
  constructor
  · rintro ⟨k, hk, rfl⟩
    constructor <;> omega
  · rintro ⟨h1, h2⟩
    exact ⟨(x - lo).toNat, by omega, by omega⟩

theorem mem_allUvws (n : Int) (v : IV) :
    v ∈ allUvws n ↔ (-n ≤ v.x ∧ v.x ≤ n) ∧ (-n ≤ v.y ∧ v.y ≤ n) ∧ (-n ≤ v.z ∧ v.z ≤ n) ∧ v ≠ ⟨0, 0, 0⟩ := by
  obtain ⟨x, y, z⟩ := v
  simp only [allUvws, List.mem_flatMap, List.mem_filterMap, mem_intRange]
  constructor
  · rintro ⟨u, hu, w, hw, t, ht, h⟩
    split_ifs at h with hc
    simp only [Option.some.injEq, V3.mk.injEq] at h
    obtain ⟨rfl, rfl, rfl⟩ := h
    refine ⟨⟨hu.1, by omega⟩, ⟨hw.1, by omega⟩, ⟨ht.1, by omega⟩, ?_⟩
    intro h0
    simp only [V3.mk.injEq] at h0
    exact hc h0
  · rintro ⟨⟨h1, h2⟩, ⟨h3, h4⟩, ⟨h5, h6⟩, hne⟩
    refine ⟨x, ⟨h1, by omega⟩, y, ⟨h3, by omega⟩, z, ⟨h5, by omega⟩, ?_⟩
    rw [if_neg]
    intro hc
    apply hne
    simp only [V3.mk.injEq]; exact hc

theorem neg_mem_allUvws (n : Int) (v : IV) (h : v ∈ allUvws n) : -v ∈ allUvws n := by
  rw [mem_allUvws] at h ⊢
  obtain ⟨⟨h1, h2⟩, ⟨h3, h4⟩, ⟨h5, h6⟩, hne⟩ := h
  rw [ivneg_def]
  refine ⟨⟨by simp; omega, by simp; omega⟩, ⟨by simp; omega, by simp; omega⟩, ⟨by simp; omega, by simp; omega⟩, ?_⟩
  intro h0
  apply hne
  obtain ⟨x, y, z⟩ := v
  simp only [V3.mk.injEq] at h0 ⊢
  omega

/-- a non-zero integer vector has a non-zero Cartesian image in a non-degenerate cell. -/
theorem cart_normSq_pos (pv : M3 K) (hdet : M3.det pv ≠ 0) (v : IV) (hv : v ≠ ⟨0, 0, 0⟩) :
    0 < V3.normSq (cart pv v) := by
  by_contra hc
  have h0 : V3.normSq (cart pv v) = 0 := by
    apply le_antisymm (not_lt.mp hc)
    simp only [V3.normSq, V3.dot]
    nlinarith [mul_self_nonneg (cart pv v).x, mul_self_nonneg (cart pv v).y, mul_self_nonneg (cart pv v).z]
  have hx : (cart pv v).x = 0 := by
    simp only [V3.normSq, V3.dot] at h0
    nlinarith [mul_self_nonneg (cart pv v).x, mul_self_nonneg (cart pv v).y, mul_self_nonneg (cart pv v).z]
  have hy : (cart pv v).y = 0 := by
    simp only [V3.normSq, V3.dot] at h0
    nlinarith [mul_self_nonneg (cart pv v).x, mul_self_nonneg (cart pv v).y, mul_self_nonneg (cart pv v).z]
  have hz : (cart pv v).z = 0 := by
    simp only [V3.normSq, V3.dot] at h0
    nlinarith [mul_self_nonneg (cart pv v).x, mul_self_nonneg (cart pv v).y, mul_self_nonneg (cart pv v).z]
  obtain ⟨⟨a0, a1, a2⟩, ⟨b0, b1, b2⟩, ⟨c0, c1, c2⟩⟩ := pv
  obtain ⟨x, y, z⟩ := v
  simp only [cart, C14.toK, M3.vecMul] at hx hy hz
  simp only [M3.det, V3.dot, V3.cross] at hdet
  have ex : (x : K) * (a0 * (b1 * c2 - b2 * c1) + a1 * (b2 * c0 - b0 * c2) + a2 * (b0 * c1 - b1 * c0)) = 0 := by
    linear_combination (b1 * c2 - b2 * c1) * hx + (b2 * c0 - b0 * c2) * hy + (b0 * c1 - b1 * c0) * hz
  have ey : (y : K) * (a0 * (b1 * c2 - b2 * c1) + a1 * (b2 * c0 - b0 * c2) + a2 * (b0 * c1 - b1 * c0)) = 0 := by
    linear_combination (c1 * a2 - c2 * a1) * hx + (c2 * a0 - c0 * a2) * hy + (c0 * a1 - c1 * a0) * hz
  have ez : (z : K) * (a0 * (b1 * c2 - b2 * c1) + a1 * (b2 * c0 - b0 * c2) + a2 * (b0 * c1 - b1 * c0)) = 0 := by
    linear_combination (a1 * b2 - a2 * b1) * hx + (a2 * b0 - a0 * b2) * hy + (a0 * b1 - a1 * b0) * hz
  have x0 : (x : K) = 0 := (mul_eq_zero.mp ex).resolve_right hdet
  have y0 : (y : K) = 0 := (mul_eq_zero.mp ey).resolve_right hdet
  have z0 : (z : K) = 0 := (mul_eq_zero.mp ez).resolve_right hdet
  apply hv
  simp only [V3.mk.injEq]
  exact ⟨by exact_mod_cast x0, by exact_mod_cast y0, by exact_mod_cast z0⟩

/-! ### periodic array bookkeeping -/

theorem keepIds_spec (n : Nat) (dups : List Nat) :
    (keepIds n dups).Pairwise (· < ·) ∧ ∀ i, i ∈ keepIds n dups ↔ i < n ∧ i ∉ dups := by
  unfold keepIds
  refine ⟨List.Pairwise.filter _ List.pairwise_lt_range, ?_⟩
  intro i
  simp [List.mem_filter, List.mem_range]

theorem gather_eq_map {α : Type} (l : List α) (ids : List Nat) (h : ∀ i ∈ ids, i < l.length) :
    (gather l ids).map some = ids.map (fun i => l[i]?) := by
  unfold gather
  induction ids with
  | nil => rfl
  | cons a t ih =>
    have ha : a < l.length := h a (by simp)
    have ht := ih (fun i hi => h i (List.mem_cons_of_mem _ hi))
    simp only [List.filterMap_cons, List.getElem?_eq_getElem ha, List.map_cons]
    rw [ht]

theorem gather_getElem? {α : Type} (l : List α) (ids : List Nat) (h : ∀ i ∈ ids, i < l.length) (k : Nat) :
    (gather l ids)[k]? = (ids[k]?).bind (fun i => l[i]?) := by
  have e := congrArg (fun (m : List (Option α)) => m[k]?) (gather_eq_map l ids h)
  simp only [List.getElem?_map] at e
  cases hk : ids[k]? with
  | none =>
    rw [hk] at e
    simp only [Option.map_none, Option.map_eq_none_iff] at e
    simp [e]
  | some i =>
    rw [hk] at e
    simp only [Option.map_some] at e
    cases hg : (gather l ids)[k]? with
    | none => rw [hg] at e; simp at e
    | some a => rw [hg] at e; simp only [Option.map_some, Option.some.injEq] at e; simp [e]

theorem gather_length {α : Type} (l : List α) (ids : List Nat) (h : ∀ i ∈ ids, i < l.length) :
    (gather l ids).length = ids.length := by
  have := congrArg List.length (gather_eq_map l ids h)
  simpa using this

/-! ### disregistry: plane selection -/

theorem minAbove_none (mid : K) : ∀ (l : List K), minAbove mid l = none → ∀ z ∈ l, ¬ mid < z := by
  intro l
  induction l with
  | nil => intro _ z hz; simp at hz
  | cons w t iht =>
    intro hn z hz
    unfold minAbove at hn
    cases ht : minAbove mid t with
    | none =>
      rw [ht] at hn; simp only at hn
      split_ifs at hn with hw
      rcases List.mem_cons.mp hz with rfl | hz
      · exact hw
      · exact iht ht z hz
    | some b =>
      rw [ht] at hn; simp only at hn
      split_ifs at hn

theorem minAbove_spec (mid : K) : ∀ (ys : List K) (a : K), minAbove mid ys = some a →
    a ∈ ys ∧ mid < a ∧ ∀ y ∈ ys, mid < y → a ≤ y := by
  intro ys
  induction ys with
  | nil => intro a h; simp [minAbove] at h
  | cons y r ih =>
    intro a h
    unfold minAbove at h
    cases hr : minAbove mid r with
    | none =>
      rw [hr] at h
      simp only at h
      split_ifs at h with hy
      cases h
      refine ⟨List.mem_cons_self, hy, ?_⟩
      intro z hz hmz
      rcases List.mem_cons.mp hz with rfl | hz
      · exact le_rfl
      · exact absurd hmz (minAbove_none mid r hr z hz)
    | some b =>
      rw [hr] at h
      simp only at h
      obtain ⟨hb1, hb2, hb3⟩ := ih b hr
      split_ifs at h with hy hyb
      · cases h
        refine ⟨List.mem_cons_self, hy, ?_⟩
        intro z hz hmz
        rcases List.mem_cons.mp hz with rfl | hz
        · exact le_rfl
        · exact le_trans (le_of_lt hyb) (hb3 z hz hmz)
      · cases h
        refine ⟨List.mem_cons_of_mem _ hb1, hb2, ?_⟩
        intro z hz hmz
        rcases List.mem_cons.mp hz with rfl | hz
        · exact not_lt.mp hyb
        · exact hb3 z hz hmz
      · cases h
        refine ⟨List.mem_cons_of_mem _ hb1, hb2, ?_⟩
        intro z hz hmz
        rcases List.mem_cons.mp hz with rfl | hz
        · exact absurd hmz hy
        · exact hb3 z hz hmz

/-- the selection is determined by its specification. -/
theorem minAbove_eq_of_spec (mid : K) (ys : List K) (a : K) (h1 : a ∈ ys) (h2 : mid < a)
    (h3 : ∀ y ∈ ys, mid < y → a ≤ y) : minAbove mid ys = some a := by
  cases h : minAbove mid ys with
  | none => exact absurd h2 (minAbove_none mid ys h a h1)
  | some b =>
    obtain ⟨hb1, hb2, hb3⟩ := minAbove_spec mid ys b h
    exact congrArg some (le_antisymm (hb3 a h1 h2) (h3 b hb1 hb2))

theorem maxBelow_none (mid : K) : ∀ (l : List K), maxBelow mid l = none → ∀ z ∈ l, ¬ z < mid := by
  intro l
  induction l with
  | nil => intro _ z hz; simp at hz
  | cons w t iht =>
    intro hn z hz
    unfold maxBelow at hn
    cases ht : maxBelow mid t with
    | none =>
      rw [ht] at hn; simp only at hn
      split_ifs at hn with hw
      rcases List.mem_cons.mp hz with rfl | hz
      · exact hw
      · exact iht ht z hz
    | some b =>
      rw [ht] at hn; simp only at hn
      split_ifs at hn

theorem maxBelow_spec (mid : K) : ∀ (ys : List K) (a : K), maxBelow mid ys = some a →
    a ∈ ys ∧ a < mid ∧ ∀ y ∈ ys, y < mid → y ≤ a := by
  intro ys
  induction ys with
  | nil => intro a h; simp [maxBelow] at h
  | cons y r ih =>
    intro a h
    unfold maxBelow at h
    cases hr : maxBelow mid r with
    | none =>
      rw [hr] at h
      simp only at h
      split_ifs at h with hy
      cases h
      refine ⟨List.mem_cons_self, hy, ?_⟩
      intro z hz hmz
      rcases List.mem_cons.mp hz with rfl | hz
      · exact le_rfl
      · exact absurd hmz (maxBelow_none mid r hr z hz)
    | some b =>
      rw [hr] at h
      simp only at h
      obtain ⟨hb1, hb2, hb3⟩ := ih b hr
      split_ifs at h with hy hyb
      · cases h
        refine ⟨List.mem_cons_self, hy, ?_⟩
        intro z hz hmz
        rcases List.mem_cons.mp hz with rfl | hz
        · exact le_rfl
        · exact le_trans (hb3 z hz hmz) (le_of_lt hyb)
      · cases h
        refine ⟨List.mem_cons_of_mem _ hb1, hb2, ?_⟩
        intro z hz hmz
        rcases List.mem_cons.mp hz with rfl | hz
        · exact not_lt.mp hyb
        · exact hb3 z hz hmz
      · cases h
        refine ⟨List.mem_cons_of_mem _ hb1, hb2, ?_⟩
        intro z hz hmz
        rcases List.mem_cons.mp hz with rfl | hz
        · exact absurd hmz hy
        · exact hb3 z hz hmz

theorem maxBelow_eq_of_spec (mid : K) (ys : List K) (a : K) (h1 : a ∈ ys) (h2 : a < mid)
    (h3 : ∀ y ∈ ys, y < mid → y ≤ a) : maxBelow mid ys = some a := by
  cases h : maxBelow mid ys with
  | none => exact absurd h2 (maxBelow_none mid ys h a h1)
  | some b =>
    obtain ⟨hb1, hb2, hb3⟩ := maxBelow_spec mid ys b h
    exact congrArg some (le_antisymm (h3 b hb1 hb2) (hb3 a h1 h2))

/-- heights of the atoms as `disregistry` sees them. -/
theorem disreg_rows_y (m n : V3 K) : ∀ (basepos disp : List (V3 K)), basepos.length = disp.length →
    (List.zipWith (fun p d => (⟨V3.dot p m, V3.dot p n, d⟩ : DRow K)) basepos disp).map (·.y)
      = basepos.map (fun p => V3.dot p n) := by
  intro basepos
  induction basepos with
  | nil => intro disp _; simp
  | cons p r ih =>
    intro disp hl
    cases disp with
    | nil => simp at hl
    | cons d t =>
      simp only [List.zipWith_cons_cons, List.map_cons, List.cons.injEq, true_and]
      exact ih t (by simpa using hl)


/-! ### disregistry: atomic columns and interpolation -/

theorem mem_insertSorted (x y : K) : ∀ (l : List K), y ∈ insertSorted x l ↔ y = x ∨ y ∈ l := by
  intro l
  induction l with
  | nil => simp [insertSorted]
  | cons z r ih =>
    unfold insertSorted
    split_ifs with h1 h2
    · simp
    · simp only [List.mem_cons, ih]; tauto
    · have : x = z := le_antisymm (not_lt.mp h2) (not_lt.mp h1)
      subst this
      simp

theorem insertSorted_sorted (x : K) : ∀ (l : List K), l.Pairwise (· < ·) → (insertSorted x l).Pairwise (· < ·) := by
  intro l
  induction l with
  | nil => intro _; simp [insertSorted]
  | cons z r ih =>
    intro hs
    unfold insertSorted
    split_ifs with h1 h2
    · refine List.Pairwise.cons ?_ hs
      intro w hw
      rcases List.mem_cons.mp hw with rfl | hw
      · exact h1
      · exact lt_trans h1 (List.rel_of_pairwise_cons hs hw)
    · refine List.Pairwise.cons ?_ (ih (List.Pairwise.of_cons hs))
      intro w hw
      rcases (mem_insertSorted x w r).mp hw with rfl | hw
      · exact h2
      · exact List.rel_of_pairwise_cons hs hw
    · exact hs

theorem sortedUnique_sorted (xs : List K) : (sortedUnique xs).Pairwise (· < ·) := by
  unfold sortedUnique
  induction xs with
  | nil => simp
  | cons x r ih => simp only [List.foldr_cons]; exact insertSorted_sorted x _ ih

theorem mem_sortedUnique (xs : List K) (y : K) : y ∈ sortedUnique xs ↔ y ∈ xs := by
  unfold sortedUnique
  induction xs with
  | nil => simp
  | cons x r ih => simp only [List.foldr_cons, mem_insertSorted, ih, List.mem_cons]

/-- `np.interp` at a node of a strictly increasing grid returns the node's value. -/
theorem interpGo_node : ∀ (xr : List K) (fr : List (V3 K)) (x0 : K) (f0 : V3 K) (i : Nat) (x : K) (f : V3 K),
    (x0 :: xr).Pairwise (· < ·) → xr.length = fr.length → xr[i]? = some x → fr[i]? = some f →
    interpGo x x0 f0 xr fr = f := by
  intro xr
  induction xr with
  | nil => intro fr x0 f0 i x f _ _ hx _; simp at hx
  | cons x1 xt ih =>
    intro fr x0 f0 i x f hs hl hx hf
    cases fr with
    | nil => simp at hl
    | cons f1 ft =>
      have hs' : (x1 :: xt).Pairwise (· < ·) := List.Pairwise.of_cons hs
      cases i with
      | zero =>
        simp only [List.getElem?_cons_zero, Option.some.injEq] at hx hf
        subst hx; subst hf
        unfold interpGo
        rw [if_neg (lt_irrefl _)]
        cases xt with
        | nil => cases ft <;> simp [interpGo]
        | cons x2 xt2 =>
          cases ft with
          | nil => simp [interpGo]
          | cons f2 ft2 =>
            unfold interpGo
            have h12 : x1 < x2 := List.rel_of_pairwise_cons hs' List.mem_cons_self
            rw [if_pos h12]
            simp only [sub_self, zero_div]
            cases f1; cases f2
            show V3.add _ _ = _
            simp [V3.smul, V3.add]
      | succ j =>
        simp only [List.getElem?_cons_succ] at hx hf
        have hmem : x ∈ xt := List.mem_of_getElem? hx
        have h1x : x1 < x := List.rel_of_pairwise_cons hs' hmem
        unfold interpGo
        rw [if_neg (not_lt.mpr (le_of_lt h1x))]
        exact ih ft x1 f1 j x f hs' (by simpa using hl) hx hf

theorem interp_node (xp : List K) (fp : List (V3 K)) (i : Nat) (x : K) (f : V3 K)
    (hs : xp.Pairwise (· < ·)) (hl : xp.length = fp.length) (hx : xp[i]? = some x) (hf : fp[i]? = some f) :
    interp xp fp x = f := by
  cases xp with
  | nil => simp at hx
  | cons x0 xr =>
    cases fp with
    | nil => simp at hl
    | cons f0 fr =>
      unfold interp
      cases i with
      | zero =>
        simp only [List.getElem?_cons_zero, Option.some.injEq] at hx hf
        subst hx; subst hf
        simp
      | succ j =>
        simp only [List.getElem?_cons_succ] at hx hf
        have h0x : x0 < x := List.rel_of_pairwise_cons hs (List.mem_of_getElem? hx)
        simp only [if_neg (not_le.mpr h0x)]
        exact interpGo_node xr fr x0 f0 j x f hs (by simpa using hl) hx hf

/-- the rows `disregistry` works on, for lists of equal length. -/
def drows (m n : V3 K) (basepos disp : List (V3 K)) : List (DRow K) :=
  List.zipWith (fun p d => (⟨V3.dot p m, V3.dot p n, d⟩ : DRow K)) basepos disp

theorem columnMeans_getElem? (atol rtol : K) (pl : List (DRow K)) (ux : List K) (i : Nat) (x : K)
    (h : ux[i]? = some x) :
    (columnMeans atol rtol pl ux)[i]? = some (meanV ((pl.filter fun r => isclose atol rtol r.x x).map (·.d))) := by
  simp [columnMeans, List.getElem?_map, h]

/-! ### cylinder radius and the faces of the box -/

/-- squared distance of the Cartesian origin from the plane with (un-normalised) normal `pl.1` through `pl.2`. -/
def planeDist2 (pl : V3 K × V3 K) : K := V3.dot pl.1 pl.2 * V3.dot pl.1 pl.2 / V3.normSq pl.1

theorem min4_le (a b c d : K) : min4 a b c d ≤ a ∧ min4 a b c d ≤ b ∧ min4 a b c d ≤ c ∧ min4 a b c d ≤ d := by
  unfold min4
  simp only
  refine ⟨?_, ?_, ?_, ?_⟩ <;> split_ifs <;> linarith

theorem min4_mem (a b c d : K) : min4 a b c d = a ∨ min4 a b c d = b ∨ min4 a b c d = c ∨ min4 a b c d = d := by
  unfold min4
  simp only
  split_ifs <;> simp

/-- a face containing the line direction `L = l e_line` and the vector `v`: its squared distance from the line through
    the origin equals the 2D distance of `lineDist2` in the `(m, n)` projection. -/
theorem planeDist2_face (mi ni line : Nat) (hperm : (mi, ni, line) ∈ [(0, 1, 2), (1, 0, 2), (0, 2, 1), (2, 0, 1), (1, 2, 0), (2, 1, 0)])
    (L v pt : V3 K) (hm : L.get mi = 0) (hn : L.get ni = 0) (hl : L.get line ≠ 0)
    (hv : (proj2 mi ni v).1 * (proj2 mi ni v).1 + (proj2 mi ni v).2 * (proj2 mi ni v).2 ≠ 0) :
    planeDist2 (V3.cross v L, pt) = lineDist2 (proj2 mi ni pt) (proj2 mi ni v) ∧
    planeDist2 (V3.cross L v, pt) = lineDist2 (proj2 mi ni pt) (proj2 mi ni v) := by
  obtain ⟨lx, ly, lz⟩ := L
  obtain ⟨a, b, c⟩ := v
  obtain ⟨p, q, r⟩ := pt
  simp only [List.mem_cons, Prod.mk.injEq, List.mem_nil_iff, or_false] at hperm
  rcases hperm with ⟨rfl, rfl, rfl⟩ | ⟨rfl, rfl, rfl⟩ | ⟨rfl, rfl, rfl⟩ | ⟨rfl, rfl, rfl⟩ | ⟨rfl, rfl, rfl⟩ | ⟨rfl, rfl, rfl⟩ <;>
  · simp only [V3.get, proj2, OfNat.ofNat_ne_zero, OfNat.ofNat_ne_one, if_true, if_false, one_ne_zero, ↓reduceIte] at hm hn hl hv ⊢
    subst hm; subst hn
    simp only [planeDist2, lineDist2, cross2, V3.cross, V3.dot, V3.normSq]
    have hd := mul_ne_zero (mul_ne_zero hl hl) hv
    constructor <;>
    · rw [div_eq_div_iff (by intro h; apply hd; linear_combination h) hv]
      ring

theorem proj2_add (mi ni : Nat) (a b : V3 K) :
    proj2 mi ni (a + b) = ((proj2 mi ni a).1 + (proj2 mi ni b).1, (proj2 mi ni a).2 + (proj2 mi ni b).2) := by
  cases a; cases b
  simp only [proj2, V3.get, HAdd.hAdd, V3.add]
  split_ifs <;> rfl

/-- what the four entries of `cylSmallest2` are. -/
theorem cylSmallest2_eq (mi ni line : Nat) (b : Box K) :
    cylSmallest2 mi ni line b =
      min4 (lineDist2 (proj2 mi ni b.origin) (proj2 mi ni (b.vects.row ((line + 1) % 3))))
           (lineDist2 (proj2 mi ni b.origin) (proj2 mi ni (b.vects.row ((line + 2) % 3))))
           (lineDist2 (proj2 mi ni (b.origin + b.vects.row ((line + 2) % 3))) (proj2 mi ni (b.vects.row ((line + 1) % 3))))
           (lineDist2 (proj2 mi ni (b.origin + b.vects.row ((line + 1) % 3))) (proj2 mi ni (b.vects.row ((line + 2) % 3)))) := by
  simp only [cylSmallest2, proj2_add]

end Atomman.C13
