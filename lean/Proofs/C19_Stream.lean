/-
  C19 — helper lemmas: `Log.read` on a caller-owned open stream (`readLogSW f`, `f` = which `log_info.seek(0)`
  statements exist) in terms of `readLog` on the stream's content, for every sound arrangement of the seeks
  (`SeekFlags.sound`: the single pass and every pandas read start at the beginning of the stream).
-/
import Proofs.C19_Lemmas
set_option linter.unusedSimpArgs false
set_option linter.unusedVariables false
namespace Atomman.C19
open List

/-- the stream stands at its start. -/
def Stream.AtStart (s : Stream) : Prop := s.k = 0 ∧ s.c = 0

theorem Stream.seek0_atStart (s : Stream) : s.seek0.AtStart := ⟨rfl, rfl⟩

theorem Stream.seek0_lines (s : Stream) : s.seek0.lines = s.lines := rfl

theorem Stream.exhaust_lines (s : Stream) : s.exhaust.lines = s.lines := rfl

theorem Stream.seekIf_lines (b : Bool) (s : Stream) : (s.seekIf b).lines = s.lines := by
  cases b <;> rfl

theorem Stream.seekIf_exhaust (b : Bool) (s : Stream) : (s.seekIf b).exhaust = s.exhaust := by
  cases b <;> rfl

theorem Stream.exhaust_exhaust (s : Stream) : s.exhaust.exhaust = s.exhaust := rfl

theorem Stream.seekIf_true_atStart (s : Stream) : (s.seekIf true).AtStart := ⟨rfl, rfl⟩

/-- a reader starting at the start sees the whole content. -/
theorem Stream.rest_of_atStart (s : Stream) (h : s.AtStart) : s.rest = s.lines := by
  unfold Stream.rest
  rw [h.1, h.2]
  cases s.lines <;> simp

/-- standing at the start, or sent there. -/
theorem Stream.seekIf_rest (b : Bool) (s : Stream) (h : s.AtStart ∨ b = true) : (s.seekIf b).rest = s.lines := by
  cases b with
  | true => exact Stream.rest_of_atStart _ (Stream.seekIf_true_atStart s)
  | false =>
    rcases h with h | h
    · exact Stream.rest_of_atStart s h
    · cases h

/-- where a table read leaves the stream. -/
def Stream.after (a : Bool) (s : Stream) : Stream := s.exhaust.seekIf a

theorem Stream.after_lines (a : Bool) (s : Stream) : (s.after a).lines = s.lines := by
  cases a <;> rfl

theorem Stream.after_after (a : Bool) (s : Stream) : (s.after a).after a = s.after a := by
  cases a <;> rfl

theorem Stream.after_atStart (a b : Bool) (s : Stream) (h : b = true ∨ a = true) :
    (s.after a).AtStart ∨ b = true := by
  rcases h with h | h
  · exact Or.inr h
  · subst h; exact Or.inl ⟨rfl, rfl⟩

theorem readThermoS_spec (f : SeekFlags) (s : Stream) (hd ft : Int) (h : s.AtStart ∨ f.thermoBefore = true) :
    readThermoS f s hd ft = (readThermo (nonBlank s.lines) hd ft).map (fun t => (t, s.after f.thermoAfter)) := by
  unfold readThermoS
  simp only [Stream.seekIf_rest _ s h, Stream.seekIf_exhaust, Stream.after]
  cases readThermo (nonBlank s.lines) hd ft <;> rfl

/-- the table loop: every read sees the whole content; after at least one read the stream is where a read leaves it. -/
theorem readBlocksS_spec (f : SeekFlags) (s : Stream) (hds fts : List Int)
    (h : s.AtStart ∨ f.thermoBefore = true) (h1 : f.thermoBefore = true ∨ f.thermoAfter = true) :
    readBlocksS f s hds fts = (readBlocks (nonBlank s.lines) hds fts).map
      (fun ts => (ts, if hds = [] ∨ fts = [] then s else s.after f.thermoAfter)) := by
  induction hds generalizing fts s with
  | nil => simp [readBlocksS, readBlocks, Except.map]
  | cons hd hds ih =>
    cases fts with
    | nil => simp [readBlocksS, readBlocks, Except.map]
    | cons ft fts =>
      simp only [readBlocksS, readBlocks, readThermoS_spec f s hd ft h]
      cases readThermo (nonBlank s.lines) hd ft with
      | error e => simp [Except.map]
      | ok t =>
        simp only [Except.map, ih (s.after f.thermoAfter) fts (Stream.after_atStart _ _ s h1), Stream.after_lines,
          Stream.after_after]
        cases readBlocks (nonBlank s.lines) hds fts <;> simp [Except.map]

theorem readPerfS_spec (f : SeekFlags) (s : Stream) (isOld : Bool) (hd ft : Int)
    (h : s.AtStart ∨ f.perfBefore = true) :
    readPerfS f s isOld hd ft =
      (if isOld then readPerfOld (nonBlank s.lines) hd ft else readPerfNew (nonBlank s.lines) hd ft).map
        (fun p => (p, s.after f.perfAfter)) := by
  unfold readPerfS
  simp only [Stream.seekIf_rest _ s h, Stream.seekIf_exhaust, Stream.after]
  cases (if isOld then readPerfOld (nonBlank s.lines) hd ft else readPerfNew (nonBlank s.lines) hd ft) <;> rfl

/-- the timing-breakdown loop: every read sees the whole content; the stream keeps its content. -/
theorem assignPerfS_spec (f : SeekFlags) (s : Stream) (isOld : Bool) (j : Nat) (hds ks fts : List Int)
    (sims : List Sim) (h : s.AtStart ∨ f.perfBefore = true) (h1 : f.perfBefore = true ∨ f.perfAfter = true) :
    ∃ s', s'.lines = s.lines ∧ assignPerfS f s isOld j hds ks fts sims =
      (assignPerf (nonBlank s.lines) isOld j hds ks fts sims).map (fun x => (x, s')) := by
  induction fts generalizing hds ks sims s with
  | nil => exact ⟨s, rfl, by cases hds <;> cases ks <;> simp [assignPerfS, assignPerf, Except.map]⟩
  | cons ft fts ih =>
    cases hds with
    | nil => exact ⟨s, rfl, by simp [assignPerfS, assignPerf, Except.map]⟩
    | cons hd hds =>
      cases ks with
      | nil => exact ⟨s, rfl, by simp [assignPerfS, assignPerf, Except.map]⟩
      | cons k ks =>
        simp only [assignPerfS, assignPerf, readPerfS_spec f s isOld hd ft h]
        cases (if isOld then readPerfOld (nonBlank s.lines) hd ft else readPerfNew (nonBlank s.lines) hd ft) with
        | error e => exact ⟨s, rfl, by simp [Except.map]⟩
        | ok p =>
          simp only [Except.map]
          cases pyIndex? sims.length (k + j) with
          | none => exact ⟨s, rfl, by simp⟩
          | some idx =>
            obtain ⟨s', hl, he⟩ := ih (s.after f.perfAfter) hds ks
              (sims.modify idx (fun x => { x with perf := some p })) (Stream.after_atStart _ _ s h1)
            rw [Stream.after_lines] at hl he
            exact ⟨s', hl, he⟩

theorem SeekFlags.sound_iff (f : SeekFlags) : f.sound = true ↔
    f.beforeScan = true ∧ (f.thermoBefore = true ∨ (f.afterScan = true ∧ f.thermoAfter = true)) ∧
      (f.perfBefore = true ∨ (f.afterScan = true ∧ f.thermoAfter = true ∧ f.perfAfter = true)) := by
  cases f with
  | mk a b c d e g => cases a <;> cases b <;> cases c <;> cases d <;> cases e <;> cases g <;> simp [SeekFlags.sound]

/-- **the stream read in closed form**: with a sound arrangement of the seeks, whatever the position of the stream
    when it is handed over, `read` gives what it gives on the stream's whole content, and the stream keeps its
    content. -/
theorem readLogSW_eq (f : SeekFlags) (hf : f.sound = true) (st : LogState) (app : Bool) (s : Stream) :
    ∃ s', s'.lines = s.lines ∧
      readLogSW f st app s = (readLog st app s.lines).map (fun st' => (st', s')) := by
  obtain ⟨hb, ht, hp⟩ := (SeekFlags.sound_iff f).1 hf
  have ht0 : ((s.seekIf f.beforeScan).exhaust.seekIf f.afterScan).AtStart ∨ f.thermoBefore = true := by
    rcases ht with ht | ⟨ha, _⟩
    · exact Or.inr ht
    · rw [ha]; exact Or.inl (Stream.seekIf_true_atStart _)
  have ht1 : f.thermoBefore = true ∨ f.thermoAfter = true := by
    rcases ht with ht | ⟨_, ha⟩
    · exact Or.inl ht
    · exact Or.inr ha
  have hp1 : f.perfBefore = true ∨ f.perfAfter = true := by
    rcases hp with hp | ⟨_, _, ha⟩
    · exact Or.inl hp
    · exact Or.inr ha
  unfold readLogSW readLog thermoTables
  simp only [Stream.seekIf_rest _ s (Or.inr hb), readBlocksS_spec f _ _ _ ht0 ht1, Stream.seekIf_lines,
    Stream.exhaust_lines]
  generalize (if app = true then st else st.reset) = st0
  generalize scan { haveVersion := st0.version.isSome } s.lines = sc
  generalize hs1 : (if sc.thermoHeaders = [] ∨
      sc.thermoFooters ++ [(sc.i : Int) + Gen.Log.thermoFinalFooterOffset] = [] then
      (s.seekIf f.beforeScan).exhaust.seekIf f.afterScan
    else ((s.seekIf f.beforeScan).exhaust.seekIf f.afterScan).after f.thermoAfter) = s1
  have hl1 : s1.lines = s.lines := by
    rw [← hs1]
    split <;> simp [Stream.after_lines, Stream.seekIf_lines, Stream.exhaust_lines]
  have hp0 : s1.AtStart ∨ f.perfBefore = true := by
    rcases hp with hp | ⟨ha, hta, _⟩
    · exact Or.inr hp
    · left
      rw [← hs1, ha, hta]
      split
      · exact Stream.seekIf_true_atStart _
      · exact Stream.seekIf_true_atStart _
  cases sc.versionLine with
  | none =>
    simp only
    cases readBlocks (nonBlank s.lines) sc.thermoHeaders
        (sc.thermoFooters ++ [(sc.i : Int) + Gen.Log.thermoFinalFooterOffset]) with
    | error e => exact ⟨s, rfl, by simp [Except.map]⟩
    | ok tables =>
      simp only [Except.map]
      obtain ⟨s', hl, he⟩ := assignPerfS_spec f s1 sc.isOld st0.sims.length sc.perfHeaders sc.perfSims sc.perfFooters
        (st0.sims ++ tables.map (fun t => ({ thermo := t } : Sim))) hp0 hp1
      refine ⟨s', hl.trans hl1, ?_⟩
      rw [he, hl1]
      cases assignPerf (nonBlank s.lines) sc.isOld st0.sims.length sc.perfHeaders sc.perfSims sc.perfFooters
          (st0.sims ++ tables.map (fun t => ({ thermo := t } : Sim))) <;> simp [Except.map]
  | some l =>
    simp only
    cases dateOf (extractVersion l) with
    | error e => exact ⟨s, rfl, by simp [Except.map]⟩
    | ok d =>
      simp only
      cases readBlocks (nonBlank s.lines) sc.thermoHeaders
          (sc.thermoFooters ++ [(sc.i : Int) + Gen.Log.thermoFinalFooterOffset]) with
      | error e => exact ⟨s, rfl, by simp [Except.map]⟩
      | ok tables =>
        simp only [Except.map]
        obtain ⟨s', hl, he⟩ := assignPerfS_spec f s1 sc.isOld st0.sims.length sc.perfHeaders sc.perfSims
          sc.perfFooters (st0.sims ++ tables.map (fun t => ({ thermo := t } : Sim))) hp0 hp1
        refine ⟨s', hl.trans hl1, ?_⟩
        rw [he, hl1]
        cases assignPerf (nonBlank s.lines) sc.isOld st0.sims.length sc.perfHeaders sc.perfSims sc.perfFooters
            (st0.sims ++ tables.map (fun t => ({ thermo := t } : Sim))) <;> simp [Except.map]

end Atomman.C19
