/-
  C17 — helper lemmas: V3/M3 component algebra, the strict-minimum invariant of the `dvect` replacement
  fold (proved here independently of Proofs/C02), Cauchy–Schwarz, 3x3 inverse, normal equations.
-/
import Atomman.C17
import Mathlib.Tactic.Ring
import Mathlib.Tactic.Linarith
import Mathlib.Tactic.FieldSimp
import Mathlib.Tactic.LinearCombination
import Mathlib.Algebra.Order.Field.Basic
import Mathlib.Algebra.Order.Ring.Abs

namespace Atomman.C17
open Atomman
set_option linter.unusedSectionVars false
set_option linter.unusedSimpArgs false
set_option linter.unusedVariables false

section comps
variable {K : Type}
@[simp] theorem add_x [Add K] (a b : V3 K) : (a + b).x = a.x + b.x := rfl
@[simp] theorem add_y [Add K] (a b : V3 K) : (a + b).y = a.y + b.y := rfl
@[simp] theorem add_z [Add K] (a b : V3 K) : (a + b).z = a.z + b.z := rfl
@[simp] theorem sub_x [Sub K] (a b : V3 K) : (a - b).x = a.x - b.x := rfl
@[simp] theorem sub_y [Sub K] (a b : V3 K) : (a - b).y = a.y - b.y := rfl
@[simp] theorem sub_z [Sub K] (a b : V3 K) : (a - b).z = a.z - b.z := rfl
@[simp] theorem smul_x [Mul K] (c : K) (a : V3 K) : (V3.smul c a).x = c * a.x := rfl
@[simp] theorem smul_y [Mul K] (c : K) (a : V3 K) : (V3.smul c a).y = c * a.y := rfl
@[simp] theorem smul_z [Mul K] (c : K) (a : V3 K) : (V3.smul c a).z = c * a.z := rfl
@[simp] theorem zero3_x [Zero K] : (zero3 : V3 K).x = 0 := rfl
@[simp] theorem zero3_y [Zero K] : (zero3 : V3 K).y = 0 := rfl
@[simp] theorem zero3_z [Zero K] : (zero3 : V3 K).z = 0 := rfl
end comps

abbrev Shift := Int × Int × Int

/-- the candidates the loops of `dvect_c` visit: the direct separation first, then the image shifts. -/
def cands (px py pz : Bool) : List Shift := (0, 0, 0) :: imageShifts px py pz

variable {K : Type} [Field K] [LinearOrder K] [IsStrictOrderedRing K]

theorem shiftBy_zero (V : M3 K) (d : V3 K) : shiftBy V d (0, 0, 0) = d := by
  ext <;> simp [shiftBy]

theorem shiftBy_add (V : M3 K) (d w : V3 K) (s : Shift) : shiftBy V (d + w) s = shiftBy V d s + w := by
  ext <;> simp only [shiftBy, add_x, add_y, add_z] <;> ring

theorem normSq_add (a w : V3 K) :
    V3.normSq (a + w) = V3.normSq a + 2 * V3.dot w a + V3.normSq w := by
  simp only [V3.normSq, V3.dot, add_x, add_y, add_z]; ring

theorem dot_sub (w a b : V3 K) : V3.dot w (a - b) = V3.dot w a - V3.dot w b := by
  simp only [V3.dot, sub_x, sub_y, sub_z]; ring

/-- Cauchy–Schwarz through the Lagrange identity. -/
theorem cauchy_schwarz (a b : V3 K) : V3.dot a b ^ 2 ≤ V3.normSq a * V3.normSq b := by
  simp only [V3.normSq, V3.dot]
  nlinarith [sq_nonneg (a.x * b.y - a.y * b.x), sq_nonneg (a.x * b.z - a.z * b.x),
    sq_nonneg (a.y * b.z - a.z * b.y)]

/-! ### the replacement fold returns the strict minimum -/

/-- if every candidate either *is* `m` or is strictly longer than `m`, and `m` occurs (as the start value or in the
    list), the fold of `dvect_c`'s loop body returns `m`. -/
theorem fold_strict_min (V : M3 K) (d0 : V3 K) (m : V3 K) :
    ∀ (l : List Shift) (acc : V3 K),
      (acc = m ∨ ∃ s ∈ l, shiftBy V d0 s = m) →
      (acc = m ∨ V3.normSq m < V3.normSq acc) →
      (∀ s ∈ l, shiftBy V d0 s = m ∨ V3.normSq m < V3.normSq (shiftBy V d0 s)) →
      l.foldl (dvectStep V d0) acc = m
  | [], acc, hm, _, _ => by
    rcases hm with h | ⟨s, hs, _⟩
    · simpa using h
    · cases hs
  | s :: l, acc, hm, hacc, hl => by
    rw [List.foldl_cons]
    have hl' : ∀ t ∈ l, shiftBy V d0 t = m ∨ V3.normSq m < V3.normSq (shiftBy V d0 t) :=
      fun t ht => hl t (List.mem_cons_of_mem _ ht)
    rcases hl s List.mem_cons_self with hs | hs
    · -- the candidate is `m`
      have : dvectStep V d0 acc s = m := by
        simp only [dvectStep]
        split
        · exact hs
        · rename_i hn
          rcases hacc with h | h
          · exact h
          · exact absurd (hs ▸ h) hn
      rw [this]
      exact fold_strict_min V d0 m l m (Or.inl rfl) (Or.inl rfl) hl'
    · -- the candidate is strictly longer than `m`
      have hne : shiftBy V d0 s ≠ m := fun h => by rw [h] at hs; exact lt_irrefl _ hs
      have hm' : acc = m ∨ ∃ t ∈ l, shiftBy V d0 t = m := by
        rcases hm with h | ⟨t, ht, he⟩
        · exact Or.inl h
        · rcases List.mem_cons.mp ht with h | h
          · exact absurd (h ▸ he) hne
          · exact Or.inr ⟨t, h, he⟩
      simp only [dvectStep]
      split
      · rename_i hlt
        refine fold_strict_min V d0 m l _ ?_ (Or.inr hs) hl'
        rcases hm' with h | h
        · rw [h] at hlt; exact absurd hs (lt_asymm hlt)
        · exact Or.inr h
      · exact fold_strict_min V d0 m l acc hm' hacc hl'

/-- `dvect` returns candidate `s` whenever every other candidate of the loops is `s`'s vector or strictly longer. -/
theorem dvect_eq_of_strict_min (V : M3 K) (px py pz : Bool) (p0 p1 : V3 K) (s : Shift)
    (hs : s ∈ cands px py pz)
    (hmin : ∀ t ∈ cands px py pz, shiftBy V (p1 - p0) t = shiftBy V (p1 - p0) s ∨
      V3.normSq (shiftBy V (p1 - p0) s) < V3.normSq (shiftBy V (p1 - p0) t)) :
    dvect V px py pz p0 p1 = shiftBy V (p1 - p0) s := by
  unfold dvect
  apply fold_strict_min
  · rcases List.mem_cons.mp hs with h | h
    · left; rw [h, shiftBy_zero]
    · exact Or.inr ⟨s, h, rfl⟩
  · have := hmin (0, 0, 0) List.mem_cons_self
    rw [shiftBy_zero] at this
    exact this
  · exact fun t ht => hmin t (List.mem_cons_of_mem _ ht)

/-- the result of `dvect` always is one of the loop's candidates. -/
theorem fold_is_cand (V : M3 K) (d0 : V3 K) :
    ∀ (l : List Shift) (acc : V3 K), l.foldl (dvectStep V d0) acc = acc ∨ ∃ s ∈ l, l.foldl (dvectStep V d0) acc = shiftBy V d0 s
  | [], acc => Or.inl rfl
  | s :: l, acc => by
    rw [List.foldl_cons]
    rcases fold_is_cand V d0 l (dvectStep V d0 acc s) with h | ⟨t, ht, h⟩
    · rw [h]
      simp only [dvectStep]
      split
      · exact Or.inr ⟨s, List.mem_cons_self, rfl⟩
      · exact Or.inl rfl
    · exact Or.inr ⟨t, List.mem_cons_of_mem _ ht, h⟩

theorem dvect_is_cand (V : M3 K) (px py pz : Bool) (p0 p1 : V3 K) :
    ∃ s ∈ cands px py pz, dvect V px py pz p0 p1 = shiftBy V (p1 - p0) s := by
  unfold dvect
  rcases fold_is_cand V (p1 - p0) (imageShifts px py pz) (p1 - p0) with h | ⟨s, hs, h⟩
  · exact ⟨(0, 0, 0), List.mem_cons_self, by rw [shiftBy_zero]; exact h⟩
  · exact ⟨s, List.mem_cons_of_mem _ hs, h⟩

/-! ### 3x3 matrices -/

section mat
@[simp] theorem addM_r0 (a b : M3 K) : (addM a b).r0 = a.r0 + b.r0 := rfl
@[simp] theorem addM_r1 (a b : M3 K) : (addM a b).r1 = a.r1 + b.r1 := rfl
@[simp] theorem addM_r2 (a b : M3 K) : (addM a b).r2 = a.r2 + b.r2 := rfl

theorem mul_assoc3 (A B C : M3 K) : M3.mul (M3.mul A B) C = M3.mul A (M3.mul B C) := by
  ext <;> simp only [M3.mul, M3.vecMul] <;> ring

theorem one_mul3 (A : M3 K) : M3.mul M3.one A = A := by
  ext <;> simp [M3.mul, M3.vecMul, M3.one]

theorem addM_mul (A B G : M3 K) : M3.mul (addM A B) G = addM (M3.mul A G) (M3.mul B G) := by
  ext <;> simp only [M3.mul, M3.vecMul, addM, add_x, add_y, add_z] <;> ring

theorem zeroM_mul (G : M3 K) : M3.mul zeroM G = zeroM := by
  ext <;> simp [M3.mul, M3.vecMul, zeroM, zero3]

theorem mul_zeroM (A : M3 K) : M3.mul A zeroM = zeroM := by
  ext <;> simp [M3.mul, M3.vecMul, zeroM, zero3]

theorem addM_zeroM (A : M3 K) : addM A zeroM = A := by
  ext <;> simp [addM, zeroM, zero3]

theorem outer_vecMul (q : V3 K) (G : M3 K) : outer q (M3.vecMul q G) = M3.mul (outer q q) G := by
  ext <;> simp only [outer, M3.mul, M3.vecMul, smul_x, smul_y, smul_z] <;> ring

theorem outer_zero (q : V3 K) : outer q zero3 = zeroM := by
  ext <;> simp [outer, zeroM, zero3, V3.smul]

theorem mulVec_eq_vecMul_transpose (A : M3 K) (v : V3 K) : M3.mulVec A v = M3.vecMul v A.transpose := by
  ext <;> simp only [M3.mulVec, M3.vecMul, M3.transpose, V3.dot] <;> ring

theorem mulVec_mul (A B : M3 K) (v : V3 K) : M3.mulVec (M3.mul A B) v = M3.mulVec A (M3.mulVec B v) := by
  ext <;> simp only [M3.mulVec, M3.mul, M3.vecMul, V3.dot] <;> ring

theorem one_mulVec (v : V3 K) : M3.mulVec (M3.one : M3 K) v = v := by
  ext <;> simp [M3.mulVec, M3.one, V3.dot]

/-- the adjugate formula of `M3.inv` is a left inverse when the determinant does not vanish. -/
theorem inv_mul_cancel3 (A : M3 K) (h : M3.det A ≠ 0) : M3.mul (M3.inv A) A = M3.one := by
  have h' := h
  simp only [M3.det, V3.dot, V3.cross] at h'
  have hr := mul_inv_cancel₀ h'
  ext <;> simp only [M3.mul, M3.vecMul, M3.inv, M3.det, V3.dot, V3.cross, M3.one, div_eq_mul_inv] <;>
    first | linear_combination hr | ring

/-- uniqueness of the solution of `A G = B` for invertible `A`. -/
theorem solve_unique (A G B : M3 K) (h : M3.det A ≠ 0) (hG : M3.mul A G = B) : G = M3.mul (M3.inv A) B := by
  rw [← hG, ← mul_assoc3, inv_mul_cancel3 A h, one_mul3]

end mat

/-! ### normal equations -/

theorem qt_fold_linear (G : M3 K) :
    ∀ (pairs : List (V3 K × V3 K)) (accQ accP : M3 K),
      (∀ e ∈ pairs, e.1 = M3.vecMul e.2 G) → accP = M3.mul accQ G →
      pairs.foldl (fun m e => addM m (outer e.2 e.1)) accP
        = M3.mul (pairs.foldl (fun m e => addM m (outer e.2 e.2)) accQ) G
  | [], accQ, accP, _, h => by simpa using h
  | e :: l, accQ, accP, hp, h => by
    simp only [List.foldl_cons]
    apply qt_fold_linear G l
    · exact fun e' he' => hp e' (List.mem_cons_of_mem _ he')
    · rw [addM_mul, ← h, hp e List.mem_cons_self, outer_vecMul]

/-- if every matched row satisfies `p = qᵀ G` then `QᵀP = (QᵀQ) G`. -/
theorem qtp_of_linear (G : M3 K) (pairs : List (V3 K × V3 K)) (hp : ∀ e ∈ pairs, e.1 = M3.vecMul e.2 G) :
    qtp pairs = M3.mul (qtq pairs) G :=
  qt_fold_linear G pairs zeroM zeroM hp (zeroM_mul G).symm

theorem qtp_zero : ∀ (pairs : List (V3 K × V3 K)) (acc : M3 K), (∀ e ∈ pairs, e.1 = zero3) →
    pairs.foldl (fun m e => addM m (outer e.2 e.1)) acc = acc
  | [], _, _ => rfl
  | e :: l, acc, h => by
    simp only [List.foldl_cons]
    rw [h e List.mem_cons_self, outer_zero, addM_zeroM]
    exact qtp_zero l acc (fun e' he' => h e' (List.mem_cons_of_mem _ he'))

/-! ### more matrix algebra (right inverse, transposes), list folds -/

section more
/-- ... and a right inverse. -/
theorem mul_inv_cancel3 (A : M3 K) (h : M3.det A ≠ 0) : M3.mul A (M3.inv A) = M3.one := by
  have h' := h
  simp only [M3.det, V3.dot, V3.cross] at h'
  have hr := mul_inv_cancel₀ h'
  ext <;> simp only [M3.mul, M3.vecMul, M3.inv, M3.det, V3.dot, V3.cross, M3.one, div_eq_mul_inv] <;>
    first | linear_combination hr | ring

theorem vecMul_mul (v : V3 K) (A B : M3 K) : M3.vecMul (M3.vecMul v A) B = M3.vecMul v (M3.mul A B) := by
  ext <;> simp only [M3.mul, M3.vecMul] <;> ring

theorem vecMul_one (v : V3 K) : M3.vecMul v (M3.one : M3 K) = v := by
  ext <;> simp [M3.vecMul, M3.one]

theorem det_transpose (A : M3 K) : M3.det A.transpose = M3.det A := by
  simp only [M3.det, M3.transpose, V3.dot, V3.cross]; ring

theorem subM_self (A : M3 K) : subM A A = zeroM := by
  ext <;> simp [subM, zeroM, zero3]

theorem foldl_congr_mem {α β : Type} (f g : β → α → β) : ∀ (l : List α) (b : β), (∀ b, ∀ a ∈ l, f b a = g b a) →
    l.foldl f b = l.foldl g b
  | [], _, _ => rfl
  | a :: l, b, h => by
    simp only [List.foldl_cons, h b a List.mem_cons_self]
    exact foldl_congr_mem f g l _ (fun b a ha => h b a (List.mem_cons_of_mem _ ha))

theorem foldl_map' {α β γ : Type} (f : β → γ → β) (g : α → γ) : ∀ (l : List α) (b : β),
    (l.map g).foldl f b = l.foldl (fun b a => f b (g a)) b
  | [], _ => rfl
  | a :: l, b => by simp only [List.map_cons, List.foldl_cons]; exact foldl_map' f g l _

/-- `dvect` sees only the difference of its two points. -/
theorem dv_translate (c : Cell K) (a b t : V3 K) : c.dv (a + t) (b + t) = c.dv a b := by
  have e : (b + t) - (a + t) = b - a := by
    ext <;> simp only [sub_x, sub_y, sub_z, add_x, add_y, add_z] <;> ring
  simp only [Cell.dv, dvect, e]

end more

/-! ### rigid slip: folds of the slip-vector accumulation -/

/-- two-valued displacement field: `uA` on the half `side = true`, `uB` on the other. -/
def twoValued (side : Nat → Bool) (uA uB : V3 K) (j : Nat) : V3 K := if side j then uA else uB

/-- the slip vector is the sum over neighbours of `(u_i - u_j)` whenever no image flips. -/
theorem slip_fold (c : Cell K) (pos0 pos1 : Nat → V3 K) (u : Nat → V3 K) (i : Nat) :
    ∀ (nbrs : List Nat) (acc : V3 K),
      (∀ j ∈ nbrs, c.dv (pos1 i) (pos1 j) = c.dv (pos0 i) (pos0 j) + (u j - u i)) →
      nbrs.foldl (slipStep c pos0 pos1 i) acc = nbrs.foldl (fun a j => a + (u i - u j)) acc
  | [], _, _ => rfl
  | j :: l, acc, h => by
    simp only [List.foldl_cons]
    have : slipStep c pos0 pos1 i acc j = acc + (u i - u j) := by
      simp only [slipStep, h j List.mem_cons_self]
      ext <;> simp only [sub_x, sub_y, sub_z, add_x, add_y, add_z] <;> ring
    rw [this]
    exact slip_fold c pos0 pos1 u i l _ (fun j' hj' => h j' (List.mem_cons_of_mem _ hj'))

/-- the displacement of the *other* half. -/
def otherHalf (side : Nat → Bool) (uA uB : V3 K) (i : Nat) : V3 K := if side i then uB else uA

theorem rigid_fold (side : Nat → Bool) (uA uB : V3 K) (i : Nat) :
    ∀ (nbrs : List Nat) (acc : V3 K),
      nbrs.foldl (fun a j => a + (twoValued side uA uB i - twoValued side uA uB j)) acc
        = acc + V3.smul ((nbrs.countP (fun j => side j != side i) : Nat) : K)
            (twoValued side uA uB i - otherHalf side uA uB i)
  | [], acc => by
    ext <;> simp
  | j :: l, acc => by
    simp only [List.foldl_cons]
    rw [rigid_fold side uA uB i l, List.countP_cons]
    by_cases h : side j = side i
    · have e : twoValued side uA uB j = twoValued side uA uB i := by simp only [twoValued, h]
      rw [e]
      ext <;> simp [h]
    · have hb : (side j != side i) = true := by simpa using h
      have e : twoValued side uA uB j = otherHalf side uA uB i := by
        simp only [twoValued, otherHalf]
        cases hj : side j <;> cases hi : side i <;> simp_all
      rw [e]
      ext <;> simp only [hb, if_true, Nat.cast_add, Nat.cast_one, add_x, add_y, add_z, smul_x, smul_y, smul_z,
        sub_x, sub_y, sub_z] <;> ring

/-! ### disregistry: `isclose`, `unique`, means and interpolation of constants, `min`/`max` -/

theorem absK_nonneg (x : K) : 0 ≤ absK x := by
  unfold absK; split <;> linarith

theorem isclose_self (atol rtol a : K) (ha : 0 ≤ atol) (hr : 0 ≤ rtol) : isclose atol rtol a a = true := by
  have h0 : absK (a - a) = 0 := by simp [absK]
  have := absK_nonneg a
  simp only [isclose, h0, decide_eq_true_eq]
  positivity

theorem dedupSorted_subset : ∀ (l : List K) (x : K), x ∈ dedupSorted l → x ∈ l
  | [], x, h => by simp [dedupSorted] at h
  | [a], x, h => by simpa [dedupSorted] using h
  | a :: b :: rest, x, h => by
    simp only [dedupSorted] at h
    split at h
    · exact List.mem_cons_of_mem _ (dedupSorted_subset (b :: rest) x h)
    · rcases List.mem_cons.mp h with h | h
      · rw [h]; exact List.mem_cons_self
      · exact List.mem_cons_of_mem _ (dedupSorted_subset (b :: rest) x h)

theorem dedupSorted_ne_nil : ∀ (l : List K), l ≠ [] → dedupSorted l ≠ []
  | [], h => absurd rfl h
  | [a], _ => by simp [dedupSorted]
  | a :: b :: rest, _ => by
    simp only [dedupSorted]
    split
    · exact dedupSorted_ne_nil (b :: rest) (by simp)
    · simp

theorem mem_insertSorted (a x : K) : ∀ (l : List K), x ∈ insertSorted a l ↔ x = a ∨ x ∈ l
  | [] => by simp [insertSorted]
  | b :: l => by
    simp only [insertSorted]
    split
    · simp
    · simp only [List.mem_cons, mem_insertSorted a x l]
      constructor
      · rintro (h | h | h)
        · exact Or.inr (Or.inl h)
        · exact Or.inl h
        · exact Or.inr (Or.inr h)
      · rintro (h | h | h)
        · exact Or.inr (Or.inl h)
        · exact Or.inl h
        · exact Or.inr (Or.inr h)

theorem mem_sortK (x : K) : ∀ (l : List K), x ∈ sortK l ↔ x ∈ l
  | [] => by simp [sortK]
  | a :: l => by
    have := mem_sortK x l
    simp only [sortK, List.foldr_cons] at this ⊢
    rw [mem_insertSorted, this, List.mem_cons]

theorem unique_subset (l : List K) : ∀ x ∈ unique l, x ∈ l := fun x hx =>
  (mem_sortK x l).mp (dedupSorted_subset _ x hx)

theorem unique_ne_nil (l : List K) (h : l ≠ []) : unique l ≠ [] := by
  apply dedupSorted_ne_nil
  obtain ⟨a, ha⟩ := List.exists_mem_of_ne_nil l h
  exact List.ne_nil_of_mem ((mem_sortK a l).mpr ha)

/-- **interpolation of a constant is the constant** (`numpy.interp` with all `fp` equal). -/
theorem interp_const (c x : K) : ∀ (pts : List (K × K)), pts ≠ [] → (∀ p ∈ pts, p.2 = c) → interp pts x = c
  | [], h, _ => absurd rfl h
  | [(x0, f0)], _, h => by simp only [interp]; exact h (x0, f0) List.mem_cons_self
  | (x0, f0) :: (x1, f1) :: rest, _, h => by
    have h0 : f0 = c := h (x0, f0) List.mem_cons_self
    have h1 : f1 = c := h (x1, f1) (List.mem_cons_of_mem _ List.mem_cons_self)
    simp only [interp]
    split
    · split
      · exact h0
      · rw [h0, h1]; simp
    · exact interp_const c x ((x1, f1) :: rest) (by simp) (fun p hp => h p (List.mem_cons_of_mem _ hp))

theorem interpV_const (xs : List K) (hne : xs ≠ []) (u : V3 K) (x : K) :
    interpV xs (xs.map fun _ => u) x = u := by
  have key : ∀ c : K, interp (xs.zip (xs.map fun _ => c)) x = c := by
    intro c
    apply interp_const
    · obtain ⟨a, l, rfl⟩ := List.exists_cons_of_ne_nil hne
      simp
    · intro p hp
      have := (List.of_mem_zip hp).2
      simp only [List.mem_map] at this
      obtain ⟨_, _, h⟩ := this
      exact h.symm
  unfold interpV
  simp only [List.map_map, Function.comp_def]
  ext <;> simp only [key]

theorem sumV_fold_const (u : V3 K) : ∀ (l : List (V3 K)) (acc : V3 K), (∀ v ∈ l, v = u) →
    l.foldl (· + ·) acc = acc + V3.smul ((l.length : Nat) : K) u
  | [], acc, _ => by ext <;> simp
  | v :: l, acc, h => by
    simp only [List.foldl_cons, List.length_cons]
    rw [sumV_fold_const u l _ (fun w hw => h w (List.mem_cons_of_mem _ hw)), h v List.mem_cons_self]
    ext <;> simp only [add_x, add_y, add_z, smul_x, smul_y, smul_z, Nat.cast_add, Nat.cast_one] <;> ring

/-- the mean of a non-empty list of equal vectors is that vector. -/
theorem meanV_const (u : V3 K) (l : List (V3 K)) (hne : l ≠ []) (h : ∀ v ∈ l, v = u) : meanV l = u := by
  have hn : ((l.length : Nat) : K) ≠ 0 := by
    have : l.length ≠ 0 := by simpa using hne
    exact_mod_cast this
  unfold meanV sumV
  rw [sumV_fold_const u l zero3 h]
  ext <;> simp only [add_x, add_y, add_z, smul_x, smul_y, smul_z, zero3_x, zero3_y, zero3_z, zero_add] <;> field_simp

theorem planeMeans_const (atol rtol : K) (ha : 0 ≤ atol) (hr : 0 ≤ rtol) (plane : List (K × V3 K)) (u : V3 K)
    (hu : ∀ a ∈ plane, a.2 = u) (ux : List K) (hux : ∀ ix ∈ ux, ix ∈ plane.map (·.1)) :
    planeMeans atol rtol plane ux = ux.map fun _ => u := by
  unfold planeMeans
  apply List.map_congr_left
  intro ix hix
  apply meanV_const
  · obtain ⟨a, ha', hax⟩ := List.mem_map.mp (hux ix hix)
    apply List.ne_nil_of_mem (a := a.2)
    apply List.mem_map.mpr
    refine ⟨a, List.mem_filter.mpr ⟨ha', ?_⟩, rfl⟩
    simp only [hax]
    exact isclose_self atol rtol ix ha hr
  · intro v hv
    obtain ⟨a, ha', rfl⟩ := List.mem_map.mp hv
    exact hu a (List.mem_filter.mp ha').1

theorem fold_sel_mem (f : K → K → K) (hf : ∀ m x, f m x = m ∨ f m x = x) :
    ∀ (l : List K) (a : K), l.foldl f a ∈ a :: l
  | [], a => by simp
  | x :: l, a => by
    simp only [List.foldl_cons]
    have := fold_sel_mem f hf l (f a x)
    rcases List.mem_cons.mp this with h | h
    · rw [h]
      rcases hf a x with h' | h' <;> rw [h'] <;> simp
    · exact List.mem_cons_of_mem _ (List.mem_cons_of_mem _ h)

theorem minL_mem (l : List K) (m : K) (h : minL l = some m) : m ∈ l := by
  cases l with
  | nil => simp [minL] at h
  | cons a l =>
    simp only [minL, Option.some.injEq] at h
    rw [← h]
    apply fold_sel_mem
    intro m x; by_cases hx : x < m <;> simp [hx]

theorem maxL_mem (l : List K) (m : K) (h : maxL l = some m) : m ∈ l := by
  cases l with
  | nil => simp [maxL] at h
  | cons a l =>
    simp only [maxL, Option.some.injEq] at h
    rw [← h]
    apply fold_sel_mem
    intro m x; by_cases hx : m < x <;> simp [hx]

/-! ### `match_pq`: the inner (best match) loop and the conflict loop -/

/-- `ps[k]` is the match the inner loop of `match_pq` selects for `q`: its cosine exceeds `cos θ_max`, strictly
    exceeds that of every earlier `p` and is not exceeded by a later one. -/
def IsBest (mag : V3 K → K) (cosMax : K) (ps : List (V3 K)) (q : V3 K) (k : Nat) : Prop :=
  ∃ pre pk post, ps = pre ++ pk :: post ∧ pre.length = k ∧ cosMax < cosTheta mag q pk ∧
    (∀ p ∈ pre, cosTheta mag q p < cosTheta mag q pk) ∧ (∀ p ∈ post, cosTheta mag q p ≤ cosTheta mag q pk)

theorem best_prefix (mag : V3 K → K) (q : V3 K) (c : K) :
    ∀ (pre : List (V3 K)) (st : K × Option Nat × Nat), st.1 < c → (∀ p ∈ pre, cosTheta mag q p < c) →
      (pre.foldl (bestStep mag q) st).1 < c ∧ (pre.foldl (bestStep mag q) st).2.2 = st.2.2 + pre.length
  | [], st, h, _ => ⟨h, rfl⟩
  | p :: l, st, h, hp => by
    simp only [List.foldl_cons, List.length_cons]
    have hl := fun p' hp' => hp p' (List.mem_cons_of_mem _ hp')
    have h1 : (bestStep mag q st p).1 < c := by
      simp only [bestStep]; split
      · exact hp p List.mem_cons_self
      · exact h
    have h2 : (bestStep mag q st p).2.2 = st.2.2 + 1 := by
      simp only [bestStep]; split <;> rfl
    have := best_prefix mag q c l _ h1 hl
    rw [h2] at this
    exact ⟨this.1, by rw [this.2]; omega⟩

theorem best_suffix (mag : V3 K → K) (q : V3 K) (c : K) (k : Nat) :
    ∀ (post : List (V3 K)) (n : Nat), (∀ p ∈ post, cosTheta mag q p ≤ c) →
      (post.foldl (bestStep mag q) (c, some k, n)).2.1 = some k
  | [], _, _ => rfl
  | p :: l, n, hp => by
    simp only [List.foldl_cons]
    have : bestStep mag q (c, some k, n) p = (c, some k, n + 1) := by
      simp only [bestStep]
      rw [if_neg (not_lt.mpr (hp p List.mem_cons_self))]
    rw [this]
    exact best_suffix mag q c k l _ (fun p' hp' => hp p' (List.mem_cons_of_mem _ hp'))

/-- the inner loop returns the best match. -/
theorem bestP_of_isBest (mag : V3 K → K) (cosMax : K) (ps : List (V3 K)) (q : V3 K) (k : Nat)
    (h : IsBest mag cosMax ps q k) : bestP mag cosMax q ps = some k := by
  obtain ⟨pre, pk, post, rfl, hk, hc, hpre, hpost⟩ := h
  unfold bestP
  rw [List.foldl_append, List.foldl_cons]
  obtain ⟨h1, h2⟩ := best_prefix mag q (cosTheta mag q pk) pre (cosMax, none, 0) hc hpre
  have : bestStep mag q (pre.foldl (bestStep mag q) (cosMax, none, 0)) pk = (cosTheta mag q pk, some k, k + 1) := by
    simp only [bestStep]
    rw [if_pos h1, h2]
    simp [hk]
  rw [this]
  exact best_suffix mag q _ k post _ hpost

/-- nothing exceeds `cos θ_max`: the inner loop leaves `qp_pairs[j] = -1`. -/
theorem bestP_none (mag : V3 K → K) (cosMax : K) (q : V3 K) :
    ∀ (ps : List (V3 K)) (n : Nat), (∀ p ∈ ps, cosTheta mag q p ≤ cosMax) →
      (ps.foldl (bestStep mag q) (cosMax, none, n)).2.1 = none
  | [], _, _ => rfl
  | p :: l, n, hp => by
    simp only [List.foldl_cons]
    have : bestStep mag q (cosMax, none, n) p = (cosMax, none, n + 1) := by
      simp only [bestStep]
      rw [if_neg (not_lt.mpr (hp p List.mem_cons_self))]
    rw [this]
    exact bestP_none mag cosMax q l _ (fun p' hp' => hp p' (List.mem_cons_of_mem _ hp'))

theorem isBest_get (mag : V3 K → K) (cosMax : K) (ps : List (V3 K)) (q : V3 K) (k : Nat)
    (h : IsBest mag cosMax ps q k) : ∃ p, ps[k]? = some p ∧ cosMax < cosTheta mag q p := by
  obtain ⟨pre, pk, post, rfl, hk, hc, _, _⟩ := h
  exact ⟨pk, by rw [← hk]; simp, hc⟩

/-- the conflict loop is a no-op when no earlier `q` holds the same `p`. -/
theorem dedupe_noconflict (mag : V3 K → K) (r1 : K) (qj : V3 K) (a : Nat) :
    ∀ (prev acc : List (V3 K × Option Nat)), (∀ e ∈ prev, e.2 ≠ some a) →
      prev.foldl (dedupeStep mag r1 qj) (acc, some a) = (acc ++ prev, some a)
  | [], acc, _ => by simp
  | e :: l, acc, h => by
    simp only [List.foldl_cons]
    have : dedupeStep mag r1 qj (acc, some a) e = (acc ++ [e], some a) := by
      have hne := h e List.mem_cons_self
      unfold dedupeStep
      cases hb : e.2 with
      | none => simp
      | some b =>
        have : a ≠ b := fun hab => hne (by rw [hb, hab])
        simp [this]
    rw [this, dedupe_noconflict mag r1 qj a l _ (fun e' he' => h e' (List.mem_cons_of_mem _ he'))]
    simp

theorem qpPairs_fold (mag : V3 K → K) (cosMax r1 : K) (ps : List (V3 K)) :
    ∀ (qs : List (V3 K)) (ks : List Nat) (prev : List (V3 K × Option Nat)),
      qs.length = ks.length →
      (∀ e ∈ qs.zip ks, IsBest mag cosMax ps e.1 e.2) →
      ks.Nodup → (∀ k ∈ ks, ∀ e ∈ prev, e.2 ≠ some k) →
      qs.foldl (pairStep mag cosMax r1 ps) prev = prev ++ (qs.zip ks).map (fun e => (e.1, some e.2))
  | [], _, prev, _, _, _, _ => by simp
  | q :: qs, [], _, h, _, _, _ => by simp at h
  | q :: qs, k :: ks, prev, hlen, hbest, hnd, hprev => by
    simp only [List.foldl_cons, List.zip_cons_cons, List.map_cons]
    have hb := bestP_of_isBest mag cosMax ps q k (hbest (q, k) (by simp))
    have hstep : pairStep mag cosMax r1 ps prev q = prev ++ [(q, some k)] := by
      simp only [pairStep, hb]
      rw [dedupe_noconflict mag r1 q k prev [] (hprev k List.mem_cons_self)]
      simp
    rw [hstep]
    have hnd' := List.nodup_cons.mp hnd
    rw [qpPairs_fold mag cosMax r1 ps qs ks _ (by simpa using hlen)
      (fun e he => hbest e (by simp [he])) hnd'.2]
    · simp
    · intro k' hk' e he
      rcases List.mem_append.mp he with he | he
      · exact hprev k' (List.mem_cons_of_mem _ hk') e he
      · simp only [List.mem_singleton] at he
        rw [he]
        simp only [ne_eq, Option.some.injEq]
        intro h; rw [h] at hnd'; exact hnd'.1 hk'

/-- `QᵀQ` depends on the matched `q` rows only. -/
def qtqV (qs : List (V3 K)) : M3 K := qs.foldl (fun m q => addM m (outer q q)) zeroM

theorem qtq_eq_qtqV (pairs : List (V3 K × V3 K)) : qtq pairs = qtqV (pairs.map (·.2)) := by
  unfold qtq qtqV
  rw [foldl_map']

/-! ### Nye tensor of a vanishing right-hand side -/

theorem solveNormal_zero (pairs : List (V3 K × V3 K)) (h : ∀ e ∈ pairs, e.1 = zero3) :
    solveNormal pairs = zeroM := by
  unfold solveNormal qtp
  rw [qtp_zero pairs zeroM h, mul_zeroM]

theorem nyeOf_zero : nyeOf ((zeroM : M3 K), (zeroM : M3 K), (zeroM : M3 K)) = zeroM := by
  ext <;> simp [nyeOf, zeroM, zero3, M3.row, V3.get]

/-! ### cosines of a vector with itself / a non-parallel vector; positions in `zip … range` -/

theorem dot_comm' (a b : V3 K) : V3.dot a b = V3.dot b a := by
  simp only [V3.dot]; ring

theorem cosTheta_self (mag : V3 K → K) (p : V3 K) (h0 : 0 < mag p) (h1 : mag p * mag p = V3.normSq p) :
    cosTheta mag p p = 1 := by
  unfold cosTheta
  rw [h1]
  have : V3.normSq p ≠ 0 := by rw [← h1]; positivity
  exact div_self this

theorem cosTheta_lt_one (mag : V3 K → K) (q p : V3 K) (hq : 0 < mag q) (hp : 0 < mag p)
    (h : V3.dot q p < mag q * mag p) : cosTheta mag q p < 1 := by
  unfold cosTheta
  rw [div_lt_one (by positivity)]
  exact h

theorem mem_zip_range {α : Type} : ∀ (l : List α) (n : Nat) (e : α × Nat), e ∈ l.zip (List.range' n l.length) →
    ∃ pre post, l = pre ++ e.1 :: post ∧ n + pre.length = e.2
  | [], _, e, h => by simp at h
  | a :: l, n, e, h => by
    simp only [List.length_cons, List.range'_succ, List.zip_cons_cons, List.mem_cons] at h
    rcases h with rfl | h
    · exact ⟨[], l, rfl, by simp⟩
    · obtain ⟨pre, post, h1, h2⟩ := mem_zip_range l (n + 1) e h
      refine ⟨a :: pre, post, by rw [h1]; simp, ?_⟩
      simp only [List.length_cons]; omega

/-! ### `numpy.unique` (sort + dedupe): sortedness and membership -/

theorem sorted_insertSorted (a : K) : ∀ (l : List K), l.Pairwise (· ≤ ·) → (insertSorted a l).Pairwise (· ≤ ·)
  | [], _ => by simp [insertSorted]
  | b :: l, h => by
    simp only [insertSorted]
    have hb := List.pairwise_cons.mp h
    split
    · rename_i hab
      apply List.pairwise_cons.mpr
      refine ⟨?_, h⟩
      intro x hx
      rcases List.mem_cons.mp hx with rfl | hx
      · exact hab
      · exact le_trans hab (hb.1 x hx)
    · rename_i hab
      apply List.pairwise_cons.mpr
      refine ⟨?_, sorted_insertSorted a l hb.2⟩
      intro x hx
      rcases (mem_insertSorted a x l).mp hx with rfl | hx
      · exact le_of_lt (not_le.mp hab)
      · exact hb.1 x hx

theorem sorted_sortK : ∀ (l : List K), (sortK l).Pairwise (· ≤ ·)
  | [] => by simp [sortK]
  | a :: l => by
    have := sorted_sortK l
    simp only [sortK, List.foldr_cons] at this ⊢
    exact sorted_insertSorted a _ this

theorem mem_dedupSorted (x : K) : ∀ (l : List K), x ∈ l → x ∈ dedupSorted l
  | [], h => by simp at h
  | [a], h => by simpa [dedupSorted] using h
  | a :: b :: rest, h => by
    simp only [dedupSorted]
    split
    · rename_i hab
      rcases List.mem_cons.mp h with rfl | h
      · exact mem_dedupSorted x (b :: rest) (by rw [hab]; exact List.mem_cons_self)
      · exact mem_dedupSorted x (b :: rest) h
    · rcases List.mem_cons.mp h with rfl | h
      · exact List.mem_cons_self
      · exact List.mem_cons_of_mem _ (mem_dedupSorted x (b :: rest) h)

theorem strict_dedupSorted : ∀ (l : List K), l.Pairwise (· ≤ ·) → (dedupSorted l).Pairwise (· < ·)
  | [], _ => by simp [dedupSorted]
  | [a], _ => by simp [dedupSorted]
  | a :: b :: rest, h => by
    simp only [dedupSorted]
    have ha := List.pairwise_cons.mp h
    split
    · exact strict_dedupSorted (b :: rest) ha.2
    · rename_i hab
      apply List.pairwise_cons.mpr
      refine ⟨?_, strict_dedupSorted (b :: rest) ha.2⟩
      intro x hx
      have hx' := dedupSorted_subset _ x hx
      have hab' : a < b := lt_of_le_of_ne (ha.1 b List.mem_cons_self) hab
      rcases List.mem_cons.mp hx' with rfl | hx'
      · exact hab'
      · exact lt_of_lt_of_le hab' ((List.pairwise_cons.mp ha.2).1 x hx')

/-! ### homogeneous deformation of positions and box -/

theorem shiftBy_deformed (F V : M3 K) (p0 p1 : V3 K) (t : Shift) :
    shiftBy (M3.mul V F.transpose) (M3.mulVec F p1 - M3.mulVec F p0) t = M3.mulVec F (shiftBy V (p1 - p0) t) := by
  ext <;> simp only [shiftBy, M3.mul, M3.vecMul, M3.mulVec, M3.transpose, V3.dot, sub_x, sub_y, sub_z] <;> ring

end Atomman.C17
