/-
  C17 — helper lemmas: V3/M3 component algebra, the strict-minimum invariant of the `dvect` replacement
  fold (proved here independently of Proofs/C02), Cauchy–Schwarz, 3x3 inverse, normal equations.
-/
import Atomman.C17
import Mathlib.Tactic.Ring
import Mathlib.Tactic.Linarith
import Mathlib.Tactic.FieldSimp
import Mathlib.Tactic.LinearCombination
import Mathlib.Algebra.Order.Field.Basic

namespace Atomman.C17
open Atomman
set_option linter.unusedSectionVars false
set_option linter.unusedSimpArgs false
set_option linter.unusedVariables false

section comps
variable {K : Type}
@[simp] theorem add_x [Add K] (a b : V3 K) : (a + b).x = a.x + b.x := rfl
@[simp] theorem add_y [Add K] (a b : V3 K) : (a + b).y = a.y + b.y := rfl
@[simp] theorem add_z [Add K] (a b : V3 K) : (a + b).z = a.z + b.z := rfl
@[simp] theorem sub_x [Sub K] (a b : V3 K) : (a - b).x = a.x - b.x := rfl
@[simp] theorem sub_y [Sub K] (a b : V3 K) : (a - b).y = a.y - b.y := rfl
@[simp] theorem sub_z [Sub K] (a b : V3 K) : (a - b).z = a.z - b.z := rfl
@[simp] theorem smul_x [Mul K] (c : K) (a : V3 K) : (V3.smul c a).x = c * a.x := rfl
@[simp] theorem smul_y [Mul K] (c : K) (a : V3 K) : (V3.smul c a).y = c * a.y := rfl
@[simp] theorem smul_z [Mul K] (c : K) (a : V3 K) : (V3.smul c a).z = c * a.z := rfl
@[simp] theorem zero3_x [Zero K] : (zero3 : V3 K).x = 0 := rfl
@[simp] theorem zero3_y [Zero K] : (zero3 : V3 K).y = 0 := rfl
@[simp] theorem zero3_z [Zero K] : (zero3 : V3 K).z = 0 := rfl
end comps

abbrev Shift := Int × Int × Int

/-- the candidates the loops of `dvect_c` visit: the direct separation first, then the image shifts. -/
def cands (px py pz : Bool) : List Shift := (0, 0, 0) :: imageShifts px py pz

variable {K : Type} [Field K] [LinearOrder K] [IsStrictOrderedRing K]

theorem shiftBy_zero (V : M3 K) (d : V3 K) : shiftBy V d (0, 0, 0) = d := by
  ext <;> simp [shiftBy]

theorem shiftBy_add (V : M3 K) (d w : V3 K) (s : Shift) : shiftBy V (d + w) s = shiftBy V d s + w := by
  ext <;> simp only [shiftBy, add_x, add_y, add_z] <;> ring

theorem normSq_add (a w : V3 K) :
    V3.normSq (a + w) = V3.normSq a + 2 * V3.dot w a + V3.normSq w := by
  simp only [V3.normSq, V3.dot, add_x, add_y, add_z]; ring

theorem dot_sub (w a b : V3 K) : V3.dot w (a - b) = V3.dot w a - V3.dot w b := by
  simp only [V3.dot, sub_x, sub_y, sub_z]; ring

/-- Cauchy–Schwarz through the Lagrange identity. -/
theorem cauchy_schwarz (a b : V3 K) : V3.dot a b ^ 2 ≤ V3.normSq a * V3.normSq b := by
  simp only [V3.normSq, V3.dot]
  nlinarith [sq_nonneg (a.x * b.y - a.y * b.x), sq_nonneg (a.x * b.z - a.z * b.x),
    sq_nonneg (a.y * b.z - a.z * b.y)]

/-! ### the replacement fold returns the strict minimum -/

/-- if every candidate either *is* `m` or is strictly longer than `m`, and `m` occurs (as the start value or in the
    list), the fold of `dvect_c`'s loop body returns `m`. -/
theorem fold_strict_min (V : M3 K) (d0 : V3 K) (m : V3 K) :
    ∀ (l : List Shift) (acc : V3 K),
      (acc = m ∨ ∃ s ∈ l, shiftBy V d0 s = m) →
      (acc = m ∨ V3.normSq m < V3.normSq acc) →
      (∀ s ∈ l, shiftBy V d0 s = m ∨ V3.normSq m < V3.normSq (shiftBy V d0 s)) →
      l.foldl (dvectStep V d0) acc = m
  | [], acc, hm, _, _ => by
    rcases hm with h | ⟨s, hs, _⟩
    · simpa using h
    · cases hs
  | s :: l, acc, hm, hacc, hl => by
    rw [List.foldl_cons]
    have hl' : ∀ t ∈ l, shiftBy V d0 t = m ∨ V3.normSq m < V3.normSq (shiftBy V d0 t) :=
      fun t ht => hl t (List.mem_cons_of_mem _ ht)
    rcases hl s List.mem_cons_self with hs | hs
    · -- the candidate is `m`
      have : dvectStep V d0 acc s = m := by
        simp only [dvectStep]
        split
        · exact hs
        · rename_i hn
          rcases hacc with h | h
          · exact h
          · exact absurd (hs ▸ h) hn
      rw [this]
      exact fold_strict_min V d0 m l m (Or.inl rfl) (Or.inl rfl) hl'
    · -- the candidate is strictly longer than `m`
      have hne : shiftBy V d0 s ≠ m := fun h => by rw [h] at hs; exact lt_irrefl _ hs
      have hm' : acc = m ∨ ∃ t ∈ l, shiftBy V d0 t = m := by
        rcases hm with h | ⟨t, ht, he⟩
        · exact Or.inl h
        · rcases List.mem_cons.mp ht with h | h
          · exact absurd (h ▸ he) hne
          · exact Or.inr ⟨t, h, he⟩
      simp only [dvectStep]
      split
      · rename_i hlt
        refine fold_strict_min V d0 m l _ ?_ (Or.inr hs) hl'
        rcases hm' with h | h
        · rw [h] at hlt; exact absurd hs (lt_asymm hlt)
        · exact Or.inr h
      · exact fold_strict_min V d0 m l acc hm' hacc hl'

/-- `dvect` returns candidate `s` whenever every other candidate of the loops is `s`'s vector or strictly longer. -/
theorem dvect_eq_of_strict_min (V : M3 K) (px py pz : Bool) (p0 p1 : V3 K) (s : Shift)
    (hs : s ∈ cands px py pz)
    (hmin : ∀ t ∈ cands px py pz, shiftBy V (p1 - p0) t = shiftBy V (p1 - p0) s ∨
      V3.normSq (shiftBy V (p1 - p0) s) < V3.normSq (shiftBy V (p1 - p0) t)) :
    dvect V px py pz p0 p1 = shiftBy V (p1 - p0) s := by
  unfold dvect
  apply fold_strict_min
  · rcases List.mem_cons.mp hs with h | h
    · left; rw [h, shiftBy_zero]
    · exact Or.inr ⟨s, h, rfl⟩
  · have := hmin (0, 0, 0) List.mem_cons_self
    rw [shiftBy_zero] at this
    exact this
  · exact fun t ht => hmin t (List.mem_cons_of_mem _ ht)

/-- the result of `dvect` always is one of the loop's candidates. -/
theorem fold_is_cand (V : M3 K) (d0 : V3 K) :
    ∀ (l : List Shift) (acc : V3 K), l.foldl (dvectStep V d0) acc = acc ∨ ∃ s ∈ l, l.foldl (dvectStep V d0) acc = shiftBy V d0 s
  | [], acc => Or.inl rfl
  | s :: l, acc => by
    rw [List.foldl_cons]
    rcases fold_is_cand V d0 l (dvectStep V d0 acc s) with h | ⟨t, ht, h⟩
    · rw [h]
      simp only [dvectStep]
      split
      · exact Or.inr ⟨s, List.mem_cons_self, rfl⟩
      · exact Or.inl rfl
    · exact Or.inr ⟨t, List.mem_cons_of_mem _ ht, h⟩

theorem dvect_is_cand (V : M3 K) (px py pz : Bool) (p0 p1 : V3 K) :
    ∃ s ∈ cands px py pz, dvect V px py pz p0 p1 = shiftBy V (p1 - p0) s := by
  unfold dvect
  rcases fold_is_cand V (p1 - p0) (imageShifts px py pz) (p1 - p0) with h | ⟨s, hs, h⟩
  · exact ⟨(0, 0, 0), List.mem_cons_self, by rw [shiftBy_zero]; exact h⟩
  · exact ⟨s, List.mem_cons_of_mem _ hs, h⟩

/-! ### 3x3 matrices -/

section mat
@[simp] theorem addM_r0 (a b : M3 K) : (addM a b).r0 = a.r0 + b.r0 := rfl
@[simp] theorem addM_r1 (a b : M3 K) : (addM a b).r1 = a.r1 + b.r1 := rfl
@[simp] theorem addM_r2 (a b : M3 K) : (addM a b).r2 = a.r2 + b.r2 := rfl

theorem mul_assoc3 (A B C : M3 K) : M3.mul (M3.mul A B) C = M3.mul A (M3.mul B C) := by
  ext <;> simp only [M3.mul, M3.vecMul] <;> ring

theorem one_mul3 (A : M3 K) : M3.mul M3.one A = A := by
  ext <;> simp [M3.mul, M3.vecMul, M3.one]

theorem addM_mul (A B G : M3 K) : M3.mul (addM A B) G = addM (M3.mul A G) (M3.mul B G) := by
  ext <;> simp only [M3.mul, M3.vecMul, addM, add_x, add_y, add_z] <;> ring

theorem zeroM_mul (G : M3 K) : M3.mul zeroM G = zeroM := by
  ext <;> simp [M3.mul, M3.vecMul, zeroM, zero3]

theorem mul_zeroM (A : M3 K) : M3.mul A zeroM = zeroM := by
  ext <;> simp [M3.mul, M3.vecMul, zeroM, zero3]

theorem addM_zeroM (A : M3 K) : addM A zeroM = A := by
  ext <;> simp [addM, zeroM, zero3]

theorem outer_vecMul (q : V3 K) (G : M3 K) : outer q (M3.vecMul q G) = M3.mul (outer q q) G := by
  ext <;> simp only [outer, M3.mul, M3.vecMul, smul_x, smul_y, smul_z] <;> ring

theorem outer_zero (q : V3 K) : outer q zero3 = zeroM := by
  ext <;> simp [outer, zeroM, zero3, V3.smul]

theorem mulVec_eq_vecMul_transpose (A : M3 K) (v : V3 K) : M3.mulVec A v = M3.vecMul v A.transpose := by
  ext <;> simp only [M3.mulVec, M3.vecMul, M3.transpose, V3.dot] <;> ring

theorem mulVec_mul (A B : M3 K) (v : V3 K) : M3.mulVec (M3.mul A B) v = M3.mulVec A (M3.mulVec B v) := by
  ext <;> simp only [M3.mulVec, M3.mul, M3.vecMul, V3.dot] <;> ring

theorem one_mulVec (v : V3 K) : M3.mulVec (M3.one : M3 K) v = v := by
  ext <;> simp [M3.mulVec, M3.one, V3.dot]

/-- the adjugate formula of `M3.inv` is a left inverse when the determinant does not vanish. -/
theorem inv_mul_cancel3 (A : M3 K) (h : M3.det A ≠ 0) : M3.mul (M3.inv A) A = M3.one := by
  have h' := h
  simp only [M3.det, V3.dot, V3.cross] at h'
  have hr := mul_inv_cancel₀ h'
  ext <;> simp only [M3.mul, M3.vecMul, M3.inv, M3.det, V3.dot, V3.cross, M3.one, div_eq_mul_inv] <;>
    first | linear_combination hr | ring

/-- uniqueness of the solution of `A G = B` for invertible `A`. -/
theorem solve_unique (A G B : M3 K) (h : M3.det A ≠ 0) (hG : M3.mul A G = B) : G = M3.mul (M3.inv A) B := by
  rw [← hG, ← mul_assoc3, inv_mul_cancel3 A h, one_mul3]

end mat

/-! ### normal equations -/

theorem qt_fold_linear (G : M3 K) :
    ∀ (pairs : List (V3 K × V3 K)) (accQ accP : M3 K),
      (∀ e ∈ pairs, e.1 = M3.vecMul e.2 G) → accP = M3.mul accQ G →
      pairs.foldl (fun m e => addM m (outer e.2 e.1)) accP
        = M3.mul (pairs.foldl (fun m e => addM m (outer e.2 e.2)) accQ) G
  | [], accQ, accP, _, h => by simpa using h
  | e :: l, accQ, accP, hp, h => by
    simp only [List.foldl_cons]
    apply qt_fold_linear G l
    · exact fun e' he' => hp e' (List.mem_cons_of_mem _ he')
    · rw [addM_mul, ← h, hp e List.mem_cons_self, outer_vecMul]

/-- if every matched row satisfies `p = qᵀ G` then `QᵀP = (QᵀQ) G`. -/
theorem qtp_of_linear (G : M3 K) (pairs : List (V3 K × V3 K)) (hp : ∀ e ∈ pairs, e.1 = M3.vecMul e.2 G) :
    qtp pairs = M3.mul (qtq pairs) G :=
  qt_fold_linear G pairs zeroM zeroM hp (zeroM_mul G).symm

theorem qtp_zero : ∀ (pairs : List (V3 K × V3 K)) (acc : M3 K), (∀ e ∈ pairs, e.1 = zero3) →
    pairs.foldl (fun m e => addM m (outer e.2 e.1)) acc = acc
  | [], _, _ => rfl
  | e :: l, acc, h => by
    simp only [List.foldl_cons]
    rw [h e List.mem_cons_self, outer_zero, addM_zeroM]
    exact qtp_zero l acc (fun e' he' => h e' (List.mem_cons_of_mem _ he'))

end Atomman.C17
