/-
  C17 — the object level: the cached derived quantities of a `Strain` object, the stored state of a
  `DifferentialDisplacement` object, and the `axes` transformation of directly given p vectors.

  Main statements
  * `SObj.solve_coherent`   after `solve_G` (with or without `theta_max`) EVERY cached quantity of the object is the
                            one that follows from the object's current inputs — whatever was cached before;
  * `SObj.read_coherent`    reading a property of a coherent object returns the value determined by the current
                            inputs alone, changes no input and keeps the object coherent;
  * `SObj.reads_after_solve` hence any sequence of reads after `solve_G` returns what a fresh object built from
                            the current inputs returns;
  * `DObj.solve_current`    after a successful `solve` the stored vectors are those of the stored systems and list;
  * `DObj.solve_forgets`    they do not depend on the vectors stored before;
  * `givenP_axes_roundtrip` p vectors expressed in a rotated frame `Tᵀ p` and handed over with `axes = T` are `p`.
-/
import Proofs.C17_Lemmas

namespace Atomman.C17
open Atomman
set_option linter.unusedSectionVars false
set_option linter.unusedSimpArgs false
set_option linter.unusedVariables false

variable {K : Type} [Field K] [LinearOrder K] [IsStrictOrderedRing K]

/-! ### p vectors given with `axes` -/

theorem transformP_roundtrip (T : M3 K) (hT : M3.mul T T.transpose = M3.one) (ps : List (V3 K)) :
    transformP T (transformP T.transpose ps) = ps := by
  unfold transformP
  rw [List.map_map]
  conv_rhs => rw [← List.map_id ps]
  apply List.map_congr_left
  intro v _
  simp only [Function.comp, id]
  rw [← mulVec_mul, hT, one_mulVec]

/-- **givenP_axes_roundtrip.** per-atom p vectors `pv i`, handed over as `Tᵀ (pv i)` together with `axes = T`
    (`T` orthogonal), are stored as `pv i`: the analysis sees the same reference as without `axes`. -/
theorem givenP_axes_roundtrip (n : Nat) (T : M3 K) (hT : M3.mul T T.transpose = M3.one)
    (pss : List (List (V3 K))) (hn : pss.length = n) (h1 : n ≠ 1) :
    ∃ pv, givenP n (.nested (pss.map (transformP T.transpose))) (some T) = some pv ∧
      ∀ i, pv i = pss.getD i [] := by
  refine ⟨fun i => transformP T ((pss.map (transformP T.transpose)).getD i []), ?_, ?_⟩
  · simp only [givenP, dispatchP, List.length_map, hn, h1, if_false, ne_eq, not_true_eq_false]
  · intro i
    by_cases hi : i < pss.length
    · simp only [List.getD_eq_getElem?_getD, List.getElem?_map, List.getElem?_eq_getElem hi, Option.map_some,
        Option.getD_some]
      exact transformP_roundtrip T hT _
    · have : pss.length ≤ i := Nat.le_of_not_lt hi
      simp only [List.getD_eq_getElem?_getD, List.getElem?_map, List.getElem?_eq_none this, Option.map_none,
        Option.getD_none]
      rfl

/-- a shared set handed over as one array (its length differs from the number of atoms and from 1) reaches every
    atom, with `axes` applied. -/
theorem givenP_shared (n : Nat) (ps : List (V3 K)) (h1 : ps.length ≠ 1) (hn : ps.length ≠ n) (axes : Option (M3 K)) :
    ∃ pv, givenP n (.flat ps) axes = some pv ∧
      ∀ i, pv i = match axes with | none => ps | some T => transformP T ps := by
  cases axes with
  | none => exact ⟨fun _ => ps, by simp only [givenP, dispatchP, h1, hn, if_false, ne_eq, not_false_eq_true, if_true], fun _ => rfl⟩
  | some T =>
    exact ⟨fun _ => transformP T ps, by simp only [givenP, dispatchP, h1, hn, if_false, ne_eq, not_false_eq_true, if_true],
      fun _ => rfl⟩

/-! ### the Strain object -/

section sobj
variable (mag : V3 K → K) (big : K)

/-- every cached quantity is the one determined by the current inputs. -/
def Coherent (o : SObj K) : Prop := ∀ p v, o.cache p = some v → o.inp.val mag big p = some v

theorem SObj.fresh_coherent (a : SIn K) : Coherent mag big (SObj.fresh a) := by
  intro p v h
  simp [SObj.fresh] at h

theorem setCache_coherent (a : SIn K) (c : SProp → Option (Payload K)) (p : SProp) (w : Payload K)
    (hc : ∀ q v, c q = some v → a.val mag big q = some v) (hw : a.val mag big p = some w) :
    Coherent mag big ⟨a, setCache c p w⟩ := by
  intro q v h
  simp only [setCache] at h
  by_cases hq : q = p
  · subst hq
    simp only [if_true, Option.some.injEq] at h
    subst h
    exact hw
  · simp only [hq, if_false] at h
    exact hc q v h

/-- the inputs after `solve_G(th)`: only `theta_max` may have changed. -/
def SObj.inpAfter (o : SObj K) (th : Option (K × K)) : SIn K :=
  match th with
  | some vc => (o.setTheta vc.1 vc.2).inp
  | none => o.inp

theorem setTheta_pvec (o : SObj K) (v c : K) : (o.setTheta v c).inp.pvec = o.inp.pvec := by
  unfold SObj.setTheta
  split <;> rfl

theorem inpAfter_pvec (o : SObj K) (th : Option (K × K)) : (o.inpAfter th).pvec = o.inp.pvec := by
  unfold SObj.inpAfter
  cases th with
  | none => rfl
  | some vc => exact setTheta_pvec o _ _

theorem SObj.solve_inp (o : SObj K) (th : Option (K × K)) : (o.solve mag big th).1.inp = if (o.solve mag big th).2 then o.inpAfter th else o.inp := by
  unfold SObj.solve SObj.inpAfter
  cases hp : o.inp.pvec with
  | none => simp
  | some pv => cases th <;> simp

/-- `solve_G` refuses exactly when no p vectors are set, and then changes nothing. -/
theorem SObj.solve_refuses (o : SObj K) (th : Option (K × K)) :
    ((o.solve mag big th).2 = false ↔ o.inp.pvec = none) ∧ ((o.solve mag big th).2 = false → (o.solve mag big th).1 = o) := by
  unfold SObj.solve
  cases hp : o.inp.pvec with
  | none => simp
  | some pv => simp

/-- **solve_coherent.**  Whatever the object had cached (also values that belong to other inputs), after
    `solve_G` every cached quantity follows from the current inputs. -/
theorem SObj.solve_coherent (o : SObj K) (th : Option (K × K)) (h : (o.solve mag big th).2 = true) :
    Coherent mag big (o.solve mag big th).1 := by
  unfold SObj.solve at h ⊢
  cases hp : o.inp.pvec with
  | none => simp [hp] at h
  | some pv =>
    simp only [hp]
    apply setCache_coherent
    · intro q v hq
      simp at hq
    · cases th with
      | none => simp only [SIn.val, SIn.valG, hp, Option.map_some]
      | some vc => simp only [SIn.val, SIn.valG, setTheta_pvec, hp, Option.map_some]

theorem getG_spec (o : SObj K) (h : Coherent mag big o) :
    Coherent mag big (o.getG mag big).1 ∧ (o.getG mag big).1.inp = o.inp ∧ (o.getG mag big).2 = o.inp.val mag big .G := by
  unfold SObj.getG
  cases hc : o.cache .G with
  | some v => exact ⟨h, rfl, (h _ _ hc).symm⟩
  | none =>
    simp only
    cases hp : o.inp.pvec with
    | none =>
      have : o.solve mag big none = (o, false) := by simp [SObj.solve, hp]
      rw [this]
      refine ⟨h, rfl, ?_⟩
      simp only [hc, SIn.val, SIn.valG, hp, Option.map_none]
    | some pv =>
      have hs : (o.solve mag big none).2 = true := by simp [SObj.solve, hp]
      refine ⟨SObj.solve_coherent mag big o none hs, ?_, ?_⟩
      · rw [SObj.solve_inp, hs]; rfl
      · simp [SObj.solve, hp, setCache, SIn.val, SIn.valG]

theorem derived_spec (f : Payload K → Payload K) (p : SProp) (parent : SObj K × Option (Payload K)) (a : SIn K)
    (par : Option (Payload K)) (hco : Coherent mag big parent.1) (hin : parent.1.inp = a) (hv : parent.2 = par)
    (hval : a.val mag big p = par.map f) :
    Coherent mag big (derived f p parent).1 ∧ (derived f p parent).1.inp = a ∧ (derived f p parent).2 = a.val mag big p := by
  unfold derived
  cases hp : parent.2 with
  | none =>
    simp only
    refine ⟨hco, hin, ?_⟩
    rw [hval, ← hv, hp]; rfl
  | some v =>
    simp only
    have hw : a.val mag big p = some (f v) := by rw [hval, ← hv, hp]; rfl
    refine ⟨?_, hin, hw.symm⟩
    rw [hin]
    apply setCache_coherent _ _ _ _ _ _ _ hw
    intro q w hq
    rw [← hin]
    exact hco q w hq

theorem getStrain_spec (o : SObj K) (h : Coherent mag big o) :
    Coherent mag big (o.getStrain mag big).1 ∧ (o.getStrain mag big).1.inp = o.inp ∧
      (o.getStrain mag big).2 = o.inp.val mag big .strain := by
  unfold SObj.getStrain
  cases hc : o.cache .strain with
  | some v => exact ⟨h, rfl, (h _ _ hc).symm⟩
  | none =>
    obtain ⟨h1, h2, h3⟩ := getG_spec mag big o h
    exact derived_spec mag big _ _ _ o.inp _ h1 h2 h3 rfl

theorem getRotation_spec (o : SObj K) (h : Coherent mag big o) :
    Coherent mag big (o.getRotation mag big).1 ∧ (o.getRotation mag big).1.inp = o.inp ∧
      (o.getRotation mag big).2 = o.inp.val mag big .rotation := by
  unfold SObj.getRotation
  cases hc : o.cache .rotation with
  | some v => exact ⟨h, rfl, (h _ _ hc).symm⟩
  | none =>
    obtain ⟨h1, h2, h3⟩ := getG_spec mag big o h
    exact derived_spec mag big _ _ _ o.inp _ h1 h2 h3 rfl

/-- **read_coherent.**  A read on a coherent object returns the value determined by the current inputs alone,
    changes no input and leaves the object coherent. -/
theorem SObj.read_coherent (o : SObj K) (h : Coherent mag big o) (p : SProp) :
    Coherent mag big (o.read mag big p).1 ∧ (o.read mag big p).1.inp = o.inp ∧
      (o.read mag big p).2 = o.inp.val mag big p := by
  cases p with
  | G => exact getG_spec mag big o h
  | strain => exact getStrain_spec mag big o h
  | rotation => exact getRotation_spec mag big o h
  | inv1 =>
    simp only [SObj.read]
    cases hc : o.cache .inv1 with
    | some v => exact ⟨h, rfl, (h _ _ hc).symm⟩
    | none =>
      obtain ⟨h1, h2, h3⟩ := getStrain_spec mag big o h
      exact derived_spec mag big _ _ _ o.inp _ h1 h2 h3 rfl
  | inv2 =>
    simp only [SObj.read]
    cases hc : o.cache .inv2 with
    | some v => exact ⟨h, rfl, (h _ _ hc).symm⟩
    | none =>
      obtain ⟨h1, h2, h3⟩ := getStrain_spec mag big o h
      exact derived_spec mag big _ _ _ o.inp _ h1 h2 h3 rfl
  | inv3 =>
    simp only [SObj.read]
    cases hc : o.cache .inv3 with
    | some v => exact ⟨h, rfl, (h _ _ hc).symm⟩
    | none =>
      obtain ⟨h1, h2, h3⟩ := getStrain_spec mag big o h
      exact derived_spec mag big _ _ _ o.inp _ h1 h2 h3 rfl
  | angvel2 =>
    simp only [SObj.read]
    cases hc : o.cache .angvel2 with
    | some v => exact ⟨h, rfl, (h _ _ hc).symm⟩
    | none =>
      obtain ⟨h1, h2, h3⟩ := getRotation_spec mag big o h
      exact derived_spec mag big _ _ _ o.inp _ h1 h2 h3 rfl
  | nye =>
    simp only [SObj.read]
    cases hc : o.cache .nye with
    | some v => exact ⟨h, rfl, (h _ _ hc).symm⟩
    | none =>
      obtain ⟨h1, h2, h3⟩ := getG_spec mag big o h
      exact derived_spec mag big _ _ _ o.inp _ h1 h2 h3 rfl

/-- a sequence of reads on a coherent object: the replies are the values determined by the inputs, in order. -/
theorem SObj.reads_coherent : ∀ (ps : List SProp) (o : SObj K), Coherent mag big o →
    (o.reads mag big ps).2 = ps.map (o.inp.val mag big) ∧ (o.reads mag big ps).1.inp = o.inp ∧
      Coherent mag big (o.reads mag big ps).1
  | [], o, h => ⟨rfl, rfl, h⟩
  | p :: ps, o, h => by
    obtain ⟨h1, h2, h3⟩ := SObj.read_coherent mag big o h p
    obtain ⟨r1, r2, r3⟩ := SObj.reads_coherent ps (o.read mag big p).1 h1
    simp only [SObj.reads, List.map_cons]
    refine ⟨?_, ?_, r3⟩
    · rw [r1, h2, h3]
    · rw [r2, h2]

/-- **reads_after_solve.**  After `solve_G` (with or without `theta_max`) on an object in ANY state — e.g. one
    whose p vectors, positions or `theta_max` were changed after strain, rotation, invariants, angular velocity or
    the Nye tensor had been read — every sequence of reads returns the values that follow from the current inputs,
    i.e. exactly what a fresh object built from the current inputs returns. -/
theorem SObj.reads_after_solve (o : SObj K) (th : Option (K × K)) (h : (o.solve mag big th).2 = true)
    (ps : List SProp) :
    ((o.solve mag big th).1.reads mag big ps).2 = ps.map ((o.inpAfter th).val mag big) ∧
    ((o.solve mag big th).1.reads mag big ps).2 = ((SObj.fresh (o.inpAfter th)).reads mag big ps).2 := by
  have hi : (o.solve mag big th).1.inp = o.inpAfter th := by rw [SObj.solve_inp, h]; rfl
  have a := (SObj.reads_coherent mag big ps _ (SObj.solve_coherent mag big o th h)).1
  have b := (SObj.reads_coherent mag big ps _ (SObj.fresh_coherent mag big (o.inpAfter th))).1
  rw [hi] at a
  exact ⟨a, by rw [a, b]; rfl⟩

/-- what `G` is after `solve_G`: the per-atom `solveG` of the current p vectors against the current neighbour
    vectors (so `strainG_homogeneous` applies atom by atom). -/
theorem SObj.G_after_solve (o : SObj K) (pv : Nat → List (V3 K)) (hp : o.inp.pvec = some pv) (th : Option (K × K)) :
    (o.solve mag big th).1.cache .G = some (.mats ((List.range o.inp.n).map fun i =>
      solveG mag (o.inpAfter th).cosT big (pv i) (nbrVectors o.inp.cell o.inp.pos (o.inp.nlist i) i))) := by
  unfold SObj.solve SObj.inpAfter
  simp only [hp, setCache, if_true]
  cases th with
  | none => rfl
  | some vc =>
    simp only [SObj.setTheta]
    split <;> rfl

end sobj

/-! ### the DifferentialDisplacement object -/

/-- **solve_current.**  After a successful `solve` the stored vectors are those of the stored systems, each with
    its own cell, over the stored neighbour list. -/
theorem DObj.solve_current (o : DObj K) (a : DArgs K) (h : (o.solve a).2 = none) :
    ∃ nl, (o.solve a).1.nlist = some nl ∧
      (o.solve a).1.dd = some (ddvectors (o.solve a).1.sys0.cell (o.solve a).1.sys1.cell
        (o.solve a).1.sys0.pos (o.solve a).1.sys1.pos nl) ∧
      (o.solve a).1.sys0 = a.sys0.getD o.sys0 ∧ (o.solve a).1.sys1 = a.sys1.getD o.sys1 := by
  unfold DObj.solve at h ⊢
  simp only at h ⊢
  split at h
  · simp at h
  · split at h
    · simp at h
    · split at h
      · simp at h
      · split at h
        · simp at h
        · rename_i hnn x1 r hr x2 nl hnl hne
          simp only [hnn, hr, hnl, hne, ↓reduceIte, Bool.false_eq_true]
          exact ⟨nl, rfl, rfl, trivial, trivial⟩

/-- **solve_forgets.**  The outcome of `solve` does not depend on the vectors the object held before. -/
theorem DObj.solve_forgets (o : DObj K) (a : DArgs K) (x : Option (List (V3 K))) (h : (o.solve a).2 = none) :
    ({ o with dd := x }.solve a) = (o.solve a) := by
  unfold DObj.solve at h ⊢
  simp only at h ⊢
  split at h
  · simp at h
  · split at h
    · simp at h
    · split at h
      · simp at h
      · split at h
        · simp at h
        · rename_i hnn x1 r hr x2 nl hnl hne
          simp only [hnn, hr, hnl, hne, ↓reduceIte, Bool.false_eq_true]

/-- the list `solve` uses: the given one, else the one of the reference system for the cutoff, else the stored one. -/
theorem DObj.solve_list (o : DObj K) (a : DArgs K) (h : (o.solve a).2 = none) :
    (o.solve a).1.nlist = (match a.neighbors with
      | some nl => some nl
      | none => match a.cutoff with
        | some ll => some (if (o.solve a).1.reference = 0 then ll.1 else ll.2)
        | none => o.nlist) := by
  unfold DObj.solve at h ⊢
  simp only at h ⊢
  split at h
  · simp at h
  · split at h
    · simp at h
    · split at h
      · simp at h
      · split at h
        · simp at h
        · rename_i hnn x1 r hr x2 nl hnl hne
          simp only [hnn, hr, hnl, hne, ↓reduceIte, Bool.false_eq_true]
          exact hnl.symm

/-! ### what `dvect` returns in general (no smallness assumption), atoms with one or no neighbour -/

theorem fold_le_all (V : M3 K) (d0 : V3 K) :
    ∀ (l : List Shift) (acc : V3 K),
      V3.normSq (l.foldl (dvectStep V d0) acc) ≤ V3.normSq acc ∧
      ∀ s ∈ l, V3.normSq (l.foldl (dvectStep V d0) acc) ≤ V3.normSq (shiftBy V d0 s)
  | [], acc => ⟨le_refl _, fun s hs => by cases hs⟩
  | t :: l, acc => by
    rw [List.foldl_cons]
    obtain ⟨h1, h2⟩ := fold_le_all V d0 l (dvectStep V d0 acc t)
    have hstep : V3.normSq (dvectStep V d0 acc t) ≤ V3.normSq acc ∧
        V3.normSq (dvectStep V d0 acc t) ≤ V3.normSq (shiftBy V d0 t) := by
      simp only [dvectStep]
      split
      · rename_i h; exact ⟨le_of_lt h, le_refl _⟩
      · rename_i h; exact ⟨le_refl _, not_lt.mp h⟩
    refine ⟨le_trans h1 hstep.1, fun s hs => ?_⟩
    rcases List.mem_cons.mp hs with h | h
    · subst h; exact le_trans h1 hstep.2
    · exact h2 s h

/-- **displacement_minimal.**  Whatever the size of the displacement: `displacement` returns the difference of the
    two positions moved by whole box vectors along periodic directions (one of the candidates of the loops), and no
    candidate is shorter — "the imposed displacement taken through the periodic boundaries".  (Rounding the
    box-relative coordinates instead selects a longer candidate in tilted cells.) -/
theorem displacement_minimal (c : Cell K) (pos0 pos1 : Nat → V3 K) (i : Nat) :
    (∃ s ∈ cands c.px c.py c.pz, displacement c pos0 pos1 i = shiftBy c.vects (pos1 i - pos0 i) s) ∧
    ∀ t ∈ cands c.px c.py c.pz,
      V3.normSq (displacement c pos0 pos1 i) ≤ V3.normSq (shiftBy c.vects (pos1 i - pos0 i) t) := by
  refine ⟨dvect_is_cand c.vects c.px c.py c.pz (pos0 i) (pos1 i), fun t ht => ?_⟩
  unfold displacement Cell.dv dvect
  obtain ⟨h1, h2⟩ := fold_le_all c.vects (pos1 i - pos0 i) (imageShifts c.px c.py c.pz) (pos1 i - pos0 i)
  rcases List.mem_cons.mp ht with h | h
  · subst h; rw [shiftBy_zero]; exact h1
  · exact h2 t h

/-- an atom without neighbours has slip vector zero and contributes no differential-displacement vector; with
    exactly one neighbour the slip vector is minus that pair's differential displacement, and the pair's vector
    is stored (the shape special case of the implementation). -/
theorem single_and_no_neighbour (c : Cell K) (pos0 pos1 : Nat → V3 K) (i j : Nat) :
    slipVector c pos0 pos1 [] i = zero3 ∧
    slipVector c pos0 pos1 [j] i = zero3 - ddvector c c pos0 pos1 i j ∧
    ddvectors c c pos0 pos1 [[]] = [] ∧
    ddvectors c c pos0 pos1 [[j]] = [ddvector c c pos0 pos1 0 j] := by
  refine ⟨rfl, rfl, rfl, rfl⟩

/-- the stored array has one vector per listed pair (atoms without neighbours contribute none). -/
theorem ddvectors_length (c0 c1 : Cell K) (pos0 pos1 : Nat → V3 K) (nlist : List (List Nat)) :
    (ddvectors c0 c1 pos0 pos1 nlist).length = (nlist.map List.length).sum := by
  unfold ddvectors
  rw [List.length_flatMap]
  have : ∀ (l : List (List Nat × Nat)),
      (l.map fun x => (x.1.map fun j => ddvector c0 c1 pos0 pos1 x.2 j).length).sum = ((l.map (·.1)).map List.length).sum := by
    intro l
    induction l with
    | nil => rfl
    | cons a l ih =>
      simp only [List.length_map] at ih
      simp only [List.map_cons, List.sum_cons, List.length_map, ih]
  have h2 : (nlist.zipIdx.map (·.1)) = nlist := by
    rw [List.zipIdx_map_fst]
  calc _ = ((nlist.zipIdx).map fun x => (x.1.map fun j => ddvector c0 c1 pos0 pos1 x.2 j).length).sum := by
        congr 1
    _ = _ := by rw [this, h2]

/-! ### non-vacuity -/

section examples

/-- the 3-4-5 rotation about z. -/
def exT : M3 ℚ := ⟨⟨3/5, -4/5, 0⟩, ⟨4/5, 3/5, 0⟩, ⟨0, 0, 1⟩⟩

example : M3.mul exT exT.transpose = M3.one := by decide +kernel

/-- `givenP_axes_roundtrip` at work: two atoms, their p sets expressed in the rotated frame and handed over with
    `axes = exT` come back as they are in the system's frame. -/
example :
    (givenP 2 (.nested ([[⟨5, 0, 0⟩, ⟨0, 5, 1⟩], [⟨0, 0, 2⟩]].map (transformP exT.transpose))) (some exT)).map
      (fun pv => [pv 0, pv 1]) = some [[(⟨5, 0, 0⟩ : V3 ℚ), ⟨0, 5, 1⟩], [⟨0, 0, 2⟩]] := by decide +kernel

/-- the WRONG transformation (`np.dot(p, T)` = `Tᵀ p`) does not give them back. -/
example : transformP exT.transpose (transformP exT.transpose [(⟨5, 0, 0⟩ : V3 ℚ)]) ≠ [⟨5, 0, 0⟩] := by decide +kernel

def exIn : SIn ℚ := ⟨⟨⟨⟨4, 0, 0⟩, ⟨0, 4, 0⟩, ⟨0, 0, 4⟩⟩, true, true, true⟩, 1, fun _ => ⟨0, 0, 0⟩, fun _ => [], some (fun _ => []), 27, 9/10⟩
def exStale : Payload ℚ := .mats [⟨⟨1, 2, 3⟩, ⟨2, 5, 6⟩, ⟨3, 6, 9⟩⟩]
/-- an object whose cached strain belongs to other inputs (e.g. the p vectors were replaced after it was read). -/
def exObj : SObj ℚ := ⟨exIn, setCache (fun _ => none) .strain exStale⟩
def exMag0 : V3 ℚ → ℚ := fun _ => 1

/-- as in the real class, a read WITHOUT `solve_G` returns the cached (stale) value … -/
example : (exObj.read exMag0 10 .strain).2 = some exStale := by decide +kernel
/-- … and after `solve_G` the same read returns the value of the current inputs (hypothesis of
    `solve_coherent` / `reads_after_solve` satisfied: `solve` succeeded). -/
example : (exObj.solve exMag0 10 none).2 = true ∧
    (((exObj.solve exMag0 10 none).1.reads exMag0 10 [.strain, .inv1, .G]).2 =
      [some (.mats [zeroM]), some (.nums [0]), some (.mats [M3.one])]) := by decide +kernel
/-- without p vectors `solve_G` refuses. -/
example : ((SObj.fresh { exIn with pvec := none }).solve exMag0 10 none).2 = false := by decide +kernel

def exSys (x : ℚ) : Sys ℚ := ⟨⟨⟨⟨4, 0, 0⟩, ⟨0, 4, 0⟩, ⟨0, 0, 4⟩⟩, true, true, true⟩, 2, fun i => if i = 0 then ⟨0, 0, 0⟩ else ⟨x, 0, 0⟩⟩
def exD : DObj ℚ := ⟨exSys 1, exSys 1, 1, none, some [⟨9, 9, 9⟩]⟩

/-- hypotheses of `DObj.solve_current` / `solve_forgets` are satisfiable; an atom with ONE neighbour and one with
    NONE: one stored vector, `u_j - u_i`. -/
example : (exD.solve ⟨none, some (exSys (3/2)), some [[1], []], none, some 0⟩).2 = none ∧
    (exD.solve ⟨none, some (exSys (3/2)), some [[1], []], none, some 0⟩).1.dd = some [⟨1/2, 0, 0⟩] := by decide +kernel
/-- no list and no cutoff, nothing stored: `ValueError`; `reference = 2`: `AssertionError`. -/
example : (exD.solve ⟨none, none, none, none, none⟩).2 = some .value ∧
    (exD.solve ⟨none, none, some [[1], []], none, some 2⟩).2 = some .assert := by decide +kernel

/-- a tilted cell (tilt factor -1/2) and a displacement outside the rhombus |frac| < 1/2 but inside the
    Wigner-Seitz cell: box-relative coordinates (11/40, 11/20); `displacement` returns it unchanged, while subtracting
    the rounded relative coordinates (0, 1) would give the longer image `u - b`. -/
def exTilt : Cell ℚ := ⟨⟨⟨4, 0, 0⟩, ⟨-2, 4, 0⟩, ⟨0, 0, 4⟩⟩, true, true, true⟩
example : displacement exTilt (fun _ => ⟨0, 0, 0⟩) (fun _ => ⟨0, 11/5, 0⟩) 0 = ⟨0, 11/5, 0⟩ ∧
    V3.normSq (⟨0, 11/5, 0⟩ : V3 ℚ) < V3.normSq (shiftBy exTilt.vects ⟨0, 11/5, 0⟩ (0, -1, 0)) := by decide +kernel

end examples

/-! ### the source of the neighbour list -/

/-- **nbrSource_precedence.**  An explicit list is used (never together with `cutoff`: refusal); otherwise the list
    built for an explicit `cutoff` — WHATEVER `neighbors` attribute the system carries —; only without both the
    attribute; with none of the three the call refuses. -/
theorem nbrSource_precedence {L : Type} (nl cl al : L) (attr : Option L) :
    pickNeighbors (some nl) none attr = .ok nl ∧
    pickNeighbors (some nl) (some cl) attr = .error .assert ∧
    pickNeighbors none (some cl) attr = .ok cl ∧
    pickNeighbors none none (some al) = .ok al ∧
    pickNeighbors (none : Option L) none none = .error .value := by
  cases attr <;> simp [pickNeighbors]

/-- the slip vector of a call with `cutoff=` is the one over the cutoff's list, whatever the attribute holds; with
    nothing but the attribute it is the one over the attribute's list. -/
theorem slipVectorCall_sources (c : Cell K) (pos0 pos1 : Nat → V3 K) (nl cl al : Nat → List Nat)
    (attr : Option (Nat → List Nat)) (i : Nat) :
    slipVectorCall c pos0 pos1 (some nl) none attr i = .ok (slipVector c pos0 pos1 (nl i) i) ∧
    slipVectorCall c pos0 pos1 none (some cl) attr i = .ok (slipVector c pos0 pos1 (cl i) i) ∧
    slipVectorCall c pos0 pos1 none none (some al) i = .ok (slipVector c pos0 pos1 (al i) i) := by
  cases attr <;> simp [slipVectorCall, pickNeighbors]

/-- `Strain(...)`: both lists follow the same rule independently (the base list with `baseneighbors`, the shared
    `cutoff`, the base system's attribute); the system's list is looked up first. -/
theorem strainSources_spec {L : Type} (nb cu att : Option L) (bn bc ba : Option L) :
    strainSources nb cu att none = (pickNeighbors nb cu att).map (fun nl => (nl, none)) ∧
    strainSources nb cu att (some (bn, bc, ba)) =
      (match pickNeighbors nb cu att, pickNeighbors bn bc ba with
       | .error e, _ => .error e
       | .ok _, .error e => .error e
       | .ok nl, .ok pl => .ok (nl, some pl)) := by
  constructor
  · unfold strainSources; cases pickNeighbors nb cu att <;> rfl
  · unfold strainSources
    cases pickNeighbors nb cu att with
    | error e => rfl
    | ok nl =>
      simp only
      cases pickNeighbors bn bc ba <;> rfl

end Atomman.C17
