/-
  C10 — the tie between `Atomman/Generated/ModelSource.lean` (regenerated from /repo's current source by
  `harness/props/c10.py: translate()` on every run) and the hand model `Atomman/C10.lean`.

  `gen_…_eq_model` theorems: a generated definition equals the hand model's, or the hand model's behaviour on ALL
  inputs is what the generated definition says (keys written in order; keys a reader depends on; packing by rank;
  defaults).  A source edit that changes one of the extracted facts changes the generated file and breaks the named
  theorem here.
-/
import Atomman.Generated.ModelSource
import Proofs.C10_Lemmas

namespace Atomman.C10
open Atomman Atomman.Generated

variable {K : Type}

/-! ### `normalized_as`: the generated entries ARE the model's `normForm` -/

/-- The 36 entries `normalized_as(cs)` hands to the `Cij` setter, regenerated from the `c_dict` formulas of every branch
    of `normalized_as` run through `ElasticConstants.__init__` and the constructor it dispatches to, are the model's
    `normForm` — every crystal system, every entry, `isotropic` through the two Hill estimates, unknown names refused. -/
theorem gen_normForm_eq_model [Add K] [Sub K] [Mul K] [Div K] [Neg K] [OfNat K 0] [IntCast K]
    (muK : Option (K × K)) (cs : String)
    (a00 a01 a02 a03 a04 a05 a10 a11 a12 a13 a14 a15 a20 a21 a22 a23 a24 a25
     a30 a31 a32 a33 a34 a35 a40 a41 a42 a43 a44 a45 a50 a51 a52 a53 a54 a55 : K) :
    normForm muK cs [a00, a01, a02, a03, a04, a05, a10, a11, a12, a13, a14, a15, a20, a21, a22, a23, a24, a25,
      a30, a31, a32, a33, a34, a35, a40, a41, a42, a43, a44, a45, a50, a51, a52, a53, a54, a55]
      = ModelSource.normEntries muK cs a00 a01 a02 a03 a04 a05 a10 a11 a12 a13 a14 a15 a20 a21 a22 a23 a24 a25
          a30 a31 a32 a33 a34 a35 a40 a41 a42 a43 a44 a45 a50 a51 a52 a53 a54 a55 := by
  unfold normForm ModelSource.normEntries
  by_cases h1 : cs = "triclinic"
  · simp only [h1, if_true]
  by_cases h2 : cs = "isotropic"
  · subst h2; cases muK <;> rfl
  by_cases h3 : cs = "cubic"
  · subst h3; rfl
  by_cases h4 : cs = "hexagonal"
  · subst h4; rfl
  by_cases h5 : cs = "tetragonal"
  · subst h5; rfl
  by_cases h6 : cs = "rhombohedral"
  · subst h6; rfl
  by_cases h7 : cs = "orthorhombic"
  · subst h7; rfl
  by_cases h8 : cs = "monoclinic"
  · subst h8; rfl
  simp only [h1, h2, h3, h4, h5, h6, h7, h8, if_false]

/-- a `Cij` array has 36 entries, so the list form of `normForm` is decided by `gen_normForm_eq_model`; any other
    length is refused by the model (as the `(6, 6)` assertion of the setter refuses it). -/
theorem normForm_length [Add K] [Sub K] [Mul K] [Div K] [Neg K] [OfNat K 0] [IntCast K]
    (muK : Option (K × K)) (cs : String) (c r : List K) (h : normForm muK cs c = some r) : c.length = 36 := by
  unfold normForm at h
  split at h
  · rfl
  · cases h

/-! ### `uc.model`: keys in order, packing by rank -/

private theorem len2 (n m : Nat) (r : List Nat) : (n :: m :: r).length ≠ 0 ∧ (n :: m :: r).length ≠ 1 := by
  simp

/-- For EVERY value, unit and working-unit configuration: the keys of the tree `uc.model(value, units)` returns are, in
    order, what the source's stores say for that rank (`value`, then `shape` for rank ≥ 2, then `unit` when given). -/
theorem gen_ucModel_keys_eq_model [Div K] [One K] [IntCast K] (fac : String → K) (u : Option String) (a : Arr K)
    (t : DM K) (h : ucModel fac u a = some t) :
    t.keys = ModelSource.ucModelKeys a.shape.length false u.isSome := by
  unfold ucModel at h
  split at h
  · cases h
  · split at h
    · cases h
    · cases h
      rcases hs : a.shape with _ | ⟨n, _ | ⟨m, r⟩⟩ <;> cases u <;>
        simp [DM.keys, ModelSource.ucModelKeys, shapeEntry, unitEntry]

/-- the same with `error=`: `error` right after `value`. -/
theorem gen_ucModelE_keys_eq_model [Div K] [One K] [IntCast K] (fac : String → K) (u : Option String) (a : Arr K)
    (e : List K) (t : DM K) (h : ucModelE fac u a e = some t) :
    t.keys = ModelSource.ucModelKeys a.shape.length true u.isSome := by
  unfold ucModelE at h
  split at h
  · split at h
    · cases h
      rcases hs : a.shape with _ | ⟨n, _ | ⟨m, r⟩⟩ <;> cases u <;>
        simp [DM.keys, ModelSource.ucModelKeys, shapeEntry, unitEntry]
    · cases h
  · cases h

/-- the uncertainty is packed like the value in every rank branch of the source. -/
theorem gen_error_pack_eq_value_pack (n : Nat) : ModelSource.ucModelPackError n = ModelSource.ucModelPack n := by
  unfold ModelSource.ucModelPackError ModelSource.ucModelPack
  rfl

/-- packing: the `value` entry of the model's tree is a scalar exactly in the rank branch where the source calls
    `.item()`, a list otherwise (`.tolist()` / `.flatten().tolist()`); `shape` is there exactly where the source stores
    `list(value.shape)`. -/
theorem gen_ucModel_pack_eq_model [Div K] [One K] [IntCast K] (fac : String → K) (u : Option String) (a : Arr K)
    (t : DM K) (h : ucModel fac u a = some t) :
    ((ModelSource.ucModelPack a.shape.length = "item") ↔ ∃ x, t.get? "value" = some (.leaf x))
    ∧ (ModelSource.ucModelStoresShape a.shape.length = (t.get? "shape").isSome) := by
  unfold ucModel at h
  split at h
  · cases h
  · rename_i d hd
    split at h
    · cases h
    · rename_i v hv
      cases h
      rcases hs : a.shape with _ | ⟨n, _ | ⟨m, r⟩⟩
      · rw [hs] at hv
        simp only [valueNode] at hv
        split at hv
        · cases hv
          simp [DM.get?, List.lookup, ModelSource.ucModelPack, ModelSource.ucModelStoresShape, shapeEntry]
          cases u <;> simp [unitEntry, List.lookup]
        · cases hv
      · rw [hs] at hv
        simp only [valueNode] at hv
        cases hv
        simp [DM.get?, List.lookup, ModelSource.ucModelPack, ModelSource.ucModelStoresShape, shapeEntry]
        cases u <;> simp [unitEntry, List.lookup]
      · rw [hs] at hv
        simp only [valueNode] at hv
        cases hv
        simp [DM.get?, List.lookup, ModelSource.ucModelPack, ModelSource.ucModelStoresShape, shapeEntry]

/-! ### `uc.value_unit`: the reader depends on exactly the keys the source looks up -/

private theorem lookup_filter {β : Type} (p : String → Bool) (k : String) (hk : p k = true) :
    ∀ kv : List (String × β), (kv.filter (fun e => p e.1)).lookup k = kv.lookup k
  | [] => rfl
  | (k', v) :: r => by
    by_cases hp : p k' = true
    · simp only [List.filter_cons, hp, if_true, List.lookup_cons]
      rw [lookup_filter p k hk r]
    · have hne : (k == k') = false := by
        apply beq_false_of_ne
        intro he; subst he; exact hp hk
      simp only [List.filter_cons, hp, List.lookup_cons, hne]
      simpa using lookup_filter p k hk r

/-- `value_unit` reads nothing but the keys the source looks up (`unit`, `value`, `shape`): removing every other entry
    of the term does not change the result, for every term. -/
theorem gen_valueUnit_reads_only [Mul K] [One K] [IntCast K] (fac : String → K) (kv : List (String × DM K)) :
    valueUnit fac (.node (kv.filter (fun e => ModelSource.valueUnitReads.contains e.1))) = valueUnit fac (.node kv) := by
  have hv := lookup_filter (β := DM K) (fun k => ModelSource.valueUnitReads.contains k) "value" (by decide) kv
  have hu := lookup_filter (β := DM K) (fun k => ModelSource.valueUnitReads.contains k) "unit" (by decide) kv
  have hs := lookup_filter (β := DM K) (fun k => ModelSource.valueUnitReads.contains k) "shape" (by decide) kv
  unfold valueUnit unitOf?
  simp only [DM.get?, hv, hu, hs]

/-- every key `uc.model` can write is one `value_unit` or `error_unit` looks up: writer keys ⊆ reader keys. -/
theorem gen_uc_writer_keys_sub_reader_keys (n : Nat) (e u : Bool) :
    ∀ k ∈ ModelSource.ucModelKeys n e u, k ∈ ModelSource.valueUnitReads ∨ k ∈ ModelSource.errorUnitReads := by
  intro k hk
  unfold ModelSource.ucModelKeys at hk
  cases e <;> cases u <;> (split at hk <;> [skip; split at hk]) <;>
    simp [ModelSource.valueUnitReads, ModelSource.errorUnitReads] at hk ⊢ <;> rcases hk with h | h | h | h <;> simp [*]

/-- and without `error=` the reader `value_unit` alone covers them. -/
theorem gen_uc_writer_keys_sub_valueUnit_reads (n : Nat) (u : Bool) :
    ∀ k ∈ ModelSource.ucModelKeys n false u, k ∈ ModelSource.valueUnitReads := by
  intro k hk
  unfold ModelSource.ucModelKeys at hk
  cases u <;> (split at hk <;> [skip; split at hk]) <;>
    simp [ModelSource.valueUnitReads] at hk ⊢ <;> rcases hk with h | h | h <;> simp [*]

/-! ### Box -/

/-- the keys `Box.model` writes are the keys its reader looks up, in the same order, under the same root; each key
    holds the attribute of the same name, written with the method's `length_unit`; each value read goes to the `set`
    keyword of the same name; `set_vectors` stacks `avect, bvect, cvect` in that order. -/
theorem gen_box_writer_keys_eq_reader_keys :
    ModelSource.boxWrites.map (·.1) = ModelSource.boxReads.map (·.1) ∧ ModelSource.boxRoot = ModelSource.boxFind
    ∧ ModelSource.boxWrites.all (fun e => e.1 == e.2.1 && e.2.2 == "length_unit") = true
    ∧ ModelSource.boxReads.all (fun e => e.1 == e.2) = true
    ∧ (ModelSource.boxReads.map (·.2)).take 3 = ModelSource.boxSetVectorsRows
    ∧ ModelSource.boxSetTaken = "self.set_vectors(**kwargs)"
    ∧ ModelSource.boxModelParams.lookup "length_unit" = some (some "'angstrom'") := by
  decide

/-- For EVERY box, unit and configuration: the model's `Box.model` tree is `{root: {keys of the source, in order}}`. -/
theorem gen_boxModel_keys_eq_model [Div K] [One K] [IntCast K] (fac : String → K) (u : Option String) (b : Box K)
    (t : DM K) (h : boxModel fac u b = some t) :
    ∃ kv, t = .node [(ModelSource.boxRoot, .node kv)] ∧ kv.map Prod.fst = ModelSource.boxWrites.map (·.1) := by
  unfold boxModel at h
  split at h
  · cases h; exact ⟨_, rfl, rfl⟩
  · cases h

/-- the model's `Box(model=…)` depends on exactly the four entries the source's reader looks up under the root it
    finds: every other entry of the box node can be dropped, for every tree. -/
theorem gen_boxRead_reads_only [Mul K] [Div K] [Neg K] [One K] [OfNat K 0] [IntCast K] [LT K] [DecidableLT K]
    (fac : String → K) (eps : K) (kv : List (String × DM K)) :
    boxRead fac eps (.node [(ModelSource.boxFind,
        .node (kv.filter (fun e => (ModelSource.boxReads.map (·.1)).contains e.1)))])
      = boxRead fac eps (.node [(ModelSource.boxFind, .node kv)]) := by
  have ha := lookup_filter (β := DM K) (fun k => (ModelSource.boxReads.map (·.1)).contains k) "avect" (by decide) kv
  have hb := lookup_filter (β := DM K) (fun k => (ModelSource.boxReads.map (·.1)).contains k) "bvect" (by decide) kv
  have hc := lookup_filter (β := DM K) (fun k => (ModelSource.boxReads.map (·.1)).contains k) "cvect" (by decide) kv
  have ho := lookup_filter (β := DM K) (fun k => (ModelSource.boxReads.map (·.1)).contains k) "origin" (by decide) kv
  have hf : ModelSource.boxFind = "box" := rfl
  simp only [boxRead, hf, DM.get?, List.lookup_cons_self, ha, hb, hc, ho]

/-- the tolerances of the two setters in the source are the model's (and the driver's) `setterAtol`. -/
theorem gen_setter_atol_eq_model :
    ModelSource.vectsAtol = setterAtol ∧ ModelSource.cijZeroAtol = setterAtol ∧ ModelSource.cijSymAtol = setterAtol
    ∧ ModelSource.cijShape = [6, 6] ∧ ModelSource.vectsSetterDropsKept = true := by
  decide

/-! ### Atoms -/

theorem gen_atoms_writer_keys_eq_reader_keys :
    ModelSource.atomsRoot = ModelSource.atomsFind ∧ ModelSource.atomsCountKey = ModelSource.atomsReadCountKey
    ∧ ModelSource.atomsAppendKey = ModelSource.atomsReadAslist
    ∧ ModelSource.atomsPropKeys = ModelSource.atomsReadPropKeys := by
  decide

/-- every property entry of the model has the keys of the source's `propmodel`, in order. -/
theorem gen_propModel_keys_eq_model [Div K] [One K] [IntCast K] (fac : String → K) (a : AtomsM K)
    (pu : String × Option String) (t : DM K) (h : propModel fac a pu = some t) :
    t.keys = ModelSource.atomsPropKeys := by
  unfold propModel at h
  split at h
  · cases h
  · split at h
    · cases h
    · cases h; rfl

private theorem mapOpt_length {α β : Type} (f : α → Option β) :
    ∀ (l : List α) (r : List β), mapOpt f l = some r → r.length = l.length
  | [], r, h => by cases h; rfl
  | a :: l, r, h => by
    unfold mapOpt at h
    split at h
    · rename_i b bs hb hbs
      cases h
      simp [mapOpt_length f l bs hbs]
    · cases h

private theorem appendAll_keys (k : String) : ∀ l : List (DM K),
    (appendAll k l).map Prod.fst = if l.isEmpty then [] else [k]
  | [] => rfl
  | [_] => rfl
  | _ :: _ :: _ => rfl

/-- For EVERY Atoms object and unit dictionary: the model's tree is `{root: {natoms, property?}}` with the source's
    key names, `property` present exactly when a property is written. -/
theorem gen_atomsModel_keys_eq_model [Div K] [One K] [IntCast K] (fac : String → K)
    (pu : List (String × Option String)) (a : AtomsM K) (t : DM K) (h : atomsModel fac pu a = some t) :
    ∃ kv, t = .node [(ModelSource.atomsRoot, .node kv)]
      ∧ kv.map Prod.fst = ModelSource.atomsCountKey :: (if pu.isEmpty then [] else [ModelSource.atomsAppendKey]) := by
  unfold atomsModel at h
  split at h
  · cases h
  · rename_i ps hps
    cases h
    refine ⟨_, rfl, ?_⟩
    have hl := mapOpt_length _ _ _ hps
    simp only [List.map_cons, appendAll_keys]
    cases pu <;> cases ps <;> simp_all [ModelSource.atomsCountKey, ModelSource.atomsAppendKey]

/-- the default unit of the source (`pos` without a unit is written in angstrom, in a copy of the dictionary) is the
    model's `effUnit`; a given unit and every other name are left alone. -/
theorem gen_atoms_default_unit_eq_model :
    effUnit ModelSource.atomsDefaultUnit.1 none = some ModelSource.atomsDefaultUnit.2
    ∧ (∀ p v, effUnit p (some v) = some v)
    ∧ (∀ p u, p ≠ ModelSource.atomsDefaultUnit.1 → effUnit p u = u) := by
  refine ⟨rfl, ?_, ?_⟩
  · intro p v; unfold effUnit; split <;> rfl
  · intro p u hp
    have : ModelSource.atomsDefaultUnit.1 = "pos" := rfl
    rw [this] at hp
    simp [effUnit, hp]

/-- `Atoms.__init__` takes `atype` and `pos` out of the dictionary first: whatever `Atoms(model=…)` accepts starts
    with these two names, in the model as in the source. -/
theorem gen_atoms_first_eq_model [OfNat K 0] (n : Nat) (ps : List (String × Arr K)) (a : AtomsM K)
    (h : atomsOfProps n ps = some a) : (a.props.map Prod.fst).take 2 = ModelSource.atomsFirst := by
  unfold atomsOfProps at h
  simp only at h
  split at h
  · split at h
    · split at h
      · split at h
        · split at h
          · cases h
          · cases h; rfl
        · cases h
      · cases h
    · cases h
  · cases h

/-! ### System, dump -/

/-- For EVERY System, box unit and unit dictionary: the entries under the root of the model's tree are the source's,
    in the source's order; `atom-type-symbol` exactly when there is a symbol, `atom-type-mass` exactly when some mass
    is not `None`. -/
theorem gen_systemModel_keys_eq_model [Add K] [Sub K] [Mul K] [Div K] [One K] [IntCast K]
    (fac : String → K) (bu : Option String) (pu : List (String × Option String)) (s : SystemM K) (t : DM K)
    (h : systemModel fac bu pu s = some t) :
    ∃ kv, t = .node [(ModelSource.systemRoot, .node kv)]
      ∧ kv.map Prod.fst = ModelSource.systemKeys (!s.symbols.isEmpty) (s.masses.any Option.isSome) := by
  unfold systemModel at h
  split at h
  · cases h
    refine ⟨_, rfl, ?_⟩
    simp only [List.map_append, List.map_cons, List.map_nil, appendAll_keys, ModelSource.systemKeys]
    cases hs : s.symbols <;> cases hm : s.masses.any Option.isSome <;> simp
    all_goals
      have hne : s.masses ≠ [] := by
        intro hm'
        rw [hm'] at hm
        simp at hm
      simp [hne]
  · cases h

/-- reader side of `System`: what the source's reader looks up is what its writer stores (same root, same keys); the
    keywords `dump` hands to `System.model` and `System.model` hands to `Atoms.model` go to the parameter of the same
    name, and are exactly the parameters of the callee. -/
theorem gen_system_writer_keys_eq_reader_keys :
    ModelSource.systemRoot = ModelSource.systemFind
    ∧ (ModelSource.systemReads.map (·.1)) = [ModelSource.systemPbcKey, ModelSource.systemSymbolKey, ModelSource.systemMassKey]
    ∧ ModelSource.systemKeys true true = [ModelSource.systemBoxKey, ModelSource.systemPbcKey,
        ModelSource.systemSymbolKey, ModelSource.systemMassKey, ModelSource.systemAtomsKey]
    ∧ ModelSource.systemBoxKey = ModelSource.boxRoot ∧ ModelSource.systemAtomsKey = ModelSource.atomsRoot
    ∧ ModelSource.dumpPasses.all (fun e => e.1 == e.2) = true
    ∧ ModelSource.dumpPasses.map (·.1) = ModelSource.systemModelParams.map (·.1)
    ∧ ModelSource.systemPasses.map (·.1) = ModelSource.atomsModelParams.map (·.1)
    ∧ ModelSource.systemModelParams.all (fun e => e.2 == some "None") = true
    ∧ ModelSource.atomsModelParams.all (fun e => e.2 == some "None") = true
    ∧ (ModelSource.systemModelParams.map (·.1)).all (fun n => (ModelSource.dumpParams.map (·.1)).contains n) = true := by
  decide

/-- only the properties whose (effective) unit is the source's `'scaled'` are re-written box-relative; `'scaled'`
    itself is the factor 1. -/
theorem gen_system_scaled_eq_model [Add K] [Sub K] [Mul K] [Div K] [One K] [IntCast K]
    (fac : String → K) (s : SystemM K) (pu : String × Option String)
    (h : effUnit pu.1 pu.2 ≠ some ModelSource.systemScaledUnit) :
    sysPropModel fac s pu = propModel fac s.atoms pu ∧ factor fac ModelSource.systemScaledUnit = 1 := by
  have hs : ModelSource.systemScaledUnit = "scaled" := rfl
  rw [hs] at h ⊢
  refine ⟨?_, by simp [factor]⟩
  unfold sysPropModel
  cases propModel fac s.atoms pu <;> simp [h]

/-! ### ElasticConstants -/

theorem gen_ec_writer_keys_eq_reader_keys :
    ModelSource.ecRoot = ModelSource.ecFind ∧ ModelSource.ecKey = ModelSource.ecReadKey
    ∧ ModelSource.ecModelParams.lookup "crystal_system" = some (some "'triclinic'")
    ∧ ModelSource.ecModelParams.lookup "unit" = some (some "None") := by
  decide

theorem gen_ecModel_keys_eq_model [Div K] [One K] [IntCast K] (fac : String → K) (u : Option String)
    (norm : List K → List K) (c : List K) (t : DM K) (h : ecModel fac u norm c = some t) :
    ∃ m, t = .node [(ModelSource.ecRoot, .node [(ModelSource.ecKey, m)])] := by
  unfold ecModel at h
  split at h
  · cases h
  · cases h; exact ⟨_, rfl⟩

/-- the crystal systems the source's `normalized_as` knows, the constructor each goes to and the keywords it hands
    over: every closed-form system goes to the constructor of its own name. -/
theorem gen_norm_branches :
    ModelSource.normBranches.all (fun e => e.1 == e.2.1) = true
    ∧ ModelSource.normBranches.map (·.1) = ["isotropic", "cubic", "hexagonal", "tetragonal", "rhombohedral",
        "orthorhombic", "monoclinic"]
    ∧ ModelSource.normBranches.map (·.2.2.length) = [2, 3, 5, 7, 7, 9, 13] := by
  decide

/-! ### `dump('system_model')`: option handling -/

/-- The model's `dumpEncoding` IS the source's option handling: whatever the target, a given format name goes through
    the generated `if format.lower() == …` chain of that target (value returned / handle / path); without a format
    name the value is returned as the tree, a handle gets the source's fallback name, a path its extension. -/
theorem gen_dumpEncoding_eq_model (f ext : String) :
    dumpEncoding (some f) .returned = ModelSource.dumpChainReturned f
    ∧ dumpEncoding (some f) .handle = ModelSource.dumpChainHandle f
    ∧ dumpEncoding (some f) (.path ext) = ModelSource.dumpChainPath f
    ∧ dumpEncoding none .returned = some "tree"
    ∧ dumpEncoding none .handle = ModelSource.dumpChainHandle ModelSource.dumpFallbackFormat
    ∧ dumpEncoding none (.path ext) = ModelSource.dumpChainPath ext
    ∧ ModelSource.dumpFormats.map (·.1) = ["format is None", "format.lower() == 'xml'", "format.lower() == 'json'"] :=
  ⟨rfl, rfl, rfl, rfl, rfl, rfl, rfl⟩

/-- refusal-free but lossy: `dump` produces text of a kind exactly when the effective format name is that kind in some
    spelling of upper / lower case; the tree exactly when neither a target nor a format is given; and NOTHING for
    every other name (no exception: the chain has no `else`). -/
theorem dumpEncoding_spec (format : Option String) (tgt : DumpTarget) :
    (dumpEncoding format tgt = some "tree" ↔ dumpFormatName format tgt = none)
    ∧ (∀ f, dumpFormatName format tgt = some f →
        (dumpEncoding format tgt = some "xml" ↔ f.toLower = "xml")
        ∧ (dumpEncoding format tgt = some "json" ↔ f.toLower = "json")
        ∧ (dumpEncoding format tgt = none ↔ f.toLower ≠ "xml" ∧ f.toLower ≠ "json")) := by
  unfold dumpEncoding
  constructor
  · cases h : dumpFormatName format tgt with
    | none => simp
    | some f =>
      simp only [reduceCtorEq, iff_false]
      split <;> [skip; split] <;> simp
  · intro f hf
    rw [hf]
    by_cases hx : f.toLower = "xml"
    · simp [hx]
    · by_cases hj : f.toLower = "json"
      · simp [hj]
      · simp [hx, hj]

/-- a given format name wins over the target; the target matters only through the defaulting. -/
theorem dumpEncoding_explicit (f : String) (tgt : DumpTarget) :
    dumpEncoding (some f) tgt = dumpEncoding (some f) .returned := by
  cases tgt <;> rfl

/-- what `dump` produces is always something `encode` accepts: the encodings compose. -/
theorem dumpEncoding_encodes (format : Option String) (tgt : DumpTarget) (e : String) (t : DM K)
    (h : dumpEncoding format tgt = some e) : encode e t ≠ none := by
  unfold dumpEncoding at h
  split at h
  · cases h; simp [encode]
  · split at h
    · cases h; simp [encode]
    · split at h
      · cases h; simp [encode]
      · cases h

/-! ### readers of Atoms / System / ElasticConstants: they depend on exactly the keys the source looks up -/

/-- `Atoms(model=…)` reads, under the root it finds, nothing but the count and the property list. -/
theorem gen_atomsRead_reads_only [Mul K] [One K] [OfNat K 0] [IntCast K] (fac : String → K)
    (kv : List (String × DM K)) :
    atomsRead fac (.node [(ModelSource.atomsFind, .node (kv.filter (fun e =>
        [ModelSource.atomsReadCountKey, ModelSource.atomsReadAslist].contains e.1)))])
      = atomsRead fac (.node [(ModelSource.atomsFind, .node kv)]) := by
  have hn := lookup_filter (β := DM K)
    (fun k => [ModelSource.atomsReadCountKey, ModelSource.atomsReadAslist].contains k) "natoms" (by decide) kv
  have hp := lookup_filter (β := DM K)
    (fun k => [ModelSource.atomsReadCountKey, ModelSource.atomsReadAslist].contains k) "property" (by decide) kv
  have hf : ModelSource.atomsFind = "atoms" := rfl
  simp only [atomsRead, hf, DM.get?, DM.aslist, List.lookup_cons_self, hn, hp]

/-- every property entry is read through `name` and `data` only. -/
theorem gen_propRead_reads_only [Mul K] [One K] [IntCast K] (fac : String → K) (kv : List (String × DM K)) :
    propRead fac (.node (kv.filter (fun e => ModelSource.atomsReadPropKeys.contains e.1))) = propRead fac (.node kv) := by
  have hn := lookup_filter (β := DM K) (fun k => ModelSource.atomsReadPropKeys.contains k) "name" (by decide) kv
  have hd := lookup_filter (β := DM K) (fun k => ModelSource.atomsReadPropKeys.contains k) "data" (by decide) kv
  simp only [propRead, DM.getStr?, DM.get?, hn, hd]

/-- `System(model=…)` — with the `Box(model=)` and `Atoms(model=)` it calls on the same node — reads, under the root
    it finds, nothing but the five entries `System.model` writes. -/
theorem gen_systemRead_reads_only [Add K] [Sub K] [Mul K] [Div K] [Neg K] [One K] [OfNat K 0] [IntCast K] [LT K]
    [DecidableLT K] (fac : String → K) (eps : K) (kv : List (String × DM K)) :
    systemRead fac eps (.node [(ModelSource.systemFind,
        .node (kv.filter (fun e => (ModelSource.systemKeys true true).contains e.1)))])
      = systemRead fac eps (.node [(ModelSource.systemFind, .node kv)]) := by
  have h1 := lookup_filter (β := DM K) (fun k => (ModelSource.systemKeys true true).contains k) "box" (by decide) kv
  have h2 := lookup_filter (β := DM K) (fun k => (ModelSource.systemKeys true true).contains k)
    "periodic-boundary-condition" (by decide) kv
  have h3 := lookup_filter (β := DM K) (fun k => (ModelSource.systemKeys true true).contains k)
    "atom-type-symbol" (by decide) kv
  have h4 := lookup_filter (β := DM K) (fun k => (ModelSource.systemKeys true true).contains k)
    "atom-type-mass" (by decide) kv
  have h5 := lookup_filter (β := DM K) (fun k => (ModelSource.systemKeys true true).contains k) "atoms" (by decide) kv
  have hf : ModelSource.systemFind = "atomic-system" := rfl
  simp only [systemRead, boxRead, atomsRead, hf, DM.get?, DM.aslist, List.lookup_cons_self, h1, h2, h3, h4, h5]

/-- `ElasticConstants(model=…)` reads the one entry the writer stores. -/
theorem gen_ecRead_reads_only [Add K] [Sub K] [Mul K] [Div K] [Neg K] [One K] [OfNat K 0] [IntCast K] [LT K]
    [DecidableLT K] (fac : String → K) (eps atol rtol : K) (kv : List (String × DM K)) :
    ecRead fac eps atol rtol (.node [(ModelSource.ecFind, .node (kv.filter (fun e => [ModelSource.ecReadKey].contains e.1)))])
      = ecRead fac eps atol rtol (.node [(ModelSource.ecFind, .node kv)]) := by
  have h1 := lookup_filter (β := DM K) (fun k => [ModelSource.ecReadKey].contains k) "Cij" (by decide) kv
  have hf : ModelSource.ecFind = "elastic-constants" := rfl
  simp only [ecRead, hf, DM.get?, List.lookup_cons_self, h1]

/-! ### records in the old `C` / `ij` format (the `except:` branch of `ElasticConstants.model(model=…)`) -/

/-- the keyword of an old-format entry as the source forms it (`prefix + C[ik][i] + C[ik][j]`, an `IndexError` when the
    string is too short) is the model's `legacyKey`. -/
theorem gen_legacyKey_eq_model (ij : String) :
    legacyKey ij =
      match ij.toList[ModelSource.ecLegacyIndexChars.getD 0 0]?, ij.toList[ModelSource.ecLegacyIndexChars.getD 1 0]? with
      | some a, some b => some (ModelSource.ecLegacyPrefix ++ String.ofList [a, b])
      | _, _ => none := by
  unfold legacyKey
  rcases h : ij.toList with _ | ⟨a, _ | ⟨b, _ | ⟨c, r⟩⟩⟩ <;> rfl

/-- root, list key, index key, value key of the old format are the ones the model's `ecReadLegacy` /
    `legacyEntryRead` look up; exactly two characters are taken from the index string. -/
theorem gen_ecLegacy_keys_eq_model :
    ModelSource.ecFind = "elastic-constants" ∧ ModelSource.ecLegacyListKey = "C" ∧ ModelSource.ecLegacyIndexKey = "ij"
    ∧ ModelSource.ecLegacyValueKey = "stiffness" ∧ ModelSource.ecLegacyIndexChars.length = 2
    ∧ ModelSource.ecLegacyListKey ≠ ModelSource.ecReadKey := by
  decide

/-- `ElasticConstants(**c_dict)` for every keyword set of a standard representation: the 36 entries regenerated from
    `__init__`'s dispatch on the number of keywords and the constructor it reaches ARE the model's `legacyForm` of the
    dictionary with these keywords, whatever their values. -/
theorem gen_legacyForm_eq_model [Add K] [Sub K] [Mul K] [Div K] [Neg K] [OfNat K 0] [IntCast K]
    (keys : List String) (g : String → K) (h : keys ∈ ModelSource.legacyBranches.map Prod.fst) :
    legacyForm (keys.map (fun k => (k, g k))) = ModelSource.legacyEntries keys g := by
  simp only [ModelSource.legacyBranches, List.map_cons, List.map_nil, List.mem_cons, List.not_mem_nil, or_false] at h
  rcases h with h | h | h | h | h | h | h | h | h | h <;> subst h <;> rfl

/-- the dispatch of `__init__` on the number of keywords: each standard set reaches the constructor of its name, and
    the model refuses every dictionary whose size is none of 2, 3, 5, 6, 7, 9, 13, 21 (the source: `TypeError`; 8 — a
    rhombohedral set with the redundant `C66` — is outside the model). -/
theorem gen_legacy_branches :
    ModelSource.legacyBranches.map (fun b => (b.1.length, b.2)) =
      [(2, "isotropic"), (3, "cubic"), (5, "hexagonal"), (6, "tetragonal"), (7, "tetragonal"), (6, "rhombohedral"),
       (7, "rhombohedral"), (9, "orthorhombic"), (13, "monoclinic"), (21, "triclinic")] := by
  decide

theorem legacyForm_refuses_count [Add K] [Sub K] [Mul K] [Div K] [Neg K] [OfNat K 0] [IntCast K]
    (kw : List (String × K)) (h : kw.length ∉ [2, 3, 5, 6, 7, 9, 13, 21]) : legacyForm kw = none := by
  simp only [List.mem_cons, List.not_mem_nil, or_false, not_or] at h
  obtain ⟨h2, h3, h5, h6, h7, h9, h13, h21⟩ := h
  simp [legacyForm, h2, h3, h5, h6, h7, h9, h13, h21]

/-! ### the argument handling of `Atoms.model` and the masses guard of `System.model` as generated definitions -/

/-- The statement `if prop_unit is None: … elif …: raise` at the top of `Atoms.model`, regenerated as a Lean definition
    (defaults of the two lists, the refusals in their order, the dictionary filled from `zip(prop_name, unit)`), IS the
    model's `resolveCall` — for every form of the three arguments and every object. -/
theorem gen_resolveCall_eq_model (own : List String) (pn : Option (List String)) (un : Option (List (Option String)))
    (pu : Option (List (String × Option String))) :
    resolveCall own pn un pu = ModelSource.atomsResolveCall own pn un pu := by
  cases pu with
  | some d => cases pn <;> cases un <;> simp [resolveCall, ModelSource.atomsResolveCall]
  | none =>
    cases pn <;> cases un <;>
      simp [resolveCall, ModelSource.atomsResolveCall, List.map_const', eq_comm]

/-- The flag loop in front of the masses (`addmasses`), regenerated as a `List.any`, is the guard the model's
    `systemModel` uses: the masses are written iff one of them is not `None` — a mass of exactly 0 counts. -/
theorem gen_massesGuard_eq_model [OfNat K 0] [DecidableEq K] (ms : List (Option K)) :
    ModelSource.massesGuard ms = ms.any Option.isSome := by
  rfl

/-- `load('system_model')`: the defaults `key='atomic-system'`, `index=0`; the lookup is `finds`; an entry with the
    box key is wrapped under the root `System(model=)` looks for — the model's `loadSystem`. -/
theorem gen_load_eq_model :
    ModelSource.loadParams.lookup "key" = some (some ("'" ++ ModelSource.systemFind ++ "'"))
    ∧ ModelSource.loadParams.lookup "index" = some (some "0")
    ∧ ModelSource.loadLookup = "finds" ∧ ModelSource.loadBoxTest = ModelSource.systemBoxKey
    ∧ ModelSource.loadBoxTest = "box" ∧ ModelSource.loadWrapKey = ModelSource.systemFind
    ∧ ModelSource.loadWrapKey = "atomic-system" := by
  decide

end Atomman.C10
