/-
  C11 — helper lemmas: what the generated tables say (closed by `decide`), the getters/setters in closed form,
  the 9x9-matrix picture of a rank-4 tensor (`toMat`), in which the generated `einsum`s of `transform` are
  `(T ⊗ₖ T) * C * (T ⊗ₖ T)ᵀ`, and the bridge between 6x6 Voigt products and double contractions.
-/
import Atomman.C11
import Mathlib.Tactic.Ring
import Mathlib.Tactic.FinCases
import Mathlib.Tactic.Linarith
import Mathlib.Tactic.FieldSimp
import Mathlib.Tactic.NormNum
import Mathlib.Algebra.BigOperators.Fin
import Mathlib.Algebra.Order.Field.Basic
import Mathlib.LinearAlgebra.Matrix.Kronecker
import Mathlib.LinearAlgebra.Matrix.Trace
import Mathlib.LinearAlgebra.Matrix.NonsingularInverse
import Mathlib.Algebra.BigOperators.Field
import Mathlib.Tactic.Positivity
import Mathlib.Tactic.LinearCombination

namespace Atomman.C11
open Atomman.Gen Matrix Kronecker
set_option linter.unusedSectionVars false
set_option linter.unusedSimpArgs false
set_option linter.unusedVariables false
set_option linter.unnecessarySeqFocus false
set_option linter.unusedTactic false
set_option linter.unreachableTactic false

/-! ## index facts -/

theorem fin3_val (a : Fin 3) : fin3 a.val = a := by
  ext; simp [fin3, Nat.mod_eq_of_lt a.isLt]
theorem fin6_val (a : Fin 6) : fin6 a.val = a := by
  ext; simp [fin6, Nat.mod_eq_of_lt a.isLt]
theorem fin9_val (a : Fin 9) : fin9 a.val = a := by
  ext; simp [fin9, Nat.mod_eq_of_lt a.isLt]

theorem voigt_symm : ∀ i j : Fin 3, voigt i j = voigt j i := by decide
theorem voigt_pairOf : ∀ a : Fin 6, voigt (pairOf a).1 (pairOf a).2 = a := by decide
theorem pairOf_voigt : ∀ i j : Fin 3, pairOf (voigt i j) = (i, j) ∨ pairOf (voigt i j) = (j, i) := by decide
theorem voigt_eq_iff : ∀ i j k l : Fin 3, voigt i j = voigt k l ↔ (i = k ∧ j = l) ∨ (i = l ∧ j = k) := by decide
theorem mult_voigt : ∀ i j : Fin 3, mult (voigt i j) = if i = j then 1 else 2 := by decide
theorem mult_pos (a : Fin 6) : 0 < mult a := by unfold mult; split <;> decide

/-! ## the generated tables are the Voigt tables (`decide`: re-checked against the source on every run) -/

theorem cijkl_get_table : ∀ i j k l : Fin 3,
    cijklGetTab.getD (27 * i.val + 9 * j.val + 3 * k.val + l.val) (0, 0)
      = ((voigt i j).val, (voigt k l).val) := by decide

theorem cij9_get_table : ∀ p q : Fin 9,
    cij9GetTab.getD (9 * p.val + q.val) (0, 0)
      = ((voigt (pair9 p).1 (pair9 p).2).val, (voigt (pair9 q).1 (pair9 q).2).val) := by decide

theorem sijkl_get_table : ∀ i j k l : Fin 3,
    sijklGetTab.getD (27 * i.val + 9 * j.val + 3 * k.val + l.val) (0, 0)
      = ((voigt i j).val, (voigt k l).val) := by decide

theorem sijkl_get_weights : ∀ a b : Fin 6, scaleWeight a.val b.val = (1, mult a * mult b) := by decide

theorem cijkl_set_table : ∀ a b : Fin 6,
    cijklSetTab.getD (6 * a.val + b.val) ((1, 1), (0, 0, 0, 0))
      = ((1, 1), ((pairOf a).1.val, (pairOf a).2.val, (pairOf b).1.val, (pairOf b).2.val)) := by decide

theorem sijkl_set_table : ∀ a b : Fin 6,
    sijklSetTab.getD (6 * a.val + b.val) ((1, 1), (0, 0, 0, 0))
      = ((mult a * mult b, 1), ((pairOf a).1.val, (pairOf a).2.val, (pairOf b).1.val, (pairOf b).2.val)) := by
  decide

/-- every assertion of the `Cijkl` setter compares two entries in the same symmetry class. -/
theorem cijkl_set_checks_sound : ∀ pq ∈ cijklSetChecks,
    (voigt (fin3 pq.1.1) (fin3 pq.1.2.1) = voigt (fin3 pq.2.1) (fin3 pq.2.2.1) ∧
      voigt (fin3 pq.1.2.2.1) (fin3 pq.1.2.2.2) = voigt (fin3 pq.2.2.2.1) (fin3 pq.2.2.2.2)) ∨
    (voigt (fin3 pq.1.1) (fin3 pq.1.2.1) = voigt (fin3 pq.2.2.2.1) (fin3 pq.2.2.2.2) ∧
      voigt (fin3 pq.1.2.2.1) (fin3 pq.1.2.2.2) = voigt (fin3 pq.2.1) (fin3 pq.2.2.1)) := by decide +kernel

theorem sijkl_set_checks_sound : ∀ pq ∈ sijklSetChecks,
    (voigt (fin3 pq.1.1) (fin3 pq.1.2.1) = voigt (fin3 pq.2.1) (fin3 pq.2.2.1) ∧
      voigt (fin3 pq.1.2.2.1) (fin3 pq.1.2.2.2) = voigt (fin3 pq.2.2.2.1) (fin3 pq.2.2.2.2)) ∨
    (voigt (fin3 pq.1.1) (fin3 pq.1.2.1) = voigt (fin3 pq.2.2.2.1) (fin3 pq.2.2.2.2) ∧
      voigt (fin3 pq.1.2.2.1) (fin3 pq.1.2.2.2) = voigt (fin3 pq.2.1) (fin3 pq.2.2.1)) := by decide +kernel

/-- every assertion of the `Cij` setter compares `value[i,j]` with `value[j,i]`. -/
theorem cij_set_checks_sound : ∀ pq ∈ cijSetChecks, pq.2 = (pq.1.2, pq.1.1) := by decide

/-- ... and every off-diagonal pair is covered. -/
theorem cij_set_checks_complete : ∀ a b : Fin 6, b < a → ((a.val, b.val), (b.val, a.val)) ∈ cijSetChecks := by
  decide

/-- the assertions of the `Cij9` setter: rows/columns 6..8 repeat rows/columns 3..5. -/
theorem cij9_set_checks_sound : ∀ pq ∈ cij9SetChecks,
    (pair9 (fin9 pq.1.1) = ((pair9 (fin9 pq.2.1)).2, (pair9 (fin9 pq.2.1)).1) ∧ pq.1.2 = pq.2.2) ∨
    (pair9 (fin9 pq.1.2) = ((pair9 (fin9 pq.2.2)).2, (pair9 (fin9 pq.2.2)).1) ∧ pq.1.1 = pq.2.1) := by decide

theorem cij9_set_slice : cij9SetSlice = (6, 6) := by decide
theorem cijkl_set_max_assert : cijklSetMaxAssert = true := by decide

section field
variable {K : Type} [Field K]

/-! ## getters and raw setters in closed form -/

theorem sum3_eq (f : Fin 3 → K) : sum3 f = ∑ i, f i := by
  simp [sum3, Fin.sum_univ_three]

theorem cijklGet_eq (c : M6 K) (i j k l : Fin 3) : cijklGet c i j k l = c (voigt i j) (voigt k l) := by
  simp only [cijklGet, cijkl_get_table, fin6_val]

theorem cij9Get_eq (c : M6 K) (p q : Fin 9) :
    cij9Get c p q = cijklGet c (pair9 p).1 (pair9 p).2 (pair9 q).1 (pair9 q).2 := by
  simp only [cij9Get, cij9_get_table, fin6_val, cijklGet_eq]

theorem sijklGet_eq (s : M6 K) (i j k l : Fin 3) :
    sijklGet s i j k l = s (voigt i j) (voigt k l) / ((mult (voigt i j) * mult (voigt k l) : ℕ) : K) := by
  simp only [sijklGet, sijScaled, sijkl_get_table, fin6_val, sijkl_get_weights, Nat.cast_one, mul_one]

theorem cijklSetRaw_eq (C : T4 K) (a b : Fin 6) :
    cijklSetRaw C a b = C (pairOf a).1 (pairOf a).2 (pairOf b).1 (pairOf b).2 := by
  simp only [cijklSetRaw, set4Raw, cijkl_set_table, at4, fin3_val, Nat.cast_one, div_one, one_mul]

theorem sijklSetRaw_eq (S : T4 K) (a b : Fin 6) :
    sijklSetRaw S a b = ((mult a * mult b : ℕ) : K) * S (pairOf a).1 (pairOf a).2 (pairOf b).1 (pairOf b).2 := by
  simp only [sijklSetRaw, set4Raw, sijkl_set_table, at4, fin3_val, Nat.cast_one, div_one]

/-! ## symmetry predicates -/

def Symm6 (c : M6 K) : Prop := ∀ a b, c a b = c b a
def MinorSymm (C : T4 K) : Prop := ∀ i j k l, C i j k l = C j i k l ∧ C i j k l = C i j l k
def MajorSymm (C : T4 K) : Prop := ∀ i j k l, C i j k l = C k l i j

theorem minor_of_voigt (C : T4 K) (h : MinorSymm C) (i j k l : Fin 3) :
    C (pairOf (voigt i j)).1 (pairOf (voigt i j)).2 (pairOf (voigt k l)).1 (pairOf (voigt k l)).2 = C i j k l := by
  rcases pairOf_voigt i j with h1 | h1 <;> rcases pairOf_voigt k l with h2 | h2 <;> rw [h1, h2]
  · exact ((h i j k l).2).symm
  · exact ((h i j k l).1).symm
  · show C j i l k = C i j k l
    rw [← (h j i k l).2]; exact ((h i j k l).1).symm

/-! ## evaluate-once tables are the identity -/

theorem tab6_eq (v : M6 K) : (Tab.of6 v).get6 = v := by
  funext a b
  have h : 6 * a.val + b.val < 36 := by omega
  simp only [Tab.get6, Tab.of6, Array.getD_eq_getD_getElem?, Array.getElem?_ofFn, h, dite_true, Option.getD_some]
  congr 1 <;> (ext; simp [fin6] <;> omega)

theorem tab4_eq (C : T4 K) : (Tab.of4 C).get4 = C := by
  funext i j k l
  have h : 27 * i.val + 9 * j.val + 3 * k.val + l.val < 81 := by omega
  simp only [Tab.get4, Tab.of4, Array.getD_eq_getD_getElem?, Array.getElem?_ofFn, h, dite_true, Option.getD_some]
  congr 1 <;> (ext; simp [fin3] <;> omega)

/-! ## rank-4 tensors as 9x9 matrices; the generated einsums are a Kronecker conjugation -/

def toMat (C : T4 K) : Matrix (Fin 3 × Fin 3) (Fin 3 × Fin 3) K := fun p q => C p.1 p.2 q.1 q.2

theorem toMat_inj {C D : T4 K} (h : toMat C = toMat D) : C = D := by
  funext i j k l
  exact congrFun (congrFun h (i, j)) (k, l)

/-- what the two generated `einsum`s compute. -/
theorem rot_apply (T : M33 K) (C : T4 K) (i j k l : Fin 3) :
    rot T C i j k l = ∑ g, ∑ h, ∑ m, ∑ n, T i g * T j h * C g h m n * (T k m * T l n) := by
  simp only [rot, transC, transQ, sum3_eq]

theorem sum4_swap (f : Fin 3 → Fin 3 → Fin 3 → Fin 3 → K) :
    ∑ g, ∑ h, ∑ m, ∑ n, f g h m n = ∑ m, ∑ n, ∑ g, ∑ h, f g h m n := by
  calc ∑ g, ∑ h, ∑ m, ∑ n, f g h m n = ∑ g, ∑ m, ∑ h, ∑ n, f g h m n :=
        Finset.sum_congr rfl fun g _ => Finset.sum_comm
    _ = ∑ m, ∑ g, ∑ h, ∑ n, f g h m n := Finset.sum_comm
    _ = ∑ m, ∑ g, ∑ n, ∑ h, f g h m n :=
        Finset.sum_congr rfl fun m _ => Finset.sum_congr rfl fun g _ => Finset.sum_comm
    _ = ∑ m, ∑ n, ∑ g, ∑ h, f g h m n := Finset.sum_congr rfl fun m _ => Finset.sum_comm

/-- `Q = T ⊗ T`. -/
abbrev kron (T : M33 K) : Matrix (Fin 3 × Fin 3) (Fin 3 × Fin 3) K := Matrix.of T ⊗ₖ Matrix.of T

theorem rot_toMat (T : M33 K) (C : T4 K) : toMat (rot T C) = kron T * toMat C * (kron T)ᵀ := by
  ext ⟨i, j⟩ ⟨k, l⟩
  simp only [toMat, rot_apply, Matrix.mul_apply, Fintype.sum_prod_type, kroneckerMap_apply, transpose_apply,
    of_apply, Finset.sum_mul]
  exact sum4_swap _

/-- 3x3 matrix product and identity in components (the statements of the theorems use these). -/
def mmul (A B : M33 K) : M33 K := fun i j => sum3 fun k => A i k * B k j
def mone : M33 K := fun i j => if i = j then 1 else 0
def mtr (A : M33 K) : M33 K := fun i j => A j i

theorem mmul_of (A B : M33 K) : Matrix.of (mmul A B) = Matrix.of A * Matrix.of B := by
  ext i j; simp [mmul, sum3_eq, Matrix.mul_apply]
theorem mone_of : Matrix.of (mone : M33 K) = 1 := by
  ext i j; simp [mone, Matrix.one_apply]
theorem mtr_of (A : M33 K) : Matrix.of (mtr A) = (Matrix.of A)ᵀ := by
  ext i j; simp [mtr]

theorem kron_mmul (A B : M33 K) : kron (mmul A B) = kron A * kron B := by
  simp only [kron, mmul_of, mul_kronecker_mul]
theorem kron_mone : kron (mone : M33 K) = 1 := by
  simp only [kron, mone_of, one_kronecker_one]
theorem kron_mtr (A : M33 K) : kron (mtr A) = (kron A)ᵀ := by
  simp only [kron, mtr_of, kroneckerMap_transpose]

/-- orthogonality: rows orthonormal (what `axes_check` tests). -/
def Orthogonal (T : M33 K) : Prop := mmul T (mtr T) = mone

theorem Orthogonal.of_mul {T : M33 K} (h : Orthogonal T) : Matrix.of T * (Matrix.of T)ᵀ = 1 := by
  have := congrArg Matrix.of h
  rwa [mmul_of, mtr_of, mone_of] at this

theorem Orthogonal.tr_mul {T : M33 K} (h : Orthogonal T) : mmul (mtr T) T = mone := by
  have h1 : (Matrix.of T)ᵀ * Matrix.of T = 1 := mul_eq_one_comm.mp h.of_mul
  have : Matrix.of (mmul (mtr T) T) = Matrix.of (mone : M33 K) := by rw [mmul_of, mtr_of, mone_of, h1]
  exact Matrix.of.injective this

theorem Orthogonal.mtr {T : M33 K} (h : Orthogonal T) : Orthogonal (mtr T) := by
  unfold Orthogonal
  have : C11.mtr (C11.mtr T) = T := rfl
  rw [this]; exact h.tr_mul

theorem Orthogonal.kron_mul {T : M33 K} (h : Orthogonal T) : kron T * (kron T)ᵀ = 1 := by
  rw [← kron_mtr, ← kron_mmul, h, kron_mone]

theorem Orthogonal.kron_tr_mul {T : M33 K} (h : Orthogonal T) : (kron T)ᵀ * kron T = 1 := by
  rw [← kron_mtr, ← kron_mmul, h.tr_mul, kron_mone]

theorem rot_one (C : T4 K) : rot mone C = C := by
  apply toMat_inj; rw [rot_toMat, kron_mone]; simp

theorem rot_comp (A B : M33 K) (C : T4 K) : rot A (rot B C) = rot (mmul A B) C := by
  apply toMat_inj
  rw [rot_toMat, rot_toMat, rot_toMat, kron_mmul, transpose_mul]
  simp only [Matrix.mul_assoc]

theorem rot_inv {T : M33 K} (h : Orthogonal T) (C : T4 K) : rot (mtr T) (rot T C) = C := by
  rw [rot_comp, h.tr_mul, rot_one]

theorem rot_add (T : M33 K) (C D : T4 K) : rot T (fun i j k l => C i j k l + D i j k l)
    = fun i j k l => rot T C i j k l + rot T D i j k l := by
  funext i j k l
  simp only [rot_apply, ← Finset.sum_add_distrib]
  refine Finset.sum_congr rfl fun g _ => Finset.sum_congr rfl fun h _ => Finset.sum_congr rfl fun m _ =>
    Finset.sum_congr rfl fun n _ => ?_
  ring

theorem rot_smul (T : M33 K) (a : K) (C : T4 K) : rot T (fun i j k l => a * C i j k l)
    = fun i j k l => a * rot T C i j k l := by
  funext i j k l
  simp only [rot_apply, Finset.mul_sum]
  refine Finset.sum_congr rfl fun g _ => Finset.sum_congr rfl fun h _ => Finset.sum_congr rfl fun m _ =>
    Finset.sum_congr rfl fun n _ => ?_
  ring

/-! ### symmetries are preserved by `rot` -/

theorem rot_major (T : M33 K) {C : T4 K} (h : MajorSymm C) : MajorSymm (rot T C) := by
  intro i j k l
  rw [rot_apply, rot_apply, sum4_swap]
  refine Finset.sum_congr rfl fun g _ => Finset.sum_congr rfl fun h' _ => Finset.sum_congr rfl fun m _ =>
    Finset.sum_congr rfl fun n _ => ?_
  rw [h m n g h']; ring

theorem rot_minor (T : M33 K) {C : T4 K} (h : MinorSymm C) : MinorSymm (rot T C) := by
  intro i j k l
  constructor
  · rw [rot_apply, rot_apply, Finset.sum_comm]
    refine Finset.sum_congr rfl fun g _ => Finset.sum_congr rfl fun h' _ => Finset.sum_congr rfl fun m _ =>
      Finset.sum_congr rfl fun n _ => ?_
    rw [(h h' g m n).1]; ring
  · rw [rot_apply, rot_apply]
    refine Finset.sum_congr rfl fun g _ => Finset.sum_congr rfl fun h' _ => ?_
    rw [Finset.sum_comm]
    refine Finset.sum_congr rfl fun m _ => Finset.sum_congr rfl fun n _ => ?_
    rw [(h g h' n m).2]; ring

end field

/-! ## concrete index values (for entry-by-entry evaluation) -/

theorem pairOf_vals : pairOf 0 = (0, 0) ∧ pairOf 1 = (1, 1) ∧ pairOf 2 = (2, 2) ∧ pairOf 3 = (1, 2) ∧
    pairOf 4 = (0, 2) ∧ pairOf 5 = (0, 1) := by decide
theorem voigt_vals : voigt 0 0 = 0 ∧ voigt 0 1 = 5 ∧ voigt 0 2 = 4 ∧ voigt 1 0 = 5 ∧ voigt 1 1 = 1 ∧ voigt 1 2 = 3 ∧
    voigt 2 0 = 4 ∧ voigt 2 1 = 3 ∧ voigt 2 2 = 2 := by decide
theorem mult_vals : mult 0 = 1 ∧ mult 1 = 1 ∧ mult 2 = 1 ∧ mult 3 = 2 ∧ mult 4 = 2 ∧ mult 5 = 2 := by decide

/-- `2·[voigt ij = voigt mn] = mult(mn)·(δ_im δ_jn + δ_in δ_jm)`. -/
theorem delta_nat : ∀ i j m n : Fin 3, (if voigt i j = voigt m n then 2 else 0 : ℕ)
    = mult (voigt m n) * ((if i = m ∧ j = n then 1 else 0) + (if i = n ∧ j = m then 1 else 0)) := by decide

section field2
variable {K : Type} [Field K]

/-! ## strain energy, co-rotated strain, isotropic traces -/

/-- `ε : C : ε` (twice the strain-energy density). -/
def energy (C : T4 K) (e : M33 K) : K :=
  sum3 fun i => sum3 fun j => sum3 fun k => sum3 fun l => e i j * C i j k l * e k l

/-- `T ε Tᵀ`: a rank-2 tensor in the rotated axes. -/
def conj (T e : M33 K) : M33 K := mmul (mmul T e) (mtr T)

def vec (e : M33 K) : Fin 3 × Fin 3 → K := fun p => e p.1 p.2

theorem energy_eq (C : T4 K) (e : M33 K) : energy C e = vec e ⬝ᵥ (toMat C *ᵥ vec e) := by
  simp only [energy, sum3_eq, dotProduct, mulVec, Fintype.sum_prod_type, vec, toMat, Finset.mul_sum]
  refine Finset.sum_congr rfl fun i _ => Finset.sum_congr rfl fun j _ => Finset.sum_congr rfl fun k _ =>
    Finset.sum_congr rfl fun l _ => ?_
  ring

theorem vec_conj (T e : M33 K) : vec (conj T e) = kron T *ᵥ vec e := by
  funext ⟨i, j⟩
  simp only [vec, conj, mmul, mtr, sum3_eq, mulVec, dotProduct, Fintype.sum_prod_type, kroneckerMap_apply, of_apply,
    Finset.sum_mul]
  rw [Finset.sum_comm]
  refine Finset.sum_congr rfl fun a _ => Finset.sum_congr rfl fun b _ => ?_
  ring

theorem conj_of (T e : M33 K) : Matrix.of (conj T e) = Matrix.of T * Matrix.of e * (Matrix.of T)ᵀ := by
  rw [conj, mmul_of, mmul_of, mtr_of]

theorem energy_rot (T : M33 K) (h : Orthogonal T) (C : T4 K) (e : M33 K) :
    energy (rot T C) (conj T e) = energy C e := by
  rw [energy_eq, energy_eq, vec_conj, rot_toMat]
  have h1 : (kron T * toMat C * (kron T)ᵀ) *ᵥ (kron T *ᵥ vec e) = kron T *ᵥ (toMat C *ᵥ vec e) := by
    rw [mulVec_mulVec, Matrix.mul_assoc, Matrix.mul_assoc, h.kron_tr_mul, Matrix.mul_one, ← mulVec_mulVec]
  rw [h1, dotProduct_mulVec, vecMul_mulVec, h.kron_tr_mul, vecMul_one]

/-- the two isotropic traces `C_iijj` and `C_ijij`. -/
def tr1 (C : T4 K) : K := sum3 fun i => sum3 fun j => C i i j j
def tr2 (C : T4 K) : K := sum3 fun i => sum3 fun j => C i j i j

theorem tr1_eq_energy (C : T4 K) : tr1 C = energy C mone := by
  simp [tr1, energy, sum3, mone]

theorem conj_mone (T : M33 K) (h : Orthogonal T) : conj T mone = mone := by
  have : mmul T mone = T := by
    funext i j; simp [mmul, sum3_eq, mone]
  rw [conj, this]; exact h

theorem tr1_rot (T : M33 K) (h : Orthogonal T) (C : T4 K) : tr1 (rot T C) = tr1 C := by
  rw [tr1_eq_energy, tr1_eq_energy]
  conv_lhs => rw [← conj_mone T h]
  exact energy_rot T h C mone

theorem tr2_eq_trace (C : T4 K) : tr2 C = Matrix.trace (toMat C) := by
  simp only [tr2, sum3_eq, Matrix.trace, Matrix.diag, Fintype.sum_prod_type, toMat]

theorem tr2_rot (T : M33 K) (h : Orthogonal T) (C : T4 K) : tr2 (rot T C) = tr2 C := by
  rw [tr2_eq_trace, tr2_eq_trace, rot_toMat, Matrix.trace_mul_cycle, h.kron_tr_mul, Matrix.one_mul]

theorem bulkVoigt_eq_tr (C : T4 K) (hM : MajorSymm C) : bulkVoigt (cijklSetRaw C) = tr1 C / 9 := by
  obtain ⟨p0, p1, p2, p3, p4, p5⟩ := pairOf_vals
  simp only [bulkVoigt, cijklSetRaw_eq, tr1, sum3, p0, p1, p2, Nat.cast_ofNat]
  rw [hM 1 1 0 0, hM 2 2 0 0, hM 2 2 1 1]
  ring

theorem shearVoigt_eq_tr [CharZero K] (C : T4 K) (hm : MinorSymm C) (hM : MajorSymm C) :
    shearVoigt (cijklSetRaw C) = (3 * tr2 C - tr1 C) / 30 := by
  obtain ⟨p0, p1, p2, p3, p4, p5⟩ := pairOf_vals
  simp only [shearVoigt, cijklSetRaw_eq, tr1, tr2, sum3, p0, p1, p2, p3, p4, p5, Nat.cast_ofNat]
  have e1 : C 1 0 1 0 = C 0 1 0 1 := by rw [(hm 1 0 1 0).1, (hm 0 1 1 0).2]
  have e2 : C 2 0 2 0 = C 0 2 0 2 := by rw [(hm 2 0 2 0).1, (hm 0 2 2 0).2]
  have e3 : C 2 1 2 1 = C 1 2 1 2 := by rw [(hm 2 1 2 1).1, (hm 1 2 2 1).2]
  rw [hM 1 1 0 0, hM 2 2 0 0, hM 2 2 1 1, e1, e2, e3]
  ring

/-! ## 6x6 products versus double contractions -/

/-- a sum over all nine index pairs of a quantity that only depends on the Voigt index. -/
theorem sum_pairs (F : Fin 6 → K) : ∑ k : Fin 3, ∑ l : Fin 3, F (voigt k l) = ∑ b : Fin 6, (mult b : K) * F b := by
  obtain ⟨v00, v01, v02, v10, v11, v12, v20, v21, v22⟩ := voigt_vals
  obtain ⟨m0, m1, m2, m3, m4, m5⟩ := mult_vals
  simp only [Fin.sum_univ_three, Fin.sum_univ_six, v00, v01, v02, v10, v11, v12, v20, v21, v22, m0, m1, m2, m3, m4, m5,
    Nat.cast_one, Nat.cast_ofNat]
  ring

theorem mult_ne_zero [CharZero K] (a : Fin 6) : ((mult a : ℕ) : K) ≠ 0 := by
  exact_mod_cast (mult_pos a).ne'

/-- `C·S = 1` (6x6) gives `C : S = ½(δδ + δδ)` for the 3x3x3x3 representations. -/
theorem contraction_of_inverse [CharZero K] (c s : M6 K)
    (hcs : ∀ a d : Fin 6, ∑ b, c a b * s b d = if a = d then 1 else 0) (i j m n : Fin 3) :
    (sum3 fun k => sum3 fun l => cijklGet c i j k l * sijklGet s k l m n)
      = ((if i = m ∧ j = n then 1 else 0) + (if i = n ∧ j = m then 1 else 0)) / 2 := by
  simp only [sum3_eq, cijklGet_eq, sijklGet_eq]
  rw [sum_pairs (fun b => c (voigt i j) b * (s b (voigt m n) / ((mult b * mult (voigt m n) : ℕ) : K)))]
  have hd := mult_ne_zero (K := K) (voigt m n)
  have h1 : ∀ b : Fin 6, (mult b : K) * (c (voigt i j) b * (s b (voigt m n) / ((mult b * mult (voigt m n) : ℕ) : K)))
      = (c (voigt i j) b * s b (voigt m n)) / (mult (voigt m n) : K) := by
    intro b
    have hb := mult_ne_zero (K := K) b
    push_cast; field_simp
  simp only [h1]
  rw [← Finset.sum_div, hcs]
  have := congrArg (Nat.cast : ℕ → K) (delta_nat i j m n)
  push_cast at this
  rw [div_eq_div_iff hd (by norm_num)]
  rw [mul_comm _ ((mult (voigt m n) : ℕ) : K), ← this]
  split_ifs <;> norm_num

/-! ## building blocks: products of rank-2 tensors; signed permutations -/

def p12 (A B : M33 K) : T4 K := fun i j k l => A i j * B k l
def p13 (A B : M33 K) : T4 K := fun i j k l => A i k * B j l
def p14 (A B : M33 K) : T4 K := fun i j k l => A i l * B j k

theorem rot_p12 (T A B : M33 K) : rot T (p12 A B) = p12 (conj T A) (conj T B) := by
  apply toMat_inj
  have h : ∀ A B : M33 K, toMat (p12 A B) = vecMulVec (vec A) (vec B) := by
    intro A B; ext ⟨i, j⟩ ⟨k, l⟩; simp [toMat, p12, vecMulVec_apply, vec]
  rw [rot_toMat, h, h, mul_vecMulVec, vecMulVec_mul, vecMul_transpose, vec_conj, vec_conj]

theorem rot_p13 (T A B : M33 K) : rot T (p13 A B) = p13 (conj T A) (conj T B) := by
  apply toMat_inj
  have h : ∀ A B : M33 K, toMat (p13 A B) = Matrix.of A ⊗ₖ Matrix.of B := by
    intro A B; ext ⟨i, j⟩ ⟨k, l⟩; simp [toMat, p13, kroneckerMap_apply]
  rw [rot_toMat, h, h, conj_of, conj_of, kron, ← kroneckerMap_transpose, ← mul_kronecker_mul, ← mul_kronecker_mul]

/-- swapping the last two indices commutes with `rot`. -/
theorem rot_swap34 (T : M33 K) (C : T4 K) : rot T (fun i j k l => C i j l k) = fun i j k l => rot T C i j l k := by
  funext i j k l
  simp only [rot_apply]
  refine Finset.sum_congr rfl fun g _ => Finset.sum_congr rfl fun h _ => ?_
  rw [Finset.sum_comm]
  refine Finset.sum_congr rfl fun m _ => Finset.sum_congr rfl fun n _ => ?_
  ring

theorem rot_p14 (T A B : M33 K) : rot T (p14 A B) = p14 (conj T A) (conj T B) := by
  have : p14 A B = fun i j k l => p13 A B i j l k := rfl
  rw [this, rot_swap34, rot_p13]; rfl

/-- `rot` is linear (pointwise operations on `T4 K`). -/
theorem rot_add' (T : M33 K) (C D : T4 K) : rot T (C + D) = rot T C + rot T D := rot_add T C D
theorem rot_smul' (T : M33 K) (a : K) (C : T4 K) : rot T (a • C) = a • rot T C := by
  have : a • C = fun i j k l => a * C i j k l := rfl
  rw [this, rot_smul]; rfl

/-- signed permutation matrix: row `i` is `σ i • e_(π i)`. -/
def spMat (π : Fin 3 → Fin 3) (σ : Fin 3 → K) : M33 K := fun i g => if g = π i then σ i else 0

theorem rot_spMat (π : Fin 3 → Fin 3) (σ : Fin 3 → K) (C : T4 K) (i j k l : Fin 3) :
    rot (spMat π σ) C i j k l = σ i * σ j * σ k * σ l * C (π i) (π j) (π k) (π l) := by
  rw [rot_apply, Finset.sum_eq_single (π i), Finset.sum_eq_single (π j), Finset.sum_eq_single (π k),
    Finset.sum_eq_single (π l)]
  · simp [spMat]; ring
  all_goals first
    | (intro x _ hx; simp [spMat, hx])
    | (intro hx; exact absurd (Finset.mem_univ _) hx)

/-- 6x6 form of the tensor rotated by a signed permutation. -/
theorem sp_entry (π : Fin 3 → Fin 3) (σ : Fin 3 → K) (c : M6 K) (a b : Fin 6) :
    cijklSetRaw (rot (spMat π σ) (cijklGet c)) a b
      = σ (pairOf a).1 * σ (pairOf a).2 * σ (pairOf b).1 * σ (pairOf b).2 *
        c (voigt (π (pairOf a).1) (π (pairOf a).2)) (voigt (π (pairOf b).1) (π (pairOf b).2)) := by
  rw [cijklSetRaw_eq, rot_spMat, cijklGet_eq]

/-- two tensors with the minor symmetries are equal when their 6x6 pictures are. -/
theorem eq_of_setRaw_eq {C D : T4 K} (hC : MinorSymm C) (hD : MinorSymm D) (h : cijklSetRaw C = cijklSetRaw D) :
    C = D := by
  have hC' : cijklGet (cijklSetRaw C) = C := by
    funext i j k l; rw [cijklGet_eq, cijklSetRaw_eq]; exact minor_of_voigt C hC i j k l
  have hD' : cijklGet (cijklSetRaw D) = D := by
    funext i j k l; rw [cijklGet_eq, cijklSetRaw_eq]; exact minor_of_voigt D hD i j k l
  rw [← hC', ← hD', h]

theorem cijklGet_minor (c : M6 K) : MinorSymm (cijklGet c) := by
  intro i j k l
  simp only [cijklGet_eq]
  exact ⟨by rw [voigt_symm i j], by rw [voigt_symm k l]⟩

/-- the tensor of `c` is invariant under `T` as soon as the rotated 6x6 equals `c` entry by entry. -/
theorem invariant_of_entries (T : M33 K) (c : M6 K)
    (h : ∀ a b, cijklSetRaw (rot T (cijklGet c)) a b = c a b) : rot T (cijklGet c) = cijklGet c := by
  apply eq_of_setRaw_eq (rot_minor T (cijklGet_minor c)) (cijklGet_minor c)
  funext a b
  rw [h a b, cijklSetRaw_eq, cijklGet_eq, voigt_pairOf, voigt_pairOf]

end field2

end Atomman.C11
