/-
  C11 — helper lemmas: what the generated tables say (closed by `decide`), the getters/setters in closed form,
  the 9x9-matrix picture of a rank-4 tensor (`toMat`), in which the generated `einsum`s of `transform` are
  `(T ⊗ₖ T) * C * (T ⊗ₖ T)ᵀ`, and the bridge between 6x6 Voigt products and double contractions.
-/
import Atomman.C11
import Mathlib.Tactic.Ring
import Mathlib.Tactic.FinCases
import Mathlib.Tactic.Linarith
import Mathlib.Tactic.FieldSimp
import Mathlib.Tactic.NormNum
import Mathlib.Algebra.BigOperators.Fin
import Mathlib.Algebra.Order.Field.Basic
import Mathlib.LinearAlgebra.Matrix.Kronecker
import Mathlib.LinearAlgebra.Matrix.Trace
import Mathlib.LinearAlgebra.Matrix.NonsingularInverse

namespace Atomman.C11
open Atomman.Gen Matrix Kronecker
set_option linter.unusedSectionVars false
set_option linter.unusedSimpArgs false
set_option linter.unusedVariables false

/-! ## index facts -/

theorem fin3_val (a : Fin 3) : fin3 a.val = a := by
  ext; simp [fin3, Nat.mod_eq_of_lt a.isLt]
theorem fin6_val (a : Fin 6) : fin6 a.val = a := by
  ext; simp [fin6, Nat.mod_eq_of_lt a.isLt]
theorem fin9_val (a : Fin 9) : fin9 a.val = a := by
  ext; simp [fin9, Nat.mod_eq_of_lt a.isLt]

theorem voigt_symm : ∀ i j : Fin 3, voigt i j = voigt j i := by decide
theorem voigt_pairOf : ∀ a : Fin 6, voigt (pairOf a).1 (pairOf a).2 = a := by decide
theorem pairOf_voigt : ∀ i j : Fin 3, pairOf (voigt i j) = (i, j) ∨ pairOf (voigt i j) = (j, i) := by decide
theorem voigt_eq_iff : ∀ i j k l : Fin 3, voigt i j = voigt k l ↔ (i = k ∧ j = l) ∨ (i = l ∧ j = k) := by decide
theorem mult_voigt : ∀ i j : Fin 3, mult (voigt i j) = if i = j then 1 else 2 := by decide
theorem mult_pos (a : Fin 6) : 0 < mult a := by unfold mult; split <;> decide

/-! ## the generated tables are the Voigt tables (`decide`: re-checked against the source on every run) -/

theorem cijkl_get_table : ∀ i j k l : Fin 3,
    cijklGetTab.getD (27 * i.val + 9 * j.val + 3 * k.val + l.val) (0, 0)
      = ((voigt i j).val, (voigt k l).val) := by decide

theorem cij9_get_table : ∀ p q : Fin 9,
    cij9GetTab.getD (9 * p.val + q.val) (0, 0)
      = ((voigt (pair9 p).1 (pair9 p).2).val, (voigt (pair9 q).1 (pair9 q).2).val) := by decide

theorem sijkl_get_table : ∀ i j k l : Fin 3,
    sijklGetTab.getD (27 * i.val + 9 * j.val + 3 * k.val + l.val) (0, 0)
      = ((voigt i j).val, (voigt k l).val) := by decide

theorem sijkl_get_weights : ∀ a b : Fin 6, scaleWeight a.val b.val = (1, mult a * mult b) := by decide

theorem cijkl_set_table : ∀ a b : Fin 6,
    cijklSetTab.getD (6 * a.val + b.val) ((1, 1), (0, 0, 0, 0))
      = ((1, 1), ((pairOf a).1.val, (pairOf a).2.val, (pairOf b).1.val, (pairOf b).2.val)) := by decide

theorem sijkl_set_table : ∀ a b : Fin 6,
    sijklSetTab.getD (6 * a.val + b.val) ((1, 1), (0, 0, 0, 0))
      = ((mult a * mult b, 1), ((pairOf a).1.val, (pairOf a).2.val, (pairOf b).1.val, (pairOf b).2.val)) := by
  decide

/-- every assertion of the `Cijkl` setter compares two entries in the same symmetry class. -/
theorem cijkl_set_checks_sound : ∀ pq ∈ cijklSetChecks,
    (voigt (fin3 pq.1.1) (fin3 pq.1.2.1) = voigt (fin3 pq.2.1) (fin3 pq.2.2.1) ∧
      voigt (fin3 pq.1.2.2.1) (fin3 pq.1.2.2.2) = voigt (fin3 pq.2.2.2.1) (fin3 pq.2.2.2.2)) ∨
    (voigt (fin3 pq.1.1) (fin3 pq.1.2.1) = voigt (fin3 pq.2.2.2.1) (fin3 pq.2.2.2.2) ∧
      voigt (fin3 pq.1.2.2.1) (fin3 pq.1.2.2.2) = voigt (fin3 pq.2.1) (fin3 pq.2.2.1)) := by decide +kernel

theorem sijkl_set_checks_sound : ∀ pq ∈ sijklSetChecks,
    (voigt (fin3 pq.1.1) (fin3 pq.1.2.1) = voigt (fin3 pq.2.1) (fin3 pq.2.2.1) ∧
      voigt (fin3 pq.1.2.2.1) (fin3 pq.1.2.2.2) = voigt (fin3 pq.2.2.2.1) (fin3 pq.2.2.2.2)) ∨
    (voigt (fin3 pq.1.1) (fin3 pq.1.2.1) = voigt (fin3 pq.2.2.2.1) (fin3 pq.2.2.2.2) ∧
      voigt (fin3 pq.1.2.2.1) (fin3 pq.1.2.2.2) = voigt (fin3 pq.2.1) (fin3 pq.2.2.1)) := by decide +kernel

/-- every assertion of the `Cij` setter compares `value[i,j]` with `value[j,i]`. -/
theorem cij_set_checks_sound : ∀ pq ∈ cijSetChecks, pq.2 = (pq.1.2, pq.1.1) := by decide

/-- ... and every off-diagonal pair is covered. -/
theorem cij_set_checks_complete : ∀ a b : Fin 6, b < a → ((a.val, b.val), (b.val, a.val)) ∈ cijSetChecks := by
  decide

/-- the assertions of the `Cij9` setter: rows/columns 6..8 repeat rows/columns 3..5. -/
theorem cij9_set_checks_sound : ∀ pq ∈ cij9SetChecks,
    (pair9 (fin9 pq.1.1) = ((pair9 (fin9 pq.2.1)).2, (pair9 (fin9 pq.2.1)).1) ∧ pq.1.2 = pq.2.2) ∨
    (pair9 (fin9 pq.1.2) = ((pair9 (fin9 pq.2.2)).2, (pair9 (fin9 pq.2.2)).1) ∧ pq.1.1 = pq.2.1) := by decide

theorem cij9_set_slice : cij9SetSlice = (6, 6) := by decide
theorem cijkl_set_max_assert : cijklSetMaxAssert = true := by decide

section field
variable {K : Type} [Field K]

/-! ## getters and raw setters in closed form -/

theorem sum3_eq (f : Fin 3 → K) : sum3 f = ∑ i, f i := by
  simp [sum3, Fin.sum_univ_three]

theorem cijklGet_eq (c : M6 K) (i j k l : Fin 3) : cijklGet c i j k l = c (voigt i j) (voigt k l) := by
  simp only [cijklGet, cijkl_get_table, fin6_val]

theorem cij9Get_eq (c : M6 K) (p q : Fin 9) :
    cij9Get c p q = cijklGet c (pair9 p).1 (pair9 p).2 (pair9 q).1 (pair9 q).2 := by
  simp only [cij9Get, cij9_get_table, fin6_val, cijklGet_eq]

theorem sijklGet_eq (s : M6 K) (i j k l : Fin 3) :
    sijklGet s i j k l = s (voigt i j) (voigt k l) / ((mult (voigt i j) * mult (voigt k l) : ℕ) : K) := by
  simp only [sijklGet, sijScaled, sijkl_get_table, fin6_val, sijkl_get_weights, Nat.cast_one, mul_one]

theorem cijklSetRaw_eq (C : T4 K) (a b : Fin 6) :
    cijklSetRaw C a b = C (pairOf a).1 (pairOf a).2 (pairOf b).1 (pairOf b).2 := by
  simp only [cijklSetRaw, set4Raw, cijkl_set_table, at4, fin3_val, Nat.cast_one, div_one, one_mul]

theorem sijklSetRaw_eq (S : T4 K) (a b : Fin 6) :
    sijklSetRaw S a b = ((mult a * mult b : ℕ) : K) * S (pairOf a).1 (pairOf a).2 (pairOf b).1 (pairOf b).2 := by
  simp only [sijklSetRaw, set4Raw, sijkl_set_table, at4, fin3_val, Nat.cast_one, div_one]

/-! ## symmetry predicates -/

def Symm6 (c : M6 K) : Prop := ∀ a b, c a b = c b a
def MinorSymm (C : T4 K) : Prop := ∀ i j k l, C i j k l = C j i k l ∧ C i j k l = C i j l k
def MajorSymm (C : T4 K) : Prop := ∀ i j k l, C i j k l = C k l i j

theorem minor_of_voigt (C : T4 K) (h : MinorSymm C) (i j k l : Fin 3) :
    C (pairOf (voigt i j)).1 (pairOf (voigt i j)).2 (pairOf (voigt k l)).1 (pairOf (voigt k l)).2 = C i j k l := by
  rcases pairOf_voigt i j with h1 | h1 <;> rcases pairOf_voigt k l with h2 | h2 <;> rw [h1, h2]
  · exact ((h i j k l).2).symm
  · exact ((h i j k l).1).symm
  · show C j i l k = C i j k l
    rw [← (h j i k l).2]; exact ((h i j k l).1).symm

/-! ## evaluate-once tables are the identity -/

theorem tab6_eq (v : M6 K) : (Tab.of6 v).get6 = v := by
  funext a b
  have h : 6 * a.val + b.val < 36 := by omega
  simp only [Tab.get6, Tab.of6, Array.getD_eq_getD_getElem?, Array.getElem?_ofFn, h, dite_true, Option.getD_some]
  congr 1 <;> (ext; simp [fin6] <;> omega)

theorem tab4_eq (C : T4 K) : (Tab.of4 C).get4 = C := by
  funext i j k l
  have h : 27 * i.val + 9 * j.val + 3 * k.val + l.val < 81 := by omega
  simp only [Tab.get4, Tab.of4, Array.getD_eq_getD_getElem?, Array.getElem?_ofFn, h, dite_true, Option.getD_some]
  congr 1 <;> (ext; simp [fin3] <;> omega)

/-! ## rank-4 tensors as 9x9 matrices; the generated einsums are a Kronecker conjugation -/

def toMat (C : T4 K) : Matrix (Fin 3 × Fin 3) (Fin 3 × Fin 3) K := fun p q => C p.1 p.2 q.1 q.2

theorem toMat_inj {C D : T4 K} (h : toMat C = toMat D) : C = D := by
  funext i j k l
  exact congrFun (congrFun h (i, j)) (k, l)

/-- what the two generated `einsum`s compute. -/
theorem rot_apply (T : M33 K) (C : T4 K) (i j k l : Fin 3) :
    rot T C i j k l = ∑ g, ∑ h, ∑ m, ∑ n, T i g * T j h * C g h m n * (T k m * T l n) := by
  simp only [rot, transC, transQ, sum3_eq]

theorem sum4_swap (f : Fin 3 → Fin 3 → Fin 3 → Fin 3 → K) :
    ∑ g, ∑ h, ∑ m, ∑ n, f g h m n = ∑ m, ∑ n, ∑ g, ∑ h, f g h m n := by
  calc ∑ g, ∑ h, ∑ m, ∑ n, f g h m n = ∑ g, ∑ m, ∑ h, ∑ n, f g h m n :=
        Finset.sum_congr rfl fun g _ => Finset.sum_comm
    _ = ∑ m, ∑ g, ∑ h, ∑ n, f g h m n := Finset.sum_comm
    _ = ∑ m, ∑ g, ∑ n, ∑ h, f g h m n :=
        Finset.sum_congr rfl fun m _ => Finset.sum_congr rfl fun g _ => Finset.sum_comm
    _ = ∑ m, ∑ n, ∑ g, ∑ h, f g h m n := Finset.sum_congr rfl fun m _ => Finset.sum_comm

/-- `Q = T ⊗ T`. -/
abbrev kron (T : M33 K) : Matrix (Fin 3 × Fin 3) (Fin 3 × Fin 3) K := Matrix.of T ⊗ₖ Matrix.of T

theorem rot_toMat (T : M33 K) (C : T4 K) : toMat (rot T C) = kron T * toMat C * (kron T)ᵀ := by
  ext ⟨i, j⟩ ⟨k, l⟩
  simp only [toMat, rot_apply, Matrix.mul_apply, Fintype.sum_prod_type, kroneckerMap_apply, transpose_apply,
    of_apply, Finset.sum_mul]
  exact sum4_swap _

/-- 3x3 matrix product and identity in components (the statements of the theorems use these). -/
def mmul (A B : M33 K) : M33 K := fun i j => sum3 fun k => A i k * B k j
def mone : M33 K := fun i j => if i = j then 1 else 0
def mtr (A : M33 K) : M33 K := fun i j => A j i

theorem mmul_of (A B : M33 K) : Matrix.of (mmul A B) = Matrix.of A * Matrix.of B := by
  ext i j; simp [mmul, sum3_eq, Matrix.mul_apply]
theorem mone_of : Matrix.of (mone : M33 K) = 1 := by
  ext i j; simp [mone, Matrix.one_apply]
theorem mtr_of (A : M33 K) : Matrix.of (mtr A) = (Matrix.of A)ᵀ := by
  ext i j; simp [mtr]

theorem kron_mmul (A B : M33 K) : kron (mmul A B) = kron A * kron B := by
  simp only [kron, mmul_of, mul_kronecker_mul]
theorem kron_mone : kron (mone : M33 K) = 1 := by
  simp only [kron, mone_of, one_kronecker_one]
theorem kron_mtr (A : M33 K) : kron (mtr A) = (kron A)ᵀ := by
  simp only [kron, mtr_of, kroneckerMap_transpose]

/-- orthogonality: rows orthonormal (what `axes_check` tests). -/
def Orthogonal (T : M33 K) : Prop := mmul T (mtr T) = mone

theorem Orthogonal.of_mul {T : M33 K} (h : Orthogonal T) : Matrix.of T * (Matrix.of T)ᵀ = 1 := by
  have := congrArg Matrix.of h
  rwa [mmul_of, mtr_of, mone_of] at this

theorem Orthogonal.tr_mul {T : M33 K} (h : Orthogonal T) : mmul (mtr T) T = mone := by
  have h1 : (Matrix.of T)ᵀ * Matrix.of T = 1 := mul_eq_one_comm.mp h.of_mul
  have : Matrix.of (mmul (mtr T) T) = Matrix.of (mone : M33 K) := by rw [mmul_of, mtr_of, mone_of, h1]
  exact Matrix.of.injective this

theorem Orthogonal.mtr {T : M33 K} (h : Orthogonal T) : Orthogonal (mtr T) := by
  unfold Orthogonal
  have : C11.mtr (C11.mtr T) = T := rfl
  rw [this]; exact h.tr_mul

theorem Orthogonal.kron_mul {T : M33 K} (h : Orthogonal T) : kron T * (kron T)ᵀ = 1 := by
  rw [← kron_mtr, ← kron_mmul, h, kron_mone]

theorem Orthogonal.kron_tr_mul {T : M33 K} (h : Orthogonal T) : (kron T)ᵀ * kron T = 1 := by
  rw [← kron_mtr, ← kron_mmul, h.tr_mul, kron_mone]

theorem rot_one (C : T4 K) : rot mone C = C := by
  apply toMat_inj; rw [rot_toMat, kron_mone]; simp

theorem rot_comp (A B : M33 K) (C : T4 K) : rot A (rot B C) = rot (mmul A B) C := by
  apply toMat_inj
  rw [rot_toMat, rot_toMat, rot_toMat, kron_mmul, transpose_mul]
  simp only [Matrix.mul_assoc]

theorem rot_inv {T : M33 K} (h : Orthogonal T) (C : T4 K) : rot (mtr T) (rot T C) = C := by
  rw [rot_comp, h.tr_mul, rot_one]

theorem rot_add (T : M33 K) (C D : T4 K) : rot T (fun i j k l => C i j k l + D i j k l)
    = fun i j k l => rot T C i j k l + rot T D i j k l := by
  funext i j k l
  simp only [rot_apply, ← Finset.sum_add_distrib]
  refine Finset.sum_congr rfl fun g _ => Finset.sum_congr rfl fun h _ => Finset.sum_congr rfl fun m _ =>
    Finset.sum_congr rfl fun n _ => ?_
  ring

theorem rot_smul (T : M33 K) (a : K) (C : T4 K) : rot T (fun i j k l => a * C i j k l)
    = fun i j k l => a * rot T C i j k l := by
  funext i j k l
  simp only [rot_apply, Finset.mul_sum]
  refine Finset.sum_congr rfl fun g _ => Finset.sum_congr rfl fun h _ => Finset.sum_congr rfl fun m _ =>
    Finset.sum_congr rfl fun n _ => ?_
  ring

/-! ### symmetries are preserved by `rot` -/

theorem rot_major (T : M33 K) {C : T4 K} (h : MajorSymm C) : MajorSymm (rot T C) := by
  intro i j k l
  rw [rot_apply, rot_apply, sum4_swap]
  refine Finset.sum_congr rfl fun g _ => Finset.sum_congr rfl fun h' _ => Finset.sum_congr rfl fun m _ =>
    Finset.sum_congr rfl fun n _ => ?_
  rw [h m n g h']; ring

theorem rot_minor (T : M33 K) {C : T4 K} (h : MinorSymm C) : MinorSymm (rot T C) := by
  intro i j k l
  constructor
  · rw [rot_apply, rot_apply, Finset.sum_comm]
    refine Finset.sum_congr rfl fun g _ => Finset.sum_congr rfl fun h' _ => Finset.sum_congr rfl fun m _ =>
      Finset.sum_congr rfl fun n _ => ?_
    rw [(h h' g m n).1]; ring
  · rw [rot_apply, rot_apply]
    refine Finset.sum_congr rfl fun g _ => Finset.sum_congr rfl fun h' _ => ?_
    rw [Finset.sum_comm]
    refine Finset.sum_congr rfl fun m _ => Finset.sum_congr rfl fun n _ => ?_
    rw [(h g h' n m).2]; ring

end field
end Atomman.C11
