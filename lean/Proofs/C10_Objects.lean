/-
  C10 — helper lemmas on objects with state (`BoxObj`, `SysObj`, Atomman/C10.lean): whatever sequence of
  operations a `Box` object went through, the reciprocal vectors it keeps are those of its current cell.
-/
import Proofs.C10_System

namespace Atomman.C10
open Atomman
set_option linter.unusedSectionVars false
variable {K : Type}

section ops
variable [Add K] [Sub K] [Mul K] [Div K]

theorem systemModelR_eq [One K] [IntCast K] (fac : String → K) (boxUnit : Option String)
    (pu : List (String × Option String)) (s : SystemM K) :
    systemModelR fac boxUnit pu s s.box.cartToRel = systemModel fac boxUnit pu s := rfl

namespace BoxObj

theorem coherent_ofBox (b : Box K) : (ofBox b).Coherent := by
  intro r h; cases h

theorem coherent_setVects [Neg K] [OfNat K 0] [LT K] [DecidableLT K] (eps : K) (b : BoxObj K) (m : M3 K) :
    (b.setVects eps m).Coherent := by
  intro r h; cases h

theorem coherent_setOrigin (b : BoxObj K) (o : V3 K) (h : b.Coherent) : (b.setOrigin o).Coherent := by
  intro r hr
  exact h r hr

theorem coherent_readModel [Neg K] [One K] [OfNat K 0] [IntCast K] [LT K] [DecidableLT K]
    (fac : String → K) (eps : K) (b b' : BoxObj K) (t : DM K) (h : b.readModel fac eps t = some b') :
    b'.Coherent := by
  unfold readModel at h
  split at h
  · cases h
  · cases h
    intro r hr
    cases hr

theorem recipVects_box (b : BoxObj K) : b.recipVects.2.box = b.box := by
  unfold recipVects; split <;> rfl

theorem recipVects_fst (b : BoxObj K) (h : b.Coherent) : b.recipVects.1 = b.box.recip := by
  unfold recipVects
  split
  · next r hr => exact h r hr
  · rfl

theorem coherent_recipVects (b : BoxObj K) (h : b.Coherent) : b.recipVects.2.Coherent := by
  unfold recipVects
  split
  · exact h
  · intro r hr
    cases hr
    rfl

/-- with coherent kept state the object's conversion is the conversion of its current cell. -/
theorem cartToRel_fst (b : BoxObj K) (h : b.Coherent) (p : V3 K) : (b.cartToRel p).1 = b.box.cartToRel p := by
  simp only [cartToRel, recipVects_fst b h, Box.cartToRel]

theorem cartToRel_snd (b : BoxObj K) (p : V3 K) : (b.cartToRel p).2 = b.recipVects.2 := rfl

end BoxObj

/-- the states a `Box` object can reach: construction, then any sequence of setter calls, conversions (which
    fill the kept reciprocal vectors) and `model(model=…)` reads. -/
inductive BoxReach [Neg K] [One K] [OfNat K 0] [IntCast K] [LT K] [DecidableLT K] (eps : K) : BoxObj K → Prop
  | new (b : Box K) : BoxReach eps (BoxObj.ofBox b)
  | setVects (b : BoxObj K) (m : M3 K) : BoxReach eps b → BoxReach eps (b.setVects eps m)
  | setOrigin (b : BoxObj K) (o : V3 K) : BoxReach eps b → BoxReach eps (b.setOrigin o)
  | recip (b : BoxObj K) : BoxReach eps b → BoxReach eps b.recipVects.2
  | convert (b : BoxObj K) (p : V3 K) : BoxReach eps b → BoxReach eps (b.cartToRel p).2
  | read (fac : String → K) (b b' : BoxObj K) (t : DM K) : BoxReach eps b → b.readModel fac eps t = some b' →
      BoxReach eps b'

theorem BoxReach.coherent [Neg K] [One K] [OfNat K 0] [IntCast K] [LT K] [DecidableLT K] (eps : K)
    (b : BoxObj K) (h : BoxReach eps b) : b.Coherent := by
  induction h with
  | new b => exact BoxObj.coherent_ofBox b
  | setVects b m _ _ => exact BoxObj.coherent_setVects eps b m
  | setOrigin b o _ ih => exact BoxObj.coherent_setOrigin b o ih
  | recip b _ ih => exact BoxObj.coherent_recipVects b ih
  | convert b p _ ih => exact BoxObj.coherent_recipVects b ih
  | read fac b b' t _ hr _ => exact BoxObj.coherent_readModel fac eps b b' t hr

end ops
end Atomman.C10
