/-
  C11 — isotropic helpers: the textbook moduli of the material with Lamé constants `lam`, `mu`, the isotropic 6x6
  pattern and its algebra (product, explicit inverse), used by the modulus-pair theorems and by the idempotence of
  `normalized_as('isotropic')`.
-/
import Proofs.C11_Lemmas

namespace Atomman.C11
open Atomman.Gen Matrix
set_option linter.unusedSectionVars false
set_option linter.unusedSimpArgs false
set_option linter.unusedVariables false
set_option linter.unnecessarySeqFocus false
set_option linter.unusedTactic false
set_option linter.unreachableTactic false

section defs
variable {K : Type} [Field K]

/-- the 6x6 literal every isotropic branch ends in. -/
def isoList (c11 c12 c44 : K) : List K :=
  [c11, c12, c12, ((0 : Nat) : K), ((0 : Nat) : K), ((0 : Nat) : K),
   c12, c11, c12, ((0 : Nat) : K), ((0 : Nat) : K), ((0 : Nat) : K),
   c12, c12, c11, ((0 : Nat) : K), ((0 : Nat) : K), ((0 : Nat) : K),
   ((0 : Nat) : K), ((0 : Nat) : K), ((0 : Nat) : K), c44, ((0 : Nat) : K), ((0 : Nat) : K),
   ((0 : Nat) : K), ((0 : Nat) : K), ((0 : Nat) : K), ((0 : Nat) : K), c44, ((0 : Nat) : K),
   ((0 : Nat) : K), ((0 : Nat) : K), ((0 : Nat) : K), ((0 : Nat) : K), ((0 : Nat) : K), c44]

/-- textbook moduli in terms of the Lamé constants. -/
def isoE (lam mu : K) : K := mu * (3 * lam + 2 * mu) / (lam + mu)
def isoNu (lam mu : K) : K := lam / (2 * (lam + mu))
def isoK (lam mu : K) : K := lam + 2 * mu / 3
def isoM (lam mu : K) : K := lam + 2 * mu

/-- the isotropic stiffness `(C11, C12, C44) = (λ+2μ, λ, μ)`. -/
abbrev isoC (lam mu : K) : List K := isoList (lam + 2 * mu) lam mu

theorem isoList_entries (x y z : K) :
    (m6 (isoList x y z) 0 0 = x ∧ m6 (isoList x y z) 0 1 = y ∧ m6 (isoList x y z) 0 2 = y ∧
      m6 (isoList x y z) 0 3 = 0 ∧ m6 (isoList x y z) 0 4 = 0 ∧ m6 (isoList x y z) 0 5 = 0) ∧
    (m6 (isoList x y z) 1 0 = y ∧ m6 (isoList x y z) 1 1 = x ∧ m6 (isoList x y z) 1 2 = y ∧
      m6 (isoList x y z) 1 3 = 0 ∧ m6 (isoList x y z) 1 4 = 0 ∧ m6 (isoList x y z) 1 5 = 0) ∧
    (m6 (isoList x y z) 2 0 = y ∧ m6 (isoList x y z) 2 1 = y ∧ m6 (isoList x y z) 2 2 = x ∧
      m6 (isoList x y z) 2 3 = 0 ∧ m6 (isoList x y z) 2 4 = 0 ∧ m6 (isoList x y z) 2 5 = 0) ∧
    (m6 (isoList x y z) 3 0 = 0 ∧ m6 (isoList x y z) 3 1 = 0 ∧ m6 (isoList x y z) 3 2 = 0 ∧
      m6 (isoList x y z) 3 3 = z ∧ m6 (isoList x y z) 3 4 = 0 ∧ m6 (isoList x y z) 3 5 = 0) ∧
    (m6 (isoList x y z) 4 0 = 0 ∧ m6 (isoList x y z) 4 1 = 0 ∧ m6 (isoList x y z) 4 2 = 0 ∧
      m6 (isoList x y z) 4 3 = 0 ∧ m6 (isoList x y z) 4 4 = z ∧ m6 (isoList x y z) 4 5 = 0) ∧
    (m6 (isoList x y z) 5 0 = 0 ∧ m6 (isoList x y z) 5 1 = 0 ∧ m6 (isoList x y z) 5 2 = 0 ∧
      m6 (isoList x y z) 5 3 = 0 ∧ m6 (isoList x y z) 5 4 = 0 ∧ m6 (isoList x y z) 5 5 = z) := by
  simp [m6, isoList]

/-- product of two matrices of the isotropic pattern. -/
theorem isoList_mul (a b c x y z : K) (i j : Fin 6) :
    ∑ k, m6 (isoList a b c) i k * m6 (isoList x y z) k j
      = m6 (isoList (a * x + 2 * (b * y)) (a * y + b * x + b * y) (c * z)) i j := by
  obtain ⟨⟨a00, a01, a02, a03, a04, a05⟩, ⟨a10, a11, a12, a13, a14, a15⟩, ⟨a20, a21, a22, a23, a24, a25⟩,
    ⟨a30, a31, a32, a33, a34, a35⟩, ⟨a40, a41, a42, a43, a44, a45⟩, ⟨a50, a51, a52, a53, a54, a55⟩⟩ :=
    isoList_entries a b c
  obtain ⟨⟨b00, b01, b02, b03, b04, b05⟩, ⟨b10, b11, b12, b13, b14, b15⟩, ⟨b20, b21, b22, b23, b24, b25⟩,
    ⟨b30, b31, b32, b33, b34, b35⟩, ⟨b40, b41, b42, b43, b44, b45⟩, ⟨b50, b51, b52, b53, b54, b55⟩⟩ :=
    isoList_entries x y z
  obtain ⟨⟨c00, c01, c02, c03, c04, c05⟩, ⟨c10, c11, c12, c13, c14, c15⟩, ⟨c20, c21, c22, c23, c24, c25⟩,
    ⟨c30, c31, c32, c33, c34, c35⟩, ⟨c40, c41, c42, c43, c44, c45⟩, ⟨c50, c51, c52, c53, c54, c55⟩⟩ :=
    isoList_entries (a * x + 2 * (b * y)) (a * y + b * x + b * y) (c * z)
  fin_cases i <;> fin_cases j <;>
    (simp only [Fin.sum_univ_six, Fin.zero_eta, Fin.mk_one, Fin.reduceFinMk,
      a00, a01, a02, a03, a04, a05, a10, a11, a12, a13, a14, a15, a20, a21, a22, a23, a24, a25,
      a30, a31, a32, a33, a34, a35, a40, a41, a42, a43, a44, a45, a50, a51, a52, a53, a54, a55,
      b00, b01, b02, b03, b04, b05, b10, b11, b12, b13, b14, b15, b20, b21, b22, b23, b24, b25,
      b30, b31, b32, b33, b34, b35, b40, b41, b42, b43, b44, b45, b50, b51, b52, b53, b54, b55,
      c00, c01, c02, c03, c04, c05, c10, c11, c12, c13, c14, c15, c20, c21, c22, c23, c24, c25,
      c30, c31, c32, c33, c34, c35, c40, c41, c42, c43, c44, c45, c50, c51, c52, c53, c54, c55] <;> ring)

theorem one_eq_isoList (i j : Fin 6) : (if i = j then (1 : K) else 0) = m6 (isoList 1 0 1) i j := by
  fin_cases i <;> fin_cases j <;> simp [m6, isoList]

/-- a two-sided inverse is unique (6x6, in components). -/
theorem inverse_unique (c s t : M6 K) (hsc : ∀ a d, ∑ b, s a b * c b d = if a = d then 1 else 0)
    (hct : ∀ a d, ∑ b, c a b * t b d = if a = d then 1 else 0) : s = t := by
  have h1 : Matrix.of s * Matrix.of c = 1 := by
    ext a d; simp [Matrix.mul_apply, hsc a d, Matrix.one_apply]
  have h2 : Matrix.of c * Matrix.of t = 1 := by
    ext a d; simp [Matrix.mul_apply, hct a d, Matrix.one_apply]
  have : Matrix.of s = Matrix.of t := by
    calc Matrix.of s = Matrix.of s * (Matrix.of c * Matrix.of t) := by rw [h2, Matrix.mul_one]
      _ = Matrix.of t := by rw [← Matrix.mul_assoc, h1, Matrix.one_mul]
  exact Matrix.of.injective this

end defs

section charzero
variable {K : Type} [Field K] [CharZero K]

/-- compliance of the isotropic stiffness with shear modulus `mu` and bulk modulus `Kb`. -/
def isoS (mu Kb : K) : M6 K :=
  m6 (isoList ((3 * Kb + mu) / (9 * Kb * mu)) (-(3 * Kb - 2 * mu) / (18 * Kb * mu)) (1 / mu))

theorem ctor_mu_K_eq (mu Kb : K) : ctor_mu_K mu Kb = isoList (Kb - 2 * mu / 3 + 2 * mu) (Kb - 2 * mu / 3) mu := by
  simp [ctor_mu_K, isoList]

theorem iso_mul_isoS (mu Kb : K) (hmu : mu ≠ 0) (hK : Kb ≠ 0) (a d : Fin 6) :
    ∑ b, m6 (ctor_mu_K mu Kb) a b * isoS mu Kb b d = if a = d then 1 else 0 := by
  rw [ctor_mu_K_eq, isoS, isoList_mul, one_eq_isoList]
  congr 2 <;> (field_simp <;> ring)

/-- Hill averages of an isotropic stiffness return its own moduli. -/
theorem hill_of_iso (mu Kb : K) (hmu : mu ≠ 0) (hK : Kb ≠ 0) :
    shearHill (m6 (ctor_mu_K mu Kb)) (isoS mu Kb) = mu ∧ bulkHill (m6 (ctor_mu_K mu Kb)) (isoS mu Kb) = Kb := by
  obtain ⟨⟨a00, a01, a02, a03, a04, a05⟩, ⟨a10, a11, a12, a13, a14, a15⟩, ⟨a20, a21, a22, a23, a24, a25⟩,
    ⟨a30, a31, a32, a33, a34, a35⟩, ⟨a40, a41, a42, a43, a44, a45⟩, ⟨a50, a51, a52, a53, a54, a55⟩⟩ :=
    isoList_entries (Kb - 2 * mu / 3 + 2 * mu) (Kb - 2 * mu / 3) mu
  obtain ⟨⟨b00, b01, b02, b03, b04, b05⟩, ⟨b10, b11, b12, b13, b14, b15⟩, ⟨b20, b21, b22, b23, b24, b25⟩,
    ⟨b30, b31, b32, b33, b34, b35⟩, ⟨b40, b41, b42, b43, b44, b45⟩, ⟨b50, b51, b52, b53, b54, b55⟩⟩ :=
    isoList_entries ((3 * Kb + mu) / (9 * Kb * mu)) (-(3 * Kb - 2 * mu) / (18 * Kb * mu)) (1 / mu)
  rw [ctor_mu_K_eq]
  constructor
  · simp only [shearHill, shearVoigt, shearReuss, isoS, a00, a11, a22, a01, a12, a02, a33, a44, a55,
      b00, b11, b22, b01, b12, b02, b33, b44, b55, Nat.cast_ofNat]
    have : 4 * ((3 * Kb + mu) / (9 * Kb * mu) + (3 * Kb + mu) / (9 * Kb * mu) + (3 * Kb + mu) / (9 * Kb * mu))
        - 4 * (-(3 * Kb - 2 * mu) / (18 * Kb * mu) + -(3 * Kb - 2 * mu) / (18 * Kb * mu)
          + -(3 * Kb - 2 * mu) / (18 * Kb * mu)) + 3 * (1 / mu + 1 / mu + 1 / mu) = 15 / mu := by
      field_simp; ring
    rw [this]; field_simp; ring
  · simp only [bulkHill, bulkVoigt, bulkReuss, isoS, a00, a11, a22, a01, a12, a02, a33, a44, a55,
      b00, b11, b22, b01, b12, b02, b33, b44, b55, Nat.cast_ofNat, Nat.cast_one]
    have : (3 * Kb + mu) / (9 * Kb * mu) + (3 * Kb + mu) / (9 * Kb * mu) + (3 * Kb + mu) / (9 * Kb * mu)
        + 2 * (-(3 * Kb - 2 * mu) / (18 * Kb * mu) + -(3 * Kb - 2 * mu) / (18 * Kb * mu)
          + -(3 * Kb - 2 * mu) / (18 * Kb * mu)) = 1 / Kb := by
      field_simp; ring
    rw [this]; field_simp; ring

end charzero

section ordered
variable {K : Type} [Field K] [LinearOrder K] [IsStrictOrderedRing K]

/-- facts used by the fifteen modulus-pair theorems (`0 ≤ λ`, `0 < μ`, i.e. `0 ≤ ν < ½`, `μ > 0`). -/
theorem iso_aux (lam mu : K) (hl : 0 ≤ lam) (hm : 0 < mu) :
    lam + mu ≠ 0 ∧ mu ≠ 0 ∧ 3 * lam + 2 * mu ≠ 0 ∧ lam + 2 * mu ≠ 0 ∧
    1 - isoNu lam mu = (lam + 2 * mu) / (2 * (lam + mu)) ∧ 1 + isoNu lam mu = (3 * lam + 2 * mu) / (2 * (lam + mu)) ∧
    1 - 2 * isoNu lam mu = mu / (lam + mu) := by
  have hs : lam + mu ≠ 0 := by positivity
  refine ⟨hs, hm.ne', by positivity, by positivity, ?_, ?_, ?_⟩ <;> (unfold isoNu; field_simp <;> ring)

/-- for `μ > 0` and `λ + μ > 0`: `0 ≤ ν < ½` says exactly `0 ≤ λ`. -/
theorem iso_nu_range (lam mu : K) (hm : 0 < mu) (hs : 0 < lam + mu) :
    (0 ≤ isoNu lam mu ∧ isoNu lam mu < 1 / 2) ↔ 0 ≤ lam := by
  unfold isoNu
  constructor
  · rintro ⟨h0, _⟩
    have h2 : 0 < 2 * (lam + mu) := by positivity
    by_contra hneg
    rw [not_le] at hneg
    have : lam / (2 * (lam + mu)) < 0 := div_neg_of_neg_of_pos hneg h2
    linarith
  · intro hl
    refine ⟨by positivity, ?_⟩
    rw [div_lt_div_iff₀ (by positivity) (by norm_num)]
    nlinarith

end ordered

/-- closes `ctor_X_Y (moduli) = isoC lam mu` once the hypotheses needed by `field_simp` are in context. -/
macro "iso_close" : tactic => `(tactic|
  (show isoList _ _ _ = isoList _ _ _
   (try simp only [isoE, isoK, isoM, Nat.cast_ofNat, Nat.cast_one]) <;>
   (congr 1 <;> (field_simp <;> ring))))

end Atomman.C11
