/-
  C09 — helper lemmas about text: numerals contain no blank (`numLit_none_of_ws`), `strip`, the split points of
  `set_literal`, and the value of `set_literal` on "numeral, space, unit expression".
-/
import Proofs.C09_Lemmas

namespace Atomman.C09
set_option linter.unusedSimpArgs false
set_option linter.unusedSectionVars false
set_option linter.unusedVariables false

/-! ### numerals -/

theorem mem_tw_dw (p : Char → Bool) (l : List Char) (c : Char) (h : c ∈ l) (hp : p c = false) :
    c ∈ l.dropWhile p := by
  have := List.takeWhile_append_dropWhile (p := p) (l := l)
  rw [← this] at h
  rcases List.mem_append.mp h with h | h
  · have h2 := List.all_eq_true.mp (List.all_takeWhile (p := p) (l := l)) c h
    rw [hp] at h2; cases h2
  · exact h

theorem ws_not_digit {c : Char} (h : isWs c = true) : isDigit c = false := by
  simp only [isWs, Bool.or_eq_true, decide_eq_true_eq] at h
  rcases h with ((rfl | rfl) | rfl) | rfl <;> decide

theorem mem_dropMinus {c : Char} {cs : List Char} (h : c ∈ cs) (hc : c ≠ '-') : c ∈ dropMinus cs := by
  unfold dropMinus
  split
  · rcases List.mem_cons.mp h with h | h
    · exact absurd h hc
    · exact h
  · exact h

theorem mem_dropSign {c : Char} {cs : List Char} (h : c ∈ cs) (h1 : c ≠ '-') (h2 : c ≠ '+') : c ∈ dropSign cs := by
  unfold dropSign
  split
  · rcases List.mem_cons.mp h with h | h
    · exact absurd h h1
    · exact h
  · rcases List.mem_cons.mp h with h | h
    · exact absurd h h2
    · exact h
  · exact h

theorem mem_fracPart {c : Char} {r1 : List Char} (h : c ∈ r1) (h1 : c ≠ '.') (hd : isDigit c = false) :
    c ∈ (fracPart r1).2 := by
  unfold fracPart
  split
  · rcases List.mem_cons.mp h with h | h
    · exact absurd h h1
    · exact mem_tw_dw _ _ _ h hd
  · exact h

/-- a numeral contains no blank: `numLit` rejects every string with a blank in it. -/
theorem numLit_none_of_ws (cs : List Char) (c : Char) (hc : c ∈ cs) (hw : isWs c = true) : numLit cs = none := by
  have hd := ws_not_digit hw
  have hne : c ≠ '-' ∧ c ≠ '+' ∧ c ≠ '.' ∧ c ≠ 'e' ∧ c ≠ 'E' := by
    simp only [isWs, Bool.or_eq_true, decide_eq_true_eq] at hw
    rcases hw with ((rfl | rfl) | rfl) | rfl <;> decide
  obtain ⟨n1, n2, n3, n4, n5⟩ := hne
  have h2 : c ∈ (fracPart ((dropMinus cs).dropWhile isDigit)).2 :=
    mem_fracPart (mem_tw_dw _ _ _ (mem_dropMinus hc n1) hd) n3 hd
  unfold numLit
  simp only
  generalize (fracPart ((dropMinus cs).dropWhile isDigit)).2 = r2 at h2
  split
  · rfl
  · cases r2 with
    | nil => cases h2
    | cons e r3 =>
      simp only
      split
      · rename_i he
        have hce : c ≠ e := by
          simp only [Bool.or_eq_true, decide_eq_true_eq] at he
          rcases he with rfl | rfl
          · exact n4
          · exact n5
        have h3 : c ∈ r3 := by
          rcases List.mem_cons.mp h2 with h | h
          · exact absurd h hce
          · exact h
        have h4 := mem_dropSign h3 n1 n2
        have : (dropSign r3).all isDigit = false := by
          rw [List.all_eq_false]
          exact ⟨c, h4, by simp [hd]⟩
        simp [this]
      · rfl

/-! ### strip -/

def allWs (s : List Char) : Prop := ∀ c ∈ s, isWs c = true
def noWs (s : List Char) : Prop := ∀ c ∈ s, isWs c = false

theorem dropWhile_append_all {p : Char → Bool} (l1 l2 : List Char) (h : ∀ x ∈ l1, p x = true) :
    (l1 ++ l2).dropWhile p = l2.dropWhile p := by
  induction l1 with
  | nil => rfl
  | cons a l ih =>
    have ha := h a (List.mem_cons_self ..)
    simp only [List.cons_append, List.dropWhile_cons, ha, if_true]
    exact ih (fun x hx => h x (List.mem_cons_of_mem _ hx))

def rstrip (s : List Char) : List Char := (s.reverse.dropWhile isWs).reverse

theorem strip_eq (s : List Char) : strip s = rstrip (s.dropWhile isWs) := rfl

theorem rstrip_append_ws (a b : List Char) (hb : allWs b) : rstrip (a ++ b) = rstrip a := by
  unfold rstrip
  rw [List.reverse_append, dropWhile_append_all _ _ (by intro x hx; exact hb x (List.mem_reverse.mp hx))]

theorem rstrip_snoc (a : List Char) (c : Char) (hc : isWs c = false) : rstrip (a ++ [c]) = a ++ [c] := by
  unfold rstrip
  simp [List.reverse_append, List.dropWhile_cons, hc]

theorem rstrip_noWs (v : List Char) (hv : noWs v) : rstrip v = v := by
  rcases List.eq_nil_or_concat v with rfl | ⟨a, c, rfl⟩
  · rfl
  · rw [List.concat_eq_append]
    exact rstrip_snoc a c (hv c (by simp))

theorem dropWhile_head {v : List Char} (hv : noWs v) (x : List Char) (hne : v ≠ []) :
    (v ++ x).dropWhile isWs = v ++ x := by
  cases v with
  | nil => exact absurd rfl hne
  | cons c v' =>
    have := hv c (List.mem_cons_self ..)
    simp [List.dropWhile_cons, this]

/-- blanks after a blank-free word are stripped. -/
theorem strip_word_ws (v b : List Char) (hv : noWs v) (hne : v ≠ []) (hb : allWs b) : strip (v ++ b) = v := by
  rw [strip_eq, dropWhile_head hv b hne, rstrip_append_ws _ _ hb, rstrip_noWs v hv]

/-- leading blanks do not matter. -/
theorem strip_ws_prefix (b s : List Char) (hb : allWs b) : strip (b ++ s) = strip s := by
  rw [strip_eq, strip_eq, dropWhile_append_all _ _ hb]

theorem strip_allWs (b : List Char) (hb : allWs b) : strip b = [] := by
  have := strip_ws_prefix b [] hb
  simpa [strip] using this

theorem last_nonws (w : List Char) :
    allWs w ∨ ∃ w1 c w2, w = w1 ++ c :: w2 ∧ isWs c = false ∧ allWs w2 := by
  induction w with
  | nil => left; intro c hc; cases hc
  | cons a w ih =>
    rcases ih with h | ⟨w1, c, w2, rfl, hc, h2⟩
    · by_cases ha : isWs a = true
      · left
        intro c hc
        rcases List.mem_cons.mp hc with rfl | hc
        · exact ha
        · exact h c hc
      · right
        exact ⟨[], a, w, rfl, by simpa using ha, h⟩
    · right
      exact ⟨a :: w1, c, w2, rfl, hc, h2⟩

/-- a blank between a word and a later non-blank survives `strip`. -/
theorem strip_interior (v x : List Char) (hv : noWs v) (hne : v ≠ []) (hx : ¬ allWs x) :
    ' ' ∈ strip (v ++ ' ' :: x) := by
  rcases last_nonws x with h | ⟨x1, c, x2, rfl, hc, h2⟩
  · exact absurd h hx
  · rw [strip_eq, dropWhile_head hv _ hne]
    have : v ++ ' ' :: (x1 ++ c :: x2) = ((v ++ ' ' :: x1) ++ [c]) ++ x2 := by simp
    rw [this, rstrip_append_ws _ _ h2, rstrip_snoc _ _ hc]
    simp


/-! ### set_literal -/

theorem findSome_of {α β : Type} (g : α → Option β) (t : β) (L : List α)
    (h1 : ∀ j ∈ L, g j = none ∨ g j = some t) (h2 : ∃ j ∈ L, g j = some t) : L.findSome? g = some t := by
  induction L with
  | nil => obtain ⟨j, hj, _⟩ := h2; cases hj
  | cons a L ih =>
    rw [List.findSome?_cons]
    rcases h1 a (List.mem_cons_self ..) with h | h
    · rw [h]
      apply ih (fun j hj => h1 j (List.mem_cons_of_mem _ hj))
      obtain ⟨j, hj, hg⟩ := h2
      rcases List.mem_cons.mp hj with rfl | hj
      · rw [h] at hg; cases hg
      · exact ⟨j, hj, hg⟩
    · rw [h]

theorem mem_splitPoints (term : List Char) (j : Nat) :
    j ∈ splitPoints term ↔ j = term.length ∨ (j < term.length ∧ term[j]? = some ' ') := by
  simp [splitPoints, List.mem_filter, List.mem_range]

variable {K : Type} [Mul K] [Div K] [OfNat K 1] [IntCast K] [NatCast K]

/-- **set_literal**: a numeral, a space, a unit expression (blanks allowed inside and around it) is the value of the
    numeral times the parsed factor of the (stripped) unit expression. -/
theorem setLiteral_value_unit (alg : Alg K) (env : List Char → Option K) (v u : List Char) (me : Int × Int) (f : K)
    (hv : numLit v = some me) (hu : strip u ≠ [])
    (hf : parseUnits alg env (some (strip u)) = some f) :
    setLiteral alg env (v ++ ' ' :: u) = some (litVal me.1 me.2 * f) := by
  have hvw : noWs v := by
    intro c hc
    cases hw : isWs c with
    | false => rfl
    | true => rw [numLit_none_of_ws v c hc hw] at hv; cases hv
  have hvne : v ≠ [] := by
    rintro rfl
    have h0 : numLit [] = none := by decide
    rw [h0] at hv; cases hv
  have hunw : ¬ allWs u := fun h => hu (strip_allWs u h)
  unfold setLiteral
  apply findSome_of
  · intro j hj
    rcases (mem_splitPoints _ j).mp hj with rfl | ⟨hlt, hsp⟩
    · -- the whole term as value: it has an interior blank
      left
      have h1 := strip_interior v u hvw hvne hunw
      simp only [List.take_length]
      rw [numLit_none_of_ws _ ' ' h1 (by decide)]
    · -- a space of the term: not inside v
      have hjv : v.length ≤ j := by
        by_contra hlt'
        have hlt' : j < v.length := by omega
        rw [List.getElem?_append_left hlt'] at hsp
        have hmem : ' ' ∈ v := List.mem_of_getElem? hsp
        have := hvw ' ' hmem
        revert this; decide
      obtain ⟨k, rfl⟩ : ∃ k, j = v.length + k := ⟨j - v.length, by omega⟩
      have e2 : v.length + k - v.length = k := by omega
      have htake : (v ++ ' ' :: u).take (v.length + k) = v ++ (' ' :: u).take k := by
        rw [List.take_append, List.take_of_length_le (by omega), e2]
      have hdrop : (v ++ ' ' :: u).drop (v.length + k) = (' ' :: u).drop k := by
        rw [List.drop_append, List.drop_of_length_le (by omega), e2, List.nil_append]
      simp only [htake, hdrop]
      by_cases hA : allWs ((' ' :: u).take k)
      · right
        rw [strip_word_ws v _ hvw hvne hA, hv]
        have hsu : strip ((' ' :: u).drop k) = strip u := by
          have e1 := strip_ws_prefix ((' ' :: u).take k) ((' ' :: u).drop k) hA
          rw [List.take_append_drop] at e1
          rw [← e1]
          exact strip_ws_prefix [' '] u (by intro c hc; simp at hc; subst hc; decide)
        simp only [hsu]
        have : (strip u).isEmpty = false := by
          cases h : strip u with
          | nil => exact absurd h hu
          | cons _ _ => rfl
        simp only [this, Bool.false_eq_true, if_false, hf]
      · left
        cases k with
        | zero => exact absurd (by intro c hc; simp at hc) hA
        | succ k' =>
          have : (' ' :: u).take (k' + 1) = ' ' :: u.take k' := rfl
          rw [this] at hA ⊢
          have hx : ¬ allWs (u.take k') := by
            intro h
            apply hA
            intro c hc
            rcases List.mem_cons.mp hc with rfl | hc
            · decide
            · exact h c hc
          have h1 := strip_interior v (u.take k') hvw hvne hx
          rw [numLit_none_of_ws _ ' ' h1 (by decide)]
  · refine ⟨v.length, (mem_splitPoints _ _).mpr (Or.inr ⟨by simp, by simp⟩), ?_⟩
    have htake : (v ++ ' ' :: u).take v.length = v := by simp
    have hdrop : (v ++ ' ' :: u).drop v.length = ' ' :: u := by simp
    simp only [htake, hdrop]
    have h0 : strip v = v := by simpa using strip_word_ws v [] hvw hvne (by intro c hc; cases hc)
    have hsu : strip (' ' :: u) = strip u :=
      strip_ws_prefix [' '] u (by intro c hc; simp at hc; subst hc; decide)
    have : (strip u).isEmpty = false := by
      cases h : strip u with
      | nil => exact absurd h hu
      | cons _ _ => rfl
    simp only [h0, hv, hsu, this, Bool.false_eq_true, if_false, hf]


/-! ### the model's renderer writes the ordinary grammar -/

/-- the leaves of a tree are tokens `parse` can read back. -/
def LeavesOK : Expr → Prop
  | .num l => validNum l
  | .name n => validName n
  | .mul a b => LeavesOK a ∧ LeavesOK b
  | .div a b => LeavesOK a ∧ LeavesOK b
  | .pow a b => LeavesOK a ∧ LeavesOK b

theorem renders_mono {e : Expr} {l : Nat} {s : List Char} (h : Renders e l s) : ∀ k, Renders e (l + k) s
  | 0 => h
  | k + 1 => Renders.up (renders_mono h k)

theorem renders_le {e : Expr} {l l' : Nat} {s : List Char} (h : Renders e l s) (hl : l ≤ l') : Renders e l' s := by
  obtain ⟨k, rfl⟩ := Nat.exists_eq_add_of_le hl
  exact renders_mono h k

theorem renders_wsL {e : Expr} {l : Nat} {s : List Char} (h : Renders e l s) (w : List Char) (hw : allWs w) :
    Renders e l (w ++ s) := by
  induction w with
  | nil => exact h
  | cons c w ih =>
    exact Renders.wsL c (hw c (List.mem_cons_self ..)) (ih (fun x hx => hw x (List.mem_cons_of_mem _ hx)))

theorem renders_wsR {e : Expr} {l : Nat} {s : List Char} (h : Renders e l s) (w : List Char) (hw : allWs w) :
    Renders e l (s ++ w) := by
  induction w generalizing s with
  | nil => simpa using h
  | cons c w ih =>
    have h1 := Renders.wsR c (hw c (List.mem_cons_self ..)) h
    have h2 := ih h1 (fun x hx => hw x (List.mem_cons_of_mem _ hx))
    simpa using h2

theorem renders_paren_pad {e : Expr} {l : Nat} {s : List Char} (h : Renders e l s) (w : List Char) (hw : allWs w)
    (k : Nat) : Renders e k (w ++ '(' :: s ++ ')' :: w) := by
  have h1 : Renders e 0 ('(' :: (s ++ [')'])) := Renders.paren h
  have h2 := renders_wsR (renders_wsL h1 w hw) w hw
  have : w ++ '(' :: (s ++ [')']) ++ w = w ++ '(' :: s ++ ')' :: w := by simp
  rw [this] at h2
  exact renders_le h2 (Nat.zero_le _)

/-- the model's renderer (minimal parentheses, the blank string `w` around every token and parenthesis group)
    writes the tree in the ordinary grammar. -/
theorem render_renders (w : List Char) (hw : allWs w) : ∀ (e : Expr) (lvl : Nat), LeavesOK e →
    Renders e lvl (render w lvl e)
  | .num l, lvl, h => by
    simp only [render]
    exact renders_le (renders_wsR (renders_wsL (Renders.num l h) w hw) w hw) (Nat.zero_le _)
  | .name n, lvl, h => by
    simp only [render]
    exact renders_le (renders_wsR (renders_wsL (Renders.name n h) w hw) w hw) (Nat.zero_le _)
  | .mul a b, lvl, h => by
    have hab := Renders.mul (render_renders w hw a 2 h.1) (render_renders w hw b 1 h.2)
    simp only [render]
    split
    · exact renders_le hab ‹_›
    · exact renders_paren_pad hab w hw lvl
  | .div a b, lvl, h => by
    have hab := Renders.div (render_renders w hw a 2 h.1) (render_renders w hw b 1 h.2)
    simp only [render]
    split
    · exact renders_le hab ‹_›
    · exact renders_paren_pad hab w hw lvl
  | .pow a b, lvl, h => by
    have hab := Renders.pow (render_renders w hw a 1 h.1) (render_renders w hw b 0 h.2)
    simp only [render]
    split
    · exact renders_le hab ‹_›
    · exact renders_paren_pad hab w hw lvl


end Atomman.C09
