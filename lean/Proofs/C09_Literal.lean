/-
  C09 — helper lemmas about text: numerals contain no blank (`numLit_none_of_ws`), `strip`, the split points of
  `set_literal` (tried from the right), the literal reader (`readLit`: a complete value followed by a blank and more
  text is refused), and the value of `set_literal` on "literal value, space, unit expression".
-/
import Proofs.C09_Lemmas

namespace Atomman.C09
set_option linter.unusedSimpArgs false
set_option linter.unusedSectionVars false
set_option linter.unusedVariables false

/-! ### numerals -/

theorem mem_tw_dw (p : Char → Bool) (l : List Char) (c : Char) (h : c ∈ l) (hp : p c = false) :
    c ∈ l.dropWhile p := by
  have := List.takeWhile_append_dropWhile (p := p) (l := l)
  rw [← this] at h
  rcases List.mem_append.mp h with h | h
  · have h2 := List.all_eq_true.mp (List.all_takeWhile (p := p) (l := l)) c h
    rw [hp] at h2; cases h2
  · exact h

theorem ws_not_digit {c : Char} (h : isWs c = true) : isDigit c = false := by
  simp only [isWs, Bool.or_eq_true, decide_eq_true_eq] at h
  rcases h with ((rfl | rfl) | rfl) | rfl <;> decide

theorem mem_dropMinus {c : Char} {cs : List Char} (h : c ∈ cs) (hc : c ≠ '-') : c ∈ dropMinus cs := by
  unfold dropMinus
  split
  · rcases List.mem_cons.mp h with h | h
    · exact absurd h hc
    · exact h
  · exact h

theorem mem_dropSign {c : Char} {cs : List Char} (h : c ∈ cs) (h1 : c ≠ '-') (h2 : c ≠ '+') : c ∈ dropSign cs := by
  unfold dropSign
  split
  · rcases List.mem_cons.mp h with h | h
    · exact absurd h h1
    · exact h
  · rcases List.mem_cons.mp h with h | h
    · exact absurd h h2
    · exact h
  · exact h

theorem mem_fracPart {c : Char} {r1 : List Char} (h : c ∈ r1) (h1 : c ≠ '.') (hd : isDigit c = false) :
    c ∈ (fracPart r1).2 := by
  unfold fracPart
  split
  · rcases List.mem_cons.mp h with h | h
    · exact absurd h h1
    · exact mem_tw_dw _ _ _ h hd
  · exact h

/-- a numeral contains no blank: `numLit` rejects every string with a blank in it. -/
theorem numLit_none_of_ws (cs : List Char) (c : Char) (hc : c ∈ cs) (hw : isWs c = true) : numLit cs = none := by
  have hd := ws_not_digit hw
  have hne : c ≠ '-' ∧ c ≠ '+' ∧ c ≠ '.' ∧ c ≠ 'e' ∧ c ≠ 'E' := by
    simp only [isWs, Bool.or_eq_true, decide_eq_true_eq] at hw
    rcases hw with ((rfl | rfl) | rfl) | rfl <;> decide
  obtain ⟨n1, n2, n3, n4, n5⟩ := hne
  have h2 : c ∈ (fracPart ((dropMinus cs).dropWhile isDigit)).2 :=
    mem_fracPart (mem_tw_dw _ _ _ (mem_dropMinus hc n1) hd) n3 hd
  unfold numLit
  simp only
  generalize (fracPart ((dropMinus cs).dropWhile isDigit)).2 = r2 at h2
  split
  · rfl
  · cases r2 with
    | nil => cases h2
    | cons e r3 =>
      simp only
      split
      · rename_i he
        have hce : c ≠ e := by
          simp only [Bool.or_eq_true, decide_eq_true_eq] at he
          rcases he with rfl | rfl
          · exact n4
          · exact n5
        have h3 : c ∈ r3 := by
          rcases List.mem_cons.mp h2 with h | h
          · exact absurd h hce
          · exact h
        have h4 := mem_dropSign h3 n1 n2
        have : (dropSign r3).all isDigit = false := by
          rw [List.all_eq_false]
          exact ⟨c, h4, by simp [hd]⟩
        simp [this]
      · rfl

/-! ### strip -/

def allWs (s : List Char) : Prop := ∀ c ∈ s, isWs c = true
def noWs (s : List Char) : Prop := ∀ c ∈ s, isWs c = false

theorem dropWhile_append_all {p : Char → Bool} (l1 l2 : List Char) (h : ∀ x ∈ l1, p x = true) :
    (l1 ++ l2).dropWhile p = l2.dropWhile p := by
  induction l1 with
  | nil => rfl
  | cons a l ih =>
    have ha := h a (List.mem_cons_self ..)
    simp only [List.cons_append, List.dropWhile_cons, ha, if_true]
    exact ih (fun x hx => h x (List.mem_cons_of_mem _ hx))

def rstrip (s : List Char) : List Char := (s.reverse.dropWhile isWs).reverse

theorem strip_eq (s : List Char) : strip s = rstrip (s.dropWhile isWs) := rfl

theorem rstrip_append_ws (a b : List Char) (hb : allWs b) : rstrip (a ++ b) = rstrip a := by
  unfold rstrip
  rw [List.reverse_append, dropWhile_append_all _ _ (by intro x hx; exact hb x (List.mem_reverse.mp hx))]

theorem rstrip_snoc (a : List Char) (c : Char) (hc : isWs c = false) : rstrip (a ++ [c]) = a ++ [c] := by
  unfold rstrip
  simp [List.reverse_append, List.dropWhile_cons, hc]

theorem rstrip_noWs (v : List Char) (hv : noWs v) : rstrip v = v := by
  rcases List.eq_nil_or_concat v with rfl | ⟨a, c, rfl⟩
  · rfl
  · rw [List.concat_eq_append]
    exact rstrip_snoc a c (hv c (by simp))

theorem dropWhile_head {v : List Char} (hv : noWs v) (x : List Char) (hne : v ≠ []) :
    (v ++ x).dropWhile isWs = v ++ x := by
  cases v with
  | nil => exact absurd rfl hne
  | cons c v' =>
    have := hv c (List.mem_cons_self ..)
    simp [List.dropWhile_cons, this]

/-- blanks after a blank-free word are stripped. -/
theorem strip_word_ws (v b : List Char) (hv : noWs v) (hne : v ≠ []) (hb : allWs b) : strip (v ++ b) = v := by
  rw [strip_eq, dropWhile_head hv b hne, rstrip_append_ws _ _ hb, rstrip_noWs v hv]

/-- leading blanks do not matter. -/
theorem strip_ws_prefix (b s : List Char) (hb : allWs b) : strip (b ++ s) = strip s := by
  rw [strip_eq, strip_eq, dropWhile_append_all _ _ hb]

theorem strip_allWs (b : List Char) (hb : allWs b) : strip b = [] := by
  have := strip_ws_prefix b [] hb
  simpa [strip] using this

theorem last_nonws (w : List Char) :
    allWs w ∨ ∃ w1 c w2, w = w1 ++ c :: w2 ∧ isWs c = false ∧ allWs w2 := by
  induction w with
  | nil => left; intro c hc; cases hc
  | cons a w ih =>
    rcases ih with h | ⟨w1, c, w2, rfl, hc, h2⟩
    · by_cases ha : isWs a = true
      · left
        intro c hc
        rcases List.mem_cons.mp hc with rfl | hc
        · exact ha
        · exact h c hc
      · right
        exact ⟨[], a, w, rfl, by simpa using ha, h⟩
    · right
      exact ⟨a :: w1, c, w2, rfl, hc, h2⟩

/-- a blank between a word and a later non-blank survives `strip`. -/
theorem strip_interior (v x : List Char) (hv : noWs v) (hne : v ≠ []) (hx : ¬ allWs x) :
    ' ' ∈ strip (v ++ ' ' :: x) := by
  rcases last_nonws x with h | ⟨x1, c, x2, rfl, hc, h2⟩
  · exact absurd h hx
  · rw [strip_eq, dropWhile_head hv _ hne]
    have : v ++ ' ' :: (x1 ++ c :: x2) = ((v ++ ' ' :: x1) ++ [c]) ++ x2 := by simp
    rw [this, rstrip_append_ws _ _ h2, rstrip_snoc _ _ hc]
    simp


/-! ### set_literal -/

theorem findSome_of {α β : Type} (g : α → Option β) (t : β) (L : List α)
    (h1 : ∀ j ∈ L, g j = none ∨ g j = some t) (h2 : ∃ j ∈ L, g j = some t) : L.findSome? g = some t := by
  induction L with
  | nil => obtain ⟨j, hj, _⟩ := h2; cases hj
  | cons a L ih =>
    rw [List.findSome?_cons]
    rcases h1 a (List.mem_cons_self ..) with h | h
    · rw [h]
      apply ih (fun j hj => h1 j (List.mem_cons_of_mem _ hj))
      obtain ⟨j, hj, hg⟩ := h2
      rcases List.mem_cons.mp hj with rfl | hj
      · rw [h] at hg; cases hg
      · exact ⟨j, hj, hg⟩
    · rw [h]

theorem mem_splitPoints (term : List Char) (j : Nat) :
    j ∈ splitPoints term ↔ j = term.length ∨ (j < term.length ∧ term[j]? = some ' ') := by
  simp [splitPoints, List.mem_filter, List.mem_range]

/-! ### the tokeniser continues after a complete value -/

theorem foldlM_append' {α β : Type} (f : β → α → Option β) (b : β) (l1 l2 : List α) :
    (l1 ++ l2).foldlM f b = (l1.foldlM f b).bind fun b' => l2.foldlM f b' := by
  simp [List.foldlM_append]

/-- a blank after `v`: the pending word is flushed, the tokens of `v` are on the stack. -/
theorem tok_after_ws (v : List Char) (ts : List LTok) (h : litToks v = some ts) :
    (v ++ [' ']).foldlM tokStep ([], []) = some ([], ts.reverse) := by
  unfold litToks at h
  rw [foldlM_append']
  cases hst : v.foldlM tokStep ([], []) with
  | none => rw [hst] at h; cases h
  | some st =>
    rw [hst] at h
    simp only [Option.bind_some, Option.map_eq_some_iff] at h
    obtain ⟨out, hout, rfl⟩ := h
    have hd : isLitDelim ' ' = true := by decide
    have hdt : delimTok ' ' = [] := by decide
    simp [List.foldlM, tokStep, hd, hout, hdt]

/-- from any state, more characters only add tokens (or fail); a pending word or a non-blank character adds at
    least one. -/
theorem tok_grows (x : List Char) : ∀ (st : TokSt) (res : List LTok),
    (x.foldlM tokStep st).bind tokFlush = some res →
    ∃ more, res = more ++ st.2 ∧ ((st.1 ≠ [] ∨ ∃ c ∈ x, isWs c = false) → ∃ t ∈ more, t ≠ LTok.nl) ∧
      (',' ∉ x → LTok.comma ∉ more) := by
  induction x with
  | nil =>
    intro st res h
    simp only [List.foldlM, Option.bind_some, Option.pure_def] at h
    unfold tokFlush at h
    split at h
    · rename_i he
      cases h
      refine ⟨[], rfl, ?_, fun _ => by simp⟩
      rintro (h1 | ⟨c, hc, _⟩)
      · simp_all
      · cases hc
    · rcases hp : pyNum st.1.reverse with _ | me
      · rw [hp] at h; cases h
      · rw [hp] at h; cases h
        exact ⟨[.num me.1 me.2], rfl, fun _ => ⟨_, List.mem_cons_self .., by simp⟩, fun _ => by simp⟩
  | cons c x ih =>
    intro st res h
    simp only [List.foldlM_cons, Option.bind_eq_bind] at h
    cases hs : tokStep st c with
    | none => rw [hs] at h; cases h
    | some st' =>
      rw [hs] at h
      simp only [Option.bind_some] at h
      obtain ⟨more, hres, hmore, hnc⟩ := ih st' res h
      unfold tokStep at hs
      split at hs
      · rename_i hd
        cases hf : tokFlush st with
        | none => rw [hf] at hs; cases hs
        | some out =>
          rw [hf] at hs
          simp only [Option.map_some, Option.some.injEq] at hs
          subst hs
          -- out = flush of st: st.2 possibly with one more token
          have hout : ∃ m0, out = m0 ++ st.2 ∧ (st.1 ≠ [] → ∃ t ∈ m0, t ≠ LTok.nl) ∧ LTok.comma ∉ m0 := by
            unfold tokFlush at hf
            split at hf
            · cases hf; exact ⟨[], rfl, fun h => by simp_all, by simp⟩
            · rcases hp : pyNum st.1.reverse with _ | me
              · rw [hp] at hf; cases hf
              · rw [hp] at hf; cases hf
                exact ⟨[.num me.1 me.2], rfl, fun _ => ⟨_, List.mem_cons_self .., by simp⟩, by simp⟩
          obtain ⟨m0, rfl, hm0, hm0c⟩ := hout
          refine ⟨more ++ delimTok c ++ m0, by simp [hres], ?_, ?_⟩
          rotate_left
          · intro hcx
            have h1 : LTok.comma ∉ more := hnc (fun h => hcx (List.mem_cons_of_mem _ h))
            have h2 : LTok.comma ∉ delimTok c := by
              have hc : c ≠ ',' := fun h => hcx (h ▸ List.mem_cons_self ..)
              unfold delimTok
              split_ifs <;> simp_all
            simp [h1, h2, hm0c]
          rintro (h1 | ⟨c', hc', hcw⟩)
          · obtain ⟨t, ht, hn⟩ := hm0 h1
            exact ⟨t, by simp [ht], hn⟩
          · rcases List.mem_cons.mp hc' with rfl | hc'
            · -- c itself is a non-blank delimiter: it gives a token that is not a line break
              have : ∃ t ∈ delimTok c', t ≠ LTok.nl := by
                simp only [isLitDelim, hcw, Bool.false_or, Bool.or_eq_true, decide_eq_true_eq] at hd
                rcases hd with (((rfl | rfl) | rfl) | rfl) | rfl <;> exact ⟨_, List.mem_cons_self .., by simp⟩
              obtain ⟨t, ht, hn⟩ := this
              exact ⟨t, by simp [ht], hn⟩
            · obtain ⟨t, ht, hn⟩ := hmore (Or.inr ⟨c', hc', hcw⟩)
              exact ⟨t, by simp [ht], hn⟩
      · cases hs
        refine ⟨more, hres, ?_, fun hcx => hnc (fun h => hcx (List.mem_cons_of_mem _ h))⟩
        intro _
        exact hmore (Or.inl (by simp))

/-- the tokens of `v`, a blank, and more text with a non-blank character: the tokens of `v` and at least one more. -/
theorem litToks_extend (v x : List Char) (ts : List LTok) (h : litToks v = some ts) (hx : ∃ c ∈ x, isWs c = false)
    (hcomma : ',' ∉ x)
    (res : List LTok) (hr : litToks (v ++ ' ' :: x) = some res) :
    ∃ more, (∃ t ∈ more, t ≠ LTok.nl) ∧ LTok.comma ∉ more ∧ res = ts ++ more := by
  have e : v ++ ' ' :: x = (v ++ [' ']) ++ x := by simp
  unfold litToks at hr
  rw [e, foldlM_append', tok_after_ws v ts h] at hr
  simp only [Option.bind_some] at hr
  cases hst : x.foldlM tokStep ([], ts.reverse) with
  | none => rw [hst] at hr; cases hr
  | some st =>
    rw [hst] at hr
    simp only [Option.bind_some, Option.map_eq_some_iff] at hr
    obtain ⟨out, hout, rfl⟩ := hr
    obtain ⟨more, hres, hmore, hnc⟩ := tok_grows x ([], ts.reverse) out (by rw [hst]; exact hout)
    refine ⟨more.reverse, ?_, by simpa using hnc hcomma, ?_⟩
    · obtain ⟨t, ht, hn⟩ := hmore (Or.inr hx)
      exact ⟨t, by simpa using ht, hn⟩
    simp [hres]

/-! ### a complete value followed by tokens other than a comma is refused -/

/-- once the expression is closed (`([], some x)`: a line break outside brackets), only line breaks may follow. -/
theorem foldlM_popped (ts : List LTok) (x : Lit) (h : ∃ t ∈ ts, t ≠ LTok.nl) :
    ts.foldlM parStep ([], some x) = none := by
  induction ts with
  | nil => obtain ⟨t, ht, _⟩ := h; cases ht
  | cons t ts ih =>
    simp only [List.foldlM_cons]
    cases t with
    | nl =>
      have : parStep ([], some x) .nl = some ([], some x) := rfl
      rw [this]
      simp only [Option.bind_eq_bind, Option.bind_some]
      apply ih
      obtain ⟨t, ht, hn⟩ := h
      rcases List.mem_cons.mp ht with rfl | ht
      · exact absurd rfl hn
      · exact ⟨t, ht, hn⟩
    | num m e => rfl
    | lopen p => rfl
    | lclose q => rfl
    | comma => rfl

/-- after a text that ended on an item, tokens without a comma (and not only line breaks) lead nowhere. -/
theorem par_extend (more : List LTok) (x : Lit) (hne : ∃ t ∈ more, t ≠ LTok.nl) (hc : LTok.comma ∉ more) (fr : Frame) :
    parEnd (more.foldlM parStep ([fr], some x)) = none := by
  cases more with
  | nil => obtain ⟨t, ht, _⟩ := hne; cases ht
  | cons t more =>
    simp only [List.foldlM_cons]
    cases t with
    | num m e => rfl
    | lopen p => rfl
    | lclose q => rfl
    | comma => exact absurd (List.mem_cons_self ..) hc
    | nl =>
      have hrest : ∃ t ∈ more, t ≠ LTok.nl := by
        obtain ⟨t, ht, hn⟩ := hne
        rcases List.mem_cons.mp ht with rfl | ht
        · exact absurd rfl hn
        · exact ⟨t, ht, hn⟩
      have hstep : parStep ([fr], some x) .nl = (parFinish fr (some x)).map fun r => ([], some r.1) := by
        simp [parStep]
      rw [hstep]
      cases hfin : parFinish fr (some x) with
      | none => rfl
      | some r =>
        simp only [Option.map_some, Option.bind_eq_bind, Option.bind_some]
        rw [foldlM_popped more r.1 hrest]
        rfl

/-- the final parser state of a text that ended on an item: a value is waiting in the implicit group, or the
    expression was closed by a line break. -/
theorem parEnd_item (st : Option ParSt) (lit : Lit) (h : parEnd st = some (lit, true)) :
    (∃ fr x, st = some ([fr], some x)) ∨ (∃ x, st = some ([], some x)) := by
  cases st with
  | none => cases h
  | some s =>
    obtain ⟨stack, cur⟩ := s
    cases stack with
    | nil =>
      cases cur with
      | none => cases h
      | some x => exact Or.inr ⟨x, rfl⟩
    | cons fr stack =>
      cases stack with
      | cons _ _ => cases h
      | nil =>
        cases cur with
        | some x => exact Or.inl ⟨fr, x, rfl⟩
        | none =>
          exfalso
          have h' : parFinish fr none = some (lit, true) := h
          unfold parFinish at h'
          simp only at h'
          split at h'
          · split at h'
            · cases h'
            · cases h'
          · cases h'

theorem readLit_extend (v x : List Char) (lit : Lit) (h : readLitCore v = some (lit, true))
    (hx : ∃ c ∈ x, isWs c = false) (hcomma : ',' ∉ x) : readLit (v ++ ' ' :: x) = none := by
  unfold readLit
  unfold readLitCore at h ⊢
  cases hts : litToks v with
  | none => rw [hts] at h; cases h
  | some ts =>
    rw [hts] at h
    simp only [Option.bind_some] at h
    cases hr : litToks (v ++ ' ' :: x) with
    | none => rfl
    | some res =>
      obtain ⟨more, hne, hnc, rfl⟩ := litToks_extend v x ts hts hx hcomma res hr
      simp only [Option.bind_some]
      rw [foldlM_append']
      rcases parEnd_item _ lit h with ⟨fr, y, hst⟩ | ⟨y, hst⟩
      · rw [hst]
        simp only [Option.bind_some]
        rw [par_extend more y hne hnc fr]
        rfl
      · rw [hst]
        simp only [Option.bind_some]
        rw [foldlM_popped more y hne]
        rfl

/-! ### strip on a value without blanks at its ends -/

theorem length_dropWhile_le' (p : Char → Bool) (l : List Char) : (l.dropWhile p).length ≤ l.length :=
  (List.dropWhile_sublist p).length_le

theorem rstrip_length_le (s : List Char) : (rstrip s).length ≤ s.length := by
  unfold rstrip
  simp only [List.length_reverse]
  have := length_dropWhile_le' isWs s.reverse
  simpa using this

/-- `strip v = v`, `v ≠ []`: the first character is not a blank. -/
theorem head_of_strip {v : List Char} (hs : strip v = v) (hne : v ≠ []) : ∃ c r, v = c :: r ∧ isWs c = false := by
  cases v with
  | nil => exact absurd rfl hne
  | cons c r =>
    refine ⟨c, r, rfl, ?_⟩
    cases hw : isWs c with
    | false => rfl
    | true =>
      exfalso
      have h1 : (strip (c :: r)).length ≤ r.length := by
        rw [strip_eq]
        simp only [List.dropWhile_cons, hw, if_true]
        exact Nat.le_trans (rstrip_length_le _) (length_dropWhile_le' _ _)
      rw [hs] at h1
      simp only [List.length_cons] at h1
      omega

theorem rstrip_of_strip {v : List Char} (hs : strip v = v) (hne : v ≠ []) : rstrip v = v := by
  obtain ⟨c, r, rfl, hc⟩ := head_of_strip hs hne
  rw [strip_eq] at hs
  simpa [List.dropWhile_cons, hc] using hs

theorem dropWhile_of_strip {v : List Char} (hs : strip v = v) (hne : v ≠ []) (x : List Char) :
    (v ++ x).dropWhile isWs = v ++ x := by
  obtain ⟨c, r, rfl, hc⟩ := head_of_strip hs hne
  simp [List.dropWhile_cons, hc]

/-- the last character of a stripped value is not a blank. -/
theorem rstrip_append_of_strip {v : List Char} (hs : strip v = v) (hne : v ≠ []) (b : List Char) (hb : allWs b) :
    strip (v ++ b) = v := by
  rw [strip_eq, dropWhile_of_strip hs hne, rstrip_append_ws _ _ hb, rstrip_of_strip hs hne]

/-- a stripped value, a space, text with a non-blank: `strip` keeps the value, the space and the text up to its
    last non-blank. -/
theorem strip_value_more {v : List Char} (hs : strip v = v) (hne : v ≠ []) (x : List Char) (hx : ¬ allWs x) :
    ∃ x', (∃ c ∈ x', isWs c = false) ∧ (∀ c ∈ x', c ∈ x) ∧ strip (v ++ ' ' :: x) = v ++ ' ' :: x' := by
  rcases last_nonws x with h | ⟨x1, c, x2, rfl, hc, h2⟩
  · exact absurd h hx
  · refine ⟨x1 ++ [c], ⟨c, by simp, hc⟩, by intro d hd; simp at hd ⊢; tauto, ?_⟩
    rw [strip_eq, dropWhile_of_strip hs hne]
    have : v ++ ' ' :: (x1 ++ c :: x2) = ((v ++ ' ' :: x1) ++ [c]) ++ x2 := by simp
    rw [this, rstrip_append_ws _ _ h2, rstrip_snoc _ _ hc]
    simp

/-! ### the split points are tried from the right -/

theorem findSome_first {β : Type} (g : Nat → Option β) (t : β) (n : Nat) (L : List Nat)
    (hp : L.Pairwise (· > ·)) (hn : n ∈ L) (hgn : g n = some t)
    (hgt : ∀ j ∈ L, n < j → g j = none ∨ g j = some t) : L.findSome? g = some t := by
  induction L with
  | nil => cases hn
  | cons a L ih =>
    rw [List.findSome?_cons]
    rcases List.mem_cons.mp hn with rfl | hn'
    · rw [hgn]
    · have ha : n < a := (List.pairwise_cons.mp hp).1 n hn'
      rcases hgt a (List.mem_cons_self ..) ha with h | h
      · rw [h]
        exact ih (List.pairwise_cons.mp hp).2 hn' (fun j hj => hgt j (List.mem_cons_of_mem _ hj))
      · rw [h]

theorem splitPoints_pairwise (term : List Char) : (splitPoints term).Pairwise (· > ·) := by
  unfold splitPoints
  simp only
  rw [List.pairwise_cons]
  constructor
  · intro j hj
    rw [List.mem_reverse, List.mem_filter, List.mem_range] at hj
    exact hj.1
  · rw [List.pairwise_reverse]
    exact List.Pairwise.filter _ (List.pairwise_lt_range)


/-! ### set_literal on "value, space, unit expression" -/

variable {K : Type} [Mul K] [Div K] [OfNat K 1] [IntCast K] [NatCast K]

theorem readLit_nil : readLitCore [] = none := by decide

theorem setLiteralV_value_unit (alg : Alg K) (env : List Char → Option K) (v u : List Char) (lit : Lit)
    (sh : List Nat) (f : K)
    (hv : readLitCore v = some (lit, true)) (hstrip : strip v = v) (hsh : lit.shape? = some sh) (hu : strip u ≠ [])
    (hcomma : ',' ∉ u)
    (hf : parseUnits alg env (some (strip u)) = some f) :
    setLiteralV alg env (v ++ ' ' :: u) = some (sh, lit.flat.map fun me => litVal me.1 me.2 * f) := by
  have hvne : v ≠ [] := by
    rintro rfl
    rw [readLit_nil] at hv; cases hv
  have hvl : readLit v = some lit := by simp [readLit, hv]
  have hunw : ¬ allWs u := fun h => hu (strip_allWs u h)
  have huE : (strip u).isEmpty = false := by
    cases h : strip u with
    | nil => exact absurd h hu
    | cons _ _ => rfl
  unfold setLiteralV
  apply findSome_first _ _ v.length _ (splitPoints_pairwise _)
  · exact (mem_splitPoints _ _).mpr (Or.inr ⟨by simp, by simp⟩)
  · have htake : (v ++ ' ' :: u).take v.length = v := by simp
    have hdrop : (v ++ ' ' :: u).drop v.length = ' ' :: u := by simp
    have hsu : strip (' ' :: u) = strip u :=
      strip_ws_prefix [' '] u (by intro c hc; simp at hc; subst hc; decide)
    simp only [htake, hdrop, hstrip, hvl, hsh, hsu, huE, Bool.false_eq_true, if_false, hf]
  · intro j hj hlt
    rcases (mem_splitPoints _ j).mp hj with rfl | ⟨hjl, hsp⟩
    · -- the whole term as value
      left
      obtain ⟨x', hx', hsub, e⟩ := strip_value_more hstrip hvne u hunw
      simp only [List.take_length, e, readLit_extend v x' lit hv hx' (fun h => hcomma (hsub _ h))]
    · obtain ⟨k, rfl⟩ : ∃ k, j = v.length + k := ⟨j - v.length, by omega⟩
      have e2 : v.length + k - v.length = k := by omega
      have htake : (v ++ ' ' :: u).take (v.length + k) = v ++ (' ' :: u).take k := by
        rw [List.take_append, List.take_of_length_le (by omega), e2]
      have hdrop : (v ++ ' ' :: u).drop (v.length + k) = (' ' :: u).drop k := by
        rw [List.drop_append, List.drop_of_length_le (by omega), e2, List.nil_append]
      simp only [htake, hdrop]
      by_cases hA : allWs ((' ' :: u).take k)
      · right
        rw [rstrip_append_of_strip hstrip hvne _ hA, hvl]
        have hsu : strip ((' ' :: u).drop k) = strip u := by
          have e1 := strip_ws_prefix ((' ' :: u).take k) ((' ' :: u).drop k) hA
          rw [List.take_append_drop] at e1
          rw [← e1]
          exact strip_ws_prefix [' '] u (by intro c hc; simp at hc; subst hc; decide)
        simp only [hsh, hsu, huE, Bool.false_eq_true, if_false, hf]
      · left
        cases k with
        | zero => exact absurd (by intro c hc; simp at hc) hA
        | succ k' =>
          have : (' ' :: u).take (k' + 1) = ' ' :: u.take k' := rfl
          rw [this] at hA ⊢
          have hx : ¬ allWs (u.take k') := by
            intro h
            apply hA
            intro c hc
            rcases List.mem_cons.mp hc with rfl | hc
            · decide
            · exact h c hc
          obtain ⟨x', hx', hsub, e⟩ := strip_value_more hstrip hvne (u.take k') hx
          simp only [e, readLit_extend v x' lit hv hx' (fun h => hcomma (List.mem_of_mem_take (hsub _ h)))]


/-! ### the model's renderer writes the ordinary grammar -/

/-- the leaves of a tree are tokens `parse` can read back. -/
def LeavesOK : Expr → Prop
  | .num l => validNum l
  | .name n => validName n
  | .mul a b => LeavesOK a ∧ LeavesOK b
  | .div a b => LeavesOK a ∧ LeavesOK b
  | .pow a b => LeavesOK a ∧ LeavesOK b

theorem renders_mono {e : Expr} {l : Nat} {s : List Char} (h : Renders e l s) : ∀ k, Renders e (l + k) s
  | 0 => h
  | k + 1 => Renders.up (renders_mono h k)

theorem renders_le {e : Expr} {l l' : Nat} {s : List Char} (h : Renders e l s) (hl : l ≤ l') : Renders e l' s := by
  obtain ⟨k, rfl⟩ := Nat.exists_eq_add_of_le hl
  exact renders_mono h k

theorem renders_wsL {e : Expr} {l : Nat} {s : List Char} (h : Renders e l s) (w : List Char) (hw : allWs w) :
    Renders e l (w ++ s) := by
  induction w with
  | nil => exact h
  | cons c w ih =>
    exact Renders.wsL c (hw c (List.mem_cons_self ..)) (ih (fun x hx => hw x (List.mem_cons_of_mem _ hx)))

theorem renders_wsR {e : Expr} {l : Nat} {s : List Char} (h : Renders e l s) (w : List Char) (hw : allWs w) :
    Renders e l (s ++ w) := by
  induction w generalizing s with
  | nil => simpa using h
  | cons c w ih =>
    have h1 := Renders.wsR c (hw c (List.mem_cons_self ..)) h
    have h2 := ih h1 (fun x hx => hw x (List.mem_cons_of_mem _ hx))
    simpa using h2

theorem renders_paren_pad {e : Expr} {l : Nat} {s : List Char} (h : Renders e l s) (w : List Char) (hw : allWs w)
    (k : Nat) : Renders e k (w ++ '(' :: s ++ ')' :: w) := by
  have h1 : Renders e 0 ('(' :: (s ++ [')'])) := Renders.paren h
  have h2 := renders_wsR (renders_wsL h1 w hw) w hw
  have : w ++ '(' :: (s ++ [')']) ++ w = w ++ '(' :: s ++ ')' :: w := by simp
  rw [this] at h2
  exact renders_le h2 (Nat.zero_le _)

/-- the model's renderer (minimal parentheses, the blank string `w` around every token and parenthesis group)
    writes the tree in the ordinary grammar. -/
theorem render_renders (w : List Char) (hw : allWs w) : ∀ (e : Expr) (lvl : Nat), LeavesOK e →
    Renders e lvl (render w lvl e)
  | .num l, lvl, h => by
    simp only [render]
    exact renders_le (renders_wsR (renders_wsL (Renders.num l h) w hw) w hw) (Nat.zero_le _)
  | .name n, lvl, h => by
    simp only [render]
    exact renders_le (renders_wsR (renders_wsL (Renders.name n h) w hw) w hw) (Nat.zero_le _)
  | .mul a b, lvl, h => by
    have hab := Renders.mul (render_renders w hw a 2 h.1) (render_renders w hw b 1 h.2)
    simp only [render]
    split
    · exact renders_le hab ‹_›
    · exact renders_paren_pad hab w hw lvl
  | .div a b, lvl, h => by
    have hab := Renders.div (render_renders w hw a 2 h.1) (render_renders w hw b 1 h.2)
    simp only [render]
    split
    · exact renders_le hab ‹_›
    · exact renders_paren_pad hab w hw lvl
  | .pow a b, lvl, h => by
    have hab := Renders.pow (render_renders w hw a 1 h.1) (render_renders w hw b 0 h.2)
    simp only [render]
    split
    · exact renders_le hab ‹_›
    · exact renders_paren_pad hab w hw lvl


end Atomman.C09
