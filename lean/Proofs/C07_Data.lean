/-
  C07 — helper lemmas (file level): the independent LAMMPS data-file reader applied to what `atom_data.dump`
  writes.  Part 1: header and sections (`readDataFile`).
-/
import Proofs.C07_Files

namespace Atomman.C07
open Atomman
set_option linter.unusedSimpArgs false
set_option linter.unusedVariables false

/-! ### data file: header -/

theorem readHeader_blank (rest : List (List Char)) (h : DataHeader) : readHeader ([] :: rest) h = readHeader rest h := by
  rw [readHeader]; simp [stripComment, lexLine]

theorem readHeader_step (l : Line) (hl : ∀ t ∈ l, okTok t) (hne : l ≠ []) (h h' : DataHeader)
    (rest : List (List Char)) (hh : headerLine h l = some (some h')) :
    readHeader (joinSp l :: rest) h = readHeader rest h' := by
  rw [readHeader]
  simp only [lex_strip_joinSp_ok l hl, hne, if_false, hh]

theorem readHeader_stop (raw : List Char) (toks : Line) (hlex : lexLine (stripComment raw) = toks) (hne : toks ≠ [])
    (h : DataHeader) (rest : List (List Char)) (hh : headerLine h toks = none) :
    readHeader (raw :: rest) h = some (h, raw :: rest) := by
  rw [readHeader]
  simp only [hlex, hne, if_false, hh]

theorem headerLine_atoms (h : DataHeader) (n : Nat) :
    headerLine h [natTok n, cs!"atoms"] = some (some { h with natoms := some n }) := by
  simp [headerLine, parseNat_natTok]

theorem headerLine_types (h : DataHeader) (n : Nat) :
    headerLine h [natTok n, cs!"atom", cs!"types"] = some (some { h with ntypes := some n }) := by
  simp [headerLine, parseNat_natTok]

theorem headerLine_x (h : DataHeader) (f : Fmt) (a b : ℚ) :
    headerLine h [fmtNum f a, fmtNum f b, cs!"xlo", cs!"xhi"]
      = some (some { h with x := some (fmtVal f a, fmtVal f b) }) := by
  simp [headerLine, parseNum_fmtNum]

theorem headerLine_y (h : DataHeader) (f : Fmt) (a b : ℚ) :
    headerLine h [fmtNum f a, fmtNum f b, cs!"ylo", cs!"yhi"]
      = some (some { h with y := some (fmtVal f a, fmtVal f b) }) := by
  simp [headerLine, parseNum_fmtNum]

theorem headerLine_z (h : DataHeader) (f : Fmt) (a b : ℚ) :
    headerLine h [fmtNum f a, fmtNum f b, cs!"zlo", cs!"zhi"]
      = some (some { h with z := some (fmtVal f a, fmtVal f b) }) := by
  simp [headerLine, parseNum_fmtNum]

theorem headerLine_tilt (h : DataHeader) (f : Fmt) (a b c : ℚ) :
    headerLine h [fmtNum f a, fmtNum f b, fmtNum f c, cs!"xy", cs!"xz", cs!"yz"]
      = some (some { h with tilt := some (fmtVal f a, fmtVal f b, fmtVal f c) }) := by
  simp [headerLine, parseNum_fmtNum]

theorem headerLine_Atoms (h : DataHeader) : headerLine h [cs!"Atoms"] = none := by
  simp [headerLine]

/-! ### data file: the `Atoms # style` line and the sections -/

def atomsLine (words : Line) : Line := [cs!"Atoms", cs!"#"] ++ words

theorem atomsLine_split (words : Line) (hw : ∀ t ∈ words, okTok t) :
    lexLine (stripComment (joinSp (atomsLine words))) = [cs!"Atoms"] ∧
    lexLine (commentOf (joinSp (atomsLine words))) = words := by
  have hA : '#' ∉ (cs!"Atoms" ++ [' ']) := by decide
  have hlexA : lexLine (cs!"Atoms" ++ [' ']) = [cs!"Atoms"] := by
    rw [lexLine_tok_append _ (by decide) _ (Or.inr ⟨[], rfl⟩)]; simp [lexLine, isSpace]
  cases words with
  | nil =>
    have e : joinSp (atomsLine []) = (cs!"Atoms" ++ [' ']) ++ '#' :: [] := by simp [atomsLine, joinSp]
    rw [e, stripComment_hash _ _ hA, commentOf_hash _ _ hA]
    exact ⟨hlexA, by simp [lexLine]⟩
  | cons w ws =>
    have e : joinSp (atomsLine (w :: ws)) = (cs!"Atoms" ++ [' ']) ++ '#' :: (' ' :: joinSp (w :: ws)) := by
      simp [atomsLine, joinSp]
    rw [e, stripComment_hash _ _ hA, commentOf_hash _ _ hA, lexLine_space]
    exact ⟨hlexA, lexLine_joinSp_ok _ hw⟩

theorem readBody_rows (n : Nat) (rows : List Line) (tail : List (List Char)) (hlen : rows.length = n)
    (hok : ∀ l ∈ rows, l ≠ [] ∧ ∀ t ∈ l, okTok t) :
    readBody n ([] :: (rows.map joinSp ++ tail)) = some (rows, tail) := by
  unfold readBody
  have h0 : lexLine (stripComment []) = [] := by simp [stripComment, lexLine]
  have htake : (rows.map joinSp ++ tail).take n = rows.map joinSp := by
    rw [List.take_append_of_le_length (by simp [hlen])]; apply List.take_of_length_le; simp [hlen]
  have hdrop : (rows.map joinSp ++ tail).drop n = tail := by
    rw [← hlen]
    have : rows.length = (rows.map joinSp).length := by simp
    rw [this, List.drop_left]
  have hbody : (rows.map joinSp).map (fun l => lexLine (stripComment l)) = rows := by
    rw [List.map_map]
    conv_rhs => rw [← List.map_id rows]
    apply List.map_congr_left
    intro l hl
    exact lex_strip_joinSp_ok l (hok l hl).2
  simp only [h0, ne_eq, not_true_eq_false, if_false, htake, hdrop, hbody, hlen]
  have hany : rows.any (· = []) = false := by
    rw [List.any_eq_false]
    intro l hl
    simpa using (hok l hl).1
  simp [hany]

theorem readSections_nil (a b fuel : Nat) (s : Sections) : readSections a b fuel [] s = some s := by
  cases fuel <;> simp [readSections]

/-- raw lines of the optional `Velocities` section. -/
def velTail (vel : Option (List Line)) : List (List Char) :=
  match vel with
  | some vr => [] :: joinSp [cs!"Velocities"] :: [] :: vr.map joinSp
  | none => []

/-- the sections part of a written data file. -/
theorem readSections_written (natoms ntypes : Nat) (words : Line) (rows : List Line) (vel : Option (List Line))
    (hw : ∀ t ∈ words, okTok t) (hlen : rows.length = natoms) (hok : ∀ l ∈ rows, l ≠ [] ∧ ∀ t ∈ l, okTok t)
    (hv : ∀ vr, vel = some vr → vr.length = natoms ∧ ∀ l ∈ vr, l ≠ [] ∧ ∀ t ∈ l, okTok t)
    (fuel : Nat) (hf : 1 ≤ fuel ∧ (vel.isSome = true → 3 ≤ fuel)) :
    readSections natoms ntypes fuel
      (joinSp (atomsLine words) :: [] :: (rows.map joinSp ++ velTail vel)) {}
      = some { styleHint := words, atoms := some rows, velocities := vel } := by
  obtain ⟨f1, rfl⟩ : ∃ k, fuel = k + 1 := ⟨fuel - 1, by omega⟩
  obtain ⟨hA, hC⟩ := atomsLine_split words hw
  rw [readSections]
  simp only [hA]
  have hne : ([cs!"Atoms"] : Line) ≠ [] := by simp
  simp only [hne, if_false, if_true, readBody_rows natoms rows _ hlen hok]
  simp only [Option.isSome_none, Bool.false_eq_true, if_false, hC]
  cases vel with
  | none => simp only [velTail, readSections_nil]
  | some vr =>
    obtain ⟨hvl, hvok⟩ := hv vr rfl
    have hf3 := hf.2 rfl
    obtain ⟨f2, rfl⟩ : ∃ k, f1 = k + 1 := ⟨f1 - 1, by omega⟩
    obtain ⟨f3, rfl⟩ : ∃ k, f2 = k + 1 := ⟨f2 - 1, by omega⟩
    simp only [velTail]
    rw [readSections]
    have h0 : lexLine (stripComment []) = [] := by simp [stripComment, lexLine]
    simp only [h0, if_true]
    rw [readSections]
    have hV : lexLine (stripComment (joinSp [cs!"Velocities"])) = [cs!"Velocities"] :=
      lex_strip_joinSp_ok _ (by decide)
    have hVA : ¬ ([cs!"Velocities"] : Line) = [cs!"Atoms"] := by decide
    have hVne : ¬ ([cs!"Velocities"] : Line) = [] := by simp
    have := readBody_rows natoms vr [] hvl hvok
    simp only [List.append_nil] at this
    simp only [hV, hVne, hVA, if_false, if_true, this, Option.isSome_none, Bool.false_eq_true, readSections_nil]


/-! ### data file: the whole text -/

/-- the atom_style words are plain tokens (true for every style the writer accepts, see `styleOk_of_atomCols`). -/
def StyleOk (style : String) : Prop := ∀ w ∈ styleWords style, okTok (strTok w)

theorem okTok_boxLines (f : Fmt) (h : HiLo) : ∀ l ∈ boxLines f h, ∀ t ∈ l, okTok t := by
  intro l hl t ht
  have hlit : ∀ t ∈ [cs!"xlo", cs!"xhi", cs!"ylo", cs!"yhi", cs!"zlo", cs!"zhi", cs!"xy", cs!"xz", cs!"yz"], okTok t := by
    decide
  simp only [boxLines, List.cons_append, List.nil_append, List.mem_cons, List.mem_append] at hl
  rcases hl with rfl | rfl | rfl | hl
  · simp only [List.mem_cons, List.not_mem_nil, or_false] at ht
    rcases ht with rfl | rfl | rfl | rfl <;> first | exact okTok_fmtNum _ _ | decide
  · simp only [List.mem_cons, List.not_mem_nil, or_false] at ht
    rcases ht with rfl | rfl | rfl | rfl <;> first | exact okTok_fmtNum _ _ | decide
  · simp only [List.mem_cons, List.not_mem_nil, or_false] at ht
    rcases ht with rfl | rfl | rfl | rfl <;> first | exact okTok_fmtNum _ _ | decide
  · split at hl
    · simp only [List.mem_cons, List.not_mem_nil, or_false] at hl
      subst hl
      simp only [List.mem_cons, List.not_mem_nil, or_false] at ht
      rcases ht with rfl | rfl | rfl | rfl | rfl | rfl <;> first | exact okTok_fmtNum _ _ | decide
    · simp at hl

instance (t : Tok) : Decidable (okChars t) := by unfold okChars; infer_instance

theorem noNL_dataDoc (f : Fmt) (style : String) (p : DataParts) (hst : StyleOk style) :
    ∀ l ∈ dataDocOf f style p, '\n' ∉ joinSp l := by
  intro l hl
  apply newline_not_mem_joinSp
  intro t ht
  have hok : okChars t → ∀ c ∈ t, c ≠ '\n' := fun h c hc => (h c hc).2.1
  simp only [dataDocOf, List.cons_append, List.nil_append, List.mem_cons, List.mem_append, List.append_assoc] at hl
  rcases hl with rfl | rfl | rfl | hl | rfl | rfl | rfl | hl | hl
  · simp at ht
  · simp only [List.mem_cons, List.not_mem_nil, or_false] at ht
    rcases ht with rfl | rfl
    · exact hok (okChars_natTok _)
    · decide
  · simp only [List.mem_cons, List.not_mem_nil, or_false] at ht
    rcases ht with rfl | rfl | rfl
    · exact hok (okChars_natTok _)
    · decide
    · decide
  · exact hok (okTok_boxLines f _ l hl t ht).2
  · simp at ht
  · simp only [List.mem_cons, List.mem_map] at ht
    rcases ht with rfl | rfl | ⟨w, hw, rfl⟩
    · decide
    · decide
    · exact hok (hst w hw).2
  · simp at ht
  · exact hok (okTok_rowsDoc f _ l hl t ht).2
  · cases hv : p.vel with
    | none => rw [hv] at hl; simp at hl
    | some vr =>
      rw [hv] at hl
      simp only [List.cons_append, List.nil_append, List.mem_cons] at hl
      rcases hl with rfl | rfl | rfl | hl
      · simp at ht
      · simp at ht; subst ht; decide
      · simp at ht
      · exact hok (okTok_rowsDoc f _ l hl t ht).2

def tilted (h : HiLo) : Prop := h.xy ≠ 0 ∨ h.xz ≠ 0 ∨ h.yz ≠ 0
instance (h : HiLo) : Decidable (tilted h) := by unfold tilted; infer_instance

theorem rowsDoc_ok (f : Fmt) (rows : List (List Cell)) (hne : ∀ r ∈ rows, r ≠ []) :
    ∀ l ∈ rowsDoc f rows, l ≠ [] ∧ ∀ t ∈ l, okTok t := by
  intro l hl
  refine ⟨?_, okTok_rowsDoc f rows l hl⟩
  simp only [rowsDoc, List.mem_map] at hl
  obtain ⟨r, hr, rfl⟩ := hl
  simpa using hne r hr

theorem readDataFile_dataDoc (f : Fmt) (style : String) (p : DataParts) (hst : StyleOk style)
    (hlen : p.rows.length = p.natoms) (hne : ∀ r ∈ p.rows, r ≠ [])
    (hv : ∀ vr, p.vel = some vr → vr.length = p.natoms ∧ ∀ r ∈ vr, r ≠ []) :
    readDataFile (renderLines (dataDocOf f style p)) =
      some { natoms := p.natoms, ntypes := p.natypes, hilo := p.hilo.map (fmtVal f),
             styleHint := (styleWords style).map strTok, atoms := rowsDoc f p.rows,
             velocities := p.vel.map (rowsDoc f) } := by
  obtain ⟨natoms, natypes, h, rows, vel⟩ := p
  simp only at hlen hne hv ⊢
  unfold readDataFile
  rw [splitLines_renderLines _ (noNL_dataDoc f style _ hst)]
  have hwords : ∀ t ∈ (styleWords style).map strTok, okTok t := by
    intro t ht; obtain ⟨w, hw, rfl⟩ := List.mem_map.mp ht; exact hst w hw
  -- the lines after the title
  have hdoc : (dataDocOf f style ⟨natoms, natypes, h, rows, vel⟩).map joinSp =
      [] :: joinSp [natTok natoms, cs!"atoms"] :: joinSp [natTok natypes, cs!"atom", cs!"types"] ::
      ((boxLines f h).map joinSp ++ [] :: joinSp (atomsLine ((styleWords style).map strTok)) :: [] ::
        ((rowsDoc f rows).map joinSp ++ velTail (vel.map (rowsDoc f)))) := by
    cases vel <;> simp [dataDocOf, atomsLine, joinSp, velTail]
  rw [hdoc]
  simp only [List.drop_one, List.tail_cons]
  have hlit2 : ∀ t ∈ [natTok natoms, cs!"atoms"], okTok t := by
    intro t ht; simp at ht; rcases ht with rfl | rfl; exact okTok_natTok _; decide
  have hlit3 : ∀ t ∈ [natTok natypes, cs!"atom", cs!"types"], okTok t := by
    intro t ht; simp at ht; rcases ht with rfl | rfl | rfl; exact okTok_natTok _; decide; decide
  rw [readHeader_step _ hlit2 (by simp) _ _ _ (headerLine_atoms _ _),
    readHeader_step _ hlit3 (by simp) _ _ _ (headerLine_types _ _)]
  have hsec := readSections_written natoms natypes ((styleWords style).map strTok) (rowsDoc f rows) (vel.map (rowsDoc f))
    hwords (by simp [rowsDoc, hlen]) (rowsDoc_ok f rows hne)
    (by
      intro vr hvr
      cases vel with
      | none => simp at hvr
      | some v =>
        simp at hvr; subst hvr
        exact ⟨by simp [rowsDoc, (hv v rfl).1], rowsDoc_ok f v (hv v rfl).2⟩)
  have hA := (atomsLine_split _ hwords).1
  have hbl := okTok_boxLines f h
  by_cases ht : tilted h
  · have hb : boxLines f h = [[fmtNum f h.xlo, fmtNum f h.xhi, cs!"xlo", cs!"xhi"],
        [fmtNum f h.ylo, fmtNum f h.yhi, cs!"ylo", cs!"yhi"], [fmtNum f h.zlo, fmtNum f h.zhi, cs!"zlo", cs!"zhi"],
        [fmtNum f h.xy, fmtNum f h.xz, fmtNum f h.yz, cs!"xy", cs!"xz", cs!"yz"]] := by
      unfold tilted at ht; simp [boxLines, ht]
    rw [hb] at hbl ⊢
    simp only [List.map_cons, List.map_nil, List.cons_append, List.nil_append]
    rw [readHeader_step _ (hbl _ (by simp)) (by simp) _ _ _ (headerLine_x _ _ _ _),
      readHeader_step _ (hbl _ (by simp)) (by simp) _ _ _ (headerLine_y _ _ _ _),
      readHeader_step _ (hbl _ (by simp)) (by simp) _ _ _ (headerLine_z _ _ _ _),
      readHeader_step _ (hbl _ (by simp)) (by simp) _ _ _ (headerLine_tilt _ _ _ _ _),
      readHeader_blank, readHeader_stop _ _ hA (by simp) _ _ (headerLine_Atoms _)]
    simp only [Option.bind_eq_bind, Option.bind_some, Option.getD_some]
    rw [hsec _ ⟨by simp, by intro hv'; cases vel <;> simp [velTail] at hv' ⊢; omega⟩]
    simp [HiLo.map]
  · have hb : boxLines f h = [[fmtNum f h.xlo, fmtNum f h.xhi, cs!"xlo", cs!"xhi"],
        [fmtNum f h.ylo, fmtNum f h.yhi, cs!"ylo", cs!"yhi"], [fmtNum f h.zlo, fmtNum f h.zhi, cs!"zlo", cs!"zhi"]] := by
      unfold tilted at ht; simp [boxLines, ht]
    rw [hb] at hbl ⊢
    simp only [List.map_cons, List.map_nil, List.cons_append, List.nil_append]
    rw [readHeader_step _ (hbl _ (by simp)) (by simp) _ _ _ (headerLine_x _ _ _ _),
      readHeader_step _ (hbl _ (by simp)) (by simp) _ _ _ (headerLine_y _ _ _ _),
      readHeader_step _ (hbl _ (by simp)) (by simp) _ _ _ (headerLine_z _ _ _ _),
      readHeader_blank, readHeader_stop _ _ hA (by simp) _ _ (headerLine_Atoms _)]
    simp only [Option.bind_eq_bind, Option.bind_some, Option.getD_none]
    rw [hsec _ ⟨by simp, by intro hv'; cases vel <;> simp [velTail] at hv' ⊢; omega⟩]
    unfold tilted at ht
    push Not at ht
    simp [HiLo.map, ht.1, ht.2.1, ht.2.2, fmtVal_zero]

end Atomman.C07
