/-
  C04 helper lemmas: 3x3 algebra over a field (own `M3`/`V3` structures) and list indexing.
-/
import Atomman.C04
import Mathlib.Tactic.Ring
import Mathlib.Tactic.FieldSimp
import Mathlib.Tactic.Linarith
import Mathlib.Tactic.LinearCombination
import Mathlib.Algebra.Order.Field.Basic
import Mathlib.Data.Int.Cast.Lemmas

namespace Atomman.C04
open Atomman

variable {K : Type} [Field K]

@[simp] theorem V3.add_def (a b : V3 K) : a + b = ⟨a.x + b.x, a.y + b.y, a.z + b.z⟩ := rfl
@[simp] theorem V3.sub_def (a b : V3 K) : a - b = ⟨a.x - b.x, a.y - b.y, a.z - b.z⟩ := rfl

/-- `x · V · V⁻¹ = x` for `det V ≠ 0`. -/
theorem vecMul_inv_cancel (V : M3 K) (h : M3.det V ≠ 0) (x : V3 K) :
    M3.vecMul (M3.vecMul x V) (M3.inv V) = x := by
  obtain ⟨⟨a, b, c⟩, ⟨d, e, f⟩, ⟨g, hh, i⟩⟩ := V
  obtain ⟨x, y, z⟩ := x
  simp only [M3.det, V3.dot, V3.cross] at h
  have hD := mul_inv_cancel₀ h
  ext <;> simp only [M3.vecMul, M3.inv, M3.det, V3.dot, V3.cross, div_eq_mul_inv]
  · linear_combination x * hD
  · linear_combination y * hD
  · linear_combination z * hD

/-- `x · V⁻¹ · V = x` for `det V ≠ 0`. -/
theorem vecMul_inv_cancel' (V : M3 K) (h : M3.det V ≠ 0) (x : V3 K) :
    M3.vecMul (M3.vecMul x (M3.inv V)) V = x := by
  obtain ⟨⟨a, b, c⟩, ⟨d, e, f⟩, ⟨g, hh, i⟩⟩ := V
  obtain ⟨x, y, z⟩ := x
  simp only [M3.det, V3.dot, V3.cross] at h
  have hD := mul_inv_cancel₀ h
  ext <;> simp only [M3.vecMul, M3.inv, M3.det, V3.dot, V3.cross, div_eq_mul_inv]
  · linear_combination x * hD
  · linear_combination y * hD
  · linear_combination z * hD

/-- `cartToRel` written with the inverse matrix: `(p - o) · V⁻¹`. -/
theorem cartToRel_eq (b : Box K) (p : V3 K) :
    b.cartToRel p = M3.vecMul (p - b.origin) (M3.inv b.vects) := by
  ext <;> simp only [Box.cartToRel, Box.recip, M3.mulVec, M3.transpose, M3.vecMul, V3.dot, V3.sub_def]
    <;> ring

theorem relToCart_cartToRel (b : Box K) (h : M3.det b.vects ≠ 0) (p : V3 K) :
    b.relToCart (b.cartToRel p) = p := by
  rw [cartToRel_eq, Box.relToCart, vecMul_inv_cancel' b.vects h]
  ext <;> simp

theorem cartToRel_relToCart (b : Box K) (h : M3.det b.vects ≠ 0) (s : V3 K) :
    b.cartToRel (b.relToCart s) = s := by
  rw [cartToRel_eq, Box.relToCart]
  have : M3.vecMul s b.vects + b.origin - b.origin = M3.vecMul s b.vects := by ext <;> simp
  rw [this, vecMul_inv_cancel b.vects h]

/-- rows of a non-singular matrix are linearly independent. -/
theorem vecMul_eq_zero (V : M3 K) (h : M3.det V ≠ 0) (x : V3 K) (hx : M3.vecMul x V = ⟨0, 0, 0⟩) :
    x = ⟨0, 0, 0⟩ := by
  have := vecMul_inv_cancel V h x
  rw [hx] at this
  rw [← this]
  ext <;> simp [M3.vecMul]

/-- Cartesian position of a replica: the original position plus the integer lattice vector
    `(r0+lo_a) a + (r1+lo_b) b + (r2+lo_c) c`  (for a non-degenerate cell and non-zero multipliers). -/
theorem replicaPos_eq_aux (b : Box K) (sa sb sc : Size) (p : V3 K) (r0 r1 r2 : Nat)
    (hdet : M3.det b.vects ≠ 0)
    (ha : ((sa.mult : Int) : K) ≠ 0) (hb : ((sb.mult : Int) : K) ≠ 0) (hc : ((sc.mult : Int) : K) ≠ 0) :
    replicaPos b sa sb sc p r0 r1 r2
      = p + M3.vecMul ⟨(((r0 : Int) + sa.lo : Int) : K), (((r1 : Int) + sb.lo : Int) : K),
                        (((r2 : Int) + sc.lo : Int) : K)⟩ b.vects := by
  have hp := relToCart_cartToRel b hdet p
  unfold replicaPos
  generalize b.cartToRel p = s at hp ⊢
  subst hp
  obtain ⟨⟨⟨v00, v01, v02⟩, ⟨v10, v11, v12⟩, ⟨v20, v21, v22⟩⟩, ⟨o0, o1, o2⟩⟩ := b
  obtain ⟨s0, s1, s2⟩ := s
  simp only [superBox, Box.relToCart, M3.vecMul, V3.smul, V3.add_def, Int.cast_add, Int.cast_natCast,
      Int.cast_one]
  generalize ((sa.mult : Int) : K) = ma at ha ⊢
  generalize ((sb.mult : Int) : K) = mb at hb ⊢
  generalize ((sc.mult : Int) : K) = mc at hc ⊢
  ext <;> simp only [] <;> field_simp <;> ring

/-! ### indexing into `(List.range n).flatMap f` with blocks of constant length -/

theorem length_flatMap_range_const {α : Type} (n L : Nat) (f : Nat → List α) (hf : ∀ j, (f j).length = L) :
    ((List.range n).flatMap f).length = n * L := by
  induction n with
  | zero => simp
  | succ n ih =>
    rw [List.range_succ, List.flatMap_append, List.length_append, ih]
    simp [hf, Nat.succ_mul]

theorem getElem?_flatMap_range_const {α : Type} (n L : Nat) (f : Nat → List α) (hf : ∀ j, (f j).length = L)
    (j i : Nat) (hj : j < n) (hi : i < L) :
    ((List.range n).flatMap f)[j * L + i]? = (f j)[i]? := by
  induction n with
  | zero => omega
  | succ n ih =>
    rw [List.range_succ, List.flatMap_append]
    by_cases hjn : j < n
    · rw [List.getElem?_append_left]
      · exact ih hjn
      · rw [length_flatMap_range_const n L f hf]
        calc j * L + i < j * L + L := by omega
          _ = (j + 1) * L := by rw [Nat.succ_mul]
          _ ≤ n * L := Nat.mul_le_mul_right L hjn
    · have hjeq : j = n := by omega
      subst hjeq
      rw [List.getElem?_append_right]
      · rw [length_flatMap_range_const j L f hf]
        simp
      · rw [length_flatMap_range_const j L f hf]; omega

end Atomman.C04
