/-
  C17 — analysis tools recover a known imposed deformation exactly: property theorems about the model
  `Atomman/C17.lean` (displacement, slip vector, differential displacement, disregistry, match_pq, G, strain
  measures, Nye tensor).  `K` is any linearly ordered field.
-/
import Proofs.C17_Lemmas
import Mathlib.Algebra.Order.Ring.Abs

namespace Atomman.C17
open Atomman
set_option linter.unusedSectionVars false
set_option linter.unusedSimpArgs false
set_option linter.unusedVariables false

variable {K : Type} [Field K] [LinearOrder K] [IsStrictOrderedRing K]

/-! ### image stability: the hypothesis under which all following clauses are exact -/

/-- **image_stable.**  Let candidate `s` of the loops of `dvect_c` be the strict minimum for the pair `(p₀, p₁)` with
    a gap that dominates the imposed relative displacement `w = u₁ - u₀`:
    `2 |w · (c_t - c_s)| < |c_t|² - |c_s|²` for every other candidate `t`.  Then the periodic separation of the
    displaced pair is the old one plus `w` — no image flips. -/
theorem image_stable (V : M3 K) (px py pz : Bool) (p0 p1 u0 u1 : V3 K) (s : Shift)
    (hs : s ∈ cands px py pz)
    (hgap : ∀ t ∈ cands px py pz, t = s ∨
      2 * |V3.dot (u1 - u0) (shiftBy V (p1 - p0) t - shiftBy V (p1 - p0) s)|
        < V3.normSq (shiftBy V (p1 - p0) t) - V3.normSq (shiftBy V (p1 - p0) s)) :
    dvect V px py pz (p0 + u0) (p1 + u1) = dvect V px py pz p0 p1 + (u1 - u0) := by
  have e : (p1 + u1) - (p0 + u0) = (p1 - p0) + (u1 - u0) := by
    ext <;> simp only [sub_x, sub_y, sub_z, add_x, add_y, add_z] <;> ring
  have h0 : dvect V px py pz p0 p1 = shiftBy V (p1 - p0) s := by
    apply dvect_eq_of_strict_min V px py pz p0 p1 s hs
    intro t ht
    rcases hgap t ht with h | h
    · left; rw [h]
    · right
      have := abs_nonneg (V3.dot (u1 - u0) (shiftBy V (p1 - p0) t - shiftBy V (p1 - p0) s))
      linarith
  have h1 : dvect V px py pz (p0 + u0) (p1 + u1) = shiftBy V ((p1 + u1) - (p0 + u0)) s := by
    apply dvect_eq_of_strict_min V px py pz _ _ s hs
    intro t ht
    rcases hgap t ht with h | h
    · left; rw [h]
    · right
      rw [e, shiftBy_add, shiftBy_add, normSq_add, normSq_add]
      rw [dot_sub] at h
      have := neg_abs_le (V3.dot (u1 - u0) (shiftBy V (p1 - p0) t) - V3.dot (u1 - u0) (shiftBy V (p1 - p0) s))
      linarith
  rw [h1, h0, e, shiftBy_add]

/-- the same with a margin `δ` and a bound on the size of the relative displacement (Cauchy–Schwarz):
    every other candidate is longer by `δ` in squared length and `4 |w|² |c_t - c_s|² < δ²`. -/
theorem image_stable_margin (V : M3 K) (px py pz : Bool) (p0 p1 u0 u1 : V3 K) (s : Shift) (δ : K)
    (hs : s ∈ cands px py pz) (hδ : 0 < δ)
    (hgap : ∀ t ∈ cands px py pz, t = s ∨
      (δ ≤ V3.normSq (shiftBy V (p1 - p0) t) - V3.normSq (shiftBy V (p1 - p0) s) ∧
       4 * V3.normSq (u1 - u0) * V3.normSq (shiftBy V (p1 - p0) t - shiftBy V (p1 - p0) s) < δ ^ 2)) :
    dvect V px py pz (p0 + u0) (p1 + u1) = dvect V px py pz p0 p1 + (u1 - u0) := by
  apply image_stable V px py pz p0 p1 u0 u1 s hs
  intro t ht
  rcases hgap t ht with h | ⟨h1, h2⟩
  · exact Or.inl h
  · right
    have cs := cauchy_schwarz (u1 - u0) (shiftBy V (p1 - p0) t - shiftBy V (p1 - p0) s)
    set x := V3.dot (u1 - u0) (shiftBy V (p1 - p0) t - shiftBy V (p1 - p0) s)
    have hx : (2 * |x|) ^ 2 < δ ^ 2 := by
      have : (2 * |x|) ^ 2 = 4 * x ^ 2 := by rw [mul_pow, sq_abs]; norm_num
      rw [this]; nlinarith
    have hpos : 0 ≤ 2 * |x| := by positivity
    have : 2 * |x| < δ := lt_of_pow_lt_pow_left₀ 2 hδ.le hx
    linarith

/-- **the per-atom displacement is the imposed displacement taken through the periodic boundaries**: if the
    final position is the initial one plus `u` plus any lattice translation the loops can undo (`shiftBy … s = u`)
    and `u` is strictly shorter than its other candidate images, `displacement` returns `u`. -/
theorem displacement_is_imposed (c : Cell K) (pos0 pos1 : Nat → V3 K) (i : Nat) (u : V3 K) (s : Shift)
    (hs : s ∈ cands c.px c.py c.pz)
    (hu : shiftBy c.vects (pos1 i - pos0 i) s = u)
    (hmin : ∀ t ∈ cands c.px c.py c.pz, shiftBy c.vects (pos1 i - pos0 i) t = u ∨
      V3.normSq u < V3.normSq (shiftBy c.vects (pos1 i - pos0 i) t)) :
    displacement c pos0 pos1 i = u := by
  unfold displacement Cell.dv
  rw [dvect_eq_of_strict_min c.vects c.px c.py c.pz _ _ s hs, hu]
  intro t ht
  rw [hu]
  exact hmin t ht

/-! ### rigid slip of a half crystal: slip vector, differential displacement -/

/-- two-valued displacement field: `uA` on the half `side = true`, `uB` on the other. -/
def twoValued (side : Nat → Bool) (uA uB : V3 K) (j : Nat) : V3 K := if side j then uA else uB

/-- the slip vector is the sum over neighbours of `(u_i - u_j)` whenever no image flips. -/
theorem slip_fold (c : Cell K) (pos0 pos1 : Nat → V3 K) (u : Nat → V3 K) (i : Nat) :
    ∀ (nbrs : List Nat) (acc : V3 K),
      (∀ j ∈ nbrs, c.dv (pos1 i) (pos1 j) = c.dv (pos0 i) (pos0 j) + (u j - u i)) →
      nbrs.foldl (slipStep c pos0 pos1 i) acc = nbrs.foldl (fun a j => a + (u i - u j)) acc
  | [], _, _ => rfl
  | j :: l, acc, h => by
    simp only [List.foldl_cons]
    have : slipStep c pos0 pos1 i acc j = acc + (u i - u j) := by
      simp only [slipStep, h j List.mem_cons_self]
      ext <;> simp only [sub_x, sub_y, sub_z, add_x, add_y, add_z] <;> ring
    rw [this]
    exact slip_fold c pos0 pos1 u i l _ (fun j' hj' => h j' (List.mem_cons_of_mem _ hj'))

/-- the displacement of the *other* half. -/
def otherHalf (side : Nat → Bool) (uA uB : V3 K) (i : Nat) : V3 K := if side i then uB else uA

theorem rigid_fold (side : Nat → Bool) (uA uB : V3 K) (i : Nat) :
    ∀ (nbrs : List Nat) (acc : V3 K),
      nbrs.foldl (fun a j => a + (twoValued side uA uB i - twoValued side uA uB j)) acc
        = acc + V3.smul ((nbrs.countP (fun j => side j != side i) : Nat) : K)
            (twoValued side uA uB i - otherHalf side uA uB i)
  | [], acc => by
    ext <;> simp
  | j :: l, acc => by
    simp only [List.foldl_cons]
    rw [rigid_fold side uA uB i l, List.countP_cons]
    by_cases h : side j = side i
    · have e : twoValued side uA uB j = twoValued side uA uB i := by simp only [twoValued, h]
      rw [e]
      ext <;> simp [h]
    · have hb : (side j != side i) = true := by simpa using h
      have e : twoValued side uA uB j = otherHalf side uA uB i := by
        simp only [twoValued, otherHalf]
        cases hj : side j <;> cases hi : side i <;> simp_all
      rw [e]
      ext <;> simp only [hb, if_true, Nat.cast_add, Nat.cast_one, add_x, add_y, add_z, smul_x, smul_y, smul_z,
        sub_x, sub_y, sub_z] <;> ring

/-- **slip_rigid.**  For a two-valued (rigid half-crystal) displacement and no image flips on the reference
    neighbour list, the slip vector of atom `i` is the number of its neighbours in the other half times the
    displacement of its own half relative to the other half. -/
theorem slip_rigid (c : Cell K) (pos0 pos1 : Nat → V3 K) (nbrs : List Nat) (i : Nat)
    (side : Nat → Bool) (uA uB : V3 K)
    (hst : ∀ j ∈ nbrs, c.dv (pos1 i) (pos1 j)
      = c.dv (pos0 i) (pos0 j) + (twoValued side uA uB j - twoValued side uA uB i)) :
    slipVector c pos0 pos1 nbrs i
      = V3.smul ((nbrs.countP (fun j => side j != side i) : Nat) : K)
          (twoValued side uA uB i - otherHalf side uA uB i) := by
  unfold slipVector
  rw [slip_fold c pos0 pos1 (twoValued side uA uB) i nbrs zero3 hst, rigid_fold]
  ext <;> simp

/-- ... in particular it vanishes for an atom none of whose neighbours lies across the plane. -/
theorem slip_zero_away (c : Cell K) (pos0 pos1 : Nat → V3 K) (nbrs : List Nat) (i : Nat)
    (side : Nat → Bool) (uA uB : V3 K)
    (hst : ∀ j ∈ nbrs, c.dv (pos1 i) (pos1 j)
      = c.dv (pos0 i) (pos0 j) + (twoValued side uA uB j - twoValued side uA uB i))
    (hno : ∀ j ∈ nbrs, side j = side i) :
    slipVector c pos0 pos1 nbrs i = zero3 := by
  rw [slip_rigid c pos0 pos1 nbrs i side uA uB hst]
  have : nbrs.countP (fun j => side j != side i) = 0 := by
    rw [List.countP_eq_zero]
    intro j hj
    simp [hno j hj]
  rw [this]
  ext <;> simp

/-- **dd_is_difference.**  With positions `pos1 = pos0 + u`, the same cell for both systems and an image-stable
    pair (hypotheses of `image_stable`), the differential displacement of the pair is `u_j - u_i`. -/
theorem dd_is_difference (c : Cell K) (pos0 u : Nat → V3 K) (i j : Nat) (s : Shift)
    (hs : s ∈ cands c.px c.py c.pz)
    (hgap : ∀ t ∈ cands c.px c.py c.pz, t = s ∨
      2 * |V3.dot (u j - u i) (shiftBy c.vects (pos0 j - pos0 i) t - shiftBy c.vects (pos0 j - pos0 i) s)|
        < V3.normSq (shiftBy c.vects (pos0 j - pos0 i) t) - V3.normSq (shiftBy c.vects (pos0 j - pos0 i) s)) :
    ddvector c c pos0 (fun k => pos0 k + u k) i j = u j - u i := by
  unfold ddvector Cell.dv
  rw [image_stable c.vects c.px c.py c.pz (pos0 i) (pos0 j) (u i) (u j) s hs hgap]
  ext <;> simp only [sub_x, sub_y, sub_z, add_x, add_y, add_z] <;> ring

/-- the general form (each system with its own cell): whenever the two periodic separations differ by the
    difference of the imposed displacements, that difference is the dd vector. -/
theorem dd_of_stable (c0 c1 : Cell K) (pos0 pos1 : Nat → V3 K) (i j : Nat) (w : V3 K)
    (h : c1.dv (pos1 i) (pos1 j) = c0.dv (pos0 i) (pos0 j) + w) :
    ddvector c0 c1 pos0 pos1 i j = w := by
  unfold ddvector
  rw [h]
  ext <;> simp only [sub_x, sub_y, sub_z, add_x, add_y, add_z] <;> ring

/-- slip vector of a rigid slip, directly from the image-stability hypotheses on every reference neighbour pair. -/
theorem slip_rigid_of_stable (c : Cell K) (pos0 : Nat → V3 K) (nbrs : List Nat) (i : Nat)
    (side : Nat → Bool) (uA uB : V3 K) (sh : Nat → Shift)
    (hs : ∀ j ∈ nbrs, sh j ∈ cands c.px c.py c.pz)
    (hgap : ∀ j ∈ nbrs, ∀ t ∈ cands c.px c.py c.pz, t = sh j ∨
      2 * |V3.dot (twoValued side uA uB j - twoValued side uA uB i)
            (shiftBy c.vects (pos0 j - pos0 i) t - shiftBy c.vects (pos0 j - pos0 i) (sh j))|
        < V3.normSq (shiftBy c.vects (pos0 j - pos0 i) t) - V3.normSq (shiftBy c.vects (pos0 j - pos0 i) (sh j))) :
    slipVector c pos0 (fun k => pos0 k + twoValued side uA uB k) nbrs i
      = V3.smul ((nbrs.countP (fun j => side j != side i) : Nat) : K)
          (twoValued side uA uB i - otherHalf side uA uB i) := by
  apply slip_rigid
  intro j hj
  exact image_stable c.vects c.px c.py c.pz (pos0 i) (pos0 j) _ _ (sh j) (hs j hj) (hgap j hj)

/-! ### disregistry of a rigid slip -/

theorem absK_nonneg (x : K) : 0 ≤ absK x := by
  unfold absK; split <;> linarith

theorem isclose_self (atol rtol a : K) (ha : 0 ≤ atol) (hr : 0 ≤ rtol) : isclose atol rtol a a = true := by
  have h0 : absK (a - a) = 0 := by simp [absK]
  have := absK_nonneg a
  simp only [isclose, h0, decide_eq_true_eq]
  positivity

theorem dedupSorted_subset : ∀ (l : List K) (x : K), x ∈ dedupSorted l → x ∈ l
  | [], x, h => by simp [dedupSorted] at h
  | [a], x, h => by simpa [dedupSorted] using h
  | a :: b :: rest, x, h => by
    simp only [dedupSorted] at h
    split at h
    · exact List.mem_cons_of_mem _ (dedupSorted_subset (b :: rest) x h)
    · rcases List.mem_cons.mp h with h | h
      · rw [h]; exact List.mem_cons_self
      · exact List.mem_cons_of_mem _ (dedupSorted_subset (b :: rest) x h)

theorem dedupSorted_ne_nil : ∀ (l : List K), l ≠ [] → dedupSorted l ≠ []
  | [], h => absurd rfl h
  | [a], _ => by simp [dedupSorted]
  | a :: b :: rest, _ => by
    simp only [dedupSorted]
    split
    · exact dedupSorted_ne_nil (b :: rest) (by simp)
    · simp

theorem unique_subset (l : List K) : ∀ x ∈ unique l, x ∈ l := fun x hx =>
  List.mem_mergeSort.mp (dedupSorted_subset _ x hx)

theorem unique_ne_nil (l : List K) (h : l ≠ []) : unique l ≠ [] := by
  apply dedupSorted_ne_nil
  obtain ⟨a, ha⟩ := List.exists_mem_of_ne_nil l h
  exact List.ne_nil_of_mem (List.mem_mergeSort.mpr ha)

/-- **interpolation of a constant is the constant** (`numpy.interp` with all `fp` equal). -/
theorem interp_const (c x : K) : ∀ (pts : List (K × K)), pts ≠ [] → (∀ p ∈ pts, p.2 = c) → interp pts x = c
  | [], h, _ => absurd rfl h
  | [(x0, f0)], _, h => by simp only [interp]; exact h (x0, f0) List.mem_cons_self
  | (x0, f0) :: (x1, f1) :: rest, _, h => by
    have h0 : f0 = c := h (x0, f0) List.mem_cons_self
    have h1 : f1 = c := h (x1, f1) (List.mem_cons_of_mem _ List.mem_cons_self)
    simp only [interp]
    split
    · split
      · exact h0
      · rw [h0, h1]; simp
    · exact interp_const c x ((x1, f1) :: rest) (by simp) (fun p hp => h p (List.mem_cons_of_mem _ hp))

theorem interpV_const (xs : List K) (hne : xs ≠ []) (u : V3 K) (x : K) :
    interpV xs (xs.map fun _ => u) x = u := by
  have key : ∀ c : K, interp (xs.zip (xs.map fun _ => c)) x = c := by
    intro c
    apply interp_const
    · obtain ⟨a, l, rfl⟩ := List.exists_cons_of_ne_nil hne
      simp
    · intro p hp
      have := (List.of_mem_zip hp).2
      simp only [List.mem_map] at this
      obtain ⟨_, _, h⟩ := this
      exact h.symm
  unfold interpV
  simp only [List.map_map, Function.comp_def]
  ext <;> simp only [key]

theorem sumV_fold_const (u : V3 K) : ∀ (l : List (V3 K)) (acc : V3 K), (∀ v ∈ l, v = u) →
    l.foldl (· + ·) acc = acc + V3.smul ((l.length : Nat) : K) u
  | [], acc, _ => by ext <;> simp
  | v :: l, acc, h => by
    simp only [List.foldl_cons, List.length_cons]
    rw [sumV_fold_const u l _ (fun w hw => h w (List.mem_cons_of_mem _ hw)), h v List.mem_cons_self]
    ext <;> simp only [add_x, add_y, add_z, smul_x, smul_y, smul_z, Nat.cast_add, Nat.cast_one] <;> ring

/-- the mean of a non-empty list of equal vectors is that vector. -/
theorem meanV_const (u : V3 K) (l : List (V3 K)) (hne : l ≠ []) (h : ∀ v ∈ l, v = u) : meanV l = u := by
  have hn : ((l.length : Nat) : K) ≠ 0 := by
    have : l.length ≠ 0 := by simpa using hne
    exact_mod_cast this
  unfold meanV sumV
  rw [sumV_fold_const u l zero3 h]
  ext <;> simp only [add_x, add_y, add_z, smul_x, smul_y, smul_z, zero3_x, zero3_y, zero3_z, zero_add] <;> field_simp

theorem planeMeans_const (atol rtol : K) (ha : 0 ≤ atol) (hr : 0 ≤ rtol) (plane : List (K × V3 K)) (u : V3 K)
    (hu : ∀ a ∈ plane, a.2 = u) (ux : List K) (hux : ∀ ix ∈ ux, ix ∈ plane.map (·.1)) :
    planeMeans atol rtol plane ux = ux.map fun _ => u := by
  unfold planeMeans
  apply List.map_congr_left
  intro ix hix
  apply meanV_const
  · obtain ⟨a, ha', hax⟩ := List.mem_map.mp (hux ix hix)
    apply List.ne_nil_of_mem (a := a.2)
    apply List.mem_map.mpr
    refine ⟨a, List.mem_filter.mpr ⟨ha', ?_⟩, rfl⟩
    simp only [hax]
    exact isclose_self atol rtol ix ha hr
  · intro v hv
    obtain ⟨a, ha', rfl⟩ := List.mem_map.mp hv
    exact hu a (List.mem_filter.mp ha').1

/-- **disregistry_rigid.**  If every atom of the plane just above the slip plane carries the displacement `uA` and
    every atom of the plane just below carries `uB` (both planes non-empty), then at every coordinate the
    disregistry is `uA - uB`: the means over columns of a constant are the constant, and so is their interpolation. -/
theorem disregistry_rigid (atol rtol : K) (ha : 0 ≤ atol) (hr : 0 ≤ rtol) (atoms : List (K × K × V3 K))
    (abovey belowy : K) (uA uB : V3 K)
    (hA : ∀ a ∈ atoms, isclose atol rtol a.2.1 abovey = true → a.2.2 = uA)
    (hB : ∀ a ∈ atoms, isclose atol rtol a.2.1 belowy = true → a.2.2 = uB)
    (hAne : ∃ a ∈ atoms, isclose atol rtol a.2.1 abovey = true)
    (hBne : ∃ a ∈ atoms, isclose atol rtol a.2.1 belowy = true) :
    ∀ e ∈ disregistryAt atol rtol atoms abovey belowy, e.2 = uA - uB := by
  have plane : ∀ (y : K) (u : V3 K), (∀ a ∈ atoms, isclose atol rtol a.2.1 y = true → a.2.2 = u) →
      (∃ a ∈ atoms, isclose atol rtol a.2.1 y = true) → ∀ x : K,
      interpV (unique ((planeAtoms atol rtol atoms y).map (·.1)))
        (planeMeans atol rtol (planeAtoms atol rtol atoms y) (unique ((planeAtoms atol rtol atoms y).map (·.1)))) x = u := by
    intro y u hy hne x
    have hu : ∀ a ∈ planeAtoms atol rtol atoms y, a.2 = u := by
      intro a ha'
      obtain ⟨b, hb, rfl⟩ := List.mem_map.mp ha'
      have := List.mem_filter.mp hb
      exact hy b this.1 this.2
    rw [planeMeans_const atol rtol ha hr _ u hu _ (unique_subset _)]
    apply interpV_const
    apply unique_ne_nil
    obtain ⟨a, ha', hc⟩ := hne
    apply List.ne_nil_of_mem (a := a.1)
    apply List.mem_map.mpr
    exact ⟨(a.1, a.2.2), List.mem_map.mpr ⟨a, List.mem_filter.mpr ⟨ha', hc⟩, rfl⟩, rfl⟩
  intro e he
  unfold disregistryAt at he
  simp only [List.mem_map] at he
  obtain ⟨x, _, rfl⟩ := he
  simp only [plane abovey uA hA hAne, plane belowy uB hB hBne]

theorem fold_sel_mem (f : K → K → K) (hf : ∀ m x, f m x = m ∨ f m x = x) :
    ∀ (l : List K) (a : K), l.foldl f a ∈ a :: l
  | [], a => by simp
  | x :: l, a => by
    simp only [List.foldl_cons]
    have := fold_sel_mem f hf l (f a x)
    rcases List.mem_cons.mp this with h | h
    · rw [h]
      rcases hf a x with h' | h' <;> rw [h'] <;> simp
    · exact List.mem_cons_of_mem _ (List.mem_cons_of_mem _ h)

theorem minL_mem (l : List K) (m : K) (h : minL l = some m) : m ∈ l := by
  cases l with
  | nil => simp [minL] at h
  | cons a l =>
    simp only [minL, Option.some.injEq] at h
    rw [← h]
    apply fold_sel_mem
    intro m x; by_cases hx : x < m <;> simp [hx]

theorem maxL_mem (l : List K) (m : K) (h : maxL l = some m) : m ∈ l := by
  cases l with
  | nil => simp [maxL] at h
  | cons a l =>
    simp only [maxL, Option.some.injEq] at h
    rw [← h]
    apply fold_sel_mem
    intro m x; by_cases hx : m < x <;> simp [hx]

/-- the same for the whole function `disregistry` (plane selection included): if it returns a profile and every atom
    lying (within `isclose`) in an atomic plane above the slip plane carries `uA`, every one in a plane below carries
    `uB`, the disregistry is `uA - uB` at every coordinate — the imposed slip. -/
theorem disregistry_rigid_full (atol rtol : K) (ha : 0 ≤ atol) (hr : 0 ≤ rtol) (atoms : List (K × K × V3 K))
    (midy : K) (uA uB : V3 K) (r : List (K × V3 K))
    (hA : ∀ y, midy < y → ∀ a ∈ atoms, isclose atol rtol a.2.1 y = true → a.2.2 = uA)
    (hB : ∀ y, y < midy → ∀ a ∈ atoms, isclose atol rtol a.2.1 y = true → a.2.2 = uB)
    (hres : disregistry atol rtol atoms midy = some r) :
    ∀ e ∈ r, e.2 = uA - uB := by
  unfold disregistry at hres
  simp only at hres
  split at hres
  · rename_i abovey belowy hmin hmax
    split at hres
    · exact absurd hres (by simp)
    · simp only [Option.some.injEq] at hres
      rw [← hres]
      have h1 := List.mem_filter.mp (minL_mem _ _ hmin)
      have h2 := List.mem_filter.mp (maxL_mem _ _ hmax)
      have m1 := unique_subset _ _ h1.1
      have m2 := unique_subset _ _ h2.1
      obtain ⟨a1, ha1, e1⟩ := List.mem_map.mp m1
      obtain ⟨a2, ha2, e2⟩ := List.mem_map.mp m2
      apply disregistry_rigid atol rtol ha hr atoms abovey belowy uA uB
      · exact hA abovey (by simpa using h1.2)
      · exact hB belowy (by simpa using h2.2)
      · exact ⟨a1, ha1, by rw [e1]; exact isclose_self atol rtol abovey ha hr⟩
      · exact ⟨a2, ha2, by rw [e2]; exact isclose_self atol rtol belowy ha hr⟩
  · exact absurd hres (by simp)

end Atomman.C17
