/-
  C17 — analysis tools recover a known imposed deformation exactly: property theorems about the model
  `Atomman/C17.lean` (displacement, slip vector, differential displacement, disregistry, match_pq, G, strain
  measures, Nye tensor).  `K` is any linearly ordered field.
-/
import Proofs.C17_Lemmas
import Proofs.C17_Object
import Proofs.C17_Pairing
import Proofs.C17_Source
import Proofs.C17_Disreg
import Mathlib.Algebra.Order.Ring.Abs

namespace Atomman.C17
open Atomman
set_option linter.unusedSectionVars false
set_option linter.unusedSimpArgs false
set_option linter.unusedVariables false

variable {K : Type} [Field K] [LinearOrder K] [IsStrictOrderedRing K]

/-! ### image stability: the hypothesis under which all following clauses are exact -/

/-- **image_stable.**  Let candidate `s` of the loops of `dvect_c` be the strict minimum for the pair `(p₀, p₁)` with
    a gap that dominates the imposed relative displacement `w = u₁ - u₀`:
    `2 |w · (c_t - c_s)| < |c_t|² - |c_s|²` for every other candidate `t`.  Then the periodic separation of the
    displaced pair is the old one plus `w` — no image flips. -/
theorem image_stable (V : M3 K) (px py pz : Bool) (p0 p1 u0 u1 : V3 K) (s : Shift)
    (hs : s ∈ cands px py pz)
    (hgap : ∀ t ∈ cands px py pz, t = s ∨
      2 * |V3.dot (u1 - u0) (shiftBy V (p1 - p0) t - shiftBy V (p1 - p0) s)|
        < V3.normSq (shiftBy V (p1 - p0) t) - V3.normSq (shiftBy V (p1 - p0) s)) :
    dvect V px py pz (p0 + u0) (p1 + u1) = dvect V px py pz p0 p1 + (u1 - u0) := by
  have e : (p1 + u1) - (p0 + u0) = (p1 - p0) + (u1 - u0) := by
    ext <;> simp only [sub_x, sub_y, sub_z, add_x, add_y, add_z] <;> ring
  have h0 : dvect V px py pz p0 p1 = shiftBy V (p1 - p0) s := by
    apply dvect_eq_of_strict_min V px py pz p0 p1 s hs
    intro t ht
    rcases hgap t ht with h | h
    · left; rw [h]
    · right
      have := abs_nonneg (V3.dot (u1 - u0) (shiftBy V (p1 - p0) t - shiftBy V (p1 - p0) s))
      linarith
  have h1 : dvect V px py pz (p0 + u0) (p1 + u1) = shiftBy V ((p1 + u1) - (p0 + u0)) s := by
    apply dvect_eq_of_strict_min V px py pz _ _ s hs
    intro t ht
    rcases hgap t ht with h | h
    · left; rw [h]
    · right
      rw [e, shiftBy_add, shiftBy_add, normSq_add, normSq_add]
      rw [dot_sub] at h
      have := neg_abs_le (V3.dot (u1 - u0) (shiftBy V (p1 - p0) t) - V3.dot (u1 - u0) (shiftBy V (p1 - p0) s))
      linarith
  rw [h1, h0, e, shiftBy_add]

/-- the same with a margin `δ` and a bound on the size of the relative displacement (Cauchy–Schwarz):
    every other candidate is longer by `δ` in squared length and `4 |w|² |c_t - c_s|² < δ²`. -/
theorem image_stable_margin (V : M3 K) (px py pz : Bool) (p0 p1 u0 u1 : V3 K) (s : Shift) (δ : K)
    (hs : s ∈ cands px py pz) (hδ : 0 < δ)
    (hgap : ∀ t ∈ cands px py pz, t = s ∨
      (δ ≤ V3.normSq (shiftBy V (p1 - p0) t) - V3.normSq (shiftBy V (p1 - p0) s) ∧
       4 * V3.normSq (u1 - u0) * V3.normSq (shiftBy V (p1 - p0) t - shiftBy V (p1 - p0) s) < δ ^ 2)) :
    dvect V px py pz (p0 + u0) (p1 + u1) = dvect V px py pz p0 p1 + (u1 - u0) := by
  apply image_stable V px py pz p0 p1 u0 u1 s hs
  intro t ht
  rcases hgap t ht with h | ⟨h1, h2⟩
  · exact Or.inl h
  · right
    have cs := cauchy_schwarz (u1 - u0) (shiftBy V (p1 - p0) t - shiftBy V (p1 - p0) s)
    set x := V3.dot (u1 - u0) (shiftBy V (p1 - p0) t - shiftBy V (p1 - p0) s)
    have hx : (2 * |x|) ^ 2 < δ ^ 2 := by
      have : (2 * |x|) ^ 2 = 4 * x ^ 2 := by rw [mul_pow, sq_abs]; norm_num
      rw [this]; nlinarith
    have hpos : 0 ≤ 2 * |x| := by positivity
    have : 2 * |x| < δ := lt_of_pow_lt_pow_left₀ 2 hδ.le hx
    linarith

/-- **the per-atom displacement is the imposed displacement taken through the periodic boundaries**: if the
    final position is the initial one plus `u` plus any lattice translation the loops can undo (`shiftBy … s = u`)
    and `u` is strictly shorter than its other candidate images, `displacement` returns `u`. -/
theorem displacement_is_imposed (c : Cell K) (pos0 pos1 : Nat → V3 K) (i : Nat) (u : V3 K) (s : Shift)
    (hs : s ∈ cands c.px c.py c.pz)
    (hu : shiftBy c.vects (pos1 i - pos0 i) s = u)
    (hmin : ∀ t ∈ cands c.px c.py c.pz, shiftBy c.vects (pos1 i - pos0 i) t = u ∨
      V3.normSq u < V3.normSq (shiftBy c.vects (pos1 i - pos0 i) t)) :
    displacement c pos0 pos1 i = u := by
  unfold displacement Cell.dv
  rw [dvect_eq_of_strict_min c.vects c.px c.py c.pz _ _ s hs, hu]
  intro t ht
  rw [hu]
  exact hmin t ht

/-! ### rigid slip of a half crystal: slip vector, differential displacement
  (`twoValued side uA uB j` = `uA` on the half `side j = true`, `uB` on the other; `otherHalf` the displacement of the
  half atom `i` is *not* in: both defined in `Proofs/C17_Lemmas.lean`) -/

/-- **slip_rigid.**  For a two-valued (rigid half-crystal) displacement and no image flips on the reference
    neighbour list, the slip vector of atom `i` is the number of its neighbours in the other half times the
    displacement of its own half relative to the other half. -/
theorem slip_rigid (c : Cell K) (pos0 pos1 : Nat → V3 K) (nbrs : List Nat) (i : Nat)
    (side : Nat → Bool) (uA uB : V3 K)
    (hst : ∀ j ∈ nbrs, c.dv (pos1 i) (pos1 j)
      = c.dv (pos0 i) (pos0 j) + (twoValued side uA uB j - twoValued side uA uB i)) :
    slipVector c pos0 pos1 nbrs i
      = V3.smul ((nbrs.countP (fun j => side j != side i) : Nat) : K)
          (twoValued side uA uB i - otherHalf side uA uB i) := by
  unfold slipVector
  rw [slip_fold c pos0 pos1 (twoValued side uA uB) i nbrs zero3 hst, rigid_fold]
  ext <;> simp

/-- ... in particular it vanishes for an atom none of whose neighbours lies across the plane. -/
theorem slip_zero_away (c : Cell K) (pos0 pos1 : Nat → V3 K) (nbrs : List Nat) (i : Nat)
    (side : Nat → Bool) (uA uB : V3 K)
    (hst : ∀ j ∈ nbrs, c.dv (pos1 i) (pos1 j)
      = c.dv (pos0 i) (pos0 j) + (twoValued side uA uB j - twoValued side uA uB i))
    (hno : ∀ j ∈ nbrs, side j = side i) :
    slipVector c pos0 pos1 nbrs i = zero3 := by
  rw [slip_rigid c pos0 pos1 nbrs i side uA uB hst]
  have : nbrs.countP (fun j => side j != side i) = 0 := by
    rw [List.countP_eq_zero]
    intro j hj
    simp [hno j hj]
  rw [this]
  ext <;> simp

/-- **dd_is_difference.**  With positions `pos1 = pos0 + u`, the same cell for both systems and an image-stable
    pair (hypotheses of `image_stable`), the differential displacement of the pair is `u_j - u_i`. -/
theorem dd_is_difference (c : Cell K) (pos0 u : Nat → V3 K) (i j : Nat) (s : Shift)
    (hs : s ∈ cands c.px c.py c.pz)
    (hgap : ∀ t ∈ cands c.px c.py c.pz, t = s ∨
      2 * |V3.dot (u j - u i) (shiftBy c.vects (pos0 j - pos0 i) t - shiftBy c.vects (pos0 j - pos0 i) s)|
        < V3.normSq (shiftBy c.vects (pos0 j - pos0 i) t) - V3.normSq (shiftBy c.vects (pos0 j - pos0 i) s)) :
    ddvector c c pos0 (fun k => pos0 k + u k) i j = u j - u i := by
  unfold ddvector Cell.dv
  rw [image_stable c.vects c.px c.py c.pz (pos0 i) (pos0 j) (u i) (u j) s hs hgap]
  ext <;> simp only [sub_x, sub_y, sub_z, add_x, add_y, add_z] <;> ring

/-- the general form (each system with its own cell): whenever the two periodic separations differ by the
    difference of the imposed displacements, that difference is the dd vector. -/
theorem dd_of_stable (c0 c1 : Cell K) (pos0 pos1 : Nat → V3 K) (i j : Nat) (w : V3 K)
    (h : c1.dv (pos1 i) (pos1 j) = c0.dv (pos0 i) (pos0 j) + w) :
    ddvector c0 c1 pos0 pos1 i j = w := by
  unfold ddvector
  rw [h]
  ext <;> simp only [sub_x, sub_y, sub_z, add_x, add_y, add_z] <;> ring

/-- slip vector of a rigid slip, directly from the image-stability hypotheses on every reference neighbour pair. -/
theorem slip_rigid_of_stable (c : Cell K) (pos0 : Nat → V3 K) (nbrs : List Nat) (i : Nat)
    (side : Nat → Bool) (uA uB : V3 K) (sh : Nat → Shift)
    (hs : ∀ j ∈ nbrs, sh j ∈ cands c.px c.py c.pz)
    (hgap : ∀ j ∈ nbrs, ∀ t ∈ cands c.px c.py c.pz, t = sh j ∨
      2 * |V3.dot (twoValued side uA uB j - twoValued side uA uB i)
            (shiftBy c.vects (pos0 j - pos0 i) t - shiftBy c.vects (pos0 j - pos0 i) (sh j))|
        < V3.normSq (shiftBy c.vects (pos0 j - pos0 i) t) - V3.normSq (shiftBy c.vects (pos0 j - pos0 i) (sh j))) :
    slipVector c pos0 (fun k => pos0 k + twoValued side uA uB k) nbrs i
      = V3.smul ((nbrs.countP (fun j => side j != side i) : Nat) : K)
          (twoValued side uA uB i - otherHalf side uA uB i) := by
  apply slip_rigid
  intro j hj
  exact image_stable c.vects c.px c.py c.pz (pos0 i) (pos0 j) _ _ (sh j) (hs j hj) (hgap j hj)

/-! ### disregistry of a rigid slip -/

/-- **disregistry_rigid.**  If every atom of the plane just above the slip plane carries the displacement `uA` and
    every atom of the plane just below carries `uB` (both planes non-empty), then at every coordinate the
    disregistry is `uA - uB`: the means over columns of a constant are the constant, and so is their interpolation. -/
theorem disregistry_rigid (atol rtol : K) (ha : 0 ≤ atol) (hr : 0 ≤ rtol) (atoms : List (K × K × V3 K))
    (abovey belowy : K) (uA uB : V3 K)
    (hA : ∀ a ∈ atoms, isclose atol rtol a.2.1 abovey = true → a.2.2 = uA)
    (hB : ∀ a ∈ atoms, isclose atol rtol a.2.1 belowy = true → a.2.2 = uB)
    (hAne : ∃ a ∈ atoms, isclose atol rtol a.2.1 abovey = true)
    (hBne : ∃ a ∈ atoms, isclose atol rtol a.2.1 belowy = true) :
    ∀ e ∈ disregistryAt atol rtol atoms abovey belowy, e.2 = uA - uB := by
  have plane : ∀ (y : K) (u : V3 K), (∀ a ∈ atoms, isclose atol rtol a.2.1 y = true → a.2.2 = u) →
      (∃ a ∈ atoms, isclose atol rtol a.2.1 y = true) → ∀ x : K,
      interpV (unique ((planeAtoms atol rtol atoms y).map (·.1)))
        (planeMeans atol rtol (planeAtoms atol rtol atoms y) (unique ((planeAtoms atol rtol atoms y).map (·.1)))) x = u := by
    intro y u hy hne x
    have hu : ∀ a ∈ planeAtoms atol rtol atoms y, a.2 = u := by
      intro a ha'
      obtain ⟨b, hb, rfl⟩ := List.mem_map.mp ha'
      have := List.mem_filter.mp hb
      exact hy b this.1 this.2
    rw [planeMeans_const atol rtol ha hr _ u hu _ (unique_subset _)]
    apply interpV_const
    apply unique_ne_nil
    obtain ⟨a, ha', hc⟩ := hne
    apply List.ne_nil_of_mem (a := a.1)
    apply List.mem_map.mpr
    exact ⟨(a.1, a.2.2), List.mem_map.mpr ⟨a, List.mem_filter.mpr ⟨ha', hc⟩, rfl⟩, rfl⟩
  intro e he
  unfold disregistryAt at he
  simp only [List.mem_map] at he
  obtain ⟨x, _, rfl⟩ := he
  simp only [plane abovey uA hA hAne, plane belowy uB hB hBne]

/-- the same for the whole function `disregistry` (plane selection included): if it returns a profile and every atom
    lying (within `isclose`) in an atomic plane above the slip plane carries `uA`, every one in a plane below carries
    `uB`, the disregistry is `uA - uB` at every coordinate — the imposed slip. -/
theorem disregistry_rigid_full (atol rtol : K) (ha : 0 ≤ atol) (hr : 0 ≤ rtol) (atoms : List (K × K × V3 K))
    (midy : K) (uA uB : V3 K) (r : List (K × V3 K))
    (hA : ∀ y, midy < y → ∀ a ∈ atoms, isclose atol rtol a.2.1 y = true → a.2.2 = uA)
    (hB : ∀ y, y < midy → ∀ a ∈ atoms, isclose atol rtol a.2.1 y = true → a.2.2 = uB)
    (hres : disregistry atol rtol atoms midy = some r) :
    ∀ e ∈ r, e.2 = uA - uB := by
  unfold disregistry at hres
  simp only at hres
  split at hres
  · rename_i abovey belowy hmin hmax
    split at hres
    · exact absurd hres (by simp)
    · simp only [Option.some.injEq] at hres
      rw [← hres]
      have h1 := List.mem_filter.mp (minL_mem _ _ hmin)
      have h2 := List.mem_filter.mp (maxL_mem _ _ hmax)
      have m1 := unique_subset _ _ h1.1
      have m2 := unique_subset _ _ h2.1
      obtain ⟨a1, ha1, e1⟩ := List.mem_map.mp m1
      obtain ⟨a2, ha2, e2⟩ := List.mem_map.mp m2
      apply disregistry_rigid atol rtol ha hr atoms abovey belowy uA uB
      · exact hA abovey (by simpa using h1.2)
      · exact hB belowy (by simpa using h2.2)
      · exact ⟨a1, ha1, by rw [e1]; exact isclose_self atol rtol abovey ha hr⟩
      · exact ⟨a2, ha2, by rw [e2]; exact isclose_self atol rtol belowy ha hr⟩
  · exact absurd hres (by simp)

/-! ### homogeneous deformation: the lattice-correspondence tensor is the inverse transpose of `F` -/

/-- **G_homogeneous.**  If every matched pair satisfies `q = F p` (`F` invertible) and the matched `q` rows have full
    column rank (`det QᵀQ ≠ 0`), the least-squares solution of `Q G = P` is `F⁻ᵀ`: rows obey `p = q F⁻ᵀ`, the
    convention of `Strain.pyx` (`lstsq(Q, P)`). -/
theorem G_homogeneous (F : M3 K) (hF : M3.det F ≠ 0) (pairs : List (V3 K × V3 K))
    (hq : ∀ e ∈ pairs, e.2 = M3.mulVec F e.1) (hrank : M3.det (qtq pairs) ≠ 0) :
    solveNormal pairs = M3.inv F.transpose := by
  have hFt : M3.det F.transpose ≠ 0 := by rw [det_transpose]; exact hF
  have hp : ∀ e ∈ pairs, e.1 = M3.vecMul e.2 (M3.inv F.transpose) := by
    intro e he
    rw [hq e he, mulVec_eq_vecMul_transpose, vecMul_mul, mul_inv_cancel3 _ hFt, vecMul_one]
  unfold solveNormal
  rw [qtp_of_linear _ pairs hp, ← mul_assoc3, inv_mul_cancel3 _ hrank, one_mul3]

/-- more generally: whenever some `G` maps every matched `q` row onto its `p` row, `lstsq` (normal equations, full
    rank) returns that `G`. -/
theorem G_exact_fit (G : M3 K) (pairs : List (V3 K × V3 K))
    (hp : ∀ e ∈ pairs, e.1 = M3.vecMul e.2 G) (hrank : M3.det (qtq pairs) ≠ 0) :
    solveNormal pairs = G := by
  unfold solveNormal
  rw [qtp_of_linear _ pairs hp, ← mul_assoc3, inv_mul_cancel3 _ hrank, one_mul3]

/-- for a pure rotation (`F Fᵀ = I`) the inverse transpose is `F` itself: `G = F`. -/
theorem invT_of_rotation (F : M3 K) (hR : M3.mul F.transpose F = M3.one) (hF : M3.det F ≠ 0) :
    M3.inv F.transpose = F := by
  have hFt : M3.det F.transpose ≠ 0 := by rw [det_transpose]; exact hF
  exact (solve_unique F.transpose F M3.one hFt hR).trans (by
    ext <;> simp [M3.mul, M3.vecMul, M3.one]) |>.symm

/-! ### the pairing loop of `match_pq` under its hypothesis
  (`IsBest mag cosMax ps q k`: `ps[k]` has a cosine with `q` above `cos θ_max`, strictly above that of every earlier
  `p`, not below that of any later one — defined in `Proofs/C17_Lemmas.lean` with `bestP_of_isBest`) -/

/-- the index form of `IsBest`: `ps[k]` is inside `θ_max` and every other reference vector makes a strictly larger
    angle with `q`. -/
theorem isBest_of_strict (mag : V3 K → K) (cosMax : K) (ps : List (V3 K)) (q : V3 K) (k : Nat) (hk : k < ps.length)
    (hc : cosMax < cosTheta mag q ps[k])
    (h : ∀ k' (hk' : k' < ps.length), k' ≠ k → cosTheta mag q ps[k'] < cosTheta mag q ps[k]) :
    IsBest mag cosMax ps q k := by
  refine ⟨ps.take k, ps[k], ps.drop (k + 1), ?_, ?_, hc, ?_, ?_⟩
  · rw [List.getElem_cons_drop, List.take_append_drop]
  · simp [List.length_take]; omega
  · intro p hp
    obtain ⟨i, hi, rfl⟩ := List.mem_take_iff_getElem.mp hp
    have hi' : i < k := by omega
    exact h i (by omega) (by omega)
  · intro p hp
    obtain ⟨i, hi, rfl⟩ := List.mem_drop_iff_getElem.mp hp
    exact le_of_lt (h (k + 1 + i) (by omega) (by omega))

/-- **matchPQ_pairing_partial.**  Hypothesis (not derived from the smallness of the deformation — see PARTIAL): the
    `j`-th current neighbour vector has the best match `ps[ks[j]]` within `θ_max` and distinct `q` have distinct
    matches.  Then `qp_pairs = ks`, nothing is discarded, and the reduced matrices hold the rows
    `(P[j], Q[j]) = (ps[ks[j]], qs[j])` in the order of `q`. -/
theorem matchPQ_pairing_partial (mag : V3 K → K) (cosMax big : K) (ps qs : List (V3 K)) (ks : List Nat)
    (hlen : qs.length = ks.length)
    (hbest : ∀ e ∈ qs.zip ks, IsBest mag cosMax ps e.1 e.2)
    (hnd : ks.Nodup) :
    qpPairs mag cosMax big ps qs = (qs.zip ks).map (fun e => (e.1, some e.2)) ∧
    matchPQ mag cosMax big ps qs = (qs.zip ks).filterMap (fun e => (ps[e.2]?).map fun p => (p, e.1)) ∧
    (matchPQ mag cosMax big ps qs).map (·.2) = qs := by
  have h1 : qpPairs mag cosMax big ps qs = (qs.zip ks).map (fun e => (e.1, some e.2)) := by
    unfold qpPairs
    rw [qpPairs_fold mag cosMax _ ps qs ks [] hlen hbest hnd (by simp)]
    simp
  have h2 : matchPQ mag cosMax big ps qs = (qs.zip ks).filterMap (fun e => (ps[e.2]?).map fun p => (p, e.1)) := by
    unfold matchPQ
    rw [h1, List.filterMap_map]
    rfl
  refine ⟨h1, h2, ?_⟩
  rw [h2]
  have : ∀ (l : List (V3 K × Nat)), (∀ e ∈ l, ∃ p, ps[e.2]? = some p) →
      (l.filterMap (fun e => (ps[e.2]?).map fun p => (p, e.1))).map (·.2) = l.map (·.1) := by
    intro l
    induction l with
    | nil => intro _; rfl
    | cons e l ih =>
      intro h
      obtain ⟨p, hp⟩ := h e List.mem_cons_self
      rw [List.filterMap_cons_some (b := (p, e.1)) (by simp [hp])]
      simp only [List.map_cons]
      rw [ih (fun e' he' => h e' (List.mem_cons_of_mem _ he'))]
  rw [this _ (fun e he => (isBest_get mag cosMax ps e.1 e.2 (hbest e he)).imp fun p hp => hp.1)]
  exact List.map_fst_zip (by omega)

/-- **solveG_homogeneous.**  The whole per-atom computation `match_pq` + `lstsq`: reference vectors `ps`, current
    vectors `qs` with `qs[j] = F ps[ks[j]]`, pairing hypothesis of `matchPQ_pairing_partial`, at least one neighbour
    and full rank of the `q` rows ⇒ `G = F⁻ᵀ`. -/
theorem solveG_homogeneous (mag : V3 K → K) (cosMax big : K) (ps qs : List (V3 K)) (ks : List Nat)
    (F : M3 K) (hF : M3.det F ≠ 0)
    (hlen : qs.length = ks.length)
    (hbest : ∀ e ∈ qs.zip ks, IsBest mag cosMax ps e.1 e.2)
    (hnd : ks.Nodup)
    (hq : ∀ e ∈ qs.zip ks, ∀ p, ps[e.2]? = some p → e.1 = M3.mulVec F p)
    (hne : qs ≠ [])
    (hrank : M3.det (qtqV qs) ≠ 0) :
    solveG mag cosMax big ps qs = M3.inv F.transpose := by
  obtain ⟨_, h2, h3⟩ := matchPQ_pairing_partial mag cosMax big ps qs ks hlen hbest hnd
  have hne' : (matchPQ mag cosMax big ps qs).isEmpty = false := by
    cases hm : matchPQ mag cosMax big ps qs with
    | nil => rw [hm] at h3; exact absurd h3.symm hne
    | cons a l => rfl
  unfold solveG
  simp only [hne', Bool.false_eq_true, if_false]
  apply G_homogeneous F hF
  · intro e he
    rw [h2] at he
    obtain ⟨e', he', hm⟩ := List.mem_filterMap.mp he
    cases hp : ps[e'.2]? with
    | none => simp [hp] at hm
    | some p =>
      simp only [hp, Option.map_some, Option.some.injEq] at hm
      rw [← hm]
      exact hq e' he' p hp
  · rw [qtq_eq_qtqV, h3]; exact hrank

/-- the same for `Strain(system, neighbors, basesystem, baseneighbors).G[i]`. -/
theorem strainG_homogeneous (mag : V3 K → K) (cosMax big : K) (c0 c1 : Cell K) (pos0 pos1 : Nat → V3 K)
    (nbrs0 nbrs1 : List Nat) (i : Nat) (ks : List Nat) (F : M3 K) (hF : M3.det F ≠ 0)
    (hlen : nbrs1.length = ks.length)
    (hbest : ∀ e ∈ (nbrVectors c1 pos1 nbrs1 i).zip ks, IsBest mag cosMax (nbrVectors c0 pos0 nbrs0 i) e.1 e.2)
    (hnd : ks.Nodup)
    (hq : ∀ e ∈ (nbrVectors c1 pos1 nbrs1 i).zip ks, ∀ p, (nbrVectors c0 pos0 nbrs0 i)[e.2]? = some p →
      e.1 = M3.mulVec F p)
    (hne : nbrs1 ≠ [])
    (hrank : M3.det (qtqV (nbrVectors c1 pos1 nbrs1 i)) ≠ 0) :
    strainG mag cosMax big c0 c1 pos0 pos1 nbrs0 nbrs1 i = M3.inv F.transpose := by
  unfold strainG
  apply solveG_homogeneous mag cosMax big _ _ ks F hF _ hbest hnd hq _ hrank
  · simpa [nbrVectors] using hlen
  · simpa [nbrVectors] using hne

/-! ### the pairing loop with competing current vectors (any number of them: no hypothesis on `ps`, `qs`) -/

/-- **matchPQ_one_q_per_p.**  After the double loop of `match_pq` no reference vector is paired with two current
    vectors — for arbitrary lists, however many `q` chose the same `p` (current neighbour list with more shells than
    the reference set, `theta_max` larger than the angle between shells). -/
theorem matchPQ_one_q_per_p (mag : V3 K → K) (cosMax big : K) (ps qs : List (V3 K)) :
    ((qpPairs mag cosMax big ps qs).filterMap (·.2)).Nodup ∧
    (qpPairs mag cosMax big ps qs).map (·.1) = qs ∧
    ∀ e ∈ qpPairs mag cosMax big ps qs, e.2 = none ∨ e.2 = bestP mag cosMax e.1 ps :=
  let h := qpPairs_inv mag cosMax big ps qs
  ⟨h.nodup, h.keys, h.vals⟩

/-- **matchPQ_winner_closest.**  The `q` a reference vector `ps[a]` ends up paired with chose it (it is its best match
    inside `θ_max`) and is at least as close to the first-shell radius `r1` as every other `q` that chose `ps[a]`. -/
theorem matchPQ_winner_closest (mag : V3 K → K) (cosMax big : K) (ps qs : List (V3 K))
    (e : V3 K × Option Nat) (he : e ∈ qpPairs mag cosMax big ps qs) (a : Nat) (ha : e.2 = some a) :
    bestP mag cosMax e.1 ps = some a ∧
    ∀ q' ∈ qs, bestP mag cosMax q' ps = some a →
      rad mag (shortest mag big ps) e.1 ≤ rad mag (shortest mag big ps) q' := by
  have h := qpPairs_inv mag cosMax big ps qs
  refine ⟨?_, ?_⟩
  · rcases h.vals e he with h1 | h1
    · rw [h1] at ha; exact absurd ha (by simp)
    · rw [← h1, ha]
  · intro q' hq' hb
    obtain ⟨e', he', hea', hr⟩ := h.best a q' hq' hb
    have : e' = e := holder_unique _ h.nodup a e' e he' he hea' ha
    rw [this] at hr
    exact hr

/-- **matchPQ_claimed_p_paired.**  A reference vector that is the best match of at least one `q` does not stay
    unpaired (the conflict resolution removes all competitors but one, never all of them). -/
theorem matchPQ_claimed_p_paired (mag : V3 K → K) (cosMax big : K) (ps qs : List (V3 K)) (a : Nat)
    (h : ∃ q' ∈ qs, bestP mag cosMax q' ps = some a) :
    ∃ e ∈ qpPairs mag cosMax big ps qs, e.2 = some a := by
  obtain ⟨q', hq', hb⟩ := h
  obtain ⟨e, he, hea, _⟩ := (qpPairs_inv mag cosMax big ps qs).best a q' hq' hb
  exact ⟨e, he, hea⟩

/-- **solveG_homogeneous_competing.**  `G = F⁻ᵀ` through the real pairing loop WITHOUT the hypothesis that distinct
    `q` pick distinct `p`: call a current vector *true* (`good`) when it is the image `F p` of its best reference
    vector.  If every other current vector that finds a reference vector inside `θ_max` competes for it with a true
    vector strictly closer to the first-shell radius, then all surviving pairs are true pairs and `lstsq` (full rank)
    returns `F⁻ᵀ` — whatever the number of competitors per reference vector. -/
theorem solveG_homogeneous_competing (mag : V3 K → K) (cosMax big : K) (ps qs : List (V3 K))
    (F : M3 K) (hF : M3.det F ≠ 0) (good : V3 K → Prop)
    (hgood : ∀ q ∈ qs, good q → ∀ a p, bestP mag cosMax q ps = some a → ps[a]? = some p → q = M3.mulVec F p)
    (hextra : ∀ q ∈ qs, ¬ good q → ∀ a, bestP mag cosMax q ps = some a →
      ∃ t ∈ qs, good t ∧ bestP mag cosMax t ps = some a ∧
        rad mag (shortest mag big ps) t < rad mag (shortest mag big ps) q)
    (hne : matchPQ mag cosMax big ps qs ≠ [])
    (hrank : M3.det (qtq (matchPQ mag cosMax big ps qs)) ≠ 0) :
    solveG mag cosMax big ps qs = M3.inv F.transpose := by
  have hinv := qpPairs_inv mag cosMax big ps qs
  have hne' : (matchPQ mag cosMax big ps qs).isEmpty = false := by
    cases hm : matchPQ mag cosMax big ps qs with
    | nil => exact absurd hm hne
    | cons a l => rfl
  unfold solveG
  simp only [hne', Bool.false_eq_true, if_false]
  apply G_homogeneous F hF _ _ hrank
  intro pr hpr
  unfold matchPQ at hpr
  obtain ⟨e, he, hm⟩ := List.mem_filterMap.mp hpr
  cases ha : e.2 with
  | none => simp [ha] at hm
  | some a =>
    simp only [ha] at hm
    cases hp : ps[a]? with
    | none => simp [hp] at hm
    | some p =>
      simp only [hp, Option.map_some, Option.some.injEq] at hm
      rw [← hm]
      simp only
      obtain ⟨hb, hw⟩ := matchPQ_winner_closest mag cosMax big ps qs e he a ha
      have heq : e.1 ∈ qs := by
        have := hinv.keys
        rw [← this]
        exact List.mem_map_of_mem he
      by_cases hg : good e.1
      · exact hgood e.1 heq hg a p hb hp
      · obtain ⟨t, ht, _, htb, hlt⟩ := hextra e.1 heq hg a hb
        exact absurd (hw t ht htb) (not_le.mpr hlt)

/-- congruence only (kept for reference; carries no content of its own). -/
theorem measures_congr (G F : M3 K) (h : G = M3.inv F.transpose) :
    strain G = strain (M3.inv F.transpose) ∧ rotation G = rotation (M3.inv F.transpose) ∧
    invariant1 (strain G) = invariant1 (strain (M3.inv F.transpose)) ∧
    invariant2 (strain G) = invariant2 (strain (M3.inv F.transpose)) ∧
    invariant3 (strain G) = invariant3 (strain (M3.inv F.transpose)) ∧
    angularVelocitySq (rotation G) = angularVelocitySq (rotation (M3.inv F.transpose)) := by
  subst h; exact ⟨rfl, rfl, rfl, rfl, rfl, rfl⟩

/-! ### what the strain measures are -/

/-- the strain is the symmetric part ... -/
theorem strain_symm (G : M3 K) : (strain G).transpose = strain G := by
  ext <;> simp [strain, M3.transpose, M3.row, V3.get, M3.one, half] <;> ring

/-- ... the rotation the antisymmetric part ... -/
theorem rotation_antisymm (G : M3 K) : (rotation G).transpose = subM zeroM (rotation G) := by
  ext <;> simp [rotation, M3.transpose, M3.row, V3.get, M3.one, half, subM, zeroM, zero3] <;> ring

/-- ... of `I - G`. -/
theorem strain_add_rotation (G : M3 K) : addM (strain G) (rotation G) = subM M3.one G := by
  ext <;> simp [strain, rotation, addM, subM, M3.row, V3.get, M3.one, half] <;> ring

/-- ... hence strain, rotation and the invariants the code derives from the tensor IT COMPUTES at such an atom
    (`strainG`: neighbour vectors, pairing, least squares) are those of `F⁻ᵀ`, and they split `1 - F⁻ᵀ` into its
    symmetric and antisymmetric part.  (Statement audit: the earlier form took `G = F⁻ᵀ` as a hypothesis and was a
    congruence, true of any six functions; it is `measures_congr` above.) -/
theorem measures_homogeneous (mag : V3 K → K) (cosMax big : K) (c0 c1 : Cell K) (pos0 pos1 : Nat → V3 K)
    (nbrs0 nbrs1 : List Nat) (i : Nat) (ks : List Nat) (F : M3 K) (hF : M3.det F ≠ 0)
    (hlen : nbrs1.length = ks.length)
    (hbest : ∀ e ∈ (nbrVectors c1 pos1 nbrs1 i).zip ks, IsBest mag cosMax (nbrVectors c0 pos0 nbrs0 i) e.1 e.2)
    (hnd : ks.Nodup)
    (hq : ∀ e ∈ (nbrVectors c1 pos1 nbrs1 i).zip ks, ∀ p, (nbrVectors c0 pos0 nbrs0 i)[e.2]? = some p →
      e.1 = M3.mulVec F p)
    (hne : nbrs1 ≠ [])
    (hrank : M3.det (qtqV (nbrVectors c1 pos1 nbrs1 i)) ≠ 0) :
    strain (strainG mag cosMax big c0 c1 pos0 pos1 nbrs0 nbrs1 i) = strain (M3.inv F.transpose) ∧
    rotation (strainG mag cosMax big c0 c1 pos0 pos1 nbrs0 nbrs1 i) = rotation (M3.inv F.transpose) ∧
    invariant1 (strain (strainG mag cosMax big c0 c1 pos0 pos1 nbrs0 nbrs1 i))
      = invariant1 (strain (M3.inv F.transpose)) ∧
    invariant2 (strain (strainG mag cosMax big c0 c1 pos0 pos1 nbrs0 nbrs1 i))
      = invariant2 (strain (M3.inv F.transpose)) ∧
    invariant3 (strain (strainG mag cosMax big c0 c1 pos0 pos1 nbrs0 nbrs1 i))
      = invariant3 (strain (M3.inv F.transpose)) ∧
    angularVelocitySq (rotation (strainG mag cosMax big c0 c1 pos0 pos1 nbrs0 nbrs1 i))
      = angularVelocitySq (rotation (M3.inv F.transpose)) ∧
    (strain (M3.inv F.transpose)).transpose = strain (M3.inv F.transpose) ∧
    (rotation (M3.inv F.transpose)).transpose = subM zeroM (rotation (M3.inv F.transpose)) ∧
    addM (strain (M3.inv F.transpose)) (rotation (M3.inv F.transpose)) = subM M3.one (M3.inv F.transpose) := by
  have h := strainG_homogeneous mag cosMax big c0 c1 pos0 pos1 nbrs0 nbrs1 i ks F hF hlen hbest hnd hq hne hrank
  rw [h]
  exact ⟨rfl, rfl, rfl, rfl, rfl, rfl, strain_symm _, rotation_antisymm _, strain_add_rotation _⟩

/-- no deformation (`F = I`, `G = I`): zero strain and rotation. -/
theorem strain_one : strain (M3.one : M3 K) = zeroM ∧ rotation (M3.one : M3 K) = zeroM := by
  constructor <;> ext <;> simp [strain, rotation, M3.row, V3.get, M3.one, half, zeroM, zero3]

/-- the three invariants are the coefficients of the characteristic polynomial `det (ε - λ I)`. -/
theorem invariants_charpoly (s : M3 K) (l : K) :
    M3.det (subM s ⟨⟨l, 0, 0⟩, ⟨0, l, 0⟩, ⟨0, 0, l⟩⟩)
      = -l ^ 3 + invariant1 s * l ^ 2 - invariant2 s * l + invariant3 s := by
  simp only [M3.det, V3.dot, V3.cross, subM, sub_x, sub_y, sub_z, invariant1, invariant2, invariant3]; ring

/-! ### constant `G` ⇒ zero Nye tensor -/

/-- **nye_zero.**  If `G` takes the same value on atom `i` and on all its neighbours (homogeneous deformation), every
    right-hand side `G[j] - G[i]` of the gradient fit vanishes and so does the Nye tensor — whatever the neighbour
    vectors are. -/
theorem nye_zero (c : Cell K) (pos : Nat → V3 K) (G : Nat → M3 K) (nbrs : List Nat) (i : Nat)
    (hG : ∀ j ∈ nbrs, G j = G i) : nye c pos G nbrs i = zeroM := by
  have hz : ∀ (f : M3 K → V3 K), f zeroM = zero3 →
      ∀ e ∈ ((nbrs.map fun j => subM (G j) (G i)).map f).zip (nbrVectors c pos nbrs i), e.1 = zero3 := by
    intro f hf e he
    have := (List.of_mem_zip he).1
    simp only [List.mem_map] at this
    obtain ⟨m, ⟨j, hj, rfl⟩, h2⟩ := this
    rw [← h2, hG j hj, subM_self, hf]
  unfold nye gradG
  rw [solveNormal_zero _ (hz (·.r0) rfl), solveNormal_zero _ (hz (·.r1) rfl), solveNormal_zero _ (hz (·.r2) rfl)]
  exact nyeOf_zero

/-! ### joint translation, consistent renumbering -/

/-- **translation_invariant.**  Adding the same vector `t` to every position of both systems (cell vectors
    unchanged; the box origin never enters) changes none of: displacement, slip vector, differential displacement,
    the neighbour vectors `p`/`q` and hence `G`, the Nye tensor. -/
theorem translation_invariant (c0 c1 : Cell K) (pos0 pos1 : Nat → V3 K) (t : V3 K) (nbrs nbrs1 : List Nat) (i j : Nat)
    (mag : V3 K → K) (cosMax big : K) :
    displacement c1 (fun k => pos0 k + t) (fun k => pos1 k + t) i = displacement c1 pos0 pos1 i ∧
    slipVector c0 (fun k => pos0 k + t) (fun k => pos1 k + t) nbrs i = slipVector c0 pos0 pos1 nbrs i ∧
    ddvector c0 c1 (fun k => pos0 k + t) (fun k => pos1 k + t) i j = ddvector c0 c1 pos0 pos1 i j ∧
    strainG mag cosMax big c0 c1 (fun k => pos0 k + t) (fun k => pos1 k + t) nbrs nbrs1 i
      = strainG mag cosMax big c0 c1 pos0 pos1 nbrs nbrs1 i ∧
    (∀ G : Nat → M3 K, nye c1 (fun k => pos1 k + t) G nbrs1 i = nye c1 pos1 G nbrs1 i) := by
  have hn : ∀ (c : Cell K) (pos : Nat → V3 K) (l : List Nat),
      nbrVectors c (fun k => pos k + t) l i = nbrVectors c pos l i := by
    intro c pos l; simp only [nbrVectors, dv_translate]
  refine ⟨?_, ?_, ?_, ?_, ?_⟩
  · simp only [displacement, dv_translate]
  · unfold slipVector
    apply foldl_congr_mem
    intro b a _
    simp only [slipStep, dv_translate]
  · simp only [ddvector, dv_translate]
  · simp only [strainG, hn]
  · intro G; simp only [nye, hn]

/-- **permutation_equivariant.**  Renumber the atoms of both systems by `σ` (positions, neighbour lists and the
    per-atom tensor field carried along): every per-atom result is carried along with its atom. -/
theorem permutation_equivariant (c0 c1 : Cell K) (pos0 pos1 pos0' pos1' : Nat → V3 K) (σ : Nat → Nat)
    (h0 : ∀ k, pos0' (σ k) = pos0 k) (h1 : ∀ k, pos1' (σ k) = pos1 k)
    (nbrs nbrs1 : List Nat) (i j : Nat) (mag : V3 K → K) (cosMax big : K) :
    displacement c1 pos0' pos1' (σ i) = displacement c1 pos0 pos1 i ∧
    slipVector c0 pos0' pos1' (nbrs.map σ) (σ i) = slipVector c0 pos0 pos1 nbrs i ∧
    ddvector c0 c1 pos0' pos1' (σ i) (σ j) = ddvector c0 c1 pos0 pos1 i j ∧
    strainG mag cosMax big c0 c1 pos0' pos1' (nbrs.map σ) (nbrs1.map σ) (σ i)
      = strainG mag cosMax big c0 c1 pos0 pos1 nbrs nbrs1 i ∧
    (∀ G G' : Nat → M3 K, (∀ k, G' (σ k) = G k) →
      nye c1 pos1' G' (nbrs1.map σ) (σ i) = nye c1 pos1 G nbrs1 i) := by
  have hn : ∀ (c : Cell K) (pos pos' : Nat → V3 K), (∀ k, pos' (σ k) = pos k) → ∀ (l : List Nat),
      nbrVectors c pos' (l.map σ) (σ i) = nbrVectors c pos l i := by
    intro c pos pos' h l; simp only [nbrVectors, List.map_map, Function.comp_def, h]
  refine ⟨?_, ?_, ?_, ?_, ?_⟩
  · simp only [displacement, h0, h1]
  · unfold slipVector
    rw [foldl_map']
    apply foldl_congr_mem
    intro b a _
    simp only [slipStep, h0, h1]
  · simp only [ddvector, h0, h1]
  · simp only [strainG, hn c0 pos0 pos0' h0, hn c1 pos1 pos1' h1]
  · intro G G' hG
    simp only [nye, hn c1 pos1 pos1' h1, List.map_map, Function.comp_def, hG]

/-! ### neighbour vectors of a homogeneously deformed crystal (positions and box) -/

/-- **dv_homogeneous.**  Positions and box deformed by the same `F` (`x ↦ F x`, box vectors `v ↦ F v`): if the image `s`
    that `dvect` selects in the reference is still the strict minimum among the deformed candidates, the periodic
    separation of the deformed pair is `F` times the reference separation — the `q = F p` hypothesis of
    `strainG_homogeneous`, the displacement `(F - I) d` and the differential displacement `(F - I) d_ij`. -/
theorem dv_homogeneous (F V : M3 K) (px py pz : Bool) (p0 p1 : V3 K) (s : Shift)
    (hs : s ∈ cands px py pz)
    (hmin0 : ∀ t ∈ cands px py pz, shiftBy V (p1 - p0) t = shiftBy V (p1 - p0) s ∨
      V3.normSq (shiftBy V (p1 - p0) s) < V3.normSq (shiftBy V (p1 - p0) t))
    (hmin1 : ∀ t ∈ cands px py pz,
      M3.mulVec F (shiftBy V (p1 - p0) t) = M3.mulVec F (shiftBy V (p1 - p0) s) ∨
      V3.normSq (M3.mulVec F (shiftBy V (p1 - p0) s)) < V3.normSq (M3.mulVec F (shiftBy V (p1 - p0) t))) :
    dvect (M3.mul V F.transpose) px py pz (M3.mulVec F p0) (M3.mulVec F p1)
      = M3.mulVec F (dvect V px py pz p0 p1) := by
  rw [dvect_eq_of_strict_min V px py pz p0 p1 s hs hmin0,
    dvect_eq_of_strict_min (M3.mul V F.transpose) px py pz _ _ s hs, shiftBy_deformed]
  intro t ht
  rw [shiftBy_deformed, shiftBy_deformed]
  exact hmin1 t ht

/-- the differential displacement of a neighbour pair under a homogeneous deformation of positions and box is
    `F d_ij - d_ij`, the difference `(F - I) x_j - (F - I) x_i` of the imposed displacements through the boundaries. -/
theorem dd_homogeneous (F : M3 K) (c0 : Cell K) (pos0 : Nat → V3 K) (i j : Nat) (s : Shift)
    (hs : s ∈ cands c0.px c0.py c0.pz)
    (hmin0 : ∀ t ∈ cands c0.px c0.py c0.pz,
      shiftBy c0.vects (pos0 j - pos0 i) t = shiftBy c0.vects (pos0 j - pos0 i) s ∨
      V3.normSq (shiftBy c0.vects (pos0 j - pos0 i) s) < V3.normSq (shiftBy c0.vects (pos0 j - pos0 i) t))
    (hmin1 : ∀ t ∈ cands c0.px c0.py c0.pz,
      M3.mulVec F (shiftBy c0.vects (pos0 j - pos0 i) t) = M3.mulVec F (shiftBy c0.vects (pos0 j - pos0 i) s) ∨
      V3.normSq (M3.mulVec F (shiftBy c0.vects (pos0 j - pos0 i) s))
        < V3.normSq (M3.mulVec F (shiftBy c0.vects (pos0 j - pos0 i) t))) :
    ddvector c0 ⟨M3.mul c0.vects F.transpose, c0.px, c0.py, c0.pz⟩ pos0 (fun k => M3.mulVec F (pos0 k)) i j
      = M3.mulVec F (c0.dv (pos0 i) (pos0 j)) - c0.dv (pos0 i) (pos0 j) := by
  unfold ddvector Cell.dv
  simp only
  rw [dv_homogeneous F c0.vects c0.px c0.py c0.pz (pos0 i) (pos0 j) s hs hmin0 hmin1]


/-! ### the undeformed crystal: pairing hypothesis proved from geometry -/

/-- **solveG_undeformed.**  No deformation (`q = p`, the identity is a homogeneous deformation) — here the pairing
    hypothesis is *proved*, from geometry alone: `mag` is a positive square root of the squared length, `cos θ_max < 1`
    and no two reference neighbour vectors point in the same direction (`p_j · p_k < |p_j| |p_k|`, strict
    Cauchy–Schwarz).  Then every `q` picks its own `p`, nothing is discarded and `G = I`. -/
theorem solveG_undeformed (mag : V3 K → K) (cosMax big : K) (ps : List (V3 K))
    (hc : cosMax < 1)
    (hmag : ∀ p ∈ ps, 0 < mag p ∧ mag p * mag p = V3.normSq p)
    (hsep : ps.Pairwise (fun a b => V3.dot a b < mag a * mag b))
    (hne : ps ≠ [])
    (hrank : M3.det (qtqV ps) ≠ 0) :
    solveG mag cosMax big ps ps = M3.one := by
  have hdet : M3.det (M3.one : M3 K) ≠ 0 := by simp [M3.det, M3.one, V3.dot, V3.cross]
  have hI : M3.inv (M3.one : M3 K).transpose = M3.one := by
    ext <;> simp [M3.inv, M3.transpose, M3.one, M3.det, V3.dot, V3.cross]
  rw [← hI]
  apply solveG_homogeneous mag cosMax big ps ps (List.range ps.length) M3.one hdet (by simp) ?_ List.nodup_range ?_ hne hrank
  · intro e he
    rw [List.range_eq_range'] at he
    obtain ⟨pre, post, h1, h2⟩ := mem_zip_range ps 0 e he
    refine ⟨pre, e.1, post, h1, by omega, ?_, ?_, ?_⟩
    · have := hmag e.1 (by rw [h1]; simp)
      rw [cosTheta_self mag e.1 this.1 this.2]; exact hc
    all_goals
      have hm := hmag e.1 (by rw [h1]; simp)
      rw [h1] at hsep
      have hs := List.pairwise_append.mp hsep
    · intro p hp
      rw [cosTheta_self mag e.1 hm.1 hm.2]
      have hpm := hmag p (by rw [h1]; simp [hp])
      apply cosTheta_lt_one mag e.1 p hm.1 hpm.1
      have := hs.2.2 p hp e.1 List.mem_cons_self
      rw [dot_comm', mul_comm]; exact this
    · intro p hp
      rw [cosTheta_self mag e.1 hm.1 hm.2]
      have hpm := hmag p (by rw [h1]; simp [hp])
      apply le_of_lt
      apply cosTheta_lt_one mag e.1 p hm.1 hpm.1
      exact (List.pairwise_cons.mp hs.2.1).1 p hp
  · intro e he p hp
    rw [List.range_eq_range'] at he
    obtain ⟨pre, post, h1, h2⟩ := mem_zip_range ps 0 e he
    have : ps[e.2]? = some e.1 := by
      rw [h1]; have : e.2 = pre.length := by omega
      rw [this]; simp
    rw [this] at hp
    simp only [Option.some.injEq] at hp
    rw [← hp, one_mulVec]

/-- ... so `Strain` of a system compared with itself gives `G = I`, zero strain and zero rotation at every atom with
    full-rank neighbour vectors. -/
theorem strainG_undeformed (mag : V3 K → K) (cosMax big : K) (c : Cell K) (pos : Nat → V3 K) (nbrs : List Nat) (i : Nat)
    (hc : cosMax < 1)
    (hmag : ∀ p ∈ nbrVectors c pos nbrs i, 0 < mag p ∧ mag p * mag p = V3.normSq p)
    (hsep : (nbrVectors c pos nbrs i).Pairwise (fun a b => V3.dot a b < mag a * mag b))
    (hne : nbrs ≠ [])
    (hrank : M3.det (qtqV (nbrVectors c pos nbrs i)) ≠ 0) :
    strainG mag cosMax big c c pos pos nbrs nbrs i = M3.one ∧
    strain (strainG mag cosMax big c c pos pos nbrs nbrs i) = zeroM ∧
    rotation (strainG mag cosMax big c c pos pos nbrs nbrs i) = zeroM := by
  have h : strainG mag cosMax big c c pos pos nbrs nbrs i = M3.one := by
    unfold strainG
    exact solveG_undeformed mag cosMax big _ hc hmag hsep (by simpa [nbrVectors] using hne) hrank
  rw [h]
  exact ⟨rfl, strain_one.1, strain_one.2⟩


/-- **solveG_undeformed_extra_shells.**  The undeformed crystal analysed with a current neighbour list that holds MORE
    than the reference set (further shells): every reference vector occurs among the current ones, every other current
    vector is longer than every reference vector.  Here the hypotheses of `solveG_homogeneous_competing` are *proved*
    from geometry (`cos θ_max < 1`, positive square root, no two reference vectors parallel): each reference vector is
    its own best match, and a farther-shell vector that finds a reference vector inside `θ_max` — however many of them
    do — loses it to that vector itself, which is closer to `r1`.  Hence `G = I` for every `θ_max`. -/
theorem solveG_undeformed_extra_shells (mag : V3 K → K) (cosMax big : K) (ps qs : List (V3 K))
    (hc : cosMax < 1)
    (hmag : ∀ p ∈ ps, 0 < mag p ∧ mag p * mag p = V3.normSq p)
    (hsep : ps.Pairwise (fun a b => V3.dot a b < mag a * mag b))
    (hsub : ∀ p ∈ ps, p ∈ qs)
    (hext : ∀ q ∈ qs, q ∉ ps → ∀ p ∈ ps, mag p < mag q)
    (hne : matchPQ mag cosMax big ps qs ≠ [])
    (hrank : M3.det (qtq (matchPQ mag cosMax big ps qs)) ≠ 0) :
    solveG mag cosMax big ps qs = M3.one := by
  have hdet : M3.det (M3.one : M3 K) ≠ 0 := by simp [M3.det, M3.one, V3.dot, V3.cross]
  have hI : M3.inv (M3.one : M3 K).transpose = M3.one := by
    ext <;> simp [M3.inv, M3.transpose, M3.one, M3.det, V3.dot, V3.cross]
  rw [← hI]
  -- a reference vector at position `a` is its own best match
  have hself : ∀ a (ha : a < ps.length), bestP mag cosMax ps[a] ps = some a := by
    intro a ha
    have hdec : ps = ps.take a ++ ps[a] :: ps.drop (a + 1) := by
      rw [List.getElem_cons_drop, List.take_append_drop]
    have hlen : (ps.take a).length = a := by simp [List.length_take]; omega
    have := bestP_self mag cosMax (ps.take a) (ps.drop (a + 1)) ps[a] hc (by rw [← hdec]; exact hmag)
      (by rw [← hdec]; exact hsep)
    rw [← hdec, hlen] at this
    exact this
  apply solveG_homogeneous_competing mag cosMax big ps qs M3.one hdet (fun q => q ∈ ps) ?_ ?_ hne hrank
  · intro q _ hg a p hb hp
    rw [one_mulVec]
    obtain ⟨k, hk, rfl⟩ := List.getElem_of_mem hg
    have := hself k hk
    rw [this] at hb
    have hka : k = a := Option.some.inj hb
    subst hka
    rw [List.getElem?_eq_getElem hk] at hp
    exact Option.some.inj hp
  · intro q hq hg a hb
    have ha := bestP_lt mag cosMax q ps a hb
    refine ⟨ps[a], hsub _ (List.getElem_mem ha), List.getElem_mem ha, hself a ha, ?_⟩
    apply rad_lt_of_longer
    · exact (shortest_le mag ps big).2 _ (List.getElem_mem ha)
    · exact hext q hq hg _ (List.getElem_mem ha)

/-! ### the whole `ddvectors` array; the `numpy.unique` / `numpy.interp` models -/

/-- **ddvectors_are_differences.**  The whole array `DifferentialDisplacement.ddvectors` (atoms ascending, neighbours in
    list order): if no pair of the neighbour list flips its image, entry `(i, j)` is `u_j - u_i`. -/
theorem ddvectors_are_differences (c : Cell K) (pos0 u : Nat → V3 K) (nlist : List (List Nat))
    (hst : ∀ i nbrs, nlist[i]? = some nbrs → ∀ j ∈ nbrs,
      c.dv (pos0 i + u i) (pos0 j + u j) = c.dv (pos0 i) (pos0 j) + (u j - u i)) :
    ddvectors c c pos0 (fun k => pos0 k + u k) nlist
      = (nlist.zipIdx).flatMap fun (e : List Nat × Nat) => e.1.map fun j => u j - u e.2 := by
  unfold ddvectors
  rw [List.flatMap_def, List.flatMap_def]
  congr 1
  apply List.map_congr_left
  intro e he
  have hi := List.mem_zipIdx_iff_getElem?.mp he
  apply List.map_congr_left
  intro j hj
  exact dd_of_stable c c pos0 _ e.2 j _ (hst e.2 e.1 hi j hj)

/-- **unique_spec.**  The model of `numpy.unique` returns the distinct values in strictly increasing order. -/
theorem unique_spec (l : List K) : (unique l).Pairwise (· < ·) ∧ ∀ x, x ∈ unique l ↔ x ∈ l :=
  ⟨strict_dedupSorted _ (sorted_sortK l),
   fun x => ⟨unique_subset l x, fun h => mem_dedupSorted x _ ((mem_sortK x l).mpr h)⟩⟩

/-- `numpy.interp` returns the tabulated value at a knot of a strictly increasing grid. -/
theorem interp_at_knot : ∀ (pts : List (K × K)), (pts.map (·.1)).Pairwise (· < ·) → ∀ p ∈ pts, interp pts p.1 = p.2
  | [], _, p, hp => by simp at hp
  | [(x0, f0)], _, p, hp => by
    simp only [List.mem_singleton] at hp; rw [hp]; simp [interp]
  | (x0, f0) :: (x1, f1) :: rest, h, p, hp => by
    simp only [List.map_cons] at h
    have h0 := List.pairwise_cons.mp h
    simp only [interp]
    rcases List.mem_cons.mp hp with rfl | hp
    · have : x0 < x1 := h0.1 x1 List.mem_cons_self
      simp [this]
    · have hge : ¬ p.1 < x1 := by
        rcases List.mem_cons.mp hp with rfl | hp
        · simp
        · have := (List.pairwise_cons.mp h0.2).1 p.1 (List.mem_map.mpr ⟨p, hp, rfl⟩)
          exact not_lt.mpr (le_of_lt this)
      rw [if_neg hge]
      exact interp_at_knot ((x1, f1) :: rest) h0.2 p hp

/-! ### non-vacuity: concrete instances (over ℚ) satisfying the hypotheses, with the conclusions evaluated -/

def exV : M3 ℚ := ⟨⟨4, 0, 0⟩, ⟨0, 4, 0⟩, ⟨0, 0, 4⟩⟩
def exCell : Cell ℚ := ⟨exV, true, true, true⟩

/-- hypotheses of `image_stable` / `dd_is_difference` (a pair through the periodic boundary, `s = (-1,0,0)`) and the
    conclusion evaluated. -/
example :
    let p0 : V3 ℚ := ⟨0, 0, 0⟩; let p1 : V3 ℚ := ⟨7/2, 0, 0⟩
    let u0 : V3 ℚ := ⟨0, 1/8, 0⟩; let u1 : V3 ℚ := ⟨1/4, 0, -1/8⟩
    let s : Shift := (-1, 0, 0)
    s ∈ cands true true true ∧
    (∀ t ∈ cands true true true, t = s ∨
      2 * |V3.dot (u1 - u0) (shiftBy exV (p1 - p0) t - shiftBy exV (p1 - p0) s)|
        < V3.normSq (shiftBy exV (p1 - p0) t) - V3.normSq (shiftBy exV (p1 - p0) s)) ∧
    dvect exV true true true p0 p1 = ⟨-1/2, 0, 0⟩ ∧
    dvect exV true true true (p0 + u0) (p1 + u1) = ⟨-1/4, -1/8, -1/8⟩ := by
  decide +kernel

/-- hypotheses of `image_stable_margin` with `δ = 8`. -/
example :
    let p0 : V3 ℚ := ⟨0, 0, 0⟩; let p1 : V3 ℚ := ⟨7/2, 0, 0⟩
    let u0 : V3 ℚ := ⟨0, 1/8, 0⟩; let u1 : V3 ℚ := ⟨1/4, 0, -1/8⟩
    let s : Shift := (-1, 0, 0)
    ∀ t ∈ cands true true true, t = s ∨
      ((8 : ℚ) ≤ V3.normSq (shiftBy exV (p1 - p0) t) - V3.normSq (shiftBy exV (p1 - p0) s) ∧
       4 * V3.normSq (u1 - u0) * V3.normSq (shiftBy exV (p1 - p0) t - shiftBy exV (p1 - p0) s) < (8 : ℚ) ^ 2) := by
  decide +kernel

/-- hypotheses of `displacement_is_imposed`: the atom is moved by `u` and then by a box vector. -/
example :
    let pos0 : Nat → V3 ℚ := fun _ => ⟨1/2, 1, 1⟩
    let pos1 : Nat → V3 ℚ := fun _ => ⟨1/2 - 1 + 4, 1 + 1/4, 1⟩
    let u : V3 ℚ := ⟨-1, 1/4, 0⟩
    let s : Shift := (-1, 0, 0)
    s ∈ cands exCell.px exCell.py exCell.pz ∧ shiftBy exCell.vects (pos1 0 - pos0 0) s = u ∧
    (∀ t ∈ cands exCell.px exCell.py exCell.pz, shiftBy exCell.vects (pos1 0 - pos0 0) t = u ∨
      V3.normSq u < V3.normSq (shiftBy exCell.vects (pos1 0 - pos0 0) t)) ∧
    displacement exCell pos0 pos1 0 = u := by
  decide +kernel

/-- a chain of four atoms along x in the 4-periodic cell, slip plane between atoms 1 and 2 (and, through the
    boundary, between 3 and 0); the upper half `{2,3}` is displaced by `uA`. -/
def exPos0 : Nat → V3 ℚ
  | 0 => ⟨1/2, 1, 1⟩ | 1 => ⟨3/2, 1, 1⟩ | 2 => ⟨5/2, 1, 1⟩ | _ => ⟨7/2, 1, 1⟩
def exSide : Nat → Bool := fun k => decide (2 ≤ k)
def exUA : V3 ℚ := ⟨0, 1/4, -1/8⟩
def exUB : V3 ℚ := ⟨0, 0, 1/8⟩
def exSh : Nat → Shift := fun j => if j = 3 then (-1, 0, 0) else (0, 0, 0)

/-- hypotheses of `slip_rigid_of_stable` (hence of `slip_rigid`) for atoms 0 (neighbour 3 across, through the
    boundary) and 1 (neighbour 2 across), of `slip_zero_away` for an atom whose listed neighbours are on its side;
    the conclusions evaluated. -/
example :
    (∀ i ∈ [0, 1], ∀ j ∈ (if i = 0 then [3, 1] else [0, 2]), exSh j ∈ cands true true true ∧
      ∀ t ∈ cands true true true, t = exSh j ∨
        2 * |V3.dot (twoValued exSide exUA exUB j - twoValued exSide exUA exUB i)
              (shiftBy exV (exPos0 j - exPos0 i) t - shiftBy exV (exPos0 j - exPos0 i) (exSh j))|
          < V3.normSq (shiftBy exV (exPos0 j - exPos0 i) t) - V3.normSq (shiftBy exV (exPos0 j - exPos0 i) (exSh j))) ∧
    slipVector exCell exPos0 (fun k => exPos0 k + twoValued exSide exUA exUB k) [3, 1] 0 = ⟨0, -1/4, 1/4⟩ ∧
    slipVector exCell exPos0 (fun k => exPos0 k + twoValued exSide exUA exUB k) [0, 2] 1 = ⟨0, -1/4, 1/4⟩ ∧
    slipVector exCell exPos0 (fun k => exPos0 k + twoValued exSide exUA exUB k) [1, 3] 2 = ⟨0, 1/4, -1/4⟩ ∧
    ([0].countP (fun j => exSide j != exSide 1) = 0 ∧
      slipVector exCell exPos0 (fun k => exPos0 k + twoValued exSide exUA exUB k) [0] 1 = zero3) := by
  decide +kernel

/-- hypotheses of `disregistry_rigid_full`: two planes of two columns; the profile exists and is the slip. -/
example :
    let uA : V3 ℚ := ⟨1/4, 0, 1/8⟩; let uB : V3 ℚ := ⟨0, 0, -1/8⟩
    let atoms : List (ℚ × ℚ × V3 ℚ) := [(0, 0, uB), (2, 0, uB), (1, 1, uA), (3, 1, uA), (1, 2, uA), (0, -1, uB)]
    disregistry (1/100000000) (1/100000) atoms (1/2)
      = some [(0, uA - uB), (1, uA - uB), (2, uA - uB), (3, uA - uB)] ∧
    (∀ a ∈ atoms, (1/2 < a.2.1 → a.2.2 = uA) ∧ (a.2.1 < 1/2 → a.2.2 = uB)) := by
  decide +kernel

/-- hypotheses of `G_homogeneous`: a simple shear plus stretch, four matched neighbour vectors. -/
example :
    let F : M3 ℚ := ⟨⟨1, 1/10, 0⟩, ⟨0, 21/20, 0⟩, ⟨1/50, 0, 1⟩⟩
    let ps : List (V3 ℚ) := [⟨1, 0, 0⟩, ⟨0, 1, 0⟩, ⟨0, 0, 1⟩, ⟨1, 1, 0⟩]
    let pairs := ps.map fun p => (p, M3.mulVec F p)
    M3.det F ≠ 0 ∧ M3.det (qtq pairs) ≠ 0 ∧ (∀ e ∈ pairs, e.2 = M3.mulVec F e.1) ∧
    solveNormal pairs = M3.inv F.transpose ∧ M3.inv F.transpose ≠ M3.one ∧
    M3.mul F.transpose (solveNormal pairs) = M3.one := by
  decide +kernel

/-- hypothesis of `invT_of_rotation`: the 3-4-5 rotation about z. -/
example :
    let R : M3 ℚ := ⟨⟨3/5, -4/5, 0⟩, ⟨4/5, 3/5, 0⟩, ⟨0, 0, 1⟩⟩
    M3.mul R.transpose R = M3.one ∧ M3.det R ≠ 0 ∧ M3.inv R.transpose = R := by
  decide +kernel

/-- reference neighbour vectors (all of length 5), the 7-24-25 rotation about z (16.3° < θ_max = 27°), and the rotated
    vectors listed in another order. -/
def exPs : List (V3 ℚ) := [⟨3, 4, 0⟩, ⟨-4, 3, 0⟩, ⟨0, 0, 5⟩]
def exR : M3 ℚ := ⟨⟨24/25, -7/25, 0⟩, ⟨7/25, 24/25, 0⟩, ⟨0, 0, 1⟩⟩
def exQs : List (V3 ℚ) := [M3.mulVec exR ⟨0, 0, 5⟩, M3.mulVec exR ⟨3, 4, 0⟩, M3.mulVec exR ⟨-4, 3, 0⟩]
def exKs : List Nat := [2, 0, 1]
def exMag : V3 ℚ → ℚ := fun _ => 5

/-- hypotheses of `matchPQ_pairing_partial` and `solveG_homogeneous`, and their conclusions evaluated. -/
example :
    (∀ e ∈ exQs.zip exKs, IsBest exMag (891/1000) exPs e.1 e.2) ∧ exKs.Nodup ∧ exQs.length = exKs.length ∧
    (∀ v ∈ exPs ++ exQs, exMag v * exMag v = V3.normSq v) ∧
    M3.det exR ≠ 0 ∧ exQs ≠ [] ∧ M3.det (qtqV exQs) ≠ 0 ∧
    (∀ e ∈ exQs.zip exKs, ∀ p, exPs[e.2]? = some p → e.1 = M3.mulVec exR p) ∧
    (qpPairs exMag (891/1000) 10000000000000000 exPs exQs).map (·.2) = [some 2, some 0, some 1] ∧
    solveG exMag (891/1000) 10000000000000000 exPs exQs = M3.inv exR.transpose ∧
    solveG exMag (891/1000) 10000000000000000 exPs exQs = exR := by
  refine ⟨?_, by decide +kernel, by decide +kernel, by decide +kernel, by decide +kernel, by decide +kernel,
    by decide +kernel, by decide +kernel, by decide +kernel, by decide +kernel, by decide +kernel⟩
  intro e he
  have : e = (M3.mulVec exR ⟨0, 0, 5⟩, 2) ∨ e = (M3.mulVec exR ⟨3, 4, 0⟩, 0) ∨ e = (M3.mulVec exR ⟨-4, 3, 0⟩, 1) := by
    simpa [exQs, exKs] using he
  rcases this with rfl | rfl | rfl
  · exact ⟨[⟨3, 4, 0⟩, ⟨-4, 3, 0⟩], ⟨0, 0, 5⟩, [], rfl, rfl, by decide +kernel, by decide +kernel, by decide +kernel⟩
  · exact ⟨[], ⟨3, 4, 0⟩, [⟨-4, 3, 0⟩, ⟨0, 0, 5⟩], rfl, rfl, by decide +kernel, by decide +kernel, by decide +kernel⟩
  · exact ⟨[⟨3, 4, 0⟩], ⟨-4, 3, 0⟩, [⟨0, 0, 5⟩], rfl, rfl, by decide +kernel, by decide +kernel, by decide +kernel⟩

/-- the pairing loop where it decides something (outside the hypothesis of `matchPQ_pairing_partial`): two current
    vectors compete for the same reference vector; the one whose length is farther from `r1` is dropped, as is a
    vector outside `θ_max`. -/
example :
    (qpPairs (fun v => if v.x = 10 ∨ v.y = 10 then 10 else 5) (891/1000) 10000000000000000
      [⟨5, 0, 0⟩, ⟨0, 5, 0⟩] [⟨10, 0, 0⟩, ⟨5, 0, 0⟩, ⟨3, 4, 0⟩, ⟨0, 10, 0⟩]).map (·.2)
      = [none, some 0, none, some 1] := by
  decide +kernel

/-- three (and four) current vectors competing for ONE reference vector, listed so that each later one wins: the
    pairing ends with a single pair (the vector closest to `r1 = 5`), the hypotheses of
    `solveG_homogeneous_competing` hold for the stretch `F = diag(11/10, 1, 1)` (true images `F p`, foreign vectors
    of 2x / 3x the length along the same direction), and `G = F⁻ᵀ`. -/
def exMag1 : V3 ℚ → ℚ := fun v => absK v.x + absK v.y + absK v.z
def exPs3 : List (V3 ℚ) := [⟨5, 0, 0⟩, ⟨0, 5, 0⟩, ⟨0, 0, 5⟩]
def exF3 : M3 ℚ := ⟨⟨11/10, 0, 0⟩, ⟨0, 1, 0⟩, ⟨0, 0, 1⟩⟩
def exQs3 : List (V3 ℚ) := [⟨33/2, 0, 0⟩, ⟨11, 0, 0⟩, ⟨0, 5, 0⟩, ⟨11/2, 0, 0⟩, ⟨0, 0, 5⟩, ⟨0, 0, 10⟩, ⟨22, 0, 0⟩]
def exImg3 : List (V3 ℚ) := exPs3.map (M3.mulVec exF3)
def exGood3 (q : V3 ℚ) : Bool := exImg3.contains q
example :
    (qpPairs exMag1 (891/1000) 10000000000000000 exPs3 exQs3).map (·.2)
      = [none, none, some 1, some 0, some 2, none, none] ∧
    solveG exMag1 (891/1000) 10000000000000000 exPs3 exQs3 = M3.inv exF3.transpose := by
  refine ⟨by decide +kernel, ?_⟩
  have h1 : ∀ q ∈ exQs3, exGood3 q = true → ∀ a ∈ List.range 3, ∀ p ∈ exPs3,
      bestP exMag1 (891/1000) q exPs3 = some a → exPs3[a]? = some p → q = M3.mulVec exF3 p := by decide +kernel
  have h2 : ∀ q ∈ exQs3, ¬ exGood3 q = true → ∀ a ∈ List.range 3, bestP exMag1 (891/1000) q exPs3 = some a →
      ∃ t ∈ exQs3, exGood3 t = true ∧ bestP exMag1 (891/1000) t exPs3 = some a ∧
        rad exMag1 (shortest exMag1 10000000000000000 exPs3) t < rad exMag1 (shortest exMag1 10000000000000000 exPs3) q := by
    decide +kernel
  have h3 : ∀ q ∈ exQs3, ∀ a, bestP exMag1 (891/1000) q exPs3 = some a → a ∈ List.range 3 := by
    have : ∀ q ∈ exQs3, ∀ a ∈ (bestP exMag1 (891/1000) q exPs3).toList, a ∈ List.range 3 := by decide +kernel
    intro q hq a hb
    exact this q hq a (by rw [hb]; simp)
  apply solveG_homogeneous_competing exMag1 _ _ exPs3 exQs3 exF3 (by decide +kernel) (fun q => exGood3 q = true)
  · intro q hq hg a p hb hp
    exact h1 q hq hg a (h3 q hq a hb) p (List.mem_of_getElem? hp) hb hp
  · intro q hq hg a hb
    exact h2 q hq hg a (h3 q hq a hb) hb
  · decide +kernel
  · decide +kernel

/-- hypotheses of `solveG_undeformed_extra_shells`: three orthogonal reference vectors of length 5, a current list that
    also holds the doubled and tripled vectors (several of them inside `θ_max` of one reference vector), `G = I`. -/
def exQs4 : List (V3 ℚ) := [⟨10, 0, 0⟩, ⟨0, 5, 0⟩, ⟨15, 0, 0⟩, ⟨5, 0, 0⟩, ⟨0, 0, 10⟩, ⟨0, 0, 5⟩]
example :
    (qpPairs exMag1 (891/1000) 10000000000000000 exPs3 exQs4).map (·.2) = [none, some 1, none, some 0, none, some 2] ∧
    solveG exMag1 (891/1000) 10000000000000000 exPs3 exQs4 = M3.one := by
  refine ⟨by decide +kernel, ?_⟩
  apply solveG_undeformed_extra_shells exMag1 _ _ exPs3 exQs4 (by decide +kernel) (by decide +kernel) (by decide +kernel)
  · intro p hp
    simp only [exPs3, List.mem_cons, List.mem_nil_iff, or_false] at hp
    rcases hp with rfl | rfl | rfl <;> simp [exQs4]
  · intro q hq hn p hp
    simp only [exQs4, List.mem_cons, List.mem_nil_iff, or_false] at hq
    simp only [exPs3, List.mem_cons, List.mem_nil_iff, or_false] at hp
    rcases hq with rfl | rfl | rfl | rfl | rfl | rfl
    · rcases hp with rfl | rfl | rfl <;> decide +kernel
    · exact absurd (by simp [exPs3]) hn
    · rcases hp with rfl | rfl | rfl <;> decide +kernel
    · exact absurd (by simp [exPs3]) hn
    · rcases hp with rfl | rfl | rfl <;> decide +kernel
    · exact absurd (by simp [exPs3]) hn
  · decide +kernel
  · decide +kernel


/-- hypothesis of `nye_zero` / the general case: a constant field gives zero, a varying one does not. -/
example :
    let pos : Nat → V3 ℚ := fun k => if k = 0 then ⟨0, 0, 0⟩ else if k = 1 then ⟨1, 0, 0⟩ else if k = 2 then ⟨0, 1, 0⟩
      else ⟨0, 0, 1⟩
    let c : Cell ℚ := ⟨⟨⟨8, 0, 0⟩, ⟨0, 8, 0⟩, ⟨0, 0, 8⟩⟩, true, true, true⟩
    nye c pos (fun _ => exR) [1, 2, 3] 0 = zeroM ∧
    nye c pos (fun k => if k = 1 then exR else M3.one) [1, 2, 3] 0 ≠ zeroM := by
  decide +kernel

/-- hypotheses of `solveG_undeformed` (three mutually orthogonal reference vectors of length 5) and its conclusion. -/
example :
    (891/1000 : ℚ) < 1 ∧ (∀ p ∈ exPs, 0 < exMag p ∧ exMag p * exMag p = V3.normSq p) ∧
    exPs.Pairwise (fun a b => V3.dot a b < exMag a * exMag b) ∧ exPs ≠ [] ∧ M3.det (qtqV exPs) ≠ 0 ∧
    solveG exMag (891/1000) 10000000000000000 exPs exPs = M3.one := by
  decide +kernel

def exTab : List (ℚ × ℚ) := [(0, 1), (2, 5), (3, 4)]

/-- `unique` and `interp` on a concrete table: distinct values ascending; knots reproduced, linear in between, clamped
    outside. -/
example :
    unique ([3, 1, 2, 1, 3, 0] : List ℚ) = [0, 1, 2, 3] ∧
    interp exTab 2 = 5 ∧ interp exTab 1 = 3 ∧
    interp exTab (-1) = 1 ∧ interp exTab 7 = 4 ∧
    interp exTab (5/2) = 9/2 := by
  decide +kernel

/-- hypotheses of `dv_homogeneous` / `dd_homogeneous` (shear + stretch of the 4-periodic cell, a pair through the boundary)
    and the conclusion evaluated. -/
example :
    let F : M3 ℚ := ⟨⟨1, 1/10, 0⟩, ⟨0, 21/20, 0⟩, ⟨1/50, 0, 1⟩⟩
    let p0 : V3 ℚ := ⟨1/4, 1, 1⟩; let p1 : V3 ℚ := ⟨15/4, 3/2, 1⟩
    let s : Shift := (-1, 0, 0)
    s ∈ cands true true true ∧
    (∀ t ∈ cands true true true, shiftBy exV (p1 - p0) t = shiftBy exV (p1 - p0) s ∨
      V3.normSq (shiftBy exV (p1 - p0) s) < V3.normSq (shiftBy exV (p1 - p0) t)) ∧
    (∀ t ∈ cands true true true,
      M3.mulVec F (shiftBy exV (p1 - p0) t) = M3.mulVec F (shiftBy exV (p1 - p0) s) ∨
      V3.normSq (M3.mulVec F (shiftBy exV (p1 - p0) s)) < V3.normSq (M3.mulVec F (shiftBy exV (p1 - p0) t))) ∧
    dvect exV true true true p0 p1 = ⟨-1/2, 1/2, 0⟩ ∧
    dvect (M3.mul exV F.transpose) true true true (M3.mulVec F p0) (M3.mulVec F p1) = M3.mulVec F ⟨-1/2, 1/2, 0⟩ := by
  decide +kernel

/-! ### another Cartesian frame: isometries of positions and box (round 4)
  `dv_homogeneous` needs the deformed candidates to keep their order; for an isometry that is automatic. -/

/-- an isometry (`FᵀF = I`, proper or improper) preserves squared lengths. -/
theorem normSq_isometry (F : M3 K) (hR : M3.mul F.transpose F = M3.one) (v : V3 K) :
    V3.normSq (M3.mulVec F v) = V3.normSq v := by
  have h := hR
  simp only [M3.mul, M3.vecMul, M3.transpose, M3.one, M3.mk.injEq, V3.mk.injEq] at h
  obtain ⟨⟨h00, h01, h02⟩, ⟨h10, h11, h12⟩, ⟨h20, h21, h22⟩⟩ := h
  simp only [V3.normSq, V3.dot, M3.mulVec]
  linear_combination v.x * v.x * h00 + v.x * v.y * h01 + v.x * v.z * h02 + v.y * v.x * h10 + v.y * v.y * h11
    + v.y * v.z * h12 + v.z * v.x * h20 + v.z * v.y * h21 + v.z * v.z * h22

/-- **dv_isometry.**  The `dvect` loops commute with an isometry of positions and box vectors whenever the image they
    select in the original frame is the strict minimum (the hypothesis `hmin1` of `dv_homogeneous` follows from `hmin0`). -/
theorem dv_isometry (F V : M3 K) (hR : M3.mul F.transpose F = M3.one) (px py pz : Bool) (p0 p1 : V3 K) (s : Shift)
    (hs : s ∈ cands px py pz)
    (hmin0 : ∀ t ∈ cands px py pz, shiftBy V (p1 - p0) t = shiftBy V (p1 - p0) s ∨
      V3.normSq (shiftBy V (p1 - p0) s) < V3.normSq (shiftBy V (p1 - p0) t)) :
    dvect (M3.mul V F.transpose) px py pz (M3.mulVec F p0) (M3.mulVec F p1)
      = M3.mulVec F (dvect V px py pz p0 p1) := by
  apply dv_homogeneous F V px py pz p0 p1 s hs hmin0
  intro t ht
  rcases hmin0 t ht with h | h
  · left; rw [h]
  · right; rw [normSq_isometry F hR, normSq_isometry F hR]; exact h

/-- the separation of `a`, `b` under cell `c` is decided: one candidate image is the strict minimum. -/
def UniqueImage (c : Cell K) (a b : V3 K) : Prop :=
  ∃ s ∈ cands c.px c.py c.pz, ∀ t ∈ cands c.px c.py c.pz,
    shiftBy c.vects (b - a) t = shiftBy c.vects (b - a) s ∨
      V3.normSq (shiftBy c.vects (b - a) s) < V3.normSq (shiftBy c.vects (b - a) t)

/-- the cell seen in the frame `F`: every box vector mapped by `F` (`vects.dot(F.T)`), same periodicity. -/
def Cell.frame (F : M3 K) (c : Cell K) : Cell K := ⟨M3.mul c.vects F.transpose, c.px, c.py, c.pz⟩

theorem dvCell_isometry (F : M3 K) (hR : M3.mul F.transpose F = M3.one) (c : Cell K) (a b : V3 K)
    (h : UniqueImage c a b) :
    (c.frame F).dv (M3.mulVec F a) (M3.mulVec F b) = M3.mulVec F (c.dv a b) := by
  obtain ⟨s, hs, hmin⟩ := h
  exact dv_isometry F c.vects hR c.px c.py c.pz a b s hs hmin

theorem mulVec_sub (F : M3 K) (u w : V3 K) : M3.mulVec F (u - w) = M3.mulVec F u - M3.mulVec F w := by
  ext <;> simp only [M3.mulVec, V3.dot, sub_x, sub_y, sub_z] <;> ring

theorem mulVec_zero3 (F : M3 K) : M3.mulVec F (zero3 : V3 K) = zero3 := by
  ext <;> simp [M3.mulVec, V3.dot, zero3]

theorem foldl_slip_frame (F : M3 K) (c cf : Cell K) (pos0 pos1 q0 q1 : Nat → V3 K) (i : Nat) :
    ∀ (l : List Nat) (acc : V3 K),
      (∀ j ∈ l, cf.dv (q0 i) (q0 j) = M3.mulVec F (c.dv (pos0 i) (pos0 j)) ∧
                cf.dv (q1 i) (q1 j) = M3.mulVec F (c.dv (pos1 i) (pos1 j))) →
      l.foldl (slipStep cf q0 q1 i) (M3.mulVec F acc) = M3.mulVec F (l.foldl (slipStep c pos0 pos1 i) acc)
  | [], _, _ => rfl
  | j :: l, acc, h => by
    simp only [List.foldl_cons]
    have hj := h j List.mem_cons_self
    have e : slipStep cf q0 q1 i (M3.mulVec F acc) j = M3.mulVec F (slipStep c pos0 pos1 i acc j) := by
      simp only [slipStep, hj.1, hj.2, mulVec_sub]
    rw [e]
    exact foldl_slip_frame F c cf pos0 pos1 q0 q1 i l _ (fun k hk => h k (List.mem_cons_of_mem _ hk))

/-- **frame_equivariant.**  Both systems seen in another Cartesian frame — positions and box vectors mapped by an
    isometry `F` (`FᵀF = I`: rotations, axis permutations, reflections; the cell `vects·Fᵀ` may then carry its zero entries
    anywhere, be upper-triangular or left-handed) —: wherever the periodic images are decided (one candidate is the strict
    minimum), displacement, differential displacement and slip vector are the old ones mapped by `F`.  No assumption on
    the shape of the cell. -/
theorem frame_equivariant (F : M3 K) (hR : M3.mul F.transpose F = M3.one) (c0 c1 : Cell K) (pos0 pos1 : Nat → V3 K)
    (nbrs : List Nat) (i j : Nat)
    (hd : UniqueImage c1 (pos0 i) (pos1 i))
    (h0 : UniqueImage c0 (pos0 i) (pos0 j)) (h1 : UniqueImage c1 (pos1 i) (pos1 j))
    (hs : ∀ k ∈ nbrs, UniqueImage c0 (pos0 i) (pos0 k) ∧ UniqueImage c0 (pos1 i) (pos1 k)) :
    displacement (c1.frame F) (fun k => M3.mulVec F (pos0 k)) (fun k => M3.mulVec F (pos1 k)) i
      = M3.mulVec F (displacement c1 pos0 pos1 i) ∧
    ddvector (c0.frame F) (c1.frame F) (fun k => M3.mulVec F (pos0 k)) (fun k => M3.mulVec F (pos1 k)) i j
      = M3.mulVec F (ddvector c0 c1 pos0 pos1 i j) ∧
    slipVector (c0.frame F) (fun k => M3.mulVec F (pos0 k)) (fun k => M3.mulVec F (pos1 k)) nbrs i
      = M3.mulVec F (slipVector c0 pos0 pos1 nbrs i) := by
  refine ⟨?_, ?_, ?_⟩
  · simp only [displacement]; exact dvCell_isometry F hR c1 _ _ hd
  · simp only [ddvector, mulVec_sub, dvCell_isometry F hR c1 _ _ h1, dvCell_isometry F hR c0 _ _ h0]
  · unfold slipVector
    have := foldl_slip_frame F c0 (c0.frame F) pos0 pos1 (fun k => M3.mulVec F (pos0 k)) (fun k => M3.mulVec F (pos1 k)) i
      nbrs zero3 (fun k hk => ⟨dvCell_isometry F hR c0 _ _ (hs k hk).1, dvCell_isometry F hR c0 _ _ (hs k hk).2⟩)
    rw [mulVec_zero3] at this
    exact this

/-- non-vacuity: the reversal x <-> z with a reflection of y is an isometry (improper); a pair through the periodic
    boundary of a tilted cell has a unique image; in the new frame the cell's tilt entries lie above the diagonal. -/
example : M3.mul (M3.transpose (⟨⟨0, 0, 1⟩, ⟨0, -1, 0⟩, ⟨1, 0, 0⟩⟩ : M3 ℚ)) ⟨⟨0, 0, 1⟩, ⟨0, -1, 0⟩, ⟨1, 0, 0⟩⟩ = M3.one := by
  decide +kernel
example : UniqueImage (⟨⟨⟨4, 0, 0⟩, ⟨2, 4, 0⟩, ⟨0, 0, 4⟩⟩, true, true, true⟩ : Cell ℚ) ⟨1/2, 1/2, 0⟩ ⟨3, 7/2, 0⟩ :=
  ⟨(0, -1, 0), by decide +kernel, by decide +kernel⟩
example : ((⟨⟨⟨4, 0, 0⟩, ⟨2, 4, 0⟩, ⟨0, 0, 4⟩⟩, true, true, true⟩ : Cell ℚ).frame ⟨⟨0, 0, 1⟩, ⟨0, -1, 0⟩, ⟨1, 0, 0⟩⟩).vects
    = ⟨⟨0, 0, 4⟩, ⟨0, -4, 2⟩, ⟨4, 0, 0⟩⟩ := by decide +kernel


/-! ### the three box vectors listed in another order (same lattice, same periodic directions) -/

/-- the cell with its first two box vectors (and their periodicity flags) exchanged. -/
def Cell.swap01 (c : Cell K) : Cell K := ⟨⟨c.vects.r1, c.vects.r0, c.vects.r2⟩, c.py, c.px, c.pz⟩
/-- the cell with its last two box vectors (and their periodicity flags) exchanged. -/
def Cell.swap12 (c : Cell K) : Cell K := ⟨⟨c.vects.r0, c.vects.r2, c.vects.r1⟩, c.px, c.pz, c.py⟩

def sw01 (s : Shift) : Shift := (s.2.1, s.1, s.2.2)
def sw12 (s : Shift) : Shift := (s.1, s.2.2, s.2.1)

theorem mem_cands_sw01 (px py pz : Bool) : ∀ t ∈ cands px py pz, sw01 t ∈ cands py px pz := by
  cases px <;> cases py <;> cases pz <;> decide
theorem mem_cands_sw12 (px py pz : Bool) : ∀ t ∈ cands px py pz, sw12 t ∈ cands px pz py := by
  cases px <;> cases py <;> cases pz <;> decide

theorem shiftBy_sw01 (V : M3 K) (d : V3 K) (t : Shift) :
    shiftBy (⟨V.r1, V.r0, V.r2⟩ : M3 K) d (sw01 t) = shiftBy V d t := by
  ext <;> simp only [shiftBy, sw01] <;> ring
theorem shiftBy_sw12 (V : M3 K) (d : V3 K) (t : Shift) :
    shiftBy (⟨V.r0, V.r2, V.r1⟩ : M3 K) d (sw12 t) = shiftBy V d t := by
  ext <;> simp only [shiftBy, sw12] <;> ring

theorem uniqueImage_swap01 (c : Cell K) (a b : V3 K) (h : UniqueImage c a b) : UniqueImage c.swap01 a b := by
  obtain ⟨s, hs, hmin⟩ := h
  refine ⟨sw01 s, mem_cands_sw01 _ _ _ s hs, ?_⟩
  intro t ht
  have ht' := mem_cands_sw01 _ _ _ t ht
  have e : t = sw01 (sw01 t) := rfl
  simp only [Cell.swap01]
  rw [e, shiftBy_sw01, shiftBy_sw01]
  exact hmin _ ht'

theorem uniqueImage_swap12 (c : Cell K) (a b : V3 K) (h : UniqueImage c a b) : UniqueImage c.swap12 a b := by
  obtain ⟨s, hs, hmin⟩ := h
  refine ⟨sw12 s, mem_cands_sw12 _ _ _ s hs, ?_⟩
  intro t ht
  have ht' := mem_cands_sw12 _ _ _ t ht
  have e : t = sw12 (sw12 t) := rfl
  simp only [Cell.swap12]
  rw [e, shiftBy_sw12, shiftBy_sw12]
  exact hmin _ ht'

theorem dvCell_of_unique (c : Cell K) (a b : V3 K) (s : Shift) (hs : s ∈ cands c.px c.py c.pz)
    (hmin : ∀ t ∈ cands c.px c.py c.pz, shiftBy c.vects (b - a) t = shiftBy c.vects (b - a) s ∨
      V3.normSq (shiftBy c.vects (b - a) s) < V3.normSq (shiftBy c.vects (b - a) t)) :
    c.dv a b = shiftBy c.vects (b - a) s :=
  dvect_eq_of_strict_min c.vects c.px c.py c.pz a b s hs hmin

/-- **dvCell_swap01 / dvCell_swap12.**  Listing the box vectors in another order changes the order in which the loops
    of `dvect_c` visit the candidate images, not the result — wherever the image is decided. -/
theorem dvCell_swap01 (c : Cell K) (a b : V3 K) (h : UniqueImage c a b) : c.swap01.dv a b = c.dv a b := by
  obtain ⟨s, hs, hmin⟩ := h
  have h' := uniqueImage_swap01 c a b ⟨s, hs, hmin⟩
  rw [dvCell_of_unique c a b s hs hmin]
  have hs' : sw01 s ∈ cands c.swap01.px c.swap01.py c.swap01.pz := mem_cands_sw01 _ _ _ s hs
  rw [dvCell_of_unique c.swap01 a b (sw01 s) hs' ?_]
  · simp only [Cell.swap01]; exact shiftBy_sw01 _ _ _
  · intro t ht
    have ht' := mem_cands_sw01 _ _ _ t ht
    have e : t = sw01 (sw01 t) := rfl
    simp only [Cell.swap01]
    rw [e, shiftBy_sw01, shiftBy_sw01]
    exact hmin _ ht'

theorem dvCell_swap12 (c : Cell K) (a b : V3 K) (h : UniqueImage c a b) : c.swap12.dv a b = c.dv a b := by
  obtain ⟨s, hs, hmin⟩ := h
  rw [dvCell_of_unique c a b s hs hmin]
  have hs' : sw12 s ∈ cands c.swap12.px c.swap12.py c.swap12.pz := mem_cands_sw12 _ _ _ s hs
  rw [dvCell_of_unique c.swap12 a b (sw12 s) hs' ?_]
  · simp only [Cell.swap12]; exact shiftBy_sw12 _ _ _
  · intro t ht
    have ht' := mem_cands_sw12 _ _ _ t ht
    have e : t = sw12 (sw12 t) := rfl
    simp only [Cell.swap12]
    rw [e, shiftBy_sw12, shiftBy_sw12]
    exact hmin _ ht'

/-- the reversal `a, b, c ↦ c, b, a` (with the Cartesian reversal of `frame_equivariant` it turns a LAMMPS-style
    lower-triangular cell into an upper-triangular one). -/
theorem dvCell_reversed (c : Cell K) (a b : V3 K) (h : UniqueImage c a b) :
    c.swap01.swap12.swap01.dv a b = c.dv a b := by
  have h1 := uniqueImage_swap01 c a b h
  have h2 := uniqueImage_swap12 _ a b h1
  rw [dvCell_swap01 _ a b h2, dvCell_swap12 _ a b h1, dvCell_swap01 c a b h]

/-- **rows_reordered.**  Displacement, differential displacement and slip vector do not depend on the order in which
    the box vectors are listed (generators: exchange of the first two / the last two vectors with their flags), wherever
    the images are decided. -/
theorem rows_reordered (c0 c1 : Cell K) (pos0 pos1 : Nat → V3 K) (nbrs : List Nat) (i j : Nat)
    (hd : UniqueImage c1 (pos0 i) (pos1 i))
    (h0 : UniqueImage c0 (pos0 i) (pos0 j)) (h1 : UniqueImage c1 (pos1 i) (pos1 j))
    (hs : ∀ k ∈ nbrs, UniqueImage c0 (pos0 i) (pos0 k) ∧ UniqueImage c0 (pos1 i) (pos1 k)) :
    (displacement c1.swap01 pos0 pos1 i = displacement c1 pos0 pos1 i ∧
     displacement c1.swap12 pos0 pos1 i = displacement c1 pos0 pos1 i) ∧
    (ddvector c0.swap01 c1.swap01 pos0 pos1 i j = ddvector c0 c1 pos0 pos1 i j ∧
     ddvector c0.swap12 c1.swap12 pos0 pos1 i j = ddvector c0 c1 pos0 pos1 i j) ∧
    (slipVector c0.swap01 pos0 pos1 nbrs i = slipVector c0 pos0 pos1 nbrs i ∧
     slipVector c0.swap12 pos0 pos1 nbrs i = slipVector c0 pos0 pos1 nbrs i) := by
  refine ⟨⟨?_, ?_⟩, ⟨?_, ?_⟩, ⟨?_, ?_⟩⟩
  · simp only [displacement]; exact dvCell_swap01 c1 _ _ hd
  · simp only [displacement]; exact dvCell_swap12 c1 _ _ hd
  · simp only [ddvector, dvCell_swap01 c1 _ _ h1, dvCell_swap01 c0 _ _ h0]
  · simp only [ddvector, dvCell_swap12 c1 _ _ h1, dvCell_swap12 c0 _ _ h0]
  · unfold slipVector
    apply foldl_congr_mem
    intro acc k hk
    simp only [slipStep, dvCell_swap01 c0 _ _ (hs k hk).1, dvCell_swap01 c0 _ _ (hs k hk).2]
  · unfold slipVector
    apply foldl_congr_mem
    intro acc k hk
    simp only [slipStep, dvCell_swap12 c0 _ _ (hs k hk).1, dvCell_swap12 c0 _ _ (hs k hk).2]

/-- non-vacuity / sharpness: with a TIE between two images the order of the box vectors does decide which one the loops
    keep (so the hypothesis `UniqueImage` cannot be dropped). -/
example : (⟨⟨⟨4, 0, 0⟩, ⟨2, 4, 0⟩, ⟨0, 0, 4⟩⟩, true, true, false⟩ : Cell ℚ).dv ⟨0, 0, 0⟩ ⟨3, 2, 0⟩ = ⟨-1, 2, 0⟩ ∧
    (⟨⟨⟨4, 0, 0⟩, ⟨2, 4, 0⟩, ⟨0, 0, 4⟩⟩, true, true, false⟩ : Cell ℚ).swap01.dv ⟨0, 0, 0⟩ ⟨3, 2, 0⟩ = ⟨1, -2, 0⟩ := by
  decide +kernel
/-- ... and a decided pair through the boundary of the same tilted cell satisfies the hypothesis. -/
example : UniqueImage (⟨⟨⟨4, 0, 0⟩, ⟨2, 4, 0⟩, ⟨0, 0, 4⟩⟩, true, true, false⟩ : Cell ℚ) ⟨0, 0, 0⟩ ⟨3, 3, 0⟩ :=
  ⟨(0, -1, 0), by decide +kernel, by decide +kernel⟩

/-! ## round 6: whole entry points, refusals (exactly when), order / frame independence, end-to-end statements -/

set_option linter.unusedSectionVars false

/-! ### displacement() as a whole -/

/-- **displacementCall_accepts_iff.** -/
theorem displacementCall_accepts_iff (n0 n1 : Nat) (c0 c1 : Cell K) (ref : BoxRef) (pos0 pos1 : Nat → V3 K) :
    (∃ d, displacementCall n0 n1 c0 c1 ref pos0 pos1 = .ok d) ↔ (n0 = n1 ∧ ref ≠ .other) := by
  unfold displacementCall
  by_cases h : n0 = n1 <;> cases ref <;> simp [h]

theorem displacementCall_refusal_is_value (n0 n1 : Nat) (c0 c1 : Cell K) (ref : BoxRef) (pos0 pos1 : Nat → V3 K) (e : NbrErr)
    (h : displacementCall n0 n1 c0 c1 ref pos0 pos1 = .error e) : e = .value ∧ (n0 ≠ n1 ∨ ref = .other) := by
  unfold displacementCall at h
  by_cases hn : n0 = n1 <;> cases ref <;> simp [hn] at h <;> simp [← h, hn]

theorem displacementCall_values (n : Nat) (c0 c1 : Cell K) (pos0 pos1 : Nat → V3 K) :
    displacementCall n n c0 c1 .final pos0 pos1 = .ok (displacement c1 pos0 pos1) ∧
    displacementCall n n c0 c1 .initial pos0 pos1 = .ok (displacement c0 pos0 pos1) ∧
    displacementCall n n c0 c1 .none pos0 pos1 = .ok (fun i => pos1 i - pos0 i) := by
  simp [displacementCall]

/-- **displacementCall_is_imposed** (end to end). -/
theorem displacementCall_is_imposed (n : Nat) (c0 c1 : Cell K) (pos0 pos1 u : Nat → V3 K) (s : Nat → Shift)
    (hs : ∀ i < n, s i ∈ cands c1.px c1.py c1.pz)
    (hu : ∀ i < n, shiftBy c1.vects (pos1 i - pos0 i) (s i) = u i)
    (hmin : ∀ i < n, ∀ t ∈ cands c1.px c1.py c1.pz, shiftBy c1.vects (pos1 i - pos0 i) t = u i ∨
      V3.normSq (u i) < V3.normSq (shiftBy c1.vects (pos1 i - pos0 i) t)) :
    ∃ d, displacementCall n n c0 c1 .final pos0 pos1 = .ok d ∧ ∀ i < n, d i = u i := by
  refine ⟨displacement c1 pos0 pos1, by simp [displacementCall], fun i hi => ?_⟩
  exact displacement_is_imposed c1 pos0 pos1 i (u i) (s i) (hs i hi) (hu i hi) (hmin i hi)

/-! ### refusals of the neighbour block and of the p-vector broadcasting: exactly when -/

theorem pickNeighbors_refuses_iff {L : Type} (n c a : Option L) :
    (pickNeighbors n c a = .error .assert ↔ (n.isSome ∧ c.isSome)) ∧
    (pickNeighbors n c a = .error .value ↔ (n = none ∧ c = none ∧ a = none)) ∧
    ((∃ l, pickNeighbors n c a = .ok l) ↔ ((n.isSome ∧ c = none) ∨ (n = none ∧ (c.isSome ∨ a.isSome)))) := by
  cases n <;> cases c <;> cases a <;> simp [pickNeighbors]

theorem dispatchP_refuses_iff (n : Nat) (arg : PArg K) :
    dispatchP n arg = none ↔ ∃ pss, arg = .nested pss ∧ pss.length ≠ 1 ∧ pss.length ≠ n := by
  cases arg with
  | flat ps =>
    simp only [dispatchP]
    split_ifs <;> simp
  | nested pss =>
    simp only [dispatchP]
    split_ifs with h1 h2 <;> simp_all

theorem setTheta_accepts_iff (o : SObj K) (v c : K) :
    (o.setTheta v c).inp.theta = (if 0 < v ∧ v ≤ 180 then v else o.inp.theta) ∧
    (o.setTheta v c).inp.cosT = (if 0 < v ∧ v ≤ 180 then c else o.inp.cosT) ∧
    (o.setTheta v c).cache = o.cache := by
  unfold SObj.setTheta
  simp only [Nat.cast_ofNat]
  by_cases h : v ≤ 180 ∧ 0 < v
  · have h' : 0 < v ∧ v ≤ 180 := ⟨h.2, h.1⟩
    rw [if_pos h, if_pos h', if_pos h']
    exact ⟨rfl, rfl, rfl⟩
  · have h' : ¬ (0 < v ∧ v ≤ 180) := fun hh => h ⟨hh.2, hh.1⟩
    rw [if_neg h, if_neg h', if_neg h']
    exact ⟨rfl, rfl, rfl⟩

/-! ### strain / rotation: uniqueness of the decomposition -/

theorem strain_rotation_unique (G S A : M3 K) (hS : S.transpose = S) (hA : A.transpose = subM zeroM A)
    (h : addM S A = subM M3.one G) : S = strain G ∧ A = rotation G := by
  simp only [M3.ext_iff, V3.ext_iff, M3.transpose, subM, addM, zeroM, M3.one, sub_x, sub_y, sub_z, add_x, add_y, add_z,
    zero3_x, zero3_y, zero3_z] at hS hA h
  obtain ⟨⟨s1, s2, s3⟩, ⟨s4, s5, s6⟩, ⟨s7, s8, s9⟩⟩ := hS
  obtain ⟨⟨a1, a2, a3⟩, ⟨a4, a5, a6⟩, ⟨a7, a8, a9⟩⟩ := hA
  obtain ⟨⟨h1, h2, h3⟩, ⟨h4, h5, h6⟩, ⟨h7, h8, h9⟩⟩ := h
  constructor <;> ext <;> simp [strain, rotation, half, M3.one, M3.row, V3.get] <;> linarith

/-- compatible field: zero Nye tensor -/
theorem nyeOfGrad_compatible (g : Nat → Nat → Nat → K) (h : ∀ x y z, g x y z = g z y x) : Gen.nyeOfGrad g = zeroM := by
  simp only [Gen.nyeOfGrad, zeroM, zero3]
  ext <;> simp only [] <;> rw [sub_eq_zero] <;> exact h _ _ _


section sobj
variable (mag : V3 K → K) (big : K)

theorem computeG_const (a : SIn K) (pv : Nat → List (V3 K)) (X : M3 K)
    (hG : ∀ i < a.n, solveG mag a.cosT big (pv i) (nbrVectors a.cell a.pos (a.nlist i) i) = X) :
    a.computeG mag big pv = List.replicate a.n X := by
  unfold SIn.computeG
  rw [List.eq_replicate_iff]
  refine ⟨by simp, fun b hb => ?_⟩
  obtain ⟨i, hi, rfl⟩ := List.mem_map.mp hb
  exact hG i (List.mem_range.mp hi)

theorem computeNye_const (a : SIn K) (X : M3 K) (hnl : ∀ i < a.n, ∀ j ∈ a.nlist i, j < a.n) :
    a.computeNye (List.replicate a.n X) = List.replicate a.n zeroM := by
  unfold SIn.computeNye
  rw [List.eq_replicate_iff]
  refine ⟨by simp, fun b hb => ?_⟩
  obtain ⟨i, hi, rfl⟩ := List.mem_map.mp hb
  have hi' := List.mem_range.mp hi
  apply nye_zero
  intro j hj
  have hj' := hnl i hi' j hj
  simp [List.getD_eq_getElem?_getD, hi', hj']

/-- **SObj.api_constant_G** -/
theorem SObj.api_constant_G (a : SIn K) (pv : Nat → List (V3 K)) (hp : a.pvec = some pv) (X : M3 K)
    (hG : ∀ i < a.n, solveG mag a.cosT big (pv i) (nbrVectors a.cell a.pos (a.nlist i) i) = X)
    (hnl : ∀ i < a.n, ∀ j ∈ a.nlist i, j < a.n) :
    ((SObj.fresh a).reads mag big [.G, .strain, .rotation, .inv1, .inv2, .inv3, .angvel2, .nye]).2 =
      [some (.mats (List.replicate a.n X)), some (.mats (List.replicate a.n (strain X))),
       some (.mats (List.replicate a.n (rotation X))), some (.nums (List.replicate a.n (invariant1 (strain X)))),
       some (.nums (List.replicate a.n (invariant2 (strain X)))), some (.nums (List.replicate a.n (invariant3 (strain X)))),
       some (.nums (List.replicate a.n (angularVelocitySq (rotation X)))), some (.mats (List.replicate a.n zeroM))] := by
  rw [(SObj.reads_coherent mag big _ _ (SObj.fresh_coherent mag big a)).1]
  have hg : a.valG mag big = some (.mats (List.replicate a.n X)) := by
    simp only [SIn.valG, hp, Option.map_some, computeG_const mag big a pv X hG]
  simp only [List.map_cons, List.map_nil, SIn.val, SIn.valStrain, SIn.valRotation, hg, Option.map_some, fStrain, fRotation,
    fInv1, fInv2, fInv3, fAngvel2, SIn.fNye, List.map_replicate, SObj.fresh, computeNye_const a X hnl]

end sobj

/-- slip vector order independence -/
theorem slipVector_perm (c : Cell K) (pos0 pos1 : Nat → V3 K) (l l' : List Nat) (h : l.Perm l') (i : Nat) :
    slipVector c pos0 pos1 l i = slipVector c pos0 pos1 l' i := by
  unfold slipVector
  apply h.foldl_eq'
  intro x _ y _ z
  unfold slipStep
  ext <;> simp <;> ring

theorem solveNormal_perm (l l' : List (V3 K × V3 K)) (h : l.Perm l') : solveNormal l = solveNormal l' := by
  unfold solveNormal qtq qtp
  rw [h.foldl_eq' (fun x _ y _ z => ?_) zeroM, h.foldl_eq' (fun x _ y _ z => ?_) zeroM]
  · ext <;> simp [addM] <;> ring
  · ext <;> simp [addM] <;> ring

theorem nye_perm (c : Cell K) (pos : Nat → V3 K) (G : Nat → M3 K) (l l' : List Nat) (h : l.Perm l') (i : Nat) :
    nye c pos G l i = nye c pos G l' i := by
  have key : ∀ (f : M3 K → V3 K) (m : List Nat),
      ((m.map fun j => subM (G j) (G i)).map f).zip (nbrVectors c pos m i)
        = m.map fun j => (f (subM (G j) (G i)), c.dv (pos i) (pos j)) := by
    intro f m
    induction m with
    | nil => rfl
    | cons a m ih => simp only [List.map_cons, nbrVectors, List.zip_cons_cons] at ih ⊢; rw [ih]
  unfold nye gradG
  rw [key, key, key, key, key, key]
  rw [solveNormal_perm _ _ (h.map _), solveNormal_perm _ _ (h.map _), solveNormal_perm _ _ (h.map _)]

/-- end to end: slip_vector(system_0, system_1, cutoff=) for a rigid slip -/
theorem slipVectorCall_rigid (c : Cell K) (pos0 pos1 : Nat → V3 K) (neighbors cutoff attr : Option (Nat → List Nat))
    (nl : Nat → List Nat) (hsrc : pickNeighbors neighbors cutoff attr = .ok nl) (i : Nat)
    (side : Nat → Bool) (uA uB : V3 K)
    (hst : ∀ j ∈ nl i, c.dv (pos1 i) (pos1 j)
      = c.dv (pos0 i) (pos0 j) + (twoValued side uA uB j - twoValued side uA uB i)) :
    slipVectorCall c pos0 pos1 neighbors cutoff attr i
      = .ok (V3.smul (((nl i).countP (fun j => side j != side i) : Nat) : K)
          (twoValued side uA uB i - otherHalf side uA uB i)) := by
  unfold slipVectorCall
  rw [hsrc]
  simp only [slip_rigid c pos0 pos1 (nl i) i side uA uB hst]

/-- end to end: DifferentialDisplacement(...).solve on a displaced copy -/
theorem DObj.api_differences (o : DObj K) (a : DArgs K) (c : Cell K) (n : Nat) (pos0 u : Nat → V3 K)
    (h0 : a.sys0.getD o.sys0 = ⟨c, n, pos0⟩) (h1 : a.sys1.getD o.sys1 = ⟨c, n, fun k => pos0 k + u k⟩)
    (h : (o.solve a).2 = none)
    (hst : ∀ nl, (o.solve a).1.nlist = some nl → ∀ i nbrs, nl[i]? = some nbrs → ∀ j ∈ nbrs,
      c.dv (pos0 i + u i) (pos0 j + u j) = c.dv (pos0 i) (pos0 j) + (u j - u i)) :
    ∃ nl, (o.solve a).1.nlist = some nl ∧
      (o.solve a).1.dd = some ((nl.zipIdx).flatMap fun (e : List Nat × Nat) => e.1.map fun j => u j - u e.2) := by
  obtain ⟨nl, hnl, hdd, hs0, hs1⟩ := DObj.solve_current o a h
  refine ⟨nl, hnl, ?_⟩
  rw [hdd, hs0, hs1, h0, h1]
  simp only
  rw [ddvectors_are_differences c pos0 u nl (hst nl hnl)]

/-- disregistry refuses exactly when -/
theorem disregistry_refuses_iff (atol rtol : K) (atoms : List (K × K × V3 K)) (midy : K) :
    disregistry atol rtol atoms midy = none ↔
      ((unique (atoms.map (·.2.1))).filter fun y => midy < y) = [] ∨
      ((unique (atoms.map (·.2.1))).filter fun y => y < midy) = [] ∨
      ∃ ya yb, minL ((unique (atoms.map (·.2.1))).filter fun y => midy < y) = some ya ∧
        maxL ((unique (atoms.map (·.2.1))).filter fun y => y < midy) = some yb ∧ isclose atol rtol ya yb = true := by
  unfold disregistry
  simp only
  generalize ((unique (atoms.map (·.2.1))).filter fun y => midy < y) = A
  generalize ((unique (atoms.map (·.2.1))).filter fun y => y < midy) = B
  cases A with
  | nil => simp [minL]
  | cons a A =>
    cases B with
    | nil => simp [minL, maxL]
    | cons b B =>
      simp only [minL, maxL]
      split_ifs with hc <;> simp [hc]

/-! ### invariants do not depend on the Cartesian frame -/
theorem det_mul3 (A B : M3 K) : M3.det (M3.mul A B) = M3.det A * M3.det B := by
  simp only [M3.det, M3.mul, M3.vecMul, V3.dot, V3.cross]; ring

theorem invariant3_eq_det (s : M3 K) : invariant3 s = M3.det s := by
  simp only [invariant3, M3.det, V3.dot, V3.cross]; ring

theorem invariant1_frame (R s : M3 K) (hR : M3.mul R.transpose R = M3.one) :
    invariant1 (M3.mul (M3.mul R s) R.transpose) = invariant1 s := by
  simp only [M3.ext_iff, V3.ext_iff, M3.mul, M3.vecMul, M3.transpose, M3.one] at hR
  obtain ⟨⟨h00, h01, h02⟩, ⟨h10, h11, h12⟩, ⟨h20, h21, h22⟩⟩ := hR
  simp only [invariant1, M3.mul, M3.vecMul, M3.transpose]
  linear_combination s.r0.x * h00 + s.r0.y * h01 + s.r0.z * h02 + s.r1.x * h10 + s.r1.y * h11 + s.r1.z * h12
    + s.r2.x * h20 + s.r2.y * h21 + s.r2.z * h22

theorem invariant2_eq (s : M3 K) : invariant2 s = (invariant1 s ^ 2 - invariant1 (M3.mul s s)) / 2 := by
  simp only [invariant1, invariant2, M3.mul, M3.vecMul]; ring

/-- **invariants_frame.** -/
theorem invariants_frame (R s : M3 K) (hR : M3.mul R.transpose R = M3.one) :
    invariant1 (M3.mul (M3.mul R s) R.transpose) = invariant1 s ∧
    invariant2 (M3.mul (M3.mul R s) R.transpose) = invariant2 s ∧
    invariant3 (M3.mul (M3.mul R s) R.transpose) = invariant3 s := by
  refine ⟨invariant1_frame R s hR, ?_, ?_⟩
  · have hsq : M3.mul (M3.mul (M3.mul R s) R.transpose) (M3.mul (M3.mul R s) R.transpose)
        = M3.mul (M3.mul R (M3.mul s s)) R.transpose := by
      rw [mul_assoc3 (M3.mul R s) R.transpose, ← mul_assoc3 R.transpose (M3.mul R s), ← mul_assoc3 R.transpose R s, hR,
        one_mul3, ← mul_assoc3 (M3.mul R s) s, mul_assoc3 R s s]
    rw [invariant2_eq, invariant2_eq, hsq, invariant1_frame R s hR, invariant1_frame R _ hR]
  · rw [invariant3_eq_det, invariant3_eq_det, det_mul3, det_mul3]
    have h : M3.det R.transpose * M3.det R = 1 := by
      rw [← det_mul3, hR]; simp [M3.det, M3.one, V3.dot, V3.cross]
    rw [det_transpose] at h ⊢
    linear_combination (M3.det s) * h


section sobj2
variable (mag : V3 K → K) (big : K)

/-- **SObj.api_homogeneous** (end to end, the user-level statement of the homogeneous clause).  A `Strain` object
    built for a system of `n` atoms whose current neighbour vectors are the images `q = F p` of the reference vectors
    (pairing hypothesis of `solveG_homogeneous` at every atom, full rank, list entries inside the system) answers the
    reads `G, strain, rotation, invariant1-3, angularvelocity², nye` — in this or any other order, see
    `SObj.reads_coherent` — with `F⁻ᵀ` at EVERY atom, the strain / rotation / invariants that follow from it, and a
    vanishing Nye tensor. -/
theorem SObj.api_homogeneous (a : SIn K) (pv : Nat → List (V3 K)) (hp : a.pvec = some pv) (F : M3 K) (hF : M3.det F ≠ 0)
    (ks : Nat → List Nat)
    (hlen : ∀ i < a.n, (a.nlist i).length = (ks i).length)
    (hbest : ∀ i < a.n, ∀ e ∈ (nbrVectors a.cell a.pos (a.nlist i) i).zip (ks i), IsBest mag a.cosT (pv i) e.1 e.2)
    (hnd : ∀ i < a.n, (ks i).Nodup)
    (hq : ∀ i < a.n, ∀ e ∈ (nbrVectors a.cell a.pos (a.nlist i) i).zip (ks i), ∀ p, (pv i)[e.2]? = some p →
      e.1 = M3.mulVec F p)
    (hne : ∀ i < a.n, a.nlist i ≠ [])
    (hrank : ∀ i < a.n, M3.det (qtqV (nbrVectors a.cell a.pos (a.nlist i) i)) ≠ 0)
    (hnl : ∀ i < a.n, ∀ j ∈ a.nlist i, j < a.n) :
    ((SObj.fresh a).reads mag big [.G, .strain, .rotation, .inv1, .inv2, .inv3, .angvel2, .nye]).2 =
      [some (.mats (List.replicate a.n (M3.inv F.transpose))),
       some (.mats (List.replicate a.n (strain (M3.inv F.transpose)))),
       some (.mats (List.replicate a.n (rotation (M3.inv F.transpose)))),
       some (.nums (List.replicate a.n (invariant1 (strain (M3.inv F.transpose))))),
       some (.nums (List.replicate a.n (invariant2 (strain (M3.inv F.transpose))))),
       some (.nums (List.replicate a.n (invariant3 (strain (M3.inv F.transpose))))),
       some (.nums (List.replicate a.n (angularVelocitySq (rotation (M3.inv F.transpose))))),
       some (.mats (List.replicate a.n zeroM))] := by
  apply SObj.api_constant_G mag big a pv hp _ _ hnl
  intro i hi
  apply solveG_homogeneous mag a.cosT big _ _ (ks i) F hF _ (hbest i hi) (hnd i hi) (hq i hi) _ (hrank i hi)
  · simpa [nbrVectors] using hlen i hi
  · simpa [nbrVectors] using hne i hi

end sobj2

/-- the Nye tensor of the MODEL (`nyeOf`, three fitted gradients) is the Levi-Civita contraction `-ε_ijm ∂_m G_ik`
    written in `nye_tensor.py` (`Gen.nyeEinsum`, regenerated from the `eps` table and the einsum string). -/
theorem nyeOf_is_leviCivita_contraction (g : M3 K × M3 K × M3 K) :
    nyeOf g = Gen.nyeEinsum (Gen.gradOf fun x => if x = 0 then g.1 else if x = 1 then g.2.1 else g.2.2) := by
  rw [← gen_nyeOf_eq_model, Gen.nyeOf, gen_nye_c_eq_einsum]

/-- **nye_compatible.**  A compatible field has no Nye tensor: when the fitted gradient `∂_z G_xy` is symmetric in the
    first index of `G` and the direction of differentiation (`G_xy = ∂_x φ_y` for some field `φ`: second derivatives
    commute) the Nye tensor vanishes — the general reason behind `nye_zero` (constant `G`). -/
theorem nye_compatible (g : M3 K × M3 K × M3 K)
    (h : ∀ x y z, Gen.gradOf (fun x => if x = 0 then g.1 else if x = 1 then g.2.1 else g.2.2) x y z
      = Gen.gradOf (fun x => if x = 0 then g.1 else if x = 1 then g.2.1 else g.2.2) z y x) :
    nyeOf g = zeroM := by
  rw [← gen_nyeOf_eq_model, Gen.nyeOf]
  exact nyeOfGrad_compatible _ h

/-! ### non-vacuity of the theorems above (ℚ) -/

def okAt (r : Except NbrErr (Nat → V3 ℚ)) (i : Nat) : Option (V3 ℚ) :=
  match r with
  | .ok d => some (d i)
  | .error _ => none

/-- `displacementCall`: the accepted forms evaluated on the boundary-crossing atom of `displacement_is_imposed`'s example
    (`'final'` / `'initial'` undo the box vector, `None` does not), both refusals, and the refusal ORDER (a wrong atom
    count is reported also for an unknown `box_reference`). -/
example :
    let pos0 : Nat → V3 ℚ := fun _ => ⟨1/2, 1, 1⟩
    let pos1 : Nat → V3 ℚ := fun _ => ⟨1/2 - 1 + 4, 1 + 1/4, 1⟩
    let free : Cell ℚ := ⟨exV, false, true, true⟩
    okAt (displacementCall 1 1 free exCell .final pos0 pos1) 0 = some ⟨-1, 1/4, 0⟩ ∧
    okAt (displacementCall 1 1 free exCell .initial pos0 pos1) 0 = some ⟨3, 1/4, 0⟩ ∧
    okAt (displacementCall 1 1 free exCell .none pos0 pos1) 0 = some ⟨3, 1/4, 0⟩ ∧
    okAt (displacementCall 1 1 free exCell .other pos0 pos1) 0 = none ∧
    okAt (displacementCall 1 2 free exCell .final pos0 pos1) 0 = none := by
  decide +kernel

/-- hypotheses and conclusion of `SObj.api_constant_G` / `api_homogeneous`: a four-atom cluster (every atom sees the three
    others: three independent vectors each) under the shear + stretch `apiF`; reference = the undeformed cluster. -/
def apiCell : Cell ℚ := ⟨⟨⟨10, 0, 0⟩, ⟨0, 10, 0⟩, ⟨0, 0, 10⟩⟩, false, false, false⟩
def apiRef : Nat → V3 ℚ
  | 0 => ⟨0, 0, 0⟩ | 1 => ⟨1, 0, 0⟩ | 2 => ⟨0, 1, 0⟩ | _ => ⟨0, 0, 1⟩
def apiF : M3 ℚ := ⟨⟨11/10, 1/10, 0⟩, ⟨0, 1, 0⟩, ⟨0, 1/20, 19/20⟩⟩
def apiNl : Nat → List Nat := fun i => (List.range 4).filter (· ≠ i)
def apiMag : V3 ℚ → ℚ := fun v => (V3.normSq v + 1) / 2
def apiIn : SIn ℚ := ⟨apiCell, 4, fun i => M3.mulVec apiF (apiRef i), apiNl,
  some (fun i => nbrVectors apiCell apiRef (apiNl i) i), 27, 1/2⟩

example :
    (∀ i ∈ List.range 4, solveG apiMag apiIn.cosT 10000000000000000 (nbrVectors apiCell apiRef (apiNl i) i)
        (nbrVectors apiIn.cell apiIn.pos (apiIn.nlist i) i) = M3.inv apiF.transpose) ∧
    (∀ i ∈ List.range 4, ∀ j ∈ apiIn.nlist i, j < 4) ∧
    M3.inv apiF.transpose = ⟨⟨10/11, 0, 0⟩, ⟨-1/11, 1, -1/19⟩, ⟨0, 0, 20/19⟩⟩ ∧
    strain (M3.inv apiF.transpose) = ⟨⟨1/11, 1/22, 0⟩, ⟨1/22, 0, 1/38⟩, ⟨0, 1/38, -1/19⟩⟩ ∧
    invariant1 (strain (M3.inv apiF.transpose)) = 8/209 := by
  decide +kernel

/-- `strain_rotation_unique`, `invariants_frame` (3-4-5 rotation of a non-symmetric tensor), `nyeOfGrad_compatible`
    (a symmetric gradient) and its failure for a non-compatible one. -/
example :
    let R : M3 ℚ := ⟨⟨3/5, -4/5, 0⟩, ⟨4/5, 3/5, 0⟩, ⟨0, 0, 1⟩⟩
    let s : M3 ℚ := ⟨⟨1, 2, 3⟩, ⟨4, 5, 6⟩, ⟨7, 8, 10⟩⟩
    M3.mul R.transpose R = M3.one ∧ M3.mul (M3.mul R s) R.transpose ≠ s ∧
    invariant2 (M3.mul (M3.mul R s) R.transpose) = invariant2 s ∧ invariant2 s = -12 ∧ invariant3 s = -3 ∧
    (let g : Nat → Nat → Nat → ℚ := fun x y z => (((x + 1) * (z + 1) * (y + 2) : Nat) : ℚ)
     (∀ x ∈ [0, 1, 2], ∀ y ∈ [0, 1, 2], ∀ z ∈ [0, 1, 2], g x y z = g z y x) ∧ Gen.nyeOfGrad g = zeroM) ∧
    Gen.nyeOfGrad (fun x y z => ((x + 2 * z + y : Nat) : ℚ)) ≠ zeroM := by
  decide +kernel

/-- `slipVector_perm` / `slipVectorCall_rigid` on the four-atom chain: the slip vector of atom 0 over `[3, 1]` and over
    `[1, 3]`, through the `cutoff=` source with an attribute present. -/
example :
    let pos1 : Nat → V3 ℚ := fun k => exPos0 k + twoValued exSide exUA exUB k
    slipVector exCell exPos0 pos1 [3, 1] 0 = slipVector exCell exPos0 pos1 [1, 3] 0 ∧
    (match slipVectorCall exCell exPos0 pos1 none (some fun _ => [3, 1]) (some fun _ => [1]) 0 with
      | .ok v => v | .error _ => zero3) = V3.smul 1 (exUB - exUA) := by
  decide +kernel


/-! ### round 6, part 2: renumbering / translation of disregistry and of displacement(); slip_vector and asdict as whole calls -/

/-- **disregistry_renumbered.**  The disregistry profile does not depend on the order in which the atoms are listed: any
    consistent renumbering of the two systems (a permutation of the per-atom rows `(x, y, displacement)`) gives the same
    planes, the same columns, the same means and the same profile — or the same refusal.  No hypothesis (closes the
    renumbering half of PARTIAL `disregistry_translation`). -/
theorem disregistry_renumbered (atol rtol : K) (atoms atoms' : List (K × K × V3 K)) (h : atoms.Perm atoms') (midy : K) :
    disregistry atol rtol atoms midy = disregistry atol rtol atoms' midy :=
  disregistry_perm_aux atol rtol atoms atoms' h midy

/-- **disregistry_translated_rtol0.**  With a purely absolute tolerance (`rtol = 0`) the model of `disregistry` is
    covariant under a joint translation: all in-plane coordinates moved by `tx`, all plane coordinates and the plane position
    by `ty` ⇒ the same refusal, or the same profile with its coordinates moved by `tx`.  Hence the relative tolerance of
    `numpy.isclose` is the only reason the real function is not translation invariant (candidates
    `disregistry:isclose-far-origin`). -/
theorem disregistry_translated_rtol0 (atol : K) (atoms : List (K × K × V3 K)) (midy tx ty : K) :
    disregistry atol 0 (atoms.map fun a => (a.1 + tx, a.2.1 + ty, a.2.2)) (midy + ty)
      = (disregistry atol 0 atoms midy).map (fun prof => prof.map fun e => (e.1 + tx, e.2)) :=
  disregistry_shift_aux atol atoms midy tx ty

/-- **displacementCall_translated / _renumbered.**  `displacement()` as a whole — every `box_reference`, the refusals
    included — is unchanged by a joint translation and carried along by a consistent renumbering. -/
theorem displacementCall_translated (n0 n1 : Nat) (c0 c1 : Cell K) (ref : BoxRef) (pos0 pos1 : Nat → V3 K) (t : V3 K) :
    displacementCall n0 n1 c0 c1 ref (fun i => pos0 i + t) (fun i => pos1 i + t)
      = displacementCall n0 n1 c0 c1 ref pos0 pos1 :=
  displacementCall_translated_aux n0 n1 c0 c1 ref pos0 pos1 t

theorem displacementCall_renumbered (n0 n1 : Nat) (c0 c1 : Cell K) (ref : BoxRef) (pos0 pos1 : Nat → V3 K) (σ : Nat → Nat) :
    displacementCall n0 n1 c0 c1 ref (fun i => pos0 (σ i)) (fun i => pos1 (σ i))
      = (displacementCall n0 n1 c0 c1 ref pos0 pos1).map (fun d i => d (σ i)) :=
  displacementCall_renumbered_aux n0 n1 c0 c1 ref pos0 pos1 σ

theorem keyOf_isSome_iff (k : String) : (keyOf k).isSome ↔ k ∈ allKeyNames := by
  unfold keyOf allKeyNames
  split_ifs <;> simp_all

theorem planKeys_accepts_iff : ∀ ks : List String, (planKeys ks).2 = false ↔ ∀ k ∈ ks, k ∈ allKeyNames
  | [] => by simp [planKeys]
  | k :: ks => by
    have ih := planKeys_accepts_iff ks
    have hk := keyOf_isSome_iff k
    unfold planKeys
    cases h : keyOf k with
    | none =>
      simp only [h, Option.isSome_none, Bool.false_eq_true, false_iff] at hk
      simp only [Bool.true_eq_false, false_iff]
      intro hall
      exact hk (hall k List.mem_cons_self)
    | some p =>
      simp only [h, Option.isSome_some, true_iff] at hk
      simp only [ih, List.mem_cons, forall_eq_or_imp, hk, true_and]

theorem asdictPlan_default : asdictPlan none = ([.strain, .inv1, .inv2, .inv3, .angvel2, .nye], false) := by
  decide

/-- slip_vector refusals, exactly when -/
theorem slipVectorEntry_refuses_iff (n0 n1 : Nat) (c : Cell K) (pos0 pos1 : Nat → V3 K)
    (nb cu at_ : Option (Nat → List Nat)) (i : Nat) :
    ((∃ v, slipVectorEntry n0 n1 c pos0 pos1 nb cu at_ i = .ok v) ↔
      (n0 = n1 ∧ ((nb.isSome ∧ cu = none) ∨ (nb = none ∧ (cu.isSome ∨ at_.isSome))))) ∧
    (slipVectorEntry n0 n1 c pos0 pos1 nb cu at_ i = .error .assert ↔ (n0 = n1 ∧ nb.isSome ∧ cu.isSome)) ∧
    (slipVectorEntry n0 n1 c pos0 pos1 nb cu at_ i = .error .value ↔ (n0 ≠ n1 ∨ (nb = none ∧ cu = none ∧ at_ = none))) := by
  unfold slipVectorEntry slipVectorCall
  by_cases h : n0 = n1 <;> cases nb <;> cases cu <;> cases at_ <;> simp [h, pickNeighbors]

section sobj
variable (mag : V3 K → K) (big : K)

theorem val_isSome (a : SIn K) (pv : Nat → List (V3 K)) (hp : a.pvec = some pv) (p : SProp) :
    ∃ v, a.val mag big p = some v := by
  cases p <;> simp [SIn.val, SIn.valStrain, SIn.valRotation, SIn.valG, hp]

theorem SObj.readsUntil_coherent (pv : Nat → List (V3 K)) : ∀ (ps : List SProp) (o : SObj K), Coherent mag big o →
    o.inp.pvec = some pv →
    ∃ vs, (o.readsUntil mag big ps).2 = some vs ∧ vs.map some = ps.map (o.inp.val mag big) ∧
      (o.readsUntil mag big ps).1.inp = o.inp ∧ Coherent mag big (o.readsUntil mag big ps).1
  | [], o, h, _ => ⟨[], rfl, rfl, rfl, h⟩
  | p :: ps, o, h, hp => by
    obtain ⟨h1, h2, h3⟩ := SObj.read_coherent mag big o h p
    obtain ⟨v, hv⟩ := val_isSome mag big o.inp pv hp p
    obtain ⟨vs, r1, r2, r3, r4⟩ := SObj.readsUntil_coherent pv ps (o.read mag big p).1 h1 (by rw [h2]; exact hp)
    refine ⟨v :: vs, ?_, ?_, ?_, ?_⟩
    · simp only [SObj.readsUntil, h3, hv, r1, Option.map_some]
    · simp only [List.map_cons, r2, h2, hv]
    · simp only [SObj.readsUntil, h3, hv]; rw [r3, h2]
    · simp only [SObj.readsUntil, h3, hv]; exact r4

/-- **SObj.asdict_spec** -/
theorem SObj.asdict_spec (o : SObj K) (h : Coherent mag big o) (pv : Nat → List (V3 K)) (hp : o.inp.pvec = some pv)
    (props : Option (List String)) :
    ∃ vs, vs.map some = (asdictPlan props).1.map (o.inp.val mag big) ∧
      (o.asdict mag big props).2 = (if (asdictPlan props).2 then .error .assert else .ok vs) ∧
      (o.asdict mag big props).1.inp = o.inp ∧ Coherent mag big (o.asdict mag big props).1 := by
  obtain ⟨vs, r1, r2, r3, r4⟩ := SObj.readsUntil_coherent mag big pv (asdictPlan props).1 o h hp
  refine ⟨vs, r2, ?_, ?_, ?_⟩ <;> simp only [SObj.asdict, r1] <;> assumption

/-- without p vectors: ValueError unless the FIRST key is unknown -/
theorem SObj.asdict_no_reference (a : SIn K) (hp : a.pvec = none) (props : Option (List String)) :
    ((SObj.fresh a).asdict mag big props).2 =
      (match (asdictPlan props).1 with
       | [] => if (asdictPlan props).2 then .error .assert else .ok []
       | _ :: _ => .error .value) := by
  unfold SObj.asdict
  generalize asdictPlan props = plan
  obtain ⟨ks, bad⟩ := plan
  cases ks with
  | nil => simp [SObj.readsUntil]
  | cons p ps =>
    have : ((SObj.fresh a).read mag big p).2 = none := by
      have := (SObj.read_coherent mag big _ (SObj.fresh_coherent mag big a) p).2.2
      rw [this]
      cases p <;> simp [SObj.fresh, SIn.val, SIn.valStrain, SIn.valRotation, SIn.valG, hp]
    simp [SObj.readsUntil, this]

end sobj

/-! non-vacuity (ℚ) -/

def errOf {α : Type} : Except NbrErr α → Option NbrErr
  | .ok _ => none
  | .error e => some e

/-- `disregistry_renumbered` / `disregistry_translated_rtol0` on the two-plane instance of `disregistry_rigid_full` (listed in
    another order; moved by `tx = 5/2`, `ty = -3`), and a case where the relative tolerance DOES matter: far from the origin
    (`ty = 200000`) `rtol = 1/100000` merges the two planes and the call refuses, `rtol = 0` does not. -/
example :
    let uA : V3 ℚ := ⟨1/4, 0, 1/8⟩; let uB : V3 ℚ := ⟨0, 0, -1/8⟩
    let atoms : List (ℚ × ℚ × V3 ℚ) := [(0, 0, uB), (2, 0, uB), (1, 1, uA), (3, 1, uA), (1, 2, uA), (0, -1, uB)]
    let atoms' : List (ℚ × ℚ × V3 ℚ) := [(3, 1, uA), (0, -1, uB), (0, 0, uB), (1, 2, uA), (1, 1, uA), (2, 0, uB)]
    let moved := fun (tx ty : ℚ) => atoms.map fun a => (a.1 + tx, a.2.1 + ty, a.2.2)
    disregistry (1/100000000) (1/100000) atoms' (1/2) = disregistry (1/100000000) (1/100000) atoms (1/2) ∧
    disregistry (1/100000000) 0 (moved (5/2) (-3)) (1/2 - 3)
      = some [(5/2, uA - uB), (7/2, uA - uB), (9/2, uA - uB), (11/2, uA - uB)] ∧
    disregistry (1/100000000) (1/100000) (moved 0 200000) (1/2 + 200000) = none ∧
    (disregistry (1/100000000) 0 (moved 0 200000) (1/2 + 200000)).isSome = true := by
  decide +kernel

/-- `slipVectorEntry` / `asdictPlan` / `SObj.asdict`: the atom count is checked before the neighbour block; an unknown key
    stops `asdict` AFTER the keys before it were read (and cached); without p vectors the first read refuses. -/
example :
    errOf (slipVectorEntry 4 3 exCell exPos0 exPos0 (some fun _ => [1]) (some fun _ => [1]) none 0) = some .value ∧
    errOf (slipVectorEntry 4 4 exCell exPos0 exPos0 (some fun _ => [1]) (some fun _ => [1]) none 0) = some .assert ∧
    errOf (slipVectorEntry 4 4 exCell exPos0 exPos0 none (some fun _ => [1]) (some fun _ => [3]) 0) = none ∧
    asdictPlan (some ["rotation", "G", "bogus", "nye"]) = ([.rotation, .G], true) ∧
    asdictPlan (some ["nye", "strain"]) = ([.nye, .strain], false) ∧
    errOf ((SObj.fresh apiIn).asdict apiMag 10000000000000000 (some ["strain", "Strain"])).2 = some .assert ∧
    (((SObj.fresh apiIn).asdict apiMag 10000000000000000 (some ["strain", "Strain"])).1.cache .strain).isSome = true ∧
    errOf ((SObj.fresh apiIn).asdict apiMag 10000000000000000 none).2 = none ∧
    errOf ((SObj.fresh { apiIn with pvec := none }).asdict apiMag 10000000000000000 none).2 = some .value ∧
    errOf ((SObj.fresh { apiIn with pvec := none }).asdict apiMag 10000000000000000 (some ["bogus", "G"])).2 = some .assert := by
  decide +kernel

/-! ### second pass of the extender round: refusals of `DifferentialDisplacement.solve`, the broadcasting chain, `disregistry` from
    the two systems (end to end) -/

/-- the list a `solve` call designates under the reference `r`: given > cutoff list of the reference system > stored. -/
def DObj.listFor (o : DObj K) (a : DArgs K) (r : Nat) : Option (List (List Nat)) :=
  match a.neighbors with
  | some nl => some nl
  | none => match a.cutoff with
    | some ll => some (if r = 0 then ll.1 else ll.2)
    | none => o.nlist

/-- **DObj.solve_refuses_iff**: `solve` raises `AssertionError` exactly when the atom counts of the systems now in use
    differ or a `reference` other than 0 / 1 is given; `ValueError` exactly when (those being fine) no list is designated
    or the designated list has no pair at all; and succeeds exactly otherwise. -/
theorem DObj.solve_refuses_iff (o : DObj K) (a : DArgs K) :
    let cnt := (a.sys0.getD o.sys0).n = (a.sys1.getD o.sys1).n
    let refOk := ∀ r, a.reference = some r → r = 0 ∨ r = 1
    let r := a.reference.getD o.reference
    ((o.solve a).2 = some .assert ↔ ¬ cnt ∨ ¬ refOk) ∧
    ((o.solve a).2 = some .value ↔ cnt ∧ refOk ∧
      (o.listFor a r = none ∨ ∃ nl, o.listFor a r = some nl ∧ nl.all (·.isEmpty) = true)) ∧
    ((o.solve a).2 = none ↔ cnt ∧ refOk ∧ ∃ nl, o.listFor a r = some nl ∧ nl.all (·.isEmpty) = false) := by
  rcases o with ⟨o0, o1, oref, onl, odd⟩
  rcases a with ⟨a0, a1, anb, acut, aref⟩
  unfold DObj.solve DObj.listFor
  simp only [ne_eq]
  by_cases hc : (a0.getD o0).n = (a1.getD o1).n
  · rcases aref with _ | r
    · cases anb <;> cases acut <;> cases onl <;> simp [hc] <;> (repeat' split) <;> (try simp_all) <;> (try grind)
    · by_cases hr : r = 0 ∨ r = 1
      · cases anb <;> cases acut <;> cases onl <;> simp [hc, hr] <;> (repeat' split) <;> (try simp_all) <;> (try grind)
      · simp [hc, hr]
  · simp [hc]

/-- the broadcasting rule of the model is the test chain of the source (`gen_dispatchKind_eq_model`) read per kind. -/
theorem dispatchP_eq_byKind (n : Nat) (arg : PArg K) : dispatchP n arg = dispatchByKind n arg := by
  cases arg with
  | flat ps => simp only [dispatchP, dispatchByKind, dispatchKind]; split_ifs <;> rfl
  | nested pss => simp only [dispatchP, dispatchByKind, dispatchKind]; split_ifs <;> rfl

/-- **disregistryCall_refuses_iff**: the call raises before any plane is looked at exactly when the atom counts differ
    (the `ValueError` of `displacement`); otherwise it is the plane selection of `disregistry_refuses_iff`. -/
theorem disregistryCall_refuses_iff (atol rtol : K) (n0 n1 : Nat) (c0 c1 : Cell K) (pos0 pos1 : Nat → V3 K)
    (m n planepos : V3 K) :
    (disregistryCall atol rtol n0 n1 c0 c1 pos0 pos1 m n planepos = .error .value ↔ n0 ≠ n1) ∧
    (n0 = n1 → disregistryCall atol rtol n0 n1 c0 c1 pos0 pos1 m n planepos =
      .ok (disregistry atol rtol ((List.range n0).map fun i =>
        (V3.dot (pos0 i) m, V3.dot (pos0 i) n, c1.dv (pos0 i) (pos1 i))) (V3.dot planepos n))) := by
  unfold disregistryCall disregistryInputs displacementCall
  by_cases h : n0 = n1 <;> simp [h, displacement]

/-- **disregistryCall_rigid** (end to end): two systems with the same number of atoms, every atom moved by `u i` plus a
    lattice vector the image loops undo (`u i` strictly shortest), the atoms of every plane above `planepos·n` carrying
    `uA` and those below `uB` ⇒ the call is accepted by `displacement`, and whenever the plane selection returns a profile
    every entry of it is `uA - uB` — for any `m`, `n`, `planepos`, any cells. -/
theorem disregistryCall_rigid (atol rtol : K) (ha : 0 ≤ atol) (hr : 0 ≤ rtol) (nat : Nat) (c0 c1 : Cell K)
    (pos0 pos1 u : Nat → V3 K) (s : Nat → Shift) (m n planepos uA uB : V3 K)
    (hs : ∀ i < nat, s i ∈ cands c1.px c1.py c1.pz)
    (hu : ∀ i < nat, shiftBy c1.vects (pos1 i - pos0 i) (s i) = u i)
    (hmin : ∀ i < nat, ∀ t ∈ cands c1.px c1.py c1.pz, shiftBy c1.vects (pos1 i - pos0 i) t = u i ∨
      V3.normSq (u i) < V3.normSq (shiftBy c1.vects (pos1 i - pos0 i) t))
    (hA : ∀ i < nat, ∀ y, V3.dot planepos n < y → isclose atol rtol (V3.dot (pos0 i) n) y = true → u i = uA)
    (hB : ∀ i < nat, ∀ y, y < V3.dot planepos n → isclose atol rtol (V3.dot (pos0 i) n) y = true → u i = uB) :
    ∃ res, disregistryCall atol rtol nat nat c0 c1 pos0 pos1 m n planepos = .ok res ∧
      ∀ r, res = some r → ∀ e ∈ r, e.2 = uA - uB := by
  obtain ⟨d, hd, hdi⟩ := displacementCall_is_imposed nat c0 c1 pos0 pos1 u s hs hu hmin
  unfold disregistryCall disregistryInputs
  rw [hd]
  refine ⟨_, rfl, fun r hres e he => ?_⟩
  refine disregistry_rigid_full atol rtol ha hr _ _ uA uB r ?_ ?_ hres e he
  · intro y hy a hmem hc
    obtain ⟨i, hi, rfl⟩ := List.mem_map.1 hmem
    have hi' : i < nat := List.mem_range.1 hi
    simp only at hc ⊢
    rw [hdi i hi']
    exact hA i hi' y hy hc
  · intro y hy a hmem hc
    obtain ⟨i, hi, rfl⟩ := List.mem_map.1 hmem
    have hi' : i < nat := List.mem_range.1 hi
    simp only at hc ⊢
    rw [hdi i hi']
    exact hB i hi' y hy hc

/-! ### `stale_reads`, exactly: what a read returns while inputs were changed without `solve_G` -/
section sobj3
variable (mag : V3 K → K) (big : K)

/-- the cache (the Nye tensor aside) holds the values of the inputs `a` — those at the last `solve_G`, which need not be the
    current ones — and `G` is among the cached quantities. -/
def FrozenAt (a : SIn K) (o : SObj K) : Prop :=
  (∃ g, o.cache .G = some g) ∧ ∀ p v, p ≠ .nye → o.cache p = some v → a.val mag big p = some v

theorem derived_frozen (f : Payload K → Payload K) (p : SProp) (hp : p ≠ .nye) (a : SIn K) (o : SObj K) (par : Option (Payload K))
    (hf : FrozenAt mag big a o) (hpar : par = none ∨ ∃ q, q ≠ .nye ∧ a.val mag big q = par)
    (hval : a.val mag big p = par.map f) (hsome : par.isSome) :
    FrozenAt mag big a (derived f p (o, par)).1 ∧ (derived f p (o, par)).1.inp = o.inp ∧
      (derived f p (o, par)).2 = a.val mag big p := by
  unfold derived
  cases par with
  | none => simp at hsome
  | some v =>
    have hw : a.val mag big p = some (f v) := by rw [hval]; rfl
    show FrozenAt mag big a ⟨o.inp, setCache o.cache p (f v)⟩ ∧ o.inp = o.inp ∧ some (f v) = a.val mag big p
    refine ⟨⟨?_, ?_⟩, rfl, hw.symm⟩
    · obtain ⟨g, hg⟩ := hf.1
      by_cases h : SProp.G = p
      · exact ⟨f v, by simp [setCache, h]⟩
      · exact ⟨g, by simp [setCache, h, hg]⟩
    · intro q w hq hc
      simp only [setCache] at hc
      by_cases h : q = p
      · subst h; simp at hc; subst hc; exact hw
      · simp [h] at hc; exact hf.2 q w hq hc


/-- **stale_read_frozen** (the `stale_reads` behaviour, exactly): while `G` stays cached, a read of `G`, strain, rotation, an
    invariant or the angular velocity returns the value that follows from the inputs `a` the cache was filled from — the state
    at the last `solve_G` — WHATEVER the current inputs of the object are (positions, cell, p vectors, `theta_max` changed in
    between); the read changes no input and keeps the cache frozen at `a`. -/
theorem SObj.stale_read_frozen (a : SIn K) (o : SObj K) (hf : FrozenAt mag big a o) (p : SProp) (hp : p ≠ .nye) :
    FrozenAt mag big a (o.read mag big p).1 ∧ (o.read mag big p).1.inp = o.inp ∧
      (o.read mag big p).2 = a.val mag big p := by
  obtain ⟨g, hg⟩ := hf.1
  have hG : a.val mag big .G = some g := hf.2 _ _ (by decide) hg
  have hGv : a.valG mag big = some g := hG
  have getG : o.getG mag big = (o, some g) := by simp [SObj.getG, hg]
  have hS : FrozenAt mag big a (o.getStrain mag big).1 ∧ (o.getStrain mag big).1.inp = o.inp ∧
      (o.getStrain mag big).2 = a.val mag big .strain ∧ (o.getStrain mag big).2.isSome := by
    unfold SObj.getStrain
    cases hc : o.cache .strain with
    | some v => exact ⟨hf, rfl, (hf.2 _ _ (by decide) hc).symm, rfl⟩
    | none =>
      simp only [getG]
      obtain ⟨h1, h2, h3⟩ := derived_frozen mag big fStrain .strain (by decide) a o (some g) hf (Or.inr ⟨.G, by decide, hG⟩)
        (by simp [SIn.val, SIn.valStrain, hGv]) rfl
      exact ⟨h1, h2, h3, by simp [derived]⟩
  have hR : FrozenAt mag big a (o.getRotation mag big).1 ∧ (o.getRotation mag big).1.inp = o.inp ∧
      (o.getRotation mag big).2 = a.val mag big .rotation ∧ (o.getRotation mag big).2.isSome := by
    unfold SObj.getRotation
    cases hc : o.cache .rotation with
    | some v => exact ⟨hf, rfl, (hf.2 _ _ (by decide) hc).symm, rfl⟩
    | none =>
      simp only [getG]
      obtain ⟨h1, h2, h3⟩ := derived_frozen mag big fRotation .rotation (by decide) a o (some g) hf (Or.inr ⟨.G, by decide, hG⟩)
        (by simp [SIn.val, SIn.valRotation, hGv]) rfl
      exact ⟨h1, h2, h3, by simp [derived]⟩
  have step : ∀ (f : Payload K → Payload K) (q : SProp) (hq : q ≠ .nye) (par : SObj K × Option (Payload K)) (pq : SProp),
      pq ≠ .nye → FrozenAt mag big a par.1 → par.1.inp = o.inp → par.2 = a.val mag big pq → par.2.isSome →
      a.val mag big q = (a.val mag big pq).map f →
      FrozenAt mag big a (derived f q par).1 ∧ (derived f q par).1.inp = o.inp ∧ (derived f q par).2 = a.val mag big q := by
    intro f q hq par pq hpq h1 h2 h3 h4 h5
    obtain ⟨o', v'⟩ := par
    simp only at h1 h2 h3 h4
    obtain ⟨r1, r2, r3⟩ := derived_frozen mag big f q hq a o' v' h1 (Or.inr ⟨pq, hpq, h3.symm⟩) (by rw [h5, h3]) h4
    exact ⟨r1, r2.trans h2, r3⟩
  cases p with
  | nye => exact absurd rfl hp
  | G => rw [show o.read mag big .G = o.getG mag big from rfl, getG]; exact ⟨hf, rfl, hG.symm⟩
  | strain => exact ⟨hS.1, hS.2.1, hS.2.2.1⟩
  | rotation => exact ⟨hR.1, hR.2.1, hR.2.2.1⟩
  | inv1 =>
    simp only [SObj.read]
    cases hc : o.cache .inv1 with
    | some v => exact ⟨hf, rfl, (hf.2 _ _ (by decide) hc).symm⟩
    | none => exact step fInv1 .inv1 (by decide) _ .strain (by decide) hS.1 hS.2.1 hS.2.2.1 hS.2.2.2 rfl
  | inv2 =>
    simp only [SObj.read]
    cases hc : o.cache .inv2 with
    | some v => exact ⟨hf, rfl, (hf.2 _ _ (by decide) hc).symm⟩
    | none => exact step fInv2 .inv2 (by decide) _ .strain (by decide) hS.1 hS.2.1 hS.2.2.1 hS.2.2.2 rfl
  | inv3 =>
    simp only [SObj.read]
    cases hc : o.cache .inv3 with
    | some v => exact ⟨hf, rfl, (hf.2 _ _ (by decide) hc).symm⟩
    | none => exact step fInv3 .inv3 (by decide) _ .strain (by decide) hS.1 hS.2.1 hS.2.2.1 hS.2.2.2 rfl
  | angvel2 =>
    simp only [SObj.read]
    cases hc : o.cache .angvel2 with
    | some v => exact ⟨hf, rfl, (hf.2 _ _ (by decide) hc).symm⟩
    | none => exact step fAngvel2 .angvel2 (by decide) _ .rotation (by decide) hR.1 hR.2.1 hR.2.2.1 hR.2.2.2 rfl


/-- after a successful `solve_G` the cache is frozen at the inputs of that moment, whatever is done to the inputs afterwards
    (`inp'`: positions / cell edited in place, `set_p_vectors`, `theta_max = v` — none of them touches the cache). -/
theorem SObj.frozen_of_solve (o : SObj K) (th : Option (K × K)) (h : (o.solve mag big th).2 = true) (inp' : SIn K) :
    FrozenAt mag big (o.solve mag big th).1.inp ⟨inp', (o.solve mag big th).1.cache⟩ := by
  refine ⟨?_, fun p v _ hc => SObj.solve_coherent mag big o th h p v hc⟩
  unfold SObj.solve at h ⊢
  cases hp : o.inp.pvec with
  | none => simp [hp] at h
  | some pv => simp [setCache]

end sobj3

/-- non-vacuity: the four-atom cluster of `apiIn`, solved, then its positions edited in place (atom 1 moved): the cache is
    frozen at the inputs of the solve, a read of `strain` returns the value of THOSE inputs, not of the current ones. -/
example :
    let o := ((SObj.fresh apiIn).solve apiMag 10000000000000000 none).1
    let o' := o.setPos (fun i => if i = 1 then ⟨3/2, 1/4, 0⟩ else apiIn.pos i)
    ((o'.read apiMag 10000000000000000 .strain).2 == apiIn.val apiMag 10000000000000000 .strain) = true ∧
    ((o'.read apiMag 10000000000000000 .strain).2 == o'.inp.val apiMag 10000000000000000 .strain) = false := by
  decide +kernel

end Atomman.C17
