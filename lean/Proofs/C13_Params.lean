/-
  C13 — which shift, core centre and boundary width the generators use (model: `setShift`, `ShiftCall.step`,
  `runShiftCalls`, `resolveCenter`, `resolveWidth` in lean/Atomman/C13.lean).

  The clause of the property: "the reference system is the rotated, *shifted* perfect crystal … for all shifts /
  shift indices, core centres, boundary widths": the shift used is the shift requested, for every way of
  requesting it (vector / index / nothing; at construction, by `set_shift`, in the generator call) and every
  value of the `shiftscale` flag; a shift requested by index or by default is one of the offered shifts and so
  puts the slip plane midway between two atomic planes (`shift_between_planes`) whatever `shiftscale` says.
-/
import Proofs.C13_Lemmas

namespace Atomman.C13
open Atomman
set_option linter.unusedSectionVars false
set_option linter.unusedVariables false

variable {K : Type} [Field K] [LinearOrder K] [IsStrictOrderedRing K]

/-! ## `set_shift` -/

/-- an explicitly given vector is used as it is, or as the row combination `s.x a + s.y b + s.z c` of the box
    vectors of the rotated cell when `shiftscale` is set. -/
theorem setShift_explicit (vects : M3 K) (shifts : List (V3 K)) (s : V3 K) (sc : Bool) :
    setShift vects shifts ⟨some s, none, sc⟩
      = .ok (if sc then V3.smul s.x vects.r0 + V3.smul s.y vects.r1 + V3.smul s.z vects.r2 else s) := by
  cases sc
  · simp [setShift]
  · simp only [setShift, if_true]
    congr 1

/-- **setShift_scale_only_for_vector**: when no vector is given (`shiftindex`, or nothing at all) the outcome does
    not depend on `shiftscale`. -/
theorem setShift_scale_only_for_vector (vects : M3 K) (shifts : List (V3 K)) (i : Option Int) (sc sc' : Bool) :
    setShift vects shifts ⟨none, i, sc⟩ = setShift vects shifts ⟨none, i, sc'⟩ := by
  cases i <;> simp [setShift]

/-- `shiftindex = i` selects `shifts[i]` (Python indexing), whatever `shiftscale`. -/
theorem setShift_index (vects : M3 K) (shifts : List (V3 K)) (i : Int) (sc : Bool) (s : V3 K)
    (h : pyGet? shifts i = some s) : setShift vects shifts ⟨none, some i, sc⟩ = .ok s := by
  simp [setShift, h]

/-- neither `shift` nor `shiftindex`: the first offered shift, whatever `shiftscale`. -/
theorem setShift_default (vects : M3 K) (s : V3 K) (rest : List (V3 K)) (sc : Bool) :
    setShift vects (s :: rest) ⟨none, none, sc⟩ = .ok s := by
  simp [setShift]

/-- `shift` and `shiftindex` together are refused. -/
theorem setShift_both_refused (vects : M3 K) (shifts : List (V3 K)) (s : V3 K) (i : Int) (sc : Bool) :
    setShift vects shifts ⟨some s, some i, sc⟩ = .error "value" := by
  simp [setShift]

theorem pyGet?_mem {α : Type} (l : List α) (i : Int) (a : α) (h : pyGet? l i = some a) : a ∈ l := by
  unfold pyGet? at h
  split at h
  · exact List.mem_of_getElem? h
  · split at h
    · exact List.mem_of_getElem? h
    · cases h

/-- a shift obtained without giving a vector is one of the offered shifts. -/
theorem setShift_offered (vects : M3 K) (shifts : List (V3 K)) (i : Option Int) (sc : Bool) (s : V3 K)
    (h : setShift vects shifts ⟨none, i, sc⟩ = .ok s) : s ∈ shifts := by
  cases i with
  | none =>
    cases shifts with
    | nil => simp [setShift] at h
    | cons a r =>
      simp only [setShift, Except.ok.injEq] at h
      subst h; exact List.mem_cons_self
  | some i =>
    simp only [setShift] at h
    split at h
    · rename_i s' hs'
      simp only [Except.ok.injEq] at h
      subst h; exact pyGet?_mem _ _ _ hs'
    · cases h

/-- **shift_by_index_between_planes**: the offered shifts are the mid-plane heights along the slip-plane normal
    `nv` (`np.outer(sort(relshifts), n)`).  A shift requested by `shiftindex` or by default — at construction, through
    `set_shift` or in a generator call, with `shiftscale` set or not — is `t · nv` for an offered height `t`, and
    `t` puts the slip plane exactly midway between two consecutive atomic planes of the stack, at non-zero distance,
    with no plane in between (the conclusion of `shift_between_planes`). -/
theorem shift_by_index_between_planes (vects : M3 K) (nv : V3 K) (coords : List K) (W tol : K) (hW : 0 < W)
    (htol : 0 ≤ tol) (hs : coords.Pairwise (· < ·)) (c0 : K) (hh : coords.head? = some c0)
    (hr : ∀ c ∈ coords, c ≤ c0 + W) (i : Option Int) (sc : Bool) (s : V3 K)
    (h : setShift vects ((identifyShifts coords W tol).map (fun t => V3.smul t nv)) ⟨none, i, sc⟩ = .ok s) :
    ∃ t ∈ identifyShifts coords W tol, s = V3.smul t nv ∧
      ∃ p q : K, (p, q) ∈ C14.consec (C14.withReplica coords W tol) ∧ p < q ∧ ∃ k : Int,
        p + t = (k : K) * W - (q - p) / 2 ∧ q + t = (k : K) * W + (q - p) / 2 ∧
        ∀ c ∈ C14.withReplica coords W tol, ∀ j : Int,
          c + (j : K) * W + t ≤ (k : K) * W - (q - p) / 2 ∨ (k : K) * W + (q - p) / 2 ≤ c + (j : K) * W + t := by
  have hm := setShift_offered vects _ i sc s h
  obtain ⟨t, ht, rfl⟩ := List.mem_map.mp hm
  exact ⟨t, ht, rfl, shift_between_planes_aux coords W tol hW htol hs c0 hh hr t ht⟩

/-! ## histories of calls on one object -/

/-- `set_shift(...)` that succeeds: the object's shift is the resolved one, and that is what is reported. -/
theorem step_set_ok (vects : M3 K) (shifts : List (V3 K)) (cur s : V3 K) (a : ShiftArgs K)
    (h : setShift vects shifts a = .ok s) : (ShiftCall.set a).step vects shifts cur = (s, .ok s) := by
  simp [ShiftCall.step, h]

/-- a generator called with a `shift` or a `shiftindex` resolves it exactly as `set_shift` does. -/
theorem step_gen_given (vects : M3 K) (shifts : List (V3 K)) (cur : V3 K) (a : ShiftArgs K) (h : a.given = true) :
    (ShiftCall.gen a).step vects shifts cur = (ShiftCall.set a).step vects shifts cur := by
  simp [ShiftCall.step, h]

/-- **step_gen_keeps**: a generator called without `shift` and without `shiftindex` uses the shift the object
    already has (set at construction or by an earlier call) — also when `shiftscale=True` is passed. -/
theorem step_gen_keeps (vects : M3 K) (shifts : List (V3 K)) (cur : V3 K) (sc : Bool) :
    (ShiftCall.gen ⟨none, none, sc⟩).step vects shifts cur = (cur, .ok cur) := by
  simp [ShiftCall.step, ShiftArgs.given]

/-- a refused call leaves the object's shift as it was. -/
theorem step_refused_keeps (vects : M3 K) (shifts : List (V3 K)) (cur : V3 K) (c : ShiftCall K) (e : String)
    (h : (c.step vects shifts cur).2 = .error e) : (c.step vects shifts cur).1 = cur := by
  cases c with
  | set a =>
    simp only [ShiftCall.step] at h ⊢
    split at h <;> simp_all
  | gen a =>
    simp only [ShiftCall.step] at h ⊢
    split at h
    · split at h <;> simp_all
    · simp_all

/-- every accepted call reports the shift the object has afterwards: the shift used is the shift in force. -/
theorem step_reports_state (vects : M3 K) (shifts : List (V3 K)) (cur s : V3 K) (c : ShiftCall K)
    (h : (c.step vects shifts cur).2 = .ok s) : (c.step vects shifts cur).1 = s := by
  cases c with
  | set a =>
    simp only [ShiftCall.step] at h ⊢
    split at h <;> simp_all
  | gen a =>
    simp only [ShiftCall.step] at h ⊢
    split at h
    · split at h <;> simp_all
    · simp_all

theorem runShiftCalls_append (vects : M3 K) (shifts : List (V3 K)) (cur : V3 K) (cs : List (ShiftCall K))
    (c : ShiftCall K) :
    runShiftCalls vects shifts cur (cs ++ [c])
      = ((c.step vects shifts (runShiftCalls vects shifts cur cs).1).1,
         (runShiftCalls vects shifts cur cs).2 ++ [(c.step vects shifts (runShiftCalls vects shifts cur cs).1).2]) := by
  induction cs generalizing cur with
  | nil => simp [runShiftCalls]
  | cons d ds ih => simp [runShiftCalls, ih]

/-- **shift_history**: after any history of calls, a final generator call that names its shift by index (or a
    `set_shift` without a vector) gets an offered shift, independent of everything before and of `shiftscale`; a final
    generator call without shift arguments gets whatever the history left. -/
theorem shift_history_index (vects : M3 K) (shifts : List (V3 K)) (cur : V3 K) (cs : List (ShiftCall K)) (i : Int)
    (sc : Bool) (s : V3 K) (h : pyGet? shifts i = some s) :
    (runShiftCalls vects shifts cur (cs ++ [.gen ⟨none, some i, sc⟩])).1 = s := by
  rw [runShiftCalls_append]
  simp [ShiftCall.step, ShiftArgs.given, setShift, h]

theorem shift_history_keeps (vects : M3 K) (shifts : List (V3 K)) (cur : V3 K) (cs : List (ShiftCall K)) (sc : Bool) :
    (runShiftCalls vects shifts cur (cs ++ [.gen ⟨none, none, sc⟩])).1 = (runShiftCalls vects shifts cur cs).1 := by
  rw [runShiftCalls_append, step_gen_keeps]

/-! ## centre and boundary width -/

/-- no `center`: the origin, whatever `centerscale`. -/
theorem resolveCenter_none (vects : M3 K) (sc : Bool) : resolveCenter vects none sc = ⟨0, 0, 0⟩ := by
  cases sc <;> simp [resolveCenter, M3.vecMul]

/-- `centerscale`: the centre is the combination `c.x a + c.y b + c.z c` of the box vectors (rows) of the rotated
    cell; without it the vector itself. -/
theorem resolveCenter_some (vects : M3 K) (c : V3 K) (sc : Bool) :
    resolveCenter vects (some c) sc
      = if sc then V3.smul c.x vects.r0 + V3.smul c.y vects.r1 + V3.smul c.z vects.r2 else c := by
  cases sc
  · simp [resolveCenter]
  · simp only [resolveCenter, Option.getD_some, if_true]
    congr 1

/-- `boundaryscale`: the width in units of the given unit cell's `a`; a zero width stays zero. -/
theorem resolveWidth_spec (a w : K) (sc : Bool) :
    resolveWidth a w sc = (if sc then w * a else w) ∧ resolveWidth a 0 sc = 0 := by
  cases sc <;> simp [resolveWidth]

/-! non-vacuity (ℚ): a tilted rotated cell, two offered shifts -/
section examples
def exV : M3 ℚ := ⟨⟨2, 0, 0⟩, ⟨1, 3, 0⟩, ⟨0, 1 / 2, 4⟩⟩
def exS : List (V3 ℚ) := [⟨0, 0, 1⟩, ⟨0, 0, 3⟩]

example : setShift exV exS ⟨none, some 1, true⟩ = .ok ⟨0, 0, 3⟩ := by decide +kernel
example : setShift exV exS ⟨none, some (-2), true⟩ = .ok ⟨0, 0, 1⟩ := by decide +kernel
example : setShift exV exS ⟨none, some 2, false⟩ = .error "index" := by decide +kernel
example : setShift exV exS ⟨some ⟨0, 1 / 2, 1 / 4⟩, none, true⟩ = .ok ⟨1 / 2, 13 / 8, 1⟩ := by decide +kernel
example : (runShiftCalls exV exS ⟨0, 0, 1⟩
    [.gen ⟨some ⟨0, 0, 1 / 4⟩, none, true⟩, .gen ⟨none, none, true⟩, .set ⟨some ⟨1, 1, 1⟩, some 0, false⟩]).1
    = ⟨0, 1 / 8, 1⟩ := by decide +kernel
example : resolveCenter exV (some ⟨0, 1, 1⟩) true = ⟨1, 7 / 2, 4⟩ := by decide +kernel
end examples

end Atomman.C13
