/-
  C11 — crystal-system templates (generated from the constructors) and their symmetry rotations.
  * rotations with entries 0, ±1 are signed permutations: the rotated 6x6 is read off entry by entry (`sp_entry`);
  * isotropic and hexagonal templates are sums of products of `δ` and `e_z e_zᵀ`, invariant under every orthogonal
    map fixing `δ` and `e_z e_zᵀ` (so: under *every* rotation about `z`);
  * the rhombohedral template under the three-fold axis is checked entry by entry with `r*r = 3`.
-/
import Proofs.C11_Lemmas

namespace Atomman.C11
open Atomman.Gen Matrix Kronecker
set_option linter.unusedSectionVars false
set_option linter.unusedSimpArgs false
set_option linter.unusedVariables false
set_option linter.unnecessarySeqFocus false
set_option linter.unusedTactic false
set_option linter.unreachableTactic false

variable {K : Type} [Field K] [CharZero K]

/-! ## generating rotations -/

/-- rotation about `z` with `cos = c`, `sin = s` (rows are the new axes). -/
def rotZ (c s : K) : M33 K := m33 [c, s, 0, -s, c, 0, 0, 0, 1]
/-- four-fold rotations about `z`, `x`, `y`; three-fold about `[111]`; two-fold about `x`, `y`, `z`. -/
def R4z : M33 K := m33 [0, 1, 0, -1, 0, 0, 0, 0, 1]
def R4x : M33 K := m33 [1, 0, 0, 0, 0, 1, 0, -1, 0]
def R4y : M33 K := m33 [0, 0, -1, 0, 1, 0, 1, 0, 0]
def R3d : M33 K := m33 [0, 1, 0, 0, 0, 1, 1, 0, 0]
def R2x : M33 K := m33 [1, 0, 0, 0, -1, 0, 0, 0, -1]
def R2y : M33 K := m33 [-1, 0, 0, 0, 1, 0, 0, 0, -1]
def R2z : M33 K := m33 [-1, 0, 0, 0, -1, 0, 0, 0, 1]

def det3 (T : M33 K) : K :=
  T 0 0 * (T 1 1 * T 2 2 - T 1 2 * T 2 1) - T 0 1 * (T 1 0 * T 2 2 - T 1 2 * T 2 0)
    + T 0 2 * (T 1 0 * T 2 1 - T 1 1 * T 2 0)

/-- proper rotation: orthogonal with determinant one. -/
def ProperRot (T : M33 K) : Prop := Orthogonal T ∧ det3 T = 1

theorem rotZ_proper (c s : K) (h : c * c + s * s = 1) : ProperRot (rotZ c s) := by
  constructor
  · funext i j
    fin_cases i <;> fin_cases j <;> simp [mmul, mtr, mone, sum3, rotZ, m33] <;>
      first | ring1 | linear_combination h
  · simp [det3, rotZ, m33]; linear_combination h

macro "proper_lit" : tactic => `(tactic|
  (constructor
   · funext i j
     fin_cases i <;> fin_cases j <;> simp [mmul, mtr, mone, sum3, R4z, R4x, R4y, R3d, R2x, R2y, R2z, m33]
   · simp [det3, R4z, R4x, R4y, R3d, R2x, R2y, R2z, m33]))

theorem R4z_proper : ProperRot (R4z : M33 K) := by proper_lit
theorem R4x_proper : ProperRot (R4x : M33 K) := by proper_lit
theorem R4y_proper : ProperRot (R4y : M33 K) := by proper_lit
theorem R3d_proper : ProperRot (R3d : M33 K) := by proper_lit
theorem R2x_proper : ProperRot (R2x : M33 K) := by proper_lit
theorem R2y_proper : ProperRot (R2y : M33 K) := by proper_lit
theorem R2z_proper : ProperRot (R2z : M33 K) := by proper_lit

/-! signed-permutation form -/
def πid : Fin 3 → Fin 3 := fun i => i
def π4z : Fin 3 → Fin 3 := fun i => if i = 0 then 1 else if i = 1 then 0 else 2
def σ4z : Fin 3 → K := fun i => if i = 1 then -1 else 1
def π4x : Fin 3 → Fin 3 := fun i => if i = 0 then 0 else if i = 1 then 2 else 1
def σ4x : Fin 3 → K := fun i => if i = 2 then -1 else 1
def π4y : Fin 3 → Fin 3 := fun i => if i = 0 then 2 else if i = 1 then 1 else 0
def σ4y : Fin 3 → K := fun i => if i = 0 then -1 else 1
def π3d : Fin 3 → Fin 3 := fun i => if i = 0 then 1 else if i = 1 then 2 else 0
def σ1 : Fin 3 → K := fun _ => 1
def σ2x : Fin 3 → K := fun i => if i = 0 then 1 else -1
def σ2y : Fin 3 → K := fun i => if i = 1 then 1 else -1
def σ2z : Fin 3 → K := fun i => if i = 2 then 1 else -1

macro "sp_lit" : tactic => `(tactic|
  (funext i g
   fin_cases i <;> fin_cases g <;>
     simp [R4z, R4x, R4y, R3d, R2x, R2y, R2z, m33, spMat, πid, π4z, σ4z, π4x, σ4x, π4y, σ4y, π3d, σ1, σ2x, σ2y, σ2z]))

theorem R4z_sp : (R4z : M33 K) = spMat π4z σ4z := by sp_lit
theorem R4x_sp : (R4x : M33 K) = spMat π4x σ4x := by sp_lit
theorem R4y_sp : (R4y : M33 K) = spMat π4y σ4y := by sp_lit
theorem R3d_sp : (R3d : M33 K) = spMat π3d σ1 := by sp_lit
theorem R2x_sp : (R2x : M33 K) = spMat πid σ2x := by sp_lit
theorem R2y_sp : (R2y : M33 K) = spMat πid σ2y := by sp_lit
theorem R2z_sp : (R2z : M33 K) = spMat πid σ2z := by sp_lit

/-- evaluate all 36 entries of a template rotated by a signed permutation. -/
macro "sp_entries" tmpl:ident : tactic => `(tactic|
  (obtain ⟨p0, p1, p2, p3, p4, p5⟩ := pairOf_vals
   obtain ⟨v00, v01, v02, v10, v11, v12, v20, v21, v22⟩ := voigt_vals
   intro a b
   rw [sp_entry]
   fin_cases a <;> fin_cases b <;>
     simp [p0, p1, p2, p3, p4, p5, πid, π4z, σ4z, π4x, σ4x, π4y, σ4y, π3d, σ1, σ2x, σ2y, σ2z,
       v00, v01, v02, v10, v11, v12, v20, v21, v22, m6, $tmpl:ident]))

/-! ## cubic -/
section cubic
variable (C11 C12 C44 : K)

theorem cubic_R4z : rot R4z (cijklGet (m6 (ctor_C11_C12_C44 C11 C12 C44))) = cijklGet (m6 (ctor_C11_C12_C44 C11 C12 C44)) := by
  apply invariant_of_entries; rw [R4z_sp]; sp_entries ctor_C11_C12_C44
theorem cubic_R4x : rot R4x (cijklGet (m6 (ctor_C11_C12_C44 C11 C12 C44))) = cijklGet (m6 (ctor_C11_C12_C44 C11 C12 C44)) := by
  apply invariant_of_entries; rw [R4x_sp]; sp_entries ctor_C11_C12_C44
theorem cubic_R4y : rot R4y (cijklGet (m6 (ctor_C11_C12_C44 C11 C12 C44))) = cijklGet (m6 (ctor_C11_C12_C44 C11 C12 C44)) := by
  apply invariant_of_entries; rw [R4y_sp]; sp_entries ctor_C11_C12_C44
theorem cubic_R3d : rot R3d (cijklGet (m6 (ctor_C11_C12_C44 C11 C12 C44))) = cijklGet (m6 (ctor_C11_C12_C44 C11 C12 C44)) := by
  apply invariant_of_entries; rw [R3d_sp]; sp_entries ctor_C11_C12_C44
end cubic

/-! ## tetragonal -/
section tetragonal
variable (C11 C12 C13 C16 C33 C44 C66 : K)

theorem tetragonal7_R4z :
    rot R4z (cijklGet (m6 (ctor_C11_C12_C13_C16_C33_C44_C66 C11 C12 C13 C16 C33 C44 C66)))
      = cijklGet (m6 (ctor_C11_C12_C13_C16_C33_C44_C66 C11 C12 C13 C16 C33 C44 C66)) := by
  apply invariant_of_entries; rw [R4z_sp]; sp_entries ctor_C11_C12_C13_C16_C33_C44_C66
theorem tetragonal6_R4z :
    rot R4z (cijklGet (m6 (ctor_C11_C12_C13_C33_C44_C66 C11 C12 C13 C33 C44 C66)))
      = cijklGet (m6 (ctor_C11_C12_C13_C33_C44_C66 C11 C12 C13 C33 C44 C66)) := by
  apply invariant_of_entries; rw [R4z_sp]; sp_entries ctor_C11_C12_C13_C33_C44_C66
theorem tetragonal6_R2x :
    rot R2x (cijklGet (m6 (ctor_C11_C12_C13_C33_C44_C66 C11 C12 C13 C33 C44 C66)))
      = cijklGet (m6 (ctor_C11_C12_C13_C33_C44_C66 C11 C12 C13 C33 C44 C66)) := by
  apply invariant_of_entries; rw [R2x_sp]; sp_entries ctor_C11_C12_C13_C33_C44_C66
end tetragonal

/-! ## orthorhombic, monoclinic -/
section ortho
variable (C11 C12 C13 C22 C23 C33 C44 C55 C66 C15 C25 C35 C46 : K)

theorem orthorhombic_R2x :
    rot R2x (cijklGet (m6 (ctor_C11_C12_C13_C22_C23_C33_C44_C55_C66 C11 C12 C13 C22 C23 C33 C44 C55 C66)))
      = cijklGet (m6 (ctor_C11_C12_C13_C22_C23_C33_C44_C55_C66 C11 C12 C13 C22 C23 C33 C44 C55 C66)) := by
  apply invariant_of_entries; rw [R2x_sp]; sp_entries ctor_C11_C12_C13_C22_C23_C33_C44_C55_C66
theorem orthorhombic_R2y :
    rot R2y (cijklGet (m6 (ctor_C11_C12_C13_C22_C23_C33_C44_C55_C66 C11 C12 C13 C22 C23 C33 C44 C55 C66)))
      = cijklGet (m6 (ctor_C11_C12_C13_C22_C23_C33_C44_C55_C66 C11 C12 C13 C22 C23 C33 C44 C55 C66)) := by
  apply invariant_of_entries; rw [R2y_sp]; sp_entries ctor_C11_C12_C13_C22_C23_C33_C44_C55_C66
theorem orthorhombic_R2z :
    rot R2z (cijklGet (m6 (ctor_C11_C12_C13_C22_C23_C33_C44_C55_C66 C11 C12 C13 C22 C23 C33 C44 C55 C66)))
      = cijklGet (m6 (ctor_C11_C12_C13_C22_C23_C33_C44_C55_C66 C11 C12 C13 C22 C23 C33 C44 C55 C66)) := by
  apply invariant_of_entries; rw [R2z_sp]; sp_entries ctor_C11_C12_C13_C22_C23_C33_C44_C55_C66

theorem monoclinic_R2y :
    rot R2y (cijklGet (m6 (ctor_C11_C12_C13_C15_C22_C23_C25_C33_C35_C44_C46_C55_C66
        C11 C12 C13 C15 C22 C23 C25 C33 C35 C44 C46 C55 C66)))
      = cijklGet (m6 (ctor_C11_C12_C13_C15_C22_C23_C25_C33_C35_C44_C46_C55_C66
        C11 C12 C13 C15 C22 C23 C25 C33 C35 C44 C46 C55 C66)) := by
  apply invariant_of_entries; rw [R2y_sp]; sp_entries ctor_C11_C12_C13_C15_C22_C23_C25_C33_C35_C44_C46_C55_C66
end ortho

/-! ## isotropic and hexagonal: sums of products of `δ` and `e_z e_zᵀ` -/

/-- `e_z e_zᵀ`. -/
def nz : M33 K := fun i j => if i = 2 ∧ j = 2 then 1 else 0

def isoT (lam mu : K) : T4 K := lam • p12 mone mone + mu • (p13 mone mone + p14 mone mone)

def hexT (a b c d e : K) : T4 K :=
  a • p12 mone mone + b • (p13 mone mone + p14 mone mone) + c • (p12 mone nz + p12 nz mone)
    + d • (p13 mone nz + p14 mone nz + p13 nz mone + p14 nz mone) + e • p12 nz nz

theorem rot_isoT (T : M33 K) (h : Orthogonal T) (lam mu : K) : rot T (isoT lam mu) = isoT lam mu := by
  simp only [isoT, rot_add', rot_smul', rot_p12, rot_p13, rot_p14, conj_mone T h]

theorem rot_hexT (T : M33 K) (h : Orthogonal T) (hz : conj T nz = nz) (a b c d e : K) :
    rot T (hexT a b c d e) = hexT a b c d e := by
  simp only [hexT, rot_add', rot_smul', rot_p12, rot_p13, rot_p14, conj_mone T h, hz]

/-- a map whose third column is `e_z` fixes `e_z e_zᵀ`. -/
theorem conj_nz (T : M33 K) (hz : ∀ i, T i 2 = mone i 2) : conj T nz = nz := by
  funext i j
  simp [conj, mmul, mtr, sum3, nz, hz]
  fin_cases i <;> fin_cases j <;> simp [mone]

theorem MinorSymm.add {C D : T4 K} (hC : MinorSymm C) (hD : MinorSymm D) : MinorSymm (C + D) := by
  intro i j k l
  simp only [Pi.add_apply]
  exact ⟨by rw [(hC i j k l).1, (hD i j k l).1], by rw [(hC i j k l).2, (hD i j k l).2]⟩

theorem MinorSymm.smul {C : T4 K} (a : K) (hC : MinorSymm C) : MinorSymm (a • C) := by
  intro i j k l
  simp only [Pi.smul_apply, smul_eq_mul]
  exact ⟨by rw [(hC i j k l).1], by rw [(hC i j k l).2]⟩

theorem minor_p12 {A B : M33 K} (hA : ∀ i j, A i j = A j i) (hB : ∀ i j, B i j = B j i) : MinorSymm (p12 A B) := by
  intro i j k l
  simp only [p12]
  exact ⟨by rw [hA i j], by rw [hB k l]⟩

theorem minor_p134 (A B : M33 K) : MinorSymm (p13 A B + p14 A B + p13 B A + p14 B A) := by
  intro i j k l
  simp only [Pi.add_apply, p13, p14]
  constructor <;> ring

theorem minor_p134_self (A : M33 K) : MinorSymm (p13 A A + p14 A A) := by
  intro i j k l
  simp only [Pi.add_apply, p13, p14]
  constructor <;> ring

theorem mone_symm (i j : Fin 3) : (mone : M33 K) i j = mone j i := by
  simp only [mone, eq_comm]
theorem nz_symm (i j : Fin 3) : (nz : M33 K) i j = nz j i := by
  simp only [nz, and_comm]

theorem isoT_minor (lam mu : K) : MinorSymm (isoT lam mu) :=
  ((minor_p12 mone_symm mone_symm).smul lam).add ((minor_p134_self mone).smul mu)

theorem hexT_minor (a b c d e : K) : MinorSymm (hexT a b c d e) := by
  refine ((((minor_p12 mone_symm mone_symm).smul a).add ((minor_p134_self mone).smul b)).add
    (((minor_p12 mone_symm nz_symm).add (minor_p12 nz_symm mone_symm)).smul c)).add
    ((minor_p134 mone nz).smul d) |>.add ((minor_p12 nz_symm nz_symm).smul e)

/-- a template whose 6x6 is the 6x6 of a block tensor `H` has `H` as its tensor. -/
theorem cijklGet_of_setRaw (c : M6 K) (H : T4 K) (hH : MinorSymm H) (h : c = cijklSetRaw H) : cijklGet c = H := by
  apply eq_of_setRaw_eq (cijklGet_minor c) hH
  funext a b
  rw [cijklSetRaw_eq, cijklGet_eq, voigt_pairOf, voigt_pairOf, h]

macro "block_entries" tmpl:ident : tactic => `(tactic|
  (obtain ⟨p0, p1, p2, p3, p4, p5⟩ := pairOf_vals
   funext a b
   fin_cases a <;> fin_cases b <;>
     simp [m6, $tmpl:ident, cijklSetRaw_eq, p0, p1, p2, p3, p4, p5, hexT, isoT, p12, p13, p14, mone, nz] <;> ring))

/-- the isotropic 6x6 literal `[c12 + 2 c44, c12, c44]` is the tensor `λ δδ + μ (δδ + δδ)`. -/
theorem iso_template (lam mu : K) : m6 (ctor_C12_C44 lam mu) = cijklSetRaw (isoT lam mu) := by
  block_entries ctor_C12_C44

theorem iso_invariant (T : M33 K) (h : Orthogonal T) (lam mu : K) :
    rot T (cijklGet (m6 (ctor_C12_C44 lam mu))) = cijklGet (m6 (ctor_C12_C44 lam mu)) := by
  rw [cijklGet_of_setRaw _ _ (isoT_minor lam mu) (iso_template lam mu), rot_isoT T h]

theorem hex_template (C11 C12 C13 C33 C44 : K) :
    m6 (ctor_C11_C12_C13_C33_C44 C11 C12 C13 C33 C44)
      = cijklSetRaw (hexT C12 ((C11 - C12) / 2) (C13 - C12) (C44 - (C11 - C12) / 2)
          (C33 - C12 - 2 * ((C11 - C12) / 2) - 2 * (C13 - C12) - 4 * (C44 - (C11 - C12) / 2))) := by
  block_entries ctor_C11_C12_C13_C33_C44

theorem hex_invariant (T : M33 K) (h : Orthogonal T) (hz : ∀ i, T i 2 = mone i 2) (C11 C12 C13 C33 C44 : K) :
    rot T (cijklGet (m6 (ctor_C11_C12_C13_C33_C44 C11 C12 C13 C33 C44)))
      = cijklGet (m6 (ctor_C11_C12_C13_C33_C44 C11 C12 C13 C33 C44)) := by
  rw [cijklGet_of_setRaw _ _ (hexT_minor _ _ _ _ _) (hex_template C11 C12 C13 C33 C44),
    rot_hexT T h (conj_nz T hz)]

theorem hex_R2x (C11 C12 C13 C33 C44 : K) :
    rot R2x (cijklGet (m6 (ctor_C11_C12_C13_C33_C44 C11 C12 C13 C33 C44)))
      = cijklGet (m6 (ctor_C11_C12_C13_C33_C44 C11 C12 C13 C33 C44)) := by
  apply invariant_of_entries; rw [R2x_sp]; sp_entries ctor_C11_C12_C13_C33_C44

theorem rotZ_col (c s : K) (i : Fin 3) : rotZ c s i 2 = mone i 2 := by
  fin_cases i <;> simp [rotZ, m33, mone]

/-! ## rhombohedral: three-fold axis, `cos = -1/2`, `sin = r/2`, `r*r = 3` -/

theorem rotZ_entries (c s : K) : rotZ c s 0 0 = c ∧ rotZ c s 0 1 = s ∧ rotZ c s 0 2 = 0 ∧ rotZ c s 1 0 = -s ∧
    rotZ c s 1 1 = c ∧ rotZ c s 1 2 = 0 ∧ rotZ c s 2 0 = 0 ∧ rotZ c s 2 1 = 0 ∧ rotZ c s 2 2 = 1 := by
  simp [rotZ, m33]

section rhombo
variable (C11 C12 C13 C14 C15 C33 C44 r : K) (hr : r * r = 3)

local notation "rhC" => m6 (ctor_C11_C12_C13_C14_C15_C33_C44 C11 C12 C13 C14 C15 C33 C44)

/-- the generated rhombohedral literal, entry by entry. -/
theorem rh_entries :
    (rhC 0 0 = C11 ∧ rhC 0 1 = C12 ∧ rhC 0 2 = C13 ∧ rhC 0 3 = C14 ∧ rhC 0 4 = C15 ∧ rhC 0 5 = 0) ∧
    (rhC 1 0 = C12 ∧ rhC 1 1 = C11 ∧ rhC 1 2 = C13 ∧ rhC 1 3 = -C14 ∧ rhC 1 4 = -C15 ∧ rhC 1 5 = 0) ∧
    (rhC 2 0 = C13 ∧ rhC 2 1 = C13 ∧ rhC 2 2 = C33 ∧ rhC 2 3 = 0 ∧ rhC 2 4 = 0 ∧ rhC 2 5 = 0) ∧
    (rhC 3 0 = C14 ∧ rhC 3 1 = -C14 ∧ rhC 3 2 = 0 ∧ rhC 3 3 = C44 ∧ rhC 3 4 = 0 ∧ rhC 3 5 = -C15) ∧
    (rhC 4 0 = C15 ∧ rhC 4 1 = -C15 ∧ rhC 4 2 = 0 ∧ rhC 4 3 = 0 ∧ rhC 4 4 = C44 ∧ rhC 4 5 = C14) ∧
    (rhC 5 0 = 0 ∧ rhC 5 1 = 0 ∧ rhC 5 2 = 0 ∧ rhC 5 3 = -C15 ∧ rhC 5 4 = C14 ∧ rhC 5 5 = (C11 - C12) / 2) := by
  simp [m6, ctor_C11_C12_C13_C14_C15_C33_C44]

include hr

theorem rh_row (a b : Fin 6) : cijklSetRaw (rot (rotZ (-1/2) (r/2)) (cijklGet rhC)) a b = rhC a b := by
  have h2 : (2:K) ≠ 0 := two_ne_zero
  obtain ⟨p0, p1, p2, p3, p4, p5⟩ := pairOf_vals
  obtain ⟨v00, v01, v02, v10, v11, v12, v20, v21, v22⟩ := voigt_vals
  obtain ⟨t00, t01, t02, t10, t11, t12, t20, t21, t22⟩ := rotZ_entries (-1/2 : K) (r/2)
  obtain ⟨⟨a00, a01, a02, a03, a04, a05⟩, ⟨a10, a11, a12, a13, a14, a15⟩, ⟨a20, a21, a22, a23, a24, a25⟩,
    ⟨a30, a31, a32, a33, a34, a35⟩, ⟨a40, a41, a42, a43, a44, a45⟩, ⟨a50, a51, a52, a53, a54, a55⟩⟩ :=
    rh_entries C11 C12 C13 C14 C15 C33 C44
  fin_cases a <;> fin_cases b <;>
  (simp only [cijklSetRaw_eq, p0, p1, p2, p3, p4, p5, rot_apply, Fin.sum_univ_three, cijklGet_eq,
      v00, v01, v02, v10, v11, v12, v20, v21, v22, Fin.zero_eta, Fin.mk_one, Fin.reduceFinMk,
      t00, t01, t02, t10, t11, t12, t20, t21, t22,
      a00, a01, a02, a03, a04, a05, a10, a11, a12, a13, a14, a15, a20, a21, a22, a23, a24, a25,
      a30, a31, a32, a33, a34, a35, a40, a41, a42, a43, a44, a45, a50, a51, a52, a53, a54, a55,
      mul_zero, zero_mul, add_zero, zero_add, mul_one, one_mul] <;> field_simp <;> grind)

theorem rhombohedral_R3z : rot (rotZ (-1/2) (r/2)) (cijklGet rhC) = cijklGet rhC :=
  invariant_of_entries _ _ (rh_row C11 C12 C13 C14 C15 C33 C44 r hr)
end rhombo

/-- without `C15` the rhombohedral template also has the two-fold axis `x`. -/
theorem rhombohedral6_R2x (C11 C12 C13 C14 C33 C44 : K) :
    rot R2x (cijklGet (m6 (ctor_C11_C12_C13_C14_C33_C44 C11 C12 C13 C14 C33 C44)))
      = cijklGet (m6 (ctor_C11_C12_C13_C14_C33_C44 C11 C12 C13 C14 C33 C44)) := by
  apply invariant_of_entries; rw [R2x_sp]; sp_entries ctor_C11_C12_C13_C14_C33_C44


/-! ## the templates are symmetric and carry each named constant `Cab` at `[a-1, b-1]` -/

macro "symm_entries" tmpl:ident : tactic => `(tactic|
  (intro a b
   fin_cases a <;> fin_cases b <;> simp [m6, $tmpl:ident]))

section named
variable (C11 C12 C13 C14 C15 C16 C22 C23 C24 C25 C26 C33 C34 C35 C36 C44 C45 C46 C55 C56 C66 : K)

theorem cubic_symm : Symm6 (m6 (ctor_C11_C12_C44 C11 C12 C44)) := by symm_entries ctor_C11_C12_C44
theorem hexagonal_symm : Symm6 (m6 (ctor_C11_C12_C13_C33_C44 C11 C12 C13 C33 C44)) := by
  symm_entries ctor_C11_C12_C13_C33_C44
theorem rhombohedral_symm : Symm6 (m6 (ctor_C11_C12_C13_C14_C15_C33_C44 C11 C12 C13 C14 C15 C33 C44)) := by
  symm_entries ctor_C11_C12_C13_C14_C15_C33_C44
theorem tetragonal_symm : Symm6 (m6 (ctor_C11_C12_C13_C16_C33_C44_C66 C11 C12 C13 C16 C33 C44 C66)) := by
  symm_entries ctor_C11_C12_C13_C16_C33_C44_C66
theorem orthorhombic_symm :
    Symm6 (m6 (ctor_C11_C12_C13_C22_C23_C33_C44_C55_C66 C11 C12 C13 C22 C23 C33 C44 C55 C66)) := by
  symm_entries ctor_C11_C12_C13_C22_C23_C33_C44_C55_C66
theorem monoclinic_symm :
    Symm6 (m6 (ctor_C11_C12_C13_C15_C22_C23_C25_C33_C35_C44_C46_C55_C66
      C11 C12 C13 C15 C22 C23 C25 C33 C35 C44 C46 C55 C66)) := by
  symm_entries ctor_C11_C12_C13_C15_C22_C23_C25_C33_C35_C44_C46_C55_C66
theorem triclinic_symm :
    Symm6 (m6 (ctor_C11_C12_C13_C14_C15_C16_C22_C23_C24_C25_C26_C33_C34_C35_C36_C44_C45_C46_C55_C56_C66
      C11 C12 C13 C14 C15 C16 C22 C23 C24 C25 C26 C33 C34 C35 C36 C44 C45 C46 C55 C56 C66)) := by
  symm_entries ctor_C11_C12_C13_C14_C15_C16_C22_C23_C24_C25_C26_C33_C34_C35_C36_C44_C45_C46_C55_C56_C66

theorem cubic_named :
    let c := m6 (ctor_C11_C12_C44 C11 C12 C44)
    c 0 0 = C11 ∧ c 0 1 = C12 ∧ c 3 3 = C44 := by simp [m6, ctor_C11_C12_C44]
theorem hexagonal_named :
    let c := m6 (ctor_C11_C12_C13_C33_C44 C11 C12 C13 C33 C44)
    c 0 0 = C11 ∧ c 0 1 = C12 ∧ c 0 2 = C13 ∧ c 2 2 = C33 ∧ c 3 3 = C44 ∧ 2 * c 5 5 = C11 - C12 := by
  simp [m6, ctor_C11_C12_C13_C33_C44]; ring
theorem rhombohedral_named :
    let c := m6 (ctor_C11_C12_C13_C14_C15_C33_C44 C11 C12 C13 C14 C15 C33 C44)
    c 0 0 = C11 ∧ c 0 1 = C12 ∧ c 0 2 = C13 ∧ c 0 3 = C14 ∧ c 0 4 = C15 ∧ c 2 2 = C33 ∧ c 3 3 = C44 ∧
      2 * c 5 5 = C11 - C12 := by
  simp [m6, ctor_C11_C12_C13_C14_C15_C33_C44]; ring
theorem tetragonal_named :
    let c := m6 (ctor_C11_C12_C13_C16_C33_C44_C66 C11 C12 C13 C16 C33 C44 C66)
    c 0 0 = C11 ∧ c 0 1 = C12 ∧ c 0 2 = C13 ∧ c 0 5 = C16 ∧ c 2 2 = C33 ∧ c 3 3 = C44 ∧ c 5 5 = C66 := by
  simp [m6, ctor_C11_C12_C13_C16_C33_C44_C66]
theorem orthorhombic_named :
    let c := m6 (ctor_C11_C12_C13_C22_C23_C33_C44_C55_C66 C11 C12 C13 C22 C23 C33 C44 C55 C66)
    c 0 0 = C11 ∧ c 0 1 = C12 ∧ c 0 2 = C13 ∧ c 1 1 = C22 ∧ c 1 2 = C23 ∧ c 2 2 = C33 ∧ c 3 3 = C44 ∧ c 4 4 = C55 ∧
      c 5 5 = C66 := by
  simp [m6, ctor_C11_C12_C13_C22_C23_C33_C44_C55_C66]
theorem monoclinic_named :
    let c := m6 (ctor_C11_C12_C13_C15_C22_C23_C25_C33_C35_C44_C46_C55_C66
      C11 C12 C13 C15 C22 C23 C25 C33 C35 C44 C46 C55 C66)
    c 0 0 = C11 ∧ c 0 1 = C12 ∧ c 0 2 = C13 ∧ c 0 4 = C15 ∧ c 1 1 = C22 ∧ c 1 2 = C23 ∧ c 1 4 = C25 ∧ c 2 2 = C33 ∧
      c 2 4 = C35 ∧ c 3 3 = C44 ∧ c 3 5 = C46 ∧ c 4 4 = C55 ∧ c 5 5 = C66 := by
  simp [m6, ctor_C11_C12_C13_C15_C22_C23_C25_C33_C35_C44_C46_C55_C66]
theorem triclinic_named :
    let c := m6 (ctor_C11_C12_C13_C14_C15_C16_C22_C23_C24_C25_C26_C33_C34_C35_C36_C44_C45_C46_C55_C56_C66
      C11 C12 C13 C14 C15 C16 C22 C23 C24 C25 C26 C33 C34 C35 C36 C44 C45 C46 C55 C56 C66)
    c 0 0 = C11 ∧ c 0 1 = C12 ∧ c 0 2 = C13 ∧ c 0 3 = C14 ∧ c 0 4 = C15 ∧ c 0 5 = C16 ∧ c 1 1 = C22 ∧ c 1 2 = C23 ∧
    c 1 3 = C24 ∧ c 1 4 = C25 ∧ c 1 5 = C26 ∧ c 2 2 = C33 ∧ c 2 3 = C34 ∧ c 2 4 = C35 ∧ c 2 5 = C36 ∧ c 3 3 = C44 ∧
    c 3 4 = C45 ∧ c 3 5 = C46 ∧ c 4 4 = C55 ∧ c 4 5 = C56 ∧ c 5 5 = C66 := by
  simp [m6, ctor_C11_C12_C13_C14_C15_C16_C22_C23_C24_C25_C26_C33_C34_C35_C36_C44_C45_C46_C55_C56_C66]
end named

end Atomman.C11
