/-
  C12 helper lemmas: `Cx K` (complex numbers as pairs over an ordered field `K`) is a field of
  characteristic zero, with the model's own `+ - * ⁻¹ /` as operations, and complex conjugation is a ring
  automorphism.  Hence every theorem of `Proofs/C12.lean` stated for an arbitrary field `F` applies to the
  very type the driver computes with (`Cx Rat`).
-/
import Atomman.C12
import Mathlib.Tactic.Ring
import Mathlib.Tactic.LinearCombination
import Mathlib.Tactic.FieldSimp
import Mathlib.Tactic.Positivity
import Mathlib.Tactic.Linarith
import Mathlib.Tactic.FinCases
import Mathlib.Algebra.Field.Basic
import Mathlib.Algebra.Order.Field.Basic
import Mathlib.Algebra.CharZero.Defs
set_option linter.unusedSectionVars false
set_option linter.unnecessarySeqFocus false

namespace Atomman.C12
namespace Cx
variable {K : Type}

@[ext] theorem ext' {a b : Cx K} (hr : a.re = b.re) (hi : a.im = b.im) : a = b := by
  cases a; cases b; simp_all

section ring
variable [CommRing K]
@[simp] theorem add_re (a b : Cx K) : (a + b).re = a.re + b.re := rfl
@[simp] theorem add_im (a b : Cx K) : (a + b).im = a.im + b.im := rfl
@[simp] theorem sub_re (a b : Cx K) : (a - b).re = a.re - b.re := rfl
@[simp] theorem sub_im (a b : Cx K) : (a - b).im = a.im - b.im := rfl
@[simp] theorem neg_re (a : Cx K) : (-a).re = -a.re := rfl
@[simp] theorem neg_im (a : Cx K) : (-a).im = -a.im := rfl
@[simp] theorem mul_re (a b : Cx K) : (a * b).re = a.re * b.re - a.im * b.im := rfl
@[simp] theorem mul_im (a b : Cx K) : (a * b).im = a.re * b.im + a.im * b.re := rfl
@[simp] theorem zero_re : (0 : Cx K).re = 0 := rfl
@[simp] theorem zero_im : (0 : Cx K).im = 0 := rfl
@[simp] theorem one_re : (1 : Cx K).re = 1 := rfl
@[simp] theorem one_im : (1 : Cx K).im = 0 := rfl
@[simp] theorem natCast_re (n : ℕ) : ((n : Cx K)).re = n := rfl
@[simp] theorem natCast_im (n : ℕ) : ((n : Cx K)).im = 0 := rfl
@[simp] theorem intCast_re (n : ℤ) : ((n : Cx K)).re = n := rfl
@[simp] theorem intCast_im (n : ℤ) : ((n : Cx K)).im = 0 := rfl

instance instCommRing : CommRing (Cx K) where
  add := (· + ·)
  zero := 0
  neg := Neg.neg
  sub := (· - ·)
  mul := (· * ·)
  one := 1
  natCast := fun n => ((n : ℕ) : Cx K)
  nsmul := nsmulRec
  zsmul := zsmulRec
  intCast := fun n => ((n : ℤ) : Cx K)
  add_assoc := by intros; ext <;> simp <;> ring
  zero_add := by intros; ext <;> simp
  add_zero := by intros; ext <;> simp
  add_comm := by intros; ext <;> simp <;> ring
  neg_add_cancel := by intros; ext <;> simp
  sub_eq_add_neg := by intros; ext <;> simp <;> ring
  mul_assoc := by intros; ext <;> simp <;> ring
  one_mul := by intros; ext <;> simp
  mul_one := by intros; ext <;> simp
  left_distrib := by intros; ext <;> simp <;> ring
  right_distrib := by intros; ext <;> simp <;> ring
  mul_comm := by intros; ext <;> simp <;> ring
  zero_mul := by intros; ext <;> simp
  mul_zero := by intros; ext <;> simp
  natCast_zero := by ext <;> simp
  natCast_succ := by intros; ext <;> simp
  intCast_ofNat := by intros; ext <;> simp
  intCast_negSucc := by intros; ext <;> simp
end ring

section field
variable [Field K] [LinearOrder K] [IsStrictOrderedRing K]

@[simp] theorem inv_re (a : Cx K) : (a⁻¹).re = a.re / (a.re * a.re + a.im * a.im) := rfl
@[simp] theorem inv_im (a : Cx K) : (a⁻¹).im = (-a.im) / (a.re * a.re + a.im * a.im) := rfl

theorem normSq_ne_zero {a : Cx K} (h : a ≠ 0) : a.re * a.re + a.im * a.im ≠ 0 := by
  intro h0
  have h1 : a.re = 0 := by nlinarith [mul_self_nonneg a.re, mul_self_nonneg a.im]
  have h2 : a.im = 0 := by nlinarith [mul_self_nonneg a.re, mul_self_nonneg a.im]
  exact h (by ext <;> simp [h1, h2])

instance instField : Field (Cx K) where
  toCommRing := instCommRing
  inv := Inv.inv
  div := (· / ·)
  div_eq_mul_inv := by intros; rfl
  exists_pair_ne := ⟨0, 1, by intro h; have := congrArg Cx.re h; simp at this⟩
  mul_inv_cancel := by
    intro a h
    have hn := normSq_ne_zero h
    ext
    · show a.re * (a.re / (a.re * a.re + a.im * a.im)) - a.im * ((-a.im) / (a.re * a.re + a.im * a.im)) = 1
      have e : a.re * (a.re / (a.re * a.re + a.im * a.im)) - a.im * ((-a.im) / (a.re * a.re + a.im * a.im))
          = (a.re * a.re + a.im * a.im) / (a.re * a.re + a.im * a.im) := by ring
      rw [e, div_self hn]
    · show a.re * ((-a.im) / (a.re * a.re + a.im * a.im)) + a.im * (a.re / (a.re * a.re + a.im * a.im)) = 0
      ring
  inv_zero := by ext <;> simp
  nnqsmul := _
  nnqsmul_def := fun _ _ => rfl
  qsmul := _
  qsmul_def := fun _ _ => rfl

instance : CharZero (Cx K) where
  cast_injective := by
    intro a b h
    have := congrArg Cx.re h
    simpa using this

@[simp] theorem conj_re (a : Cx K) : (conj a).re = a.re := rfl
@[simp] theorem conj_im (a : Cx K) : (conj a).im = -a.im := rfl
theorem conj_add (a b : Cx K) : conj (a + b) = conj a + conj b := by ext <;> simp <;> ring
theorem conj_sub (a b : Cx K) : conj (a - b) = conj a - conj b := by ext <;> simp <;> ring
theorem conj_neg (a : Cx K) : conj (-a) = -conj a := by ext <;> simp
theorem conj_mul (a b : Cx K) : conj (a * b) = conj a * conj b := by ext <;> simp <;> ring
theorem conj_inv (a : Cx K) : conj (a⁻¹) = (conj a)⁻¹ := by ext <;> simp <;> ring
theorem conj_div (a b : Cx K) : conj (a / b) = conj a / conj b := by
  rw [div_eq_mul_inv, div_eq_mul_inv, conj_mul, conj_inv]
theorem conj_natCast (n : ℕ) : conj ((n : ℕ) : Cx K) = n := by ext <;> simp
theorem conj_one : conj (1 : Cx K) = 1 := by ext <;> simp
theorem conj_conj (a : Cx K) : conj (conj a) = a := by ext <;> simp
theorem conj_I : conj (I : Cx K) = -I := by ext <;> simp [I]
theorem I_mul_I : (I : Cx K) * I = -1 := by ext <;> simp [I]
theorem I_ne_zero : (I : Cx K) ≠ 0 := by
  intro h; have := congrArg Cx.im h; simp [I] at this
/-- a number equal to its conjugate is real -/
theorem im_eq_zero_of_conj_eq {a : Cx K} (h : conj a = a) : a.im = 0 := by
  have := congrArg Cx.im h
  simp at this
  linarith
end field
end Cx

section frame
variable {K : Type} [Field K]

/-- an orthonormal pair `m, n` and `ξ = m × n` resolve the identity: `v = (v·m) m + (v·n) n + (v·ξ) ξ`. -/
theorem frame_resolution (m n v : Vec K) (hm : dot m m = 1) (hn : dot n n = 1) (hmn : dot m n = 0) (c : Fin 3) :
    v c = dot v m * m c + dot v n * n c + dot v (cross m n) * cross m n c := by
  simp only [dot, sum3] at hm hn hmn
  fin_cases c
  · simp only [dot, cross, sum3]; simp
    linear_combination (-(v 0 * (n 0 * n 0 + n 1 * n 1 + n 2 * n 2)) + (v 0 * n 0 + v 1 * n 1 + v 2 * n 2) * n 0) * hm
      + (-(v 0) + (v 0 * m 0 + v 1 * m 1 + v 2 * m 2) * m 0) * hn
      + (v 0 * (m 0 * n 0 + m 1 * n 1 + m 2 * n 2) - ((v 0 * m 0 + v 1 * m 1 + v 2 * m 2) * n 0 + (v 0 * n 0 + v 1 * n 1 + v 2 * n 2) * m 0)) * hmn
  · simp only [dot, cross, sum3]; simp
    linear_combination (-(v 1 * (n 0 * n 0 + n 1 * n 1 + n 2 * n 2)) + (v 0 * n 0 + v 1 * n 1 + v 2 * n 2) * n 1) * hm
      + (-(v 1) + (v 0 * m 0 + v 1 * m 1 + v 2 * m 2) * m 1) * hn
      + (v 1 * (m 0 * n 0 + m 1 * n 1 + m 2 * n 2) - ((v 0 * m 0 + v 1 * m 1 + v 2 * m 2) * n 1 + (v 0 * n 0 + v 1 * n 1 + v 2 * n 2) * m 1)) * hmn
  · simp only [dot, cross, sum3]; simp
    linear_combination (-(v 2 * (n 0 * n 0 + n 1 * n 1 + n 2 * n 2)) + (v 0 * n 0 + v 1 * n 1 + v 2 * n 2) * n 2) * hm
      + (-(v 2) + (v 0 * m 0 + v 1 * m 1 + v 2 * m 2) * m 2) * hn
      + (v 2 * (m 0 * n 0 + m 1 * n 1 + m 2 * n 2) - ((v 0 * m 0 + v 1 * m 1 + v 2 * m 2) * n 2 + (v 0 * n 0 + v 1 * n 1 + v 2 * n 2) * m 2)) * hmn

end frame
end Atomman.C12
